import SunriseVerif.Props.C20
import Mathlib.Algebra.Field.Defs
import Mathlib.Data.Fintype.EquivFin
/-!
C20 — the bridge from the EXECUTABLE GF(2^8) of `Model/RS.lean` (tables, `gmul`, `ginv`, `gexp`, `dot`, `codeShards`,
`Mat.mul`, `Mat.invert`) to the abstract field of `Props/C20.lean`, BY PROOF (no `native_decide`; kernel `decide` only on
≤ 256-element domains; nothing enumerates pairs or triples).

§1–§5  field laws of the executable operations, for ALL bytes:
  * `xtime` is xor-linear and injective; `E n = xtime^n 1` has order exactly 255 (`E_255`, `E_inj`), hence every
    non-zero byte is a power (`exists_log`, pigeonhole);
  * the TABLES are characterised through the loops that fill them, not by evaluation: `expTable_get` (`expTable[n] = E n`,
    n < 512), `glog_E` (`logTable` inverts `E` on [0,255));
  * `gmul_E : gmul (E i) (E j) = E (i+j)` ⇒ `gmul_comm`, `gmul_assoc`, `gmul_one`, `one_gmul`, `gmul_zero_left/right`,
    `gmul_eq_zero` (no zero divisors), `gmul_ginv` (inverse), `gexp_succ` (`galExp` = power);
  * `gmulSlow` (shift-and-add) is additive in its first argument and commutes with `xtime` (induction on the 8 rounds) ⇒
    `gmul_eq_gmulSlow` (table = shift-and-add for all 65 536 pairs) ⇒ `gmul_xor_left/right` (distributivity).
§6     `GF256`: `Field` instance whose `+ * ⁻¹ ^` ARE `gadd gmul ginv gexp` (`0⁻¹ := 0`; Go panics there, never called).
§7     `gf256_any_k_rows_invertible`, `gf256_reconstruct_exact`, `gf256_surviving_shards_determine_data`, `gf256_encode_top`,
       `gf256_fewer_than_k_rows_ambiguous`: the recovery theorems at the executable field, nodes = bytes `0..n-1`, `n ≤ 256`;
       `vandermonde_get`: the executable `vandermonde n k` IS `vand (node n) k`.
§8     `dot_eq`, `codeShards_eq`, `Mat.mul_eq`: the executable matrix arithmetic is the matrix product over `GF256`.
§9     `invert_eq_spec`: `Mat.invert` (nested `for` loops, `mut`, early `return none`) = the functional Gauss–Jordan
       `invertSpec` (folds + `Option`) — the loop plumbing is discharged.
§10    `mul_identity_sound`, `codeShards_certified_decode_partial`, `buildMatrix_certified_partial`: IF the executable check
       `Mat.mul m' m = Mat.identity k` holds for the matrix `m'` that `Mat.invert` returned, THEN `m'` is the inverse over
       `GF256`, the generator the model builds is the abstract `gen (node n) hk`, and the data bytes recomputed by
       `codeShards` are the abstract `decode`.

STILL TRUSTED (not proved here): that `Mat.invert` (= `invertSpec`, proved) returns a LEFT INVERSE whenever it returns
`some`, and returns `some` whenever the matrix is invertible (Gauss–Jordan correctness: invariant "every row `[l | r]` of
the augmented matrix satisfies `r·M = l`" — preserved by swap/scale/add-scaled, `r·M = l` is linear in the row — plus
"after pivot `r` the first `r+1` columns of the left block are unit vectors"). Until then the certificate check of §10 is
the (run-time checkable) hypothesis; and the list/`Option` plumbing of `reconstruct`/`encodeParity` around
`buildMatrix`/`codeShards` (`firstPresent`, `getD`, `dataFilled`) is not connected to `rows : Fin k → Fin n`.
-/
set_option linter.unusedSimpArgs false
namespace Sunrise.C20Field
open Sunrise Sunrise.RS

/-! ## 0. quantifying over the 256 bytes -/

theorem forall_uint8 {P : UInt8 → Prop} (h : ∀ n < 256, P (UInt8.ofNat n)) : ∀ a, P a := by
  intro a
  have := h a.toNat a.toNat_lt
  rwa [UInt8.ofNat_toNat] at this

theorem ofFn_get! {α : Type} [Inhabited α] {n : Nat} (f : Fin n → α) {i : Nat} (h : i < n) :
    (Array.ofFn f)[i]! = f ⟨i, h⟩ := by
  rw [getElem!_def, Array.getElem?_ofFn, dif_pos h]

theorem xor_cancel (a b : UInt8) : a ^^^ (a ^^^ b) = b := by
  rw [← UInt8.xor_assoc, UInt8.xor_self, UInt8.zero_xor]

/-! ## 1. `xtime` (multiplication by the generator 2) is linear and injective -/

theorem hi_bit_cases : ∀ a : UInt8, a &&& 0x80 = 0 ∨ a &&& 0x80 = 0x80 :=
  forall_uint8 (by decide +kernel)

theorem hi_bit_xor (a b : UInt8) : (a ^^^ b) &&& 0x80 = (a &&& 0x80) ^^^ (b &&& 0x80) := by
  apply UInt8.toBitVec_inj.mp
  simp only [UInt8.toBitVec_and, UInt8.toBitVec_xor]
  ext i hi
  simp only [BitVec.getElem_and, BitVec.getElem_xor]
  cases a.toBitVec[i] <;> cases b.toBitVec[i] <;> cases (UInt8.toBitVec 128)[i] <;> rfl

theorem xtime_xor (a b : UInt8) : xtime (a ^^^ b) = xtime a ^^^ xtime b := by
  unfold xtime
  rw [hi_bit_xor, UInt8.shiftLeft_xor]
  rcases hi_bit_cases a with ha | ha <;> rcases hi_bit_cases b with hb | hb <;> rw [ha, hb]
  · simp
  · have : (0 : UInt8) ^^^ 0x80 ≠ 0 := by decide
    have h2 : (0x80 : UInt8) ≠ 0 := by decide
    simp only [this, h2, if_true, if_false]
    rw [UInt8.xor_assoc]
  · have : (0x80 : UInt8) ^^^ 0 ≠ 0 := by decide
    have h2 : (0x80 : UInt8) ≠ 0 := by decide
    simp only [this, h2, if_true, if_false]
    rw [UInt8.xor_assoc, UInt8.xor_assoc, UInt8.xor_comm 29]
  · have : (0x80 : UInt8) ^^^ 0x80 = 0 := by decide
    have h2 : (0x80 : UInt8) ≠ 0 := by decide
    simp only [this, h2, if_true, if_false]
    rw [UInt8.xor_assoc, UInt8.xor_comm 29, UInt8.xor_assoc, UInt8.xor_self, UInt8.xor_zero]

theorem xtime_zero : xtime 0 = 0 := by decide

/-- the inverse of `xtime` (division by 2 in the field) -/
def xinv (b : UInt8) : UInt8 := if b &&& 1 = 0 then b >>> 1 else ((b ^^^ 0x1D) >>> 1) ||| 0x80

theorem xinv_xtime : ∀ a, xinv (xtime a) = a := forall_uint8 (by decide +kernel)

theorem xtime_inj {a b : UInt8} (h : xtime a = xtime b) : a = b := by
  rw [← xinv_xtime a, ← xinv_xtime b, h]

theorem xtime_ne_zero {a : UInt8} (h : a ≠ 0) : xtime a ≠ 0 := fun e => h (xtime_inj (e.trans xtime_zero.symm))


/-! ## 2. powers of the generator: `E n = 2^n`, order 255 -/

/-- `E n = 2^n` by repeated `xtime` (the recurrence that fills `expTable`) -/
def E : Nat → UInt8
  | 0 => 1
  | n + 1 => xtime (E n)

theorem E_ne_zero : ∀ n, E n ≠ 0
  | 0 => by decide
  | n + 1 => xtime_ne_zero (E_ne_zero n)

theorem E_255 : E 255 = 1 := by decide +kernel
theorem E_lt_255_ne_one : ∀ d < 255, 0 < d → E d ≠ 1 := by decide +kernel

theorem E_add_255 : ∀ n, E (n + 255) = E n
  | 0 => E_255
  | n + 1 => by show xtime (E (n + 255)) = xtime (E n); rw [E_add_255 n]

theorem E_mod (n : Nat) : E n = E (n % 255) := by
  induction n using Nat.strongRecOn with
  | _ n ih =>
    by_cases h : n < 255
    · rw [Nat.mod_eq_of_lt h]
    · have e : n = (n - 255) + 255 := by omega
      rw [e, E_add_255, Nat.add_mod_right]
      exact ih _ (by omega)

theorem E_cancel : ∀ (i d : Nat), E i = E (i + d) → E d = 1
  | 0, d, h => by rw [Nat.zero_add] at h; exact h.symm
  | i + 1, d, h => by
    have e : i + 1 + d = (i + d) + 1 := by omega
    rw [e] at h
    exact E_cancel i d (xtime_inj h)

/-- the generator has order exactly 255: `E` is injective on `[0,255)` -/
theorem E_inj {i j : Nat} (hi : i < 255) (hj : j < 255) (h : E i = E j) : i = j := by
  rcases Nat.lt_trichotomy i j with hlt | heq | hgt
  · have e : j = i + (j - i) := by omega
    rw [e] at h
    exact absurd (E_cancel i _ h) (E_lt_255_ne_one _ (by omega) (by omega))
  · exact heq
  · have e : i = j + (i - j) := by omega
    rw [e] at h
    exact absurd (E_cancel j _ h.symm) (E_lt_255_ne_one _ (by omega) (by omega))

theorem toNat_pos {a : UInt8} (h : a ≠ 0) : 0 < a.toNat := by
  rcases Nat.eq_zero_or_pos a.toNat with h0 | h0
  · exact absurd (UInt8.toNat_inj.mp (h0.trans (by rfl) : a.toNat = (0 : UInt8).toNat)) h
  · exact h0

/-- every non-zero byte is a power of the generator (pigeonhole on the 255 non-zero bytes) -/
theorem exists_log {a : UInt8} (h : a ≠ 0) : ∃ i < 255, E i = a := by
  let f : Fin 255 → Fin 255 := fun i => ⟨(E i).toNat - 1, by
    have := (E i).toNat_lt; have := toNat_pos (E_ne_zero i); omega⟩
  have hf : Function.Injective f := by
    intro i j hij
    have h1 := toNat_pos (E_ne_zero i); have h2 := toNat_pos (E_ne_zero j)
    have : (E i).toNat = (E j).toNat := by
      have := congrArg Fin.val hij
      simp only [f] at this
      omega
    exact Fin.ext (E_inj i.isLt j.isLt (UInt8.toNat_inj.mp this))
  have ha := toNat_pos h
  obtain ⟨i, hi⟩ := (Finite.injective_iff_surjective.mp hf) ⟨a.toNat - 1, by have := a.toNat_lt; omega⟩
  refine ⟨i, i.isLt, UInt8.toNat_inj.mp ?_⟩
  have := congrArg Fin.val hi
  simp only [f] at this
  have h1 := toNat_pos (E_ne_zero i)
  omega


/-! ## 3. the tables: `expTable[n] = E n` (n < 512), `glog (E i) = i` (i < 255) — by the loops that fill them -/

theorem expLoop (l : List Nat) : ∀ (t : Array UInt8) (k : Nat), t.size = k → (∀ i < k, t[i]? = some (E i)) →
    ((l.foldl (fun (s : Array UInt8 × UInt8) _ => (s.1.push s.2, xtime s.2)) (t, E k)).1.size = k + l.length ∧
     ∀ i < k + l.length,
       (l.foldl (fun (s : Array UInt8 × UInt8) _ => (s.1.push s.2, xtime s.2)) (t, E k)).1[i]? = some (E i)) := by
  induction l with
  | nil => intro t k hs ht; exact ⟨by simpa using hs, by simpa using ht⟩
  | cons x l ih =>
    intro t k hs ht
    simp only [List.foldl_cons, List.length_cons]
    have := ih (t.push (E k)) (k + 1) (by simp [hs]) (by
      intro i hi
      rw [Array.getElem?_push, hs]
      split
      · next h => rw [h]
      · exact ht i (by omega))
    have e : k + 1 + l.length = k + (l.length + 1) := by omega
    rw [e] at this
    exact this

theorem expTable_get {n : Nat} (h : n < 512) : expTable[n]! = E n := by
  have := (expLoop (List.range' 0 512 1) (Array.mkEmpty 512) 0 rfl (by intro i hi; omega)).2 n (by simpa using h)
  unfold expTable
  simp only [Std.Legacy.Range.forIn_eq_forIn_range', Std.Legacy.Range.size, List.forIn_pure_yield_eq_foldl,
    bind_pure_comp, map_pure, Id.run_pure, bind_pure, pure_bind, Id.run_bind]
  rw [getElem!_def]
  simp only [E] at this
  simp only [Id.run_map, Id.run_pure, Nat.sub_zero, Nat.add_one_sub_one, Nat.div_one]
  rw [this]


theorem setLoop_size (key : Nat → Nat) (l : List Nat) : ∀ (t : Array UInt8),
    (l.foldl (fun (s : Array UInt8) i => s.set! (key i) (UInt8.ofNat i)) t).size = t.size := by
  induction l with
  | nil => intro t; rfl
  | cons x l ih => intro t; simp only [List.foldl_cons]; rw [ih]; simp

theorem setLoop_other (key : Nat → Nat) (l : List Nat) : ∀ (t : Array UInt8) (k : Nat), (∀ i ∈ l, key i ≠ k) →
    (l.foldl (fun (s : Array UInt8) i => s.set! (key i) (UInt8.ofNat i)) t)[k]? = t[k]? := by
  induction l with
  | nil => intro t k _; rfl
  | cons x l ih =>
    intro t k h
    simp only [List.foldl_cons]
    rw [ih _ k (fun i hi => h i (List.mem_cons_of_mem _ hi)), Array.set!_eq_setIfInBounds,
      Array.getElem?_setIfInBounds, if_neg (h x List.mem_cons_self)]

theorem setLoop_get (key : Nat → Nat) (l : List Nat) : ∀ (t : Array UInt8), (∀ i ∈ l, key i < t.size) →
    l.Pairwise (fun i j => key i ≠ key j) → ∀ i ∈ l,
    (l.foldl (fun (s : Array UInt8) i => s.set! (key i) (UInt8.ofNat i)) t)[key i]? = some (UInt8.ofNat i) := by
  induction l with
  | nil => intro t _ _ i hi; simp at hi
  | cons x l ih =>
    intro t hk hp i hi
    simp only [List.foldl_cons]
    rw [List.pairwise_cons] at hp
    rcases List.mem_cons.mp hi with rfl | hi'
    · rw [setLoop_other key l _ _ (fun j hj => (hp.1 j hj).symm), Array.set!_eq_setIfInBounds,
        Array.getElem?_setIfInBounds, if_pos rfl, if_pos (hk _ List.mem_cons_self)]
    · exact ih _ (fun j hj => by simpa using hk j (List.mem_cons_of_mem _ hj)) hp.2 i hi'

/-- `logTable` inverts `E` on `[0,255)` -/
theorem glog_E {i : Nat} (hi : i < 255) : glog (E i) = i := by
  have hkey : ∀ j ∈ List.range' 0 255 1, (expTable[j]!).toNat < (Array.replicate 256 (0 : UInt8)).size := by
    intro j _; simpa using (expTable[j]!).toNat_lt
  have hpw : (List.range' 0 255 1).Pairwise (fun a b => (expTable[a]!).toNat ≠ (expTable[b]!).toNat) := by
    rw [List.pairwise_iff_getElem]
    intro a b ha hb hab
    simp only [List.length_range'] at ha hb
    simp only [List.getElem_range', Nat.zero_add, Nat.one_mul]
    rw [expTable_get (by omega), expTable_get (by omega)]
    intro h
    have := E_inj (by omega) (by omega) (UInt8.toNat_inj.mp h)
    omega
  have := setLoop_get (fun j => (expTable[j]!).toNat) (List.range' 0 255 1) (Array.replicate 256 0) hkey hpw i
    (by simp [List.mem_range']; omega)
  unfold glog logTable
  simp only [Std.Legacy.Range.forIn_eq_forIn_range', Std.Legacy.Range.size, List.forIn_pure_yield_eq_foldl,
    bind_pure_comp, map_pure, Id.run_pure, bind_pure, pure_bind, Id.run_bind]
  simp only [Nat.sub_zero, Nat.add_one_sub_one, Nat.div_one]
  simp only [expTable_get (show i < 512 by omega)] at this
  rw [getElem!_def, this]
  show (UInt8.ofNat i).toNat = i
  rw [UInt8.toNat_ofNat']
  omega


theorem glog_E_mod (n : Nat) : glog (E n) = n % 255 := by
  rw [E_mod n]; exact glog_E (Nat.mod_lt _ (by decide))

theorem glog_lt {a : UInt8} (h : a ≠ 0) : glog a < 255 := by
  obtain ⟨i, hi, rfl⟩ := exists_log h
  rw [glog_E hi]; exact hi

theorem E_glog {a : UInt8} (h : a ≠ 0) : E (glog a) = a := by
  obtain ⟨i, hi, rfl⟩ := exists_log h
  rw [glog_E hi]

/-! ## 4. the table product `gmul` in terms of `E` -/

theorem gmul_zero_left (b : UInt8) : gmul 0 b = 0 := by simp [gmul]
theorem gmul_zero_right (a : UInt8) : gmul a 0 = 0 := by simp [gmul]

theorem gmul_of_ne_zero {a b : UInt8} (ha : a ≠ 0) (hb : b ≠ 0) : gmul a b = E (glog a + glog b) := by
  unfold gmul
  have : (a = 0 || b = 0) = false := by simp [ha, hb]
  rw [this]
  simp only [Bool.false_eq_true, if_false]
  exact expTable_get (by have := glog_lt ha; have := glog_lt hb; omega)

/-- `2^i · 2^j = 2^(i+j)` for the table product, all `i j` -/
theorem gmul_E (i j : Nat) : gmul (E i) (E j) = E (i + j) := by
  rw [gmul_of_ne_zero (E_ne_zero i) (E_ne_zero j), glog_E_mod, glog_E_mod, E_mod, E_mod (i + j)]
  congr 1
  omega

theorem gmul_comm (a b : UInt8) : gmul a b = gmul b a := by
  by_cases ha : a = 0
  · subst ha; rw [gmul_zero_left, gmul_zero_right]
  by_cases hb : b = 0
  · subst hb; rw [gmul_zero_left, gmul_zero_right]
  rw [gmul_of_ne_zero ha hb, gmul_of_ne_zero hb ha, Nat.add_comm]

theorem gmul_ne_zero {a b : UInt8} (ha : a ≠ 0) (hb : b ≠ 0) : gmul a b ≠ 0 := by
  rw [gmul_of_ne_zero ha hb]; exact E_ne_zero _

/-- no zero divisors -/
theorem gmul_eq_zero {a b : UInt8} : gmul a b = 0 ↔ a = 0 ∨ b = 0 := by
  constructor
  · intro h
    by_cases ha : a = 0
    · exact Or.inl ha
    by_cases hb : b = 0
    · exact Or.inr hb
    exact absurd h (gmul_ne_zero ha hb)
  · rintro (rfl | rfl)
    · exact gmul_zero_left _
    · exact gmul_zero_right _

theorem gmul_assoc (a b c : UInt8) : gmul (gmul a b) c = gmul a (gmul b c) := by
  by_cases ha : a = 0
  · subst ha; simp only [gmul_zero_left]
  by_cases hb : b = 0
  · subst hb; simp only [gmul_zero_left, gmul_zero_right]
  by_cases hc : c = 0
  · subst hc; simp only [gmul_zero_right]
  rw [← E_glog ha, ← E_glog hb, ← E_glog hc]
  simp only [gmul_E, Nat.add_assoc]

theorem gmul_one (a : UInt8) : gmul a 1 = a := by
  by_cases ha : a = 0
  · subst ha; exact gmul_zero_left _
  have : gmul a (E 0) = a := by
    conv => lhs; rw [← E_glog ha]
    rw [gmul_E, Nat.add_zero, E_glog ha]
  exact this

theorem one_gmul (a : UInt8) : gmul 1 a = a := by rw [gmul_comm, gmul_one]

theorem ginv_eq (a : UInt8) : ginv a = E (255 - glog a) := by
  unfold ginv
  exact expTable_get (by omega)

/-- every non-zero element has the inverse `ginv` -/
theorem gmul_ginv {a : UInt8} (ha : a ≠ 0) : gmul a (ginv a) = 1 := by
  rw [ginv_eq a]
  conv => lhs; arg 1; rw [← E_glog ha]
  rw [gmul_E]
  have := glog_lt ha
  have e : glog a + (255 - glog a) = 0 + 255 := by omega
  rw [e, E_add_255]
  rfl

theorem ginv_ne_zero (a : UInt8) : ginv a ≠ 0 := by rw [ginv_eq a]; exact E_ne_zero _

/-- `galExp` is the power function of the field -/
theorem gexp_succ (a : UInt8) (n : Nat) : gexp a (n + 1) = gmul (gexp a n) a := by
  unfold gexp
  simp only [Nat.add_eq_zero_iff, Nat.succ_ne_zero, and_false, if_false]
  by_cases ha : a = 0
  · subst ha; simp [gmul_zero_right]
  simp only [ha, if_false]
  have hl : ∀ m, expTable[m % 255]! = E m := fun m => by
    rw [expTable_get (by have := Nat.mod_lt m (show 0 < 255 by decide); omega), ← E_mod]
  rw [hl]
  by_cases hn : n = 0
  · subst hn; simp only [if_true, Nat.zero_add, Nat.mul_one, one_gmul]; exact E_glog ha
  simp only [hn, if_false]
  rw [hl]
  conv => rhs; arg 2; rw [← E_glog ha]
  rw [gmul_E, Nat.mul_succ]


/-! ## 5. shift-and-add product `gmulSlow`: linear in the first argument, commutes with `xtime`; table = shift-and-add -/

theorem go_xor (n : Nat) : ∀ (a a' b r r' : UInt8),
    gmulSlow.go n (a ^^^ a') b (r ^^^ r') = gmulSlow.go n a b r ^^^ gmulSlow.go n a' b r' := by
  induction n with
  | zero => intro a a' b r r'; rfl
  | succ n ih =>
    intro a a' b r r'
    simp only [gmulSlow.go]
    rw [xtime_xor]
    split
    · exact ih ..
    · have e : r ^^^ r' ^^^ (a ^^^ a') = (r ^^^ a) ^^^ (r' ^^^ a') := by
        rw [UInt8.xor_assoc, UInt8.xor_assoc, ← UInt8.xor_assoc r' a a', UInt8.xor_comm r' a, UInt8.xor_assoc]
      rw [e]; exact ih ..

theorem go_xtime (n : Nat) : ∀ (a b r : UInt8),
    gmulSlow.go n (xtime a) b (xtime r) = xtime (gmulSlow.go n a b r) := by
  induction n with
  | zero => intro a b r; rfl
  | succ n ih =>
    intro a b r
    simp only [gmulSlow.go]
    split
    · exact ih ..
    · rw [← xtime_xor]; exact ih ..

theorem go_zero_right (n : Nat) : ∀ (a r : UInt8), gmulSlow.go n a 0 r = r := by
  induction n with
  | zero => intro a r; rfl
  | succ n ih =>
    intro a r
    simp only [gmulSlow.go]
    have h1 : (0 : UInt8) &&& 1 = 0 := by decide
    have h2 : (0 : UInt8) >>> 1 = 0 := by decide
    rw [if_pos h1, h2]; exact ih ..

/-- the shift-and-add product is additive in its first argument -/
theorem gmulSlow_xor_left (a a' b : UInt8) : gmulSlow (a ^^^ a') b = gmulSlow a b ^^^ gmulSlow a' b := by
  unfold gmulSlow
  have := go_xor 8 a a' b 0 0
  rwa [UInt8.xor_zero] at this

theorem gmulSlow_xtime_left (a b : UInt8) : gmulSlow (xtime a) b = xtime (gmulSlow a b) := by
  unfold gmulSlow
  have := go_xtime 8 a b 0
  rwa [xtime_zero] at this

theorem gmulSlow_zero_left (b : UInt8) : gmulSlow 0 b = 0 := by
  have := gmulSlow_xor_left 0 0 b
  rwa [UInt8.xor_self, UInt8.xor_self] at this

theorem gmulSlow_zero_right (a : UInt8) : gmulSlow a 0 = 0 := go_zero_right 8 a 0

theorem gmulSlow_one_left : ∀ b, gmulSlow 1 b = b := forall_uint8 (by decide +kernel)

theorem gmulSlow_E (i j : Nat) : gmulSlow (E i) (E j) = E (i + j) := by
  induction i with
  | zero => rw [Nat.zero_add]; exact gmulSlow_one_left _
  | succ i ih =>
    show gmulSlow (xtime (E i)) (E j) = _
    rw [gmulSlow_xtime_left, ih, Nat.add_right_comm]
    rfl

/-- **table product = shift-and-add product**, all 65 536 pairs, by algebra (no enumeration of pairs) -/
theorem gmul_eq_gmulSlow (a b : UInt8) : gmul a b = gmulSlow a b := by
  by_cases ha : a = 0
  · subst ha; rw [gmul_zero_left, gmulSlow_zero_left]
  by_cases hb : b = 0
  · subst hb; rw [gmul_zero_right, gmulSlow_zero_right]
  rw [← E_glog ha, ← E_glog hb, gmul_E, gmulSlow_E]

/-- distributivity over xor (addition of the field) -/
theorem gmul_xor_left (a a' b : UInt8) : gmul (a ^^^ a') b = gmul a b ^^^ gmul a' b := by
  simp only [gmul_eq_gmulSlow, gmulSlow_xor_left]

theorem gmul_xor_right (a b b' : UInt8) : gmul a (b ^^^ b') = gmul a b ^^^ gmul a b' := by
  rw [gmul_comm, gmul_xor_left, gmul_comm b, gmul_comm b']


/-! ## 6. the field `GF256` whose operations ARE the executable ones -/

/-- a byte, read as an element of GF(2^8); `+` is `gadd` (xor), `*` is the table product `gmul`, `⁻¹` is `ginv`
    (with `0⁻¹ = 0`: the Go library panics in `galOneOver(0)`, the model's `ginv 0` is never used) -/
@[ext] structure GF256 where
  val : UInt8
deriving DecidableEq

namespace GF256
instance : Zero GF256 := ⟨⟨0⟩⟩
instance : One GF256 := ⟨⟨1⟩⟩
instance : Add GF256 := ⟨fun a b => ⟨gadd a.val b.val⟩⟩
instance : Neg GF256 := ⟨fun a => a⟩
instance : Sub GF256 := ⟨fun a b => ⟨gadd a.val b.val⟩⟩
instance : Mul GF256 := ⟨fun a b => ⟨gmul a.val b.val⟩⟩
instance : Inv GF256 := ⟨fun a => if a.val = 0 then ⟨0⟩ else ⟨ginv a.val⟩⟩
instance : Div GF256 := ⟨fun a b => a * b⁻¹⟩

@[simp] theorem zero_val : (0 : GF256).val = 0 := rfl
@[simp] theorem one_val : (1 : GF256).val = 1 := rfl
@[simp] theorem add_val (a b : GF256) : (a + b).val = a.val ^^^ b.val := rfl
@[simp] theorem sub_val (a b : GF256) : (a - b).val = a.val ^^^ b.val := rfl
@[simp] theorem neg_val (a : GF256) : (-a).val = a.val := rfl
@[simp] theorem mul_val (a b : GF256) : (a * b).val = gmul a.val b.val := rfl
theorem inv_val (a : GF256) : (a⁻¹).val = if a.val = 0 then 0 else ginv a.val := by
  show (if a.val = 0 then (⟨0⟩ : GF256) else ⟨ginv a.val⟩).val = _
  split <;> rfl
theorem inv_val_of_ne {a : GF256} (h : a ≠ 0) : (a⁻¹).val = ginv a.val := by
  rw [inv_val]; exact if_neg (fun e => h (GF256.ext e))
theorem div_def (a b : GF256) : a / b = a * b⁻¹ := rfl

instance : Field GF256 where
  add_assoc a b c := GF256.ext (UInt8.xor_assoc ..)
  zero_add a := GF256.ext UInt8.zero_xor
  add_zero a := GF256.ext UInt8.xor_zero
  add_comm a b := GF256.ext (UInt8.xor_comm ..)
  neg_add_cancel a := GF256.ext (UInt8.xor_self (a := a.val))
  sub_eq_add_neg a b := rfl
  nsmul := nsmulRec
  zsmul := zsmulRec
  mul_assoc a b c := GF256.ext (gmul_assoc ..)
  one_mul a := GF256.ext (one_gmul _)
  mul_one a := GF256.ext (gmul_one _)
  mul_comm a b := GF256.ext (gmul_comm ..)
  left_distrib a b c := GF256.ext (gmul_xor_right ..)
  right_distrib a b c := GF256.ext (gmul_xor_left ..)
  zero_mul a := GF256.ext (gmul_zero_left a.val)
  mul_zero a := GF256.ext (gmul_zero_right a.val)
  exists_pair_ne := ⟨0, 1, by decide⟩
  mul_inv_cancel a h := by
    apply GF256.ext
    rw [mul_val, inv_val_of_ne h]
    exact gmul_ginv (fun e => h (GF256.ext e))
  inv_zero := by apply GF256.ext; rw [inv_val]; rfl
  div_eq_mul_inv a b := rfl
  nnqsmul := _
  nnqsmul_def := fun _ _ => rfl
  qsmul := _
  qsmul_def := fun _ _ => rfl

/-- powers in the field are `galExp` -/
theorem pow_val (a : GF256) (n : Nat) : (a ^ n).val = gexp a.val n := by
  induction n with
  | zero => rw [pow_zero]; simp [gexp]
  | succ n ih =>
    rw [pow_succ]
    have : (a ^ n * a).val = gmul (a ^ n).val a.val := rfl
    rw [this, ih, gexp_succ]

end GF256


/-! ## 7. the abstract recovery theorems of `Props/C20.lean`, instantiated at the executable field -/

section Instantiate
open Matrix Sunrise.C20

/-- the evaluation points of klauspost's Vandermonde matrix: row `r` uses the byte `r` -/
def node (n : ℕ) (i : Fin n) : GF256 := ⟨UInt8.ofNat i.val⟩

theorem node_injective {n : ℕ} (hn : n ≤ 256) : Function.Injective (node n) := by
  intro i j h
  have h' : (UInt8.ofNat i.val).toNat = (UInt8.ofNat j.val).toNat := congrArg (fun x => x.val.toNat) h
  rw [UInt8.toNat_ofNat', UInt8.toNat_ofNat'] at h'
  have := i.isLt; have := j.isLt
  exact Fin.ext (by omega)

/-- the executable `vandermonde n k` IS the abstract `vand` on the nodes `0,1,…,n-1` over `GF256` -/
theorem vandermonde_get {n k : ℕ} (r : Fin n) (c : Fin k) :
    (RS.vandermonde n k).get r.val c.val = (vand (node n) k r c).val := by
  unfold RS.vandermonde Mat.get
  simp only [vand, Matrix.of_apply, GF256.pow_val, node]
  rw [ofFn_get! _ r.isLt, ofFn_get! _ c.isLt]

/-- **`any_k_rows_invertible` over the executable field**: for `n ≤ 256` shards, `k ≤ n`, EVERY choice of `k` distinct
    rows of the generator `V·V_top⁻¹` built with the executable `gmul`/`gadd`/`ginv` is invertible. -/
theorem gf256_any_k_rows_invertible {n k : ℕ} (hn : n ≤ 256) (hk : k ≤ n)
    (rows : Fin k → Fin n) (hr : Function.Injective rows) :
    IsUnit ((gen (node n) hk).submatrix rows id).det :=
  any_k_rows_invertible (node n) (node_injective hn) hk rows hr

/-- **`reconstruct_exact` over the executable field**: with `n = data + parity ≤ 256` shards, decoding from ANY `k`
    distinct surviving shards returns exactly the data, for all shard lengths `m`; all sums and products are
    `gadd` (xor) and `gmul` (table product) of `Model/RS.lean`. -/
theorem gf256_reconstruct_exact {n k : ℕ} (hn : n ≤ 256) (hk : k ≤ n)
    (rows : Fin k → Fin n) (hr : Function.Injective rows) {m : ℕ} (D : Matrix (Fin k) (Fin m) GF256) :
    decode (node n) hk rows ((encode (node n) hk D).submatrix rows id) = D :=
  reconstruct_exact (node n) (node_injective hn) hk rows hr D

theorem gf256_surviving_shards_determine_data {n k : ℕ} (hn : n ≤ 256) (hk : k ≤ n)
    (rows : Fin k → Fin n) (hr : Function.Injective rows) {m : ℕ} (D D' : Matrix (Fin k) (Fin m) GF256)
    (h : (encode (node n) hk D).submatrix rows id = (encode (node n) hk D').submatrix rows id) : D = D' :=
  surviving_shards_determine_data (node n) (node_injective hn) hk rows hr D D' h

theorem gf256_encode_top {n k : ℕ} (hn : n ≤ 256) (hk : k ≤ n) {m : ℕ} (D : Matrix (Fin k) (Fin m) GF256) :
    (encode (node n) hk D).submatrix (Fin.castLE hk) id = D :=
  encode_top (node n) (node_injective hn) hk D

theorem gf256_fewer_than_k_rows_ambiguous {n k : ℕ} (hk : k ≤ n) {j : ℕ} (hj : j < k) (rows : Fin j → Fin n) :
    ∃ D D' : Matrix (Fin k) (Fin 1) GF256, D ≠ D' ∧
      (encode (node n) hk D).submatrix rows id = (encode (node n) hk D').submatrix rows id :=
  fewer_than_k_rows_ambiguous (node n) hk hj rows

/-- the bound 256 is sharp: with 257 rows two nodes coincide (byte 256 = byte 0) -/
example : ¬ Function.Injective (node 257) := by
  intro h
  have := @h ⟨0, by decide⟩ ⟨256, by decide⟩ (by decide)
  exact absurd (congrArg Fin.val this) (by decide)

end Instantiate


/-! ## 8. executable matrix arithmetic (`dot`, `codeShards`, `Mat.mul`) = matrix product over `GF256` -/

section MatBridge
open Matrix

/-- read an executable matrix (array of byte rows) as an `r × c` matrix over `GF256` (entries by `Mat.get`) -/
def toMatrix (a : Mat) (r c : ℕ) : Matrix (Fin r) (Fin c) GF256 := Matrix.of fun i j => ⟨a.get i.val j.val⟩

theorem dot_foldl (f : Nat → GF256) (n : Nat) (init : UInt8) :
    (⟨(List.range n).foldl (fun acc i => gadd acc (f i).val) init⟩ : GF256) =
      ⟨init⟩ + ∑ i ∈ Finset.range n, f i := by
  induction n with
  | zero => simp
  | succ n ih =>
    rw [List.range_succ, List.foldl_append, Finset.sum_range_succ, ← add_assoc, ← ih]
    rfl

/-- the executable dot product is the sum of products in `GF256` -/
theorem dot_eq (row : Array UInt8) (col : Nat → UInt8) :
    (⟨dot row col⟩ : GF256) = ∑ i ∈ Finset.range row.size, (⟨row[i]!⟩ : GF256) * ⟨col i⟩ := by
  have := dot_foldl (fun i => (⟨row[i]!⟩ : GF256) * ⟨col i⟩) row.size 0
  rw [show (⟨0⟩ : GF256) = 0 from rfl, zero_add] at this
  rw [← this]
  unfold dot
  simp only [Std.Legacy.Range.forIn_eq_forIn_range', Std.Legacy.Range.size, List.forIn_pure_yield_eq_foldl,
    bind_pure_comp, map_pure, Id.run_pure, bind_pure, pure_bind, Id.run_bind, Nat.sub_zero, Nat.add_one_sub_one,
    Nat.div_one, List.range_eq_range'.symm]
  rfl

/-- **`codeSomeShards` is a matrix product over the executable field**: for coefficient rows of length `k`,
    `codeShards rows inputs size = rows · inputs` entry by entry. -/
theorem codeShards_eq (rows inputs : Mat) (k size : ℕ) (hrows : ∀ i < rows.size, (rows[i]!).size = k) :
    toMatrix (codeShards rows inputs size) rows.size size = toMatrix rows rows.size k * toMatrix inputs k size := by
  apply Matrix.ext; intro i j
  rw [Matrix.mul_apply]
  simp only [toMatrix, Matrix.of_apply, Mat.get, codeShards]
  have hi : i.val < rows.size := i.isLt
  have e1 : (Array.map (fun row => Array.ofFn (n := size) fun j => dot row fun c => (inputs[c]!)[j.val]!) rows)[i.val]! =
      Array.ofFn (n := size) fun j => dot (rows[i.val]!) fun c => (inputs[c]!)[j.val]! := by
    rw [getElem!_def, Array.getElem?_map, getElem!_def, Array.getElem?_eq_getElem hi]
    rfl
  rw [e1, ofFn_get! _ j.isLt, dot_eq, hrows i.val hi, Finset.sum_range]

theorem Mat.mul_eq_codeShards (a b : Mat) :
    Mat.mul a b = codeShards a b (if h : 0 < b.size then b[0].size else 0) := rfl

/-- `Mat.mul` is the matrix product over the executable field -/
theorem Mat.mul_eq (a b : Mat) (k : ℕ) (ha : ∀ i < a.size, (a[i]!).size = k) :
    toMatrix (Mat.mul a b) a.size (if h : 0 < b.size then b[0].size else 0) =
      toMatrix a a.size k * toMatrix b k (if h : 0 < b.size then b[0].size else 0) := by
  rw [Mat.mul_eq_codeShards]; exact codeShards_eq a b k _ ha

end MatBridge


/-! ## 9. `Mat.invert` in functional form (loops as folds, early exit as `Option`) -/

section InvertSpec

def swapStep (r : Nat) (a : Mat) (r2 : Nat) : Mat :=
  if (decide (a.get r r = 0) && decide (a.get r2 r ≠ 0)) = true then (a.set! r a[r2]!).set! r2 a[r]! else a

def elimStep (r : Nat) (a : Mat) (r2 : Nat) : Mat :=
  if (decide (r2 ≠ r) && decide (a.get r2 r ≠ 0)) = true then a.set! r2 (rowAddScaled a[r2]! a[r]! (a.get r2 r)) else a

/-- one pivot step of Gauss–Jordan: search a non-zero pivot below, scale, eliminate; `none` = singular -/
def pivot (k r : Nat) (a : Mat) : Option Mat :=
  let a1 := if a.get r r = 0 then (List.range' (r + 1) (k - (r + 1))).foldl (swapStep r) a else a
  if a1.get r r = 0 then none
  else some ((List.range' 0 k).foldl (elimStep r) (a1.set! r (rowScale a1[r]! (ginv (a1.get r r)))))

def pivots (k : Nat) : List Nat → Mat → Option Mat
  | [], a => some a
  | r :: rs, a => match pivot k r a with
    | none => none
    | some a' => pivots k rs a'

def augment (m : Mat) : Mat := Array.ofFn (n := m.size) fun i => m[i] ++ (Mat.identity m.size)[i.val]!

def invertSpec (m : Mat) : Option Mat :=
  (pivots m.size (List.range' 0 m.size) (augment m)).map fun a => a.map fun row => row.extract m.size (2 * m.size)

theorem ite_yield {β : Type} (c : Prop) [Decidable c] (x y : β) :
    (if c then (pure (ForInStep.yield x) : Id (ForInStep β)) else pure (ForInStep.yield y)) =
      pure (ForInStep.yield (if c then x else y)) := by split <;> rfl

theorem forIn_pivots (k : Nat) (f : Nat → Option (Option Mat) × Mat → Id (ForInStep (Option (Option Mat) × Mat)))
    (hf : ∀ r a, (pivot k r a = none → ∃ junk, f r (none, a) = pure (.done (some none, junk))) ∧
      (∀ a', pivot k r a = some a' → f r (none, a) = pure (.yield (none, a')))) :
    ∀ (l : List Nat) (a : Mat),
      (forIn l ((none : Option (Option Mat)), a) f).run.1 = (match pivots k l a with | none => some none | some _ => none) ∧
      ∀ a', pivots k l a = some a' → (forIn l ((none : Option (Option Mat)), a) f).run.2 = a' := by
  intro l
  induction l with
  | nil => intro a; exact ⟨rfl, fun a' h => by simpa [pivots] using h⟩
  | cons r rs ih =>
    intro a
    rw [List.forIn_cons]
    cases hp : pivot k r a with
    | none =>
      obtain ⟨junk, hj⟩ := (hf r a).1 hp
      rw [hj]
      simp only [pivots, hp]
      exact ⟨rfl, fun a' h => by simp at h⟩
    | some a1 =>
      rw [(hf r a).2 a1 hp]
      simp only [pivots, hp]
      exact ih a1

local macro "hf_tac" : tactic => `(tactic| (
    intro r a
    simp only [ite_yield, List.forIn_pure_yield_eq_foldl, pure_bind, map_pure, bind_pure_comp]
    unfold pivot swapStep elimStep
    by_cases h0 : a.get r r = 0
    · simp only [h0, if_true]
      split
      · exact ⟨fun _ => ⟨_, rfl⟩, fun a' h => by simp at h⟩
      · refine ⟨fun h => by simp at h, fun a' h => ?_⟩
        simp only [Option.some.injEq] at h
        rw [← h]
    · simp only [h0, if_false]
      refine ⟨fun h => by simp at h, fun a' h => ?_⟩
      simp only [Option.some.injEq] at h
      rw [← h]))

theorem invert_eq_spec (m : Mat) : Mat.invert m = invertSpec m := by
  unfold Mat.invert
  simp only [Std.Legacy.Range.forIn_eq_forIn_range', Std.Legacy.Range.size,
    bind_pure_comp, map_pure, Id.run_pure, bind_pure, pure_bind, Id.run_bind, Nat.sub_zero, Nat.add_one_sub_one, Nat.div_one]
  unfold invertSpec augment
  split
  · next r heq =>
    rw [(forIn_pivots m.size _ ?hf _ _).1] at heq
    case hf => hf_tac
    revert heq
    cases hp : pivots m.size (List.range' 0 m.size) (Array.ofFn (n := m.size) fun i => m[i] ++ (Mat.identity m.size)[i.val]!) with
    | none => intro heq; simp only [Option.some.injEq] at heq; rw [← heq]; rfl
    | some a' => intro heq; simp at heq
  · next heq =>
    rw [(forIn_pivots m.size _ ?hf _ _).1] at heq
    case hf => hf_tac
    revert heq
    cases hp : pivots m.size (List.range' 0 m.size) (Array.ofFn (n := m.size) fun i => m[i] ++ (Mat.identity m.size)[i.val]!) with
    | none => intro heq; simp at heq
    | some a' =>
      intro _
      rw [(forIn_pivots m.size _ ?hf _ _).2 a' hp]
      case hf => hf_tac
      rfl

end InvertSpec


/-! ## 10. a run-time-checkable certificate: an executable left inverse IS the matrix inverse over `GF256` -/

section Certificate
open Matrix

theorem toMatrix_identity (k : ℕ) : toMatrix (Mat.identity k) k k = 1 := by
  apply Matrix.ext; intro i j
  simp only [toMatrix, Matrix.of_apply, Mat.get, Mat.identity]
  rw [ofFn_get! _ i.isLt, ofFn_get! _ j.isLt, Matrix.one_apply]
  by_cases h : i = j
  · subst h; simp; rfl
  · have : ¬ i.val = j.val := fun e => h (Fin.ext e)
    simp [h, this]; rfl

/-- square `k × k` executable matrix: `k` rows of `k` bytes -/
def Square (m : Mat) (k : ℕ) : Prop := m.size = k ∧ ∀ i < k, (m[i]!).size = k

/-- **certificate soundness** — if the EXECUTABLE product `Mat.mul m' m` equals the executable identity, then `m'` is
    the inverse of `m` as matrices over the field `GF256`. -/
theorem mul_identity_sound (m' m : Mat) (k : ℕ) (hm' : Square m' k) (hm : Square m k)
    (h : Mat.mul m' m = Mat.identity k) : toMatrix m' k k * toMatrix m k k = 1 ∧ (toMatrix m k k)⁻¹ = toMatrix m' k k := by
  have hmain : toMatrix m' k k * toMatrix m k k = 1 := by
    rcases Nat.eq_zero_or_pos k with hk | hk
    · subst hk; exact Subsingleton.elim _ _
    · have hcols : (if h : 0 < m.size then m[0].size else 0) = k := by
        have h0 : 0 < m.size := by rw [hm.1]; exact hk
        rw [dif_pos h0]
        have := hm.2 0 hk
        rwa [getElem!_def, Array.getElem?_eq_getElem h0] at this
      have := Mat.mul_eq m' m k (fun i hi => hm'.2 i (by rw [← hm'.1]; exact hi))
      rw [h] at this
      obtain ⟨hs, -⟩ := hm'
      subst hs
      rw [hcols] at this
      rw [← this, toMatrix_identity]
  exact ⟨hmain, Matrix.inv_eq_left_inv hmain⟩

/-- **`reconstruct`'s data recomputation with a certified decode matrix = the abstract decoding** — let `sub` be the
    `k × k` matrix of the selected generator rows, `dec` the matrix `Mat.invert sub` returned, `S` the surviving shards
    (`k` rows of `size` bytes). If the executable check `Mat.mul dec sub = Mat.identity k` holds, then the bytes computed by
    `codeShards dec S size` (what `reedSolomon.reconstruct` → `codeSomeShards` computes) are exactly `sub⁻¹ · S` over
    the field `GF256`, i.e. the `decode` of `Props/C20.lean` (`decode a hk rows S = (gen.submatrix rows id)⁻¹ * S`). -/
theorem codeShards_certified_decode_partial (dec sub S : Mat) (k size : ℕ) (hdec : Square dec k) (hsub : Square sub k)
    (hcert : Mat.mul dec sub = Mat.identity k) :
    toMatrix (codeShards dec S size) k size = (toMatrix sub k k)⁻¹ * toMatrix S k size := by
  rw [(mul_identity_sound dec sub k hdec hsub hcert).2]
  have := codeShards_eq dec S k size (fun i hi => hdec.2 i (by rw [← hdec.1]; exact hi))
  obtain ⟨hs, -⟩ := hdec
  subst hs
  exact this

/-- the certificate is satisfiable and checkable by evaluation: a concrete 2×2 matrix over the executable field -/
example : Mat.mul #[#[1, 1], #[0, 1]] #[#[1, 1], #[0, 1]] = Mat.identity 2 := by decide +kernel

theorem extract_get! (a : Mat) {i k : ℕ} (hi : i < k) (hk : k ≤ a.size) : (a.extract 0 k)[i]! = a[i]! := by
  rw [getElem!_def, getElem!_def, Array.getElem?_extract]
  have : i < a.size := by omega
  simp [hi, this]

theorem toMatrix_vandermonde (n k : ℕ) : toMatrix (RS.vandermonde n k) n k = Sunrise.C20.vand (node n) k := by
  apply Matrix.ext; intro i j
  apply GF256.ext
  exact vandermonde_get i j

theorem vandermonde_size (n k : ℕ) : (RS.vandermonde n k).size = n := by simp [RS.vandermonde]

theorem vandermonde_row_size {n k i : ℕ} (hi : i < n) : ((RS.vandermonde n k)[i]!).size = k := by
  rw [RS.vandermonde, ofFn_get! _ hi]; simp

/-- **the executable generator matrix is the abstract `gen`, given a certified top inverse** — `buildMatrix k n`
    returns `vandermonde n k · ti` with `ti = Mat.invert (top k rows)`. If that `ti` passes the executable check
    `Mat.mul ti top = Mat.identity k`, the generator the model encodes with IS `Sunrise.C20.gen (node n) hk` over `GF256`
    (the object of `gf256_any_k_rows_invertible` / `gf256_reconstruct_exact`). -/
theorem buildMatrix_certified_partial (n k : ℕ) (hk : k ≤ n) (hk0 : 0 < k) (ti : Mat) (hti : Square ti k)
    (hcert : Mat.mul ti ((RS.vandermonde n k).extract 0 k) = Mat.identity k) :
    toMatrix ((RS.vandermonde n k).mul ti) n k = Sunrise.C20.gen (node n) hk := by
  have htopsq : Square ((RS.vandermonde n k).extract 0 k) k := by
    constructor
    · simp [vandermonde_size]; omega
    · intro i hi
      have : ((RS.vandermonde n k).extract 0 k)[i]! = (RS.vandermonde n k)[i]! :=
        extract_get! _ hi (by rw [vandermonde_size]; exact hk)
      rw [this]; exact vandermonde_row_size (by omega)
  have htop : toMatrix ((RS.vandermonde n k).extract 0 k) k k =
      (Sunrise.C20.vand (node n) k).submatrix (Fin.castLE hk) id := by
    apply Matrix.ext; intro i j
    apply GF256.ext
    have : ((RS.vandermonde n k).extract 0 k)[i.val]! = (RS.vandermonde n k)[i.val]! :=
      extract_get! _ i.isLt (by rw [vandermonde_size]; exact hk)
    simp only [toMatrix, Matrix.of_apply, Mat.get, this, Matrix.submatrix_apply, id_eq]
    exact vandermonde_get (Fin.castLE hk i) j
  have hinv := (mul_identity_sound ti _ k hti htopsq hcert).2
  have hcols : (if h : 0 < ti.size then ti[0].size else 0) = k := by
    have h0 : 0 < ti.size := by rw [hti.1]; exact hk0
    rw [dif_pos h0]
    have := hti.2 0 hk0
    rwa [getElem!_def, Array.getElem?_eq_getElem h0] at this
  have hmul := Mat.mul_eq (RS.vandermonde n k) ti k (fun i hi => vandermonde_row_size (by rwa [vandermonde_size] at hi))
  rw [hcols] at hmul
  have hsz := vandermonde_size n k
  unfold Sunrise.C20.gen
  rw [← htop, hinv, ← toMatrix_vandermonde]
  revert hmul
  generalize RS.vandermonde n k = vm at hsz ⊢
  subst hsz
  exact fun h => h

end Certificate


/-! non-vacuity: concrete executable values -/
example : gmul 0x53 0xCA ≠ 0 ∧ gmul 0x53 (ginv 0x53) = 1 := ⟨gmul_ne_zero (by decide) (by decide), gmul_ginv (by decide)⟩
example : ((⟨3⟩ : GF256) + ⟨5⟩) * ⟨7⟩ = ⟨3⟩ * ⟨7⟩ + ⟨5⟩ * ⟨7⟩ := add_mul _ _ _
example : Square (Mat.identity 3) 3 := ⟨by simp [Mat.identity], fun i hi => by
  rw [Mat.identity, ofFn_get! _ hi]; simp⟩

end Sunrise.C20Field

#print axioms Sunrise.C20Field.gmul_comm
#print axioms Sunrise.C20Field.gmul_assoc
#print axioms Sunrise.C20Field.gmul_xor_left
#print axioms Sunrise.C20Field.gmul_xor_right
#print axioms Sunrise.C20Field.gmul_one
#print axioms Sunrise.C20Field.gmul_zero_left
#print axioms Sunrise.C20Field.gmul_ginv
#print axioms Sunrise.C20Field.gmul_eq_zero
#print axioms Sunrise.C20Field.gmul_eq_gmulSlow
#print axioms Sunrise.C20Field.gexp_succ
#print axioms Sunrise.C20Field.GF256.instField
#print axioms Sunrise.C20Field.vandermonde_get
#print axioms Sunrise.C20Field.gf256_any_k_rows_invertible
#print axioms Sunrise.C20Field.gf256_reconstruct_exact
#print axioms Sunrise.C20Field.gf256_fewer_than_k_rows_ambiguous
#print axioms Sunrise.C20Field.codeShards_eq
#print axioms Sunrise.C20Field.Mat.mul_eq
#print axioms Sunrise.C20Field.invert_eq_spec
#print axioms Sunrise.C20Field.mul_identity_sound
#print axioms Sunrise.C20Field.codeShards_certified_decode_partial
#print axioms Sunrise.C20Field.buildMatrix_certified_partial
