import SunriseVerif.Model.CL
import SunriseVerif.Spec.C02
import SunriseVerif.Lemmas.Dec
import Mathlib.Tactic.Linarith
/-!
C02 — AMM custody.  (1) authorisation: only a position's owner can reduce it, increase it or claim for it — stated on
the store-level model `CL` (tied to the code by the `cl` correspondence suite, which also drives non-owner senders);
(2) rounding direction of deposits vs withdrawals on the REGENERATED kernels; (3) reset of an emptied pool.
-/
namespace Sunrise.C02
open Sunrise Sunrise.CL Sunrise.Gen.KernelsCL Sunrise.Dec

/-- DecreaseLiquidity by anybody but the owner is rejected (state unchanged by transaction atomicity) -/
theorem decrease_owner_only (s : St) (sender : Addr) (id : Nat) (liq : Dec) (pos : Position)
    (hp : getPosition s id = some pos) (hne : sender ≠ pos.owner) :
    ∃ c, decreaseLiquidity s sender id liq = .err c := by
  refine ⟨"unauthorized", ?_⟩
  simp [decreaseLiquidity, hp, hne, bind, Res.bind]

/-- collecting fees by anybody but the owner is rejected -/
theorem collect_owner_only (s : St) (sender : Addr) (id : Nat) (pos : Position)
    (hp : getPosition s id = some pos) (hne : sender ≠ pos.owner) :
    ∃ c, collectFees s sender id = .err c := by
  refine ⟨"not-position-owner", ?_⟩
  simp [collectFees, hp, hne, bind, Res.bind]

/-- IncreaseLiquidity by anybody but the owner is rejected -/
theorem increase_owner_only (s : St) (sender : Addr) (id : Nat) (a b c d : Int) (pos : Position)
    (hp : getPosition s id = some pos) (hne : sender ≠ pos.owner) :
    ∃ e, increaseLiquidity s sender id a b c d = .err e := by
  refine ⟨"unauthorized", ?_⟩
  simp [increaseLiquidity, hp, hne, bind, Res.bind]

/-- a claim that names a position the sender does not own fails as a whole (no partial payout) when that position
    comes first; positions of unknown id fail too -/
theorem claim_first_foreign_fails (s : St) (sender : Addr) (id : Nat) (rest : List Nat) (pos : Position)
    (hp : getPosition s id = some pos) (hne : sender ≠ pos.owner) :
    (claimRewards s sender (id :: rest)).isOk = false := by
  have h : collectFees s sender id = .err "not-position-owner" := by
    simp [collectFees, hp, hne, bind, Res.bind]
  unfold claimRewards
  simp only [List.isEmpty_cons, Bool.false_eq_true, if_false, List.foldl_cons, Res.bind, h]
  -- an error is absorbing for the fold
  have abs : ∀ (l : List Nat) (c : String),
      (l.foldl (fun (r : Res (St × List (String × Int))) id =>
        r.bind fun (st, tot) => (collectFees st sender id).bind fun (st', c) => .ok (st', addCoins tot c)) (.err c)).isOk = false := by
    intro l
    induction l with
    | nil => intro c; rfl
    | cons x xs ih => intro c; simp only [List.foldl_cons, Res.bind]; exact ih c
  exact abs rest _

theorem quote_withdraw_le_deposit (liq a b : Dec) : S_quote_withdraw_le_deposit liq a b := by
  unfold S_quote_withdraw_le_deposit
  intro hl
  simp only [CalcAmountQuoteDelta, if_true, Bool.false_eq_true, if_false]
  have hd := abs_raw_nonneg (Dec.sub b a)
  have hp : 0 ≤ (Dec.abs (Dec.sub b a)).raw * liq.raw := Int.mul_nonneg hd hl
  have hM := mul_nonneg_bounds (Dec.abs (Dec.sub b a)) liq hp
  have hC := ceil_nonneg_bounds (Dec.mul (Dec.abs (Dec.sub b a)) liq) hM.2.2
  have t1 := truncateInt_nonneg_bounds (Dec.mul (Dec.abs (Dec.sub b a)) liq) hM.2.2
  have hc0 : 0 ≤ (Dec.ceil (Dec.mul (Dec.abs (Dec.sub b a)) liq)).raw := by linarith [hC.1]
  have t2 := truncateInt_nonneg_bounds (Dec.ceil (Dec.mul (Dec.abs (Dec.sub b a)) liq)) hc0
  refine ⟨?_, t1.2.2⟩
  -- PREC·t1 ≤ m ≤ c < PREC·t2 + PREC
  have : PREC * Dec.truncateInt (Dec.mul (Dec.abs (Dec.sub b a)) liq) < PREC * (Dec.truncateInt (Dec.ceil (Dec.mul (Dec.abs (Dec.sub b a)) liq)) + 1) := by
    linarith [t1.1, t2.2.1, hC.1]
  have := Int.lt_of_mul_lt_mul_left this (by decide)
  omega

theorem quote_neg_delta_symmetric (liq a b : Dec) : S_quote_neg_delta_symmetric liq a b := by
  unfold S_quote_neg_delta_symmetric
  intro hl
  simp only [CalcAmountQuoteDelta, Bool.false_eq_true, if_false, Dec.mul, Dec.neg]
  have hd := abs_raw_nonneg (Dec.sub b a)
  have hp : 0 ≤ (Dec.abs (Dec.sub b a)).raw * liq.raw := Int.mul_nonneg hd hl
  have e : (Dec.abs (Dec.sub b a)).raw * -liq.raw = -((Dec.abs (Dec.sub b a)).raw * liq.raw) := Int.mul_neg _ _
  rw [e]
  generalize (Dec.abs (Dec.sub b a)).raw * liq.raw = m at hp
  unfold chopRound
  by_cases hz : m = 0
  · subst hz; decide
  · have h1 : -m < 0 := by omega
    have h2 : ¬ (m < 0) := by omega
    simp only [h1, h2, if_true, if_false, Int.neg_neg]

/-- helper: for any non-negative decimal v, ⌊v⌋ ≤ ⌊⌈v⌉⌋ -/
theorem trunc_le_trunc_ceil (v : Dec) (hv : 0 ≤ v.raw) :
    Dec.truncateInt v ≤ Dec.truncateInt (Dec.ceil v) ∧ 0 ≤ Dec.truncateInt v := by
  have hC := ceil_nonneg_bounds v hv
  have t1 := truncateInt_nonneg_bounds v hv
  have hc0 : 0 ≤ (Dec.ceil v).raw := by linarith [hC.1]
  have t2 := truncateInt_nonneg_bounds (Dec.ceil v) hc0
  refine ⟨?_, t1.2.2⟩
  have : PREC * Dec.truncateInt v < PREC * (Dec.truncateInt (Dec.ceil v) + 1) := by linarith [t1.1, t2.2.1, hC.1]
  have := Int.lt_of_mul_lt_mul_left this (by decide)
  omega

theorem quo_nonneg (x y : Dec) (hx : 0 ≤ x.raw) (hy : 0 < y.raw) : 0 ≤ (Dec.quo x y).raw := by
  unfold Dec.quo
  have h1 : 0 ≤ x.raw * PREC * PREC := Int.mul_nonneg (Int.mul_nonneg hx (by decide)) (by decide)
  rw [tquo_nonneg_eq h1 (le_of_lt hy)]
  exact (chopRound_nonneg_bounds _ (Int.ediv_nonneg h1 (le_of_lt hy))).2.2

theorem base_withdraw_le_deposit (liq a b : Dec) : S_base_withdraw_le_deposit liq a b := by
  unfold S_base_withdraw_le_deposit
  intro hl ha hb
  unfold CalcAmountBaseDelta
  by_cases hgt : Dec.gt a b = true
  · simp only [hgt, if_true, Bool.false_eq_true, if_false]
    have hab : b.raw < a.raw := by simpa [Dec.gt] using hgt
    have hd : 0 ≤ (Dec.sub a b).raw * liq.raw := Int.mul_nonneg (by simp [Dec.sub]; omega) hl
    have hm := (mul_nonneg_bounds (Dec.sub a b) liq hd).2.2
    exact trunc_le_trunc_ceil _ (quo_nonneg _ _ (quo_nonneg _ _ hm ha) hb)
  · have hgt' : Dec.gt a b = false := by simpa using hgt
    simp only [hgt', Bool.false_eq_true, if_false, if_true]
    have hab : a.raw ≤ b.raw := by simpa [Dec.gt] using hgt'
    have hd : 0 ≤ (Dec.sub b a).raw * liq.raw := Int.mul_nonneg (by simp [Dec.sub]; omega) hl
    have hm := (mul_nonneg_bounds (Dec.sub b a) liq hd).2.2
    exact trunc_le_trunc_ceil _ (quo_nonneg _ _ (quo_nonneg _ _ hm hb) ha)

/-- non-vacuity -/
example : ∃ s id pos, getPosition s id = some pos ∧ ("mallory" : Addr) ≠ pos.owner :=
  ⟨{ positions := [⟨0, 0, "alice", -1, 1, ⟨5⟩⟩] }, 0, ⟨0, 0, "alice", -1, 1, ⟨5⟩⟩, by simp [getPosition], by decide⟩

end Sunrise.C02
