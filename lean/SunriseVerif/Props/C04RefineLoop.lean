import SunriseVerif.Props.C04Refine
import SunriseVerif.Props.C05Loop
import SunriseVerif.Model.CLBook

/-!
C04 (refinement, swap loop) — the swap loop of the store-level model (`CL.swapLoop`) does, on the bookkeeping components
(active liquidity `SwapState.liq`, cursor `SwapState.tick`, tick gross/net), exactly what its ghost event trace says.
The run-time lock-step derives the operations `crossUp t / crossDown t / moveWithin t` of the abstraction `CLBook` from the
trace (`.cross up t`, `.move t`); here that derivation is proved for ALL fuel, states and arguments.

* `bookOps_foldl_frame`            the derived operations never change `pos / gross / net` of the abstraction
* `loop_step`                      one successful iteration, described on the bookkeeping components (`StepBook`)
* `swapLoop_book_master`           fold of the derived operations over the abstraction of (s, ss) = abstraction of (s', ss')
* `swapLoop_refines_book`          (a) trace grows, active/cursor = fold of the derived ops; (b) gross/net unchanged; (c) frame
* `swapLoop_trace_cross_prefix`    the crossed ticks are a PREFIX of the iterator, each recorded with `up = !bfq` (no hypothesis)
* `swapLoop_trace_cross_only_iter` every `.cross up t` of the appended trace has `up = !bfq`, `t ∈ iter.map (·.tick)`
* `tickIter_hyps`                  `tickIter` satisfies the three hypotheses when the store's (pool, tick) keys are distinct

Hypotheses of the refinement theorem: every entry of the iterator is the stored entry of its key (that is how `tickIter`
builds it), all entries belong to one pool, and their ticks are pairwise distinct (needed after a crossing with
`upd = true`, which rewrites the stored `feeGrowth` of the crossed tick: the rest of the iterator must not contain it).
-/
namespace Sunrise.C04RefineLoop
open Sunrise Sunrise.CL Sunrise.C04Refine
open Sunrise.C05Loop (bind_ok res_ok_inj swapLoop_succ_eq swapLoop_zero settleK ss2Of ss1Of bucket wrapTickK wrapTickK_ok
  amtInOf amtOutOf)

/-! ### the operations a trace stands for -/

/-- the bookkeeping operation a trace event stands for (`.cross up t`: `up = true` is a quote-for-base swap going up) -/
def evBookOp : CL.SwapEv → Option CLBook.Op
  | .cross up t => some (if up then .crossUp t else .crossDown t)
  | .move t => some (.moveWithin t)
  | _ => none

def bookOps (evs : List CL.SwapEv) : List CLBook.Op := evs.filterMap evBookOp

/-- the crossing recorded by a trace event -/
def evCross : CL.SwapEv → Option (Bool × Int)
  | .cross up t => some (up, t)
  | _ => none

/-- the crossings of a trace, in order -/
def crossed (evs : List CL.SwapEv) : List (Bool × Int) := evs.filterMap evCross

theorem bookOps_append (a b : List SwapEv) : bookOps (a ++ b) = bookOps a ++ bookOps b := by
  unfold bookOps; exact List.filterMap_append ..

theorem crossed_append (a b : List SwapEv) : crossed (a ++ b) = crossed a ++ crossed b := by
  unfold crossed; exact List.filterMap_append ..

theorem bookOps_nil : bookOps [] = [] := rfl
theorem crossed_nil : crossed [] = [] := rfl

theorem mem_crossed {evs : List SwapEv} {up : Bool} {t : Int} (h : SwapEv.cross up t ∈ evs) : (up, t) ∈ crossed evs := by
  unfold crossed
  exact List.mem_filterMap.mpr ⟨_, h, rfl⟩

/-- **helper.** the operations derived from a trace (`crossUp / crossDown / moveWithin`) never change the position list,
    the gross map or the net map of the abstraction -/
theorem bookOps_foldl_frame (evs : List SwapEv) : ∀ b : CLBook.St,
    ((bookOps evs).foldl CLBook.step b).net = b.net ∧ ((bookOps evs).foldl CLBook.step b).gross = b.gross ∧
    ((bookOps evs).foldl CLBook.step b).pos = b.pos := by
  induction evs with
  | nil => intro b; exact ⟨rfl, rfl, rfl⟩
  | cons e es ih =>
    intro b
    cases e with
    | fee f => exact ih b
    | step n a o => exact ih b
    | cross up t =>
      have e : bookOps (SwapEv.cross up t :: es) = (if up then CLBook.Op.crossUp t else CLBook.Op.crossDown t) :: bookOps es := rfl
      rw [e, List.foldl_cons]
      obtain ⟨h1, h2, h3⟩ := ih (CLBook.step b (if up then CLBook.Op.crossUp t else CLBook.Op.crossDown t))
      rw [h1, h2, h3]
      cases up <;> exact ⟨rfl, rfl, rfl⟩
    | move t =>
      have e : bookOps (SwapEv.move t :: es) = CLBook.Op.moveWithin t :: bookOps es := rfl
      rw [e, List.foldl_cons]
      obtain ⟨h1, h2, h3⟩ := ih (CLBook.step b (CLBook.Op.moveWithin t))
      rw [h1, h2, h3]
      exact ⟨rfl, rfl, rfl⟩

theorem bookOps_foldl_net (evs : List SwapEv) (b : CLBook.St) : ((bookOps evs).foldl CLBook.step b).net = b.net :=
  (bookOps_foldl_frame evs b).1

theorem book_ext {a b : CLBook.St} (h1 : a.pos = b.pos) (h2 : a.gross = b.gross) (h3 : a.net = b.net) (h4 : a.tick = b.tick)
    (h5 : a.active = b.active) : a = b := by
  cases a; cases b
  simp only [CLBook.St.mk.injEq]
  exact ⟨h1, h2, h3, h4, h5⟩

/-- the bookkeeping abstraction of pool `pool` seen from inside the swap loop: gross/net from the store, cursor and
    active liquidity from the loop's swap state (positions left out: the swap operations never read them) -/
def bookAt (s : CL.St) (pool : Nat) (ss : SwapState) : CLBook.St :=
  { pos := [], gross := grossOf s pool, net := netOf s pool, tick := ss.tick, active := ss.liq.raw }

/-! ### one iteration -/

/-- the events appended by the bucket step of an iteration, before the cursor is settled -/
def preEvs (exactIn upd : Bool) (r : Dec × Dec × Dec × Dec) : List SwapEv :=
  (if upd then [SwapEv.fee r.2.2.2.raw] else []) ++ [SwapEv.step r.1.raw (amtInOf exactIn r).raw (amtOutOf exactIn r).raw]

theorem preEvs_book (exactIn upd : Bool) (r : Dec × Dec × Dec × Dec) :
    bookOps (preEvs exactIn upd r) = [] ∧ crossed (preEvs exactIn upd r) = [] := by
  cases upd <;> exact ⟨rfl, rfl⟩

theorem ss2Of_book (exactIn upd : Bool) (ss : SwapState) (r : Dec × Dec × Dec × Dec) :
    (ss2Of exactIn upd ss r).trace = ss.trace ++ preEvs exactIn upd r ∧ (ss2Of exactIn upd ss r).liq = ss.liq ∧
    (ss2Of exactIn upd ss r).tick = ss.tick := by
  cases exactIn <;> cases upd <;> simp [ss2Of, ss1Of, updateFeeGrowth, preEvs] <;> split <;> simp

/-- what one successful loop iteration does on the bookkeeping components: either the head tick of the iterator is crossed
    (its stored record may get a new `feeGrowth`, nothing else in the store changes; active ±= net, cursor t / t − 1, the
    trace gets exactly one bookkeeping event, the crossing), or nothing is crossed (store and iterator kept, active kept,
    the cursor is kept or moved by exactly one `.move` event). -/
def StepBook (bfq : Bool) (s : CL.St) (ss : SwapState) (ti : TickInfo) (rest : List TickInfo) (s3 : CL.St) (ss3 : SwapState)
    (iter3 : List TickInfo) (evs : List SwapEv) : Prop :=
  ss3.trace = ss.trace ++ evs ∧
  ((iter3 = rest ∧
     (s3 = s ∨ ∃ g, s3 = setTick s { ti with feeGrowth := g }) ∧
     (s3.pools = s.pools ∧ s3.positions = s.positions ∧ s3.bank = s.bank) ∧
     (findTick s ti.pool ti.tick = some ti →
        ∀ pool' t', grossOf s3 pool' t' = grossOf s pool' t' ∧ netOf s3 pool' t' = netOf s pool' t') ∧
     ss3.liq.raw = ss.liq.raw + (if bfq then -ti.net.raw else ti.net.raw) ∧
     ss3.tick = (if bfq then ti.tick - 1 else ti.tick) ∧
     bookOps evs = [if bfq then CLBook.Op.crossDown ti.tick else CLBook.Op.crossUp ti.tick] ∧
     crossed evs = [(!bfq, ti.tick)])
   ∨ (iter3 = ti :: rest ∧ s3 = s ∧ ss3.liq = ss.liq ∧ crossed evs = [] ∧
      ((ss3.tick = ss.tick ∧ bookOps evs = []) ∨ bookOps evs = [CLBook.Op.moveWithin ss3.tick])))

theorem settleK_book {β : Type} {bfq upd : Bool} {lim fee : Dec} {tp : TickMath.TickParams} {accVal : DecCoins}
    {denomIn : Denom} {s : CL.St} {start tickPrice next : Dec} {ss ss2 : SwapState} {ti : TickInfo} {rest : List TickInfo}
    {K : CL.St × SwapState × List TickInfo → Res β} {x : β} {pre : List SwapEv}
    (h : settleK bfq upd lim fee tp accVal denomIn s start tickPrice next ss2 ti rest K = .ok x)
    (htr : ss2.trace = ss.trace ++ pre) (hliq : ss2.liq = ss.liq) (htick : ss2.tick = ss.tick)
    (hb : bookOps pre = []) (hc : crossed pre = []) :
    ∃ s3 ss3 iter3 evs, K (s3, ss3, iter3) = .ok x ∧ StepBook bfq s ss ti rest s3 ss3 iter3 evs := by
  unfold settleK at h
  by_cases heq : (tickPrice == next) = true
  · rw [if_pos heq] at h
    obtain ⟨p, hp, hK⟩ := bind_ok h
    have hp' : crossTick s ss2 bfq lim fee ti accVal denomIn upd = .ok (p.1, p.2) := hp
    obtain ⟨hl, ht, _, hfr, hgn⟩ := crossTick_effect hp'
    obtain ⟨hsh, hss⟩ := crossTick_shape hp'
    have htr3 : p.2.trace = ss2.trace ++ [SwapEv.cross (!bfq) ti.tick] := by rw [hss]
    refine ⟨p.1, p.2, rest, pre ++ [SwapEv.cross (!bfq) ti.tick], hK, ?_, Or.inl ⟨rfl, hsh, hfr, hgn, ?_, ?_, ?_, ?_⟩⟩
    · rw [htr3, htr, List.append_assoc]
    · rw [hl, hliq]
    · exact ht
    · rw [bookOps_append, hb]
      cases bfq <;> rfl
    · rw [crossed_append, hc]; rfl
  · rw [if_neg heq] at h
    by_cases hord : (if bfq = true then tickPrice.raw > next.raw else tickPrice.raw < next.raw)
    · rw [if_pos hord] at h; cases h
    · rw [if_neg hord] at h
      by_cases hmv : (!(start == next)) = true
      · rw [if_pos hmv] at h
        obtain ⟨t, _, hK⟩ := bind_ok h
        refine ⟨_, _, _, pre ++ [SwapEv.move t], hK, ?_, Or.inr ⟨rfl, rfl, hliq, ?_, Or.inr ?_⟩⟩
        · show ss2.trace ++ [SwapEv.move t] = ss.trace ++ (pre ++ [SwapEv.move t])
          rw [htr, List.append_assoc]
        · rw [crossed_append, hc]; rfl
        · rw [bookOps_append, hb]; rfl
      · rw [if_neg hmv] at h
        exact ⟨_, _, _, pre, h, htr, Or.inr ⟨rfl, rfl, hliq, hc, Or.inl ⟨htick, hb⟩⟩⟩

/-- **one unrolling of the loop** on the bookkeeping components: a successful run either stops immediately with state and
    swap state untouched, or performs exactly one step described by `StepBook` and continues with one unit less fuel -/
theorem loop_step {exactIn bfq upd : Bool} {lim fee : Dec} {tp : TickMath.TickParams} {accVal : DecCoins} {denomIn : Denom}
    {fuel noProg : Nat} {s : CL.St} {ss : SwapState} {iter : List TickInfo} {s' : CL.St} {ss' : SwapState}
    (h : swapLoop exactIn bfq upd lim fee tp accVal denomIn (fuel+1) noProg s ss iter = .ok (s', ss')) :
    (s' = s ∧ ss' = ss) ∨
    (∃ ti rest s3 ss3 iter3 noProg' evs, iter = ti :: rest ∧ StepBook bfq s ss ti rest s3 ss3 iter3 evs ∧
      swapLoop exactIn bfq upd lim fee tp accVal denomIn fuel noProg' s3 ss3 iter3 = .ok (s', ss')) := by
  rw [swapLoop_succ_eq] at h
  split at h
  · left
    have e := res_ok_inj h
    exact ⟨(congrArg Prod.fst e).symm, (congrArg Prod.snd e).symm⟩
  · right
    cases iter with
    | nil => cases h
    | cons ti rest =>
      simp only [] at h
      obtain ⟨tickPrice, _, h⟩ := wrapTickK_ok h
      obtain ⟨r, _, h⟩ := bind_ok h
      split at h
      · cases h
      · obtain ⟨h1, h2, h3⟩ := ss2Of_book exactIn upd ss r
        obtain ⟨hb, hc⟩ := preEvs_book exactIn upd r
        obtain ⟨s3, ss3, iter3, evs, hK, hstep⟩ := settleK_book h h1 h2 h3 hb hc
        simp only [] at hK
        by_cases hz : (if exactIn = true then amtInOf exactIn r else amtOutOf exactIn r).isZero = true
        · rw [if_pos hz] at hK
          by_cases hn : noProg ≥ 100
          · rw [if_pos hn] at hK; cases hK
          · rw [if_neg hn] at hK
            exact ⟨ti, rest, s3, ss3, iter3, _, evs, rfl, hstep, hK⟩
        · rw [if_neg hz] at hK
          exact ⟨ti, rest, s3, ss3, iter3, _, evs, rfl, hstep, hK⟩

/-! ### the loop -/

/-- **master.** under the iterator hypotheses, folding the operations derived from the appended trace over the abstraction
    of (s, ss) gives the abstraction of (s', ss') — all five components; gross/net of every tick of every pool and the
    pool / position / bank stores are unchanged. -/
theorem swapLoop_book_master {exactIn bfq upd : Bool} {lim fee : Dec} {tp : TickMath.TickParams} {accVal : DecCoins}
    {denomIn : Denom} (pool : Nat) :
    ∀ (fuel noProg : Nat) (s : CL.St) (ss : SwapState) (iter : List TickInfo) (s' : CL.St) (ss' : SwapState),
      (∀ ti ∈ iter, findTick s ti.pool ti.tick = some ti) → (∀ ti ∈ iter, ti.pool = pool) →
      (iter.map (·.tick)).Nodup →
      swapLoop exactIn bfq upd lim fee tp accVal denomIn fuel noProg s ss iter = .ok (s', ss') →
      (∃ evs, ss'.trace = ss.trace ++ evs ∧ (bookOps evs).foldl CLBook.step (bookAt s pool ss) = bookAt s' pool ss') ∧
      (∀ pool' t, grossOf s' pool' t = grossOf s pool' t ∧ netOf s' pool' t = netOf s pool' t) ∧
      (s'.pools = s.pools ∧ s'.positions = s.positions ∧ s'.bank = s.bank) := by
  intro fuel
  induction fuel with
  | zero => intro noProg s ss iter s' ss' _ _ _ h; rw [swapLoop_zero] at h; cases h
  | succ fuel ih =>
    intro noProg s ss iter s' ss' hst hpool hnd h
    rcases loop_step h with ⟨e1, e2⟩ | ⟨ti, rest, s3, ss3, iter3, noProg', evs1, hit, ⟨htr, hcase⟩, hrec⟩
    · subst e1; subst e2
      exact ⟨⟨[], (List.append_nil _).symm, rfl⟩, fun _ _ => ⟨rfl, rfl⟩, rfl, rfl, rfl⟩
    · subst hit
      rcases hcase with ⟨hi, hsh, hfr, hgn, hl, ht, hbo, _⟩ | ⟨hi, hs3, hl, _, hmv⟩
      · -- the head tick is crossed
        rw [hi] at hrec
        have hti : findTick s ti.pool ti.tick = some ti := hst ti List.mem_cons_self
        have hgn' := hgn hti
        have hpl : ti.pool = pool := hpool ti List.mem_cons_self
        have hnd' : ti.tick ∉ rest.map (·.tick) ∧ (rest.map (·.tick)).Nodup := by
          simpa [List.nodup_cons] using hnd
        have hst3 : ∀ tj ∈ rest, findTick s3 tj.pool tj.tick = some tj := by
          intro tj hj
          have hj0 := hst tj (List.mem_cons_of_mem _ hj)
          rcases hsh with hs | ⟨g, hs⟩
          · rw [hs]; exact hj0
          · rw [hs, findTick_setTick]
            cases hk : key tj.pool tj.tick { ti with feeGrowth := g } with
            | false => simpa using hj0
            | true =>
              exfalso
              have hk' := key_iff.mp hk
              simp only [] at hk'
              apply hnd'.1
              rw [hk'.2]
              exact List.mem_map.mpr ⟨tj, hj, rfl⟩
        obtain ⟨⟨evs2, htr2, hfold2⟩, hgn2, hfr2⟩ :=
          ih noProg' s3 ss3 rest s' ss' hst3 (fun tj hj => hpool tj (List.mem_cons_of_mem _ hj)) hnd'.2 hrec
        have hnet : netOf s pool ti.tick = ti.net.raw := by
          rw [← hpl]; unfold netOf; rw [hti]
        have hstep1 : (bookOps evs1).foldl CLBook.step (bookAt s pool ss) = bookAt s3 pool ss3 := by
          rw [hbo, List.foldl_cons, List.foldl_nil]
          have hG : grossOf s pool = grossOf s3 pool := by funext t; exact (hgn' pool t).1.symm
          have hN : netOf s pool = netOf s3 pool := by funext t; exact (hgn' pool t).2.symm
          cases bfq
          · simp only [Bool.false_eq_true, if_false] at hl ht ⊢
            apply book_ext
            · rfl
            · exact hG
            · exact hN
            · exact ht.symm
            · show ss.liq.raw + netOf s pool ti.tick = ss3.liq.raw
              rw [hl, hnet]
          · simp only [if_true] at hl ht ⊢
            apply book_ext
            · rfl
            · exact hG
            · exact hN
            · exact ht.symm
            · show ss.liq.raw - netOf s pool ti.tick = ss3.liq.raw
              rw [hl, hnet]; omega
        refine ⟨⟨evs1 ++ evs2, ?_, ?_⟩, ?_, ?_⟩
        · rw [htr2, htr, List.append_assoc]
        · rw [bookOps_append, List.foldl_append, hstep1]; exact hfold2
        · intro pool' t
          exact ⟨(hgn2 pool' t).1.trans (hgn' pool' t).1, (hgn2 pool' t).2.trans (hgn' pool' t).2⟩
        · exact ⟨hfr2.1.trans hfr.1, hfr2.2.1.trans hfr.2.1, hfr2.2.2.trans hfr.2.2⟩
      · -- nothing is crossed
        subst hi; subst hs3
        obtain ⟨⟨evs2, htr2, hfold2⟩, hgn2, hfr2⟩ := ih noProg' s3 ss3 (ti :: rest) s' ss' hst hpool hnd hrec
        have hstep1 : (bookOps evs1).foldl CLBook.step (bookAt s3 pool ss) = bookAt s3 pool ss3 := by
          rcases hmv with ⟨ht, hbo⟩ | hbo
          · rw [hbo, List.foldl_nil]
            unfold bookAt; rw [ht, hl]
          · rw [hbo, List.foldl_cons, List.foldl_nil]
            apply book_ext
            · rfl
            · rfl
            · rfl
            · rfl
            · show ss.liq.raw = ss3.liq.raw
              rw [hl]
        refine ⟨⟨evs1 ++ evs2, ?_, ?_⟩, hgn2, hfr2⟩
        · rw [htr2, htr, List.append_assoc]
        · rw [bookOps_append, List.foldl_append, hstep1]; exact hfold2

/-- **C04 refinement of the swap loop.**  For every successful run of the loop from `(s, ss)` over an iterator whose
    entries are the stored entries of their keys, all of pool `pool`, with pairwise distinct ticks:
    (a) the ghost trace only grows, and the active liquidity and the cursor after the loop are those obtained by folding
        the operations derived from the appended events (`crossUp / crossDown / moveWithin`) over the bookkeeping
        abstraction of the state before the loop;
    (b) gross and net of every tick of every pool are unchanged (the loop only rewrites `feeGrowth` of crossed ticks);
    (c) pools, positions and the bank are unchanged. -/
theorem swapLoop_refines_book {exactIn bfq upd : Bool} {lim fee : Dec} {tp : TickMath.TickParams} {accVal : DecCoins}
    {denomIn : Denom} {fuel noProg : Nat} {s : CL.St} {ss : SwapState} {iter : List TickInfo} {s' : CL.St} {ss' : SwapState}
    (pool : Nat)
    (hstore : ∀ ti ∈ iter, CL.findTick s ti.pool ti.tick = some ti)
    (hpool : ∀ ti ∈ iter, ti.pool = pool)
    (hnodup : (iter.map (·.tick)).Nodup)
    (h : swapLoop exactIn bfq upd lim fee tp accVal denomIn fuel noProg s ss iter = .ok (s', ss')) :
    (∃ evs, ss'.trace = ss.trace ++ evs ∧
      ss'.liq.raw = ((bookOps evs).foldl CLBook.step
        { pos := [], gross := grossOf s pool, net := netOf s pool, tick := ss.tick, active := ss.liq.raw }).active ∧
      ss'.tick = ((bookOps evs).foldl CLBook.step
        { pos := [], gross := grossOf s pool, net := netOf s pool, tick := ss.tick, active := ss.liq.raw }).tick) ∧
    (∀ pool' t, grossOf s' pool' t = grossOf s pool' t ∧ netOf s' pool' t = netOf s pool' t) ∧
    (s'.pools = s.pools ∧ s'.positions = s.positions ∧ s'.bank = s.bank) := by
  obtain ⟨⟨evs, htr, hfold⟩, hgn, hfr⟩ := swapLoop_book_master pool fuel noProg s ss iter s' ss' hstore hpool hnodup h
  refine ⟨⟨evs, htr, ?_, ?_⟩, hgn, hfr⟩
  · exact (congrArg CLBook.St.active hfold).symm
  · exact (congrArg CLBook.St.tick hfold).symm

/-- the same fold also reproduces the gross and net maps of the state after the loop (they are those before the loop) -/
theorem swapLoop_refines_book_full {exactIn bfq upd : Bool} {lim fee : Dec} {tp : TickMath.TickParams} {accVal : DecCoins}
    {denomIn : Denom} {fuel noProg : Nat} {s : CL.St} {ss : SwapState} {iter : List TickInfo} {s' : CL.St} {ss' : SwapState}
    (pool : Nat)
    (hstore : ∀ ti ∈ iter, CL.findTick s ti.pool ti.tick = some ti)
    (hpool : ∀ ti ∈ iter, ti.pool = pool)
    (hnodup : (iter.map (·.tick)).Nodup)
    (h : swapLoop exactIn bfq upd lim fee tp accVal denomIn fuel noProg s ss iter = .ok (s', ss')) :
    ∃ evs, ss'.trace = ss.trace ++ evs ∧ (bookOps evs).foldl CLBook.step (bookAt s pool ss) = bookAt s' pool ss' :=
  (swapLoop_book_master pool fuel noProg s ss iter s' ss' hstore hpool hnodup h).1

/-! ### crossings come from the iterator, in order -/

/-- the crossings recorded by the loop are a PREFIX of the iterator (each with `up = !bfq`): ticks are crossed in iterator
    order, none is skipped, none is crossed twice.  No hypothesis on the store or the iterator. -/
theorem swapLoop_trace_cross_prefix {exactIn bfq upd : Bool} {lim fee : Dec} {tp : TickMath.TickParams} {accVal : DecCoins}
    {denomIn : Denom} :
    ∀ (fuel noProg : Nat) (s : CL.St) (ss : SwapState) (iter : List TickInfo) (s' : CL.St) (ss' : SwapState),
      swapLoop exactIn bfq upd lim fee tp accVal denomIn fuel noProg s ss iter = .ok (s', ss') →
      ∃ evs, ss'.trace = ss.trace ++ evs ∧ crossed evs <+: iter.map (fun ti => (!bfq, ti.tick)) := by
  intro fuel
  induction fuel with
  | zero => intro noProg s ss iter s' ss' h; rw [swapLoop_zero] at h; cases h
  | succ fuel ih =>
    intro noProg s ss iter s' ss' h
    rcases loop_step h with ⟨e1, e2⟩ | ⟨ti, rest, s3, ss3, iter3, noProg', evs1, hit, ⟨htr, hcase⟩, hrec⟩
    · subst e1; subst e2
      exact ⟨[], (List.append_nil _).symm, List.nil_prefix⟩
    · subst hit
      obtain ⟨evs2, htr2, hpre⟩ := ih noProg' s3 ss3 iter3 s' ss' hrec
      refine ⟨evs1 ++ evs2, by rw [htr2, htr, List.append_assoc], ?_⟩
      rw [crossed_append]
      rcases hcase with ⟨hi, _, _, _, _, _, _, hc⟩ | ⟨hi, _, _, hc, _⟩
      · subst hi
        rw [hc, List.map_cons, List.singleton_append]
        exact (List.prefix_cons_inj _).mpr hpre
      · subst hi
        rw [hc, List.nil_append]; exact hpre

/-- **corollary.** every `.cross up t` event the loop appends to the trace has `up = !bfq` (base-for-quote goes down) and
    crosses a tick of the iterator -/
theorem swapLoop_trace_cross_only_iter {exactIn bfq upd : Bool} {lim fee : Dec} {tp : TickMath.TickParams} {accVal : DecCoins}
    {denomIn : Denom} {fuel noProg : Nat} {s : CL.St} {ss : SwapState} {iter : List TickInfo} {s' : CL.St} {ss' : SwapState}
    (h : swapLoop exactIn bfq upd lim fee tp accVal denomIn fuel noProg s ss iter = .ok (s', ss'))
    {evs : List SwapEv} (hevs : ss'.trace = ss.trace ++ evs) :
    ∀ up t, SwapEv.cross up t ∈ evs → up = !bfq ∧ t ∈ iter.map (·.tick) := by
  intro up t hmem
  obtain ⟨evs0, htr, hpre⟩ := swapLoop_trace_cross_prefix fuel noProg s ss iter s' ss' h
  have e : evs = evs0 := List.append_cancel_left (hevs.symm.trans htr)
  subst e
  have hm := hpre.subset (mem_crossed hmem)
  obtain ⟨ti, hti, he⟩ := List.mem_map.mp hm
  have e1 : (!bfq) = up := congrArg Prod.fst he
  have e2 : ti.tick = t := congrArg Prod.snd he
  exact ⟨e1.symm, List.mem_map.mpr ⟨ti, hti, e2⟩⟩

/-! ### the hypotheses are what `tickIter` provides (non-vacuity) -/

theorem find_of_keys_nodup (l : List TickInfo) (hk : l.Pairwise (fun a b => (a.pool, a.tick) ≠ (b.pool, b.tick))) :
    ∀ x ∈ l, l.find? (key x.pool x.tick) = some x := by
  induction l with
  | nil => intro x hx; cases hx
  | cons h r ih =>
    intro x hx
    have hk' := List.pairwise_cons.mp hk
    rw [List.find?_cons]
    rcases List.mem_cons.mp hx with e | hm
    · subst e
      have : key x.pool x.tick x = true := key_iff.mpr ⟨rfl, rfl⟩
      rw [this]
    · have hne := hk'.1 x hm
      have : key x.pool x.tick h = false := by
        cases hkk : key x.pool x.tick h with
        | false => rfl
        | true =>
          exfalso; apply hne
          have a := key_iff.mp hkk
          rw [a.1, a.2]
      rw [this]
      exact ih hk'.2 x hm

/-- when the keys (pool, tick) of the tick store are pairwise distinct (the store is a map), the iterator built by
    `tickIter` satisfies the three hypotheses of `swapLoop_refines_book` -/
theorem tickIter_hyps (s : CL.St) (pool : Nat) (cur : Int) (bfq : Bool)
    (hk : (s.ticks.map fun x => (x.pool, x.tick)).Nodup) :
    (∀ ti ∈ tickIter s pool cur bfq, CL.findTick s ti.pool ti.tick = some ti) ∧
    (∀ ti ∈ tickIter s pool cur bfq, ti.pool = pool) ∧
    ((tickIter s pool cur bfq).map (·.tick)).Nodup := by
  have hk0 : s.ticks.Pairwise (fun a b => (a.pool, a.tick) ≠ (b.pool, b.tick)) := List.pairwise_map.mp hk
  have hmem : ∀ ti ∈ tickIter s pool cur bfq, ti ∈ s.ticks ∧ ti.pool = pool := by
    intro ti hti
    unfold tickIter at hti
    cases bfq
    · simp only [Bool.false_eq_true, if_false] at hti
      have h1 := (List.mem_filter.mp hti).1
      have h2 := List.mem_filter.mp h1
      exact ⟨h2.1, by simpa using h2.2⟩
    · simp only [if_true] at hti
      have h1 := (List.mem_filter.mp (List.mem_reverse.mp hti)).1
      have h2 := List.mem_filter.mp h1
      exact ⟨h2.1, by simpa using h2.2⟩
  have hsym : s.ticks.Pairwise (fun a b => (b.pool, b.tick) ≠ (a.pool, a.tick)) := hk0.imp (fun h e => h e.symm)
  have hpw : (tickIter s pool cur bfq).Pairwise (fun a b => (a.pool, a.tick) ≠ (b.pool, b.tick)) := by
    unfold tickIter
    cases bfq
    · simp only [Bool.false_eq_true, if_false]
      exact (hk0.sublist List.filter_sublist).sublist List.filter_sublist
    · simp only [if_true]
      rw [List.pairwise_reverse]
      exact (hsym.sublist List.filter_sublist).sublist List.filter_sublist
  refine ⟨?_, fun ti hti => (hmem ti hti).2, ?_⟩
  · intro ti hti
    rw [findTick_eq]
    exact find_of_keys_nodup s.ticks hk0 ti (hmem ti hti).1
  · show ((tickIter s pool cur bfq).map (·.tick)).Pairwise (· ≠ ·)
    rw [List.pairwise_map]
    refine hpw.imp_of_mem ?_
    intro a b ha hb hne e
    apply hne
    rw [(hmem a ha).2, (hmem b hb).2, e]

/-! ### axioms -/
#print axioms swapLoop_refines_book
#print axioms swapLoop_trace_cross_only_iter
#print axioms swapLoop_refines_book_full
#print axioms swapLoop_trace_cross_prefix
#print axioms bookOps_foldl_frame
#print axioms tickIter_hyps

end Sunrise.C04RefineLoop
