import SunriseVerif.Props.C08
import SunriseVerif.Props.C01DA
/-!
C08 (recipient side) — who receives what when an x/da item is resolved.

`Props/C08.lean` proves the MODULE-ACCOUNT side (`escrow_inv`). This file proves the per-recipient payout rule on the
model `Model/DA.lean`, for every state satisfying the escrow invariant `Inv` (hence for every reachable state):

* the escrow invariant makes the module account hold enough for every send of one resolution step, so the
  "logged and skipped" branch of the end-blocker is never taken (`sends_succeed_*`);
* `expiry_pays_exactly`, `tally_rejected_pays_exactly`, `tally_verified_pays_exactly`: the balance of EVERY address
  after the step, per denom, is the old balance plus exactly the amounts of the rule; the module account drops by the
  total; the records of the item are deleted; the dust is booked;
* the lift to the phases of `endBlock` and to reachable states.

Amounts are the ones frozen in the item at publication (`Item.pubColl`, `Item.invColl`); no parameter is read, so no
parameter change between publication, challenge and resolution can make a send fail: no counterexample state exists.
Records are counted with multiplicity (`recs`) in the statements over `Inv`, which does not contain "one record per
sender and item". `Good` = `Inv` ∧ `NoHalt` ∧ stored collateral is `Coins.IsValid` ∧ one record per sender and item
(S13 fix, `hasInval`) ∧ every `challenging` item has a recorded challenger (`Challenged`; it was a clause of `NoHalt`
until the division by `len(invalidities) = 0` was fixed in `abci.go`); it holds in every reachable state
(`good_reachable`) and at every step inside a block, and gives the rule challenger by challenger
(`good_*_each_challenger`) with the share `⌊pub(d) / n⌋` and the dust `pub(d) mod n`.
-/
set_option linter.unusedSimpArgs false
set_option linter.unusedVariables false
namespace Sunrise.C08Payout
open Sunrise Sunrise.Bank Sunrise.DA Sunrise.C01DA

/-! ### counting the records of one address -/
/-- number of records of `L` sent by `a` -/
def recs (L : List Inval) (a : Addr) : Int := ((L.filter (fun x => x.sender == a)).length : Int)

theorem recs_nil (a : Addr) : recs [] a = 0 := rfl

theorem recs_cons (y : Inval) (L : List Inval) (a : Addr) :
    recs (y :: L) a = (if y.sender = a then 1 else 0) + recs L a := by
  unfold recs
  simp only [List.filter_cons]
  by_cases h : y.sender = a
  · simp [h]; omega
  · simp [h]

theorem recs_nonneg (L : List Inval) (a : Addr) : 0 ≤ recs L a := by unfold recs; omega

theorem recs_zero_of_absent {L : List Inval} {a : Addr} (h : ∀ x ∈ L, x.sender ≠ a) : recs L a = 0 := by
  unfold recs
  have : L.filter (fun x => x.sender == a) = [] := by
    rw [List.filter_eq_nil_iff]
    intro x hx; simpa using h x hx
  simp [this]

/-- the invalidities judged correct / wrong against the safe indices (`checkCorrectInvalidity`) -/
def correctOf (safe : List Int) (L : List Inval) : List Inval := L.filter (fun x => correctInvalidity x safe)
def wrongOf (safe : List Int) (L : List Inval) : List Inval := L.filter (fun x => !correctInvalidity x safe)

theorem correct_wrong_length (safe : List Int) (L : List Inval) :
    ((correctOf safe L).length : Int) + ((wrongOf safe L).length : Int) = (L.length : Int) := by
  induction L with
  | nil => simp [correctOf, wrongOf]
  | cons y L ih =>
    unfold correctOf wrongOf at *
    simp only [List.filter_cons]
    by_cases h : correctInvalidity y safe = true
    · simp [h]; omega
    · simp [h]; omega

theorem recs_correct_wrong (safe : List Int) (L : List Inval) (a : Addr) :
    recs (correctOf safe L) a + recs (wrongOf safe L) a = recs L a := by
  induction L with
  | nil => simp [correctOf, wrongOf, recs]
  | cons y L ih =>
    unfold correctOf wrongOf at *
    simp only [List.filter_cons]
    by_cases h : correctInvalidity y safe = true
    · simp only [h, if_true, Bool.not_true, Bool.false_eq_true, if_false, recs_cons]; omega
    · have h' : correctInvalidity y safe = false := by simpa using h
      simp only [h', Bool.not_false, if_true, Bool.false_eq_true, if_false, recs_cons]; omega

/-! ### one send of the module account -/
/-- effect of a successful send from the module account on every balance -/
theorem send_effect {t : Addr} (ht : t ≠ daAcc) {cs : Coins} {b b' : Bank} (h : sendCoins b daAcc t cs = .ok b') :
    (∀ d, b'.bal daAcc d = b.bal daAcc d - amt cs d)
    ∧ (∀ a d, a ≠ daAcc → b'.bal a d = b.bal a d + (if a = t then amt cs d else 0)) := by
  obtain ⟨h1, h2, h3⟩ := sendCoins_ok (daAcc_ne ht) _ _ _ h
  refine ⟨h1, ?_⟩
  intro a d ha
  by_cases hat : a = t
  · subst hat; simp [h2 d]
  · simp [hat, h3 a d ha hat]

/-- **Funds suffice**: under the escrow invariant the module account holds, per denom, at least the whole escrow of
    any unresolved item: its publish collateral and one invalidity collateral per recorded challenger. -/
theorem funds_cover {s : St} {it : Item} (hi : Inv s) (hmem : it ∈ s.items) (hun : it.status.unresolved = true)
    (d : Denom) :
    amt it.pubColl d + ((invsOf s it.uri).length : Int) * amt it.invColl d ≤ s.bank.bal daAcc d := by
  have h := (mid_retag_terminal hi hmem hun .ver rfl s.now).bal_ge d
  rw [escrowOf_unresolved _ _ _ hun] at h
  exact h

/-! ### "no send is skipped", as predicates over the three payout loops -/
/-- every send of the refund loop returns `.ok` in the state in which it is issued -/
def RefundsOk (coll : Coins) : List Inval → St → Prop
  | [], _ => True
  | x :: L, s => (∃ b, sendCoins s.bank daAcc x.sender coll = .ok b) ∧ RefundsOk coll L (refundChallenger coll s x)

/-- every send of the reward loop returns `.ok` in the state in which it is issued -/
def PaysOk (C : Coins) : List Inval → St → Prop
  | [], _ => True
  | x :: L, s => (∃ b, sendCoins s.bank daAcc x.sender C = .ok b) ∧ PaysOk C L (payChallenger C s x)

/-- every send of the verified-after-challenge loop returns `.ok` in the state in which it is issued -/
def SettlesOk (coll : Coins) (safe : List Int) : List Inval → St × Coins → Prop
  | [], _ => True
  | x :: L, acc =>
    (correctInvalidity x safe = true → ∃ b, sendCoins acc.1.bank daAcc x.sender coll = .ok b)
    ∧ SettlesOk coll safe L (settleVerified coll safe acc x)

/-! ### the three loops, exactly -/
/-- records that survive the refund loop over `L` -/
def keep (L : List Inval) (z : Inval) : Bool := L.all (fun y => !(z.uri == y.uri && z.sender == y.sender))

theorem mul_succ_le {n x B : Int} (hn : 0 ≤ n) (hx : 0 ≤ x) (h : (n + 1) * x ≤ B) : x ≤ B ∧ n * x ≤ B - x := by
  rw [Int.add_mul, Int.one_mul] at h
  have := Int.mul_nonneg hn hx
  omega

theorem refund_fold_exact (coll : Coins) (hc : ∀ c ∈ coll, 0 ≤ c.2) :
    ∀ (L : List Inval) (s : St), (∀ x ∈ L, x.sender ≠ daAcc) →
      (∀ d, (L.length : Int) * amt coll d ≤ s.bank.bal daAcc d) →
      ∃ b, L.foldl (refundChallenger coll) s = { s with bank := b, invs := s.invs.filter (keep L) }
        ∧ (∀ d, b.bal daAcc d = s.bank.bal daAcc d - (L.length : Int) * amt coll d)
        ∧ (∀ a d, a ≠ daAcc → b.bal a d = s.bank.bal a d + recs L a * amt coll d)
        ∧ RefundsOk coll L s := by
  intro L
  induction L with
  | nil =>
    intro s _ _
    refine ⟨s.bank, ?_, by intro d; simp, by intro a d _; simp [recs_nil], trivial⟩
    have : s.invs.filter (keep []) = s.invs := by
      apply List.filter_eq_self.2
      intro x _; rfl
    simp only [List.foldl_nil, this]
  | cons y L ih =>
    intro s hL hle
    have hys := hL y (List.mem_cons_self ..)
    have hamt : ∀ d, 0 ≤ amt coll d := amt_nonneg hc
    have hsplit : ∀ d, amt coll d ≤ s.bank.bal daAcc d ∧ (L.length : Int) * amt coll d ≤ s.bank.bal daAcc d - amt coll d := by
      intro d
      have := hle d
      rw [len_cons_cast] at this
      exact mul_succ_le (by omega) (hamt d) this
    obtain ⟨b1, hb⟩ := sendCoins_succeeds (daAcc_ne hys) coll s.bank hc (fun d => (hsplit d).1)
    obtain ⟨e1, e2⟩ := send_effect hys hb
    have hstep : refundChallenger coll s y
        = { s with bank := b1, invs := s.invs.filter (fun z => !(z.uri == y.uri && z.sender == y.sender)) } := by
      unfold refundChallenger; rw [hb]
    obtain ⟨b, e, p1, p2, p3⟩ := ih (refundChallenger coll s y) (fun x hx => hL x (List.mem_cons_of_mem _ hx)) (by
      intro d
      rw [hstep]
      show _ ≤ b1.bal daAcc d
      rw [e1 d]; exact (hsplit d).2)
    refine ⟨b, ?_, ?_, ?_, ⟨⟨b1, hb⟩, p3⟩⟩
    · simp only [List.foldl_cons]
      rw [e, hstep]
      simp only [List.filter_filter]
      congr 1
      apply List.filter_congr
      intro z _
      simp only [keep, List.all_cons]
      exact Bool.and_comm _ _
    · intro d
      rw [p1 d, hstep]
      show b1.bal daAcc d - _ = _
      rw [e1 d, len_cons_cast, Int.add_mul, Int.one_mul]; omega
    · intro a d ha
      rw [p2 a d ha, hstep]
      show b1.bal a d + _ = _
      rw [e2 a d ha, recs_cons, Int.add_mul]
      by_cases hya : y.sender = a
      · subst hya; simp; omega
      · have : ¬ a = y.sender := fun e => hya e.symm
        simp [hya, this]

theorem pay_fold_exact (C : Coins) (hC : ∀ c ∈ C, 0 ≤ c.2) :
    ∀ (L : List Inval) (s : St), (∀ x ∈ L, x.sender ≠ daAcc) →
      (∀ d, (L.length : Int) * amt C d ≤ s.bank.bal daAcc d) →
      ∃ b, L.foldl (payChallenger C) s = { s with bank := b }
        ∧ (∀ d, b.bal daAcc d = s.bank.bal daAcc d - (L.length : Int) * amt C d)
        ∧ (∀ a d, a ≠ daAcc → b.bal a d = s.bank.bal a d + recs L a * amt C d)
        ∧ PaysOk C L s := by
  intro L
  induction L with
  | nil =>
    intro s _ _
    exact ⟨s.bank, rfl, by intro d; simp, by intro a d _; simp [recs_nil], trivial⟩
  | cons y L ih =>
    intro s hL hle
    have hys := hL y (List.mem_cons_self ..)
    have hamt : ∀ d, 0 ≤ amt C d := amt_nonneg hC
    have hsplit : ∀ d, amt C d ≤ s.bank.bal daAcc d ∧ (L.length : Int) * amt C d ≤ s.bank.bal daAcc d - amt C d := by
      intro d
      have := hle d
      rw [len_cons_cast] at this
      exact mul_succ_le (by omega) (hamt d) this
    obtain ⟨b1, hb⟩ := sendCoins_succeeds (daAcc_ne hys) C s.bank hC (fun d => (hsplit d).1)
    obtain ⟨e1, e2⟩ := send_effect hys hb
    have hstep : payChallenger C s y = { s with bank := b1 } := by unfold payChallenger; rw [hb]
    obtain ⟨b, e, p1, p2, p3⟩ := ih (payChallenger C s y) (fun x hx => hL x (List.mem_cons_of_mem _ hx)) (by
      intro d
      rw [hstep]
      show _ ≤ b1.bal daAcc d
      rw [e1 d]; exact (hsplit d).2)
    refine ⟨b, ?_, ?_, ?_, ⟨⟨b1, hb⟩, p3⟩⟩
    · simp only [List.foldl_cons]
      rw [e, hstep]
    · intro d
      rw [p1 d, hstep]
      show b1.bal daAcc d - _ = _
      rw [e1 d, len_cons_cast, Int.add_mul, Int.one_mul]; omega
    · intro a d ha
      rw [p2 a d ha, hstep]
      show b1.bal a d + _ = _
      rw [e2 a d ha, recs_cons, Int.add_mul]
      by_cases hya : y.sender = a
      · subst hya; simp; omega
      · have : ¬ a = y.sender := fun e => hya e.symm
        simp [hya, this]

theorem correctOf_cons (safe : List Int) (y : Inval) (L : List Inval) :
    correctOf safe (y :: L) = if correctInvalidity y safe then y :: correctOf safe L else correctOf safe L := by
  unfold correctOf; simp only [List.filter_cons]

theorem wrongOf_cons (safe : List Int) (y : Inval) (L : List Inval) :
    wrongOf safe (y :: L) = if correctInvalidity y safe then wrongOf safe L else y :: wrongOf safe L := by
  unfold wrongOf; simp only [List.filter_cons]
  cases correctInvalidity y safe <;> simp

theorem settle_fold_exact (coll : Coins) (safe : List Int) (hc : ∀ c ∈ coll, 0 ≤ c.2) :
    ∀ (L : List Inval) (s : St) (refund : Coins), (∀ x ∈ L, x.sender ≠ daAcc) →
      (∀ d, (L.length : Int) * amt coll d ≤ s.bank.bal daAcc d) → (∀ c ∈ refund, 0 ≤ c.2) →
      ∃ (b : Bank) (refund' : Coins),
        L.foldl (settleVerified coll safe) (s, refund) = ({ s with bank := b }, refund')
        ∧ (∀ d, b.bal daAcc d = s.bank.bal daAcc d - ((correctOf safe L).length : Int) * amt coll d)
        ∧ (∀ a d, a ≠ daAcc → b.bal a d = s.bank.bal a d + recs (correctOf safe L) a * amt coll d)
        ∧ (∀ d, amt refund' d = amt refund d + ((wrongOf safe L).length : Int) * amt coll d)
        ∧ (∀ c ∈ refund', 0 ≤ c.2)
        ∧ SettlesOk coll safe L (s, refund) := by
  intro L
  induction L with
  | nil =>
    intro s refund _ _ hr
    exact ⟨s.bank, refund, rfl, by intro d; simp [correctOf], by intro a d _; simp [correctOf, recs_nil],
      by intro d; simp [wrongOf], hr, trivial⟩
  | cons y L ih =>
    intro s refund hL hle hr
    have hys := hL y (List.mem_cons_self ..)
    have hamt : ∀ d, 0 ≤ amt coll d := amt_nonneg hc
    have hsplit : ∀ d, amt coll d ≤ s.bank.bal daAcc d ∧ (L.length : Int) * amt coll d ≤ s.bank.bal daAcc d - amt coll d := by
      intro d
      have := hle d
      rw [len_cons_cast] at this
      exact mul_succ_le (by omega) (hamt d) this
    by_cases hcor : correctInvalidity y safe = true
    · obtain ⟨b1, hb⟩ := sendCoins_succeeds (daAcc_ne hys) coll s.bank hc (fun d => (hsplit d).1)
      obtain ⟨e1, e2⟩ := send_effect hys hb
      have hstep : settleVerified coll safe (s, refund) y = ({ s with bank := b1 }, refund) := by
        unfold settleVerified; simp only [hcor, if_true, hb]
      obtain ⟨b, r', e, p1, p2, p3, p4, p5⟩ := ih { s with bank := b1 } refund
        (fun x hx => hL x (List.mem_cons_of_mem _ hx)) (by
          intro d
          show _ ≤ b1.bal daAcc d
          rw [e1 d]; exact (hsplit d).2) hr
      refine ⟨b, r', ?_, ?_, ?_, ?_, p4, ⟨fun _ => ⟨b1, hb⟩, by rw [hstep]; exact p5⟩⟩
      · simp only [List.foldl_cons]; rw [hstep, e]
      · intro d
        rw [p1 d, correctOf_cons, if_pos hcor]
        show b1.bal daAcc d - _ = _
        rw [e1 d, len_cons_cast, Int.add_mul, Int.one_mul]; omega
      · intro a d ha
        rw [p2 a d ha, correctOf_cons, if_pos hcor]
        show b1.bal a d + _ = _
        rw [e2 a d ha, recs_cons, Int.add_mul]
        by_cases hya : y.sender = a
        · subst hya; simp; omega
        · have : ¬ a = y.sender := fun e => hya e.symm
          simp [hya, this]
      · intro d
        rw [p3 d, wrongOf_cons, if_pos hcor]
    · have hstep : settleVerified coll safe (s, refund) y = (s, refund ++ coll) := by
        unfold settleVerified; simp only [hcor, Bool.false_eq_true, if_false]
      obtain ⟨b, r', e, p1, p2, p3, p4, p5⟩ := ih s (refund ++ coll)
        (fun x hx => hL x (List.mem_cons_of_mem _ hx)) (by
          intro d
          have := (hsplit d).2; have := hamt d; omega) (by
          intro c hc'
          rcases List.mem_append.1 hc' with h | h
          · exact hr c h
          · exact hc c h)
      refine ⟨b, r', ?_, ?_, ?_, ?_, p4, ⟨fun h => absurd h hcor, by rw [hstep]; exact p5⟩⟩
      · simp only [List.foldl_cons]; rw [hstep, e]
      · intro d; rw [p1 d, correctOf_cons, if_neg hcor]
      · intro a d ha; rw [p2 a d ha, correctOf_cons, if_neg hcor]
      · intro d
        rw [p3 d, wrongOf_cons, if_neg hcor, amt_append, len_cons_cast, Int.add_mul, Int.one_mul]; omega

/-! ### 1. unchallenged expiry -/
/-- the records of `u` are exactly the ones the refund loop over them deletes -/
theorem filter_keep_invsOf (invs : List Inval) (u : String) :
    invs.filter (keep (invs.filter (fun x => x.uri == u))) = invs.filter (fun x => !(x.uri == u)) := by
  apply List.filter_congr
  intro z hz
  by_cases hzu : z.uri = u
  · have hmem : z ∈ invs.filter (fun x => x.uri == u) := List.mem_filter.2 ⟨hz, by simpa using hzu⟩
    have : keep (invs.filter (fun x => x.uri == u)) z = false := by
      unfold keep
      rw [List.all_eq_false]
      exact ⟨z, hmem, by simp⟩
    rw [this]; simp [hzu]
  · have : keep (invs.filter (fun x => x.uri == u)) z = true := by
      unfold keep
      rw [List.all_eq_true]
      intro y hy
      have hyu : y.uri = u := by simpa using (List.mem_filter.1 hy).2
      have : z.uri ≠ y.uri := by rw [hyu]; exact hzu
      simp [this]
    rw [this]; simp [hzu]

/-- what `toVerifiedOne` does to an item in its challenge period -/
structure ExpiryPayout (s : St) (it : Item) (s' : St) : Prop where
  /-- every ordinary account: the publisher gets the publish collateral, every record gets the challenge collateral -/
  bal : ∀ a d, a ≠ daAcc → s'.bank.bal a d = s.bank.bal a d
      + (if a = it.publisher then amt it.pubColl d else 0) + recs (invsOf s it.uri) a * amt it.invColl d
  /-- the module account drops by the total -/
  module : ∀ d, s'.bank.bal daAcc d
      = s.bank.bal daAcc d - amt it.pubColl d - ((invsOf s it.uri).length : Int) * amt it.invColl d
  records : s'.invs = s.invs.filter (fun x => !(x.uri == it.uri))
  items : s'.items = setItem s.items { it with status := .ver, ts := s.now }
  dust : s'.dust = s.dust
  params : s'.params = s.params
  /-- no send was skipped -/
  noSkip : (∃ b, sendCoins s.bank daAcc it.publisher it.pubColl = .ok b
      ∧ RefundsOk it.invColl (invsOf s it.uri)
          { s with items := setItem s.items { it with status := .ver, ts := s.now }, bank := b })

theorem expiry_pays_exactly {s : St} {u : String} {it : Item} (hi : Inv s) (hf : findItem s u = some it)
    (hcp : it.status = .cp) : ExpiryPayout s it (toVerifiedOne s u) := by
  obtain ⟨hmem, huri⟩ := findItem_some8 hf
  subst huri
  have hun : it.status.unresolved = true := by rw [hcp]; rfl
  obtain ⟨hpp, hpi⟩ := hi.coins it hmem
  have hpub := hi.pubs it hmem
  have hfunds := funds_cover hi hmem hun
  have hinvnn : ∀ d, 0 ≤ ((invsOf s it.uri).length : Int) * amt it.invColl d := fun d =>
    Int.mul_nonneg (by omega) (amt_nonneg (coinsPos_nonneg hpi) d)
  obtain ⟨b, hb⟩ := sendCoins_succeeds (daAcc_ne hpub) it.pubColl s.bank (coinsPos_nonneg hpp) (by
    intro d; have := hfunds d; have := hinvnn d; omega)
  obtain ⟨e1, e2⟩ := send_effect hpub hb
  obtain ⟨b', e, p1, p2, p3⟩ := refund_fold_exact it.invColl (coinsPos_nonneg hpi) (invsOf s it.uri)
    { s with items := setItem s.items { it with status := .ver, ts := s.now }, bank := b }
    (fun x hx => hi.chals x (List.mem_filter.1 hx).1) (by
      intro d
      show _ ≤ b.bal daAcc d
      rw [e1 d]; have := hfunds d; omega)
  have hres : toVerifiedOne s it.uri
      = { s with items := setItem s.items { it with status := .ver, ts := s.now }, bank := b',
                 invs := s.invs.filter (keep (invsOf s it.uri)) } := by
    unfold toVerifiedOne
    rw [hf]
    simp only [hcp, if_true, hb]
    exact e
  rw [hres]
  refine ⟨?_, ?_, ?_, rfl, rfl, rfl, ⟨b, hb, p3⟩⟩
  · intro a d ha
    show b'.bal a d = _
    rw [p2 a d ha]
    show b.bal a d + _ = _
    rw [e2 a d ha]
  · intro d
    show b'.bal daAcc d = _
    rw [p1 d]
    show b.bal daAcc d - _ = _
    rw [e1 d]
  · exact filter_keep_invsOf s.invs it.uri

/-- outside its case `toVerifiedOne` does nothing -/
theorem toVerifiedOne_other {s : St} {u : String} (h : ∀ it, findItem s u = some it → it.status ≠ .cp) :
    toVerifiedOne s u = s := by
  unfold toVerifiedOne
  cases hf : findItem s u with
  | none => rfl
  | some it => simp [h it hf]

/-! ### 2. rejected by the tally -/
/-- what `tallyOne` does to a challenged item that the tally rejects; `n` challengers, reward `⌊pub/n⌋` per coin entry -/
structure RejectedPayout (s : St) (it : Item) (s' : St) : Prop where
  /-- every ordinary account receives, per record it holds, the challenge collateral plus one reward share; in
      particular the publisher receives nothing for having published -/
  bal : ∀ a d, a ≠ daAcc → s'.bank.bal a d = s.bank.bal a d
      + recs (invsOf s it.uri) a
        * (amt it.invColl d + amt (rewardShare it.pubColl ((invsOf s it.uri).length : Int)) d)
  module : ∀ d, s'.bank.bal daAcc d = s.bank.bal daAcc d
      - ((invsOf s it.uri).length : Int)
        * (amt it.invColl d + amt (rewardShare it.pubColl ((invsOf s it.uri).length : Int)) d)
  /-- the remainder of the division stays in the module account and is booked as dust -/
  dust : ∀ d, s'.dust d = s.dust d
      + (amt it.pubColl d
          - ((invsOf s it.uri).length : Int) * amt (rewardShare it.pubColl ((invsOf s it.uri).length : Int)) d)
  dustNN : ∀ d, 0 ≤ amt it.pubColl d
      - ((invsOf s it.uri).length : Int) * amt (rewardShare it.pubColl ((invsOf s it.uri).length : Int)) d
  records : s'.invs = s.invs.filter (fun x => !(x.uri == it.uri))
  items : s'.items = setItem s.items { it with status := .rej, ts := s.now }
  params : s'.params = s.params
  noSkip : PaysOk (it.invColl ++ rewardShare it.pubColl ((invsOf s it.uri).length : Int)) (invsOf s it.uri)
      { s with items := setItem s.items { it with status := .rej, ts := s.now } }

theorem tally_rejected_pays_exactly {env : Env} {s s' : St} {u : String} {it : Item} (hi : Inv s)
    (hf : findItem s u = some it) (hch : it.status = .ch)
    (hrej : (tallyOutcome s.params.rf it (proofsOf s u) env.active (env.assign u)).rejected = true)
    (h : tallyOne env s u = .ok s') : RejectedPayout s it s' := by
  obtain ⟨hmem, huri⟩ := findItem_some8 hf
  subst huri
  have hun : it.status.unresolved = true := by rw [hch]; rfl
  obtain ⟨hpp, hpi⟩ := hi.coins it hmem
  have hpubnn := coinsPos_nonneg hpp
  have hinvnn := coinsPos_nonneg hpi
  have hfunds := funds_cover hi hmem hun
  have hL : ∀ x ∈ invsOf s it.uri, x.sender ≠ daAcc := fun x hx => hi.chals x (List.mem_filter.1 hx).1
  unfold tallyOne at h
  rw [hf] at h
  simp only [] at h
  rw [if_neg (fun hne => hne hch)] at h
  split at h
  · cases h
  obtain ⟨s3, hs3, h3⟩ := bind_ok h
  clear h
  simp only [Res.ok.injEq] at h3
  subst h3
  try rw [if_pos hrej] at hs3
  simp only [Res.ok.injEq] at hs3
  subst hs3
  by_cases hn0 : (invsOf s it.uri).length = 0
  · -- no recorded challenger (a re-imported item): nobody is paid, the whole publish collateral is booked as dust
    have hLnil : invsOf s it.uri = [] := List.eq_nil_of_length_eq_zero hn0
    rw [hLnil]
    simp only [List.foldl_nil, List.length_nil]
    refine ⟨?_, ?_, ?_, ?_, rfl, rfl, rfl, ?_⟩
    · intro a d _; simp [hLnil, recs_nil]
    · intro d; simp [hLnil]
    · intro d; simp [hLnil, addDust, rewardShare, amt_nil]
    · intro d; have := amt_nonneg hpubnn d; simp [hLnil]; omega
    · rw [hLnil]; trivial
  · have hn : (0 : Int) < ((invsOf s it.uri).length : Int) := by omega
    have hne0 : ¬ (((invsOf s it.uri).length : Int) = 0) := by omega
    simp only [if_neg hne0]
    have hrw := rewardShare_amt hpubnn hn
    have hC : ∀ c ∈ it.invColl ++ rewardShare it.pubColl ((invsOf s it.uri).length : Int), 0 ≤ c.2 := by
      intro c hc
      rcases List.mem_append.1 hc with h | h
      · exact hinvnn c h
      · exact rewardShare_nonneg hpubnn hn c h
    obtain ⟨b, e, p1, p2, p3⟩ := pay_fold_exact _ hC (invsOf s it.uri)
      { s with items := setItem s.items { it with status := .rej, ts := s.now } } hL (by
        intro d
        have := hfunds d
        rw [amt_append, Int.mul_add]
        have := (hrw d).1
        simp only [] at *
        omega)
    rw [e]
    refine ⟨?_, ?_, ?_, ?_, rfl, rfl, rfl, p3⟩
    · intro a d ha
      show b.bal a d = _
      rw [p2 a d ha, amt_append]
    · intro d
      show b.bal daAcc d = _
      rw [p1 d, amt_append]
    · intro d; rfl
    · intro d; have := (hrw d).1; omega

/-! ### 3. verified by the tally -/
/-- what `tallyOne` does to a challenged item that the tally verifies; `safe` = the indices proved by enough validators.
    An invalidity is CORRECT iff none of its indices is safe (`checkCorrectInvalidity`). -/
structure VerifiedPayout (safe : List Int) (s : St) (it : Item) (s' : St) : Prop where
  /-- every ordinary account: one challenge collateral back per CORRECT record it holds; the publisher additionally
      gets the publish collateral back and the collateral of every WRONG record -/
  bal : ∀ a d, a ≠ daAcc → s'.bank.bal a d = s.bank.bal a d
      + recs (correctOf safe (invsOf s it.uri)) a * amt it.invColl d
      + (if a = it.publisher then
           amt it.pubColl d + ((wrongOf safe (invsOf s it.uri)).length : Int) * amt it.invColl d else 0)
  module : ∀ d, s'.bank.bal daAcc d
      = s.bank.bal daAcc d - amt it.pubColl d - ((invsOf s it.uri).length : Int) * amt it.invColl d
  records : s'.invs = s.invs.filter (fun x => !(x.uri == it.uri))
  items : s'.items = setItem s.items { it with status := .ver, ts := s.now }
  dust : s'.dust = s.dust
  params : s'.params = s.params
  noSkip : ∃ (b : Bank) (refund : Coins),
      (invsOf s it.uri).foldl (settleVerified it.invColl safe)
          ({ s with items := setItem s.items { it with status := .ver, ts := s.now } }, it.pubColl)
        = ({ s with items := setItem s.items { it with status := .ver, ts := s.now }, bank := b }, refund)
      ∧ SettlesOk it.invColl safe (invsOf s it.uri)
          ({ s with items := setItem s.items { it with status := .ver, ts := s.now } }, it.pubColl)
      ∧ ∃ b', sendCoins b daAcc it.publisher refund = .ok b'

theorem tally_verified_pays_exactly {env : Env} {s s' : St} {u : String} {it : Item} (hi : Inv s)
    (hf : findItem s u = some it) (hch : it.status = .ch)
    (hver : (tallyOutcome s.params.rf it (proofsOf s u) env.active (env.assign u)).rejected = false)
    (h : tallyOne env s u = .ok s') :
    VerifiedPayout (tallyOutcome s.params.rf it (proofsOf s u) env.active (env.assign u)).safe s it s' := by
  obtain ⟨hmem, huri⟩ := findItem_some8 hf
  subst huri
  have hun : it.status.unresolved = true := by rw [hch]; rfl
  obtain ⟨hpp, hpi⟩ := hi.coins it hmem
  have hpub := hi.pubs it hmem
  have hpubnn := coinsPos_nonneg hpp
  have hinvnn := coinsPos_nonneg hpi
  have hfunds := funds_cover hi hmem hun
  have hL : ∀ x ∈ invsOf s it.uri, x.sender ≠ daAcc := fun x hx => hi.chals x (List.mem_filter.1 hx).1
  unfold tallyOne at h
  rw [hf] at h
  simp only [] at h
  rw [if_neg (fun hne => hne hch)] at h
  split at h
  · cases h
  obtain ⟨s3, hs3, h3⟩ := bind_ok h
  clear h
  simp only [Res.ok.injEq] at h3
  subst h3
  try rw [if_neg (by rw [hver]; simp)] at hs3
  generalize hsafe : (tallyOutcome s.params.rf it (proofsOf s it.uri) env.active (env.assign it.uri)).safe = safe at *
  obtain ⟨b, refund, e, p1, p2, p3, p4, p5⟩ := settle_fold_exact it.invColl safe hinvnn (invsOf s it.uri)
    { s with items := setItem s.items { it with status := .ver, ts := s.now } } it.pubColl hL (by
      intro d
      have := hfunds d
      have := amt_nonneg hpubnn d
      simp only [] at *
      omega) hpubnn
  have hlen := correct_wrong_length safe (invsOf s it.uri)
  have hk : ∀ d, ((correctOf safe (invsOf s it.uri)).length : Int) * amt it.invColl d
      + ((wrongOf safe (invsOf s it.uri)).length : Int) * amt it.invColl d
      = ((invsOf s it.uri).length : Int) * amt it.invColl d := by
    intro d; rw [← Int.add_mul, hlen]
  obtain ⟨b', hb'⟩ := sendCoins_succeeds (daAcc_ne hpub) refund b p4 (by
    intro d
    rw [p3 d, p1 d]
    have := hfunds d
    have := hk d
    simp only [] at *
    omega)
  obtain ⟨e1, e2⟩ := send_effect hpub hb'
  rw [e] at hs3
  simp only [hb', Res.ok.injEq] at hs3
  subst hs3
  refine ⟨?_, ?_, rfl, rfl, rfl, rfl, ⟨b, refund, e, p5, b', hb'⟩⟩
  · intro a d ha
    show b'.bal a d = _
    rw [e2 a d ha, p2 a d ha, p3 d]
  · intro d
    show b'.bal daAcc d = _
    rw [e1 d, p1 d, p3 d]
    have := hk d
    simp only [] at *
    omega

/-- outside its case `tallyOne` does nothing -/
theorem tallyOne_other {env : Env} {s : St} {u : String} (h : ∀ it, findItem s u = some it → it.status ≠ .ch) :
    tallyOne env s u = .ok s := by
  unfold tallyOne
  cases hf : findItem s u with
  | none => rfl
  | some it => simp [h it hf]

/-! ### 4. no send is skipped -/
/-- **No skipped send on expiry**: the publisher's refund and every challenger's refund return `.ok` -/
theorem sends_succeed_expiry {s : St} {u : String} {it : Item} (hi : Inv s) (hf : findItem s u = some it)
    (hcp : it.status = .cp) :
    ∃ b, sendCoins s.bank daAcc it.publisher it.pubColl = .ok b
      ∧ RefundsOk it.invColl (invsOf s it.uri)
          { s with items := setItem s.items { it with status := .ver, ts := s.now }, bank := b } :=
  (expiry_pays_exactly hi hf hcp).noSkip

/-- **No skipped send on rejection** (`NoHalt` only provides that the tally returns at all) -/
theorem sends_succeed_rejected {env : Env} {s : St} {u : String} {it : Item} (hi : Inv s) (hn : NoHalt s)
    (hf : findItem s u = some it) (hch : it.status = .ch)
    (hrej : (tallyOutcome s.params.rf it (proofsOf s u) env.active (env.assign u)).rejected = true) :
    PaysOk (it.invColl ++ rewardShare it.pubColl ((invsOf s it.uri).length : Int)) (invsOf s it.uri)
      { s with items := setItem s.items { it with status := .rej, ts := s.now } } := by
  obtain ⟨s', h, _⟩ := tallyOne_ok (env := env) hn u
  exact (tally_rejected_pays_exactly hi hf hch hrej h).noSkip

/-- **No skipped send on verification after challenge**: every refund of a correct challenger and the final send to
    the publisher return `.ok` -/
theorem sends_succeed_verified {env : Env} {s : St} {u : String} {it : Item} (hi : Inv s) (hn : NoHalt s)
    (hf : findItem s u = some it) (hch : it.status = .ch)
    (hver : (tallyOutcome s.params.rf it (proofsOf s u) env.active (env.assign u)).rejected = false) :
    ∃ (b : Bank) (refund : Coins),
      (invsOf s it.uri).foldl
          (settleVerified it.invColl (tallyOutcome s.params.rf it (proofsOf s u) env.active (env.assign u)).safe)
          ({ s with items := setItem s.items { it with status := .ver, ts := s.now } }, it.pubColl)
        = ({ s with items := setItem s.items { it with status := .ver, ts := s.now }, bank := b }, refund)
      ∧ SettlesOk it.invColl (tallyOutcome s.params.rf it (proofsOf s u) env.active (env.assign u)).safe
          (invsOf s it.uri)
          ({ s with items := setItem s.items { it with status := .ver, ts := s.now } }, it.pubColl)
      ∧ ∃ b', sendCoins b daAcc it.publisher refund = .ok b' := by
  obtain ⟨s', h, _⟩ := tallyOne_ok (env := env) hn u
  exact (tally_verified_pays_exactly hi hf hch hver h).noSkip

/-! ### the reward share is `⌊pub / n⌋` per denom for valid coins -/
theorem sorted_tail {c : Denom × Int} {cs : Coins} (h : denomsSorted (c :: cs) = true) : denomsSorted cs = true := by
  cases cs with
  | nil => rfl
  | cons b r => simp only [denomsSorted, Bool.and_eq_true] at h; exact h.2

theorem sorted_head_lt : ∀ (cs : Coins) (c : Denom × Int), denomsSorted (c :: cs) = true → ∀ x ∈ cs, c.1 < x.1 := by
  intro cs
  induction cs with
  | nil => intro c _ x hx; cases hx
  | cons b r ih =>
    intro c h x hx
    simp only [denomsSorted, Bool.and_eq_true, decide_eq_true_eq] at h
    rcases List.mem_cons.1 hx with rfl | hx'
    · exact h.1
    · exact String.lt_trans h.1 (ih b h.2 x hx')

theorem amt_absent {cs : Coins} {d : Denom} (h : ∀ x ∈ cs, x.1 ≠ d) : amt cs d = 0 := by
  induction cs with
  | nil => rfl
  | cons c r ih =>
    rw [amt_cons, ih (fun x hx => h x (List.mem_cons_of_mem _ hx))]
    simp [h c (List.mem_cons_self ..)]

theorem rewardShare_denoms {cs : Coins} {n : Int} {x : Denom × Int} (h : x ∈ rewardShare cs n) :
    ∃ y ∈ cs, y.1 = x.1 := by
  unfold rewardShare at h
  obtain ⟨y, hy, e⟩ := List.mem_map.1 h
  exact ⟨y, hy, by rw [← e]⟩

/-- `Coins.IsValid` collateral: the share paid per challenger is exactly `⌊pub(d) / n⌋` in every denom -/
theorem rewardShare_floor {pub : Coins} {n : Int} (hv : coinsValid pub = true) (hn : 0 < n) (d : Denom) :
    amt (rewardShare pub n) d = amt pub d / n := by
  have hp : ∀ c ∈ pub, 0 ≤ c.2 := coinsPos_nonneg (coinsValid_pos hv)
  have hs : denomsSorted pub = true := by
    unfold coinsValid at hv
    simp only [Bool.and_eq_true] at hv
    exact hv.2
  clear hv
  induction pub with
  | nil => simp [rewardShare, amt_nil]
  | cons c cs ih =>
    have h0 := hp c (List.mem_cons_self ..)
    have hr : rewardShare (c :: cs) n = (c.1, c.2 / n) :: rewardShare cs n := by
      simp only [rewardShare, List.map_cons, share_eq_div h0 hn]
    have hlt := sorted_head_lt cs c hs
    rw [hr, amt_cons, amt_cons]
    dsimp only
    by_cases hd : c.1 = d
    · have hne : ∀ x ∈ cs, x.1 ≠ d := by
        intro x hx e
        have := hlt x hx
        rw [e, ← hd] at this
        exact String.lt_irrefl _ this
      have h1 : amt cs d = 0 := amt_absent hne
      have h2 : amt (rewardShare cs n) d = 0 := by
        apply amt_absent
        intro x hx e
        obtain ⟨y, hy, e'⟩ := rewardShare_denoms hx
        exact hne y hy (e'.trans e)
      simp [hd, h1, h2]
    · rw [if_neg hd, if_neg hd, ih (fun x hx => hp x (List.mem_cons_of_mem _ hx)) (sorted_tail hs)]
      simp

/-! ### readable corollaries -/
/-- expiry: a publisher that did not challenge its own item gets exactly the publish collateral back -/
theorem expiry_publisher {s : St} {u : String} {it : Item} (hi : Inv s) (hf : findItem s u = some it)
    (hcp : it.status = .cp) (hno : ∀ x ∈ invsOf s it.uri, x.sender ≠ it.publisher) (d : Denom) :
    (toVerifiedOne s u).bank.bal it.publisher d = s.bank.bal it.publisher d + amt it.pubColl d := by
  have hmem := (findItem_some8 hf).1
  rw [(expiry_pays_exactly hi hf hcp).bal _ d (hi.pubs it hmem), recs_zero_of_absent hno]
  simp

/-- expiry: an account that is not the publisher gets the challenge collateral back once per record -/
theorem expiry_challenger {s : St} {u : String} {it : Item} (hi : Inv s) (hf : findItem s u = some it)
    (hcp : it.status = .cp) {a : Addr} (ha : a ≠ daAcc) (hp : a ≠ it.publisher) (d : Denom) :
    (toVerifiedOne s u).bank.bal a d = s.bank.bal a d + recs (invsOf s it.uri) a * amt it.invColl d := by
  rw [(expiry_pays_exactly hi hf hcp).bal a d ha]
  simp [hp]

/-- the module account pays out exactly the escrow it held for the item -/
theorem expiry_module_drop {s : St} {u : String} {it : Item} (hi : Inv s) (hf : findItem s u = some it)
    (hcp : it.status = .cp) (d : Denom) :
    (toVerifiedOne s u).bank.bal daAcc d = s.bank.bal daAcc d - escrowOf s.invs it d := by
  rw [(expiry_pays_exactly hi hf hcp).module d, escrowOf_unresolved _ _ _ (by rw [hcp]; rfl)]
  show _ = s.bank.bal daAcc d - (amt it.pubColl d + ((invsOf s it.uri).length : Int) * amt it.invColl d)
  omega

/-- rejection: a publisher that holds no record of the item receives nothing -/
theorem rejected_publisher_gets_nothing {env : Env} {s s' : St} {u : String} {it : Item} (hi : Inv s)
    (hf : findItem s u = some it) (hch : it.status = .ch)
    (hrej : (tallyOutcome s.params.rf it (proofsOf s u) env.active (env.assign u)).rejected = true)
    (h : tallyOne env s u = .ok s') (hno : ∀ x ∈ invsOf s it.uri, x.sender ≠ it.publisher) (d : Denom) :
    s'.bank.bal it.publisher d = s.bank.bal it.publisher d := by
  have hmem := (findItem_some8 hf).1
  rw [(tally_rejected_pays_exactly hi hf hch hrej h).bal _ d (hi.pubs it hmem), recs_zero_of_absent hno]
  simp

/-- with no challenger nothing is divided: every share is 0 -/
theorem rewardShare_zero_amt (pub : Coins) (d : Denom) : amt (rewardShare pub 0) d = 0 := by
  induction pub with
  | nil => rfl
  | cons c cs ih =>
    have hr : rewardShare (c :: cs) 0 = (c.1, 0) :: rewardShare cs 0 := by
      simp [rewardShare]
    rw [hr, amt_cons, ih]
    simp

/-- rejection with valid coins and `n` challengers: per record `inv(d) + ⌊pub(d) / n⌋`; the module account keeps
    `pub(d) mod n` as dust. No hypothesis on `n`: for `n = 0` (an item re-imported without its invalidities) nobody holds
    a record, and with Lean's `x / 0 = 0`, `x % 0 = x` the dust is the whole publish collateral. -/
theorem rejected_share_is_floor {env : Env} {s s' : St} {u : String} {it : Item} (hi : Inv s)
    (hf : findItem s u = some it) (hch : it.status = .ch)
    (hrej : (tallyOutcome s.params.rf it (proofsOf s u) env.active (env.assign u)).rejected = true)
    (h : tallyOne env s u = .ok s') (hv : coinsValid it.pubColl = true) :
    (∀ a d, a ≠ daAcc → s'.bank.bal a d = s.bank.bal a d
        + recs (invsOf s it.uri) a * (amt it.invColl d + amt it.pubColl d / ((invsOf s it.uri).length : Int)))
    ∧ (∀ d, s'.dust d = s.dust d + amt it.pubColl d % ((invsOf s it.uri).length : Int)) := by
  have r := tally_rejected_pays_exactly hi hf hch hrej h
  have key : ∀ d, amt (rewardShare it.pubColl ((invsOf s it.uri).length : Int)) d
      = amt it.pubColl d / ((invsOf s it.uri).length : Int) := by
    intro d
    by_cases hn0 : (invsOf s it.uri).length = 0
    · rw [hn0]; simp [rewardShare_zero_amt]
    · exact rewardShare_floor hv (by omega) d
  refine ⟨?_, ?_⟩
  · intro a d ha
    rw [r.bal a d ha, key]
  · intro d
    rw [r.dust d, key, Int.emod_def]

/-- verification after challenge: an account other than the publisher all of whose records are wrong gets nothing back -/
theorem verified_wrong_forfeits {env : Env} {s s' : St} {u : String} {it : Item} (hi : Inv s)
    (hf : findItem s u = some it) (hch : it.status = .ch)
    (hver : (tallyOutcome s.params.rf it (proofsOf s u) env.active (env.assign u)).rejected = false)
    (h : tallyOne env s u = .ok s') {a : Addr} (ha : a ≠ daAcc) (hp : a ≠ it.publisher)
    (hw : ∀ x ∈ invsOf s it.uri, x.sender = a →
      correctInvalidity x (tallyOutcome s.params.rf it (proofsOf s u) env.active (env.assign u)).safe = false)
    (d : Denom) : s'.bank.bal a d = s.bank.bal a d := by
  rw [(tally_verified_pays_exactly hi hf hch hver h).bal a d ha, recs_zero_of_absent]
  · simp [hp]
  · intro x hx e
    obtain ⟨hx1, hx2⟩ := List.mem_filter.1 hx
    rw [hw x hx1 e] at hx2
    cases hx2

/-- verification after challenge: an account other than the publisher gets one challenge collateral per correct record -/
theorem verified_correct_refunded {env : Env} {s s' : St} {u : String} {it : Item} (hi : Inv s)
    (hf : findItem s u = some it) (hch : it.status = .ch)
    (hver : (tallyOutcome s.params.rf it (proofsOf s u) env.active (env.assign u)).rejected = false)
    (h : tallyOne env s u = .ok s') {a : Addr} (ha : a ≠ daAcc) (hp : a ≠ it.publisher) (d : Denom) :
    s'.bank.bal a d = s.bank.bal a d
      + recs (correctOf (tallyOutcome s.params.rf it (proofsOf s u) env.active (env.assign u)).safe (invsOf s it.uri)) a
        * amt it.invColl d := by
  rw [(tally_verified_pays_exactly hi hf hch hver h).bal a d ha]
  simp [hp]

/-- verification after challenge: a publisher without own records gets its collateral plus every forfeited collateral -/
theorem verified_publisher {env : Env} {s s' : St} {u : String} {it : Item} (hi : Inv s)
    (hf : findItem s u = some it) (hch : it.status = .ch)
    (hver : (tallyOutcome s.params.rf it (proofsOf s u) env.active (env.assign u)).rejected = false)
    (h : tallyOne env s u = .ok s') (hno : ∀ x ∈ invsOf s it.uri, x.sender ≠ it.publisher) (d : Denom) :
    s'.bank.bal it.publisher d = s.bank.bal it.publisher d + amt it.pubColl d
      + ((wrongOf (tallyOutcome s.params.rf it (proofsOf s u) env.active (env.assign u)).safe (invsOf s it.uri)).length : Int)
        * amt it.invColl d := by
  have hmem := (findItem_some8 hf).1
  rw [(tally_verified_pays_exactly hi hf hch hver h).bal _ d (hi.pubs it hmem), recs_zero_of_absent]
  · simp; omega
  · intro x hx
    exact hno x (List.mem_filter.1 hx).1

/-! ### 5. the phases of the end-blocker, and reachable states -/
/-- the collateral amounts stored in the items are `Coins.IsValid` (they are copies of validated parameters) -/
structure CollValid (s : St) : Prop where
  params : s.params.valid = true
  items : ∀ it ∈ s.items, coinsValid it.pubColl = true ∧ coinsValid it.invColl = true

theorem valid_coinsValid {p : Params} (h : p.valid = true) : coinsValid p.pub = true ∧ coinsValid p.inv = true := by
  unfold Params.valid at h
  simp only [Bool.and_eq_true] at h
  exact ⟨h.1.2, h.2⟩

theorem CollValid.of_items {s s' : St} (h : CollValid s) (hp : s'.params = s.params)
    (hi : ∀ x ∈ s'.items, ∃ y ∈ s.items, x.pubColl = y.pubColl ∧ x.invColl = y.invColl) : CollValid s' := by
  refine ⟨by rw [hp]; exact h.params, ?_⟩
  intro x hx
  obtain ⟨y, hy, e1, e2⟩ := hi x hx
  rw [e1, e2]; exact h.items y hy

theorem CollValid.retag {s s' : St} (h : CollValid s) {it : Item} (hmem : it ∈ s.items) (st : Status) (t : Int)
    (hp : s'.params = s.params) (hi : s'.items = setItem s.items { it with status := st, ts := t }) :
    CollValid s' := by
  apply h.of_items hp
  intro x hx
  rw [hi] at hx
  rcases mem_setItem hx with rfl | ⟨hx', _⟩
  · exact ⟨it, hmem, rfl, rfl⟩
  · exact ⟨x, hx', rfl, rfl⟩

theorem collValid_pruneOne {s : St} (st : Status) (h : CollValid s) (u : String) : CollValid (pruneOne st s u) := by
  unfold pruneOne
  split
  · split
    · exact h.of_items rfl (fun x hx => ⟨x, (List.mem_filter.1 hx).1, rfl, rfl⟩)
    · exact h
  · exact h

theorem collValid_toChallengingOne {s : St} (h : CollValid s) (u : String) : CollValid (toChallengingOne s u) := by
  unfold toChallengingOne
  split
  · rename_i it hfind
    split
    · simp only []
      split
      · exact h.retag (findItem_some8 hfind).1 .ch s.now rfl rfl
      · exact h
    · exact h
  · exact h

theorem collValid_toVerifiedOne {s : St} (hi : Inv s) (h : CollValid s) (u : String) : CollValid (toVerifiedOne s u) := by
  cases hf : findItem s u with
  | none => rw [toVerifiedOne_other (by intro it e; rw [hf] at e; cases e)]; exact h
  | some it =>
    by_cases hcp : it.status = .cp
    · have r := expiry_pays_exactly hi hf hcp
      exact h.retag (findItem_some8 hf).1 .ver s.now r.params r.items
    · rw [toVerifiedOne_other (by intro it' e; rw [hf] at e; cases e; exact hcp)]; exact h

theorem collValid_tallyOne {env : Env} {s s' : St} {u : String} (hi : Inv s) (h : CollValid s)
    (ht : tallyOne env s u = .ok s') : CollValid s' := by
  cases hf : findItem s u with
  | none =>
    rw [tallyOne_other (by intro it e; rw [hf] at e; cases e)] at ht
    cases ht; exact h
  | some it =>
    by_cases hch : it.status = .ch
    · cases hr : (tallyOutcome s.params.rf it (proofsOf s u) env.active (env.assign u)).rejected with
      | true =>
        have r := tally_rejected_pays_exactly hi hf hch hr ht
        exact h.retag (findItem_some8 hf).1 .rej s.now r.params r.items
      | false =>
        have r := tally_verified_pays_exactly hi hf hch hr ht
        exact h.retag (findItem_some8 hf).1 .ver s.now r.params r.items
    · rw [tallyOne_other (by intro it' e; rw [hf] at e; cases e; exact hch)] at ht
      cases ht; exact h

/-! #### one record per sender and item (S13 fix) -/
/-- no sender holds two records of the same item -/
def Uniq (invs : List Inval) : Prop := ∀ u a, recs (invs.filter (fun x => x.uri == u)) a ≤ 1

theorem recs_filter_eq (invs : List Inval) (u : String) (a : Addr) :
    recs (invs.filter (fun x => x.uri == u)) a
      = ((invs.filter (fun x => x.sender == a && x.uri == u)).length : Int) := by
  unfold recs; rw [List.filter_filter]

theorem Uniq.filter {invs : List Inval} (h : Uniq invs) (p : Inval → Bool) : Uniq (invs.filter p) := by
  intro u a
  have h1 := h u a
  unfold recs at *
  have hs : (((invs.filter p).filter (fun x => x.uri == u)).filter (fun x => x.sender == a)).length
      ≤ ((invs.filter (fun x => x.uri == u)).filter (fun x => x.sender == a)).length :=
    ((List.filter_sublist.filter _).filter _).length_le
  omega

theorem Uniq.insert {invs : List Inval} (h : Uniq invs) (lt : Inval → Inval → Bool) (r : Inval)
    (hno : invs.any (fun x => x.uri == r.uri && x.sender == r.sender) = false) : Uniq (insertBy lt r invs) := by
  intro u a
  have h1 := h u a
  rw [recs_filter_eq] at h1 ⊢
  rw [filter_length_insertBy]
  by_cases hp : (r.sender == a && r.uri == u) = true
  · have hnil : invs.filter (fun x => x.sender == a && x.uri == u) = [] := by
      rw [List.filter_eq_nil_iff]
      intro x hx hpx
      have hx' := List.any_eq_false.1 hno x hx
      simp only [Bool.and_eq_true, beq_iff_eq] at hp hpx
      apply hx'
      simp [hp.1, hp.2, hpx.1, hpx.2]
    rw [hnil, if_pos hp]; simp
  · rw [if_neg hp]; simpa using h1

theorem uniq_publish {s s' : St} {a : Addr} {u : String} {n p : Nat} (h : Uniq s.invs)
    (hr : publish s a u n p = .ok s') : Uniq s'.invs := by
  unfold publish at hr
  split at hr
  · cases hr
  split at hr
  · cases hr
  simp only [] at hr
  split at hr
  · obtain ⟨b, _, hb⟩ := bind_ok hr
    simp only [Res.ok.injEq] at hb
    subst hb; exact h
  · simp only [Res.ok.injEq] at hr
    subst hr; exact h

theorem uniq_submitInvalidity {s s' : St} {a : Addr} {u : String} {ix : List Int} (h : Uniq s.invs)
    (hr : submitInvalidity s a u ix = .ok s') : Uniq s'.invs := by
  unfold submitInvalidity at hr
  split at hr
  · cases hr
  split at hr
  · cases hr
  split at hr
  · cases hr
  split at hr
  · cases hr
  split at hr
  · cases hr
  rename_i hno
  have key : Uniq (insertBy (fun a b => keyLt a.uri a.sender b.uri b.sender) (Inval.mk u a ix) s.invs) :=
    h.insert _ _ (by simpa [hasInval] using hno)
  simp only [] at hr
  split at hr
  · obtain ⟨b, _, hb⟩ := bind_ok hr
    simp only [Res.ok.injEq] at hb
    subst hb; exact key
  · simp only [Res.ok.injEq] at hr
    subst hr; exact key

theorem pruneOne_invs (st : Status) (s : St) (u : String) : (pruneOne st s u).invs = s.invs := by
  unfold pruneOne
  split
  · split <;> rfl
  · rfl

theorem toChallengingOne_invs (s : St) (u : String) : (toChallengingOne s u).invs = s.invs := by
  unfold toChallengingOne
  split
  · split
    · simp only []
      split <;> rfl
    · rfl
  · rfl

theorem uniq_toVerifiedOne {s : St} (hi : Inv s) (h : Uniq s.invs) (u : String) : Uniq (toVerifiedOne s u).invs := by
  cases hf : findItem s u with
  | none => rw [toVerifiedOne_other (by intro it e; rw [hf] at e; cases e)]; exact h
  | some it =>
    by_cases hcp : it.status = .cp
    · rw [(expiry_pays_exactly hi hf hcp).records]; exact h.filter _
    · rw [toVerifiedOne_other (by intro it' e; rw [hf] at e; cases e; exact hcp)]; exact h

theorem uniq_tallyOne {env : Env} {s s' : St} {u : String} (hi : Inv s) (h : Uniq s.invs)
    (ht : tallyOne env s u = .ok s') : Uniq s'.invs := by
  cases hf : findItem s u with
  | none =>
    rw [tallyOne_other (by intro it e; rw [hf] at e; cases e)] at ht
    cases ht; exact h
  | some it =>
    by_cases hch : it.status = .ch
    · cases hr : (tallyOutcome s.params.rf it (proofsOf s u) env.active (env.assign u)).rejected with
      | true => rw [(tally_rejected_pays_exactly hi hf hch hr ht).records]; exact h.filter _
      | false => rw [(tally_verified_pays_exactly hi hf hch hr ht).records]; exact h.filter _
    · rw [tallyOne_other (by intro it' e; rw [hf] at e; cases e; exact hch)] at ht
      cases ht; exact h

/-! #### a `challenging` item of a history from genesis has a recorded challenger
This used to be a clause of `NoHalt` (it excluded the division by `len(invalidities) = 0` of the rejected branch, gone
with the fix of `abci.go`). It is no longer needed for "no panic"; it is kept here because it is what makes "every
rejection of a history from genesis pays `n ≥ 1` challengers" true. It does NOT hold after a genesis import (the
invalidities are dropped): there the `Inv`-only statements apply, with `n = 0`. -/
/-- every item in status `challenging` has at least one recorded invalidity (guaranteed on entry by the guard `0 < n`
    of `toChallengingOne`; the invalidities of a uri are only deleted when its item leaves `challenging`) -/
def Challenged (s : St) : Prop := ∀ it ∈ s.items, it.status = .ch → invsOf s it.uri ≠ []

/-- no item with uri `u` is in status `challenging` -/
def Term (s : St) (u : String) : Prop := ∀ it ∈ s.items, it.uri = u → it.status ≠ .ch

/-- monotone in "fewer items, more invalidities" -/
theorem Challenged.mono {s s' : St} (h : Challenged s) (hi : ∀ x ∈ s'.items, x ∈ s.items)
    (hv : ∀ w, invsOf s w ≠ [] → invsOf s' w ≠ []) : Challenged s' :=
  fun it hit hs => hv _ (h it (hi it hit) hs)

theorem Challenged.congr {s s' : St} (h : Challenged s) (hi : s'.items = s.items) (hv : s'.invs = s.invs) :
    Challenged s' := by
  apply h.mono (by rw [hi]; exact fun x hx => hx)
  intro w hw
  unfold invsOf at *
  rw [hv]; exact hw

theorem filter_uri_keep (invs : List Inval) (p : Inval → Bool) (w : String)
    (h : ∀ x ∈ invs, x.uri = w → p x = true) :
    (invs.filter p).filter (fun x => x.uri == w) = invs.filter (fun x => x.uri == w) := by
  rw [List.filter_filter]
  apply List.filter_congr
  intro x hx
  by_cases hv : x.uri = w
  · simp [hv, h x hx hv]
  · simp [hv]

/-- deleting invalidities of a uri none of whose items is `challenging` -/
theorem Challenged.dropRecords {s s' : St} {u : String} (h : Challenged s) (ht : Term s u) (p : Inval → Bool)
    (hp : ∀ x ∈ s.invs, x.uri ≠ u → p x = true)
    (hi : s'.items = s.items) (hv : s'.invs = s.invs.filter p) : Challenged s' := by
  intro it hit hs
  rw [hi] at hit
  have hne : it.uri ≠ u := fun e => ht it hit e hs
  have := h it hit hs
  unfold invsOf at *
  rw [hv, filter_uri_keep]
  · exact this
  · intro x hx hxu; exact hp x hx (by rw [hxu]; exact hne)

/-- re-tagging a stored item (status, timestamp); entering `challenging` needs a recorded invalidity -/
theorem Challenged.retag {s : St} (h : Challenged s) {it : Item} (hmem : it ∈ s.items) (st : Status) (t : Int)
    (hst : st = .ch → invsOf s it.uri ≠ []) :
    Challenged { s with items := setItem s.items { it with status := st, ts := t } } := by
  intro x hx hs
  rcases mem_setItem hx with rfl | ⟨hx', _⟩
  · exact hst hs
  · exact h x hx' hs

theorem term_retag {s : St} {it : Item} (st : Status) (t : Int) (hst : st ≠ .ch) :
    Term { s with items := setItem s.items { it with status := st, ts := t } } it.uri := by
  intro x hx hu hs
  rcases mem_setItem hx with rfl | ⟨_, hne⟩
  · exact hst hs
  · exact hne hu

/-- the state after resolving item `it`: every item with its uri leaves `challenging`, its invalidities are deleted -/
theorem Challenged.resolve {s s' : St} (h : Challenged s) {it : Item} (hmem : it ∈ s.items) (st : Status) (t : Int)
    (hst : st ≠ .ch) (hi : s'.items = setItem s.items { it with status := st, ts := t })
    (hv : s'.invs = s.invs.filter (fun x => !(x.uri == it.uri))) : Challenged s' := by
  have h1 := h.retag hmem st t (fun e => absurd e hst)
  have t1 := term_retag (s := s) (it := it) st t hst
  exact h1.dropRecords t1 (fun x => !(x.uri == it.uri)) (by intro x _ hne; simp [hne]) hi hv

theorem invsOf_insert_ne_nil (lt : Inval → Inval → Bool) (r : Inval) (invs : List Inval) (w : String)
    (h : invs.filter (fun x => x.uri == w) ≠ []) : (insertBy lt r invs).filter (fun x => x.uri == w) ≠ [] := by
  intro hnil
  apply h
  rw [List.filter_eq_nil_iff] at hnil ⊢
  intro x hx
  exact hnil x ((mem_insertBy8 _ _ _ _).2 (Or.inr hx))

theorem challenged_publish {s s' : St} {a : Addr} {u : String} {n p : Nat} (hi : Challenged s)
    (h : publish s a u n p = .ok s') : Challenged s' := by
  unfold publish at h
  split at h
  · cases h
  split at h
  · cases h
  simp only [] at h
  have common : ∀ b : Bank, Challenged { s with
      items := insertBy itemLt ⟨u, .cp, s.now, a, n, p, s.params.pub, s.params.inv⟩ s.items, bank := b } := by
    intro b y hy hs
    rcases (mem_insertBy8 _ _ _ _).1 hy with rfl | hy
    · cases hs
    · exact hi y hy hs
  split at h
  · obtain ⟨b, _, hb⟩ := bind_ok h
    simp only [Res.ok.injEq] at hb
    subst hb; exact common b
  · simp only [Res.ok.injEq] at h
    subst h; exact common s.bank

theorem challenged_submitInvalidity {s s' : St} {a : Addr} {u : String} {ix : List Int} (hi : Challenged s)
    (h : submitInvalidity s a u ix = .ok s') : Challenged s' := by
  unfold submitInvalidity at h
  split at h
  · cases h
  split at h
  · cases h
  split at h
  · cases h
  split at h
  · cases h
  split at h
  · cases h
  simp only [] at h
  split at h
  · obtain ⟨b, _, hb⟩ := bind_ok h
    simp only [Res.ok.injEq] at hb
    subst hb
    exact hi.mono (fun x hx => hx) (fun w hw => invsOf_insert_ne_nil _ _ _ _ hw)
  · simp only [Res.ok.injEq] at h
    subst h
    exact hi.mono (fun x hx => hx) (fun w hw => invsOf_insert_ne_nil _ _ _ _ hw)

theorem challenged_pruneOne {s : St} (st : Status) (hi : Challenged s) (u : String) : Challenged (pruneOne st s u) := by
  unfold pruneOne
  split
  · split
    · exact hi.mono (fun x hx => (List.mem_filter.1 hx).1) (fun w hw => hw)
    · exact hi
  · exact hi

theorem challenged_toChallengingOne {s : St} (hi : Challenged s) (u : String) : Challenged (toChallengingOne s u) := by
  unfold toChallengingOne
  split
  · rename_i it hfind
    obtain ⟨hmem, huri⟩ := findItem_some8 hfind
    split
    · simp only []
      split
      · rename_i hg
        apply hi.retag hmem
        intro _ hnil
        rw [huri] at hnil
        rw [hnil] at hg
        simp [distinctIndices] at hg
      · exact hi
    · exact hi
  · exact hi

theorem challenged_toVerifiedOne {s : St} (hi : Inv s) (h : Challenged s) (u : String) :
    Challenged (toVerifiedOne s u) := by
  cases hf : findItem s u with
  | none => rw [toVerifiedOne_other (by intro it e; rw [hf] at e; cases e)]; exact h
  | some it =>
    by_cases hcp : it.status = .cp
    · have r := expiry_pays_exactly hi hf hcp
      exact h.resolve (findItem_some8 hf).1 .ver s.now (by decide) r.items r.records
    · rw [toVerifiedOne_other (by intro it' e; rw [hf] at e; cases e; exact hcp)]; exact h

theorem challenged_tallyOne {env : Env} {s s' : St} {u : String} (hi : Inv s) (h : Challenged s)
    (ht : tallyOne env s u = .ok s') : Challenged s' := by
  cases hf : findItem s u with
  | none =>
    rw [tallyOne_other (by intro it e; rw [hf] at e; cases e)] at ht
    cases ht; exact h
  | some it =>
    by_cases hch : it.status = .ch
    · cases hr : (tallyOutcome s.params.rf it (proofsOf s u) env.active (env.assign u)).rejected with
      | true =>
        have r := tally_rejected_pays_exactly hi hf hch hr ht
        exact h.resolve (findItem_some8 hf).1 .rej s.now (by decide) r.items r.records
      | false =>
        have r := tally_verified_pays_exactly hi hf hch hr ht
        exact h.resolve (findItem_some8 hf).1 .ver s.now (by decide) r.items r.records
    · rw [tallyOne_other (by intro it' e; rw [hf] at e; cases e; exact hch)] at ht
      cases ht; exact h

/-- the invariants the payout statements use, together -/
structure Good (s : St) : Prop where
  inv : Inv s
  nohalt : NoHalt s
  coll : CollValid s
  uniq : Uniq s.invs
  chal : Challenged s

theorem good_foldl {f : St → String → St} (hf : ∀ s u, Good s → Good (f s u)) :
    ∀ (l : List String) (s : St), Good s → Good (l.foldl f s) := by
  intro l
  induction l with
  | nil => intro s h; exact h
  | cons u l ih => intro s h; exact ih _ (hf s u h)

theorem good_pruneOne (st : Status) (hst : st.unresolved = false) (s : St) (u : String) (h : Good s) :
    Good (pruneOne st s u) :=
  ⟨inv_pruneOne st hst h.inv u, nohalt_pruneOne st h.nohalt u, collValid_pruneOne st h.coll u,
    by rw [pruneOne_invs]; exact h.uniq, challenged_pruneOne st h.chal u⟩

theorem good_toChallengingOne (s : St) (u : String) (h : Good s) : Good (toChallengingOne s u) :=
  ⟨inv_toChallengingOne h.inv u, nohalt_toChallengingOne h.nohalt u, collValid_toChallengingOne h.coll u,
    by rw [toChallengingOne_invs]; exact h.uniq, challenged_toChallengingOne h.chal u⟩

theorem good_toVerifiedOne (s : St) (u : String) (h : Good s) : Good (toVerifiedOne s u) :=
  ⟨inv_toVerifiedOne h.inv u, nohalt_toVerifiedOne h.nohalt u, collValid_toVerifiedOne h.inv h.coll u,
    uniq_toVerifiedOne h.inv h.uniq u, challenged_toVerifiedOne h.inv h.chal u⟩

theorem good_tallyOne {env : Env} {s s' : St} {u : String} (h : Good s) (ht : tallyOne env s u = .ok s') : Good s' := by
  obtain ⟨s'', e, hn⟩ := tallyOne_ok (env := env) h.nohalt u
  rw [ht] at e; cases e
  exact ⟨inv_tallyOne h.inv ht, hn, collValid_tallyOne h.inv h.coll ht, uniq_tallyOne h.inv h.uniq ht,
    challenged_tallyOne h.inv h.chal ht⟩

theorem good_tallyList {env : Env} : ∀ (l : List String) {s s' : St}, Good s → tallyList env l s = .ok s' → Good s' := by
  intro l
  induction l with
  | nil => intro s s' hg h; simp only [tallyList, Res.ok.injEq] at h; subst h; exact hg
  | cons u l ih =>
    intro s s' hg h
    simp only [tallyList] at h
    obtain ⟨s1, h1, h2⟩ := bind_ok h
    exact ih (good_tallyOne hg h1) h2

/-- the state in which the to-verified phase of `endBlock env s` starts -/
def preVerified (s : St) : St := toChallenging (prune (prune s .rej s.params.rrp) .ver s.params.vrp)
/-- the state in which the tally phase of `endBlock env s` starts -/
def preTally (s : St) : St := toVerified (preVerified s)

theorem good_preVerified {s : St} (h : Good s) : Good (preVerified s) := by
  unfold preVerified toChallenging prune
  exact good_foldl good_toChallengingOne _ _
    (good_foldl (good_pruneOne .ver rfl) _ _ (good_foldl (good_pruneOne .rej rfl) _ _ h))

theorem good_preTally {s : St} (h : Good s) : Good (preTally s) := by
  unfold preTally toVerified
  exact good_foldl good_toVerifiedOne _ _ (good_preVerified h)

/-- `endBlock` is its phases: the to-verified scan over `preVerified s`, then the tally scan over `preTally s` -/
theorem endBlock_phases (env : Env) (s : St) :
    endBlock env s = (tally env (preTally s)).bind fun s5 =>
      if s.params.epoch = 0 then .panic .divZero else
      if Int.tmod s.height s.params.epoch = 0 then .ok (slashEpoch env s5) else .ok (s5, []) := rfl

theorem tallyList_append (env : Env) : ∀ (pre post : List String) (s : St),
    tallyList env (pre ++ post) s = (tallyList env pre s).bind (tallyList env post) := by
  intro pre
  induction pre with
  | nil => intro post s; rfl
  | cons u pre ih =>
    intro post s
    simp only [List.cons_append, tallyList]
    cases tallyOne env s u with
    | ok s1 => simp only [Res.bind]; exact ih post s1
    | err c => rfl
    | panic k => rfl

/-- **Every expiry of a block pays exactly.** In the to-verified phase of the end-blocker started in a good state,
    whatever was processed before (`pre`), the step on the next uri `u` pays by the rule of `ExpiryPayout`
    (and is the identity when `u` is not an item in its challenge period). The phase result is the fold of these steps. -/
theorem endBlock_expiry_exact {s : St} (hg : Good s) (pre : List String) (u : String) (post : List String)
    (hscan : indexScan (preVerified s) .cp (some (unix ((preVerified s).now - (preVerified s).params.cp)))
      = pre ++ u :: post) :
    let sp := pre.foldl toVerifiedOne (preVerified s)
    Good sp
    ∧ preTally s = post.foldl toVerifiedOne (toVerifiedOne sp u)
    ∧ (∀ it, findItem sp u = some it → it.status = .cp → ExpiryPayout sp it (toVerifiedOne sp u))
    ∧ ((∀ it, findItem sp u = some it → it.status ≠ .cp) → toVerifiedOne sp u = sp) := by
  intro sp
  have hsp : Good sp := good_foldl good_toVerifiedOne _ _ (good_preVerified hg)
  refine ⟨hsp, ?_, fun it hf hcp => expiry_pays_exactly hsp.inv hf hcp, toVerifiedOne_other⟩
  unfold preTally toVerified
  rw [hscan, List.foldl_append, List.foldl_cons]

/-- **Every tally of a block pays exactly.** In the tally phase of the end-blocker started in a good state, after the
    uris `pre` have been tallied, the tally of the next uri `u` returns (no panic) and pays by `RejectedPayout` or
    `VerifiedPayout` according to the verdict (and is the identity when `u` is not a challenged item). -/
theorem endBlock_tally_exact {env : Env} {s : St} (hg : Good s) (pre : List String) (u : String) (post : List String)
    (hscan : indexScan (preTally s) .ch (some (unix ((preTally s).now - (preTally s).params.pp))) = pre ++ u :: post) :
    ∃ sp sp', tallyList env pre (preTally s) = .ok sp ∧ Good sp ∧ tallyOne env sp u = .ok sp' ∧ Good sp'
      ∧ tally env (preTally s) = tallyList env post sp'
      ∧ (∀ it, findItem sp u = some it → it.status = .ch →
          ((tallyOutcome sp.params.rf it (proofsOf sp u) env.active (env.assign u)).rejected = true
              → RejectedPayout sp it sp')
          ∧ ((tallyOutcome sp.params.rf it (proofsOf sp u) env.active (env.assign u)).rejected = false
              → VerifiedPayout (tallyOutcome sp.params.rf it (proofsOf sp u) env.active (env.assign u)).safe sp it sp'))
      ∧ ((∀ it, findItem sp u = some it → it.status ≠ .ch) → sp' = sp) := by
  have h4 := good_preTally hg
  obtain ⟨sp, e1, hn1⟩ := tallyList_ok (env := env) pre h4.nohalt
  have hsp : Good sp := good_tallyList pre h4 e1
  obtain ⟨sp', e2, hn2⟩ := tallyOne_ok (env := env) hsp.nohalt u
  have hsp' : Good sp' := good_tallyOne hsp e2
  refine ⟨sp, sp', e1, hsp, e2, hsp', ?_, ?_, ?_⟩
  · unfold tally
    rw [hscan, tallyList_append, e1]
    simp only [Res.bind, tallyList, e2]
  · intro it hf hch
    exact ⟨fun hr => tally_rejected_pays_exactly hsp.inv hf hch hr e2,
           fun hr => tally_verified_pays_exactly hsp.inv hf hch hr e2⟩
  · intro h
    rw [tallyOne_other h] at e2
    cases e2; rfl

/-! #### `Good` holds in every reachable state -/
theorem collValid_publish {s s' : St} {a : Addr} {u : String} {n p : Nat} (h : CollValid s)
    (hr : publish s a u n p = .ok s') : CollValid s' := by
  obtain ⟨v1, v2⟩ := valid_coinsValid h.params
  have key : ∀ b : Bank, CollValid { s with
      items := insertBy itemLt ⟨u, .cp, s.now, a, n, p, s.params.pub, s.params.inv⟩ s.items, bank := b } := by
    intro b
    refine ⟨h.params, ?_⟩
    intro x hx
    rcases (mem_insertBy8 _ _ _ _).1 hx with rfl | hx'
    · exact ⟨v1, v2⟩
    · exact h.items x hx'
  unfold publish at hr
  split at hr
  · cases hr
  split at hr
  · cases hr
  simp only [] at hr
  split at hr
  · obtain ⟨b, _, hb⟩ := bind_ok hr
    simp only [Res.ok.injEq] at hb
    subst hb; exact key b
  · simp only [Res.ok.injEq] at hr
    subst hr; exact key s.bank

theorem collValid_submitInvalidity {s s' : St} {a : Addr} {u : String} {ix : List Int} (h : CollValid s)
    (hr : submitInvalidity s a u ix = .ok s') : CollValid s' := by
  unfold submitInvalidity at hr
  split at hr
  · cases hr
  split at hr
  · cases hr
  split at hr
  · cases hr
  split at hr
  · cases hr
  split at hr
  · cases hr
  simp only [] at hr
  split at hr
  · obtain ⟨b, _, hb⟩ := bind_ok hr
    simp only [Res.ok.injEq] at hb
    subst hb; exact ⟨h.params, h.items⟩
  · simp only [Res.ok.injEq] at hr
    subst hr; exact ⟨h.params, h.items⟩

theorem good_time {s : St} (h : Good s) (t ht : Int) : Good { s with now := t, height := ht } :=
  ⟨inv_time h.inv t ht, nohalt_time h.nohalt t ht, ⟨h.coll.params, h.coll.items⟩, h.uniq, h.chal.congr rfl rfl⟩

theorem good_endBlock {env : Env} {s s' : St} {sl : List Addr} (hg : Good s) (h : endBlock env s = .ok (s', sl)) :
    Good s' := by
  have hi' := inv_endBlock hg.inv h
  have hn' : NoHalt s' := by
    obtain ⟨r, e, hn⟩ := endBlock_ok (env := env) hg.nohalt
    rw [h] at e; cases e; exact hn
  rw [endBlock_phases] at h
  obtain ⟨s5, h5, h6⟩ := bind_ok h
  have g5 : Good s5 := good_tallyList _ (good_preTally hg) h5
  split at h6
  · cases h6
  split at h6
  · simp only [Res.ok.injEq] at h6
    have : s' = (slashEpoch env s5).1 := by rw [h6]
    subst this
    exact ⟨hi', hn', ⟨g5.coll.params, g5.coll.items⟩, g5.uniq, g5.chal.congr rfl rfl⟩
  · simp only [Res.ok.injEq, Prod.mk.injEq] at h6
    rw [← h6.1]; exact g5

theorem coll_uniq_step {s : St} (op : Op) (hg : Good s) : CollValid (step s op).1 ∧ Uniq (step s op).1.invs := by
  have h := hg.coll
  have hu := hg.uniq
  cases op with
  | publish a u n p =>
    simp only [step]
    cases hr : publish s a u n p with
    | ok s' => exact ⟨collValid_publish h hr, uniq_publish hu hr⟩
    | err c => exact ⟨h, hu⟩
    | panic k => exact ⟨h, hu⟩
  | invalid a u ix =>
    simp only [step]
    cases hr : submitInvalidity s a u ix with
    | ok s' => exact ⟨collValid_submitInvalidity h hr, uniq_submitInvalidity hu hr⟩
    | err c => exact ⟨h, hu⟩
    | panic k => exact ⟨h, hu⟩
  | proof a v u ixs e x b =>
    simp only [step]
    cases hr : submitProof s a v u ixs e x b with
    | ok s' =>
      simp only [applyMsg]
      obtain ⟨_, a2, a3, a4, _⟩ := submitProof_fields hr
      exact ⟨⟨by rw [a4]; exact h.params, by rw [a2]; exact h.items⟩, by rw [a3]; exact hu⟩
    | err c => exact ⟨h, hu⟩
    | panic k => exact ⟨h, hu⟩
  | regdep a d =>
    simp only [step, registerDeputy]
    exact ⟨⟨h.params, h.items⟩, hu⟩
  | unregdep a =>
    simp only [step]
    unfold unregisterDeputy
    split
    · exact ⟨h, hu⟩
    · simp only [applyMsg]
      exact ⟨⟨h.params, h.items⟩, hu⟩
  | setParams p =>
    simp only [step]
    unfold updateParams
    split
    · rename_i hv
      simp only [applyMsg]
      exact ⟨⟨hv, h.items⟩, hu⟩
    · exact ⟨h, hu⟩
  | block env dt =>
    simp only [step]
    cases hr : block env s dt with
    | ok r =>
      obtain ⟨s', sl⟩ := r
      have g := good_endBlock (good_time hg _ _) hr
      exact ⟨g.coll, g.uniq⟩
    | err c => exact ⟨h, hu⟩
    | panic k => exact ⟨h, hu⟩

theorem challenged_step {s : St} (op : Op) (hg : Good s) : Challenged (step s op).1 := by
  have h := hg.chal
  cases op with
  | publish a u n p =>
    simp only [step]
    cases hr : publish s a u n p with
    | ok s' => exact challenged_publish h hr
    | err c => exact h
    | panic k => exact h
  | invalid a u ix =>
    simp only [step]
    cases hr : submitInvalidity s a u ix with
    | ok s' => exact challenged_submitInvalidity h hr
    | err c => exact h
    | panic k => exact h
  | proof a v u ixs e x b =>
    simp only [step]
    cases hr : submitProof s a v u ixs e x b with
    | ok s' =>
      simp only [applyMsg]
      obtain ⟨_, a2, a3, _, _⟩ := submitProof_fields hr
      exact h.congr a2 a3
    | err c => exact h
    | panic k => exact h
  | regdep a d =>
    simp only [step, registerDeputy]
    exact h.congr rfl rfl
  | unregdep a =>
    simp only [step]
    unfold unregisterDeputy
    split
    · exact h
    · simp only [applyMsg]
      exact h.congr rfl rfl
  | setParams p =>
    simp only [step]
    unfold updateParams
    split
    · simp only [applyMsg]
      exact h.congr rfl rfl
    · exact h
  | block env dt =>
    simp only [step]
    cases hr : block env s dt with
    | ok r =>
      obtain ⟨s', sl⟩ := r
      exact (good_endBlock (good_time hg _ _) hr).chal
    | err c => exact h
    | panic k => exact h

theorem good_step {s : St} (op : Op) (hg : Good s) (hwf : op.wf) : Good (step s op).1 :=
  ⟨inv_step op hg.inv hwf, nohalt_step op hg.nohalt, (coll_uniq_step op hg).1, (coll_uniq_step op hg).2,
    challenged_step op hg⟩

theorem good_init {s : St} (h : Init s) : Good s :=
  ⟨inv_init h, nohalt_init h, ⟨h.params, by rw [h.items]; intro x hx; cases hx⟩,
    by rw [h.invs]; intro u a; simp [recs], by rw [Challenged, h.items]; intro x hx; cases hx⟩

/-- every reachable state satisfies the escrow invariant, the no-halt invariant, and stores only valid collateral -/
theorem good_reachable {s : St} (h : Reachable s) : Good s := by
  induction h with
  | init h0 => exact good_init h0
  | step op _ hwf ih => exact good_step op ih hwf

/-- the end-blocker of the block that follows a reachable state starts in a good state -/
theorem block_start_good {s : St} (h : Reachable s) (dt : Int) :
    Good { s with now := s.now + dt, height := s.height + 1 } := good_time (good_reachable h) _ _

/-- in a good state (so: in every step of every block after a reachable state) the rejection share is the floor and
    the dust is the remainder, with no extra hypothesis: the stored collateral is valid and a challenged item has
    at least one challenger -/
theorem good_rejected_share_is_floor {env : Env} {s s' : St} {u : String} {it : Item} (hg : Good s)
    (hf : findItem s u = some it) (hch : it.status = .ch)
    (hrej : (tallyOutcome s.params.rf it (proofsOf s u) env.active (env.assign u)).rejected = true)
    (h : tallyOne env s u = .ok s') :
    (∀ a d, a ≠ daAcc → s'.bank.bal a d = s.bank.bal a d
        + recs (invsOf s it.uri) a * (amt it.invColl d + amt it.pubColl d / ((invsOf s it.uri).length : Int)))
    ∧ (∀ d, s'.dust d = s.dust d + amt it.pubColl d % ((invsOf s it.uri).length : Int))
    ∧ 0 < (invsOf s it.uri).length := by
  have hmem := (findItem_some8 hf).1
  have hne := hg.chal it hmem hch
  obtain ⟨r1, r2⟩ := rejected_share_is_floor hg.inv hf hch hrej h (hg.coll.items it hmem).1
  exact ⟨r1, r2, List.length_pos_iff.2 hne⟩

/-! #### the rule, challenger by challenger (good states: one record per challenger) -/
theorem recs_pos_of_mem {L : List Inval} {x : Inval} (h : x ∈ L) : 1 ≤ recs L x.sender := by
  unfold recs
  have : x ∈ L.filter (fun y => y.sender == x.sender) := List.mem_filter.2 ⟨h, by simp⟩
  have := List.length_pos_of_mem this
  omega

theorem good_recs_eq_one {s : St} (hg : Good s) {u : String} {x : Inval} (hx : x ∈ invsOf s u) :
    recs (invsOf s u) x.sender = 1 := by
  have h1 : recs (invsOf s u) x.sender ≤ 1 := hg.uniq u x.sender
  have h2 := recs_pos_of_mem hx
  omega

/-- expiry: every recorded challenger (other than the publisher) gets exactly the challenge collateral back -/
theorem good_expiry_each_challenger {s : St} {u : String} {it : Item} (hg : Good s) (hf : findItem s u = some it)
    (hcp : it.status = .cp) {x : Inval} (hx : x ∈ invsOf s it.uri) (hp : x.sender ≠ it.publisher) (d : Denom) :
    (toVerifiedOne s u).bank.bal x.sender d = s.bank.bal x.sender d + amt it.invColl d := by
  have ha : x.sender ≠ daAcc := hg.inv.chals x (List.mem_filter.1 hx).1
  rw [expiry_challenger hg.inv hf hcp ha hp, good_recs_eq_one hg hx, Int.one_mul]

/-- rejection: every recorded challenger gets exactly the challenge collateral plus `⌊pub / n⌋` -/
theorem good_rejected_each_challenger {env : Env} {s s' : St} {u : String} {it : Item} (hg : Good s)
    (hf : findItem s u = some it) (hch : it.status = .ch)
    (hrej : (tallyOutcome s.params.rf it (proofsOf s u) env.active (env.assign u)).rejected = true)
    (h : tallyOne env s u = .ok s') {x : Inval} (hx : x ∈ invsOf s it.uri) (d : Denom) :
    s'.bank.bal x.sender d
      = s.bank.bal x.sender d + amt it.invColl d + amt it.pubColl d / ((invsOf s it.uri).length : Int) := by
  have ha : x.sender ≠ daAcc := hg.inv.chals x (List.mem_filter.1 hx).1
  rw [(good_rejected_share_is_floor hg hf hch hrej h).1 _ d ha, good_recs_eq_one hg hx, Int.one_mul]
  omega

/-- verification after challenge: a recorded challenger (other than the publisher) gets the challenge collateral back
    iff its invalidity was correct, and nothing otherwise -/
theorem good_verified_each_challenger {env : Env} {s s' : St} {u : String} {it : Item} (hg : Good s)
    (hf : findItem s u = some it) (hch : it.status = .ch)
    (hver : (tallyOutcome s.params.rf it (proofsOf s u) env.active (env.assign u)).rejected = false)
    (h : tallyOne env s u = .ok s') {x : Inval} (hx : x ∈ invsOf s it.uri) (hp : x.sender ≠ it.publisher) (d : Denom) :
    s'.bank.bal x.sender d = s.bank.bal x.sender d
      + (if correctInvalidity x (tallyOutcome s.params.rf it (proofsOf s u) env.active (env.assign u)).safe
         then amt it.invColl d else 0) := by
  have ha : x.sender ≠ daAcc := hg.inv.chals x (List.mem_filter.1 hx).1
  rw [verified_correct_refunded hg.inv hf hch hver h ha hp d]
  generalize (tallyOutcome s.params.rf it (proofsOf s u) env.active (env.assign u)).safe = safe
  have h1 := good_recs_eq_one hg hx
  have h2 := recs_correct_wrong safe (invsOf s it.uri) x.sender
  have h3 := recs_nonneg (correctOf safe (invsOf s it.uri)) x.sender
  have h4 := recs_nonneg (wrongOf safe (invsOf s it.uri)) x.sender
  by_cases hc : correctInvalidity x safe = true
  · have : 1 ≤ recs (correctOf safe (invsOf s it.uri)) x.sender :=
      recs_pos_of_mem (List.mem_filter.2 ⟨hx, hc⟩)
    have e : recs (correctOf safe (invsOf s it.uri)) x.sender = 1 := by omega
    rw [e, if_pos hc, Int.one_mul]
  · have : 1 ≤ recs (wrongOf safe (invsOf s it.uri)) x.sender :=
      recs_pos_of_mem (List.mem_filter.2 ⟨hx, by simpa using hc⟩)
    have e : recs (correctOf safe (invsOf s it.uri)) x.sender = 0 := by omega
    rw [e, if_neg hc, Int.zero_mul]

/-- **Reachable, expiry**: in the block after a reachable state, every step of the to-verified phase pays by the rule -/
theorem reachable_block_expiry_exact {s : St} (h : Reachable s) (dt : Int) (pre : List String) (u : String)
    (post : List String) :
    let s0 : St := { s with now := s.now + dt, height := s.height + 1 }
    indexScan (preVerified s0) .cp (some (unix ((preVerified s0).now - (preVerified s0).params.cp))) = pre ++ u :: post →
    ∀ it, findItem (pre.foldl toVerifiedOne (preVerified s0)) u = some it → it.status = .cp →
      ExpiryPayout (pre.foldl toVerifiedOne (preVerified s0)) it
        (toVerifiedOne (pre.foldl toVerifiedOne (preVerified s0)) u) := by
  intro s0 hscan it hf hcp
  exact (endBlock_expiry_exact (block_start_good h dt) pre u post hscan).2.2.1 it hf hcp

/-- **Reachable, tally**: in the block after a reachable state, every step of the tally phase returns and pays by the rule -/
theorem reachable_block_tally_exact {env : Env} {s : St} (h : Reachable s) (dt : Int) (pre : List String) (u : String)
    (post : List String) :
    let s0 : St := { s with now := s.now + dt, height := s.height + 1 }
    indexScan (preTally s0) .ch (some (unix ((preTally s0).now - (preTally s0).params.pp))) = pre ++ u :: post →
    ∃ sp sp', tallyList env pre (preTally s0) = .ok sp ∧ tallyOne env sp u = .ok sp'
      ∧ ∀ it, findItem sp u = some it → it.status = .ch →
          ((tallyOutcome sp.params.rf it (proofsOf sp u) env.active (env.assign u)).rejected = true
              → RejectedPayout sp it sp'
                ∧ (∀ a d, a ≠ daAcc → sp'.bank.bal a d = sp.bank.bal a d + recs (invsOf sp it.uri) a
                    * (amt it.invColl d + amt it.pubColl d / ((invsOf sp it.uri).length : Int))))
          ∧ ((tallyOutcome sp.params.rf it (proofsOf sp u) env.active (env.assign u)).rejected = false
              → VerifiedPayout (tallyOutcome sp.params.rf it (proofsOf sp u) env.active (env.assign u)).safe sp it sp') := by
  intro s0 hscan
  obtain ⟨sp, sp', e1, g1, e2, _, _, hp, _⟩ := endBlock_tally_exact (env := env) (block_start_good h dt) pre u post hscan
  refine ⟨sp, sp', e1, e2, ?_⟩
  intro it hf hch
  refine ⟨fun hr => ⟨(hp it hf hch).1 hr, (good_rejected_share_is_floor g1 hf hch hr e2).1⟩, (hp it hf hch).2⟩

/-! ### non-vacuity: a small reachable history, every path, numbers by `decide` -/

open Sunrise.C08 in
/-- publish by `a0` (collateral 1000), one challenge by `a1` (collateral 100): reachable -/
theorem reach_s2 : Reachable C08.s2 :=
  Reachable.step (.invalid "a1" "u" [0])
    (Reachable.step (.publish "a0" "u" 3 1)
      (Reachable.init ⟨by decide, rfl, rfl, rfl, rfl, fun _ => rfl, fun _ => rfl, fun _ => rfl⟩)
      (by show "a0" ≠ daAcc; decide))
    (by show "a1" ≠ daAcc; decide)

def itU (st : Status) (ts : Int) : Item := ⟨"u", st, ts, "a0", 3, 1, [("urise", 1000)], [("urise", 100)]⟩

/-- (a) expiry below the threshold … -/
def sE : St := { C08.s2 with now := 1005 * SEC }
theorem good_sE : Good sE := good_time (good_reachable reach_s2) _ _
theorem find_sE : findItem sE "u" = some (itU .cp (1000 * SEC)) := by rfl
example : ExpiryPayout sE (itU .cp (1000 * SEC)) (toVerifiedOne sE "u") := expiry_pays_exactly good_sE.inv find_sE rfl
/-- … the rule's terms, and the balances computed independently -/
example : recs (invsOf sE "u") "a1" = 1 ∧ recs (invsOf sE "u") "a0" = 0
    ∧ amt (itU .cp 0).pubColl "urise" = 1000 ∧ amt (itU .cp 0).invColl "urise" = 100 := by decide
example : sE.bank.bal "a0" "urise" = 4000 ∧ sE.bank.bal "a1" "urise" = 4900 ∧ sE.bank.bal daAcc "urise" = 1100
    ∧ (toVerifiedOne sE "u").bank.bal "a0" "urise" = 4000 + 1000
    ∧ (toVerifiedOne sE "u").bank.bal "a1" "urise" = 4900 + 1 * 100
    ∧ (toVerifiedOne sE "u").bank.bal daAcc "urise" = 1100 - 1000 - 1 * 100
    ∧ (toVerifiedOne sE "u").invs.length = 0 := by decide

/-- (b) the challenge reaches the threshold, nobody proves anything: rejected, `n = 1` -/
def sR : St := { C08.s3 with now := 1008 * SEC }
theorem good_s3 : Good C08.s3 := good_toChallengingOne _ _ (good_time (good_reachable reach_s2) _ _)
theorem good_sR : Good sR := good_time good_s3 _ _
theorem find_sR : findItem sR "u" = some (itU .ch (1001 * SEC)) := by rfl
theorem rej_sR : (tallyOutcome sR.params.rf (itU .ch (1001 * SEC)) (proofsOf sR "u") C08.env0.active
    (C08.env0.assign "u")).rejected = true := by decide
example (s' : St) (h : tallyOne C08.env0 sR "u" = .ok s') :
    s'.bank.bal "a1" "urise" = 4900 + 1 * (100 + 1000 / 1) ∧ s'.bank.bal "a0" "urise" = 4000
    ∧ s'.dust "urise" = 0 + 1000 % 1 := by
  obtain ⟨r1, r2, _⟩ := good_rejected_share_is_floor good_sR find_sR rfl rej_sR h
  exact ⟨(r1 "a1" "urise" (by decide)).trans (by decide), (r1 "a0" "urise" (by decide)).trans (by decide),
    (r2 "urise").trans (by decide)⟩
example : (tallyOne C08.env0 sR "u").isOk = true := by decide

/-- (c) validator `a0` proves shards 0 and 1: verified; the challenger named the safe shard 0, so it forfeits to the
    publisher -/
def sP : St := (step C08.s3 (.proof "a0" "a0" "u" [(0, .good), (1, .good)] false true true)).1
def sV : St := { sP with now := 1008 * SEC }
theorem good_sV : Good sV := good_time (good_step (.proof "a0" "a0" "u" [(0, .good), (1, .good)] false true true) good_s3 trivial) _ _
theorem find_sV : findItem sV "u" = some (itU .ch (1001 * SEC)) := by rfl
theorem ver_sV : (tallyOutcome sV.params.rf (itU .ch (1001 * SEC)) (proofsOf sV "u") C08.env0.active
    (C08.env0.assign "u")).rejected = false := by decide
example : (tallyOutcome sV.params.rf (itU .ch (1001 * SEC)) (proofsOf sV "u") C08.env0.active
    (C08.env0.assign "u")).safe = [0, 1] ∧ (invsOf sV "u").map (·.indices) = [[0]] := by decide
example (s' : St) (h : tallyOne C08.env0 sV "u" = .ok s') :
    s'.bank.bal "a1" "urise" = 4900 ∧ s'.bank.bal "a0" "urise" = 4000 + 1000 + 1 * 100 := by
  have hw : ∀ x ∈ invsOf sV (itU .ch (1001 * SEC)).uri, x.sender = "a1" → correctInvalidity x
      (tallyOutcome sV.params.rf (itU .ch (1001 * SEC)) (proofsOf sV "u") C08.env0.active (C08.env0.assign "u")).safe
        = false := by decide
  have hno : ∀ x ∈ invsOf sV (itU .ch (1001 * SEC)).uri, x.sender ≠ (itU .ch (1001 * SEC)).publisher := by decide
  have h1 := verified_wrong_forfeits good_sV.inv find_sV rfl ver_sV h (a := "a1") (by decide) (by decide) hw "urise"
  have h0 := verified_publisher good_sV.inv find_sV rfl ver_sV h hno "urise"
  exact ⟨h1.trans (by decide), h0.trans (by decide)⟩
example : (tallyOne C08.env0 sV "u").isOk = true := by decide

/-! ### axioms -/
#print axioms funds_cover
#print axioms expiry_pays_exactly
#print axioms tally_rejected_pays_exactly
#print axioms tally_verified_pays_exactly
#print axioms sends_succeed_expiry
#print axioms sends_succeed_rejected
#print axioms sends_succeed_verified
#print axioms rewardShare_floor
#print axioms good_reachable
#print axioms endBlock_expiry_exact
#print axioms endBlock_tally_exact
#print axioms reachable_block_expiry_exact
#print axioms reachable_block_tally_exact
#print axioms good_rejected_share_is_floor
#print axioms good_expiry_each_challenger
#print axioms good_rejected_each_challenger
#print axioms good_verified_each_challenger

end Sunrise.C08Payout
