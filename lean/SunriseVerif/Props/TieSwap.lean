import SunriseVerif.Model.Route
import SunriseVerif.Gen.KernelsTieSwap
/-!
Tie between `Model/Route.lean` (`keeperSwapIn`, `keeperSwapOut`, `payFee`) and x/swap/keeper/keeper_swap_exact_amount_in.go /
_out.go: the interface-fee arithmetic is already the regenerated `Gen/KernelsSwap.lean` (called by the model); the limit
comparisons and the positive-fee guard in front of the fee transfer are regenerated here (`Gen/KernelsTieSwap.lean`).
-/
namespace Sunrise.TieSwap
open Sunrise Sunrise.Gen.KernelsTieSwap

/-- keeper_swap_exact_amount_in.go `if amountOutNet.LT(minAmountOut)` — `keeperSwapIn`'s `net < minOut` -/
theorem belowMinOut_eq_gen (net minOut : Int) : decide (net < minOut) = in_belowMinOut net minOut := rfl

/-- keeper_swap_exact_amount_out.go `if result.TokenIn.Amount.GT(maxAmountIn)` — `keeperSwapOut`'s `rr.tin.amount > maxIn` -/
theorem aboveMaxIn_eq_gen (amountIn maxIn : Int) : decide (amountIn > maxIn) = out_aboveMaxIn amountIn maxIn := rfl

/-- both files `if fee.IsPositive() { SendCoins }` — `payFee`'s `fee > 0` -/
theorem feePaid_eq_gen (fee : Int) : decide (fee > 0) = in_feePaid fee ∧ decide (fee > 0) = out_feePaid fee := ⟨rfl, rfl⟩

/-- `payFee` with a provider transfers nothing for a zero fee and exactly `fee` under the regenerated guard -/
theorem payFee_gen (b : Bank) (sender p : Addr) (d : Denom) (fee : Int) (h0 : 0 ≤ fee) :
    Route.payFee b sender (some p) d fee = if in_feePaid fee then b.send sender p d fee else .ok b := by
  unfold in_feePaid Int.isPosB
  have : ¬ fee < 0 := by omega
  by_cases h : fee > 0 <;> simp [Route.payFee, this, h]

example : in_belowMinOut 9 10 = true ∧ in_belowMinOut 10 10 = false ∧ out_aboveMaxIn 11 10 = true ∧ out_aboveMaxIn 10 10 = false := by decide

end Sunrise.TieSwap
