import SunriseVerif.Props.C06Refine
import SunriseVerif.Props.C03Pool

/-!
C06 (refinement, part 2) — what `Props/C06Refine.lean` left open, for the abstraction function `CLAccrualAbs.absOf`
(one pool, one denom) between the store-level model `Model/CL.lean` and the accrual abstraction `Model/CLAccrual.lean`.

1. `swapLoop_refines_accrual`  for EVERY fuel: a successful run of `swapLoop` (accumulator updates on) is, on `absLoop`, the
                               fold of `CLAccrual.step` over `accOps` (= `CLAccrual.evOps` event by event) of the events
                               appended to the ghost trace (fee / crossUp / crossDown / moveWithin); pools, positions,
                               bank, accumulators, accumulator positions untouched.
   `swap_core`, `swap_refines_in`, `swap_refines_out`
                               message level (`computeSwap` end: `setAccum(accVal + [(denomIn, growthPerLiq)])`, then
                               `updatePoolForSwap`): `absOf` after `swapExactIn/Out` = that fold applied to `absOf`
                               before, over `lastTrace`, except `recv`: `recv' = recv + ⌈F.recv − recv⌉·10^18`, i.e. the fee
                               account receives ⌈fee total⌉ whole coins, `F.recv ≤ recv' < F.recv + 10^18` (`SwapRefines`);
                               `SwapRefines.inv` / `Inv_recv_mono`: `CLAccrual.Inv` (in particular `backed`) survives it.
2. `open_refines`              `UpdatePosition` on the placeholder record of `createPosition` (liquidity 0, fresh id, no
                               accumulator position) = abstract `openPos lo hi delta` (incl. the `initFo` convention of
                               fresh ticks), the new record written over the placeholder at its store index;
   `open_perm`, `Inv_perm`, `sumBy_perm`, `totalShares_perm`: the order of the records is irrelevant for the invariant and
                               every sum; `Inv_dropDead`: so is the dead placeholder.
3. `withdraw_refines`          `UpdatePosition` taking out a position's WHOLE liquidity while the pool keeps another
                               position = abstract `change i delta` followed by dropping record `i` (zero shares);
   `Inv_dropDead`              dropping a zero-share record preserves `CLAccrual.Inv`, Σ shares, the tick sums; Σ owed falls
                               by the record's unclaimed amount (0 if none).

Hypotheses: `SortedWF s` (stored DecCoins are denom-sorted: sdk.DecCoins), ids `Nodup`, tick keys `Nodup`
(`C04StoreL.Inv.w`: proved invariants in `Props/C04Store.lean`), "a stored tick has gross ≠ 0" (`C04StoreL.NonEmpty`,
same place), sender ≠ pool / fee account (boundary), the two ticks of an existing position are stored.
NOT proved here: the guards of the derived abstract operations along the swap trace (`0 ≤ f`, the tick-gap guards);
the `createPosition` / `decreaseLiquidity` / `increaseLiquidity` message-level compositions (bank transfers, pool
initialisation of the first position, removal of emptied ticks); the pool-reset case of a full withdrawal (last position);
preservation of `SortedWF` / `totalShares = Σ shares` by every message (item 4; for swaps: positions and accumulator
positions are untouched — part of `swap_refines_*`; total shares += delta is part of `open_refines` / `withdraw_refines`;
`SortedWF` through `updatePosition`'s ticks: `updatePosition_s4`).
-/

set_option linter.unusedVariables false
set_option linter.unusedSimpArgs false
namespace Sunrise.C06Refine2
open Sunrise Sunrise.CL Sunrise.C04Refine Sunrise.DecCoinsAlg Sunrise.C06Refine
open Sunrise.C05Loop (bind_ok res_ok_inj swapLoop_succ_eq swapLoop_zero settleK ss2Of ss1Of bucket wrapTickK wrapTickK_ok
  amtInOf amtOutOf ss0Of finishSwap computeSwap_eq)
open Sunrise.C04Interval (err_bind ok_bind panic_bind getPool_setPool)

/-! ### 1a. the accrual operations of a trace -/

/-- the accrual operations a ghost trace stands for, for the denom under observation (`isIn` = "it is the swap's input
    denom"): `CLAccrual.evOps` event by event -/
def accOps (isIn : Bool) (evs : List SwapEv) : List CLAccrual.Op := evs.flatMap (CLAccrual.evOps isIn)

theorem accOps_append (b : Bool) (x y : List SwapEv) : accOps b (x ++ y) = accOps b x ++ accOps b y := by
  unfold accOps; exact List.flatMap_append ..

theorem accOps_nil (b : Bool) : accOps b [] = [] := rfl

theorem accOps_single (b : Bool) (e : SwapEv) : accOps b [e] = CLAccrual.evOps b e := by
  unfold accOps; simp

/-- `absLoop` reads only four fields of the swap state -/
theorem absLoop_congr (s : St) (pool : Nat) (denom : String) (k : Int) (accVal : DecCoins) (denomIn : Denom) {x y : SwapState}
    (h1 : x.growthPerLiq = y.growthPerLiq) (h2 : x.tick = y.tick) (h3 : x.liq = y.liq) (h4 : x.feeTotal = y.feeTotal) :
    absLoop s pool denom k accVal denomIn x = absLoop s pool denom k accVal denomIn y := by
  unfold absLoop; rw [h1, h2, h3, h4]

theorem ss2Of_fields (exactIn : Bool) (ss : SwapState) (r : Dec × Dec × Dec × Dec) :
    (ss2Of exactIn true ss r).growthPerLiq = (updateFeeGrowth ss r.2.2.2).growthPerLiq ∧
    (ss2Of exactIn true ss r).tick = (updateFeeGrowth ss r.2.2.2).tick ∧
    (ss2Of exactIn true ss r).liq = (updateFeeGrowth ss r.2.2.2).liq ∧
    (ss2Of exactIn true ss r).feeTotal = (updateFeeGrowth ss r.2.2.2).feeTotal ∧
    (ss2Of exactIn true ss r).trace = ss.trace ++
      [SwapEv.fee r.2.2.2.raw, SwapEv.step r.1.raw (amtInOf exactIn r).raw (amtOutOf exactIn r).raw] := by
  cases exactIn <;> simp [ss2Of, ss1Of]

/-- the bucket step of one iteration (fee charge booked, amounts and price advanced), read through `absLoop` -/
theorem bucket_step_abs (s : St) (pool : Nat) (denom : String) (k : Int) (accVal : DecCoins) (denomIn : Denom)
    (exactIn : Bool) (ss : SwapState) (r : Dec × Dec × Dec × Dec) :
    absLoop s pool denom k accVal denomIn (ss2Of exactIn true ss r) =
      (accOps (decide (denomIn = denom))
        [SwapEv.fee r.2.2.2.raw, SwapEv.step r.1.raw (amtInOf exactIn r).raw (amtOutOf exactIn r).raw]).foldl CLAccrual.step
        (absLoop s pool denom k accVal denomIn ss) := by
  obtain ⟨h1, h2, h3, h4, _⟩ := ss2Of_fields exactIn ss r
  rw [absLoop_congr s pool denom k accVal denomIn h1 h2 h3 h4]
  by_cases hd : denomIn = denom
  · rw [fee_step_refines s pool denom k accVal denomIn ss _ hd]
    simp [accOps, CLAccrual.evOps, hd]
  · rw [fee_step_other_denom s pool denom k accVal denomIn ss _ hd]
    simp [accOps, CLAccrual.evOps, hd]

/-- what one successful iteration (with accumulator updates) does, read through the accrual abstraction -/
def StepAcc (pool : Nat) (denom : String) (k : Int) (accVal : DecCoins) (denomIn : Denom)
    (s : CL.St) (ss : SwapState) (ti : TickInfo) (rest : List TickInfo) (s3 : CL.St) (ss3 : SwapState)
    (iter3 : List TickInfo) (evs : List SwapEv) : Prop :=
  ss3.trace = ss.trace ++ evs ∧
  (accOps (decide (denomIn = denom)) evs).foldl CLAccrual.step (absLoop s pool denom k accVal denomIn ss)
    = absLoop s3 pool denom k accVal denomIn ss3 ∧
  (s3.pools = s.pools ∧ s3.positions = s.positions ∧ s3.bank = s.bank ∧ s3.accums = s.accums ∧ s3.accPos = s.accPos) ∧
  ((iter3 = rest ∧ (s3 = s ∨ ∃ g, s3 = setTick s { ti with feeGrowth := g })) ∨ (iter3 = ti :: rest ∧ s3 = s))

theorem settleK_acc {β : Type} {bfq : Bool} {lim fee : Dec} {tp : TickMath.TickParams} {accVal : DecCoins}
    {denomIn : Denom} {s : CL.St} {start tickPrice next : Dec} {ss ss2 : SwapState} {ti : TickInfo} {rest : List TickInfo}
    {K : CL.St × SwapState × List TickInfo → Res β} {x : β} {pre : List SwapEv} (pool : Nat) (denom : String) (k : Int)
    (h : settleK bfq true lim fee tp accVal denomIn s start tickPrice next ss2 ti rest K = .ok x)
    (htr : ss2.trace = ss.trace ++ pre)
    (hpre : (accOps (decide (denomIn = denom)) pre).foldl CLAccrual.step (absLoop s pool denom k accVal denomIn ss)
      = absLoop s pool denom k accVal denomIn ss2)
    (hti : findTick s ti.pool ti.tick = some ti) (hpool : ti.pool = pool)
    (hsa : Sorted accVal) (hst : Sorted ti.feeGrowth) :
    ∃ s3 ss3 iter3 evs, K (s3, ss3, iter3) = .ok x ∧ StepAcc pool denom k accVal denomIn s ss ti rest s3 ss3 iter3 evs := by
  unfold settleK at h
  by_cases heq : (tickPrice == next) = true
  · rw [if_pos heq] at h
    obtain ⟨p, hp, hK⟩ := bind_ok h
    have hp' : crossTick s ss2 bfq lim fee ti accVal denomIn true = .ok (p.1, p.2) := hp
    obtain ⟨hsh, hss⟩ := crossTick_shape hp'
    have hcr := cross_refines pool denom k hp' hti hpool hsa hst
    have htr3 : p.2.trace = ss2.trace ++ [SwapEv.cross (!bfq) ti.tick] := by rw [hss]
    have hfr : p.1.pools = s.pools ∧ p.1.positions = s.positions ∧ p.1.bank = s.bank ∧ p.1.accums = s.accums ∧
        p.1.accPos = s.accPos := by
      rcases hsh with e | ⟨g, e⟩ <;> rw [e] <;> exact ⟨rfl, rfl, rfl, rfl, rfl⟩
    refine ⟨p.1, p.2, rest, pre ++ [SwapEv.cross (!bfq) ti.tick], hK, ?_, ?_, hfr, Or.inl ⟨rfl, hsh⟩⟩
    · rw [htr3, htr, List.append_assoc]
    · rw [accOps_append, List.foldl_append, hpre, hcr, accOps_single]
      cases bfq <;> rfl
  · rw [if_neg heq] at h
    by_cases hord : (if bfq = true then tickPrice.raw > next.raw else tickPrice.raw < next.raw)
    · rw [if_pos hord] at h; cases h
    · rw [if_neg hord] at h
      by_cases hmv : (!(start == next)) = true
      · rw [if_pos hmv] at h
        obtain ⟨t, _, hK⟩ := bind_ok h
        refine ⟨_, _, _, pre ++ [SwapEv.move t], hK, ?_, ?_, ⟨rfl, rfl, rfl, rfl, rfl⟩, Or.inr ⟨rfl, rfl⟩⟩
        · show ss2.trace ++ [SwapEv.move t] = ss.trace ++ (pre ++ [SwapEv.move t])
          rw [htr, List.append_assoc]
        · rw [accOps_append, List.foldl_append, hpre, accOps_single]
          rfl
      · rw [if_neg hmv] at h
        exact ⟨_, _, _, pre, h, htr, hpre, ⟨rfl, rfl, rfl, rfl, rfl⟩, Or.inr ⟨rfl, rfl⟩⟩

/-- one unrolling of the loop (with accumulator updates), on the accrual abstraction -/
theorem loop_step_acc {exactIn bfq : Bool} {lim fee : Dec} {tp : TickMath.TickParams} {accVal : DecCoins} {denomIn : Denom}
    {fuel noProg : Nat} {s : CL.St} {ss : SwapState} {iter : List TickInfo} {s' : CL.St} {ss' : SwapState}
    (pool : Nat) (denom : String) (k : Int)
    (hstore : ∀ ti ∈ iter, findTick s ti.pool ti.tick = some ti) (hpool : ∀ ti ∈ iter, ti.pool = pool)
    (hsa : Sorted accVal) (hsorted : ∀ ti ∈ iter, Sorted ti.feeGrowth)
    (h : swapLoop exactIn bfq true lim fee tp accVal denomIn (fuel+1) noProg s ss iter = .ok (s', ss')) :
    (s' = s ∧ ss' = ss) ∨
    (∃ ti rest s3 ss3 iter3 noProg' evs, iter = ti :: rest ∧
      StepAcc pool denom k accVal denomIn s ss ti rest s3 ss3 iter3 evs ∧
      swapLoop exactIn bfq true lim fee tp accVal denomIn fuel noProg' s3 ss3 iter3 = .ok (s', ss')) := by
  rw [swapLoop_succ_eq] at h
  split at h
  · left
    have e := res_ok_inj h
    exact ⟨(congrArg Prod.fst e).symm, (congrArg Prod.snd e).symm⟩
  · right
    cases iter with
    | nil => cases h
    | cons ti rest =>
      simp only [] at h
      obtain ⟨tickPrice, _, h⟩ := wrapTickK_ok h
      obtain ⟨r, _, h⟩ := bind_ok h
      split at h
      · cases h
      · have hf := ss2Of_fields exactIn ss r
        obtain ⟨s3, ss3, iter3, evs, hK, hstep⟩ := settleK_acc (ss := ss) pool denom k h hf.2.2.2.2
          (bucket_step_abs s pool denom k accVal denomIn exactIn ss r).symm
          (hstore ti List.mem_cons_self) (hpool ti List.mem_cons_self) hsa (hsorted ti List.mem_cons_self)
        simp only [] at hK
        by_cases hz : (if exactIn = true then amtInOf exactIn r else amtOutOf exactIn r).isZero = true
        · rw [if_pos hz] at hK
          by_cases hn : noProg ≥ 100
          · rw [if_pos hn] at hK; cases hK
          · rw [if_neg hn] at hK
            exact ⟨ti, rest, s3, ss3, iter3, _, evs, rfl, hstep, hK⟩
        · rw [if_neg hz] at hK
          exact ⟨ti, rest, s3, ss3, iter3, _, evs, rfl, hstep, hK⟩

/-- **1. `swapLoop_refines_accrual`.**  For every fuel, every successful run of the swap loop with accumulator updates from
    `(s, ss)` over an iterator whose entries are the stored entries of their keys (all of pool `pool`, pairwise distinct
    ticks, denom-sorted growth records) is, on the accrual abstraction seen from inside the loop (`absLoop`), the fold of
    `CLAccrual.step` over the operations `CLAccrual.evOps` derives from the events appended to the ghost trace
    (`fee f` for the input denom, `crossUp t / crossDown t`, `moveWithin t`; `.step` events stand for nothing).
    Pools, positions, bank, accumulators and accumulator positions of the store are unchanged. -/
theorem swapLoop_refines_accrual {exactIn bfq : Bool} {lim fee : Dec} {tp : TickMath.TickParams} {accVal : DecCoins}
    {denomIn : Denom} (pool : Nat) (denom : String) (k : Int) (hsa : Sorted accVal) :
    ∀ (fuel noProg : Nat) (s : CL.St) (ss : SwapState) (iter : List TickInfo) (s' : CL.St) (ss' : SwapState),
      (∀ ti ∈ iter, findTick s ti.pool ti.tick = some ti) → (∀ ti ∈ iter, ti.pool = pool) →
      (iter.map (·.tick)).Nodup → (∀ ti ∈ iter, Sorted ti.feeGrowth) →
      swapLoop exactIn bfq true lim fee tp accVal denomIn fuel noProg s ss iter = .ok (s', ss') →
      (∃ evs, ss'.trace = ss.trace ++ evs ∧
        (accOps (decide (denomIn = denom)) evs).foldl CLAccrual.step (absLoop s pool denom k accVal denomIn ss)
          = absLoop s' pool denom k accVal denomIn ss') ∧
      (s'.pools = s.pools ∧ s'.positions = s.positions ∧ s'.bank = s.bank ∧ s'.accums = s.accums ∧ s'.accPos = s.accPos) := by
  intro fuel
  induction fuel with
  | zero => intro noProg s ss iter s' ss' _ _ _ _ h; rw [swapLoop_zero] at h; cases h
  | succ fuel ih =>
    intro noProg s ss iter s' ss' hst hpool hnd hsorted h
    rcases loop_step_acc pool denom k hst hpool hsa hsorted h with
      ⟨e1, e2⟩ | ⟨ti, rest, s3, ss3, iter3, noProg', evs1, hit, ⟨htr, hfold1, hfr, hcase⟩, hrec⟩
    · subst e1; subst e2
      exact ⟨⟨[], (List.append_nil _).symm, rfl⟩, rfl, rfl, rfl, rfl, rfl⟩
    · subst hit
      have hnd' : ti.tick ∉ rest.map (·.tick) ∧ (rest.map (·.tick)).Nodup := by
        simpa [List.nodup_cons] using hnd
      have key3 : (∀ tj ∈ iter3, findTick s3 tj.pool tj.tick = some tj) ∧ (∀ tj ∈ iter3, tj.pool = pool) ∧
          (iter3.map (·.tick)).Nodup ∧ (∀ tj ∈ iter3, Sorted tj.feeGrowth) := by
        rcases hcase with ⟨hi, hsh⟩ | ⟨hi, hs3⟩
        · subst hi
          refine ⟨?_, fun tj hj => hpool tj (List.mem_cons_of_mem _ hj), hnd'.2,
            fun tj hj => hsorted tj (List.mem_cons_of_mem _ hj)⟩
          intro tj hj
          have hj0 := hst tj (List.mem_cons_of_mem _ hj)
          rcases hsh with hs | ⟨g, hs⟩
          · rw [hs]; exact hj0
          · rw [hs, findTick_setTick]
            cases hk : key tj.pool tj.tick { ti with feeGrowth := g } with
            | false => simpa using hj0
            | true =>
              exfalso
              have hk' := key_iff.mp hk
              simp only [] at hk'
              apply hnd'.1
              rw [hk'.2]
              exact List.mem_map.mpr ⟨tj, hj, rfl⟩
        · subst hi; subst hs3
          exact ⟨hst, hpool, hnd, hsorted⟩
      obtain ⟨⟨evs2, htr2, hfold2⟩, hfr2⟩ := ih noProg' s3 ss3 iter3 s' ss' key3.1 key3.2.1 key3.2.2.1 key3.2.2.2 hrec
      refine ⟨⟨evs1 ++ evs2, ?_, ?_⟩, ?_⟩
      · rw [htr2, htr, List.append_assoc]
      · rw [accOps_append, List.foldl_append, hfold1]; exact hfold2
      · exact ⟨hfr2.1.trans hfr.1, hfr2.2.1.trans hfr.2.1, hfr2.2.2.1.trans hfr.2.2.1, hfr2.2.2.2.1.trans hfr.2.2.2.1,
          hfr2.2.2.2.2.trans hfr.2.2.2.2⟩


/-! ### 1b. the message level: `computeSwap` end, `updatePoolForSwap`, `swapExactIn / swapExactOut` -/

open Sunrise.Dec in
/-- `⌈x⌉` as an integer number of coins: `x ≤ ⌈x⌉·10^18 < x + 10^18` (all signs) -/
theorem ceil_bounds (x : Dec) : x.raw ≤ truncateInt (ceil x) * PREC ∧ truncateInt (ceil x) * PREC < x.raw + PREC := by
  have hP : PREC ≠ 0 := by decide
  have hdm := Int.mul_tdiv_add_tmod x.raw PREC
  have hlt : Int.tmod x.raw PREC < PREC := Int.tmod_lt_of_pos _ (by decide)
  have hgt : -PREC < Int.tmod x.raw PREC := by
    by_cases hx : x.raw < 0
    · have e : x.raw = -(-x.raw) := by omega
      have hy : 0 ≤ -x.raw := by omega
      rw [e, Int.neg_tmod, Int.tmod_eq_emod_of_nonneg hy]
      simp only [PREC_eq]
      omega
    · have hy : 0 ≤ x.raw := by omega
      rw [Int.tmod_eq_emod_of_nonneg hy]
      simp only [PREC_eq]
      omega
  unfold truncateInt chopTrunc tquo ceil
  simp only []
  split
  · simp only [Int.mul_tdiv_cancel _ hP]
    generalize Int.tdiv x.raw PREC = q at *
    generalize Int.tmod x.raw PREC = r at *
    simp only [PREC_eq] at *
    omega
  · simp only [Int.mul_tdiv_cancel _ hP]
    generalize Int.tdiv x.raw PREC = q at *
    generalize Int.tmod x.raw PREC = r at *
    simp only [PREC_eq] at *
    omega

/-- inversion of a successful `computeSwap` with accumulator updates: the loop run and the final write -/
theorem computeSwap_upd_inv {exactIn : Bool} {s : St} {pool : Nat} {denomIn denomOut : Denom} {amount : Int} {fee mLimit : Dec}
    {s2 : St} {o : SwapOut}
    (h : computeSwap exactIn s pool denomIn denomOut amount fee mLimit true = .ok (s2, o)) :
    ∃ p acc lim s1 ss, getPool s pool = some p ∧ getAccum s pool = some acc
      ∧ swapLoop exactIn (decide (denomIn = p.base)) true lim fee p.tp acc.value denomIn LOOP_FUEL 0 s (ss0Of p amount)
          (tickIter s pool p.tick (decide (denomIn = p.base))) = .ok (s1, ss)
      ∧ s2 = { setAccum s1 { acc with value := DecCoins.add acc.value [(denomIn, ss.growthPerLiq)] } with lastTrace := ss.trace }
      ∧ o.fees = ss.feeTotal ∧ o.tick = ss.tick ∧ o.liq = ss.liq := by
  rw [computeSwap_eq] at h
  cases hp : getPool s pool with
  | none => rw [hp] at h; cases h
  | some p =>
    rw [hp] at h
    simp only [] at h
    by_cases c1 : (!poolLive p) = true
    · rw [if_pos c1] at h; cases h
    rw [if_neg c1] at h
    by_cases c2 : denomOut ≠ p.base ∧ denomOut ≠ p.quote
    · rw [if_pos c2] at h; cases h
    rw [if_neg c2] at h
    by_cases c3 : denomIn ≠ p.base ∧ denomIn ≠ p.quote
    · rw [if_pos c3] at h; cases h
    rw [if_neg c3] at h
    by_cases c4 : denomOut = denomIn
    · rw [if_pos c4] at h; cases h
    rw [if_neg c4] at h
    cases ha : getAccum s pool with
    | none => rw [ha] at h; cases h
    | some acc =>
      rw [ha] at h
      simp only [] at h
      obtain ⟨lim, hlim, h⟩ := bind_ok h
      by_cases c5 : (if denomIn = p.base then Gen.KernelsCL.bfq_ValidateSqrtPrice_err lim fee lim p.sqrtP
              else Gen.KernelsCL.qfb_ValidateSqrtPrice_err lim fee lim p.sqrtP) = true
      · rw [if_pos c5] at h; cases h
      rw [if_neg c5] at h
      obtain ⟨x, hx, h⟩ := bind_ok h
      by_cases c6 : x.2.remaining.isNegative = true
      · rw [if_pos c6] at h; cases h
      rw [if_neg c6] at h
      have h' := res_ok_inj h
      have e1 : s2 = (finishSwap exactIn true acc denomIn amount x.1 x.2).1 := by rw [h']
      have e2 : o = (finishSwap exactIn true acc denomIn amount x.1 x.2).2 := by rw [h']
      refine ⟨p, acc, lim, x.1, x.2, rfl, rfl, hx, ?_, ?_, ?_, ?_⟩
      · rw [e1]; cases exactIn <;> rfl
      · rw [e2]; cases exactIn <;> rfl
      · rw [e2]; cases exactIn <;> rfl
      · rw [e2]; cases exactIn <;> rfl

/-- `tickIter` only lists stored ticks -/
theorem tickIter_mem {s : St} {pool : Nat} {cur : Int} {bfq : Bool} {ti : TickInfo} (h : ti ∈ tickIter s pool cur bfq) :
    ti ∈ s.ticks := by
  unfold tickIter at h
  cases bfq
  · simp only [Bool.false_eq_true, if_false] at h
    exact (List.mem_filter.mp (List.mem_filter.mp h).1).1
  · simp only [if_true] at h
    exact (List.mem_filter.mp (List.mem_filter.mp (List.mem_reverse.mp h)).1).1

/-- raising `recv` (the fee account received more than the fee steps booked) preserves the accrual invariant, in
    particular `backed` (fees owed + paid are covered by what was received) -/
theorem Inv_recv_mono {a : ASt} (h : CLAccrual.Inv a) {r : Int} (hr : a.recv ≤ r) : CLAccrual.Inv { a with recv := r } := by
  obtain ⟨h1, h2, h3, h4, h5, h6⟩ := h
  refine ⟨h1, h2, h3, h4, ?_, h6⟩
  show 2 * (CLAccrual.sumBy (CLAccrual.owed a) a.pos + a.paid * PREC) ≤ 2 * (r * PREC) + a.k * PREC
  have : a.recv * PREC ≤ r * PREC := Int.mul_le_mul_of_nonneg_right hr (by decide)
  omega

/-- **the common core of the two swap handlers**: `computeSwap` (accumulator updates on) followed by `updatePoolForSwap`.
    With `F` = the fold of `CLAccrual.step` over the operations of the recorded ghost trace (`lastTrace`) applied to the
    abstraction of the state before, the abstraction of the state after is `F` except for `recv`: the fee account received
    `⌈fee total⌉` whole coins where the fee steps booked the exact fee total, i.e.
    `recv' = recv + ⌈F.recv − recv⌉` (in 10^18 units), hence `F.recv ≤ recv' < F.recv + 10^18`. -/
theorem swap_core {exactIn : Bool} {s s1 s' : St} {sender : Addr} {pool : Nat} {din dout : Denom} {amount ain aout : Int}
    {fee mLimit : Dec} {o : SwapOut} {p : Pool} {denom : String} {k : Int} {a : ASt}
    (hc : computeSwap exactIn s pool din dout amount fee mLimit true = .ok (s1, o))
    (hu : updatePoolForSwap s1 p sender din ain dout aout o = .ok s')
    (hp : getPool s pool = some p)
    (habs : CLAccrual.absOf s pool denom k = some a)
    (hsw : SortedWF s) (hkeys : (s.ticks.map fun x => (x.pool, x.tick)).Nodup)
    (h1 : sender ≠ poolAddr pool) (h2 : sender ≠ feesAddr pool) :
    ∃ a', CLAccrual.absOf s' pool denom k = some a' ∧
      a' = { (accOps (decide (din = denom)) s'.lastTrace).foldl CLAccrual.step a with recv := a'.recv } ∧
      a'.recv = a.recv + Dec.truncateInt (Dec.ceil
        ⟨((accOps (decide (din = denom)) s'.lastTrace).foldl CLAccrual.step a).recv - a.recv⟩) * PREC ∧
      ((accOps (decide (din = denom)) s'.lastTrace).foldl CLAccrual.step a).recv ≤ a'.recv ∧
      a'.recv < ((accOps (decide (din = denom)) s'.lastTrace).foldl CLAccrual.step a).recv + PREC ∧
      s'.positions = s.positions ∧ s'.accPos = s.accPos := by
  obtain ⟨p', acc, lim, s0, ss, hp', hacc, hloop, hs1, hfees, htick, hliq⟩ := computeSwap_upd_inv hc
  have ep : p' = p := by rw [hp] at hp'; exact (Option.some.inj hp').symm
  subst ep
  have hpid : p'.id = pool := C06Refine.getPool_id hp
  obtain ⟨a0, acc0, hp0, hacc0, ea⟩ := absOf_some habs
  have ep0 : a0 = p' := by rw [hp] at hp0; exact (Option.some.inj hp0).symm
  have eacc0 : acc0 = acc := by rw [hacc] at hacc0; exact (Option.some.inj hacc0).symm
  subst ep0; subst eacc0
  have hsa : Sorted acc0.value := hsw.of_getAccum hacc
  obtain ⟨hi1, hi2, hi3⟩ := C04RefineLoop.tickIter_hyps s pool a0.tick (decide (din = a0.base)) hkeys
  have hi4 : ∀ ti ∈ tickIter s pool a0.tick (decide (din = a0.base)), Sorted ti.feeGrowth :=
    fun ti hti => hsw.ticks ti (tickIter_mem hti)
  obtain ⟨⟨evs, htr, hfold⟩, hfr⟩ := swapLoop_refines_accrual pool denom k hsa LOOP_FUEL 0 s (ss0Of a0 amount) _ s0 ss
    hi1 hi2 hi3 hi4 hloop
  have htr' : ss.trace = evs := by rw [htr]; rfl
  -- the abstraction before = `absLoop` at the initial swap state
  have hinit : absLoop s pool denom k acc0.value din (ss0Of a0 amount) = a := by
    rw [ea]
    unfold absLoop absWith ss0Of
    apply ast_ext <;> simp only [Dec.zero] <;> first | rfl | (split <;> omega)
  rw [hinit] at hfold
  -- the state after
  have hpid' : sender ≠ poolAddr a0.id := by rw [hpid]; exact h1
  have hpid'' : sender ≠ feesAddr a0.id := by rw [hpid]; exact h2
  obtain ⟨fi, hfi, _, _, _, _, mv, hs', _, _⟩ := C03Pool.updatePoolForSwap_ok hu hpid' hpid''
  have hbal := mv.feeAcc denom
  rw [hpid] at hbal
  have hlast : s'.lastTrace = evs := by rw [hs', hs1, ← htr']; rfl
  have hs1pools : s1.pools = s.pools := by rw [hs1]; exact hfr.1
  have hpool' : getPool s' pool = some { a0 with liq := o.liq, tick := o.tick, sqrtP := o.sqrtP } := by
    rw [hs']; exact getPool_setPool (s := s) hp hs1pools rfl
  have hacc1 : getAccum s0 pool = some acc0 := by unfold getAccum; rw [hfr.2.2.2.1]; exact hacc
  have hacc' : getAccum s' pool = some { acc0 with value := DecCoins.add acc0.value [(din, ss.growthPerLiq)] } := by
    have := getAccum_setAccum_self (a' := { acc0 with value := DecCoins.add acc0.value [(din, ss.growthPerLiq)] }) hacc1
      (show acc0.pool = pool from getAccum_pool hacc)
    rw [hs', hs1]; exact this
  have hticks : s'.ticks = s0.ticks := by rw [hs', hs1]; rfl
  have hposs : s'.positions = s0.positions := by rw [hs', hs1]; rfl
  have haccp : s'.accPos = s0.accPos := by rw [hs', hs1]; rfl
  have hbank1 : s1.bank = s.bank := by rw [hs1]; exact hfr.2.2.1
  rw [hlast]
  -- recv of the fold
  have hFrecv : ((accOps (decide (din = denom)) evs).foldl CLAccrual.step a).recv
      = s.bank.bal (feesAddr pool) denom * PREC + (if din = denom then ss.feeTotal.raw else 0) := by
    rw [hfold]; unfold absLoop; simp only []; rw [hfr.2.2.1]
  have harecv : a.recv = s.bank.bal (feesAddr pool) denom * PREC := by rw [ea]; rfl
  have hcb := ceil_bounds o.fees
  rw [← hfi, hfees] at hcb
  have hrecv' : s'.bank.bal (feesAddr pool) denom * PREC
      = a.recv + (if din = denom then fi * PREC else 0) := by
    rw [hbal, hbank1, harecv, Int.add_mul]
    unfold Route.δ
    by_cases hd : din = denom
    · rw [if_pos hd.symm, if_pos hd]
    · rw [if_neg (fun e => hd e.symm), if_neg hd]; omega
  refine ⟨_, absOf_eq hpool' hacc', ?_, ?_, ?_, ?_, hposs.trans hfr.2.1, haccp.trans hfr.2.2.2.2⟩
  · rw [hfold]
    apply ast_ext
    · show raw (DecCoins.add acc0.value [(din, ss.growthPerLiq)]) denom = _
      rw [raw_add hsa (sorted_single _), raw_single]; rfl
    · exact foOf_congr hticks pool denom
    · exact htick
    · exact grossOf_congr' hticks pool
    · exact netOf_congr' hticks pool
    · show o.liq.raw = ss.liq.raw
      rw [hliq]
    · show (poolPositions s' pool).map (posOf s' denom) = (poolPositions s0 pool).map (posOf s0 denom)
      rw [poolPositions_congr hposs, posOf_congr haccp]
    · rfl
    · rfl
    · rfl
  · show s'.bank.bal (feesAddr pool) denom * PREC = _
    rw [hrecv', hFrecv, harecv]
    by_cases hd : din = denom
    · rw [if_pos hd, if_pos hd]
      have : s.bank.bal (feesAddr pool) denom * PREC + ss.feeTotal.raw - s.bank.bal (feesAddr pool) denom * PREC
          = ss.feeTotal.raw := by omega
      rw [this, hfi, hfees]
    · rw [if_neg hd, if_neg hd]
      have : s.bank.bal (feesAddr pool) denom * PREC + 0 - s.bank.bal (feesAddr pool) denom * PREC = 0 := by omega
      rw [this]
      have : Dec.truncateInt (Dec.ceil ⟨0⟩) = 0 := by decide
      rw [this]; omega
  · show _ ≤ s'.bank.bal (feesAddr pool) denom * PREC
    rw [hrecv', hFrecv, harecv]
    by_cases hd : din = denom
    · rw [if_pos hd, if_pos hd]; omega
    · rw [if_neg hd, if_neg hd]
  · show s'.bank.bal (feesAddr pool) denom * PREC < _
    rw [hrecv', hFrecv, harecv]
    have hPpos : (0:Int) < PREC := by decide
    by_cases hd : din = denom
    · rw [if_pos hd, if_pos hd]; omega
    · rw [if_neg hd, if_neg hd]; omega

/-- the result of `swap_core`, as a predicate: `a'` (abstraction after) is the fold `F` of the trace's operations over
    `a` (abstraction before) except that `recv' = recv + ⌈F.recv − recv⌉ ∈ [F.recv, F.recv + 10^18)` -/
def SwapRefines (a a' : ASt) (ops : List CLAccrual.Op) : Prop :=
  a' = { ops.foldl CLAccrual.step a with recv := a'.recv } ∧
  a'.recv = a.recv + Dec.truncateInt (Dec.ceil ⟨(ops.foldl CLAccrual.step a).recv - a.recv⟩) * PREC ∧
  (ops.foldl CLAccrual.step a).recv ≤ a'.recv ∧ a'.recv < (ops.foldl CLAccrual.step a).recv + PREC

/-- **1 (message level). `swap_refines` for `SwapExactAmountIn`.** -/
theorem swap_refines_in {s s' : St} {sender : Addr} {pool : Nat} {din dout : Denom} {amount out : Int} {fe : Bool}
    {denom : String} {k : Int} {a : ASt}
    (h : swapExactIn s sender pool din amount dout fe = .ok (s', out))
    (habs : CLAccrual.absOf s pool denom k = some a)
    (hsw : SortedWF s) (hkeys : (s.ticks.map fun x => (x.pool, x.tick)).Nodup)
    (h1 : sender ≠ poolAddr pool) (h2 : sender ≠ feesAddr pool) :
    ∃ a', CLAccrual.absOf s' pool denom k = some a' ∧
      SwapRefines a a' (accOps (decide (din = denom)) s'.lastTrace) ∧
      s'.positions = s.positions ∧ s'.accPos = s.accPos := by
  obtain ⟨p, s1, o, hp, hid, hx, _, _, _, hu⟩ := C03Pool.swapExactIn_inv h
  obtain ⟨a', e1, e2, e3, e4, e5, e6, e7⟩ := swap_core hx hu hp habs hsw hkeys h1 h2
  exact ⟨a', e1, ⟨e2, e3, e4, e5⟩, e6, e7⟩

/-- **1 (message level). `swap_refines` for `SwapExactAmountOut`.** -/
theorem swap_refines_out {s s' : St} {sender : Addr} {pool : Nat} {din dout : Denom} {amount ain : Int} {fe : Bool}
    {denom : String} {k : Int} {a : ASt}
    (h : swapExactOut s sender pool dout amount din fe = .ok (s', ain))
    (habs : CLAccrual.absOf s pool denom k = some a)
    (hsw : SortedWF s) (hkeys : (s.ticks.map fun x => (x.pool, x.tick)).Nodup)
    (h1 : sender ≠ poolAddr pool) (h2 : sender ≠ feesAddr pool) :
    ∃ a', CLAccrual.absOf s' pool denom k = some a' ∧
      SwapRefines a a' (accOps (decide (din = denom)) s'.lastTrace) ∧
      s'.positions = s.positions ∧ s'.accPos = s.accPos := by
  obtain ⟨p, s1, o, hp, hid, hx, _, _, _, hu⟩ := C03Pool.swapExactOut_inv h
  obtain ⟨a', e1, e2, e3, e4, e5, e6, e7⟩ := swap_core hx hu hp habs hsw hkeys h1 h2
  exact ⟨a', e1, ⟨e2, e3, e4, e5⟩, e6, e7⟩

/-- the `recv` difference is harmless: if the fold of the abstract steps satisfies the accrual invariant (as it does
    whenever the state before does and the guards hold: `Props/C06Accrual.lean`), so does the abstraction of the state after
    the swap — `backed` (fees owed + paid ≤ received) is preserved because the account received at least what was booked -/
theorem SwapRefines.inv {a a' : ASt} {ops : List CLAccrual.Op} (h : SwapRefines a a' ops)
    (hinv : CLAccrual.Inv (ops.foldl CLAccrual.step a)) : CLAccrual.Inv a' := by
  rw [h.1]; exact Inv_recv_mono hinv h.2.2.1

/-! non-vacuity: the swap of `C03Pool.exA_in` (1000 quote in, 996 base out, fee 3 coins = ⌈2.99…⌉) -/
theorem stA_sorted : SortedWF C03Pool.stA := by
  refine ⟨?_, ?_, ?_⟩
  · intro a ha
    have : a.value = [] := by
      simp [C03Pool.stA, C05Loop.stD] at ha; rw [ha]
    rw [this]; exact List.Pairwise.nil
  · intro t ht
    have : t.feeGrowth = [] := by
      simp [C03Pool.stA, C05Loop.stD] at ht; rcases ht with e | e <;> rw [e]
    rw [this]; exact List.Pairwise.nil
  · intro ap hap
    simp [C03Pool.stA, C05Loop.stD] at hap

example : ∃ s' a a', swapExactIn C03Pool.stA "s" 0 "quote" 1000 "base" true = .ok (s', 996) ∧
    CLAccrual.absOf C03Pool.stA 0 "quote" 0 = some a ∧ CLAccrual.absOf s' 0 "quote" 0 = some a' ∧
    SwapRefines a a' (accOps (decide ("quote" = "quote")) s'.lastTrace) ∧ a'.recv = a.recv + 3 * PREC := by
  obtain ⟨s', h, hb⟩ := C03Pool.obs_some C03Pool.exA_in
  have hp : getPool C03Pool.stA 0 = some C05Loop.poolD := rfl
  have hacc : getAccum C03Pool.stA 0 = some ⟨0, [], ⟨1000000 * PREC⟩⟩ := rfl
  have habs := absOf_eq (denom := "quote") (k := 0) hp hacc
  obtain ⟨a', e1, e2, _, _⟩ := swap_refines_in h habs stA_sorted (by decide) (by decide) (by decide)
  refine ⟨s', _, a', h, habs, e1, e2, ?_⟩
  obtain ⟨x, y, _, _, ex⟩ := absOf_some e1
  rw [ex]
  show s'.bank.bal (feesAddr 0) "quote" * PREC = C03Pool.stA.bank.bal (feesAddr 0) "quote" * PREC + 3 * PREC
  simp only [C03Pool.balsOf, List.cons.injEq] at hb
  rw [hb.2.2.2.2.2.1]
  decide

/-! ### 2 / 3 (abstract halves). The invariant and every sum it uses are insensitive to the ORDER of the position records,
and to DROPPING a record without shares -/

theorem sumBy_perm (f : APos → Int) {l l' : List APos} (h : l.Perm l') : CLAccrual.sumBy f l = CLAccrual.sumBy f l' := by
  induction h with
  | nil => rfl
  | cons x _ ih => simp only [CLAccrual.sumBy, ih]
  | swap x y l => simp only [CLAccrual.sumBy]; omega
  | trans _ _ ih1 ih2 => exact ih1.trans ih2

/-- **order-insensitivity**: permuting the position records (the store appends a new position where the abstraction
    prepends it) preserves `CLAccrual.Inv`; Σ shares, Σ owed and every tick sum are the same (`sumBy_perm`) -/
theorem Inv_perm {a : ASt} {l : List APos} (h : a.pos.Perm l) (hinv : CLAccrual.Inv a) : CLAccrual.Inv { a with pos := l } := by
  obtain ⟨h1, h2, h3, h4, h5, h6⟩ := hinv
  refine ⟨?_, ?_, ?_, ?_, ?_, h6⟩
  · intro p hp; exact h1 p (h.mem_iff.mpr hp)
  · intro t; show a.gross t = _; rw [h2 t]; exact sumBy_perm _ h
  · intro t; show a.net t = _; rw [h3 t]; exact sumBy_perm _ h
  · show a.active = _; rw [h4]; exact sumBy_perm _ h
  · show 2 * (CLAccrual.sumBy (CLAccrual.owed a) l + a.paid * PREC) ≤ _
    rw [← sumBy_perm _ h]; exact h5

theorem totalShares_perm {a : ASt} {l : List APos} (h : a.pos.Perm l) :
    CLAccrual.totalShares { a with pos := l } = CLAccrual.totalShares a := (sumBy_perm _ h).symm

theorem sumBy_eraseIdx (f : APos → Int) : ∀ (l : List APos) (i : Nat) (p : APos), l[i]? = some p →
    CLAccrual.sumBy f l = f p + CLAccrual.sumBy f (l.eraseIdx i) := by
  intro l
  induction l with
  | nil => intro i p h; simp at h
  | cons x xs ih =>
    intro i p h
    cases i with
    | zero =>
      simp only [List.getElem?_cons_zero, Option.some.injEq] at h
      subst h; rfl
    | succ j =>
      simp only [List.getElem?_cons_succ] at h
      simp only [List.eraseIdx_cons_succ, CLAccrual.sumBy]
      rw [ih j p h]; omega

/-- **dropping a dead record** (zero shares — what a full withdrawal leaves in the abstraction, while the store deletes the
    position): `CLAccrual.Inv` is preserved; Σ shares and all tick sums are unchanged; Σ owed drops by exactly the record's
    unclaimed amount `u · 10^18` (≥ 0 by `Inv.wf`), i.e. is unchanged when `u = 0` -/
theorem Inv_dropDead {a : ASt} {i : Nat} {p : APos} (hi : a.pos[i]? = some p) (hs : p.s = 0) (hinv : CLAccrual.Inv a) :
    CLAccrual.Inv { a with pos := a.pos.eraseIdx i } ∧
    CLAccrual.totalShares { a with pos := a.pos.eraseIdx i } = CLAccrual.totalShares a ∧
    CLAccrual.sumBy (CLAccrual.owed { a with pos := a.pos.eraseIdx i }) (a.pos.eraseIdx i)
      = CLAccrual.sumBy (CLAccrual.owed a) a.pos - p.u * PREC := by
  obtain ⟨h1, h2, h3, h4, h5, h6⟩ := hinv
  have hmem : p ∈ a.pos := List.mem_of_getElem? hi
  have hu : 0 ≤ p.u := (h1 p hmem).2.2.1
  have howed : CLAccrual.sumBy (CLAccrual.owed a) a.pos
      = p.u * PREC + CLAccrual.sumBy (CLAccrual.owed a) (a.pos.eraseIdx i) := by
    rw [sumBy_eraseIdx _ _ i p hi]
    unfold CLAccrual.owed; rw [hs]; omega
  refine ⟨⟨?_, ?_, ?_, ?_, ?_, h6⟩, ?_, ?_⟩
  · intro q hq; exact h1 q (List.mem_of_mem_eraseIdx hq)
  · intro t; show a.gross t = _
    rw [h2 t, sumBy_eraseIdx _ _ i p hi, hs]; simp
  · intro t; show a.net t = _
    rw [h3 t, sumBy_eraseIdx _ _ i p hi, hs]; simp
  · show a.active = _
    rw [h4, sumBy_eraseIdx _ _ i p hi, hs]; simp
  · show 2 * (CLAccrual.sumBy (CLAccrual.owed a) (a.pos.eraseIdx i) + a.paid * PREC) ≤ 2 * (a.recv * PREC) + a.k * PREC
    have : 0 ≤ p.u * PREC := Int.mul_nonneg hu (by decide)
    omega
  · show CLAccrual.sumBy (·.s) (a.pos.eraseIdx i) = CLAccrual.sumBy (·.s) a.pos
    rw [sumBy_eraseIdx (·.s) _ i p hi, hs]; simp
  · show CLAccrual.sumBy (CLAccrual.owed a) (a.pos.eraseIdx i) = _
    omega

/-! non-vacuity of `Inv_perm` / `Inv_dropDead`: one live position [-1, 1) with 5 shares, one dead record with 3 unclaimed -/
def exAbs : ASt :=
  { G := 0, fo := fun _ => 0, cur := 0,
    gross := fun t => (if -1 = t then 5 else 0) + (if 1 = t then 5 else 0),
    net := fun t => (if -1 = t then 5 else 0) - (if 1 = t then 5 else 0),
    active := 5, pos := [⟨-1, 1, 5, 0, 0⟩, ⟨-2, 2, 0, 0, 3⟩], recv := 3, paid := 0, k := 0 }

theorem exAbs_inv : CLAccrual.Inv exAbs := by
  refine ⟨?_, ?_, ?_, ?_, ?_, ?_⟩
  · intro p hp
    simp only [exAbs, List.mem_cons, List.not_mem_nil, or_false] at hp
    rcases hp with rfl | rfl
    · refine ⟨by decide, by decide, by decide, fun _ => ?_⟩
      decide
    · refine ⟨by decide, by decide, by decide, fun h => ?_⟩
      exact absurd h (by decide)
  · intro t
    simp only [exAbs, CLAccrual.sumBy]
    by_cases h1 : (-2 : Int) = t <;> by_cases h2 : (2 : Int) = t <;> simp [h1, h2]
  · intro t
    simp only [exAbs, CLAccrual.sumBy]
    by_cases h1 : (-2 : Int) = t <;> by_cases h2 : (2 : Int) = t <;> simp [h1, h2]
  · decide
  · decide
  · decide

example : CLAccrual.Inv { exAbs with pos := exAbs.pos.eraseIdx 1 } ∧
    CLAccrual.Inv { exAbs with pos := [⟨-2, 2, 0, 0, 3⟩, ⟨-1, 1, 5, 0, 0⟩] } :=
  ⟨(Inv_dropDead (i := 1) (p := ⟨-2, 2, 0, 0, 3⟩) rfl rfl exAbs_inv).1,
   Inv_perm (List.Perm.swap _ _ _) exAbs_inv⟩

/-! ### 2 (store half). `UpdatePosition` on the fresh placeholder record of `createPosition` = abstract `openPos` -/

/-- growth outside after the two `initFo`s of the abstract `openPos` -/
def openFo (a : ASt) (lo hi : Int) : Int → Int := CLAccrual.initFo { a with fo := CLAccrual.initFo a lo } hi
/-- the record the abstract `openPos` creates -/
def openRec (a : ASt) (lo hi δ : Int) : APos := ⟨lo, hi, δ, CLAccrual.inside { a with fo := openFo a lo hi } lo hi, 0⟩

theorem step_open (a : ASt) (lo hi δ : Int) :
    CLAccrual.step a (.openPos lo hi δ)
      = CLAccrual.applyDelta { a with fo := openFo a lo hi } lo hi δ (openRec a lo hi δ :: a.pos) := rfl

/-- `getInitialFeeGrowth` (absent tick) vs the abstraction's `initFo` (gross = 0), under "a stored tick has gross ≠ 0" -/
theorem tickFo_abs {s : St} {pool : Nat} (t : Int) (d : String) (cur G : Int)
    (hne : (findTick s pool t).isSome = true → grossOf s pool t ≠ 0) :
    (match findTick s pool t with
      | some x => raw x.feeGrowth d
      | none => if cur ≥ t then G else 0)
    = if grossOf s pool t = 0 then (if cur ≥ t then G else 0) else foOf s pool d t := by
  cases hf : findTick s pool t with
  | none =>
    have : grossOf s pool t = 0 := by unfold grossOf; rw [hf]
    rw [if_pos this]
  | some x =>
    have := hne (by rw [hf]; rfl)
    rw [if_neg this]
    unfold foOf; rw [hf]

/-- **2. `open_refines` (the `UpdatePosition` core of `createPosition`).**  `createPosition` stores a placeholder record
    (liquidity 0, fresh id, no accumulator position) and calls `UpdatePosition` with `delta` on it.  On the abstraction the
    placeholder is a dead record `⟨lo, hi, 0, 0, 0⟩` at its store index `i`; the abstraction of the state after is the
    abstract `openPos lo hi delta` — `initFo` on both ticks (`getInitialFeeGrowth` convention for a fresh tick), gross /
    net / active by `applyDelta`, new record `⟨lo, hi, delta, growth inside, 0⟩` — with the new record written AT INDEX `i`
    (over the placeholder) instead of prepended.  `0 < delta` (the abstract guard) holds.  (`open_perm`: that list is a
    permutation of `new :: (list without the placeholder)`; `Inv_perm`, `Inv_dropDead`: order and dead records do not
    matter for the invariant.) -/
theorem open_refines {s s' : St} {pool : Nat} {lo hi : Int} {delta : Dec} {posId : Nat} {ab aq : Int} {loE hiE : Bool}
    {denom : String} {k : Int} {a : ASt} {i : Nat} {pos : Position}
    (h : updatePosition s pool lo hi delta posId = .ok (s', ab, aq, loE, hiE))
    (habs : CLAccrual.absOf s pool denom k = some a)
    (hidx : (poolPositions s pool)[i]? = some pos) (hid : pos.id = posId) (hlo : pos.lower = lo) (hhi : pos.upper = hi)
    (hliq0 : pos.liq.raw = 0)
    (hlh : lo ≠ hi)
    (hnd : (s.positions.map (·.id)).Nodup)
    (hsw : SortedWF s)
    (hap : getAccPos s posId = none)
    (hne : ∀ t, (findTick s pool t).isSome = true → grossOf s pool t ≠ 0) :
    CLAccrual.absOf s' pool denom k
        = some { CLAccrual.step a (.openPos lo hi delta.raw) with pos := a.pos.set i (openRec a lo hi delta.raw) } ∧
      0 < delta.raw ∧
      a.pos[i]? = some ⟨lo, hi, 0, 0, 0⟩ ∧
      (∀ acc, getAccum s pool = some acc →
        ∃ acc', getAccum s' pool = some acc' ∧ acc'.totalShares.raw = acc.totalShares.raw + delta.raw) ∧
      s'.bank = s.bank := by
  obtain ⟨p, acc, hp, hacc, ea⟩ := absOf_some habs
  obtain ⟨s2, s4, p', pos0, tlo, thi, lt4, ut4, p4, h5, hp', hq, hposs2, hposs4, hac4, hap4, hp4, htick4, htlo, hthi, hlt4,
    hltf, hut4, hutf, hfo4, hsw4⟩ := updatePosition_s4 h hlh
  have e1 : p = p' := by rw [hp] at hp'; exact Option.some.inj hp'
  subst e1
  have hmem := mem_poolPositions.mp (List.mem_of_getElem? hidx)
  have hgetpos : getPosition s posId = some pos := by rw [← hid]; exact getPosition_of_mem hnd hmem.1
  have e2 : pos0 = pos := by rw [hgetpos] at hq; exact (Option.some.inj hq).symm
  subst e2
  have hapid : getAccPos s pos0.id = none := by rw [hid]; exact hap
  have w4 := hsw4 hsw
  have hacc4 : getAccum s4 pool = some acc := by unfold getAccum at hacc ⊢; rw [hac4]; exact hacc
  have hapS4 : getAccPos s4 posId = none := by unfold getAccPos at hap ⊢; rw [hap4]; exact hap
  obtain ⟨o, ho, hdpos, hgetAP, hgetAcc⟩ := setAccumFee_open h5 hacc4 hapS4
  -- the pool has a position afterwards
  have hkeep' : ¬ (Dec.add pos0.liq delta).isZero = true := by
    have e : (Dec.add pos0.liq delta).raw = pos0.liq.raw + delta.raw := rfl
    simp only [Dec.isZero, beq_iff_eq]
    show ¬ (pos0.liq.raw + delta.raw = 0)
    omega
  have hpos4 : s4.positions = s.positions.map (fun q => if q.id == pos0.id then { pos0 with liq := Dec.add pos0.liq delta } else q) := by
    rw [hposs4]
    unfold s3Of; rw [if_neg hkeep']
    unfold setPosition
    have hany : s2.positions.any (fun q => q.id == pos0.id) = true := by
      rw [hposs2, List.any_eq_true]; exact ⟨pos0, hmem.1, by simp⟩
    rw [if_pos hany]
    simp only [hposs2]
  have hhas4 : poolHasPosition s4 pool = true := by
    unfold poolHasPosition
    rw [hpos4, List.any_eq_true]
    refine ⟨{ pos0 with liq := Dec.add pos0.liq delta }, ?_, by simp [hmem.2]⟩
    exact List.mem_map.mpr ⟨pos0, hmem.1, by simp⟩
  have ht4 := htick4 hhas4
  have hfr := setAccumPositionFee_frame h5
  -- growth outside of s4 = the abstraction's `openFo`, at every denom
  have hfoKey : ∀ d, foOf s4 pool d = openFo (absWith s pool d k p acc) lo hi := by
    intro d; funext t'
    rw [hfo4 d t']
    have e_hi := (getTickInfo_fee hthi hp hacc d).1.trans (tickFo_abs hi d p.tick (raw acc.value d) (hne hi))
    have e_lo := (getTickInfo_fee htlo hp hacc d).1.trans (tickFo_abs lo d p.tick (raw acc.value d) (hne lo))
    unfold openFo CLAccrual.initFo
    show _ = if t' = hi ∧ grossOf s pool hi = 0 then (if p.tick ≥ hi then raw acc.value d else 0)
      else (if t' = lo ∧ grossOf s pool lo = 0 then (if p.tick ≥ lo then raw acc.value d else 0) else foOf s pool d t')
    by_cases c1 : t' = hi
    · rw [if_pos c1, e_hi]
      by_cases g : grossOf s pool hi = 0
      · simp [c1, g]
      · have hne2 : ¬ hi = lo := fun e => hlh e.symm
        simp [c1, g, hne2]
    · rw [if_neg c1]
      by_cases c2 : t' = lo
      · rw [if_pos c2, e_lo]
        by_cases g : grossOf s pool lo = 0
        · simp [c2, g, hlh]
        · simp [c2, g, hlh]
      · rw [if_neg c2]; simp [c1, c2]
  have hsa := hsw.of_getAccum hacc
  have hsl4 := w4.of_findTick hlt4
  have hsu4 := w4.of_findTick hut4
  obtain ⟨hsi, hri⟩ := inside_spec hp4 hacc4 hlt4 hut4 hsa hsl4 hsu4 ho k
  have hins : raw (DecCoins.safeSub acc.value o).1 denom
      = CLAccrual.inside { absWith s pool denom k p acc with fo := openFo (absWith s pool denom k p acc) lo hi } lo hi := by
    rw [hri denom]
    apply inside_congr
    · rfl
    · exact ht4
    · show foOf s4 pool denom lo = _; rw [hfoKey denom]
    · show foOf s4 pool denom hi = _; rw [hfoKey denom]
  -- the placeholder's abstract record
  have hai : a.pos[i]? = some ⟨lo, hi, 0, 0, 0⟩ := by
    rw [ea]
    show ((poolPositions s pool).map (posOf s denom))[i]? = _
    rw [List.getElem?_map, hidx]
    unfold posOf
    simp only [Option.map_some, hapid, hlo, hhi, hliq0]
  -- the concrete state after
  obtain ⟨pf, hpf, _, hlive, _⟩ := updatePosition_pool h hp
  have hhas' : poolHasPosition s' pool = true := by rw [poolHasPosition_congr hfr.2.1]; exact hhas4
  obtain ⟨hpft, _, hpfl⟩ := hlive hhas'
  have hticks' := (updatePosition_ticks h).1
  have hbank : s'.bank = s.bank := by
    obtain ⟨_, _, _, _, _, _, _, _, _, _, _, _, _, hb, _⟩ := updatePosition_frames h
    exact hb
  have hfo' : foOf s' pool denom = openFo (absWith s pool denom k p acc) lo hi := by
    rw [foOf_congr hfr.2.2.1 pool denom]; exact hfoKey denom
  have hposlist : (poolPositions s' pool).map (posOf s' denom)
      = a.pos.set i (openRec a lo hi delta.raw) := by
    have hp1 : poolPositions s' pool = (poolPositions s pool).map
        (fun q => if q.id == pos0.id then { pos0 with liq := Dec.add pos0.liq delta } else q) := by
      unfold poolPositions
      rw [hfr.2.1, hpos4]
      exact filter_replace pool { pos0 with liq := Dec.add pos0.liq delta } s.positions (by
        intro q hq hqid
        have : getPosition s q.id = some q := getPosition_of_mem hnd hq
        have e : q = pos0 := by
          simp only [] at hqid
          rw [hqid, hid, hgetpos] at this; exact (Option.some.inj this).symm
        rw [e])
    rw [hp1, List.map_map, ea]
    show _ = ((poolPositions s pool).map (posOf s denom)).set i _
    have hnew : (posOf s' denom ∘ fun q => if q.id == pos0.id then { pos0 with liq := Dec.add pos0.liq delta } else q) pos0
        = openRec (absWith s pool denom k p acc) lo hi delta.raw := by
      simp only [Function.comp, beq_self_eq_true, if_true]
      unfold posOf openRec
      simp only []
      rw [hgetAP, if_pos hid]
      simp only [hlo, hhi, CLAccrual.Pos.mk.injEq, true_and]
      exact ⟨hins, raw_nil⟩
    rw [← hnew]
    apply map_set_nodup (posOf s denom) _ _ i pos0 (poolPositions_nodup pool hnd) hidx
    intro q' _ hne'
    have hne'' : (q'.id == pos0.id) = false := by simpa using hne'
    simp only [Function.comp, hne'', Bool.false_eq_true, if_false]
    unfold posOf
    rw [hgetAP, if_neg (by rw [← hid]; exact hne')]
    have : getAccPos s4 q'.id = getAccPos s q'.id := by unfold getAccPos; rw [hap4]
    rw [this]
  refine ⟨?_, hdpos, hai, ?_, hbank⟩
  · rw [absOf_eq hpf hgetAcc, step_open]
    congr 1
    subst ea
    apply ast_ext
    · rfl
    · exact hfo'
    · exact hpft
    · funext t; exact (hticks' t).1
    · funext t; exact (hticks' t).2
    · exact hpfl
    · exact hposlist
    · show s'.bank.bal _ _ * PREC = s.bank.bal _ _ * PREC
      rw [hbank]
    · rfl
    · rfl
  · intro acc0 hacc0
    have : acc0 = acc := by rw [hacc] at hacc0; exact (Option.some.inj hacc0).symm
    subst this
    exact ⟨_, hgetAcc, rfl⟩

/-- the position list of `open_refines` is a permutation of "new record prepended, placeholder dropped" -/
theorem open_perm {l : List APos} {i : Nat} {p x : APos} (hi : l[i]? = some p) :
    (l.set i x).Perm (x :: l.eraseIdx i) := by
  induction l generalizing i with
  | nil => simp at hi
  | cons y ys ih =>
    cases i with
    | zero => simp
    | succ j =>
      simp only [List.getElem?_cons_succ] at hi
      simp only [List.set_cons_succ, List.eraseIdx_cons_succ]
      exact ((ih hi).cons y).trans (List.Perm.swap x y _)

/-! non-vacuity of `open_refines`: `exS` (one position [-10, 10), growth 0.0055) plus the placeholder of a new position
    [-5, 20) (both ticks fresh: the lower one, at or below the cursor 0, starts with the whole accumulator as growth outside) -/
def exO : St := { exS with positions := exS.positions ++ [⟨1, 0, "a1", -5, 20, ⟨0⟩⟩], nextPos := 2 }
def okUP (r : Res (St × Int × Int × Bool × Bool)) : Bool := match r with | .ok _ => true | _ => false
theorem exO_ok : okUP (updatePosition exO 0 (-5) 20 ⟨500 * PREC⟩ 1) = true := by decide +kernel

example : ∃ s' ab aq loE hiE a, updatePosition exO 0 (-5) 20 ⟨500 * PREC⟩ 1 = .ok (s', ab, aq, loE, hiE) ∧
    CLAccrual.absOf exO 0 "uaaa" 0 = some a ∧
    CLAccrual.absOf s' 0 "uaaa" 0
      = some { CLAccrual.step a (.openPos (-5) 20 (500 * PREC)) with pos := a.pos.set 1 (openRec a (-5) 20 (500 * PREC)) } := by
  have hok := exO_ok
  cases hr : updatePosition exO 0 (-5) 20 ⟨500 * PREC⟩ 1 with
  | err c => rw [hr] at hok; cases hok
  | panic c => rw [hr] at hok; cases hok
  | ok v =>
    obtain ⟨s', ab, aq, loE, hiE⟩ := v
    have habs : CLAccrual.absOf exO 0 "uaaa" 0 = some (absWith exO 0 "uaaa" 0 exPool exAcc) := absOf_eq (by rfl) (by rfl)
    have hne : ∀ t, (findTick exO 0 t).isSome = true → grossOf exO 0 t ≠ 0 := by
      intro t ht
      unfold grossOf
      cases hf : findTick exO 0 t with
      | none => rw [hf] at ht; cases ht
      | some x =>
        have hm : x ∈ exO.ticks := List.mem_of_find?_eq_some hf
        simp only [exO, exS, List.mem_cons, List.mem_singleton, List.not_mem_nil, or_false] at hm
        rcases hm with e | e <;> subst e <;> decide
    obtain ⟨h1, _⟩ := open_refines (i := 1) (pos := ⟨1, 0, "a1", -5, 20, ⟨0⟩⟩) hr habs (by rfl) rfl rfl rfl rfl (by decide)
      (by decide) ⟨exS_sorted.accum, exS_sorted.ticks, exS_sorted.accPos⟩ (by rfl) hne
    exact ⟨s', ab, aq, loE, hiE, _, rfl, habs, h1⟩

/-! ### 3 (store half). Full withdrawal: the store deletes the position record; the abstraction keeps a dead one -/

theorem map_eraseIdx' {α β : Type} (f : α → β) : ∀ (l : List α) (i : Nat), (l.map f).eraseIdx i = (l.eraseIdx i).map f := by
  intro l
  induction l with
  | nil => intro i; rfl
  | cons x xs ih =>
    intro i
    cases i with
    | zero => rfl
    | succ j => simp only [List.map_cons, List.eraseIdx_cons_succ, ih j]

theorem filter_ne_eraseIdx : ∀ (l : List Position) (i : Nat) (q : Position), (l.map (·.id)).Nodup → l[i]? = some q →
    l.filter (fun x => x.id != q.id) = l.eraseIdx i := by
  intro l
  induction l with
  | nil => intro i q _ h; simp at h
  | cons x xs ih =>
    intro i q hnd hi
    have hnd' : x.id ∉ xs.map (·.id) ∧ (xs.map (·.id)).Nodup := by simpa [List.nodup_cons] using hnd
    cases i with
    | zero =>
      simp only [List.getElem?_cons_zero, Option.some.injEq] at hi
      subst hi
      simp only [List.filter_cons, bne_self_eq_false, Bool.false_eq_true, if_false, List.eraseIdx_cons_zero]
      apply List.filter_eq_self.mpr
      intro y hy
      simp only [bne_iff_ne, ne_eq]
      intro e
      exact hnd'.1 (List.mem_map.mpr ⟨y, hy, e⟩)
    | succ j =>
      simp only [List.getElem?_cons_succ] at hi
      have hq : q ∈ xs := List.mem_of_getElem? hi
      have hne : (x.id != q.id) = true := by
        simp only [bne_iff_ne, ne_eq]
        intro e; exact hnd'.1 (List.mem_map.mpr ⟨q, hq, e.symm⟩)
      simp only [List.filter_cons, hne, if_true, List.eraseIdx_cons_succ, List.cons.injEq, true_and]
      exact ih j q hnd'.2 hi

/-- **3. `withdraw_refines`.**  `UpdatePosition` that takes out the WHOLE liquidity of a position (`pos.liq + delta = 0`)
    while the pool keeps another position: the store deletes the position record (its accumulator record stays behind,
    unreachable, with zero shares); the abstraction of the state after is the abstract `change i delta` followed by dropping
    record `i` — which that step left with zero shares.  (`Inv_dropDead`: dropping it preserves the invariant and all sums;
    what it had unclaimed is forfeited to the fee account.)  The pool-reset case (last position of the pool) is not covered. -/
theorem withdraw_refines {s s' : St} {pool : Nat} {lo hi : Int} {delta : Dec} {posId : Nat} {ab aq : Int} {loE hiE : Bool}
    {denom : String} {k : Int} {a : ASt} {i : Nat} {pos : Position} {ap : AccPos}
    (h : updatePosition s pool lo hi delta posId = .ok (s', ab, aq, loE, hiE))
    (habs : CLAccrual.absOf s pool denom k = some a)
    (hidx : (poolPositions s pool)[i]? = some pos) (hid : pos.id = posId) (hlo : pos.lower = lo) (hhi : pos.upper = hi)
    (hlh : lo ≠ hi)
    (hnd : (s.positions.map (·.id)).Nodup)
    (hsw : SortedWF s)
    (hticks : (findTick s pool lo).isSome ∧ (findTick s pool hi).isSome)
    (hap : getAccPos s posId = some ap)
    (hshares : ap.shares.raw = pos.liq.raw)
    (hall : pos.liq.raw + delta.raw = 0)
    (hrest : ∃ q ∈ s.positions, q.pool = pool ∧ q.id ≠ posId) :
    CLAccrual.absOf s' pool denom (k + 1)
        = some { CLAccrual.step a (.change i delta.raw) with pos := (CLAccrual.step a (.change i delta.raw)).pos.eraseIdx i } ∧
      (∃ p', (CLAccrual.step a (.change i delta.raw)).pos[i]? = some p' ∧ p'.s = 0) ∧
      (∀ acc, getAccum s pool = some acc →
        ∃ acc', getAccum s' pool = some acc' ∧ acc'.totalShares.raw = acc.totalShares.raw + delta.raw) ∧
      s'.bank = s.bank := by
  obtain ⟨p, acc, hp, hacc, ea⟩ := absOf_some habs
  obtain ⟨s2, s4, p', pos0, tlo, thi, lt4, ut4, p4, h5, hp', hq, hposs2, hposs4, hac4, hap4, hp4, htick4, htlo, hthi, hlt4,
    hltf, hut4, hutf, hfo4, hsw4⟩ := updatePosition_s4 h hlh
  have e1 : p = p' := by rw [hp] at hp'; exact Option.some.inj hp'
  subst e1
  have hmem := mem_poolPositions.mp (List.mem_of_getElem? hidx)
  have hgetpos : getPosition s posId = some pos := by rw [← hid]; exact getPosition_of_mem hnd hmem.1
  have e2 : pos0 = pos := by rw [hgetpos] at hq; exact (Option.some.inj hq).symm
  subst e2
  have hapid : getAccPos s pos0.id = some ap := by rw [hid]; exact hap
  obtain ⟨lt0, hlt0⟩ := Option.isSome_iff_exists.mp hticks.1
  obtain ⟨ut0, hut0⟩ := Option.isSome_iff_exists.mp hticks.2
  have etlo : tlo = lt0 := by rw [getTickInfo_present hlt0] at htlo; exact (res_ok_inj htlo).symm
  have ethi : thi = ut0 := by rw [getTickInfo_present hut0] at hthi; exact (res_ok_inj hthi).symm
  have hfoEq : ∀ d, foOf s4 pool d = foOf s pool d := by
    intro d; funext t'
    rw [hfo4 d t']
    by_cases c1 : t' = hi
    · rw [if_pos c1, ethi, c1]; unfold foOf; rw [hut0]
    · rw [if_neg c1]
      by_cases c2 : t' = lo
      · rw [if_pos c2, etlo, c2]; unfold foOf; rw [hlt0]
      · rw [if_neg c2]
  have hacc4 : getAccum s4 pool = some acc := by unfold getAccum at hacc ⊢; rw [hac4]; exact hacc
  have hapS4 : getAccPos s4 posId = some ap := by unfold getAccPos at hap ⊢; rw [hap4]; exact hap
  obtain ⟨o, u, ho, hu, hd0, hdneg, hgetAP, hgetAcc⟩ := setAccumFee_change h5 hacc4 hapS4
  -- the position record is deleted
  have hzero' : (Dec.add pos0.liq delta).isZero = true := by
    simp only [Dec.isZero, beq_iff_eq]
    show pos0.liq.raw + delta.raw = 0
    exact hall
  have hpos4 : s4.positions = s.positions.filter (fun q => q.id != pos0.id) := by
    rw [hposs4]
    unfold s3Of; rw [if_pos hzero']
    unfold removePosition
    simp only [hposs2, hid]
  have hhas4 : poolHasPosition s4 pool = true := by
    obtain ⟨q, hqm, hqp, hqid⟩ := hrest
    unfold poolHasPosition
    rw [hpos4, List.any_eq_true]
    refine ⟨q, List.mem_filter.mpr ⟨hqm, ?_⟩, by simp [hqp]⟩
    simp only [bne_iff_ne, ne_eq, hid]; exact hqid
  have ht4 := htick4 hhas4
  have hfr := setAccumPositionFee_frame h5
  -- the abstract step
  have hai : a.pos[i]? = some (posOf s denom pos0) := by
    rw [ea]
    show ((poolPositions s pool).map (posOf s denom))[i]? = _
    rw [List.getElem?_map, hidx]; rfl
  have hstepPos : (CLAccrual.step a (.change i delta.raw)).pos
      = a.pos.set i ⟨(posOf s denom pos0).lo, (posOf s denom pos0).hi, (posOf s denom pos0).s + delta.raw,
                        CLAccrual.inside a (posOf s denom pos0).lo (posOf s denom pos0).hi,
                        CLAccrual.rewards a (posOf s denom pos0)⟩ := by
    simp only [CLAccrual.step, hai]; rfl
  have hstepRest : ∀ l, { CLAccrual.step a (.change i delta.raw) with pos := l }
      = { CLAccrual.applyDelta a lo hi delta.raw l with k := a.k + 1 } := by
    intro l
    simp only [CLAccrual.step, hai]
    simp only [posOf_some hapid, hlo, hhi]
    rfl
  -- the concrete state after
  obtain ⟨pf, hpf, _, hlive, _⟩ := updatePosition_pool h hp
  have hhas' : poolHasPosition s' pool = true := by rw [poolHasPosition_congr hfr.2.1]; exact hhas4
  obtain ⟨hpft, _, hpfl⟩ := hlive hhas'
  have hticks' := (updatePosition_ticks h).1
  have hbank : s'.bank = s.bank := by
    obtain ⟨_, _, _, _, _, _, _, _, _, _, _, _, _, hb, _⟩ := updatePosition_frames h
    exact hb
  have hfo' : foOf s' pool denom = foOf s pool denom := by
    rw [foOf_congr hfr.2.2.1 pool denom]; exact hfoEq denom
  have hposlist : (poolPositions s' pool).map (posOf s' denom) = a.pos.eraseIdx i := by
    have hp1 : poolPositions s' pool = (poolPositions s pool).eraseIdx i := by
      rw [← filter_ne_eraseIdx (poolPositions s pool) i pos0 (poolPositions_nodup pool hnd) hidx]
      unfold poolPositions
      rw [hfr.2.1, hpos4]
      simp only [List.filter_filter, Bool.and_comm]
    rw [hp1, ea]
    show _ = ((poolPositions s pool).map (posOf s denom)).eraseIdx i
    rw [map_eraseIdx']
    apply List.map_congr_left
    intro q' hq'
    have hq'' : q' ∈ (poolPositions s pool).filter (fun x => x.id != pos0.id) := by
      rw [filter_ne_eraseIdx (poolPositions s pool) i pos0 (poolPositions_nodup pool hnd) hidx]; exact hq'
    have hne' : q'.id ≠ pos0.id := by
      have := (List.mem_filter.mp hq'').2
      simpa using this
    unfold posOf
    rw [hgetAP, if_neg (by rw [← hid]; exact hne')]
    have : getAccPos s4 q'.id = getAccPos s q'.id := by unfold getAccPos; rw [hap4]
    rw [this]
  refine ⟨?_, ?_, ?_, hbank⟩
  · rw [absOf_eq hpf hgetAcc, hstepPos, List.eraseIdx_set_eq, hstepRest]
    congr 1
    subst ea
    apply ast_ext
    · rfl
    · exact hfo'
    · exact hpft
    · funext t; exact (hticks' t).1
    · funext t; exact (hticks' t).2
    · exact hpfl
    · exact hposlist
    · show s'.bank.bal _ _ * PREC = s.bank.bal _ _ * PREC
      rw [hbank]
    · rfl
    · rfl
  · rw [hstepPos]
    have hlt : i < a.pos.length := by
      have := List.getElem?_eq_some_iff.mp hai
      exact this.1
    refine ⟨_, by rw [List.getElem?_set_self hlt], ?_⟩
    show (posOf s denom pos0).s + delta.raw = 0
    rw [posOf_some hapid]
    show ap.shares.raw + delta.raw = 0
    rw [hshares]; exact hall
  · intro acc0 hacc0
    have : acc0 = acc := by rw [hacc] at hacc0; exact (Option.some.inj hacc0).symm
    subst this
    exact ⟨_, hgetAcc, rfl⟩

/-! non-vacuity of `withdraw_refines`: two positions [-10, 10) (1000 and 500 units), the second one withdrawn entirely -/
def exW : St :=
  { pools := [⟨0, "uaaa", "ubbb", ⟨0⟩, ⟨⟨1000100000000000000⟩, ⟨0⟩⟩, 0, ⟨PREC⟩, ⟨1500 * PREC⟩⟩]
    positions := [⟨0, 0, "a0", -10, 10, ⟨1000 * PREC⟩⟩, ⟨1, 0, "a1", -10, 10, ⟨500 * PREC⟩⟩]
    ticks := [⟨0, -10, ⟨1500 * PREC⟩, ⟨1500 * PREC⟩, []⟩, ⟨0, 10, ⟨1500 * PREC⟩, ⟨-(1500 * PREC)⟩, []⟩]
    accums := [⟨0, [("uaaa", ⟨5500000000000000⟩)], ⟨1500 * PREC⟩⟩]
    accPos := [⟨0, 0, ⟨1000 * PREC⟩, [], []⟩, ⟨1, 0, ⟨500 * PREC⟩, [], []⟩]
    nextPool := 1, nextPos := 2, bank := exBank }

theorem exW_ok : okUP (updatePosition exW 0 (-10) 10 ⟨-(500 * PREC)⟩ 1) = true := by decide +kernel

theorem exW_sorted : SortedWF exW := by
  refine ⟨?_, ?_, ?_⟩
  · intro a ha
    simp only [exW, List.mem_singleton] at ha
    subst ha; exact sorted_single _
  · intro t ht
    simp only [exW, List.mem_cons, List.mem_singleton, List.not_mem_nil, or_false] at ht
    rcases ht with e | e <;> subst e <;> exact sorted_nil
  · intro ap hap
    simp only [exW, List.mem_cons, List.mem_singleton, List.not_mem_nil, or_false] at hap
    rcases hap with e | e <;> subst e <;> exact ⟨sorted_nil, sorted_nil⟩

example : ∃ s' ab aq loE hiE a, updatePosition exW 0 (-10) 10 ⟨-(500 * PREC)⟩ 1 = .ok (s', ab, aq, loE, hiE) ∧
    CLAccrual.absOf exW 0 "uaaa" 0 = some a ∧
    CLAccrual.absOf s' 0 "uaaa" 1
      = some { CLAccrual.step a (.change 1 (-(500 * PREC))) with
                pos := (CLAccrual.step a (.change 1 (-(500 * PREC)))).pos.eraseIdx 1 } := by
  have hok := exW_ok
  cases hr : updatePosition exW 0 (-10) 10 ⟨-(500 * PREC)⟩ 1 with
  | err c => rw [hr] at hok; cases hok
  | panic c => rw [hr] at hok; cases hok
  | ok v =>
    obtain ⟨s', ab, aq, loE, hiE⟩ := v
    have habs : CLAccrual.absOf exW 0 "uaaa" 0 = some _ :=
      absOf_eq (p := ⟨0, "uaaa", "ubbb", ⟨0⟩, ⟨⟨1000100000000000000⟩, ⟨0⟩⟩, 0, ⟨PREC⟩, ⟨1500 * PREC⟩⟩)
        (a := ⟨0, [("uaaa", ⟨5500000000000000⟩)], ⟨1500 * PREC⟩⟩) (by rfl) (by rfl)
    obtain ⟨h1, _⟩ := withdraw_refines (i := 1) (pos := ⟨1, 0, "a1", -10, 10, ⟨500 * PREC⟩⟩)
      (ap := ⟨1, 0, ⟨500 * PREC⟩, [], []⟩) hr habs (by rfl) rfl rfl rfl (by decide)
      (by decide) exW_sorted ⟨by rfl, by rfl⟩ (by rfl) rfl (by decide)
      ⟨⟨0, 0, "a0", -10, 10, ⟨1000 * PREC⟩⟩, by simp [exW], rfl, by decide⟩
    exact ⟨s', ab, aq, loE, hiE, _, rfl, habs, h1⟩

#print axioms swapLoop_refines_accrual
#print axioms swap_core
#print axioms withdraw_refines
#print axioms open_refines
#print axioms Inv_perm
#print axioms Inv_dropDead
#print axioms swap_refines_in
#print axioms swap_refines_out
#print axioms SwapRefines.inv

end Sunrise.C06Refine2
