import SunriseVerif.Model.CLCustody
import SunriseVerif.Props.C04
import Mathlib.Tactic.Linarith
import Mathlib.Tactic.Ring
import Mathlib.Tactic.Positivity
import Mathlib.Tactic.NormNum
import Mathlib.Algebra.Order.Field.Rat
import Mathlib.Algebra.Order.Field.Basic
import Mathlib.Algebra.Order.Ring.Cast
/-!
C02 (custody) — concentrated-liquidity pools stay solvent and every liquidity provider can always exit.
Theorems over the custody abstraction `CLCustody` (one pool, unbounded histories of deposits, withdrawals, swap steps
inside a bucket, tick crossings, price (re)initialisation of an empty pool and kept truncation dust; exact rational
entitlements, every fixed-point evaluation off by at most its declared error `e` which is accumulated in `slack`):
* `inv_reachable`     — in every reachable state the pool account holds at least the exact amounts all open positions
                        are entitled to at the current price, minus the accumulated rounding slack (both denoms);
* `reachable_cover`   — the two projections (headline statement);
* `withdraw_covered`  — whatever a guarded withdrawal pays out is at most balance + slack + its own error, and
  `withdraw_payable`  — integer corollary: while slack + e < 1 coin an integer payout never exceeds an integer balance;
* `swap_out_covered`  — the same for the amount paid out by a swap step (`swap_out_payable` integer corollary);
* `drained_nonneg`    — once every position is closed, what is left in the account is non-negative up to slack.
Building blocks: entitlements are non-negative and linear in liquidity; a price move inside a bucket changes the summed
entitlements by exactly `active/PRECQ · ΔP` (quote) and `active/PRECQ · Δ(1/P)` (base) — `move_quote`, `move_base`,
`move_down_*`, `move_up_*` — which uses the C04 bookkeeping theorems (active liquidity = Σ in-range liquidity, a tick
with zero gross bounds no open liquidity).
Non-vacuity: `r3` — a concrete reachable history (deposit over ticks [1,4), a swap step down that moves the cursor past
an uninitialised tick, a partial withdrawal with a non-zero rounding error) on the grid `gsp`, with its entitlements
and balances evaluated.
-/
namespace Sunrise.C02Custody
open Sunrise Sunrise.CLCustody
open Sunrise.CLBook (Pos sumIf inRange decAt)

-- ------------------------------------------------------------------------------------------------ basics
theorem PRECQ_pos : (0 : Rat) < PRECQ := by unfold PRECQ; norm_num

theorem sp_mono {sp : Int → Rat} (hg : GridOK sp) {a b : Int} (h : a ≤ b) : sp a ≤ sp b := by
  rcases Int.lt_or_eq_of_le h with h | h
  · exact le_of_lt (hg.2 a b h)
  · rw [h]

theorem clamp_ge {x lo hi : Rat} (h : lo ≤ hi) : lo ≤ clamp x lo hi := by
  unfold clamp; split_ifs <;> linarith

theorem clamp_le {x lo hi : Rat} (h : lo ≤ hi) : clamp x lo hi ≤ hi := by
  unfold clamp; split_ifs <;> linarith

theorem clamp_mid {x lo hi : Rat} (h1 : lo ≤ x) (h2 : x ≤ hi) : clamp x lo hi = x := by
  unfold clamp; split_ifs <;> linarith

theorem clamp_above {x lo hi : Rat} (h : lo ≤ hi) (h2 : hi ≤ x) : clamp x lo hi = hi := by
  unfold clamp; split_ifs <;> linarith

theorem clamp_below {x lo hi : Rat} (h : lo ≤ hi) (h2 : x ≤ lo) : clamp x lo hi = lo := by
  unfold clamp; split_ifs <;> linarith

-- ------------------------------------------------------------------------------------------------ 1a. non-negativity
theorem entQuote_nonneg {sp : Int → Rat} (hg : GridOK sp) (P : Rat) (x : Pos) (hl : 0 ≤ x.liq) (hlt : x.lo < x.hi) :
    0 ≤ entQuote sp P x := by
  have hle : sp x.lo ≤ sp x.hi := le_of_lt (hg.2 _ _ hlt)
  have h1 := clamp_ge (x := P) hle
  have h2 : (0 : Rat) ≤ (x.liq : Rat) := Int.cast_nonneg hl
  have h3 : (0 : Rat) ≤ (x.liq : Rat) / PRECQ := div_nonneg h2 (le_of_lt PRECQ_pos)
  unfold entQuote
  exact mul_nonneg h3 (by linarith)

theorem entBase_nonneg {sp : Int → Rat} (hg : GridOK sp) (P : Rat) (x : Pos) (hl : 0 ≤ x.liq) (hlt : x.lo < x.hi) :
    0 ≤ entBase sp P x := by
  have hle : sp x.lo ≤ sp x.hi := le_of_lt (hg.2 _ _ hlt)
  have h1 := clamp_ge (x := P) hle
  have h1' := clamp_le (x := P) hle
  have hpos : 0 < clamp P (sp x.lo) (sp x.hi) := lt_of_lt_of_le (hg.1 x.lo) h1
  have h2 : (0 : Rat) ≤ (x.liq : Rat) := Int.cast_nonneg hl
  have h3 : (0 : Rat) ≤ (x.liq : Rat) / PRECQ := div_nonneg h2 (le_of_lt PRECQ_pos)
  have h4 : 1 / sp x.hi ≤ 1 / clamp P (sp x.lo) (sp x.hi) := one_div_le_one_div_of_le hpos h1'
  unfold entBase
  exact mul_nonneg h3 (by linarith)

-- ------------------------------------------------------------------------------------------------ sums
theorem sumR_nonneg (f : Pos → Rat) (l : List Pos) (h : ∀ x ∈ l, 0 ≤ f x) : 0 ≤ sumR f l := by
  induction l with
  | nil => simp [sumR]
  | cons x xs ih =>
    have hx := h x List.mem_cons_self
    have := ih (fun y hy => h y (List.mem_cons_of_mem _ hy))
    simp only [sumR]; linarith

theorem sumR_mem_le (f : Pos → Rat) (l : List Pos) (h : ∀ x ∈ l, 0 ≤ f x) (x : Pos) (hx : x ∈ l) : f x ≤ sumR f l := by
  induction l with
  | nil => cases hx
  | cons y ys ih =>
    have hy := h y List.mem_cons_self
    have hn := sumR_nonneg f ys (fun z hz => h z (List.mem_cons_of_mem _ hz))
    simp only [sumR]
    rcases List.mem_cons.mp hx with rfl | hx'
    · linarith
    · have := ih (fun z hz => h z (List.mem_cons_of_mem _ hz)) hx'
      linarith

theorem sumR_zero (f : Pos → Rat) (l : List Pos) (h : ∀ x ∈ l, f x = 0) : sumR f l = 0 := by
  induction l with
  | nil => rfl
  | cons x xs ih =>
    simp only [sumR, h x List.mem_cons_self, ih (fun y hy => h y (List.mem_cons_of_mem _ hy))]
    norm_num

/-- effect of `decAt` on the sum of a function that is linear in the liquidity field -/
theorem sumR_decAt (f : Pos → Rat) (hf : ∀ (x : Pos) (d : Int), f { x with liq := x.liq - d } = f x - f ⟨x.lo, x.hi, d⟩) :
    ∀ (l : List Pos) (i : Nat) (δ : Int) (x : Pos), l[i]? = some x →
      sumR f (decAt l i δ) = sumR f l - f ⟨x.lo, x.hi, δ⟩ := by
  intro l
  induction l with
  | nil => intro i δ x h; simp at h
  | cons y ys ih =>
    intro i δ x h
    cases i with
    | zero =>
      simp at h; subst h
      simp only [decAt, sumR, hf]
      ring
    | succ j =>
      simp at h
      simp only [decAt, sumR, ih j δ x h]
      ring

/-- per-position identity ⇒ identity of the sums, the right-hand side being an indicator sum of `CLBook` -/
theorem sumR_diff (f g : Pos → Rat) (p : Pos → Bool) (k : Rat) (l : List Pos)
    (h : ∀ x ∈ l, f x - g x = (((if p x then x.liq else 0 : Int)) : Rat) * k) :
    sumR f l - sumR g l = ((sumIf p l : Int) : Rat) * k := by
  induction l with
  | nil => simp [sumR, sumIf]
  | cons x xs ih =>
    have hx := h x List.mem_cons_self
    have := ih (fun y hy => h y (List.mem_cons_of_mem _ hy))
    simp only [sumR, sumIf]
    push_cast
    push_cast at hx
    linarith

-- ------------------------------------------------------------------------------------------------ 1b. linearity
theorem entQuote_sub (sp : Int → Rat) (P : Rat) (x : Pos) (d : Int) :
    entQuote sp P { x with liq := x.liq - d } = entQuote sp P x - entQuote sp P ⟨x.lo, x.hi, d⟩ := by
  simp only [entQuote]; push_cast; ring

theorem entBase_sub (sp : Int → Rat) (P : Rat) (x : Pos) (d : Int) :
    entBase sp P { x with liq := x.liq - d } = entBase sp P x - entBase sp P ⟨x.lo, x.hi, d⟩ := by
  simp only [entBase]; push_cast; ring

theorem entQuote_add (sp : Int → Rat) (P : Rat) (lo hi a b : Int) :
    entQuote sp P ⟨lo, hi, a + b⟩ = entQuote sp P ⟨lo, hi, a⟩ + entQuote sp P ⟨lo, hi, b⟩ := by
  simp only [entQuote]; push_cast; ring

theorem entBase_add (sp : Int → Rat) (P : Rat) (lo hi a b : Int) :
    entBase sp P ⟨lo, hi, a + b⟩ = entBase sp P ⟨lo, hi, a⟩ + entBase sp P ⟨lo, hi, b⟩ := by
  simp only [entBase]; push_cast; ring

theorem entQuote_zero (sp : Int → Rat) (P : Rat) (x : Pos) (h : x.liq = 0) : entQuote sp P x = 0 := by
  simp [entQuote, h]

theorem entBase_zero (sp : Int → Rat) (P : Rat) (x : Pos) (h : x.liq = 0) : entBase sp P x = 0 := by
  simp [entBase, h]

/-- the entitlement of the part δ ≤ liq of a position is at most the position's entitlement -/
theorem entQuote_part_le {sp : Int → Rat} (hg : GridOK sp) (P : Rat) (x : Pos) (hlt : x.lo < x.hi) (δ : Int)
    (hδ : δ ≤ x.liq) : entQuote sp P ⟨x.lo, x.hi, δ⟩ ≤ entQuote sp P x := by
  have h := entQuote_sub sp P x δ
  have hn := entQuote_nonneg hg P { x with liq := x.liq - δ } (by show 0 ≤ x.liq - δ; omega) hlt
  linarith

theorem entBase_part_le {sp : Int → Rat} (hg : GridOK sp) (P : Rat) (x : Pos) (hlt : x.lo < x.hi) (δ : Int)
    (hδ : δ ≤ x.liq) : entBase sp P ⟨x.lo, x.hi, δ⟩ ≤ entBase sp P x := by
  have h := entBase_sub sp P x δ
  have hn := entBase_nonneg hg P { x with liq := x.liq - δ } (by show 0 ≤ x.liq - δ; omega) hlt
  linarith

/-- effect of the bookkeeping steps on the position list and the cursor -/
theorem book_add_pos (b : CLBook.St) (lo hi δ : Int) : (CLBook.step b (.add lo hi δ)).pos = ⟨lo, hi, δ⟩ :: b.pos := rfl
theorem book_add_tick (b : CLBook.St) (lo hi δ : Int) : (CLBook.step b (.add lo hi δ)).tick = b.tick := rfl

theorem book_decrease_pos (b : CLBook.St) (i : Nat) (δ : Int) (x : Pos) (hx : b.pos[i]? = some x) :
    (CLBook.step b (.decrease i δ)).pos = decAt b.pos i δ := by
  simp only [CLBook.step, hx, CLBook.applyDelta]

theorem book_decrease_tick (b : CLBook.St) (i : Nat) (δ : Int) : (CLBook.step b (.decrease i δ)).tick = b.tick := by
  simp only [CLBook.step]
  split <;> rfl

theorem sumR_add_quote (sp : Int → Rat) (P : Rat) (b : CLBook.St) (lo hi δ : Int) :
    sumR (entQuote sp P) (CLBook.step b (.add lo hi δ)).pos = sumR (entQuote sp P) b.pos + entQuote sp P ⟨lo, hi, δ⟩ := by
  rw [book_add_pos]; simp only [sumR]; ring

theorem sumR_add_base (sp : Int → Rat) (P : Rat) (b : CLBook.St) (lo hi δ : Int) :
    sumR (entBase sp P) (CLBook.step b (.add lo hi δ)).pos = sumR (entBase sp P) b.pos + entBase sp P ⟨lo, hi, δ⟩ := by
  rw [book_add_pos]; simp only [sumR]; ring

theorem sumR_decrease_quote (sp : Int → Rat) (P : Rat) (b : CLBook.St) (i : Nat) (δ : Int) (x : Pos)
    (hx : b.pos[i]? = some x) :
    sumR (entQuote sp P) (CLBook.step b (.decrease i δ)).pos
      = sumR (entQuote sp P) b.pos - entQuote sp P ⟨x.lo, x.hi, δ⟩ := by
  rw [book_decrease_pos b i δ x hx]
  exact sumR_decAt _ (entQuote_sub sp P) _ _ _ _ hx

theorem sumR_decrease_base (sp : Int → Rat) (P : Rat) (b : CLBook.St) (i : Nat) (δ : Int) (x : Pos)
    (hx : b.pos[i]? = some x) :
    sumR (entBase sp P) (CLBook.step b (.decrease i δ)).pos
      = sumR (entBase sp P) b.pos - entBase sp P ⟨x.lo, x.hi, δ⟩ := by
  rw [book_decrease_pos b i δ x hx]
  exact sumR_decAt _ (entBase_sub sp P) _ _ _ _ hx

-- ------------------------------------------------------------------------------------------------ 1c. the key lemma
/-- classification of a position w.r.t. a price move: either it is in range at both cursors and both prices lie inside
    its price interval, or it is out of range at both cursors and its clamped price does not change -/
def Classified (sp : Int → Rat) (P P' : Rat) (c c' : Int) (x : Pos) : Prop :=
  ((x.lo ≤ c ∧ c < x.hi) ∧ (x.lo ≤ c' ∧ c' < x.hi) ∧
      clamp P (sp x.lo) (sp x.hi) = P ∧ clamp P' (sp x.lo) (sp x.hi) = P') ∨
  (¬ (x.lo ≤ c ∧ c < x.hi) ∧ ¬ (x.lo ≤ c' ∧ c' < x.hi) ∧
      clamp P (sp x.lo) (sp x.hi) = clamp P' (sp x.lo) (sp x.hi))

theorem Classified.symm {sp : Int → Rat} {P P' : Rat} {c c' : Int} {x : Pos} (h : Classified sp P P' c c' x) :
    Classified sp P' P c' c x := by
  rcases h with ⟨a, b, e1, e2⟩ | ⟨a, b, e⟩
  · exact Or.inl ⟨b, a, e2, e1⟩
  · exact Or.inr ⟨b, a, e.symm⟩

/-- moving DOWN from (P, c) to (P', c') without passing a tick that bounds the position -/
theorem classified_down {sp : Int → Rat} (hg : GridOK sp) {P P' : Rat} {c c' : Int}
    (hP : priceInTick sp P c) (hP' : priceInTick sp P' c') (hle : P' ≤ P) (hc : c' ≤ c)
    (x : Pos) (hlt : x.lo < x.hi) (hlo : ¬ (c' < x.lo ∧ x.lo ≤ c)) (hhi : ¬ (c' < x.hi ∧ x.hi ≤ c)) :
    Classified sp P P' c c' x := by
  have hsle : sp x.lo ≤ sp x.hi := le_of_lt (hg.2 _ _ hlt)
  by_cases hin : x.lo ≤ c ∧ c < x.hi
  · -- in range: lo ≤ c' and c + 1 ≤ hi
    have h1 : x.lo ≤ c' := by omega
    have h2 : c + 1 ≤ x.hi := by omega
    have a1 : sp x.lo ≤ sp c' := sp_mono hg h1
    have a2 : sp (c + 1) ≤ sp x.hi := sp_mono hg h2
    refine Or.inl ⟨hin, ⟨h1, by omega⟩, clamp_mid ?_ ?_, clamp_mid ?_ ?_⟩
    · linarith [hP'.1]
    · linarith [hP.2]
    · linarith [hP'.1]
    · linarith [hP.2]
  · by_cases hbelow : x.hi ≤ c
    · -- below: hi ≤ c'
      have h1 : x.hi ≤ c' := by omega
      have a1 : sp x.hi ≤ sp c' := sp_mono hg h1
      refine Or.inr ⟨hin, by omega, ?_⟩
      rw [clamp_above hsle (by linarith [hP'.1]), clamp_above hsle (by linarith [hP'.1])]
    · -- above: c + 1 ≤ lo
      have h1 : c + 1 ≤ x.lo := by omega
      have a1 : sp (c + 1) ≤ sp x.lo := sp_mono hg h1
      refine Or.inr ⟨hin, by omega, ?_⟩
      rw [clamp_below hsle (by linarith [hP.2]), clamp_below hsle (by linarith [hP.2])]

/-- moving UP from (P, c) to (P', c') -/
theorem classified_up {sp : Int → Rat} (hg : GridOK sp) {P P' : Rat} {c c' : Int}
    (hP : priceInTick sp P c) (hP' : priceInTick sp P' c') (hle : P ≤ P') (hc : c ≤ c')
    (x : Pos) (hlt : x.lo < x.hi) (hlo : ¬ (c < x.lo ∧ x.lo ≤ c')) (hhi : ¬ (c < x.hi ∧ x.hi ≤ c')) :
    Classified sp P P' c c' x :=
  (classified_down hg hP' hP hle hc x hlt hlo hhi).symm

theorem entQuote_classified {sp : Int → Rat} {P P' : Rat} {c c' : Int} {x : Pos}
    (h : x.liq = 0 ∨ Classified sp P P' c c' x) :
    entQuote sp P x - entQuote sp P' x
      = (((if inRange c x then x.liq else 0 : Int)) : Rat) * ((P - P') / PRECQ) := by
  rcases h with hz | ⟨hin, _, e1, e2⟩ | ⟨hout, _, e⟩
  · simp [entQuote, hz]
  · simp only [entQuote, e1, e2, inRange, hin, and_self, decide_true, if_true]; ring
  · simp only [entQuote, e, inRange, hout, decide_false]; simp

theorem entBase_classified {sp : Int → Rat} {P P' : Rat} {c c' : Int} {x : Pos}
    (h : x.liq = 0 ∨ Classified sp P P' c c' x) :
    entBase sp P' x - entBase sp P x
      = (((if inRange c x then x.liq else 0 : Int)) : Rat) * ((1 / P' - 1 / P) / PRECQ) := by
  rcases h with hz | ⟨hin, _, e1, e2⟩ | ⟨hout, _, e⟩
  · simp [entBase, hz]
  · simp only [entBase, e1, e2, inRange, hin, and_self, decide_true, if_true]; ring
  · simp only [entBase, e, inRange, hout, decide_false]; simp

/-- a classified price move changes the summed quote entitlement by `active/PRECQ · (P − P')` -/
theorem move_quote (b : CLBook.St) (hI : CLBook.Inv b) (sp : Int → Rat) (P P' : Rat) (c' : Int)
    (hcl : ∀ x ∈ b.pos, x.liq = 0 ∨ Classified sp P P' b.tick c' x) :
    sumR (entQuote sp P) b.pos - sumR (entQuote sp P') b.pos = (b.active : Rat) / PRECQ * (P - P') := by
  rw [sumR_diff (entQuote sp P) (entQuote sp P') (inRange b.tick) ((P - P') / PRECQ) b.pos
        (fun x hx => entQuote_classified (hcl x hx)), ← hI.active_eq]
  ring

theorem move_base (b : CLBook.St) (hI : CLBook.Inv b) (sp : Int → Rat) (P P' : Rat) (c' : Int)
    (hcl : ∀ x ∈ b.pos, x.liq = 0 ∨ Classified sp P P' b.tick c' x) :
    sumR (entBase sp P') b.pos - sumR (entBase sp P) b.pos = (b.active : Rat) / PRECQ * (1 / P' - 1 / P) := by
  rw [sumR_diff (entBase sp P') (entBase sp P) (inRange b.tick) ((1 / P' - 1 / P) / PRECQ) b.pos
        (fun x hx => entBase_classified (hcl x hx)), ← hI.active_eq]
  ring

/-- every open position is classified by a downward move that passes no initialised tick -/
theorem classified_all_down (b : CLBook.St) (hI : CLBook.Inv b) {sp : Int → Rat} (hg : GridOK sp) {P P' : Rat} {c' : Int}
    (hP : priceInTick sp P b.tick) (hP' : priceInTick sp P' c') (hle : P' ≤ P) (hc : c' ≤ b.tick)
    (hfree : ∀ u, c' < u → u ≤ b.tick → b.gross u = 0) :
    ∀ x ∈ b.pos, x.liq = 0 ∨ Classified sp P P' b.tick c' x := by
  intro x hx
  by_cases hz : x.liq = 0
  · exact Or.inl hz
  · right
    have hw := (hI.wf x hx).2
    have hlo : ¬ (c' < x.lo ∧ x.lo ≤ b.tick) := by
      intro ⟨a, b'⟩
      rcases C04.gross_zero_elim b hI x.lo (hfree x.lo a b') x hx with h | h
      · exact hz h
      · exact h.1 rfl
    have hhi : ¬ (c' < x.hi ∧ x.hi ≤ b.tick) := by
      intro ⟨a, b'⟩
      rcases C04.gross_zero_elim b hI x.hi (hfree x.hi a b') x hx with h | h
      · exact hz h
      · exact h.2 rfl
    exact classified_down hg hP hP' hle hc x hw hlo hhi

theorem classified_all_up (b : CLBook.St) (hI : CLBook.Inv b) {sp : Int → Rat} (hg : GridOK sp) {P P' : Rat} {c' : Int}
    (hP : priceInTick sp P b.tick) (hP' : priceInTick sp P' c') (hle : P ≤ P') (hc : b.tick ≤ c')
    (hfree : ∀ u, b.tick < u → u ≤ c' → b.gross u = 0) :
    ∀ x ∈ b.pos, x.liq = 0 ∨ Classified sp P P' b.tick c' x := by
  intro x hx
  by_cases hz : x.liq = 0
  · exact Or.inl hz
  · right
    have hw := (hI.wf x hx).2
    have hlo : ¬ (b.tick < x.lo ∧ x.lo ≤ c') := by
      intro ⟨a, b'⟩
      rcases C04.gross_zero_elim b hI x.lo (hfree x.lo a b') x hx with h | h
      · exact hz h
      · exact h.1 rfl
    have hhi : ¬ (b.tick < x.hi ∧ x.hi ≤ c') := by
      intro ⟨a, b'⟩
      rcases C04.gross_zero_elim b hI x.hi (hfree x.hi a b') x hx with h | h
      · exact hz h
      · exact h.2 rfl
    exact classified_up hg hP hP' hle hc x hw hlo hhi

/-- with `c' ≤ tick` the `moveWithin c'` guard always yields its downward disjunct -/
theorem moveWithin_down {b : CLBook.St} {c' : Int} (hg : (CLBook.Op.moveWithin c').guard b) (hc : c' ≤ b.tick) :
    ∀ u, c' < u → u ≤ b.tick → b.gross u = 0 := by
  rcases hg with ⟨hle, _⟩ | ⟨_, hfree⟩
  · intro u h1 h2; omega
  · exact hfree

theorem moveWithin_up {b : CLBook.St} {c' : Int} (hg : (CLBook.Op.moveWithin c').guard b) (hc : b.tick ≤ c') :
    ∀ u, b.tick < u → u ≤ c' → b.gross u = 0 := by
  rcases hg with ⟨_, hfree⟩ | ⟨hle, _⟩
  · exact hfree
  · intro u h1 h2; omega

/-- THE KEY LEMMA, downward: price P → P' ≤ P, cursor tick → c' ≤ tick, no initialised tick passed -/
theorem move_down_quote (b : CLBook.St) (hI : CLBook.Inv b) {sp : Int → Rat} (hg : GridOK sp) {P P' : Rat} {c' : Int}
    (hP : priceInTick sp P b.tick) (hP' : priceInTick sp P' c') (hle : P' ≤ P) (hc : c' ≤ b.tick)
    (hmv : (CLBook.Op.moveWithin c').guard b) :
    sumR (entQuote sp P) b.pos - sumR (entQuote sp P') b.pos = (b.active : Rat) / PRECQ * (P - P') :=
  move_quote b hI sp P P' c' (classified_all_down b hI hg hP hP' hle hc (moveWithin_down hmv hc))

theorem move_down_base (b : CLBook.St) (hI : CLBook.Inv b) {sp : Int → Rat} (hg : GridOK sp) {P P' : Rat} {c' : Int}
    (hP : priceInTick sp P b.tick) (hP' : priceInTick sp P' c') (hle : P' ≤ P) (hc : c' ≤ b.tick)
    (hmv : (CLBook.Op.moveWithin c').guard b) :
    sumR (entBase sp P') b.pos - sumR (entBase sp P) b.pos = (b.active : Rat) / PRECQ * (1 / P' - 1 / P) :=
  move_base b hI sp P P' c' (classified_all_down b hI hg hP hP' hle hc (moveWithin_down hmv hc))

/-- THE KEY LEMMA, upward: price P → P' ≥ P, cursor tick → c' ≥ tick, no initialised tick passed -/
theorem move_up_quote (b : CLBook.St) (hI : CLBook.Inv b) {sp : Int → Rat} (hg : GridOK sp) {P P' : Rat} {c' : Int}
    (hP : priceInTick sp P b.tick) (hP' : priceInTick sp P' c') (hle : P ≤ P') (hc : b.tick ≤ c')
    (hmv : (CLBook.Op.moveWithin c').guard b) :
    sumR (entQuote sp P') b.pos - sumR (entQuote sp P) b.pos = (b.active : Rat) / PRECQ * (P' - P) := by
  have := move_quote b hI sp P P' c' (classified_all_up b hI hg hP hP' hle hc (moveWithin_up hmv hc))
  linarith

theorem move_up_base (b : CLBook.St) (hI : CLBook.Inv b) {sp : Int → Rat} (hg : GridOK sp) {P P' : Rat} {c' : Int}
    (hP : priceInTick sp P b.tick) (hP' : priceInTick sp P' c') (hle : P ≤ P') (hc : b.tick ≤ c')
    (hmv : (CLBook.Op.moveWithin c').guard b) :
    sumR (entBase sp P) b.pos - sumR (entBase sp P') b.pos = (b.active : Rat) / PRECQ * (1 / P - 1 / P') := by
  have := move_base b hI sp P P' c' (classified_all_up b hI hg hP hP' hle hc (moveWithin_up hmv hc))
  linarith

-- ------------------------------------------------------------------------------------------------ non-negative sums
theorem owed_nonneg_at {sp : Int → Rat} (hg : GridOK sp) (P : Rat) (b : CLBook.St) (hI : CLBook.Inv b) :
    0 ≤ sumR (entQuote sp P) b.pos ∧ 0 ≤ sumR (entBase sp P) b.pos :=
  ⟨sumR_nonneg _ _ (fun x hx => entQuote_nonneg hg P x (hI.wf x hx).1 (hI.wf x hx).2),
   sumR_nonneg _ _ (fun x hx => entBase_nonneg hg P x (hI.wf x hx).1 (hI.wf x hx).2)⟩

theorem owed_zero_of_closed (sp : Int → Rat) (P : Rat) (l : List Pos) (h : ∀ x ∈ l, x.liq = 0) :
    sumR (entQuote sp P) l = 0 ∧ sumR (entBase sp P) l = 0 :=
  ⟨sumR_zero _ _ (fun x hx => entQuote_zero sp P x (h x hx)), sumR_zero _ _ (fun x hx => entBase_zero sp P x (h x hx))⟩

-- ------------------------------------------------------------------------------------------------ 1. the invariant
theorem inv_init (sp : Int → Rat) (P : Rat) (c : Int) (hg : GridOK sp) (hP : 0 < P) (hin : priceInTick sp P c) :
    Inv (init sp P c) :=
  ⟨CLBook.Reachable.init c, hg, hP, hin, le_refl _,
   by simp [owedBase, init, CLBook.init, sumR], by simp [owedQuote, init, CLBook.init, sumR]⟩

theorem inv_step {s : St} {op : Op} (hI : Inv s) (hg : op.guard s) : Inv (step s op) := by
  have hbI := C04.inv_reachable s.book hI.book
  have hcB := hI.coverBase
  have hcQ := hI.coverQuote
  have hsl := hI.slackNN
  unfold owedBase at hcB
  unfold owedQuote at hcQ
  cases op with
  | deposit lo hi δ ab aq e =>
    obtain ⟨hb, he, _, h1, h2⟩ := hg
    have hb' : (CLBook.Op.add lo hi δ).guard s.book := hb
    refine ⟨CLBook.Reachable.step _ hI.book hb', hI.grid, hI.ppos, hI.inTick, ?_, ?_, ?_⟩
    · show 0 ≤ s.slack + e
      linarith
    · show sumR (entBase s.sp s.P) (CLBook.step s.book (.add lo hi δ)).pos ≤ s.base + ab + (s.slack + e)
      rw [sumR_add_base]; linarith
    · show sumR (entQuote s.sp s.P) (CLBook.step s.book (.add lo hi δ)).pos ≤ s.quote + aq + (s.slack + e)
      rw [sumR_add_quote]; linarith
  | withdraw i δ ab aq e =>
    obtain ⟨hb, he, _, x, hx, h1, h2⟩ := hg
    have hb' : (CLBook.Op.decrease i δ).guard s.book := hb
    refine ⟨CLBook.Reachable.step _ hI.book hb', hI.grid, hI.ppos, ?_, ?_, ?_, ?_⟩
    · show priceInTick s.sp s.P (CLBook.step s.book (.decrease i δ)).tick
      rw [book_decrease_tick]; exact hI.inTick
    · show 0 ≤ s.slack + e
      linarith
    · show sumR (entBase s.sp s.P) (CLBook.step s.book (.decrease i δ)).pos ≤ s.base - ab + (s.slack + e)
      rw [sumR_decrease_base _ _ _ _ _ x hx]; linarith
    · show sumR (entQuote s.sp s.P) (CLBook.step s.book (.decrease i δ)).pos ≤ s.quote - aq + (s.slack + e)
      rw [sumR_decrease_quote _ _ _ _ _ x hx]; linarith
  | swapDown P' c' ain aout e =>
    obtain ⟨hb, he, hP', hle, hc, hin', h1, h2⟩ := hg
    have hb' : (CLBook.Op.moveWithin c').guard s.book := hb
    have mq := move_down_quote s.book hbI hI.grid hI.inTick hin' hle hc hb'
    have mb := move_down_base s.book hbI hI.grid hI.inTick hin' hle hc hb'
    refine ⟨CLBook.Reachable.step _ hI.book hb', hI.grid, hP', hin', ?_, ?_, ?_⟩
    · show 0 ≤ s.slack + e
      linarith
    · show sumR (entBase s.sp P') s.book.pos ≤ s.base + ain + (s.slack + e)
      linarith
    · show sumR (entQuote s.sp P') s.book.pos ≤ s.quote - aout + (s.slack + e)
      linarith
  | swapUp P' c' ain aout e =>
    obtain ⟨hb, he, hP, hle, hc, hin', h1, h2⟩ := hg
    have hb' : (CLBook.Op.moveWithin c').guard s.book := hb
    have mq := move_up_quote s.book hbI hI.grid hI.inTick hin' hle hc hb'
    have mb := move_up_base s.book hbI hI.grid hI.inTick hin' hle hc hb'
    refine ⟨CLBook.Reachable.step _ hI.book hb', hI.grid, lt_of_lt_of_le hP hle, hin', ?_, ?_, ?_⟩
    · show 0 ≤ s.slack + e
      linarith
    · show sumR (entBase s.sp P') s.book.pos ≤ s.base - aout + (s.slack + e)
      linarith
    · show sumR (entQuote s.sp P') s.book.pos ≤ s.quote + ain + (s.slack + e)
      linarith
  | crossDown t =>
    obtain ⟨hb, hPt⟩ := hg
    have hb' : (CLBook.Op.crossDown t).guard s.book := hb
    have hPt' : s.P = s.sp t := hPt
    refine ⟨CLBook.Reachable.step _ hI.book hb', hI.grid, hI.ppos, ?_, hsl, hcB, hcQ⟩
    show priceInTick s.sp s.P (t - 1)
    rw [hPt']
    refine ⟨sp_mono hI.grid (by omega), ?_⟩
    rw [Int.sub_add_cancel]
  | crossUp t =>
    obtain ⟨hb, hPt⟩ := hg
    have hb' : (CLBook.Op.crossUp t).guard s.book := hb
    have hPt' : s.P = s.sp t := hPt
    refine ⟨CLBook.Reachable.step _ hI.book hb', hI.grid, hI.ppos, ?_, hsl, hcB, hcQ⟩
    show priceInTick s.sp s.P t
    rw [hPt']
    exact ⟨le_refl _, sp_mono hI.grid (by omega)⟩
  | setPrice P c =>
    obtain ⟨hb, hP, hin', hcl⟩ := hg
    have hb' : (CLBook.Op.moveWithin c).guard s.book := hb
    have z := owed_zero_of_closed s.sp s.P s.book.pos hcl
    have z' := owed_zero_of_closed s.sp P s.book.pos hcl
    refine ⟨CLBook.Reachable.step _ hI.book hb', hI.grid, hP, hin', hsl, ?_, ?_⟩
    · show sumR (entBase s.sp P) s.book.pos ≤ s.base + s.slack
      rw [z'.2]; rw [z.2] at hcB; exact hcB
    · show sumR (entQuote s.sp P) s.book.pos ≤ s.quote + s.slack
      rw [z'.1]; rw [z.1] at hcQ; exact hcQ
  | keep rb rq =>
    obtain ⟨_, hrb, hrq⟩ := hg
    refine ⟨hI.book, hI.grid, hI.ppos, hI.inTick, hsl, ?_, ?_⟩
    · show sumR (entBase s.sp s.P) s.book.pos ≤ s.base + rb + s.slack
      linarith
    · show sumR (entQuote s.sp s.P) s.book.pos ≤ s.quote + rq + s.slack
      linarith

/-- C02 custody: the invariant holds in every reachable state -/
theorem inv_reachable {s : St} (h : Reachable s) : Inv s := by
  induction h with
  | init sp P c hg hP hin => exact inv_init sp P c hg hP hin
  | step op _ hg ih => exact inv_step ih hg

-- ------------------------------------------------------------------------------------------------ 5. headline
/-- in every reachable state the pool account covers the exact entitlement of all open positions, up to the accumulated
    rounding slack -/
theorem reachable_cover (s : St) (h : Reachable s) :
    owedBase s ≤ s.base + s.slack ∧ owedQuote s ≤ s.quote + s.slack :=
  ⟨(inv_reachable h).coverBase, (inv_reachable h).coverQuote⟩

-- ------------------------------------------------------------------------------------------------ 2. withdrawals
/-- what a guarded withdrawal pays out is covered by the balance, the accumulated slack and its own rounding error -/
theorem withdraw_covered {s : St} {i : Nat} {δ : Int} {ab aq e : Rat} (hI : Inv s)
    (hg : (Op.withdraw i δ ab aq e).guard s) : ab ≤ s.base + s.slack + e ∧ aq ≤ s.quote + s.slack + e := by
  have hbI := C04.inv_reachable s.book hI.book
  obtain ⟨hb, he, _, x, hx, h1, h2⟩ := hg
  have hb' : (CLBook.Op.decrease i δ).guard s.book := hb
  obtain ⟨y, hy, _, hδ⟩ := hb'
  have hxy : y = x := by rw [hx] at hy; exact (Option.some.inj hy).symm
  subst hxy
  have hmem := C04.mem_of_getElem? hx
  have hw := hbI.wf y hmem
  have b1 := entBase_part_le hI.grid s.P y hw.2 δ hδ
  have q1 := entQuote_part_le hI.grid s.P y hw.2 δ hδ
  have b2 := sumR_mem_le (entBase s.sp s.P) s.book.pos
    (fun z hz => entBase_nonneg hI.grid s.P z (hbI.wf z hz).1 (hbI.wf z hz).2) y hmem
  have q2 := sumR_mem_le (entQuote s.sp s.P) s.book.pos
    (fun z hz => entQuote_nonneg hI.grid s.P z (hbI.wf z hz).1 (hbI.wf z hz).2) y hmem
  have hcB := hI.coverBase
  have hcQ := hI.coverQuote
  unfold owedBase at hcB
  unfold owedQuote at hcQ
  exact ⟨by linarith, by linarith⟩

/-- an integer amount bounded by an integer balance plus less than one coin is bounded by the balance -/
theorem int_le_of_lt_one {a b : Int} {r : Rat} (h : (a : Rat) ≤ (b : Rat) + r) (hr : r < 1) : a ≤ b := by
  have h1 : (a : Rat) < ((b + 1 : Int) : Rat) := by push_cast; linarith
  have h2 : a < b + 1 := Int.cast_lt.mp h1
  omega

/-- while the accumulated rounding slack stays below one coin, a withdrawal can always be paid from the pool account -/
theorem withdraw_payable {s : St} {i : Nat} {δ : Int} {ab aq e : Rat} (hI : Inv s)
    (hg : (Op.withdraw i δ ab aq e).guard s) (hs : s.slack + e < 1) :
    (∀ abz bz : Int, ab = (abz : Rat) → s.base = (bz : Rat) → abz ≤ bz) ∧
    (∀ aqz qz : Int, aq = (aqz : Rat) → s.quote = (qz : Rat) → aqz ≤ qz) := by
  obtain ⟨h1, h2⟩ := withdraw_covered hI hg
  constructor
  · intro abz bz ea eb
    rw [ea, eb] at h1
    exact int_le_of_lt_one (r := s.slack + e) (by linarith) hs
  · intro aqz qz ea eb
    rw [ea, eb] at h2
    exact int_le_of_lt_one (r := s.slack + e) (by linarith) hs

-- ------------------------------------------------------------------------------------------------ 3. swap outputs
/-- the exact output of a downward swap step is at most what all positions are owed in quote -/
theorem swapDown_exact_le_owed {s : St} {P' : Rat} {c' : Int} {ain aout e : Rat} (hI : Inv s)
    (hg : (Op.swapDown P' c' ain aout e).guard s) :
    (s.book.active : Rat) / PRECQ * (s.P - P') ≤ owedQuote s := by
  have hbI := C04.inv_reachable s.book hI.book
  obtain ⟨hb, he, hP', hle, hc, hin', h1, h2⟩ := hg
  have hb' : (CLBook.Op.moveWithin c').guard s.book := hb
  have mq := move_down_quote s.book hbI hI.grid hI.inTick hin' hle hc hb'
  have nn := (owed_nonneg_at hI.grid P' s.book hbI).1
  unfold owedQuote
  linarith

theorem swapUp_exact_le_owed {s : St} {P' : Rat} {c' : Int} {ain aout e : Rat} (hI : Inv s)
    (hg : (Op.swapUp P' c' ain aout e).guard s) :
    (s.book.active : Rat) / PRECQ * (1 / s.P - 1 / P') ≤ owedBase s := by
  have hbI := C04.inv_reachable s.book hI.book
  obtain ⟨hb, he, hP, hle, hc, hin', h1, h2⟩ := hg
  have hb' : (CLBook.Op.moveWithin c').guard s.book := hb
  have mb := move_up_base s.book hbI hI.grid hI.inTick hin' hle hc hb'
  have nn := (owed_nonneg_at hI.grid P' s.book hbI).2
  unfold owedBase
  linarith

/-- what a guarded swap step pays out is covered by the balance, the accumulated slack and its own rounding error -/
theorem swap_out_covered {s : St} (hI : Inv s) :
    (∀ (P' : Rat) (c' : Int) (ain aout e : Rat), (Op.swapDown P' c' ain aout e).guard s →
        aout ≤ s.quote + s.slack + e) ∧
    (∀ (P' : Rat) (c' : Int) (ain aout e : Rat), (Op.swapUp P' c' ain aout e).guard s →
        aout ≤ s.base + s.slack + e) := by
  constructor
  · intro P' c' ain aout e hg
    have h := swapDown_exact_le_owed hI hg
    have hc := hI.coverQuote
    obtain ⟨_, _, _, _, _, _, _, h2⟩ := hg
    linarith
  · intro P' c' ain aout e hg
    have h := swapUp_exact_le_owed hI hg
    have hc := hI.coverBase
    obtain ⟨_, _, _, _, _, _, _, h2⟩ := hg
    linarith

/-- integer corollary: while the slack stays below one coin an integer swap output never exceeds an integer balance -/
theorem swap_out_payable {s : St} (hI : Inv s) :
    (∀ (P' : Rat) (c' : Int) (ain aout e : Rat) (oz qz : Int), (Op.swapDown P' c' ain aout e).guard s →
        s.slack + e < 1 → aout = (oz : Rat) → s.quote = (qz : Rat) → oz ≤ qz) ∧
    (∀ (P' : Rat) (c' : Int) (ain aout e : Rat) (oz bz : Int), (Op.swapUp P' c' ain aout e).guard s →
        s.slack + e < 1 → aout = (oz : Rat) → s.base = (bz : Rat) → oz ≤ bz) := by
  constructor
  · intro P' c' ain aout e oz qz hg hs ea eb
    have h := (swap_out_covered hI).1 P' c' ain aout e hg
    rw [ea, eb] at h
    exact int_le_of_lt_one (r := s.slack + e) (by linarith) hs
  · intro P' c' ain aout e oz bz hg hs ea eb
    have h := (swap_out_covered hI).2 P' c' ain aout e hg
    rw [ea, eb] at h
    exact int_le_of_lt_one (r := s.slack + e) (by linarith) hs

-- ------------------------------------------------------------------------------------------------ 4. drained pool
/-- once every position has been fully withdrawn, what is left in the pool account is non-negative up to the slack -/
theorem drained_nonneg (s : St) (h : Reachable s) (hc : ∀ x ∈ s.book.pos, x.liq = 0) :
    0 ≤ s.base + s.slack ∧ 0 ≤ s.quote + s.slack := by
  have hI := inv_reachable h
  have z := owed_zero_of_closed s.sp s.P s.book.pos hc
  have hcB := hI.coverBase
  have hcQ := hI.coverQuote
  unfold owedBase at hcB
  unfold owedQuote at hcQ
  rw [z.2] at hcB
  rw [z.1] at hcQ
  exact ⟨hcB, hcQ⟩

-- ------------------------------------------------------------------------------------------------ 6. non-vacuity
/-- an example grid: 1 + t for t ≥ 0, 1/(1 − t) below -/
def gsp (t : Int) : Rat := if 0 ≤ t then 1 + (t : Rat) else 1 / (1 - (t : Rat))

theorem gsp_ok : GridOK gsp := by
  constructor
  · intro t
    unfold gsp
    split_ifs with h
    · have : (0 : Rat) ≤ (t : Rat) := Int.cast_nonneg h
      linarith
    · have : (t : Rat) < 0 := by exact_mod_cast (not_le.mp h)
      apply one_div_pos.mpr; linarith
  · intro a b hab
    have hab' : (a : Rat) < (b : Rat) := Int.cast_lt.mpr hab
    unfold gsp
    split_ifs with h1 h2 h2
    · linarith
    · omega
    · have ha : (a : Rat) < 0 := by exact_mod_cast (not_le.mp h1)
      have hb : (0 : Rat) ≤ (b : Rat) := Int.cast_nonneg h2
      have : 1 / (1 - (a : Rat)) < 1 := by
        rw [div_lt_one (by linarith)]; linarith
      linarith
    · have hb : (b : Rat) < 0 := by exact_mod_cast (not_le.mp h2)
      exact one_div_lt_one_div_of_lt (by linarith) (by linarith)

def s0 : St := init gsp (7/2) 2
def s1 : St := step s0 (.deposit 1 4 2000000000000000000 1 3 0)
def s2 : St := step s1 (.swapDown (5/2) 1 1 2 0)
def s3 : St := step s2 (.withdraw 0 1000000000000000000 0 0 (1/1000000000000000000))

theorem r0 : Reachable s0 := Reachable.init gsp (7/2) 2 gsp_ok (by norm_num) (by unfold priceInTick gsp; norm_num)

theorem r1 : Reachable s1 := by
  refine Reachable.step _ r0 ?_
  refine ⟨⟨by decide, by decide⟩, le_refl _, ?_, ?_, ?_⟩
  · show (0:Rat) < 7/2; norm_num
  · show entBase gsp (7/2) ⟨1, 4, 2000000000000000000⟩ ≤ 1 + 0
    norm_num [entBase, clamp, gsp, PRECQ]
  · show entQuote gsp (7/2) ⟨1, 4, 2000000000000000000⟩ ≤ 3 + 0
    norm_num [entQuote, clamp, gsp, PRECQ]

theorem s1_book : s1.book = CLBook.step (CLBook.init 2) (.add 1 4 2000000000000000000) := rfl

theorem r2 : Reachable s2 := by
  refine Reachable.step _ r1 ?_
  refine ⟨?_, le_refl _, ?_, ?_, ?_, ?_, ?_, ?_⟩
  · show (CLBook.Op.moveWithin 1).guard s1.book
    right
    refine ⟨by decide, ?_⟩
    intro u h1 h2
    have hu : u = 2 := by
      have : s1.book.tick = 2 := rfl
      omega
    subst hu
    simp [s1_book, CLBook.step, CLBook.applyDelta, CLBook.init]
  · show (0:Rat) < 5/2; norm_num
  · show (5/2 : Rat) ≤ 7/2; norm_num
  · show (1 : Int) ≤ 2; decide
  · show priceInTick gsp (5/2) 1
    unfold priceInTick gsp; norm_num
  · show ((2000000000000000000 : Int) : Rat) / PRECQ * (1 / (5/2) - 1 / (7/2)) ≤ 1 + 0
    norm_num [PRECQ]
  · show (2 : Rat) ≤ ((2000000000000000000 : Int) : Rat) / PRECQ * (7/2 - 5/2) + 0
    norm_num [PRECQ]

theorem r3 : Reachable s3 := by
  refine Reachable.step _ r2 ?_
  refine ⟨⟨⟨1, 4, 2000000000000000000⟩, rfl, by decide, by decide⟩, by norm_num, ?_,
    ⟨1, 4, 2000000000000000000⟩, rfl, ?_, ?_⟩
  · show (0:Rat) < 5/2; norm_num
  · show (0 : Rat) ≤ entBase gsp (5/2) ⟨1, 4, 1000000000000000000⟩ + 1/1000000000000000000
    norm_num [entBase, clamp, gsp, PRECQ]
  · show (0 : Rat) ≤ entQuote gsp (5/2) ⟨1, 4, 1000000000000000000⟩ + 1/1000000000000000000
    norm_num [entQuote, clamp, gsp, PRECQ]

/-- non-vacuity: the invariant (and with it every corollary) applies to this history -/
example : Inv s3 := inv_reachable r3

example : owedQuote s3 = 1/2 ∧ s3.quote = 1 ∧ owedBase s3 = 1/5 ∧ s3.base = 2 := by
  refine ⟨?_, ?_, ?_, ?_⟩
  · show sumR (entQuote gsp (5/2)) (decAt [⟨1, 4, 2000000000000000000⟩] 0 1000000000000000000) = 1/2
    norm_num [sumR, decAt, entQuote, clamp, gsp, PRECQ]
  · show (0:Rat) + 3 - 2 - 0 = 1; norm_num
  · show sumR (entBase gsp (5/2)) (decAt [⟨1, 4, 2000000000000000000⟩] 0 1000000000000000000) = 1/5
    norm_num [sumR, decAt, entBase, clamp, gsp, PRECQ]
  · show (0:Rat) + 1 + 1 - 0 = 2; norm_num

end Sunrise.C02Custody

#print axioms Sunrise.C02Custody.inv_reachable
#print axioms Sunrise.C02Custody.withdraw_covered
#print axioms Sunrise.C02Custody.withdraw_payable
#print axioms Sunrise.C02Custody.swap_out_covered
#print axioms Sunrise.C02Custody.drained_nonneg
#print axioms Sunrise.C02Custody.reachable_cover
#print axioms Sunrise.C02Custody.r3
