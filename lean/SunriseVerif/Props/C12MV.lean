import SunriseVerif.Lemmas.LockupMV
/-!
C12 for SEVERAL validators — the invariant and the headline theorems of `Props/C12.lean` / `Props/C12Full.lean`, lifted to
`Model/LockupMV.lean` (per-validator unbonding records walked in key order, one share token per validator, global trackers):
`inv_step`, `inv_run`, `outflow_bound`, `tracked_le_actual` over ALL operation lists (any number of validators, any
interleaving of the fourteen operations), `owner_only`, and `mv_refines_single` (with the one validator `v0` the model is
`Model/Lockup.lean`).  The kernel theorems of `Props/C12.lean` are reused as they are (same regenerated kernels).
-/
set_option linter.unusedSimpArgs false
set_option linter.unusedVariables false
namespace Sunrise.C12MV
open Sunrise Sunrise.LockupMV
open Sunrise.Lockup (Variant Entry Unb Ext fee bond lock shareD scMod stakingPool proxyOf sumUnb sumEntries addEntry claim
  releaseUbds lockedAt lockInfo notBondedLocked kUndelReject checkSender trackDelegation trackUndelegation)
open Sunrise.C12 (extOk UnbNonneg claim_bal credit2_ge sumUnb_append sumUnb_nonneg sumEntries_addEntry head_addEntry
  trackDel_facts trackUndel_facts convReverse_other convert_other proxyOf_cases proxyOf_lock proxyOf_other lockedAt_le_ol
  checkSender_iff)

/-! ### the invariant -/

def lockedT (s : St) (t : Int) : Res Int := lockedAt s.variant s.OL s.startT s.endT t

structure Inv (s : St) : Prop where
  ol0 : 0 ≤ s.OL
  ut0 : 0 ≤ s.ut
  dv0 : 0 ≤ s.DV
  df0 : 0 ≤ s.DF
  bL0 : 0 ≤ s.bank.bal lock fee
  /-- the account's share tokens of every validator -/
  bS0 : ∀ v, 0 ≤ s.bank.bal lock (shareOf v)
  bP0 : 0 ≤ s.bank.bal "plock" bond
  st0 : 0 ≤ s.stake "plock"
  nodup : s.vals.Nodup
  ubd0 : ∀ u ∈ s.ubds, 0 ≤ u.amount ∧ (u.who = "plock" ∨ u.who = "pown")
  sc0 : ∀ u ∈ s.scUnb, 0 ≤ u.amount ∧ u.who = lock
  /-- (A) the account's own fee balance covers what is locked and not tracked as delegated, now and later -/
  cover : s.created = true → ∀ t l, s.now ≤ t → lockedT s t = .ok l → l - s.DV ≤ s.bank.bal lock fee
  /-- (B) tracked_le_actual -/
  tracked : s.DV + s.DF ≤ actualDelegated s
  /-- (B') non-voting: while NO validator's first recorded entry has matured, the tracked amounts are still staked or unbonding -/
  liveNv : s.variant = .nv → blocked s = false → s.DV + s.DF ≤ sumShares s.bank s.vals + sumUnb lock s.scUnb
  /-- every pending shareclass unbonding is not older than the first recorded entry of SOME validator (its own) … -/
  scHead : ∀ u ∈ s.scUnb, ∃ p ∈ s.entries, ∃ h, p.2.head? = some h ∧ h.endT ≤ u.completion
  /-- … and no validator's first entry ends later than now + ut -/
  headUt : ∀ p ∈ s.entries, ∀ h, p.2.head? = some h → h.endT ≤ s.now + s.ut
  /-- (C) the outflow bound -/
  cust : s.created = true → ∀ t l, s.now ≤ t → lockedT s t = .ok l → l ≤ custody s
  pre : s.created = false → s.scUnb = []

/-- well-formed inputs, as in `C12.OpOk` (third parties outside the custody set, non-negative boundary rewards, share price 1) -/
def OpOk : Op → Prop
  | .init _ funder _ _ _ _ _ _ => funder ≠ lock
  | .deposit src _ _ _ => src ≠ lock ∧ src ≠ "plock"
  | .nvDelegate _ _ _ _ amt e => extOk e ∧ e.share = amt
  | .nvUndelegate _ _ _ _ amt e => extOk e ∧ e.share = amt
  | .nvWithdrawReward _ _ e => extOk e
  | .sdSelfDelegate _ _ _ e => extOk e
  | .pxUndelegate _ _ _ _ e => extOk e
  | .pxWithdrawReward _ _ _ e => extOk e
  | .modSelfDelegate d _ e => d ≠ lock ∧ extOk e
  | .modWithdraw d _ => d ≠ lock
  | _ => True

theorem ubdNonneg {s : St} (h : Inv s) : UnbNonneg s.ubds := fun u hu => (h.ubd0 u hu).1
theorem scNonneg {s : St} (h : Inv s) : UnbNonneg s.scUnb := fun u hu => (h.sc0 u hu).1

theorem lockedT_range {s : St} (h : Inv s) {t l : Int} (hl : lockedT s t = .ok l) : 0 ≤ l ∧ l ≤ s.OL :=
  lockedAt_range _ _ _ _ _ _ h.ol0 hl

theorem lockedT_antitone {s : St} (h : Inv s) {t1 t2 l1 l2 : Int} (h12 : t1 ≤ t2)
    (hl1 : lockedT s t1 = .ok l1) (hl2 : lockedT s t2 = .ok l2) : l2 ≤ l1 :=
  lockedAt_antitone _ _ _ _ _ _ _ _ h.ol0 h12 hl1 hl2

theorem blocked_nv_false {s : St} (hv : s.variant = .nv) :
    blocked s = false ↔ ∀ p ∈ s.entries, ∀ h, p.2.head? = some h → s.now < h.endT := by
  unfold blocked
  rw [blockedEntries_false, hv]
  constructor
  · intro h p hp; exact blockedList_nv_false.1 (h p hp)
  · intro h p hp; exact blockedList_nv_false.2 (h p hp)

/-! ### preservation, handler by handler -/

/-- ops that only add to the fee balance and the share tokens of the account and to the bond balance of its proxy, and touch
    nothing else of the lockup -/
theorem inv_mono {s s' : St} (hI : Inv s)
    (e1 : s'.variant = s.variant) (e2 : s'.created = s.created) (e3 : s'.OL = s.OL) (e4 : s'.startT = s.startT)
    (e5 : s'.endT = s.endT) (e6 : s'.DV = s.DV) (e7 : s'.DF = s.DF) (e8 : s'.entries = s.entries)
    (e9 : s'.ubds = s.ubds) (e10 : s'.scUnb = s.scUnb) (e11 : s'.now = s.now) (e12 : s'.ut = s.ut)
    (e13 : s'.stake "plock" = s.stake "plock") (e14 : s'.vals = s.vals)
    (h1 : s.bank.bal lock fee ≤ s'.bank.bal lock fee)
    (h2 : ∀ v, s.bank.bal lock (shareOf v) ≤ s'.bank.bal lock (shareOf v))
    (h3 : s.bank.bal "plock" bond ≤ s'.bank.bal "plock" bond) : Inv s' := by
  have hL : ∀ t, lockedT s' t = lockedT s t := by intro t; unfold lockedT; rw [e1, e3, e4, e5]
  have hB : blocked s' = blocked s := by unfold blocked; rw [e8, e11, e1]
  have hS : sumShares s.bank s.vals ≤ sumShares s'.bank s'.vals := by
    rw [e14]; exact sumShares_mono _ _ _ h2
  have hC : custody s ≤ custody s' := by
    unfold custody; rw [e1, e9, e10, e13]; cases s.variant <;> simp only <;> omega
  have hA : actualDelegated s ≤ actualDelegated s' := by
    unfold actualDelegated; rw [e1, e9, e8, e13]; cases s.variant <;> simp only <;> omega
  constructor
  · rw [e3]; exact hI.ol0
  · rw [e12]; exact hI.ut0
  · rw [e6]; exact hI.dv0
  · rw [e7]; exact hI.df0
  · have := hI.bL0; omega
  · intro v; have := hI.bS0 v; have := h2 v; omega
  · have := hI.bP0; omega
  · rw [e13]; exact hI.st0
  · rw [e14]; exact hI.nodup
  · rw [e9]; exact hI.ubd0
  · rw [e10]; exact hI.sc0
  · intro hc t l ht hl
    rw [e2] at hc; rw [e11] at ht; rw [hL] at hl; rw [e6]
    have := hI.cover hc t l ht hl; omega
  · rw [e6, e7]; have := hI.tracked; omega
  · intro hv hb
    rw [e1] at hv; rw [hB] at hb; rw [e6, e7, e10]
    have := hI.liveNv hv hb; omega
  · rw [e10, e8]; exact hI.scHead
  · rw [e8, e11, e12]; exact hI.headUt
  · intro hc t l ht hl
    rw [e2] at hc; rw [e11] at ht; rw [hL] at hl
    have := hI.cust hc t l ht hl; omega
  · intro hc; rw [e2] at hc; rw [e10]; exact hI.pre hc

theorem inv_deposit {s s' : St} {src dst : Addr} {d : Denom} {x : Int} (hI : Inv s) (ho : src ≠ lock ∧ src ≠ "plock")
    (h : LockupMV.apply s (.deposit src dst d x) = .ok s') : Inv s' := by
  simp only [LockupMV.apply] at h
  obtain ⟨b, hb, h⟩ := Bank.bind_ok h
  obtain ⟨xpos, hdis, hsend⟩ := msgSend_bal hb
  obtain ⟨_, _, eb⟩ := Bank.send_ok hsend
  simp only [Res.ok.injEq] at h
  subst h eb
  refine inv_mono hI rfl rfl rfl rfl rfl rfl rfl rfl rfl rfl rfl rfl rfl rfl ?_ ?_ ?_
  · show s.bank.bal lock fee ≤ ((s.bank.credit src d (-x)).credit dst d x).bal lock fee
    exact credit2_ge _ _ _ _ _ _ _ (by omega) (fun c => ho.1 c.1.symm)
  · intro v
    show s.bank.bal lock (shareOf v) ≤ ((s.bank.credit src d (-x)).credit dst d x).bal lock (shareOf v)
    exact credit2_ge _ _ _ _ _ _ _ (by omega) (fun c => ho.1 c.1.symm)
  · show s.bank.bal "plock" bond ≤ ((s.bank.credit src d (-x)).credit dst d x).bal "plock" bond
    exact credit2_ge _ _ _ _ _ _ _ (by omega) (fun c => ho.2 c.1.symm)

theorem proxyOf_ne_lock (d : Addr) : proxyOf d ≠ lock := by unfold proxyOf lock; split <;> decide

theorem inv_pxSend {s s' : St} {d c sd dst : Addr} {dn : Denom} {x : Int} (hI : Inv s)
    (h : doPxSend s d c sd dst dn x = .ok s') : Inv s' := by
  simp only [doPxSend] at h
  split at h; · simp at h
  split at h; · simp at h
  obtain ⟨b, hb, h⟩ := Bank.bind_ok h
  obtain ⟨xpos, hdis, hsend⟩ := msgSend_bal hb
  obtain ⟨_, _, eb⟩ := Bank.send_ok hsend
  simp only [Res.ok.injEq] at h
  subst h eb
  have hd2 : dn ≠ bond := (sendDisabled_false hdis).1
  have hp := proxyOf_ne_lock d
  refine inv_mono hI rfl rfl rfl rfl rfl rfl rfl rfl rfl rfl rfl rfl rfl rfl ?_ ?_ ?_
  · show s.bank.bal lock fee ≤ ((s.bank.credit (proxyOf d) dn (-x)).credit dst dn x).bal lock fee
    exact credit2_ge _ _ _ _ _ _ _ (by omega) (fun c => hp c.1.symm)
  · intro v
    show s.bank.bal lock (shareOf v) ≤ ((s.bank.credit (proxyOf d) dn (-x)).credit dst dn x).bal lock (shareOf v)
    exact credit2_ge _ _ _ _ _ _ _ (by omega) (fun c => hp c.1.symm)
  · show s.bank.bal "plock" bond ≤ ((s.bank.credit (proxyOf d) dn (-x)).credit dst dn x).bal "plock" bond
    exact credit2_ge _ _ _ _ _ _ _ (by omega) (fun c => hd2 c.2.symm)

theorem claim_share (b : Bank) (w : Addr) (e : Ext) (a : Addr) (v : Addr) :
    (claim b w e).bal a (shareOf v) = b.bal a (shareOf v) := by
  rw [claim_bal]
  have h1 := shareOf_ne_fee v
  have h2 := shareOf_ne_bond v
  simp [h1, h2]

theorem inv_nvWithdrawReward {s s' : St} {c sd : Addr} {e : Ext} (hI : Inv s) (he : extOk e)
    (h : doNvWithdrawReward s c sd e = .ok s') : Inv s' := by
  simp only [doNvWithdrawReward] at h
  split at h; · simp at h
  split at h; · simp at h
  split at h; · simp at h
  simp only [Res.ok.injEq] at h
  subst h
  refine inv_mono hI rfl rfl rfl rfl rfl rfl rfl rfl rfl rfl rfl rfl rfl rfl ?_ ?_ ?_
  · show s.bank.bal lock fee ≤ (claim s.bank lock e).bal lock fee
    rw [claim_bal]; simp [fee, bond]
    try exact he.1
  · intro v
    show s.bank.bal lock (shareOf v) ≤ (claim s.bank lock e).bal lock (shareOf v)
    rw [claim_share]
  · show s.bank.bal "plock" bond ≤ (claim s.bank lock e).bal "plock" bond
    rw [claim_bal]; simp [lock]

theorem inv_pxWithdrawReward {s s' : St} {d c sd : Addr} {e : Ext} (hI : Inv s) (he : extOk e)
    (h : doPxWithdrawReward s d c sd e = .ok s') : Inv s' := by
  simp only [doPxWithdrawReward] at h
  split at h; · simp at h
  split at h; · simp at h
  split at h; · simp at h
  simp only [Res.ok.injEq] at h
  subst h
  have hp := proxyOf_ne_lock d
  refine inv_mono hI rfl rfl rfl rfl rfl rfl rfl rfl rfl rfl rfl rfl rfl rfl ?_ ?_ ?_
  · show s.bank.bal lock fee ≤ (claim s.bank (proxyOf d) e).bal lock fee
    rw [claim_bal]; simp [Ne.symm hp]
  · intro v
    show s.bank.bal lock (shareOf v) ≤ (claim s.bank (proxyOf d) e).bal lock (shareOf v)
    rw [claim_share]
  · show s.bank.bal "plock" bond ≤ (claim s.bank (proxyOf d) e).bal "plock" bond
    rw [claim_bal]; simp [fee, bond]
    have := he.2
    split <;> omega

theorem inv_block {s s' : St} {t : Int} (hI : Inv s) (h : doBlock s t = .ok s') : Inv s' := by
  simp only [doBlock] at h
  split at h; · simp at h
  rename_i hmono
  have hR := release_facts t s.ubds s.bank (fun u hu => (hI.ubd0 u hu).2) (ubdNonneg hI)
  simp only at hR
  generalize hrel : releaseUbds s.bank t s.ubds = rel at h hR
  obtain ⟨b1, ub⟩ := rel
  simp only at h hR
  obtain ⟨r1, r3, r4, r5⟩ := hR
  have hP := pay_facts t s.scUnb b1 hI.sc0
  simp only at hP
  generalize hpay : payScUnb b1 t s.scUnb = pay at h hP
  obtain ⟨b2, sc⟩ := pay
  simp only [Res.ok.injEq] at h hP
  subst h
  obtain ⟨p1, p2, p3, p4, p5, p6⟩ := hP
  have hnow : s.now ≤ t := by omega
  have eL := r1 lock fee (by decide)
  have eS : ∀ v, b2.bal lock (shareOf v) = s.bank.bal lock (shareOf v) := by
    intro v; rw [p3 lock _ (shareOf_ne_fee v) (shareOf_ne_bond v), r1 lock _ (shareOf_ne_bond v)]
  have hS : sumShares b2 s.vals = sumShares s.bank s.vals := sumShares_congr _ _ _ (fun v _ => eS v)
  have hL : ∀ t', lockedT { s with bank := b2, ubds := ub, scUnb := sc, now := t, height := s.height + 1 } t' = lockedT s t' := fun _ => rfl
  have hC : custody s ≤ custody { s with bank := b2, ubds := ub, scUnb := sc, now := t, height := s.height + 1 } := by
    unfold custody
    cases hv : s.variant <;> simp only [hv]
    · show s.bank.bal lock fee + sumShares s.bank s.vals + sumUnb lock s.scUnb ≤ b2.bal lock fee + sumShares b2 s.vals + sumUnb lock sc
      rw [hS]; omega
    · show s.bank.bal lock fee + s.bank.bal "plock" bond + s.stake "plock" + sumUnb "plock" s.ubds
          ≤ b2.bal lock fee + b2.bal "plock" bond + s.stake "plock" + sumUnb "plock" ub
      omega
  constructor
  · exact hI.ol0
  · exact hI.ut0
  · exact hI.dv0
  · exact hI.df0
  · show 0 ≤ b2.bal lock fee
    have := hI.bL0; omega
  · intro v
    show 0 ≤ b2.bal lock (shareOf v)
    rw [eS]; exact hI.bS0 v
  · show 0 ≤ b2.bal "plock" bond
    have := hI.bP0; omega
  · exact hI.st0
  · exact hI.nodup
  · intro u hu; exact hI.ubd0 u (r5 u hu)
  · intro u hu; exact hI.sc0 u (p5 u hu)
  · intro hc t' l ht' hl
    have := hI.cover hc t' l (by show s.now ≤ t'; have : t ≤ t' := ht'; omega) hl
    show l - s.DV ≤ b2.bal lock fee
    omega
  · have := hI.tracked
    unfold actualDelegated at this ⊢
    cases hv : s.variant <;> simp only [hv] at this ⊢
    · show s.DV + s.DF ≤ sumShares b2 s.vals + totalEntries s.entries
      rw [hS]; exact this
    · show s.DV + s.DF ≤ s.stake "plock" + sumUnb "plock" ub + b2.bal "plock" bond
      omega
  · intro hv hb
    have hv' : s.variant = .nv := hv
    have hb2 := (blocked_nv_false (s := { s with bank := b2, ubds := ub, scUnb := sc, now := t, height := s.height + 1 }) hv).1 hb
    have hall : ∀ u ∈ s.scUnb, t < u.completion := by
      intro u hu
      obtain ⟨p, hp, hd, hh, hle⟩ := hI.scHead u hu
      have := hb2 p hp hd hh
      have : t < hd.endT := this
      omega
    have hpe := p6 hall
    simp only [Prod.mk.injEq] at hpe
    obtain ⟨eb, el⟩ := hpe
    have hbs : blocked s = false := (blocked_nv_false hv').2 (fun p hp hd hh => by
      have := hb2 p hp hd hh; have : t < hd.endT := this; omega)
    have := hI.liveNv hv' hbs
    show s.DV + s.DF ≤ sumShares b2 s.vals + sumUnb lock sc
    rw [hS, el]; exact this
  · intro u hu; exact hI.scHead u (p5 u hu)
  · intro p hp hd hh
    have := hI.headUt p hp hd hh
    have := hI.ut0
    show hd.endT ≤ t + s.ut
    omega
  · intro hc t' l ht' hl
    have := hI.cust hc t' l (by show s.now ≤ t'; have : t ≤ t' := ht'; omega) hl
    omega
  · intro hc
    have hnil := hI.pre hc
    show sc = []
    cases sc with
    | nil => rfl
    | cons u r => have := p5 u (by simp); rw [hnil] at this; simp at this

theorem inv_send {s s' : St} {c sd dst : Addr} {d : Denom} {x : Int} (hI : Inv s)
    (h : doSend s c sd dst d x = .ok s') : Inv s' := by
  simp only [doSend] at h
  split at h; · simp at h
  rename_i hc
  split at h; · simp at h
  split at h; · simp at h
  split at h; · simp at h
  obtain ⟨locked, hl, h⟩ := Bank.bind_ok h
  split at h; · simp at h
  rename_i hb
  split at h; · simp at h
  rename_i g1
  split at h; · simp at h
  rename_i g2
  obtain ⟨b, hb2, h⟩ := Bank.bind_ok h
  obtain ⟨xpos, _, hsend⟩ := msgSend_bal hb2
  obtain ⟨_, _, eb⟩ := Bank.send_ok hsend
  simp only [Res.ok.injEq] at h
  subst h eb
  have hcr : s.created = true := by simpa using hc
  have hbl : blocked s = false := by simpa using hb
  have hl' : lockedT s s.now = .ok locked := hl
  have hr := lockedT_range hI hl'
  have hnb := notBonded_val s.variant hr.1 hI.dv0
  rw [hnb] at g1 g2
  have bal' : s.bank.bal lock fee - x ≤ ((s.bank.credit lock fee (-x)).credit dst fee x).bal lock fee := by
    simp only [Bank.credit_bal]; split <;> simp_all <;> omega
  have eS : ∀ v, ((s.bank.credit lock fee (-x)).credit dst fee x).bal lock (shareOf v) = s.bank.bal lock (shareOf v) := by
    intro v; have := shareOf_ne_fee v; simp [Bank.credit_bal, this]
  have hS : sumShares ((s.bank.credit lock fee (-x)).credit dst fee x) s.vals = sumShares s.bank s.vals :=
    sumShares_congr _ _ _ (fun v _ => eS v)
  have hP : ((s.bank.credit lock fee (-x)).credit dst fee x).bal "plock" bond = s.bank.bal "plock" bond := by
    simp [Bank.credit_bal, fee, bond]
  have key : ∀ t l, s.now ≤ t → lockedT s t = .ok l → l ≤ locked := fun t l ht hlt => lockedT_antitone hI ht hl' hlt
  refine { hI with bL0 := ?_, bS0 := ?_, bP0 := ?_, cover := ?_, tracked := ?_, liveNv := ?_, cust := ?_ }
  · show 0 ≤ ((s.bank.credit lock fee (-x)).credit dst fee x).bal lock fee
    omega
  · intro v
    show 0 ≤ ((s.bank.credit lock fee (-x)).credit dst fee x).bal lock (shareOf v)
    rw [eS]; exact hI.bS0 v
  · show 0 ≤ ((s.bank.credit lock fee (-x)).credit dst fee x).bal "plock" bond
    rw [hP]; exact hI.bP0
  · intro _ t l ht hlt
    have := key t l ht hlt
    show l - s.DV ≤ ((s.bank.credit lock fee (-x)).credit dst fee x).bal lock fee
    omega
  · have := hI.tracked
    unfold actualDelegated at this ⊢
    cases hv : s.variant <;> simp only [hv] at this ⊢
    · show s.DV + s.DF ≤ sumShares ((s.bank.credit lock fee (-x)).credit dst fee x) s.vals + totalEntries s.entries
      rw [hS]; exact this
    · show s.DV + s.DF ≤ s.stake "plock" + sumUnb "plock" s.ubds + ((s.bank.credit lock fee (-x)).credit dst fee x).bal "plock" bond
      rw [hP]; exact this
  · intro hv hb'
    have := hI.liveNv hv hbl
    show s.DV + s.DF ≤ sumShares ((s.bank.credit lock fee (-x)).credit dst fee x) s.vals + sumUnb lock s.scUnb
    rw [hS]; exact this
  · intro _ t l ht hlt
    have hk := key t l ht hlt
    have htr := hI.tracked
    have hdf := hI.df0
    unfold custody
    unfold actualDelegated at htr
    cases hv : s.variant <;> simp only [hv] at htr ⊢
    · have := hI.liveNv hv hbl
      show l ≤ ((s.bank.credit lock fee (-x)).credit dst fee x).bal lock fee + sumShares ((s.bank.credit lock fee (-x)).credit dst fee x) s.vals + sumUnb lock s.scUnb
      rw [hS]; omega
    · show l ≤ ((s.bank.credit lock fee (-x)).credit dst fee x).bal lock fee + ((s.bank.credit lock fee (-x)).credit dst fee x).bal "plock" bond + s.stake "plock" + sumUnb "plock" s.ubds
      rw [hP]; omega

theorem inv_nvDelegate {s s' : St} {c sd val : Addr} {d : Denom} {amt : Int} {e : Ext} (hI : Inv s)
    (ho : extOk e ∧ e.share = amt) (h : doNvDelegate s c sd val d amt e = .ok s') : Inv s' := by
  simp only [doNvDelegate] at h
  split at h; · simp at h
  rename_i hcv
  split at h; · simp at h
  split at h; · simp at h
  obtain ⟨locked, hl, h⟩ := Bank.bind_ok h
  split at h; · simp at h
  rename_i hb
  split at h; · simp at h
  rename_i hneg
  split at h; · simp at h
  rename_i dv df htd
  split at h; · simp at h
  rename_i hval
  split at h; · simp at h
  obtain ⟨b1, hb1, h⟩ := Bank.bind_ok h
  obtain ⟨b2, hb2, h⟩ := Bank.bind_ok h
  obtain ⟨b3, hb3, h⟩ := Bank.bind_ok h
  obtain ⟨b4, hb4, h⟩ := Bank.bind_ok h
  obtain ⟨b5, hb5, h⟩ := Bank.bind_ok h
  simp only [Res.ok.injEq] at h
  subst h
  obtain ⟨⟨hrf, hrb⟩, hsh⟩ := ho
  have ha : 0 ≤ amt := by omega
  obtain ⟨x, x0, xa, xm, xf, edv, edf, anz, able⟩ := trackDel_facts ha htd
  have hv : s.variant = .nv := by
    simp only [Bool.or_eq_true, Bool.not_eq_true', decide_eq_true_eq, not_or] at hcv
    have := hcv.2; simpa using this
  have hcr : s.created = true := by
    simp only [Bool.or_eq_true, Bool.not_eq_true', decide_eq_true_eq, not_or] at hcv
    have := hcv.1; simpa using this
  have hmem : val ∈ s.vals := by simpa using hval
  have hbl : blocked s = false := by simpa using hb
  have hl' : lockedT s s.now = .ok locked := hl
  have hr := lockedT_range hI hl'
  obtain ⟨_, _, e1⟩ := Bank.send_ok hb1
  have hconv := convReverse_other (by decide : scMod ≠ Convert.moduleAcc) hb2
  obtain ⟨_, _, e3⟩ := Bank.send_ok hb3
  obtain ⟨_, e4⟩ := Bank.mint_ok hb4
  obtain ⟨_, _, e5⟩ := Bank.send_ok hb5
  have sf : shareOf val ≠ "urise" := shareOf_ne_fee val
  have sb : shareOf val ≠ "uvrise" := shareOf_ne_bond val
  have sf2 : "urise" ≠ shareOf val := Ne.symm sf
  have sb2 : "uvrise" ≠ shareOf val := Ne.symm sb
  have fL : b5.bal lock fee = s.bank.bal lock fee + e.rewFee - amt := by
    subst e5 e4 e3
    have := hconv lock fee (by decide) (by decide)
    simp [Bank.credit_bal, fee, bond, lock, scMod, stakingPool, sf, sf2, sb, sb2] at this ⊢
    rw [this, e1]
    simp [Bank.credit_bal, claim_bal, fee, bond, lock, scMod]; omega
  have fS : b5.bal lock (shareOf val) = s.bank.bal lock (shareOf val) + e.share := by
    subst e5 e4 e3
    have := hconv lock (shareOf val) (by decide) (by decide)
    simp [Bank.credit_bal, fee, bond, lock, scMod, stakingPool, sb, sf, sb2, sf2] at this ⊢
    rw [this, e1]
    simp [Bank.credit_bal, claim_bal, fee, bond, lock, scMod, sb, sf, sb2, sf2]
  have fS' : ∀ w, w ≠ val → b5.bal lock (shareOf w) = s.bank.bal lock (shareOf w) := by
    intro w hw
    have hne : shareOf w ≠ shareOf val := fun c => hw (shareOf_inj c)
    have sfw : shareOf w ≠ "urise" := shareOf_ne_fee w
    have sbw : shareOf w ≠ "uvrise" := shareOf_ne_bond w
    have sfw2 : "urise" ≠ shareOf w := Ne.symm sfw
    have sbw2 : "uvrise" ≠ shareOf w := Ne.symm sbw
    subst e5 e4 e3
    have := hconv lock (shareOf w) (by decide) (by decide)
    simp [Bank.credit_bal, fee, bond, lock, scMod, stakingPool, sbw, sfw, sbw2, sfw2, hne] at this ⊢
    rw [this, e1]
    simp [Bank.credit_bal, claim_bal, fee, bond, lock, scMod, sbw, sfw, sbw2, sfw2]
  have fP : b5.bal "plock" bond = s.bank.bal "plock" bond := by
    subst e5 e4 e3
    have := hconv "plock" bond (by decide) (by decide)
    simp [Bank.credit_bal, fee, bond, lock, scMod, stakingPool, sf, sf2, sb, sb2] at this ⊢
    rw [this, e1]
    simp [Bank.credit_bal, claim_bal, fee, bond, lock, scMod]
  have hS : sumShares b5 s.vals = sumShares s.bank s.vals + e.share :=
    sumShares_update _ _ _ val _ hI.nodup hmem fS fS'
  have key : ∀ t l, s.now ≤ t → lockedT s t = .ok l → l ≤ locked := fun t l ht hlt => lockedT_antitone hI ht hl' hlt
  have hbal : amt ≤ s.bank.bal lock fee := able
  constructor
  · exact hI.ol0
  · exact hI.ut0
  · show 0 ≤ dv; have := hI.dv0; omega
  · show 0 ≤ df; have := hI.df0; omega
  · show 0 ≤ b5.bal lock fee; rw [fL]; omega
  · intro w
    show 0 ≤ b5.bal lock (shareOf w)
    by_cases hw : w = val
    · subst hw; rw [fS]; have := hI.bS0 w; omega
    · rw [fS' w hw]; exact hI.bS0 w
  · show 0 ≤ b5.bal "plock" bond; rw [fP]; exact hI.bP0
  · exact hI.st0
  · exact hI.nodup
  · exact hI.ubd0
  · exact hI.sc0
  · intro hc t l ht hlt
    have h1 := hI.cover hc t l ht hlt
    have h2 := key t l ht hlt
    show l - dv ≤ b5.bal lock fee
    rw [fL, edv]
    rcases xf with hx | hx <;> omega
  · have := hI.tracked
    unfold actualDelegated at this ⊢
    simp only [hv] at this ⊢
    show dv + df ≤ sumShares b5 s.vals + totalEntries s.entries
    rw [hS]; omega
  · intro _ _
    have := hI.liveNv hv hbl
    show dv + df ≤ sumShares b5 s.vals + sumUnb lock s.scUnb
    rw [hS]; omega
  · exact hI.scHead
  · exact hI.headUt
  · intro hc t l ht hlt
    have := hI.cust hc t l ht hlt
    unfold custody at this ⊢
    simp only [hv] at this ⊢
    show l ≤ b5.bal lock fee + sumShares b5 s.vals + sumUnb lock s.scUnb
    rw [fL, hS]; omega
  · intro hc
    have hc' : s.created = false := hc
    rw [hcr] at hc'; simp at hc'

theorem inv_nvUndelegate {s s' : St} {c sd val : Addr} {d : Denom} {amt : Int} {e : Ext} (hI : Inv s)
    (ho : extOk e ∧ e.share = amt) (h : doNvUndelegate s c sd val d amt e = .ok s') : Inv s' := by
  simp only [doNvUndelegate] at h
  split at h; · simp at h
  rename_i hcv
  split at h; · simp at h
  split at h; · simp at h
  split at h; · simp at h
  rename_i hpos
  split at h; · simp at h
  rename_i hval
  split at h; · simp at h
  obtain ⟨b1, hb1, h⟩ := Bank.bind_ok h
  obtain ⟨b2, hb2, h⟩ := Bank.bind_ok h
  obtain ⟨_, hle, eb1⟩ := Bank.send_ok hb1
  obtain ⟨_, _, eb2⟩ := Bank.burn_ok hb2
  simp only [Res.ok.injEq] at h
  subst h eb2 eb1
  obtain ⟨⟨hrf, hrb⟩, hsh⟩ := ho
  have hv : s.variant = .nv := by
    simp only [Bool.or_eq_true, Bool.not_eq_true', decide_eq_true_eq, not_or] at hcv
    have := hcv.2; simpa using this
  have hmem : val ∈ s.vals := by simpa using hval
  have sf : shareOf val ≠ "urise" := shareOf_ne_fee val
  have sb : shareOf val ≠ "uvrise" := shareOf_ne_bond val
  have sf2 : "urise" ≠ shareOf val := Ne.symm sf
  have sb2 : "uvrise" ≠ shareOf val := Ne.symm sb
  rw [claim_share] at hle
  -- the tracked balances after the handler
  have fL : (((claim s.bank lock e).credit lock (shareOf val) (-e.share)).credit scMod (shareOf val) e.share |>.credit scMod (shareOf val) (-e.share) |>.addSupply (shareOf val) (-e.share)).bal lock fee
      = s.bank.bal lock fee + e.rewFee := by
    simp [Bank.credit_bal, claim_bal, fee, bond, lock, scMod, sf, sf2, sb, sb2]
  have fS : (((claim s.bank lock e).credit lock (shareOf val) (-e.share)).credit scMod (shareOf val) e.share |>.credit scMod (shareOf val) (-e.share) |>.addSupply (shareOf val) (-e.share)).bal lock (shareOf val)
      = s.bank.bal lock (shareOf val) + -e.share := by
    simp [Bank.credit_bal, claim_bal, fee, bond, lock, scMod, sb, sf, sb2, sf2]
  have fS' : ∀ w, w ≠ val → (((claim s.bank lock e).credit lock (shareOf val) (-e.share)).credit scMod (shareOf val) e.share |>.credit scMod (shareOf val) (-e.share) |>.addSupply (shareOf val) (-e.share)).bal lock (shareOf w)
      = s.bank.bal lock (shareOf w) := by
    intro w hw
    have hne : shareOf w ≠ shareOf val := fun c => hw (shareOf_inj c)
    have sfw : shareOf w ≠ "urise" := shareOf_ne_fee w
    have sbw : shareOf w ≠ "uvrise" := shareOf_ne_bond w
    have sfw2 : "urise" ≠ shareOf w := Ne.symm sfw
    have sbw2 : "uvrise" ≠ shareOf w := Ne.symm sbw
    simp [Bank.credit_bal, claim_bal, fee, bond, lock, scMod, sbw, sfw, sbw2, sfw2, hne]
  have fP : (((claim s.bank lock e).credit lock (shareOf val) (-e.share)).credit scMod (shareOf val) e.share |>.credit scMod (shareOf val) (-e.share) |>.addSupply (shareOf val) (-e.share)).bal "plock" bond
      = s.bank.bal "plock" bond := by
    simp [Bank.credit_bal, claim_bal, fee, bond, lock, scMod, sf, sf2, sb, sb2]
  have hS := sumShares_update s.bank _ s.vals val (-e.share) hI.nodup hmem fS fS'
  obtain ⟨hd', hhd', hnil, hcons⟩ := head_addEntry (getEntries s.entries val) s.height (s.now + s.ut) amt
  have hamt : 0 < amt := by omega
  have hself := self_mem_setEntries s.entries val (addEntry (getEntries s.entries val) s.height (s.now + s.ut) amt)
  -- the first entry of `val`'s new list ends no later than now + ut
  have hdUt : hd'.endT ≤ s.now + s.ut := by
    cases hes : getEntries s.entries val with
    | nil => rw [hnil hes]
    | cons x r =>
      have hh0 : (getEntries s.entries val).head? = some x := by simp [hes]
      rw [hcons x hh0]
      have hm : (val, getEntries s.entries val) ∈ s.entries := getEntries_mem (by rw [hes]; simp)
      exact hI.headUt _ hm x hh0
  constructor
  · exact hI.ol0
  · exact hI.ut0
  · exact hI.dv0
  · exact hI.df0
  · show 0 ≤ Bank.bal _ lock fee
    rw [fL]; have := hI.bL0; omega
  · intro w
    show 0 ≤ Bank.bal _ lock (shareOf w)
    by_cases hw : w = val
    · subst hw; rw [fS]; omega
    · rw [fS' w hw]; exact hI.bS0 w
  · show 0 ≤ Bank.bal _ "plock" bond
    rw [fP]; exact hI.bP0
  · exact hI.st0
  · exact hI.nodup
  · exact hI.ubd0
  · intro u hu
    simp only [List.mem_append, List.mem_singleton] at hu
    rcases hu with hu | hu
    · exact hI.sc0 u hu
    · subst hu; exact ⟨by show 0 ≤ amt; omega, rfl⟩
  · intro hc t l ht hl
    have := hI.cover hc t l ht hl
    show l - s.DV ≤ Bank.bal _ lock fee
    rw [fL]; omega
  · have := hI.tracked
    unfold actualDelegated at this ⊢
    simp only [hv] at this ⊢
    show s.DV + s.DF ≤ sumShares _ s.vals + totalEntries (setEntries s.entries val (addEntry (getEntries s.entries val) s.height (s.now + s.ut) amt))
    rw [hS, total_setEntries, sumEntries_addEntry]; omega
  · intro _ hb
    have hb2 := (blocked_nv_false (s := { s with bank := _, scUnb := s.scUnb ++ [⟨lock, amt, s.now + s.ut⟩], entries := setEntries s.entries val (addEntry (getEntries s.entries val) s.height (s.now + s.ut) amt) }) hv).1 hb
    have hnew : s.now < hd'.endT := hb2 _ hself hd' hhd'
    have hbs : blocked s = false := (blocked_nv_false hv).2 (fun p hp h0 hh0 => by
      rcases mem_old_setEntries (v := val) (l := addEntry (getEntries s.entries val) s.height (s.now + s.ut) amt) hp with hm | hm
      · exact hb2 p hm h0 hh0
      · rw [hm] at hh0
        have e := hcons h0 hh0
        omega)
    have := hI.liveNv hv hbs
    show s.DV + s.DF ≤ sumShares _ s.vals + sumUnb lock (s.scUnb ++ [⟨lock, amt, s.now + s.ut⟩])
    rw [hS, sumUnb_append]; simp; omega
  · intro u hu
    simp only [List.mem_append, List.mem_singleton] at hu
    rcases hu with hu | hu
    · obtain ⟨p, hp, h0, hh0, hle0⟩ := hI.scHead u hu
      rcases mem_old_setEntries (v := val) (l := addEntry (getEntries s.entries val) s.height (s.now + s.ut) amt) hp with hm | hm
      · exact ⟨p, hm, h0, hh0, hle0⟩
      · rw [hm] at hh0
        refine ⟨_, hself, hd', hhd', ?_⟩
        rw [hcons h0 hh0]; exact hle0
    · subst hu
      exact ⟨_, hself, hd', hhd', hdUt⟩
  · intro p hp h0 hh0
    show h0.endT ≤ s.now + s.ut
    rcases mem_setEntries hp with hm | hm
    · exact hI.headUt p hm h0 hh0
    · rw [hm] at hh0
      have : h0 = hd' := by
        have : (addEntry (getEntries s.entries val) s.height (s.now + s.ut) amt).head? = some h0 := hh0
        rw [hhd'] at this; exact (Option.some.inj this).symm
      rw [this]; exact hdUt
  · intro hc t l ht hl
    have := hI.cust hc t l ht hl
    unfold custody at this ⊢
    simp only [hv] at this ⊢
    show l ≤ Bank.bal _ lock fee + sumShares _ s.vals + sumUnb lock (s.scUnb ++ [⟨lock, amt, s.now + s.ut⟩])
    rw [fL, hS, sumUnb_append]; simp; omega
  · intro hc
    simp only [Bool.or_eq_true, Bool.not_eq_true', decide_eq_true_eq, not_or] at hcv
    have h1 := hcv.1
    have hc' : s.created = false := hc
    rw [hc'] at h1; simp at h1

theorem inv_init {s s' : St} {v : Variant} {funder owner : Addr} {funds : Int} {sz : Bool} {st : Int} {ez : Bool} {en : Int}
    (hI : Inv s) (ho : funder ≠ lock) (h : doInit s v funder owner funds sz st ez en = .ok s') : Inv s' := by
  simp only [doInit] at h
  split at h; · simp at h
  rename_i hnc
  split at h; · simp at h
  rename_i hf
  split at h; · simp at h
  split at h; · simp at h
  obtain ⟨b, hb, h⟩ := Bank.bind_ok h
  simp only [Res.ok.injEq] at h
  subst h
  have hf0 : 0 ≤ funds := by omega
  have hnil : s.scUnb = [] := hI.pre (by simpa using hnc)
  have fL : b.bal lock fee = s.bank.bal lock fee + funds := by
    split at hb
    · rename_i hz; simp only [Res.ok.injEq] at hb; subst hb; omega
    · obtain ⟨_, _, e⟩ := Bank.send_ok hb
      subst e
      have : ¬ (lock = funder) := fun c => ho c.symm
      simp [Bank.credit_bal, this]
  have fS : ∀ w, b.bal lock (shareOf w) = s.bank.bal lock (shareOf w) := by
    intro w
    have sfw : shareOf w ≠ fee := shareOf_ne_fee w
    split at hb
    · simp only [Res.ok.injEq] at hb; subst hb; rfl
    · obtain ⟨_, _, e⟩ := Bank.send_ok hb
      subst e; simp [Bank.credit_bal, sfw]
  have hS : sumShares b s.vals = sumShares s.bank s.vals := sumShares_congr _ _ _ (fun w _ => fS w)
  have fP : b.bal "plock" bond = s.bank.bal "plock" bond := by
    split at hb
    · simp only [Res.ok.injEq] at hb; subst hb; rfl
    · obtain ⟨_, _, e⟩ := Bank.send_ok hb
      subst e; simp [Bank.credit_bal, fee, bond]
  have hsu := sumUnb_nonneg "plock" s.ubds (ubdNonneg hI)
  have hsh := sumShares_nonneg s.bank s.vals hI.bS0
  constructor
  · exact hf0
  · exact hI.ut0
  · show (0:Int) ≤ 0; omega
  · show (0:Int) ≤ 0; omega
  · show 0 ≤ b.bal lock fee; rw [fL]; have := hI.bL0; omega
  · intro w; show 0 ≤ b.bal lock (shareOf w); rw [fS]; exact hI.bS0 w
  · show 0 ≤ b.bal "plock" bond; rw [fP]; exact hI.bP0
  · exact hI.st0
  · exact hI.nodup
  · exact hI.ubd0
  · exact hI.sc0
  · intro _ t l _ hl
    have := lockedAt_le_ol _ _ _ _ _ _ hf0 hl
    show l - 0 ≤ b.bal lock fee
    rw [fL]; have := hI.bL0; omega
  · unfold actualDelegated
    have := hI.st0; have := hI.bP0
    cases v
    · show (0:Int) + 0 ≤ sumShares b s.vals + totalEntries []
      rw [hS]; simp [totalEntries]; omega
    · show (0:Int) + 0 ≤ s.stake "plock" + sumUnb "plock" s.ubds + b.bal "plock" bond
      rw [fP]; omega
  · intro _ _
    show (0:Int) + 0 ≤ sumShares b s.vals + sumUnb lock s.scUnb
    rw [hS, hnil]; simp [sumUnb]; omega
  · intro u hu
    have : u ∈ s.scUnb := hu
    rw [hnil] at this; simp at this
  · intro p hp
    have : p ∈ ([] : Entries) := hp
    simp at this
  · intro _ t l _ hl
    have := lockedAt_le_ol _ _ _ _ _ _ hf0 hl
    unfold custody
    have := hI.st0; have := hI.bP0; have := hI.bL0
    cases v
    · show l ≤ b.bal lock fee + sumShares b s.vals + sumUnb lock s.scUnb
      rw [fL, hS, hnil]; simp [sumUnb]; omega
    · show l ≤ b.bal lock fee + b.bal "plock" bond + s.stake "plock" + sumUnb "plock" s.ubds
      rw [fL, fP]; omega
  · intro hc; simp at hc

theorem inv_pxUndelegate {s s' : St} {d c sd : Addr} {amt : Int} {e : Ext} (hI : Inv s) (he : extOk e)
    (h : doPxUndelegate s d c sd amt e = .ok s') : Inv s' := by
  simp only [doPxUndelegate] at h
  split at h; · simp at h
  split at h; · simp at h
  split at h; · simp at h
  rename_i hneg
  split at h; · simp at h
  rename_i hz
  split at h; · simp at h
  split at h; · simp at h
  rename_i hst
  simp only [Res.ok.injEq] at h
  subst h
  have hamt : 0 < amt := by omega
  have hpl := proxyOf_ne_lock d
  have fL : (claim s.bank (proxyOf d) e).bal lock fee = s.bank.bal lock fee := by
    rw [claim_bal]; simp [Ne.symm hpl]
  have hS : sumShares (claim s.bank (proxyOf d) e) s.vals = sumShares s.bank s.vals :=
    sumShares_congr _ _ _ (fun w _ => claim_share _ _ _ _ w)
  have hsu := sumUnb_append "plock" s.ubds ⟨proxyOf d, amt, s.now + s.ut⟩
  rcases proxyOf_cases d with hp | hp
  · -- the lockup's own proxy: stake moves into the unbonding list
    have fP : (claim s.bank (proxyOf d) e).bal "plock" bond = s.bank.bal "plock" bond + e.rewBond := by
      rw [claim_bal, hp]; simp [fee, bond]
    rw [hp] at hst
    have hsu : sumUnb "plock" (s.ubds ++ [⟨proxyOf d, amt, s.now + s.ut⟩]) = sumUnb "plock" s.ubds + amt := by
      rw [hsu]; simp [hp]
    have e1 : (if "plock" = proxyOf d then s.stake (proxyOf d) - amt else s.stake "plock") = s.stake "plock" - amt := by
      rw [hp]; simp
    constructor
    · exact hI.ol0
    · exact hI.ut0
    · exact hI.dv0
    · exact hI.df0
    · show 0 ≤ (claim s.bank (proxyOf d) e).bal lock fee; rw [fL]; exact hI.bL0
    · intro w; show 0 ≤ (claim s.bank (proxyOf d) e).bal lock (shareOf w); rw [claim_share]; exact hI.bS0 w
    · show 0 ≤ (claim s.bank (proxyOf d) e).bal "plock" bond; rw [fP]; have := hI.bP0; have := he.2; omega
    · show 0 ≤ (if "plock" = proxyOf d then s.stake (proxyOf d) - amt else s.stake "plock")
      rw [e1]; omega
    · exact hI.nodup
    · intro u hu
      simp only [List.mem_append, List.mem_singleton] at hu
      rcases hu with hu | hu
      · exact hI.ubd0 u hu
      · subst hu; exact ⟨by show 0 ≤ amt; omega, Or.inl hp⟩
    · exact hI.sc0
    · intro hc t l ht hl
      have := hI.cover hc t l ht hl
      show l - s.DV ≤ (claim s.bank (proxyOf d) e).bal lock fee
      rw [fL]; exact this
    · have := hI.tracked
      have := he.2
      unfold actualDelegated at *
      cases hv : s.variant <;> simp only [hv] at *
      · show s.DV + s.DF ≤ sumShares (claim s.bank (proxyOf d) e) s.vals + totalEntries s.entries
        rw [hS]; assumption
      · show s.DV + s.DF ≤ (if "plock" = proxyOf d then s.stake (proxyOf d) - amt else s.stake "plock")
            + sumUnb "plock" (s.ubds ++ [⟨proxyOf d, amt, s.now + s.ut⟩]) + (claim s.bank (proxyOf d) e).bal "plock" bond
        rw [fP, hsu, e1]; omega
    · intro hv hb
      have hb' : blocked s = false := hb
      have := hI.liveNv hv hb'
      show s.DV + s.DF ≤ sumShares (claim s.bank (proxyOf d) e) s.vals + sumUnb lock s.scUnb
      rw [hS]; exact this
    · exact hI.scHead
    · exact hI.headUt
    · intro hc t l ht hl
      have := hI.cust hc t l ht hl
      have := he.2
      unfold custody at *
      cases hv : s.variant <;> simp only [hv] at *
      · show l ≤ (claim s.bank (proxyOf d) e).bal lock fee + sumShares (claim s.bank (proxyOf d) e) s.vals + sumUnb lock s.scUnb
        rw [fL, hS]; assumption
      · show l ≤ (claim s.bank (proxyOf d) e).bal lock fee + (claim s.bank (proxyOf d) e).bal "plock" bond
            + (if "plock" = proxyOf d then s.stake (proxyOf d) - amt else s.stake "plock")
            + sumUnb "plock" (s.ubds ++ [⟨proxyOf d, amt, s.now + s.ut⟩])
        rw [fL, fP, hsu, e1]; omega
    · exact hI.pre
  · -- somebody else's proxy: nothing of the lockup moves
    have fP : (claim s.bank (proxyOf d) e).bal "plock" bond = s.bank.bal "plock" bond := by
      rw [claim_bal, hp]; simp
    have hsu : sumUnb "plock" (s.ubds ++ [⟨proxyOf d, amt, s.now + s.ut⟩]) = sumUnb "plock" s.ubds := by
      rw [hsu]; simp [hp]
    have hstk : (if "plock" = proxyOf d then s.stake (proxyOf d) - amt else s.stake "plock") = s.stake "plock" := by
      rw [hp]; simp
    constructor
    · exact hI.ol0
    · exact hI.ut0
    · exact hI.dv0
    · exact hI.df0
    · show 0 ≤ (claim s.bank (proxyOf d) e).bal lock fee; rw [fL]; exact hI.bL0
    · intro w; show 0 ≤ (claim s.bank (proxyOf d) e).bal lock (shareOf w); rw [claim_share]; exact hI.bS0 w
    · show 0 ≤ (claim s.bank (proxyOf d) e).bal "plock" bond; rw [fP]; exact hI.bP0
    · show 0 ≤ (if "plock" = proxyOf d then s.stake (proxyOf d) - amt else s.stake "plock")
      rw [hstk]; exact hI.st0
    · exact hI.nodup
    · intro u hu
      simp only [List.mem_append, List.mem_singleton] at hu
      rcases hu with hu | hu
      · exact hI.ubd0 u hu
      · subst hu; exact ⟨by show 0 ≤ amt; omega, Or.inr hp⟩
    · exact hI.sc0
    · intro hc t l ht hl
      have := hI.cover hc t l ht hl
      show l - s.DV ≤ (claim s.bank (proxyOf d) e).bal lock fee
      rw [fL]; exact this
    · have := hI.tracked
      unfold actualDelegated at *
      cases hv : s.variant <;> simp only [hv] at *
      · show s.DV + s.DF ≤ sumShares (claim s.bank (proxyOf d) e) s.vals + totalEntries s.entries
        rw [hS]; assumption
      · show s.DV + s.DF ≤ (if "plock" = proxyOf d then s.stake (proxyOf d) - amt else s.stake "plock")
            + sumUnb "plock" (s.ubds ++ [⟨proxyOf d, amt, s.now + s.ut⟩]) + (claim s.bank (proxyOf d) e).bal "plock" bond
        rw [fP, hstk, hsu]; omega
    · intro hv hb
      have hb' : blocked s = false := hb
      have := hI.liveNv hv hb'
      show s.DV + s.DF ≤ sumShares (claim s.bank (proxyOf d) e) s.vals + sumUnb lock s.scUnb
      rw [hS]; exact this
    · exact hI.scHead
    · exact hI.headUt
    · intro hc t l ht hl
      have := hI.cust hc t l ht hl
      unfold custody at *
      cases hv : s.variant <;> simp only [hv] at *
      · show l ≤ (claim s.bank (proxyOf d) e).bal lock fee + sumShares (claim s.bank (proxyOf d) e) s.vals + sumUnb lock s.scUnb
        rw [fL, hS]; assumption
      · show l ≤ (claim s.bank (proxyOf d) e).bal lock fee + (claim s.bank (proxyOf d) e).bal "plock" bond
            + (if "plock" = proxyOf d then s.stake (proxyOf d) - amt else s.stake "plock")
            + sumUnb "plock" (s.ubds ++ [⟨proxyOf d, amt, s.now + s.ut⟩])
        rw [fL, fP, hstk, hsu]; omega
    · exact hI.pre

/-! ### the two x/selfdelegation handlers -/

theorem modSelfDelegate_ok {s s' : St} {d : Addr} {amt : Int} {e : Ext} (h : modSelfDelegate s d amt e = .ok s') :
    ∃ b1 b2 b3, 0 < amt ∧ s.bank.send d (proxyOf d) fee amt = .ok b1
      ∧ Convert.convertReverse bond fee b1 (proxyOf d) amt = .ok b2
      ∧ b2.send (proxyOf d) stakingPool bond amt = .ok b3
      ∧ s' = { s with bank := claim b3 (proxyOf d) e, hasProxy := fun a => if a = d then true else s.hasProxy a,
                      stake := fun a => if a = proxyOf d then s.stake (proxyOf d) + amt else s.stake a } := by
  simp only [modSelfDelegate] at h
  split at h; · simp at h
  rename_i hpos
  split at h; · simp at h
  obtain ⟨b1, h1, h⟩ := Bank.bind_ok h
  obtain ⟨b2, h2, h⟩ := Bank.bind_ok h
  obtain ⟨b3, h3, h⟩ := Bank.bind_ok h
  split at h; · simp at h
  simp only [Res.ok.injEq] at h
  exact ⟨b1, b2, b3, by omega, h1, h2, h3, h.symm⟩

theorem modWithdraw_ok {s s' : St} {d : Addr} {amt : Int} (h : modWithdraw s d amt = .ok s') :
    ∃ b1 b2, 0 < amt ∧ Convert.convert bond fee s.bank (proxyOf d) amt = .ok b1
      ∧ b1.send (proxyOf d) d fee amt = .ok b2 ∧ s' = { s with bank := b2 } := by
  simp only [modWithdraw] at h
  split at h; · simp at h
  rename_i hpos
  split at h; · simp at h
  obtain ⟨b1, h1, h⟩ := Bank.bind_ok h
  obtain ⟨b2, h2, h⟩ := Bank.bind_ok h
  simp only [Res.ok.injEq] at h
  exact ⟨b1, b2, by omega, h1, h2, h.symm⟩

/-- SelfDelegate for the lockup itself: `amt` leaves the account's fee balance and ends up as stake of its proxy -/
theorem selfDelegate_lock_bal {bk b1 b2 b3 : Bank} {amt : Int} (e : Ext)
    (h1 : bk.send lock "plock" fee amt = .ok b1)
    (h2 : Convert.convertReverse bond fee b1 "plock" amt = .ok b2)
    (h3 : b2.send "plock" stakingPool bond amt = .ok b3) :
    amt ≤ bk.bal lock fee
    ∧ (claim b3 "plock" e).bal lock fee = bk.bal lock fee - amt
    ∧ (∀ w, (claim b3 "plock" e).bal lock (shareOf w) = bk.bal lock (shareOf w))
    ∧ (claim b3 "plock" e).bal "plock" bond = bk.bal "plock" bond + e.rewBond := by
  obtain ⟨hle, f1, _, f3⟩ := C12.selfDelegate_lock_bal (bk := bk) e h1 h2 h3
  refine ⟨hle, f1, ?_, f3⟩
  intro w
  have sfw : shareOf w ≠ "urise" := shareOf_ne_fee w
  have sbw : shareOf w ≠ "uvrise" := shareOf_ne_bond w
  obtain ⟨_, _, e1⟩ := Bank.send_ok h1
  have hO := convReverse_other (by decide : ("plock" : Addr) ≠ Convert.moduleAcc) h2
  obtain ⟨_, _, e3⟩ := Bank.send_ok h3
  have o2 := hO lock (shareOf w) (by decide) (by decide)
  subst e3
  rw [claim_share]
  simp [Bank.credit_bal, fee, bond, lock, stakingPool, sfw, sbw] at o2 ⊢
  rw [o2, e1]
  simp [Bank.credit_bal, fee, bond, lock, sfw, sbw]

/-- WithdrawSelfDelegationUnbonded for the lockup itself: `amt` of the proxy's bond balance comes back as fee coins -/
theorem withdraw_lock_bal {bk b1 b2 : Bank} {amt : Int}
    (h1 : Convert.convert bond fee bk "plock" amt = .ok b1)
    (h2 : b1.send "plock" lock fee amt = .ok b2) :
    amt ≤ bk.bal "plock" bond
    ∧ b2.bal lock fee = bk.bal lock fee + amt
    ∧ (∀ w, b2.bal lock (shareOf w) = bk.bal lock (shareOf w))
    ∧ b2.bal "plock" bond = bk.bal "plock" bond - amt := by
  obtain ⟨hle, f1, _, f3⟩ := C12.withdraw_lock_bal (bk := bk) h1 h2
  refine ⟨hle, f1, ?_, f3⟩
  intro w
  have sfw : shareOf w ≠ "urise" := shareOf_ne_fee w
  have hO := convert_other (by decide : ("plock" : Addr) ≠ Convert.moduleAcc) h1
  obtain ⟨_, _, e2⟩ := Bank.send_ok h2
  have o2 := hO lock (shareOf w) (by decide) (by decide)
  subst e2
  simp [Bank.credit_bal, fee, bond, lock, sfw] at o2 ⊢
  rw [o2]

theorem inv_modSelfDelegate {s s' : St} {d : Addr} {amt : Int} {e : Ext} (hI : Inv s) (ho : d ≠ lock ∧ extOk e)
    (h : modSelfDelegate s d amt e = .ok s') : Inv s' := by
  obtain ⟨b1, b2, b3, hpos, h1, h2, h3, es⟩ := modSelfDelegate_ok h
  have hp := proxyOf_other ho.1
  rw [hp] at h1 h2 h3 es
  subst es
  obtain ⟨_, _, e1⟩ := Bank.send_ok h1
  have hO := convReverse_other (by decide : ("pown" : Addr) ≠ Convert.moduleAcc) h2
  obtain ⟨_, _, e3⟩ := Bank.send_ok h3
  have hd : ¬ (lock = d) := fun c => ho.1 c.symm
  refine inv_mono hI rfl rfl rfl rfl rfl rfl rfl rfl rfl rfl rfl rfl ?_ rfl ?_ ?_ ?_
  · show (if "plock" = "pown" then s.stake "pown" + amt else s.stake "plock") = s.stake "plock"
    simp
  · show s.bank.bal lock fee ≤ (claim b3 "pown" e).bal lock fee
    have o := hO lock fee (by decide) (by decide)
    subst e3
    rw [claim_bal]
    simp [Bank.credit_bal, fee, bond, lock, stakingPool] at o ⊢
    rw [o, e1]
    simp [Bank.credit_bal, fee, bond, lock] at hd ⊢
    simp [hd]
  · intro w
    show s.bank.bal lock (shareOf w) ≤ (claim b3 "pown" e).bal lock (shareOf w)
    have sfw : shareOf w ≠ "urise" := shareOf_ne_fee w
    have sbw : shareOf w ≠ "uvrise" := shareOf_ne_bond w
    have o := hO lock (shareOf w) (by decide) (by decide)
    subst e3
    rw [claim_share]
    simp [Bank.credit_bal, fee, bond, lock, stakingPool, sfw, sbw] at o ⊢
    rw [o, e1]
    simp [Bank.credit_bal, fee, bond, lock, sfw, sbw]
  · show s.bank.bal "plock" bond ≤ (claim b3 "pown" e).bal "plock" bond
    have o := hO "plock" bond (by decide) (by decide)
    subst e3
    rw [claim_bal]
    simp [Bank.credit_bal, fee, bond, lock, stakingPool] at o ⊢
    rw [o, e1]
    simp [Bank.credit_bal, fee, bond, lock]

theorem inv_modWithdraw {s s' : St} {d : Addr} {amt : Int} (hI : Inv s) (ho : d ≠ lock)
    (h : modWithdraw s d amt = .ok s') : Inv s' := by
  obtain ⟨b1, b2, hpos, h1, h2, es⟩ := modWithdraw_ok h
  have hp := proxyOf_other ho
  rw [hp] at h1 h2
  subst es
  have hO := convert_other (by decide : ("pown" : Addr) ≠ Convert.moduleAcc) h1
  obtain ⟨_, _, e2⟩ := Bank.send_ok h2
  subst e2
  refine inv_mono hI rfl rfl rfl rfl rfl rfl rfl rfl rfl rfl rfl rfl rfl rfl ?_ ?_ ?_
  · show s.bank.bal lock fee ≤ ((b1.credit "pown" fee (-amt)).credit d fee amt).bal lock fee
    rw [← hO lock fee (by decide) (by decide)]
    exact credit2_ge _ _ _ _ _ _ _ (by omega) (fun c => by have := c.1; revert this; decide)
  · intro w
    show s.bank.bal lock (shareOf w) ≤ ((b1.credit "pown" fee (-amt)).credit d fee amt).bal lock (shareOf w)
    rw [← hO lock (shareOf w) (by decide) (by decide)]
    exact credit2_ge _ _ _ _ _ _ _ (by omega) (fun c => by have := c.1; revert this; decide)
  · show s.bank.bal "plock" bond ≤ ((b1.credit "pown" fee (-amt)).credit d fee amt).bal "plock" bond
    rw [← hO "plock" bond (by decide) (by decide)]
    simp [Bank.credit_bal, fee, bond]

/-! ### the self-delegatable lockup's own handlers -/

theorem inv_sdSelfDelegate {s s' : St} {c sd : Addr} {amt : Int} {e : Ext} (hI : Inv s) (he : extOk e)
    (h : doSdSelfDelegate s c sd amt e = .ok s') : Inv s' := by
  simp only [doSdSelfDelegate] at h
  split at h; · simp at h
  rename_i hcv
  split at h; · simp at h
  split at h; · simp at h
  rename_i hneg
  split at h; · simp at h
  obtain ⟨locked, hl, h⟩ := Bank.bind_ok h
  split at h; · simp at h
  rename_i hb
  split at h; · simp at h
  rename_i dv df htd
  obtain ⟨b1, b2, b3, hpos, h1, h2, h3, es⟩ := modSelfDelegate_ok h
  rw [proxyOf_lock] at h1 h2 h3 es
  subst es
  have ha : 0 ≤ amt := by omega
  obtain ⟨x, x0, xa, xm, xf, edv, edf, anz, able⟩ := trackDel_facts ha htd
  have hv : s.variant = .sd := by
    simp only [Bool.or_eq_true, Bool.not_eq_true', decide_eq_true_eq, not_or] at hcv
    have := hcv.2; simpa using this
  have hcr : s.created = true := by
    simp only [Bool.or_eq_true, Bool.not_eq_true', decide_eq_true_eq, not_or] at hcv
    have := hcv.1; simpa using this
  have hl' : lockedT s s.now = .ok locked := hl
  have hr := lockedT_range hI hl'
  obtain ⟨hle, fL, fS, fP⟩ := selfDelegate_lock_bal (bk := s.bank) e h1 h2 h3
  have key : ∀ t l, s.now ≤ t → lockedT s t = .ok l → l ≤ locked := fun t l ht hlt => lockedT_antitone hI ht hl' hlt
  have fK : (if "plock" = "plock" then s.stake "plock" + amt else s.stake "plock") = s.stake "plock" + amt := by simp
  obtain ⟨hrf, hrb⟩ := he
  constructor
  · exact hI.ol0
  · exact hI.ut0
  · show 0 ≤ dv; have := hI.dv0; omega
  · show 0 ≤ df; have := hI.df0; omega
  · show 0 ≤ (claim b3 "plock" e).bal lock fee; rw [fL]; omega
  · intro w; show 0 ≤ (claim b3 "plock" e).bal lock (shareOf w); rw [fS]; exact hI.bS0 w
  · show 0 ≤ (claim b3 "plock" e).bal "plock" bond; rw [fP]; have := hI.bP0; omega
  · show 0 ≤ (if "plock" = "plock" then s.stake "plock" + amt else s.stake "plock")
    rw [fK]; have := hI.st0; omega
  · exact hI.nodup
  · exact hI.ubd0
  · exact hI.sc0
  · intro hc t l ht hlt
    have h1 := hI.cover hc t l ht hlt
    have h2 := key t l ht hlt
    show l - dv ≤ (claim b3 "plock" e).bal lock fee
    rw [fL, edv]
    rcases xf with hx | hx <;> omega
  · have := hI.tracked
    unfold actualDelegated at this ⊢
    simp only [hv] at this ⊢
    show dv + df ≤ (if "plock" = "plock" then s.stake "plock" + amt else s.stake "plock") + sumUnb "plock" s.ubds
        + (claim b3 "plock" e).bal "plock" bond
    rw [fK, fP]; omega
  · intro hnv _
    have : s.variant = .nv := hnv
    rw [hv] at this; exact absurd this (by decide)
  · exact hI.scHead
  · exact hI.headUt
  · intro hc t l ht hlt
    have := hI.cust hc t l ht hlt
    unfold custody at this ⊢
    simp only [hv] at this ⊢
    show l ≤ (claim b3 "plock" e).bal lock fee + (claim b3 "plock" e).bal "plock" bond
        + (if "plock" = "plock" then s.stake "plock" + amt else s.stake "plock") + sumUnb "plock" s.ubds
    rw [fL, fP, fK]; omega
  · intro hc
    have hc' : s.created = false := hc
    rw [hcr] at hc'; simp at hc'

theorem inv_sdWithdraw {s s' : St} {c sd : Addr} {amt : Int} (hI : Inv s)
    (h : doSdWithdraw s c sd amt = .ok s') : Inv s' := by
  simp only [doSdWithdraw] at h
  split at h; · simp at h
  rename_i hcv
  split at h; · simp at h
  split at h; · simp at h
  rename_i hneg
  split at h; · simp at h
  split at h; · simp at h
  rename_i dv df htu
  obtain ⟨b1, b2, hpos, h1, h2, es⟩ := modWithdraw_ok h
  rw [proxyOf_lock] at h1 h2
  subst es
  have ha : 0 ≤ amt := by omega
  obtain ⟨x, y, x0, xdf, y0, ydv, xya, hex, edv, edf, _⟩ := trackUndel_facts hI.dv0 hI.df0 ha htu
  have hv : s.variant = .sd := by
    simp only [Bool.or_eq_true, Bool.not_eq_true', decide_eq_true_eq, not_or] at hcv
    have := hcv.2; simpa using this
  have hcr : s.created = true := by
    simp only [Bool.or_eq_true, Bool.not_eq_true', decide_eq_true_eq, not_or] at hcv
    have := hcv.1; simpa using this
  obtain ⟨hle, fL, fS, fP⟩ := withdraw_lock_bal (bk := s.bank) h1 h2
  have hsu := sumUnb_nonneg "plock" s.ubds (ubdNonneg hI)
  constructor
  · exact hI.ol0
  · exact hI.ut0
  · show 0 ≤ dv; omega
  · show 0 ≤ df; omega
  · show 0 ≤ b2.bal lock fee; rw [fL]; have := hI.bL0; omega
  · intro w; show 0 ≤ b2.bal lock (shareOf w); rw [fS]; exact hI.bS0 w
  · show 0 ≤ b2.bal "plock" bond; rw [fP]; omega
  · exact hI.st0
  · exact hI.nodup
  · exact hI.ubd0
  · exact hI.sc0
  · intro hc t l ht hlt
    have := hI.cover hc t l ht hlt
    show l - dv ≤ b2.bal lock fee
    rw [fL, edv]; omega
  · have := hI.tracked
    have := hI.st0
    unfold actualDelegated at *
    simp only [hv] at *
    show dv + df ≤ s.stake "plock" + sumUnb "plock" s.ubds + b2.bal "plock" bond
    rw [fP, edv, edf]
    rcases hex with hx | ⟨hx, hy⟩ <;> omega
  · intro hnv _
    have : s.variant = .nv := hnv
    rw [hv] at this; exact absurd this (by decide)
  · exact hI.scHead
  · exact hI.headUt
  · intro hc t l ht hlt
    have := hI.cust hc t l ht hlt
    unfold custody at this ⊢
    simp only [hv] at this ⊢
    show l ≤ b2.bal lock fee + b2.bal "plock" bond + s.stake "plock" + sumUnb "plock" s.ubds
    rw [fL, fP]; omega
  · intro hc
    have hc' : s.created = false := hc
    rw [hcr] at hc'; simp at hc'

/-! ### all fourteen operations, all histories -/

theorem inv_halted {s : St} (hI : Inv s) : Inv { s with halted := true } :=
  ⟨hI.ol0, hI.ut0, hI.dv0, hI.df0, hI.bL0, hI.bS0, hI.bP0, hI.st0, hI.nodup, hI.ubd0, hI.sc0, hI.cover, hI.tracked, hI.liveNv,
   hI.scHead, hI.headUt, hI.cust, hI.pre⟩

/-- one step of the multi-validator model preserves the invariant, whatever the operation -/
theorem inv_step {s : St} {op : Op} (hI : Inv s) (ho : OpOk op) : Inv (step s op).1 := by
  unfold step
  by_cases hh : s.halted
  · simp [hh]; exact hI
  · simp only [hh, Bool.false_eq_true, if_false]
    cases ha : LockupMV.apply s op with
    | err c => cases op <;> first | exact hI | exact inv_halted hI
    | panic k => exact hI
    | ok s' =>
      show Inv s'
      cases op <;> simp only [OpOk] at ho <;> simp only [LockupMV.apply] at ha
      · exact inv_init hI ho ha
      · exact inv_deposit hI ho (by simpa [LockupMV.apply] using ha)
      · exact inv_block hI ha
      · exact inv_send hI ha
      · exact inv_nvDelegate hI ho ha
      · exact inv_nvUndelegate hI ho ha
      · exact inv_nvWithdrawReward hI ho ha
      · exact inv_sdSelfDelegate hI ho ha
      · exact inv_sdWithdraw hI ha
      · exact inv_pxUndelegate hI ho ha
      · exact inv_pxWithdrawReward hI ho ha
      · exact inv_pxSend hI ha
      · exact inv_modSelfDelegate hI ho ha
      · exact inv_modWithdraw hI ho ha

/-- states from which histories start: any validator set (no duplicates), no lockup account yet, nothing tracked, nothing
    recorded or unbonding, no negative balance -/
def Genesis (s : St) : Prop :=
  s.created = false ∧ s.halted = false ∧ s.DV = 0 ∧ s.DF = 0 ∧ s.OL = 0 ∧ s.entries = [] ∧ s.ubds = [] ∧ s.scUnb = []
  ∧ 0 ≤ s.ut ∧ 0 ≤ s.bank.bal lock fee ∧ (∀ v, 0 ≤ s.bank.bal lock (shareOf v)) ∧ 0 ≤ s.bank.bal "plock" bond
  ∧ 0 ≤ s.stake "plock" ∧ s.vals.Nodup

theorem inv_genesis {s : St} (g : Genesis s) : Inv s := by
  obtain ⟨g1, g2, g3, g4, g5, g6, g7, g8, g9, g10, g11, g12, g13, g14⟩ := g
  have hsh := sumShares_nonneg s.bank s.vals g11
  constructor
  · omega
  · exact g9
  · omega
  · omega
  · exact g10
  · exact g11
  · exact g12
  · exact g13
  · exact g14
  · intro u hu; rw [g7] at hu; simp at hu
  · intro u hu; rw [g8] at hu; simp at hu
  · intro hc; rw [g1] at hc; simp at hc
  · unfold actualDelegated; rw [g3, g4, g6, g7]; cases s.variant <;> simp [totalEntries, sumUnb] <;> omega
  · intro _ _; rw [g3, g4, g8]; simp [sumUnb]; exact hsh
  · intro u hu; rw [g8] at hu; simp at hu
  · intro p hp; rw [g6] at hp; simp at hp
  · intro hc; rw [g1] at hc; simp at hc
  · intro _; exact g8

/-- **inv_run** — the invariant holds after every operation list: any length, any number of validators, any interleaving of
    delegations / undelegations to and from any of them with sends, deposits, proxy and module messages and block times -/
theorem inv_run (ops : List Op) : ∀ (s : St), Inv s → (∀ op ∈ ops, OpOk op) → Inv (run s ops) := by
  induction ops with
  | nil => intro s hI _; exact hI
  | cons op r ih =>
    intro s hI hall
    exact ih (step s op).1 (inv_step hI (hall op (by simp))) (fun o ho => hall o (by simp [ho]))

/-- **outflow_bound** (several validators) — in every reachable state, at the current block time and at any later one, the
    custody set (the account's fee balance, its share tokens of ALL validators / its proxy's stake and bond balance, and the
    unbondings on their way back) is worth at least what the schedule still keeps locked -/
theorem outflow_bound (s0 : St) (ops : List Op) (g : Genesis s0) (hops : ∀ op ∈ ops, OpOk op)
    (hc : (run s0 ops).created = true) (t l : Int) (ht : (run s0 ops).now ≤ t) (hl : lockedT (run s0 ops) t = .ok l) :
    l ≤ custody (run s0 ops) :=
  (inv_run ops s0 (inv_genesis g) hops).cust hc t l ht hl

/-- **tracked_le_actual** (several validators) — DV + DF never exceed what is delegated, unbonding, or unbonded and not yet
    tracked back (nv: share tokens of all validators + the recorded entries of all validators; sd: proxy stake + unbondings +
    bond balance) -/
theorem tracked_le_actual (s0 : St) (ops : List Op) (g : Genesis s0) (hops : ∀ op ∈ ops, OpOk op) :
    0 ≤ (run s0 ops).DV ∧ 0 ≤ (run s0 ops).DF ∧ (run s0 ops).DV + (run s0 ops).DF ≤ actualDelegated (run s0 ops) :=
  let h := inv_run ops s0 (inv_genesis g) hops
  ⟨h.dv0, h.df0, h.tracked⟩

/-! ### owner only -/

/-- every message is atomic: anything but `ok` leaves the state untouched (a failing end-block only halts) -/
theorem step_atomic (s : St) (op : Op) (h : (step s op).2 ≠ "ok") (hb : ∀ t, op ≠ .block t) : (step s op).1 = s := by
  unfold step at h ⊢
  by_cases hh : s.halted
  · simp [hh]
  · simp only [hh, Bool.false_eq_true, if_false] at h ⊢
    cases ha : LockupMV.apply s op with
    | ok s' => simp [ha] at h
    | err c => cases op <;> simp_all
    | panic k => simp

/-- who may act: the lockup handlers for the owner, the proxy handlers for the proxy's root owner; both the message's
    sender field and the actual caller of MsgExecute must be that address — whichever validator the message names -/
def authorised (s : St) : Op → Bool
  | .send c sd _ _ _ => checkSender s.owner c sd
  | .nvDelegate c sd _ _ _ _ => checkSender s.owner c sd
  | .nvUndelegate c sd _ _ _ _ => checkSender s.owner c sd
  | .nvWithdrawReward c sd _ => checkSender s.owner c sd
  | .sdSelfDelegate c sd _ _ => checkSender s.owner c sd
  | .sdWithdraw c sd _ => checkSender s.owner c sd
  | .pxUndelegate d c sd _ _ => checkSender (rootOwner s d) c sd
  | .pxWithdrawReward d c sd _ => checkSender (rootOwner s d) c sd
  | .pxSend d c sd _ _ _ => checkSender (rootOwner s d) c sd
  | _ => true

theorem apply_unauthorised (s : St) (op : Op) (h : authorised s op = false) : ∃ c, LockupMV.apply s op = .err c := by
  cases op <;> simp only [authorised] at h <;> (try exact absurd h (by decide)) <;>
    simp only [LockupMV.apply, doSend, doNvDelegate, doNvUndelegate, doNvWithdrawReward, doSdSelfDelegate, doSdWithdraw,
      doPxUndelegate, doPxWithdrawReward, doPxSend, h, Bool.not_false, if_true] <;>
    (split <;> exact ⟨_, rfl⟩)

/-- **owner_only** (several validators) — an account handler invoked by anybody but the owner (proxy: root owner), including an
    outer signer that merely NAMES the owner in the sender field, for ANY validator argument, is an error and changes nothing -/
theorem owner_only (s : St) (op : Op) (h : authorised s op = false) : step s op = (s, "err") ∨ step s op = (s, "halted") := by
  obtain ⟨c, hc⟩ := apply_unauthorised s op h
  unfold step
  by_cases hh : s.halted
  · right; simp [hh]
  · left
    simp only [hh, Bool.false_eq_true, if_false, hc]
    cases op <;> simp [authorised] at h ⊢

example : authorised { owner := "a0", created := true, vals := ["v0", "v1"] } (.nvUndelegate "a2" "a0" "v1" fee 700 {}) = false := by
  decide

/-! ### non-vacuity: a three-validator history meets every hypothesis of the theorems above and goes through the interesting
    branches: delegations of locked coins to v0, v1, v2; undelegations from v2 (later key) FIRST, then from v0 in a later block,
    a second one from v2 in the same block as the first (merged into one entry); the v2 unbonding matures and is paid back while
    the v0 entry — EARLIER in the walk — is still pending: the account is blocked (the matured record of the later key is not
    hidden by the pending record of the earlier key), the paid-back coins cannot be sent, a further delegation is refused;
    undelegating is still possible. -/
def exGenesis : St :=
  { bank := Bank.empty.credit "a1" fee 5000, now := 100000000000, ut := 20000000000, vals := ["v0", "v1", "v2"] }
def exOps : List Op := [
  .init .nv "a1" "a0" 1000 false 110000000000 false 210000000000,
  .nvDelegate "a0" "a0" "v0" fee 300 { share := 300 },
  .nvDelegate "a0" "a0" "v2" fee 250 { share := 250 },
  .nvDelegate "a0" "a0" "v1" fee 150 { share := 150, rewFee := 2 },
  .block 120000000000,
  .nvUndelegate "a0" "a0" "v2" fee 100 { share := 100 },
  .nvUndelegate "a0" "a0" "v2" fee 50 { share := 50 },
  .block 125000000000,
  .nvUndelegate "a0" "a0" "v0" fee 120 { share := 120, rewFee := 1 },
  .block 140000000500,
  .send "a0" "a0" "a2" fee 100,
  .nvDelegate "a0" "a0" "v1" fee 10 { share := 10 },
  .nvUndelegate "a0" "a0" "v1" fee 40 { share := 40 } ]

/-- the outcome class of every step of a history -/
def outcomes (s : St) : List Op → List String
  | [] => []
  | op :: r => (step s op).2 :: outcomes (step s op).1 r

example : Genesis exGenesis := by
  refine ⟨rfl, rfl, rfl, rfl, rfl, rfl, rfl, rfl, ?_, ?_, ?_, ?_, ?_, ?_⟩
  · decide
  · decide
  · intro v; show (0 : Int) ≤ (Bank.empty.credit "a1" fee 5000).bal lock (shareOf v)
    simp [Bank.credit_bal, Bank.empty, lock]
  · decide
  · decide
  · decide
example : ∀ op ∈ exOps, OpOk op := by
  intro op h
  simp only [exOps, List.mem_cons, List.mem_nil_iff, or_false] at h
  rcases h with h | h | h | h | h | h | h | h | h | h | h | h | h <;> subst h <;> simp [OpOk, extOk, lock]
example : outcomes exGenesis exOps = ["ok", "ok", "ok", "ok", "ok", "ok", "ok", "ok", "ok", "ok", "err", "err", "ok"] := by decide
example : (run exGenesis exOps).entries
      = [("v0", [⟨145000000000, 120, 2⟩]), ("v1", [⟨160000000500, 40, 3⟩]), ("v2", [⟨140000000000, 150, 1⟩])]
    ∧ blocked (run exGenesis exOps) = true
    ∧ (run exGenesis exOps).scUnb = [⟨lock, 120, 145000000000⟩, ⟨lock, 40, 160000000500⟩]
    ∧ (run exGenesis exOps).DV = 700 ∧ (run exGenesis exOps).DF = 0
    ∧ (run exGenesis exOps).bank.bal lock fee = 453
    ∧ sumShares (run exGenesis exOps).bank (run exGenesis exOps).vals = 390
    ∧ custody (run exGenesis exOps) = 1003 ∧ actualDelegated (run exGenesis exOps) = 700
    ∧ (match lockedT (run exGenesis exOps) 140000000500 with | .ok v => v | _ => -1) = 700 := by decide

end Sunrise.C12MV
