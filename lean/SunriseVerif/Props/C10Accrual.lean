import SunriseVerif.Model.SCAccrual
import SunriseVerif.Props.C10Kernel
import Mathlib.Tactic.Linarith
import Mathlib.Tactic.Ring
import Mathlib.Tactic.Positivity
import Mathlib.Tactic.NormNum
import Mathlib.Tactic.FieldSimp
import Mathlib.Algebra.Order.Field.Rat
import Mathlib.Algebra.Order.Field.Basic
import Mathlib.Algebra.Order.Ring.Cast
/-!
C10 (accrual) — rewards of non-voting delegators are accounted exactly once, for whole histories.
Theorems over the accrual abstraction `SCAccrual` (one validator, one reward denom; unbounded histories of rewards with
and without shares, claims, share-balance changes after a claim, new holders; exact rational multiplier, every 34-digit
evaluation off by at most its declared error `e`, accumulated in `slack`):
* `inv_reachable`          — in every reachable state  Σ_i (M − m_i)·share_i + paid ≤ recv + slack,  m_i ≤ M, 0 ≤ share_i;
* `claims_le_received`     — headline: paid + Σ claimable ≤ recv + slack;
* `paid_le_received`       — integer corollary: while slack < 1 coin, integer `paid` ≤ integer `recv`;
* `claim_covered`, `claim_payable` — what a guarded claim pays is at most (recv − paid) + slack + e, so while slack + e < 1
                             the reward saver's integer balance covers the integer payment (no claim fails for lack of funds);
* `claim_le_accrued`, `second_claim_le_error` — a claim pays at most the holder's own exact accrual + e; a second claim
                             directly after a claim pays at most its own rounding error (0 for an integer payment, e < 1);
* `supply_step`            — the supply is the sum of balances and changes only by `setShares`;
* `slack_bound`            — for histories whose errors are RELATIVE (≤ R/k per reward, ≤ accrual/k per claim; the 34-digit
                             kernels give k = 2·10^33):  k²·slack ≤ (2k+1)·recv, hence
* `paid_le_received_tight` — with k = 2·10^33 and recv < 10^33: integer paid ≤ integer recv, and
  `claim_payable_tight`    — every claim is payable, without any hypothesis on the slack.
Kernel connection (regenerated kernels of x/shareclass/types/types.go over Model/Dec34, ℚ layer of Props/C10Kernel), for
ALL arguments (no magnitude bound is needed):
* `reward_guard_kernel`    — `CalculateRewardMultiplierNew M R T` (R ≥ 0, T > 0) does not lower the multiplier and
                             (M' − M)·T ≤ R + R/K with K = 2·10^33 (the quotient is rounded once, the sum is exact);
                             `reward_guard_op`: it satisfies guard and tightness of `Op.reward R (val M') (R/K)`;
                             `val_reparse`: storing the multiplier as text and parsing it back does not change its value;
* `claim_guard_kernel`     — `CalculateReward M m share` (m ≤ M, share ≥ 0) is ≥ 0 and ≤ x + x/K with x = (M − m)·share;
                             `claim_guard_op`: it satisfies guard and tightness of `Op.claim i pay (x/K)`.
Store level (Model/ShareClass.lean): `delegate_checkpointed`, `undelegate_checkpointed` — a successful NonVotingDelegate /
NonVotingUndelegate leaves its sender checkpointed at the current multiplier of every denom, which is the guard `m_i = M`
of `setShares` (the share balance changes only after the claim); `store_claim_bound` — `claimableByDenom` meets the
`claim` guard.
Not proved here: the full refinement from the store-level model `ShareClass.step` to sequences of these operations (it needs the
bank invariant supply = Σ balances over an explicit holder list and the per-denom bookkeeping of the coin folds).
Non-vacuity: `r9` — two holders (30 and 70 shares), a reward of 7 whose multiplier is rounded UP (e > 0), both claim,
one undelegates, a second reward.
-/
set_option linter.unusedSimpArgs false
set_option linter.unusedVariables false
namespace Sunrise.C10Accrual
open Sunrise Sunrise.SCAccrual

-- ------------------------------------------------------------------------------------------------ sums
theorem accrued_nonneg {M : Rat} {u : User} (h : 0 ≤ u.share ∧ u.m ≤ M) : 0 ≤ accrued M u := by
  have h1 : (0 : Rat) ≤ (u.share : Rat) := Int.cast_nonneg h.1
  unfold accrued
  exact mul_nonneg (by linarith [h.2]) h1

theorem owed_nonneg (M : Rat) (l : List User) (h : ∀ u ∈ l, 0 ≤ u.share ∧ u.m ≤ M) : 0 ≤ owed M l := by
  induction l with
  | nil => simp [owed]
  | cons x xs ih =>
    have hx := accrued_nonneg (h x List.mem_cons_self)
    have := ih (fun y hy => h y (List.mem_cons_of_mem _ hy))
    simp only [owed]; linarith

theorem accrued_le_owed (M : Rat) (l : List User) (h : ∀ u ∈ l, 0 ≤ u.share ∧ u.m ≤ M) (i : Nat) (u : User)
    (hi : l[i]? = some u) : accrued M u ≤ owed M l := by
  induction l generalizing i with
  | nil => simp at hi
  | cons y ys ih =>
    have hy := accrued_nonneg (h y List.mem_cons_self)
    have hn := owed_nonneg M ys (fun z hz => h z (List.mem_cons_of_mem _ hz))
    simp only [owed]
    cases i with
    | zero => simp at hi; subst hi; linarith
    | succ j =>
      simp at hi
      have := ih (fun z hz => h z (List.mem_cons_of_mem _ hz)) j hi
      linarith

/-- raising the multiplier raises the total claimable by exactly ΔM · supply -/
theorem owed_shift (M M' : Rat) (l : List User) : owed M' l = owed M l + (M' - M) * (supply l : Rat) := by
  induction l with
  | nil => simp [owed, supply]
  | cons x xs ih =>
    simp only [owed, supply, ih, accrued]
    push_cast
    ring

theorem owed_append (M : Rat) (l r : List User) : owed M (l ++ r) = owed M l + owed M r := by
  induction l with
  | nil => simp [owed]
  | cons x xs ih => simp only [List.cons_append, owed, ih]; ring

theorem supply_append (l r : List User) : supply (l ++ r) = supply l + supply r := by
  induction l with
  | nil => simp [supply]
  | cons x xs ih => simp only [List.cons_append, supply, ih]; ring

/-- checkpointing holder i at the current multiplier removes exactly its accrual from the total -/
theorem owed_checkpoint (M : Rat) (l : List User) (i : Nat) (u : User) (hi : l[i]? = some u) :
    owed M (modifyAt (fun u => { u with m := M }) l i) = owed M l - accrued M u := by
  induction l generalizing i with
  | nil => simp at hi
  | cons y ys ih =>
    cases i with
    | zero =>
      simp at hi; subst hi
      simp only [modifyAt, owed, accrued]
      ring
    | succ j =>
      simp at hi
      simp only [modifyAt, owed, ih j hi]
      ring

/-- changing the balance of a holder that is checkpointed at the current multiplier changes nothing claimable -/
theorem owed_setShares (M : Rat) (l : List User) (i : Nat) (δ : Int) (u : User) (hi : l[i]? = some u) (hm : u.m = M) :
    owed M (modifyAt (fun u => { u with share := u.share + δ }) l i) = owed M l := by
  induction l generalizing i with
  | nil => simp at hi
  | cons y ys ih =>
    cases i with
    | zero =>
      simp at hi; subst hi
      simp only [modifyAt, owed, accrued, hm]
      ring
    | succ j =>
      simp at hi
      simp only [modifyAt, owed, ih j hi]

theorem supply_checkpoint (M : Rat) (l : List User) (i : Nat) :
    supply (modifyAt (fun u => { u with m := M }) l i) = supply l := by
  induction l generalizing i with
  | nil => rfl
  | cons y ys ih =>
    cases i with
    | zero => rfl
    | succ j => simp only [modifyAt, supply, ih j]

theorem supply_setShares (l : List User) (i : Nat) (δ : Int) (u : User) (hi : l[i]? = some u) :
    supply (modifyAt (fun u => { u with share := u.share + δ }) l i) = supply l + δ := by
  induction l generalizing i with
  | nil => simp at hi
  | cons y ys ih =>
    cases i with
    | zero => simp only [modifyAt, supply]; ring
    | succ j =>
      simp at hi
      simp only [modifyAt, supply, ih j hi]; ring

theorem mem_modifyAt (f : User → User) (l : List User) (i : Nat) (x : User) (hx : x ∈ modifyAt f l i) :
    x ∈ l ∨ ∃ u, l[i]? = some u ∧ x = f u := by
  induction l generalizing i with
  | nil => simp [modifyAt] at hx
  | cons y ys ih =>
    cases i with
    | zero =>
      simp only [modifyAt, List.mem_cons] at hx
      rcases hx with h | h
      · exact Or.inr ⟨y, by simp, h⟩
      · exact Or.inl (List.mem_cons_of_mem _ h)
    | succ j =>
      simp only [modifyAt, List.mem_cons] at hx
      rcases hx with h | h
      · exact Or.inl (by simp [h])
      · rcases ih j h with h | ⟨u, hu, hxu⟩
        · exact Or.inl (List.mem_cons_of_mem _ h)
        · exact Or.inr ⟨u, by simpa using hu, hxu⟩

theorem mem_of_getElem? {l : List User} {i : Nat} {u : User} (h : l[i]? = some u) : u ∈ l :=
  List.mem_of_getElem? h

-- ------------------------------------------------------------------------------------------------ the invariant
theorem inv_init : Inv init :=
  ⟨le_refl _, le_refl _, fun u hu => by simp [init] at hu, by simp [init, owed]⟩

theorem inv_step {s : St} {op : Op} (hI : Inv s) (hg : op.guard s) : Inv (step s op) := by
  obtain ⟨hs, hp, hwf, hc⟩ := hI
  cases op with
  | reward R M' e =>
    obtain ⟨he, hR, hT, hM, hb⟩ := hg
    refine ⟨?_, hp, ?_, ?_⟩
    · show 0 ≤ s.slack + e; linarith
    · intro u hu
      have := hwf u hu
      exact ⟨this.1, le_trans this.2 hM⟩
    · show owed M' s.users + s.paid ≤ s.recv + R + (s.slack + e)
      rw [owed_shift s.M M']
      linarith
  | rewardNoShares R =>
    have hR : 0 ≤ R := hg
    refine ⟨hs, hp, hwf, ?_⟩
    show owed s.M s.users + s.paid ≤ s.recv + R + s.slack
    linarith
  | claim i pay e =>
    obtain ⟨he, hpay, u, hu, hb⟩ := hg
    refine ⟨?_, ?_, ?_, ?_⟩
    · show 0 ≤ s.slack + e; linarith
    · show 0 ≤ s.paid + pay; linarith
    · intro x hx
      rcases mem_modifyAt _ _ _ _ hx with h | ⟨y, hy, rfl⟩
      · exact hwf x h
      · exact ⟨(hwf y (mem_of_getElem? hy)).1, le_refl _⟩
    · show owed s.M (modifyAt (fun u => { u with m := s.M }) s.users i) + (s.paid + pay) ≤ s.recv + (s.slack + e)
      rw [owed_checkpoint s.M s.users i u hu]
      linarith
  | setShares i δ =>
    obtain ⟨u, hu, hm, hb⟩ := hg
    refine ⟨hs, hp, ?_, ?_⟩
    · intro x hx
      rcases mem_modifyAt _ _ _ _ hx with h | ⟨y, hy, rfl⟩
      · exact hwf x h
      · have hyu : y = u := by rw [hu] at hy; exact (Option.some.inj hy).symm
        subst hyu
        exact ⟨hb, (hwf y (mem_of_getElem? hu)).2⟩
    · show owed s.M (modifyAt (fun u => { u with share := u.share + δ }) s.users i) + s.paid ≤ s.recv + s.slack
      rw [owed_setShares s.M s.users i δ u hu hm]
      exact hc
  | join m =>
    have hm : m ≤ s.M := hg
    refine ⟨hs, hp, ?_, ?_⟩
    · intro x hx
      have hx' : x ∈ s.users ++ [⟨0, m⟩] := hx
      rcases List.mem_append.mp hx' with h | h
      · exact hwf x h
      · simp at h; subst h; exact ⟨le_refl _, hm⟩
    · show owed s.M (s.users ++ [⟨0, m⟩]) + s.paid ≤ s.recv + s.slack
      rw [owed_append]
      simp only [owed, accrued]
      push_cast
      linarith

/-- C10 accrual: the invariant holds in every reachable state -/
theorem inv_reachable {s : St} (h : Reachable s) : Inv s := by
  induction h with
  | init => exact inv_init
  | step op _ hg ih => exact inv_step ih hg

-- ------------------------------------------------------------------------------------------------ headline
/-- claims_le_received: in every reachable state what was paid to claimants plus the exact total all holders can still
    claim is at most what the reward saver received, up to the accumulated rounding slack -/
theorem claims_le_received (s : St) (h : Reachable s) : s.paid + owed s.M s.users ≤ s.recv + s.slack := by
  have := (inv_reachable h).cover
  linarith

theorem owed_nonneg_of_inv {s : St} (hI : Inv s) : 0 ≤ owed s.M s.users := owed_nonneg s.M s.users hI.wf

/-- an integer amount bounded by an integer amount plus less than one coin is bounded by it -/
theorem int_le_of_lt_one {a b : Int} {r : Rat} (h : (a : Rat) ≤ (b : Rat) + r) (hr : r < 1) : a ≤ b := by
  have h1 : (a : Rat) < ((b + 1 : Int) : Rat) := by push_cast; linarith
  have h2 : a < b + 1 := Int.cast_lt.mp h1
  omega

/-- integer corollary: while the accumulated slack is below one coin, the total paid never exceeds the total received -/
theorem paid_le_received (s : St) (h : Reachable s) (hs : s.slack < 1) (p r : Int) (hp : s.paid = (p : Rat))
    (hr : s.recv = (r : Rat)) : p ≤ r := by
  have h1 := claims_le_received s h
  have h2 := owed_nonneg_of_inv (inv_reachable h)
  rw [hp, hr] at h1
  exact int_le_of_lt_one (r := s.slack) (by linarith) hs

-- ------------------------------------------------------------------------------------------------ claims
/-- a claim pays at most the holder's own exact accrual plus its rounding error -/
theorem claim_le_accrued {s : St} {i : Nat} {pay e : Rat} (hg : (Op.claim i pay e).guard s) :
    ∃ u, s.users[i]? = some u ∧ pay ≤ (s.M - u.m) * (u.share : Rat) + e := by
  obtain ⟨_, _, u, hu, hb⟩ := hg
  exact ⟨u, hu, hb⟩

/-- what a guarded claim pays is covered by the reward saver's balance (received − paid), the accumulated slack and
    its own rounding error -/
theorem claim_covered {s : St} {i : Nat} {pay e : Rat} (hI : Inv s) (hg : (Op.claim i pay e).guard s) :
    pay ≤ s.recv - s.paid + s.slack + e := by
  obtain ⟨_, _, u, hu, hb⟩ := hg
  have h1 := accrued_le_owed s.M s.users hI.wf i u hu
  have h2 := hI.cover
  linarith

/-- while slack + e stays below one coin, an integer claim never exceeds the reward saver's integer balance: no claim
    (and hence no delegate/undelegate, which claim first) fails for lack of funds -/
theorem claim_payable {s : St} {i : Nat} {pay e : Rat} (hI : Inv s) (hg : (Op.claim i pay e).guard s)
    (hs : s.slack + e < 1) (pz bz : Int) (hp : pay = (pz : Rat)) (hb : s.recv - s.paid = (bz : Rat)) : pz ≤ bz := by
  have h := claim_covered hI hg
  rw [hp] at h
  exact int_le_of_lt_one (r := s.slack + e) (by linarith) hs

/-- second_claim_zero (abstract form): a claim directly after a claim of the same holder pays at most its own rounding
    error — nothing, if the payment is an integer and the error below one coin -/
theorem second_claim_le_error {s : St} {i : Nat} {pay e pay' e' : Rat} (hg : (Op.claim i pay e).guard s)
    (hg' : (Op.claim i pay' e').guard (step s (.claim i pay e))) : pay' ≤ e' := by
  obtain ⟨_, _, u, hu, _⟩ := hg
  obtain ⟨_, _, u', hu', hb'⟩ := hg'
  have hu'' : (modifyAt (fun u => { u with m := s.M }) s.users i)[i]? = some u' := hu'
  have key : ∀ (l : List User) (j : Nat) (x y : User), l[j]? = some x →
      (modifyAt (fun u => { u with m := s.M }) l j)[j]? = some y → y.m = s.M := by
    intro l
    induction l with
    | nil => intro j x y h; simp at h
    | cons z zs ih =>
      intro j x y h h'
      cases j with
      | zero => simp [modifyAt] at h'; rw [← h']
      | succ k =>
        simp at h
        simp [modifyAt] at h'
        exact ih k x y h h'
  have hm := key s.users i u u' hu hu''
  have hacc : accrued s.M u' = 0 := by unfold accrued; rw [hm]; ring
  have hb'' : pay' ≤ accrued s.M u' + e' := hb'
  linarith

theorem second_claim_zero {s : St} {i : Nat} {pay e pay' e' : Rat} (hg : (Op.claim i pay e).guard s)
    (hg' : (Op.claim i pay' e').guard (step s (.claim i pay e))) (he : e' < 1) (pz : Int) (hp : pay' = (pz : Rat)) :
    pz = 0 := by
  have h := second_claim_le_error hg hg'
  have h0 : 0 ≤ pay' := hg'.2.1
  rw [hp] at h h0
  have h1 : pz ≤ 0 := int_le_of_lt_one (a := pz) (b := 0) (r := e') (by push_cast; linarith) he
  have h2 : (0 : Int) ≤ pz := by exact_mod_cast h0
  omega

/-- the supply is changed by `setShares` only (and by exactly δ) -/
theorem supply_step (s : St) (op : Op) (hg : op.guard s) :
    supply (step s op).users = supply s.users + (match op with | .setShares _ δ => δ | _ => 0) := by
  cases op with
  | reward R M' e => simp [step]
  | rewardNoShares R => simp [step]
  | claim i pay e => simp only [step]; rw [supply_checkpoint]; simp
  | setShares i δ =>
    obtain ⟨u, hu, _, _⟩ := hg
    simp only [step]
    exact supply_setShares s.users i δ u hu
  | join m => simp only [step]; rw [supply_append]; simp [supply]

-- ------------------------------------------------------------------------------------------------ relative errors
/-- the slack of a history with relative errors, split into the part made by rewards and the part made by claims -/
structure InvT (k : Rat) (s : St) : Prop where
  inv : Inv s
  split : ∃ sr sc : Rat, s.slack = sr + sc ∧ 0 ≤ sr ∧ 0 ≤ sc ∧ k * sr ≤ s.recv ∧ k * sc + owed s.M s.users ≤ s.recv + sr

theorem reachableT_reachable {k : Rat} {s : St} (h : ReachableT k s) : Reachable s := by
  induction h with
  | init => exact Reachable.init
  | step op _ hg _ ih => exact Reachable.step op ih hg

theorem invT_step {k : Rat} (hk : 0 ≤ k) {s : St} {op : Op} (hI : InvT k s) (hg : op.guard s) (ht : op.tight k s) :
    InvT k (step s op) := by
  obtain ⟨hI, sr, sc, hsl, hsr, hsc, h1, h2⟩ := hI
  refine ⟨inv_step hI hg, ?_⟩
  cases op with
  | reward R M' e =>
    obtain ⟨he, hR, hT, hM, hb⟩ := hg
    have ht' : k * e ≤ R := ht
    refine ⟨sr + e, sc, ?_, by linarith, hsc, ?_, ?_⟩
    · show s.slack + e = sr + e + sc; linarith
    · show k * (sr + e) ≤ s.recv + R; linarith
    · show k * sc + owed M' s.users ≤ s.recv + R + (sr + e)
      rw [owed_shift s.M M']
      linarith
  | rewardNoShares R =>
    have hR : 0 ≤ R := hg
    refine ⟨sr, sc, hsl, hsr, hsc, ?_, ?_⟩
    · show k * sr ≤ s.recv + R; linarith
    · show k * sc + owed s.M s.users ≤ s.recv + R + sr; linarith
  | claim i pay e =>
    obtain ⟨he, hpay, u, hu, hb⟩ := hg
    obtain ⟨u', hu', hte⟩ := ht
    have huu : u' = u := by rw [hu] at hu'; exact (Option.some.inj hu').symm
    subst huu
    refine ⟨sr, sc + e, ?_, hsr, by linarith, h1, ?_⟩
    · show s.slack + e = sr + (sc + e); linarith
    · show k * (sc + e) + owed s.M (modifyAt (fun u => { u with m := s.M }) s.users i) ≤ s.recv + sr
      rw [owed_checkpoint s.M s.users i u' hu]
      linarith
  | setShares i δ =>
    obtain ⟨u, hu, hm, hb⟩ := hg
    refine ⟨sr, sc, hsl, hsr, hsc, h1, ?_⟩
    show k * sc + owed s.M (modifyAt (fun u => { u with share := u.share + δ }) s.users i) ≤ s.recv + sr
    rw [owed_setShares s.M s.users i δ u hu hm]
    exact h2
  | join m =>
    refine ⟨sr, sc, hsl, hsr, hsc, h1, ?_⟩
    show k * sc + owed s.M (s.users ++ [⟨0, m⟩]) ≤ s.recv + sr
    rw [owed_append]
    simp only [owed, accrued]
    push_cast
    linarith

theorem invT_reachable {k : Rat} (hk : 0 ≤ k) {s : St} (h : ReachableT k s) : InvT k s := by
  induction h with
  | init => exact ⟨inv_init, 0, 0, by simp [init], le_refl _, le_refl _, by simp [init], by simp [init, owed]⟩
  | step op _ hg ht ih => exact invT_step hk ih hg ht

/-- with relative rounding errors ≤ 1/k the accumulated slack is at most (2k+1)/k² of what was received -/
theorem slack_bound {k : Rat} (hk : 0 < k) {s : St} (h : ReachableT k s) : k * k * s.slack ≤ (2 * k + 1) * s.recv := by
  obtain ⟨hI, sr, sc, hsl, hsr, hsc, h1, h2⟩ := invT_reachable hk.le h
  have h0 := owed_nonneg_of_inv hI
  have h3 : k * s.slack ≤ 2 * s.recv + sr := by rw [hsl]; linarith
  have h4 := mul_le_mul_of_nonneg_left h3 hk.le
  have h5 : k * (k * s.slack) = k * k * s.slack := by ring
  have h6 : k * (2 * s.recv + sr) = 2 * k * s.recv + k * sr := by ring
  rw [h5, h6] at h4
  have h7 : (2 * k + 1) * s.recv = 2 * k * s.recv + s.recv := by ring
  rw [h7]
  linarith

theorem recv_nonneg {k : Rat} (hk : 0 < k) {s : St} (h : ReachableT k s) : 0 ≤ s.recv := by
  obtain ⟨_, sr, sc, _, hsr, _, h1, _⟩ := invT_reachable hk.le h
  have : 0 ≤ k * sr := mul_nonneg hk.le hsr
  linarith

theorem slack_lt_one {k : Rat} (hk : 0 < k) {s : St} (h : ReachableT k s) (hr : (2 * k + 1) * s.recv < k * k) :
    s.slack < 1 := by
  have h1 := slack_bound hk h
  have h2 : k * k * s.slack < k * k * 1 := by linarith
  exact lt_of_mul_lt_mul_left h2 (by positivity)

/-- the relative error of one half-up rounding to 34 significant digits: 1/(2·10^33) -/
abbrev K : Rat := C10.K

theorem range_K (x : Rat) (h0 : 0 ≤ x) (hx : x ≤ 500000000000000000000000000000000) :
    (2 * K + 1) * x < K * K := by
  have hK : K = 2000000000000000000000000000000000 := rfl
  rw [hK]
  nlinarith

/-- rewards are accounted exactly once (integer form, 34-digit errors): as long as the reward saver received at most
    5·10^32 coins of the denom (the supply cap is 10^15), the total paid to claimants never exceeds the total received -/
theorem paid_le_received_tight (s : St) (h : ReachableT K s) (p r : Int) (hp : s.paid = (p : Rat))
    (hr : s.recv = (r : Rat)) (hcap : r ≤ 500000000000000000000000000000000) : p ≤ r := by
  have hK : (0 : Rat) < K := C10.K_pos
  have h0 := recv_nonneg hK h
  have hc : s.recv ≤ 500000000000000000000000000000000 := by rw [hr]; exact_mod_cast hcap
  have hs := slack_lt_one hK h (range_K s.recv h0 hc)
  exact paid_le_received s (reachableT_reachable h) hs p r hp hr

/-- … and every claim (alone or inside a delegate/undelegate) can be paid from the reward saver: the integer payment is at
    most the saver's integer balance received − paid -/
theorem claim_payable_tight (s : St) (h : ReachableT K s) (i : Nat) (pay e : Rat) (hg : (Op.claim i pay e).guard s)
    (ht : (Op.claim i pay e).tight K s) (pz bz r : Int) (hp : pay = (pz : Rat)) (hb : s.recv - s.paid = (bz : Rat))
    (hr : s.recv = (r : Rat)) (hcap : r ≤ 500000000000000000000000000000000) : pz ≤ bz := by
  have hK : (0 : Rat) < K := C10.K_pos
  have h' : ReachableT K (step s (.claim i pay e)) := ReachableT.step _ h hg ht
  have h0 := recv_nonneg hK h'
  have hrecv : (step s (.claim i pay e)).recv = s.recv := rfl
  have hc : s.recv ≤ 500000000000000000000000000000000 := by rw [hr]; exact_mod_cast hcap
  have hs := slack_lt_one hK h' (by rw [hrecv]; exact range_K s.recv (by rw [← hrecv]; exact h0) hc)
  have hs' : s.slack + e < 1 := hs
  exact claim_payable (inv_reachable (reachableT_reachable h)) hg hs' pz bz hp hb

-- ------------------------------------------------------------------------------------------------ kernels
section Kernels
open Sunrise.Gen.KernelsShare Sunrise.C10

theorem val_nonneg_iff (x : D34) : 0 ≤ val x ↔ 0 ≤ x.c := by
  have hp : (0 : ℚ) < (10 : ℚ) ^ x.e := zpow_pos (by norm_num) _
  unfold val
  constructor
  · intro h
    have : (0 : ℚ) ≤ (x.c : ℚ) := by
      by_contra hc
      have hc' : (x.c : ℚ) < 0 := not_le.mp hc
      have := mul_neg_of_neg_of_pos hc' hp
      linarith
    exact_mod_cast this
  · intro h
    have : (0 : ℚ) ≤ (x.c : ℚ) := by exact_mod_cast h
    exact mul_nonneg this hp.le

/-- the text round trip of a stored multiplier (`String()` → `NewDecFromString`) keeps its value -/
theorem val_reparse (x : D34) : val (D34.reparse x) = val x := by
  unfold D34.reparse
  simp only
  split_ifs with h
  · have he : x.e = ((x.e.toNat : ℕ) : ℤ) := (Int.toNat_of_nonneg (by omega)).symm
    unfold val
    simp only [zpow_zero, mul_one]
    conv_rhs => rw [he, zpow_natCast]
    push_cast
    ring
  · rfl

/-- `CalculateRewardMultiplierNew` for ALL arguments with R ≥ 0, T > 0: the multiplier does not decrease and rises by at
    most R/T·(1 + 1/K), K = 2·10^33 (one half-up rounding of the quotient; the sum is exact) -/
theorem reward_guard_kernel (M : D34) (R T : Int) (hR : 0 ≤ R) (hT : 0 < T) :
    val M ≤ val (CalculateRewardMultiplierNew M R T)
    ∧ (val (CalculateRewardMultiplierNew M R T) - val M) * (T : ℚ) ≤ (R : ℚ) + (R : ℚ) / K := by
  obtain ⟨q0, qA⟩ := quo_spec R T hR hT
  have hv : val (CalculateRewardMultiplierNew M R T) = val M + val (D34.quo (D34.ofInt R) (D34.ofInt T)) := by
    show val (D34.add M _) = _
    rw [val_add]
  have hw := (val_nonneg_iff _).2 q0
  rw [hv]
  generalize val (D34.quo (D34.ofInt R) (D34.ofInt T)) = w at qA hw
  have hK : (0 : ℚ) < K := K_pos
  have hTq : (0 : ℚ) < (T : ℚ) := by exact_mod_cast hT
  refine ⟨by linarith, ?_⟩
  have h1 : K * w * (T : ℚ) ≤ (K + 1) * ((R : ℚ) / (T : ℚ)) * (T : ℚ) := mul_le_mul_of_nonneg_right qA.1 hTq.le
  have h2 : (K + 1) * ((R : ℚ) / (T : ℚ)) * (T : ℚ) = (K + 1) * (R : ℚ) := by field_simp
  rw [h2] at h1
  have h3 : K * ((val M + w - val M) * (T : ℚ)) ≤ K * ((R : ℚ) + (R : ℚ) / K) := by
    have : K * ((R : ℚ) + (R : ℚ) / K) = (K + 1) * (R : ℚ) := by field_simp
    rw [this]
    have : K * ((val M + w - val M) * (T : ℚ)) = K * w * (T : ℚ) := by ring
    rw [this]
    exact h1
  exact le_of_mul_le_mul_left h3 hK

/-- `CalculateReward` for ALL arguments with checkpoint ≤ multiplier and share ≥ 0: the payment is non-negative and at
    most x·(1 + 1/K) for the exact accrual x = (M − m)·share (one half-up rounding of the product; the subtraction is
    exact and the truncation to an integer only lowers the payment) -/
theorem claim_guard_kernel (M m : D34) (share : Int) (hm : val m ≤ val M) (hs : 0 ≤ share) :
    0 ≤ CalculateReward M m share
    ∧ ((CalculateReward M m share : ℤ) : ℚ) ≤ (val M - val m) * (share : ℚ) + (val M - val m) * (share : ℚ) / K := by
  have hd : 0 ≤ (D34.sub M m).c := (val_nonneg_iff _).1 (by rw [val_sub]; linarith)
  obtain ⟨p0, pA⟩ := mul_spec (D34.sub M m) (D34.ofInt share) hd hs
  obtain ⟨t1, t2⟩ := trim_spec _ p0
  rw [val_ofInt, val_sub] at pA
  have hK : (0 : ℚ) < K := K_pos
  show 0 ≤ D34.sdkIntTrim (D34.mul (D34.sub M m) (D34.ofInt share))
    ∧ ((D34.sdkIntTrim (D34.mul (D34.sub M m) (D34.ofInt share)) : ℤ) : ℚ) ≤ _
  have hw := (val_nonneg_iff _).2 p0
  generalize D34.sdkIntTrim (D34.mul (D34.sub M m) (D34.ofInt share)) = r at t1 t2
  generalize val (D34.mul (D34.sub M m) (D34.ofInt share)) = w at pA t1 t2 hw
  constructor
  · have : ((-1 : ℤ) : ℚ) < (r : ℚ) := by push_cast; linarith
    have : (-1 : ℤ) < r := Int.cast_lt.mp this
    omega
  · have h1 := pA.1
    have h3 : K * (r : ℚ) ≤ K * ((val M - val m) * (share : ℚ) + (val M - val m) * (share : ℚ) / K) := by
      have : K * ((val M - val m) * (share : ℚ) + (val M - val m) * (share : ℚ) / K)
          = (K + 1) * ((val M - val m) * (share : ℚ)) := by field_simp
      rw [this]
      have : K * (r : ℚ) ≤ K * w := mul_le_mul_of_nonneg_left t1 hK.le
      linarith
    exact le_of_mul_le_mul_left h3 hK

/-- the multiplier update of `handleRewards` is an admissible, tight `reward` step of the abstraction, with the
    explicit error e = R/K (≤ 5·10^-18 for R ≤ 10^16) -/
theorem reward_guard_op (s : St) (M : D34) (R T : Int) (hR : 0 ≤ R) (hT : 0 < T) (hM : s.M = val M)
    (hsup : supply s.users = T) :
    (Op.reward (R : ℚ) (val (D34.reparse (CalculateRewardMultiplierNew M R T))) ((R : ℚ) / K)).guard s
    ∧ (Op.reward (R : ℚ) (val (D34.reparse (CalculateRewardMultiplierNew M R T))) ((R : ℚ) / K)).tight K s := by
  obtain ⟨h1, h2⟩ := reward_guard_kernel M R T hR hT
  have hK : (0 : ℚ) < K := K_pos
  have hRq : (0 : ℚ) ≤ (R : ℚ) := by exact_mod_cast hR
  rw [val_reparse]
  refine ⟨⟨div_nonneg hRq hK.le, hRq, by rw [hsup]; exact hT, by rw [hM]; exact h1, ?_⟩, ?_⟩
  · rw [hM, hsup]; exact h2
  · show K * ((R : ℚ) / K) ≤ (R : ℚ)
    rw [mul_div_cancel₀ _ (ne_of_gt hK)]

/-- the payment of `claimRewards` for one denom is an admissible, tight `claim` step of the abstraction, with the
    explicit error e = (M − m)·share/K -/
theorem claim_guard_op (s : St) (i : Nat) (u : User) (M m : D34) (hu : s.users[i]? = some u) (hM : s.M = val M)
    (hm : u.m = val m) (hle : val m ≤ val M) (hs : 0 ≤ u.share) :
    (Op.claim i ((CalculateReward M m u.share : ℤ) : ℚ) ((val M - val m) * (u.share : ℚ) / K)).guard s
    ∧ (Op.claim i ((CalculateReward M m u.share : ℤ) : ℚ) ((val M - val m) * (u.share : ℚ) / K)).tight K s := by
  obtain ⟨h1, h2⟩ := claim_guard_kernel M m u.share hle hs
  have hK : (0 : ℚ) < K := K_pos
  have hsq : (0 : ℚ) ≤ (u.share : ℚ) := by exact_mod_cast hs
  have hx : (0 : ℚ) ≤ (val M - val m) * (u.share : ℚ) := mul_nonneg (by linarith) hsq
  refine ⟨⟨div_nonneg hx hK.le, by exact_mod_cast h1, u, hu, ?_⟩, u, hu, ?_⟩
  · show _ ≤ (s.M - u.m) * (u.share : ℚ) + _
    rw [hM, hm]; exact h2
  · show K * ((val M - val m) * (u.share : ℚ) / K) ≤ (s.M - u.m) * (u.share : ℚ)
    rw [mul_div_cancel₀ _ (ne_of_gt hK), hM, hm]

/-- a claim that pays nothing (the saver holds none of the denom: `claimable` skips it, the checkpoint still moves) is
    admissible and tight as well -/
theorem claim_skip_op (s : St) (hI : Inv s) (i : Nat) (u : User) (hu : s.users[i]? = some u) :
    (Op.claim i 0 0).guard s ∧ (Op.claim i 0 0).tight K s := by
  have h := accrued_nonneg (hI.wf u (mem_of_getElem? hu))
  refine ⟨⟨le_refl _, le_refl _, u, hu, by linarith⟩, u, hu, ?_⟩
  show K * 0 ≤ accrued s.M u
  linarith

/-! ### the store-level model (Model/ShareClass.lean) meets the guards -/

/-- the guard `m_i = M` of `setShares`: when NonVotingDelegate succeeds, the share balance of the sender changed while the
    sender was checkpointed at the current multiplier of EVERY denom (the claim inside the message did it, and nothing
    after the claim touches multipliers or checkpoints) -/
theorem delegate_checkpointed {s s' : ShareClass.St} {u : Addr} {v : ShareClass.Val} {a : Int} {d : Denom}
    {x : ShareClass.StakeExt} (hwf : C10.WF s) (h : ShareClass.delegate s u v a d x = .ok s') :
    ∀ d', s'.last u v d' = s'.mult v d' := by
  obtain ⟨s1, t, hc, _, _, hm, _, hl, _⟩ := C10.delegate_ok h
  intro d'
  rw [hm, hl]
  exact C10.claim_checkpoint hwf hc d'

theorem undelegate_checkpointed {s s' : ShareClass.St} {u : Addr} {v : ShareClass.Val} {a : Int} {rc : Addr}
    {x : ShareClass.StakeExt} (hwf : C10.WF s) (h : ShareClass.undelegate s u v a rc x = .ok s') :
    ∀ d', s'.last u v d' = s'.mult v d' := by
  obtain ⟨s1, t, hc, _, _, hm, _, hl, _⟩ := C10.undelegate_ok h
  intro d'
  rw [hm, hl]
  exact C10.claim_checkpoint hwf hc d'

/-- the guard of `claim`: the amount `GetClaimableRewardsByDenom` computes on a store state is within the relative
    error 1/K of the holder's exact accrual -/
theorem store_claim_bound (s : ShareClass.St) (u : Addr) (v : ShareClass.Val) (d : Denom)
    (hm : val (s.last u v d) ≤ val (s.mult v d)) (hb : 0 ≤ s.bank.bal u (ShareClass.shareDenom v)) :
    0 ≤ ShareClass.claimableByDenom s u v d
    ∧ ((ShareClass.claimableByDenom s u v d : ℤ) : ℚ)
        ≤ (val (s.mult v d) - val (s.last u v d)) * (s.bank.bal u (ShareClass.shareDenom v) : ℚ)
          + (val (s.mult v d) - val (s.last u v d)) * (s.bank.bal u (ShareClass.shareDenom v) : ℚ) / K :=
  claim_guard_kernel _ _ _ hm hb

end Kernels

-- ------------------------------------------------------------------------------------------------ non-vacuity
/-- two holders join and delegate 30 and 70 -/
def s0 : St := init
def s1 : St := step s0 (.join 0)
def s2 : St := step s1 (.join 0)
def s3 : St := step s2 (.setShares 0 30)
def s4 : St := step s3 (.setShares 1 70)
/-- a reward of 7 on supply 100; the stored multiplier 0.0700000001 is a rounded-UP quotient: e = 100·10^-10 = 10^-8 -/
def s5 : St := step s4 (.reward 7 (700000001/10000000000) (1/100000000))
/-- holder 0 claims ⌊30·0.0700000001⌋ = 2, holder 1 claims ⌊70·0.0700000001⌋ = 4 -/
def s6 : St := step s5 (.claim 0 2 0)
def s7 : St := step s6 (.claim 1 4 0)
/-- holder 1 undelegates 20 (after its claim), then a second reward of 3 on supply 80, rounded down -/
def s8 : St := step s7 (.setShares 1 (-20))
def s9 : St := step s8 (.reward 3 (700000001/10000000000 + 3/80) 0)

theorem r4 : Reachable s4 := by
  have r1 : Reachable s1 := Reachable.step _ Reachable.init (by show (0 : Rat) ≤ 0; exact le_refl _)
  have r2 : Reachable s2 := Reachable.step _ r1 (by show (0 : Rat) ≤ 0; exact le_refl _)
  have r3 : Reachable s3 := Reachable.step _ r2 ⟨⟨0, 0⟩, rfl, rfl, by decide⟩
  exact Reachable.step _ r3 ⟨⟨0, 0⟩, rfl, rfl, by decide⟩

theorem s4_users : s4.users = [⟨30, 0⟩, ⟨70, 0⟩] := rfl

theorem r5 : Reachable s5 := by
  refine Reachable.step _ r4 ?_
  refine ⟨by norm_num, by norm_num, by decide, ?_, ?_⟩
  · show (0 : Rat) ≤ 700000001/10000000000; norm_num
  · show (700000001/10000000000 - 0 : Rat) * ((100 : Int) : Rat) ≤ 7 + 1/100000000
    norm_num

theorem r7 : Reachable s7 := by
  have r6 : Reachable s6 := by
    refine Reachable.step _ r5 ⟨le_refl _, by norm_num, ⟨30, 0⟩, rfl, ?_⟩
    show (2 : Rat) ≤ (700000001/10000000000 - 0) * ((30 : Int) : Rat) + 0
    norm_num
  refine Reachable.step _ r6 ⟨le_refl _, by norm_num, ⟨70, 0⟩, rfl, ?_⟩
  show (4 : Rat) ≤ (700000001/10000000000 - 0) * ((70 : Int) : Rat) + 0
  norm_num

theorem r9 : Reachable s9 := by
  have r8 : Reachable s8 := Reachable.step _ r7 ⟨⟨70, 700000001/10000000000⟩, rfl, rfl, by decide⟩
  refine Reachable.step _ r8 ?_
  refine ⟨le_refl _, by norm_num, by decide, ?_, ?_⟩
  · show (700000001/10000000000 : Rat) ≤ 700000001/10000000000 + 3/80; norm_num
  · show (700000001/10000000000 + 3/80 - 700000001/10000000000 : Rat) * ((80 : Int) : Rat) ≤ 3 + 0
    norm_num

/-- non-vacuity: the invariant and all its corollaries apply to this history; its totals -/
example : Inv s9 := inv_reachable r9

example : s9.paid = 6 ∧ s9.recv = 10 ∧ s9.slack = 1/100000000 ∧ supply s9.users = 80
    ∧ owed s9.M s9.users = 3 := by
  refine ⟨?_, ?_, ?_, by decide, ?_⟩
  · show (0 : Rat) + 2 + 4 = 6; norm_num
  · show (0 : Rat) + 7 + 3 = 10; norm_num
  · show (0 : Rat) + 1/100000000 + 0 + 0 + 0 = 1/100000000; norm_num
  · show owed (700000001/10000000000 + 3/80)
      [⟨30, 700000001/10000000000⟩, ⟨70 + -20, 700000001/10000000000⟩] = 3
    norm_num [owed, accrued]

/-- the concrete kernels on this history's first reward: supply 100, reward 7 → multiplier 0.07 exactly, claims 2 and 4 -/
example : Gen.KernelsShare.CalculateReward (Gen.KernelsShare.CalculateRewardMultiplierNew D34.zero 7 100) D34.zero 30 = 2
    ∧ Gen.KernelsShare.CalculateReward (Gen.KernelsShare.CalculateRewardMultiplierNew D34.zero 7 100) D34.zero 70 = 4 := by
  decide

end Sunrise.C10Accrual

#print axioms Sunrise.C10Accrual.inv_reachable
#print axioms Sunrise.C10Accrual.claims_le_received
#print axioms Sunrise.C10Accrual.paid_le_received
#print axioms Sunrise.C10Accrual.claim_covered
#print axioms Sunrise.C10Accrual.claim_payable
#print axioms Sunrise.C10Accrual.second_claim_le_error
#print axioms Sunrise.C10Accrual.second_claim_zero
#print axioms Sunrise.C10Accrual.slack_bound
#print axioms Sunrise.C10Accrual.paid_le_received_tight
#print axioms Sunrise.C10Accrual.claim_payable_tight
#print axioms Sunrise.C10Accrual.reward_guard_kernel
#print axioms Sunrise.C10Accrual.claim_guard_kernel
#print axioms Sunrise.C10Accrual.reward_guard_op
#print axioms Sunrise.C10Accrual.claim_guard_op
#print axioms Sunrise.C10Accrual.delegate_checkpointed
#print axioms Sunrise.C10Accrual.undelegate_checkpointed
#print axioms Sunrise.C10Accrual.store_claim_bound
#print axioms Sunrise.C10Accrual.r9
