import SunriseVerif.Lemmas.C20
/-!
C20 — machine-checked witnesses for the two recorded findings.

* C20-empty-blob: the empty blob cannot be erasure-coded, for ANY shard configuration (model of `ErasureCode`;
  reproduced on the real code by the `rs` suite: oracle check `rs_encode_empty`).
* C20-noncanonical-double-hash: at byte level the verifier accepts more than one double hash for the same proof
  (oracle check `zk_binds`, class `noncanonical_alias`).
-/
namespace Sunrise.C20.Witness
open Sunrise Sunrise.RS Sunrise.Zk

/-- for every (d, p) — valid or not — encoding the empty blob is an error -/
theorem empty_blob_not_encodable (d p : Int) : ∃ e, erasureCode [] d p = .err e := by
  unfold erasureCode
  cases newEncoder d p with
  | err => exact ⟨_, rfl⟩
  | unmodelled => exact ⟨_, rfl⟩
  | ok =>
    have : shardSize ([] : List UInt8).length d.toNat = 0 := by
      simp [shardSize, paddedLen]
    simp only [this, if_true]
    exact ⟨_, rfl⟩

/-- negation of the full-strength statement "every blob is encodable under every valid configuration" -/
theorem not_all_blobs_encodable :
    ¬ ∀ (blob : List UInt8) (d p : Int), 0 < d → 0 ≤ p → d + p ≤ 256 → ∃ e, erasureCode blob d p = .ok e := by
  intro h
  obtain ⟨e, he⟩ := h [] 3 2 (by decide) (by decide) (by decide)
  obtain ⟨e', he'⟩ := empty_blob_not_encodable 3 2
  rw [he] at he'; cases he'

/-- `[1]`, `[0,1]` and the 32-byte encoding of `r + 1` are three different byte strings for the field element 1 -/
def rPlus1 : List UInt8 :=
  [0x30, 0x64, 0x4e, 0x72, 0xe1, 0x31, 0xa0, 0x29, 0xb8, 0x50, 0x45, 0xb6, 0x81, 0x81, 0x58, 0x5d,
   0x28, 0x33, 0xe8, 0x48, 0x79, 0xb9, 0x70, 0x91, 0x43, 0xe1, 0xf5, 0x93, 0xf0, 0x00, 0x00, 0x02]

theorem decode_aliases : decode [1] = 1 ∧ decode [0, 1] = 1 ∧ decode rPlus1 = 1 ∧ rPlus1.length = 32 := by
  refine ⟨by decide, by decide, by decide, by decide⟩

/-- negation of the byte-level binding statement: some proof (relation instance) is accepted for two different
    byte strings -/
theorem bytes_not_bound :
    ¬ ∀ (mimc : Nat → Nat) (h : Nat) (y y' : List UInt8), relBytes mimc h y → relBytes mimc h y' → y = y' := by
  intro hall
  have h1 : relBytes (fun _ => 1) 0 [1] := by unfold relBytes R; decide
  have h2 : relBytes (fun _ => 1) 0 rPlus1 := by unfold relBytes R; decide
  have := hall _ _ _ _ h1 h2
  exact absurd this (by decide)

end Sunrise.C20.Witness
