import SunriseVerif.Props.C11
/-!
C11 — machine-checked counterexamples for the three recorded (not repaired) defects of the S17 group.
Each `not_…` theorem is the negation of the full-strength statement on a concrete state of `Model/IbcSwap`;
the same histories are replayed on the real application by the `ibc` suite (KNOWN-FINDING lines) on every run.
-/
set_option linter.unusedVariables false
namespace Sunrise.C11.Witness
open Sunrise Sunrise.IbcSwap Sunrise.C11

/-! ## S17b — a timed-out leg with a retry left is re-sent AND refunded -/

/-- for EVERY state: with a retry left, the timeout of an outgoing leg both re-sends the packet and runs the transfer
    application's refund on the unchanged balances -/
theorem refund_and_resend_whenever_retry_left (s s' : St) (p : Packet) (o : OutRec)
    (ho : s.out ⟨p.src, p.seq⟩ = some o) (hret : o.retries > 1) (h : onTimeout s p = .ok s') :
    Resent s s' p ∧ Refunded s s' p := by
  unfold onTimeout at h
  rw [ho] at h
  obtain ⟨⟨s1, rs⟩, h1, h2⟩ := IbcSwap.bind_ok h
  obtain ⟨b, hb, h2⟩ := IbcSwap.bind_ok h2
  simp only [Res.ok.injEq] at h2
  subst h2
  obtain ⟨_, k2, _, _, _, k6⟩ := timeout_resends_with_retry_left s s1 p o rs hret h1
  refine ⟨?_, ?_⟩
  · unfold Resent; simp only; rw [k2]; omega
  · unfold Refunded; simp only; rw [← k6]; exact hb

def bankT : Bank := Bank.empty.credit "escrow:channel-0" "ubbb" 500
def pktT : Packet :=
  { src := "channel-0", dst := "channel-1", seq := 5, denom := "ubbb", amount := 40, sender := "a1", receiver := "a3", memo := .none }
def outT : OutRec := { index := ⟨"channel-0", 5⟩, wait := ⟨"channel-1", 3⟩, retries := 2 }
def stT : St :=
  { bank := bankT, nextSeq := fun _ => 6,
    out := fun i => if i = ⟨"channel-0", 5⟩ then some outT else none,
    inc := fun i => if i = ⟨"channel-1", 3⟩ then
      some { index := ⟨"channel-1", 3⟩, ackTok := "S", resIn := 50, resOut := 40, fee := 0, change := .none, forward := .idx ⟨"channel-0", 5⟩ } else none }

/-- the concrete history: forward leg of 40 ubbb with 2 attempts, first timeout -/
theorem witness_timeout_runs : (onTimeout stT pktT).isOk = true := by decide

/-- the sender holds the 40 ubbb again while the same 40 ubbb are on their way in packet channel-0/6 -/
theorem witness_refunded_and_resent :
    (match onTimeout stT pktT with
     | .ok s' => decide (s'.bank.bal "a1" "ubbb" = 40) && decide (s'.nextSeq "channel-0" = 7)
                 && (s'.commits ⟨"channel-0", 6⟩).isSome && (s'.out ⟨"channel-0", 6⟩).isSome
     | _ => false) = true := by decide

/-- NEGATION of the full-strength statement `RefundXorResend` -/
theorem not_refund_xor_resend : ¬ RefundXorResend := by
  intro H
  cases hq : onTimeout stT pktT with
  | ok s' =>
    have ho : stT.out ⟨pktT.src, pktT.seq⟩ = some outT := by decide
    have both := refund_and_resend_whenever_retry_left stT s' pktT outT ho (by decide) hq
    rcases H stT s' pktT outT ho hq with ⟨_, hn⟩ | ⟨hn, _⟩
    · exact hn both.2
    · exact hn both.1
  | err c => have := witness_timeout_runs; rw [hq] at this; cases this
  | panic k => have := witness_timeout_runs; rw [hq] at this; cases this

/-! ## S17c / S17d — an exact-amount-out remainder stays in the module account -/

/-- full-strength statement (FALSE of the code): a successful receive of a swap packet leaves the module account as it was -/
def ModuleLeftAsItWas : Prop :=
  ∀ (s s' : St) (p : Packet) (m : SwapMeta) (ai ao fee : Int) (oa : Option Ack),
    p.memo = .swap m → p.receiver ≠ swapMod → m.pool ≠ swapMod → (∀ pr, m.provider = some pr → pr ≠ swapMod) →
    (0 ≤ fee ∧ (m.provider = none → fee = 0)) → escrow p.dst ≠ swapMod →
    onRecv s p (.ok ai ao fee) = .ok (s', oa) → ∀ dd, s'.bank.bal swapMod dd = s.bank.bal swapMod dd

def bankW : Bank := ((Bank.empty.credit "escrow:channel-0" "uaaa" 2000).credit "pool0" "ubbb" 5000).credit "a1" "uaaa" 1000

def metaW (change : Option LegMeta) : SwapMeta :=
  { routeIn := "uaaa", routeOut := "ubbb", pool := "pool0", strat := .exactOut change, provider := none, forward := none }

/-- 1081 uaaa arrive (voucher sent home over channel-1 → channel-0), exact-out 360 ubbb costs 363 uaaa -/
def pktW (change : Option LegMeta) : Packet :=
  { src := "channel-1", dst := "channel-0", seq := 3, denom := "channel-1/uaaa", amount := 1081, sender := "a0", receiver := "a1",
    memo := .swap (metaW change) }

def stW : St := { bank := bankW }

theorem witness_no_change_runs : (onRecv stW (pktW none) (.ok 363 360 0)).isOk = true := by decide

/-- S17c: without `change` the remainder 1081 − 363 = 718 uaaa stays in the module account (acknowledged as success) -/
theorem witness_remainder_kept :
    (match onRecv stW (pktW none) (.ok 363 360 0) with
     | .ok (s', oa) => decide (s'.bank.bal swapMod "uaaa" = 718) && decide (s'.bank.bal "a1" "uaaa" = 1000) && oa.isSome
     | _ => false) = true := by decide

def chgW : LegMeta := { ch := "channel-1", receiver := "a3", retries := 1 }

/-- S17d: with `change` the 718 uaaa of change are taken from the RECEIVER's own balance (1000 → 282) and escrowed,
    while the remainder still stays in the module account -/
theorem witness_change_paid_by_receiver :
    (match onRecv stW (pktW (some chgW)) (.ok 363 360 0) with
     | .ok (s', oa) => decide (s'.bank.bal swapMod "uaaa" = 718) && decide (s'.bank.bal "a1" "uaaa" = 282)
                       && decide (s'.bank.bal "escrow:channel-1" "uaaa" = 718) && oa.isNone
     | _ => false) = true := by decide

/-- S17d, other face: a receiver who does not hold the input denom makes the whole packet fail (refused) -/
theorem witness_change_refused_for_unfunded_receiver :
    (onRecv { stW with bank := (Bank.empty.credit "escrow:channel-0" "uaaa" 2000).credit "pool0" "ubbb" 5000 }
      (pktW (some chgW)) (.ok 363 360 0)).isOk = false := by decide

/-- NEGATION of the full-strength statement `ModuleLeftAsItWas` -/
theorem not_module_left_as_it_was : ¬ ModuleLeftAsItWas := by
  intro H
  cases hq : onRecv stW (pktW none) (.ok 363 360 0) with
  | ok r =>
    obtain ⟨s', oa⟩ := r
    have h1 := H stW s' (pktW none) (metaW none) 363 360 0 oa rfl (by decide) (by decide) (by intro pr h; cases h)
      (by decide) (by decide) hq "uaaa"
    have h2 := recv_module_balance stW s' (pktW none) (metaW none) 363 360 0 oa rfl (by decide) (by decide)
      (by intro pr h; cases h) (by decide) (by decide) hq "uaaa"
    rw [h1] at h2
    have : (metaW none).routeIn = "uaaa" := rfl
    simp [this, pktW] at h2
    omega
  | err c => have := witness_no_change_runs; rw [hq] at this; cases this
  | panic k => have := witness_no_change_runs; rw [hq] at this; cases this

end Sunrise.C11.Witness
