/-
C19 witnesses: the full-strength claim is false on the current tree, with a concrete store.
-/
import SunriseVerif.Props.C19

namespace Sunrise.C19.Witness
open Sunrise.Genesis Sunrise.C19

/-- the property's full claim does not hold of the regenerated table -/
theorem not_all_covered : ¬ AllCovered := by
  unfold AllCovered; rw [uncovered_eq]; decide

/-- a concrete store: one initialised tick of pool 0 and nothing else -/
def oneTick : Store := fun n => if n = "liquiditypool/TickInfoKey" then [("tick_info/0/P0000000000000000", "tick")] else []

/-- ... is lost by export + import: the new chain has no tick, so the next swap on pool 0 finds no liquidity boundary -/
theorem tick_info_lost : importG genTable (fun _ _ => []) (exportG genTable oneTick) ≠ oneTick := by
  intro h
  have := congrFun h "liquiditypool/TickInfoKey"
  revert this
  decide

end Sunrise.C19.Witness
