import SunriseVerif.Model.Mint
/-!
C13 — machine-checked counterexamples for the ORIGINAL app/mint/mint.go (tree ba6a3f9), both reproduced on the real
application by `svh mint` before the fixes (known_findings/C13.json, status "fixed"):
* F-C13-1 (S18): the pro-rating factor seconds/secondsPerYear is unbounded, so one step after a gap above one year mints more
  than the annual provision and lifts the combined supply above the cap;
* F-C13-2: `minter.Data` is overwritten in place; x/mint's hook compares the minter with a shallow copy that shares the same
  backing array, finds it "unchanged" and never persists it again — the stored last-mint time stays at (first block − 60 s)
  for ever, so every later mint is pro-rated from the first mint instead of from the previous one.
-/
namespace Sunrise.Witness.C13
open Sunrise Sunrise.Mint Sunrise.Gen.KernelsMint

/-- the original step: no clamp; `keepLast` = the minter is not persisted again once it has a value -/
def mintFnOrig (ratio : Dec) (genesisNs nowNs : Int) (s : St) : St :=
  let ann := annual (yearsSinceGenesis genesisNs nowNs) (totalSupply s.supBond s.supFee)
  let now := unix nowNs
  let block := blockProvision ann (now - s.last.getD (now - 60))
  let s1 := { s with last := some (s.last.getD now) }
  if block > 0 then
    let fee := feeProvision ratio block
    let bond := bondProvision block fee
    { s1 with supFee := s1.supFee + (if fee > 0 then fee else 0), supBond := s1.supBond + (if bond > 0 then bond else 0) }
  else s1

/-- F-C13-1: supply 950·10^12 (within the cap 10^15), one step two years after the last mint: 10^14 is minted, supply 1.05·10^15 -/
theorem orig_exceeds_cap :
    let s := mintFnOrig ⟨500000000000000000⟩ 0 (2 * 31536000 * 1000000000) ⟨450000000000000, 500000000000000, some 0⟩
    ¬ (s.supFee + s.supBond ≤ SupplyCap) := by decide

/-- F-C13-2: two mints 60 s apart; the second one mints for 120 s, twice its pro-rated share -/
theorem orig_stale_last_overmints :
    let s0 : St := ⟨400000000000000, 500000000000000, some 1000⟩
    let s1 := mintFnOrig ⟨500000000000000000⟩ 0 (1060 * 1000000000) s0
    let s2 := mintFnOrig ⟨500000000000000000⟩ 0 (1120 * 1000000000) s1
    s1.last = some 1000 ∧
    (s2.supFee + s2.supBond) - (s1.supFee + s1.supBond) > 2 * ((s1.supFee + s1.supBond) - (s0.supFee + s0.supBond)) - 4 := by decide

/-- the fixed step on the same inputs stays within the cap / mints the 60 s share both times -/
example : let s := mintFn ⟨500000000000000000⟩ 0 (2 * 31536000 * 1000000000) ⟨450000000000000, 500000000000000, some 0⟩
    s.supFee + s.supBond ≤ SupplyCap := by decide

end Sunrise.Witness.C13
