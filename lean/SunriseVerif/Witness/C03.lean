import SunriseVerif.Model.Route
/-!
C03-K1 (known finding, not fixed): a parallel branch whose share rounds to zero is QUOTED (the pool keeper's
`CalculateResult…` answers 0 for 0) but cannot be EXECUTED (`swapOutAmtGivenIn` / `swapInAmtGivenOut` return
`ErrUnexpectedCalcAmount` when the computed amount is not positive, keeper_swap.go:180,207): the query succeeds,
the message with the same route, amount and a limit the quote satisfies fails. So "quote = execute" holds only in
the direction execute ⇒ quote (`C03.quote_eq_execute_partial`). Machine-checked shape of the counterexample:
-/
namespace Sunrise.Witness.C03
open Sunrise Sunrise.Route

/-- a pool that quotes 1:1 and, like keeper_swap.go, refuses a swap whose computed amount is not positive;
    every swap of it that succeeds returns its quote -/
def M0 : PoolSpec Unit where
  calcIn _ _ _ a := .ok a
  swapIn _ _ _ a := if a ≤ 0 then .err "unexpected-calc-amount" else .ok (a, ())
  calcOut _ _ _ a := .ok a
  swapOut _ _ _ a := if a ≤ 0 then .err "unexpected-calc-amount" else .ok (a, ())

def w0 : World Unit := ⟨Bank.empty, fun _ => some ()⟩

def branches : List Route := [.pool "a" "b" 0, .pool "a" "b" 1]

/-- valid positive weights 1 : 1 and the amount 1 produce a zero leg -/
theorem zero_leg_arises : (match split [Dec.one, Dec.one] 1 with | .ok xs => xs | _ => []) = [0, 1] := by decide

/-- the quote walk over the two branches with these amounts succeeds … -/
theorem zero_leg_is_quoted : (inspectPar (calcPoolIn M0 w0) genIn false branches [0, 1] ()).isOk = true := by decide

/-- … the execution walk does not (whatever the sender holds: the pool refuses before any coin moves) -/
theorem zero_leg_not_executed (b : Bank) :
    (inspectPar (swapPoolIn M0 "s") genIn false branches [0, 1] ⟨b, fun _ => some ()⟩).isOk = false := by
  simp [branches, inspectPar, inspect, swapPoolIn, M0, Res.bind, Res.isOk]

end Sunrise.Witness.C03
