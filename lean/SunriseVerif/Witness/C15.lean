import SunriseVerif.Model.Untrusted
/-!
C15 — machine-checked counterexamples for the findings that are RECORDED (known_findings/C15.json, status "known"),
i.e. defects whose repair is not ours to commit (route.go, msg_server_submit_validity_proof.go) or not small/safe
(range assertions deep inside the swap arithmetic).  Each theorem is the negation of the full-strength no-panic
statement on a concrete input.
-/
namespace Sunrise.C15.Witness
open Sunrise Sunrise.Untrusted

/-! The nil-payload / nil-receiver / invalid-denom witnesses of `Route.Validate` were removed when route.go was fixed
    (commits "fix: Route.Validate returns an error for a nil route…", "fix: Route.Validate rejects invalid denoms…"):
    the full-strength theorem `route_validate_no_panic` in Props/C15.lean replaces them. -/

/-- S3 as the code is before the C03 engineer's fix: `panic(fmt.Sprintf("reused pool…"))` is recovered, `r.(error)` on a
    string fails (second panic): Validate panics instead of returning an error. -/
def recoverBlockUnfixed (panicValueIsError : Bool) : Res Unit :=
  if panicValueIsError then .panic .explicit else .panic .typeAssert
theorem s3_pool_reuse_panics_unfixed : (recoverBlockUnfixed false).isPanic = true := by decide

/-- S5 as the code is before the DA engineer's fix: `len(hashes) <= int(j)` is false for j < 0, then `hashes[j]`. -/
def headProofIndexUnfixed (numHashes : Nat) (j : Int) : Res Unit :=
  if (numHashes : Int) ≤ j then .err "indices overflow" else if j < 0 then .panic .indexRange else .ok ()
theorem s5_negative_index_panics_unfixed : (headProofIndexUnfixed 3 (-1)).isPanic = true := by decide

/-- dec_overflow: exact-amount-out with interface fee 1% and amount_out = 2^256 - 1: the quotient leaves LegacyDec's range
    and `Quo` panics ("Int overflow"). -/
theorem interface_fee_gross_overflows : (interfaceFeeGross (2 ^ 256 - 1) (10 ^ 16)).isPanic = true := by decide

end Sunrise.C15.Witness
