import SunriseVerif.Model.Untrusted
/-!
C15 — machine-checked counterexamples for the findings that are RECORDED (known_findings/C15.json, status "known"),
i.e. defects whose repair is not ours to commit (route.go, msg_server_submit_validity_proof.go) or not small/safe
(range assertions deep inside the swap arithmetic).  Each theorem is the negation of the full-strength no-panic
statement on a concrete input.
-/
namespace Sunrise.C15.Witness
open Sunrise Sunrise.Untrusted

/-- nil_strategy_payload: `(&Route{Strategy: &Route_Pool{Pool: nil}}).Validate()` dereferences nil in mustNotReusePool
    (the recover block re-panics).  Not reachable from protobuf wire bytes; reachable from a memo (`"pool": null`) only
    before the ibc.go fix, which rejects such routes in SwapMetadata.Validate. -/
theorem route_validate_panics_on_nil_pool_payload : (Route.validate (some (.poolNil "a" "b"))).isPanic = true := by decide

theorem route_validate_panics_on_nil_series_payload : (Route.validate (some (.seriesNil "a" "b"))).isPanic = true := by decide

theorem route_validate_panics_on_nested_nil_parallel_payload :
    (Route.validate (some (.series "a" "b" [.pool "a" "c" 1, .parallelNil "c" "b"]))).isPanic = true := by decide

/-- nil_receiver: `(*Route)(nil).Validate()` -/
theorem route_validate_panics_on_nil_receiver : (Route.validate none).isPanic = true := by decide

/-- so the hypothesis of `route_validate_no_panic_partial` cannot be dropped -/
theorem route_validate_full_statement_is_false : ¬ ∀ r : Option Route, (Route.validate r).isPanic = false := by
  intro h; have := h none; simp [Route.validate, Res.isPanic] at this

/-- S3 as the code is before the C03 engineer's fix: `panic(fmt.Sprintf("reused pool…"))` is recovered, `r.(error)` on a
    string fails (second panic): Validate panics instead of returning an error. -/
def recoverBlockUnfixed (panicValueIsError : Bool) : Res Unit :=
  if panicValueIsError then .panic .explicit else .panic .typeAssert
theorem s3_pool_reuse_panics_unfixed : (recoverBlockUnfixed false).isPanic = true := by decide

/-- S5 as the code is before the DA engineer's fix: `len(hashes) <= int(j)` is false for j < 0, then `hashes[j]`. -/
def headProofIndexUnfixed (numHashes : Nat) (j : Int) : Res Unit :=
  if (numHashes : Int) ≤ j then .err "indices overflow" else if j < 0 then .panic .indexRange else .ok ()
theorem s5_negative_index_panics_unfixed : (headProofIndexUnfixed 3 (-1)).isPanic = true := by decide

/-- dec_overflow: exact-amount-out with interface fee 1% and amount_out = 2^256 - 1: the quotient leaves LegacyDec's range
    and `Quo` panics ("Int overflow"). -/
theorem interface_fee_gross_overflows : (interfaceFeeGross (2 ^ 256 - 1) (10 ^ 16)).isPanic = true := by decide

end Sunrise.C15.Witness
