import SunriseVerif.Model.GovTally
/-!
C16 — machine-checked counterexamples.

1. `turnoutOrig` mirrors the turnout lines of the ORIGINAL app/gov/gov.go (before the `fix:` commits, lines 152-166):
   ```
   shareclassBonded, _ := stakingKeeper.GetDelegatorBonded(ctx, shareclassAddr)
   totalBonded, _ := stakingKeeper.TotalBondedTokens(ctx)
   if !totalBonded.IsZero() {
       numerator := totalVP.Sub(shareclassVP)
       denominator := totalBonded.Sub(shareclassBonded)
       numerator = numerator.MulInt(totalBonded)
       totalVP = numerator.Quo(math.LegacyNewDecFromInt(denominator))
   }
   ```
   (`totalVP`: power that voted, share-class stake already deducted; `shareclassVP`: Σ share-class delegation SHARES).
   Witnesses: turnout 0 at 50 % non-voting stake when everybody votes (C16-F1), division by zero at 100 % (C16-F2),
   a wrong turnout when non-voting stake sits on a validator that is not bonded (C16-F3). All three were replayed on the
   real application (see design/C16.md) and are fixed in the repo clone.
2. `standardPasses` mirrors x/gov `Tally` + `tallyStandard` (spam test, quorum, abstain-only, veto, threshold; yes-quorum
   disabled as in the default params). Witness for the KNOWN finding C16-F6: even with the corrected turnout, a proposal
   on which 100 % of the voting stake votes yes is rejected when half of the bonded stake is non-voting.
-/
namespace Sunrise.C16W
open Sunrise Sunrise.GovTally

def turnoutOrig (totalVP shareclassVP : Dec) (totalBonded shareclassBonded : Int) : Res Dec :=
  if totalBonded = 0 then .ok totalVP else
  let numerator := (totalVP.sub shareclassVP).mulInt totalBonded
  let denominator := Dec.ofInt (totalBonded - shareclassBonded)
  if denominator.raw = 0 then .panic .divZero else .ok (numerator.quo denominator)

def isOkWith (r : Res Dec) (d : Dec) : Bool := match r with | .ok x => x == d | _ => false
def isDivZero (r : Res Dec) : Bool := match r with | .panic .divZero => true | _ => false

/-- C16-F1: one validator with 6 tokens, 3 of them non-voting, everybody votes (voted power 3): the original code
    reports turnout 0; the property demands 3·6/(6−3) = 6 (100 %). -/
theorem orig_turnout_zero_at_half_nonvoting :
    isOkWith (turnoutOrig (Dec.ofInt 3) (Dec.ofInt 3) 6 3) Dec.zero = true
    ∧ rescale (Dec.ofInt 3) 6 (Dec.ofInt 3) = Dec.ofInt 6 := by decide

/-- C16-F2: all bonded stake non-voting → `LegacyDec.Quo` by zero → panic in the gov EndBlocker -/
theorem orig_div_zero_at_all_nonvoting :
    isDivZero (turnoutOrig Dec.zero (Dec.ofInt 5) 5 5) = true
    ∧ rescale Dec.zero 5 (Dec.ofInt 5) = Dec.zero := by decide

/-- C16-F3: replayed history (seed 1, scenario 2): bonded 215000000, voted 104000000, non-voting stake on bonded
    validators 111000000 but `GetDelegatorBonded` = 3111000000 (3000000000 of it on a jailed validator): the original
    formula gives turnout 519682.32 (0.24 %); the fixed code gives 215000000 = 100 % (everybody who can vote voted). -/
theorem orig_turnout_wrong_with_unbonded_nonvoting :
    isOkWith (turnoutOrig (Dec.ofInt 104000000) (Dec.ofInt 111000000) 215000000 3111000000)
      ⟨519682320441988950276243⟩ = true
    ∧ rescale (Dec.ofInt 104000000) 215000000 (Dec.ofInt 111000000) = Dec.ofInt 215000000 := by decide

/-- x/gov keeper.Tally (spam test) + tallyStandard on the values the custom function returns -/
def standardPasses (totalVP : Dec) (bonded : Int) (r : Results) (quorum threshold veto : Dec) : Bool :=
  if bonded = 0 then false
  else if totalVP.raw ≠ 0 ∧ r.spam.raw ≥ r.yes.raw + r.abstain.raw + r.no.raw + r.veto.raw then false
  else if (totalVP.quo (Dec.ofInt bonded)).lt quorum then false
  else if totalVP.raw = r.abstain.raw then false
  else if (r.veto.quo totalVP).gt veto then false
  else (r.yes.quo (totalVP.sub r.abstain)).gt threshold

def passesWith (r : Res (Dec × Results)) (bonded : Int) : Bool :=
  match r with
  | .ok (t, res) => standardPasses t bonded res ⟨334000000000000000⟩ ⟨500000000000000000⟩ ⟨334000000000000000⟩
  | _ => false

/-- C16-F6 (known): half of the bonded stake is non-voting, the validator and its only delegator vote YES (100 % of the
    voting stake): the fixed custom tally returns turnout 6 (100 %) and yes = 3, and x/gov computes the yes share as
    3 / 6 = 0.5, which is not > threshold 0.5 → rejected.  Without the non-voting stake the same votes pass. -/
theorem rescaled_total_dilutes_threshold :
    passesWith (tally "sc" [{ addr := "a0", bonded := 6, shares := Dec.ofInt 6 }]
      [⟨"sc", "a0", Dec.ofInt 3⟩, ⟨"a0", "a0", Dec.ofInt 3⟩] [⟨"a0", [⟨1, Dec.one⟩]⟩] 6) 6 = false
    ∧ passesWith (tally "sc" [{ addr := "a0", bonded := 3, shares := Dec.ofInt 3 }]
      [⟨"a0", "a0", Dec.ofInt 3⟩] [⟨"a0", [⟨1, Dec.one⟩]⟩] 3) 3 = true := by decide

end Sunrise.C16W
