import SunriseVerif.Model.ShareClass
/-!
C10 — machine-checked witness for the RECORDED finding C10-SLASH: NonVotingUndelegate records the requested amount,
not `MsgUndelegateResponse.Amount`; after a slash staking releases fewer bond tokens than recorded and
`WithdrawUnbonded`'s Convert fails.  Since the end-blocker fix (each payout of `GarbageCollectUnbonded` runs on a branch
of the state; a failing payout is dropped and logged, its record stays) this NO LONGER HALTS THE CHAIN
(`Sunrise.C10.block_never_halts`: for every state and every input).  What remains of the finding: the delegator is not
paid until the module account happens to hold enough bond tokens — the unbonding stays queued and is tried again in
every later block (`Sunrise.C10.endBlock_unpaid_kept`).  The full-strength statement "every accepted undelegation is
paid at the first end-block at or after completion" is therefore still false without the staking boundary hypothesis
(staking released every bond token the queue recorded, see `undelegate_paid_once_partial`).  Replayed on the real
application by the thorough tier of the `share` suite (oracle check `no_halt`, class `after_slash`).
-/
namespace Sunrise.C10.Witness
open Sunrise Sunrise.ShareClass

/-- a3 delegated 100 at v0 and undelegated all of it; completion at t = 20 s -/
def s0 : St :=
  { St.init (Bank.empty.credit "a3" "urise" 1000) with
    unb := [⟨0, "a3", 100, 20000000000⟩], nextId := 1 }

/-- staking releases 99 (one unit lost to the validator's exchange rate after a slash): the payout cannot be made; the
    end-blocker does NOT fail, nobody is paid, the unbonding stays queued — and a later block in which staking
    releases the missing unit pays it, exactly once -/
theorem endblock_skips_when_staking_releases_less :
    (step s0 (.block 21000000000 99 [])).2.cls = "ok"
    ∧ (step s0 (.block 21000000000 99 [])).1.bank.bal "a3" "urise" = 1000
    ∧ (step s0 (.block 21000000000 99 [])).1.unb = [⟨0, "a3", 100, 20000000000⟩]
    ∧ (step (step s0 (.block 21000000000 99 [])).1 (.block 22000000000 1 [])).2.cls = "ok"
    ∧ (step (step s0 (.block 21000000000 99 [])).1 (.block 22000000000 1 [])).1.bank.bal "a3" "urise" = 1100
    ∧ (step (step s0 (.block 21000000000 99 [])).1 (.block 22000000000 1 [])).1.unb = []
    ∧ (step (step (step s0 (.block 21000000000 99 [])).1 (.block 22000000000 1 [])).1 (.block 23000000000 0 [])).1.bank.bal "a3" "urise" = 1100 := by
  decide

/-- with the full 100 released the same end-block pays the recipient exactly once and empties the queue -/
theorem endblock_pays_when_staking_releases_all :
    (step s0 (.block 21000000000 100 [])).2.cls = "ok"
    ∧ (step s0 (.block 21000000000 100 [])).1.bank.bal "a3" "urise" = 1100
    ∧ (step s0 (.block 21000000000 100 [])).1.unb = []
    ∧ (step (step s0 (.block 21000000000 100 [])).1 (.block 22000000000 0 [])).1.bank.bal "a3" "urise" = 1100 := by decide

/-- the S9 fix in the model: a block inside the completion second but before completion pays nothing and does not halt -/
theorem same_second_not_paid_early :
    (step { s0 with unb := [⟨0, "a3", 100, 20800000000⟩] } (.block 20050000000 0 [])).2.cls = "ok" ∧
    (step { s0 with unb := [⟨0, "a3", 100, 20800000000⟩] } (.block 20050000000 0 [])).1.bank.bal "a3" "urise" = 1000 := by decide

end Sunrise.C10.Witness
