import SunriseVerif.Model.Lockup
/-! C12 kernel statements as decidable predicates over the regenerated lockup kernels (core-only): proved for all
    arguments in Props/C12.lean, evaluated on concrete arguments by the driver when a proof no longer checks.
    `sd = false` selects the non-voting package's kernels, `sd = true` the self-delegatable package's. -/
namespace Sunrise.C12
open Sunrise Sunrise.Lockup

def vOf (sd : Bool) : Variant := if sd then .sd else .nv

/-- TrackDelegation: X + Y = D -/
def S_trackDel_split (sd : Bool) (locked dv amt : Int) : Prop :=
  kDelX (vOf sd) locked dv amt + kDelY (vOf sd) amt (kDelX (vOf sd) locked dv amt) = amt

/-- TrackDelegation: 0 ≤ X ≤ max(V − DV, 0) and X ≤ D (for a non-negative delegation) -/
def S_trackDel_bound (sd : Bool) (locked dv amt : Int) : Prop :=
  0 ≤ amt → 0 ≤ kDelX (vOf sd) locked dv amt ∧ kDelX (vOf sd) locked dv amt ≤ max (locked - dv) 0
    ∧ kDelX (vOf sd) locked dv amt ≤ amt

/-- TrackDelegation takes the locked part first: whatever is still locked-and-undelegated is covered before DF grows -/
def S_trackDel_lockedFirst (sd : Bool) (locked dv amt : Int) : Prop :=
  0 ≤ amt → kDelX (vOf sd) locked dv amt = amt ∨ locked - dv ≤ kDelX (vOf sd) locked dv amt

/-- TrackUndelegation: 0 ≤ X ≤ DF, 0 ≤ Y ≤ DV (neither tracker can go negative), X + Y ≤ D with equality when D ≤ DF + DV -/
def S_trackUndel_bounds (sd : Bool) (df dv amt : Int) : Prop :=
  0 ≤ df → 0 ≤ dv → 0 ≤ amt →
    let x := kUndelX (vOf sd) df dv amt
    let y := kUndelY (vOf sd) df dv amt x
    0 ≤ x ∧ x ≤ df ∧ 0 ≤ y ∧ y ≤ dv ∧ x + y ≤ amt ∧ (amt ≤ df + dv → x + y = amt)

/-- the coin arithmetic applied to the trackers is plain addition / subtraction of X and Y -/
def S_track_coinArith (sd : Bool) (a b : Int) : Prop :=
  kDelNewDV (vOf sd) a b = a + b ∧ kDelNewDF (vOf sd) a b = a + b ∧ kUndelNewDF (vOf sd) a b = a - b ∧ kUndelNewDV (vOf sd) a b = a - b

/-- GetNotBondedLockedCoin = max(locked − DV, 0) -/
def S_notBonded (sd : Bool) (locked dv : Int) : Prop :=
  0 ≤ locked → 0 ≤ dv → notBondedLocked (vOf sd) locked dv = max (locked - dv) 0

/-- vesting formula inside the window: 0 ≤ unlocked ≤ original -/
def S_unlocked_bounds (sd : Bool) (ol x y : Int) : Prop :=
  0 ≤ ol → 0 ≤ x → x ≤ y → 0 < y →
    0 ≤ kUnlockedAmt (vOf sd) ol (kS (vOf sd) x y) ∧ kUnlockedAmt (vOf sd) ol (kS (vOf sd) x y) ≤ ol

/-- vesting formula is monotone in the elapsed seconds -/
def S_unlocked_mono (sd : Bool) (ol x1 x2 y : Int) : Prop :=
  0 ≤ ol → 0 ≤ x1 → x1 ≤ x2 → 0 < y →
    kUnlockedAmt (vOf sd) ol (kS (vOf sd) x1 y) ≤ kUnlockedAmt (vOf sd) ol (kS (vOf sd) x2 y)

/-- vesting formula: nothing at x = 0, everything at x = y -/
def S_unlocked_ends (sd : Bool) (ol y : Int) : Prop :=
  0 ≤ ol → 0 < y →
    kUnlockedAmt (vOf sd) ol (kS (vOf sd) 0 y) = 0 ∧ kUnlockedAmt (vOf sd) ol (kS (vOf sd) y y) = ol

/-- total views of `lockInfo` for the statements below -/
def lockedVal (v : Variant) (ol s e t : Int) : Int := match lockInfo v ol s e t with | .ok p => p.2 | _ => 0
def unlockedVal (v : Variant) (ol s e t : Int) : Int := match lockInfo v ol s e t with | .ok p => p.1 | _ => 0
def lockOk (v : Variant) (ol s e t : Int) : Bool := (lockInfo v ol s e t).isOk

/-- the schedule as a whole: unlocked + locked = original, both within [0, original]; 0 unlocked before start,
    everything unlocked after end -/
def S_schedule_range (sd : Bool) (ol s e t : Int) : Prop :=
  0 ≤ ol → lockOk (vOf sd) ol s e t = true →
    unlockedVal (vOf sd) ol s e t + lockedVal (vOf sd) ol s e t = ol
    ∧ 0 ≤ unlockedVal (vOf sd) ol s e t ∧ 0 ≤ lockedVal (vOf sd) ol s e t
    ∧ (t < s → unlockedVal (vOf sd) ol s e t = 0) ∧ (s ≤ t → e < t → lockedVal (vOf sd) ol s e t = 0)

/-- locked(t) never grows with time (= unlocked(t) is monotone) -/
def S_locked_antitone (sd : Bool) (ol s e t1 t2 : Int) : Prop :=
  0 ≤ ol → t1 ≤ t2 → lockOk (vOf sd) ol s e t1 = true → lockOk (vOf sd) ol s e t2 = true →
    lockedVal (vOf sd) ol s e t2 ≤ lockedVal (vOf sd) ol s e t1

/-- the schedule only panics in the degenerate window (start and end in the same Unix second, start ≤ t ≤ end) -/
def S_schedule_panics_only_degenerate (sd : Bool) (ol s e t : Int) : Prop :=
  0 ≤ ol → lockOk (vOf sd) ol s e t = false → s ≤ t ∧ t ≤ e ∧ Time.unix s = Time.unix e

instance : Decidable (S_trackDel_split sd locked dv amt) := by unfold S_trackDel_split; infer_instance
instance : Decidable (S_trackDel_bound sd locked dv amt) := by unfold S_trackDel_bound; infer_instance
instance : Decidable (S_trackDel_lockedFirst sd locked dv amt) := by unfold S_trackDel_lockedFirst; infer_instance
instance : Decidable (S_trackUndel_bounds sd df dv amt) := by unfold S_trackUndel_bounds; infer_instance
instance : Decidable (S_track_coinArith sd a b) := by unfold S_track_coinArith; infer_instance
instance : Decidable (S_notBonded sd locked dv) := by unfold S_notBonded; infer_instance
instance : Decidable (S_unlocked_bounds sd ol x y) := by unfold S_unlocked_bounds; infer_instance
instance : Decidable (S_unlocked_mono sd ol x1 x2 y) := by unfold S_unlocked_mono; infer_instance
instance : Decidable (S_unlocked_ends sd ol y) := by unfold S_unlocked_ends; infer_instance
instance : Decidable (S_schedule_range sd ol s e t) := by unfold S_schedule_range; infer_instance
instance : Decidable (S_locked_antitone sd ol s e t1 t2) := by unfold S_locked_antitone; infer_instance
instance : Decidable (S_schedule_panics_only_degenerate sd ol s e t) := by unfold S_schedule_panics_only_degenerate; infer_instance

end Sunrise.C12
