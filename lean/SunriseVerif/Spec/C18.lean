import SunriseVerif.Model.Dec
import SunriseVerif.Gen.KernelsFee
import SunriseVerif.Gen.KernelsGovFee
/-! C18 kernel statements as decidable predicates over the regenerated kernels (core-only): proved for all operands in
    Props/C18.lean, evaluated on concrete operands by the driver (the failing-input search when a proof breaks). -/
namespace Sunrise.C18
open Sunrise Dec Sunrise.Gen.KernelsFee Sunrise.Gen.KernelsGovFee

/-- burn amount is the floor of ratio·amount -/
def S_burn_floor (ratio : Dec) (amt : Int) : Prop :=
  0 ≤ ratio.raw → 0 ≤ amt → burnAmount ratio amt = ratio.raw * amt / PREC

/-- for ratio in [0,1] the burn amount is within [0, amount] -/
def S_burn_bounds (ratio : Dec) (amt : Int) : Prop :=
  0 ≤ ratio.raw → ratio.raw ≤ PREC → 0 ≤ amt → 0 ≤ burnAmount ratio amt ∧ burnAmount ratio amt ≤ amt

/-- required fee is the ceiling of price·gas -/
def S_required_ceil (p : Dec) (gas : Int) : Prop :=
  0 ≤ p.raw → 0 ≤ gas →
    p.raw * gas ≤ PREC * requiredAmount (requiredFeeDec p (Dec.ofInt gas)) ∧
    PREC * requiredAmount (requiredFeeDec p (Dec.ofInt gas)) < p.raw * gas + PREC

instance (ratio : Dec) (amt : Int) : Decidable (S_burn_floor ratio amt) := by unfold S_burn_floor; infer_instance
instance (ratio : Dec) (amt : Int) : Decidable (S_burn_bounds ratio amt) := by unfold S_burn_bounds; infer_instance
instance (p : Dec) (gas : Int) : Decidable (S_required_ceil p gas) := by unfold S_required_ceil; infer_instance
end Sunrise.C18
