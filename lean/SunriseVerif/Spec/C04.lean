import SunriseVerif.Model.Dec
import SunriseVerif.Gen.KernelsCL
/-! C04 kernel statements (decidable; evaluated on concrete inputs when a proof breaks). -/
namespace Sunrise.C04
open Sunrise Sunrise.Gen.KernelsCL

/-- Pool.IsCurrentTickInRange is the half-open interval test the bookkeeping abstraction uses -/
def S_inRange_spec (cur lo hi : Int) : Prop := IsCurrentTickInRange cur lo hi = decide (lo ≤ cur ∧ cur < hi)

/-- crossing direction conventions of the two swap helpers (CLBook.crossUp / crossDown) -/
def S_cross_conventions (lim fee net : Dec) (t : Int) : Prop :=
  (qfb_GetLiquidityDeltaSign lim fee net).raw = net.raw ∧ qfb_NextTickAfterCrossing lim fee t = t ∧
  (bfq_GetLiquidityDeltaSign lim fee net).raw = -net.raw ∧ bfq_NextTickAfterCrossing lim fee t = t - 1

instance (cur lo hi : Int) : Decidable (S_inRange_spec cur lo hi) := by unfold S_inRange_spec; infer_instance
instance (lim fee net : Dec) (t : Int) : Decidable (S_cross_conventions lim fee net t) := by unfold S_cross_conventions; infer_instance
end Sunrise.C04
