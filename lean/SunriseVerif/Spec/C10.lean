import SunriseVerif.Model.Dec34
import SunriseVerif.Gen.KernelsShare
/-! C10 kernel statements as decidable predicates over the kernels regenerated from x/shareclass/types/types.go
    (core-only).  Proved for all arguments in Props/C10.lean where marked (P); the others (T) are rounding-direction
    statements in the realistic magnitude range (< 10^16, ten times the supply cap) that are evaluated on seeded operands by the check
    (`P C10.<name> …`) — tested, not proved (design/C10.md).  Decimal arguments are passed as coefficient and a
    small exponent `-(k % 60)`. -/
namespace Sunrise.C10
open Sunrise Sunrise.Gen.KernelsShare

/-- 10^16: ten times the supply cap (app/mint/mint.go: 10^9 RISE = 10^15 urise); below it share·amount < 10^32 and the
    two half-up roundings to 34 digits cannot carry a conversion past the next integer -/
def B30 : Int := 10000000000000000

def mk (c : Int) (k : Nat) : D34 := ⟨c, -((k % 60 : Nat) : Int)⟩

/-- (P) nothing accrued since the checkpoint ⇒ nothing claimable, whatever the share balance -/
def S_reward_zero_no_accrual (c : Int) (k : Nat) (share : Int) : Prop :=
  CalculateReward (mk c k) (mk c k) share = 0

/-- (P) while the product fits 34 digits the reward is exactly ⌊(M−m)·share⌋ -/
def S_reward_exact_floor (c : Int) (k : Nat) (share : Int) : Prop :=
  0 ≤ c → 0 ≤ share → c * share < (D34.P34 : Int) →
    CalculateReward (mk c k) D34.zero share = c * share / 10 ^ (k % 60)

/-- (P) … and monotone in the share balance -/
def S_reward_mono (c : Int) (k : Nat) (s1 s2 : Int) : Prop :=
  0 ≤ c → 0 ≤ s1 → s1 ≤ s2 → c * s2 < (D34.P34 : Int) →
    CalculateReward (mk c k) D34.zero s1 ≤ CalculateReward (mk c k) D34.zero s2

/-- (P) the multiplier never decreases -/
def S_multiplier_monotone (c : Int) (k : Nat) (reward total : Int) : Prop :=
  0 ≤ reward → 0 < total →
    D34.lt (CalculateRewardMultiplierNew (mk c k) reward total) (mk c k) = false

/-- (T) shares for an amount are rounded down: share·totalBonded ≤ amount·totalShare -/
def S_share_rounds_down (totalShare totalBonded amount : Int) : Prop :=
  0 < totalShare → 0 < totalBonded → 0 ≤ amount → totalShare < B30 → totalBonded < B30 → amount < B30 →
    CalculateShareByAmount totalShare totalBonded amount * totalBonded ≤ amount * totalShare

/-- (T) … and lose less than two units -/
def S_share_tight (totalShare totalBonded amount : Int) : Prop :=
  0 < totalShare → 0 < totalBonded → 0 ≤ amount → totalShare < B30 → totalBonded < B30 → amount < B30 →
    amount * totalShare < (CalculateShareByAmount totalShare totalBonded amount + 2) * totalBonded

/-- (T) the value of shares is rounded down: amount·totalShare ≤ share·totalBonded -/
def S_amount_rounds_down (totalShare totalBonded share : Int) : Prop :=
  0 < totalShare → 0 ≤ totalBonded → 0 ≤ share → totalShare < B30 → totalBonded < B30 → share < B30 →
    CalculateAmountByShare totalShare totalBonded share * totalShare ≤ share * totalBonded

/-- (T) all holders together can claim at most the reward that raised the multiplier (two holders) -/
def S_split_le_reward (reward s1 s2 : Int) : Prop :=
  0 ≤ reward → 0 < s1 → 0 ≤ s2 → reward < B30 → s1 + s2 < B30 →
    let m := CalculateRewardMultiplierNew D34.zero reward (s1 + s2)
    CalculateReward m D34.zero s1 + CalculateReward m D34.zero s2 ≤ reward

instance : Decidable (S_reward_zero_no_accrual c k s) := by unfold S_reward_zero_no_accrual; infer_instance
instance : Decidable (S_reward_exact_floor c k s) := by unfold S_reward_exact_floor; infer_instance
instance : Decidable (S_reward_mono c k a b) := by unfold S_reward_mono; infer_instance
instance : Decidable (S_multiplier_monotone c k r t) := by unfold S_multiplier_monotone; infer_instance
instance : Decidable (S_share_rounds_down a b c) := by unfold S_share_rounds_down; infer_instance
instance : Decidable (S_share_tight a b c) := by unfold S_share_tight; infer_instance
instance : Decidable (S_amount_rounds_down a b c) := by unfold S_amount_rounds_down; infer_instance
instance : Decidable (S_split_le_reward a b c) := by unfold S_split_le_reward; infer_instance

end Sunrise.C10
