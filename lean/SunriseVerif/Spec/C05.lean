import SunriseVerif.Model.Dec
import SunriseVerif.Gen.KernelsCL
/-! C05 statements as decidable predicates over the regenerated kernels (core-only), shared by the theorems in
    Props/C05.lean (∀-quantified, proved) and by the driver (evaluated on concrete inputs when a proof breaks). -/
namespace Sunrise.C05
open Sunrise Dec Sunrise.Gen.KernelsCL

def S_quoteIn_next_le_exact (cur liq amt : Dec) : Prop :=
  0 < liq.raw → 0 ≤ amt.raw →
    ((GetNextSqrtPriceFromAmountQuoteInRoundingDown cur liq amt).raw - cur.raw) * liq.raw ≤ amt.raw * PREC
    ∧ cur.raw ≤ (GetNextSqrtPriceFromAmountQuoteInRoundingDown cur liq amt).raw

def S_quoteIn_next_tight (cur liq amt : Dec) : Prop :=
  0 < liq.raw → 0 ≤ amt.raw →
    amt.raw * PREC < ((GetNextSqrtPriceFromAmountQuoteInRoundingDown cur liq amt).raw - cur.raw) * liq.raw + liq.raw

def S_quoteOut_next_le_exact (cur liq amt : Dec) : Prop :=
  0 < liq.raw → 0 ≤ amt.raw →
    amt.raw * PREC ≤ (cur.raw - (GetNextSqrtPriceFromAmountQuoteOutRoundingDown cur liq amt).raw) * liq.raw
    ∧ (GetNextSqrtPriceFromAmountQuoteOutRoundingDown cur liq amt).raw ≤ cur.raw

def S_baseIn_next_ge_exact (cur liq amt : Dec) : Prop :=
  0 < cur.raw → 0 < liq.raw → 0 < amt.raw →
    liq.raw * cur.raw * PREC ≤
      (GetNextSqrtPriceFromAmountBaseInRoundingUp cur liq amt).raw * (liq.raw * PREC + amt.raw * cur.raw)

def S_baseOut_next_ge_exact (cur liq amt : Dec) : Prop :=
  0 < cur.raw → 0 < liq.raw → 0 < amt.raw → 0 < (Dec.sub liq (mulRoundUp cur amt)).raw →
    liq.raw * cur.raw * PREC ≤
      (GetNextSqrtPriceFromAmountBaseOutRoundingUp cur liq amt).raw * (liq.raw * PREC - amt.raw * cur.raw)

def S_quoteDelta_up_ge_exact (liq a b : Dec) : Prop :=
  0 ≤ liq.raw →
    (Dec.abs (Dec.sub b a)).raw * liq.raw ≤ PREC * (CalcAmountQuoteDelta liq a b true).raw + HALF
    ∧ (CalcAmountQuoteDelta liq a b true).raw % PREC = 0

def S_quoteDelta_down_le_exact (liq a b : Dec) : Prop :=
  0 ≤ liq.raw →
    PREC * (CalcAmountQuoteDelta liq a b false).raw ≤ (Dec.abs (Dec.sub b a)).raw * liq.raw + HALF
    ∧ 0 ≤ (CalcAmountQuoteDelta liq a b false).raw

def S_feeRatio_ge_exact (f : Dec) : Prop :=
  0 ≤ f.raw → f.raw < PREC →
    f.raw * PREC ≤ (getFeeRateOverOneMinusFeeRate f).raw * (PREC - f.raw)
    ∧ 0 ≤ (getFeeRateOverOneMinusFeeRate f).raw

def S_feeCharge_ge_exact (amountIn ratio : Dec) : Prop :=
  0 ≤ amountIn.raw → 0 ≤ ratio.raw →
    amountIn.raw * ratio.raw ≤ PREC * (computeFeeChargeFromInAmount amountIn ratio).raw
    ∧ 0 ≤ (computeFeeChargeFromInAmount amountIn ratio).raw

def S_stepFee_cases (reached : Bool) (amountIn remaining fee : Dec) : Prop :=
  computeFeeChargePerSwapStepOutGivenIn_ok reached amountIn remaining fee = true →
    0 ≤ (computeFeeChargePerSwapStepOutGivenIn reached amountIn remaining fee).raw
    ∧ (fee.raw = 0 → (computeFeeChargePerSwapStepOutGivenIn reached amountIn remaining fee).raw = 0)
    ∧ (fee.raw > 0 → reached = false →
        (computeFeeChargePerSwapStepOutGivenIn reached amountIn remaining fee).raw = remaining.raw - amountIn.raw)

def S_target_clamped_bfq (lim fee p : Dec) : Prop := lim.raw ≤ (bfq_GetSqrtTargetPrice lim fee p).raw
def S_target_clamped_qfb (lim fee p : Dec) : Prop := (qfb_GetSqrtTargetPrice lim fee p).raw ≤ lim.raw

def S_validate_bfq (lim fee p cur : Dec) : Prop :=
  bfq_ValidateSqrtPrice_err lim fee p cur = false → MinSqrtPrice.raw ≤ p.raw ∧ p.raw ≤ cur.raw
def S_validate_qfb (lim fee p cur : Dec) : Prop :=
  qfb_ValidateSqrtPrice_err lim fee p cur = false → cur.raw ≤ p.raw ∧ p.raw ≤ MaxSqrtPrice.raw


/-- bucket step, exact-in: when the fee-reduced remaining amount covers the whole bucket the step lands exactly on the target,
    consumes the full-bucket input (rounded up) and charges the fee on it -/
def S_bfq_outGivenIn_reaches (lim fee cur tgt liq rem : Dec) : Prop :=
  Dec.gte (Dec.mul rem (Dec.sub Dec.one fee)) (CalcAmountBaseDelta liq tgt cur true) = true →
    (bfq_ComputeSwapWithinBucketOutGivenIn lim fee cur tgt liq rem).1 = tgt
    ∧ (bfq_ComputeSwapWithinBucketOutGivenIn lim fee cur tgt liq rem).2.1 = CalcAmountBaseDelta liq tgt cur true
    ∧ (bfq_ComputeSwapWithinBucketOutGivenIn lim fee cur tgt liq rem).2.2.1 = CalcAmountQuoteDelta liq tgt cur false

def S_qfb_outGivenIn_reaches (lim fee cur tgt liq rem : Dec) : Prop :=
  Dec.gte (Dec.mul rem (Dec.sub Dec.one fee)) (CalcAmountQuoteDelta liq tgt cur true) = true →
    (qfb_ComputeSwapWithinBucketOutGivenIn lim fee cur tgt liq rem).1 = tgt
    ∧ (qfb_ComputeSwapWithinBucketOutGivenIn lim fee cur tgt liq rem).2.1 = CalcAmountQuoteDelta liq tgt cur true
    ∧ (qfb_ComputeSwapWithinBucketOutGivenIn lim fee cur tgt liq rem).2.2.1 = CalcAmountBaseDelta liq tgt cur false

/-- quote-in step that stops short of the target never moves the price against the trade -/
def S_qfb_outGivenIn_direction (lim fee cur tgt liq rem : Dec) : Prop :=
  0 < liq.raw → 0 ≤ rem.raw → 0 ≤ fee.raw → fee.raw ≤ PREC →
  Dec.gte (Dec.mul rem (Dec.sub Dec.one fee)) (CalcAmountQuoteDelta liq tgt cur true) = false →
    cur.raw ≤ (qfb_ComputeSwapWithinBucketOutGivenIn lim fee cur tgt liq rem).1.raw

/-- exact-out steps never hand out more than was asked for in the step (explicit cap in both helpers) -/
def S_bfq_inGivenOut_out_le_remaining (lim fee cur tgt liq rem : Dec) : Prop :=
  (bfq_ComputeSwapWithinBucketInGivenOut lim fee cur tgt liq rem).2.1.raw ≤ rem.raw
def S_qfb_inGivenOut_out_le_remaining (lim fee cur tgt liq rem : Dec) : Prop :=
  (qfb_ComputeSwapWithinBucketInGivenOut lim fee cur tgt liq rem).2.1.raw ≤ rem.raw

def S_bfq_inGivenOut_reaches (lim fee cur tgt liq rem : Dec) : Prop :=
  Dec.gte rem (CalcAmountQuoteDelta liq tgt cur false) = true →
    (bfq_ComputeSwapWithinBucketInGivenOut lim fee cur tgt liq rem).1 = tgt
    ∧ (bfq_ComputeSwapWithinBucketInGivenOut lim fee cur tgt liq rem).2.2.1 = CalcAmountBaseDelta liq tgt cur true

def S_qfb_inGivenOut_reaches (lim fee cur tgt liq rem : Dec) : Prop :=
  Dec.gte rem (CalcAmountBaseDelta liq tgt cur false) = true →
    (qfb_ComputeSwapWithinBucketInGivenOut lim fee cur tgt liq rem).1 = tgt
    ∧ (qfb_ComputeSwapWithinBucketInGivenOut lim fee cur tgt liq rem).2.2.1 = CalcAmountQuoteDelta liq tgt cur true

instance : Decidable (S_quoteIn_next_le_exact cur liq amt) := by unfold S_quoteIn_next_le_exact; infer_instance
instance : Decidable (S_quoteIn_next_tight cur liq amt) := by unfold S_quoteIn_next_tight; infer_instance
instance : Decidable (S_quoteOut_next_le_exact cur liq amt) := by unfold S_quoteOut_next_le_exact; infer_instance
instance : Decidable (S_baseIn_next_ge_exact cur liq amt) := by unfold S_baseIn_next_ge_exact; infer_instance
instance : Decidable (S_baseOut_next_ge_exact cur liq amt) := by unfold S_baseOut_next_ge_exact; infer_instance
instance : Decidable (S_quoteDelta_up_ge_exact liq a b) := by unfold S_quoteDelta_up_ge_exact; infer_instance
instance : Decidable (S_quoteDelta_down_le_exact liq a b) := by unfold S_quoteDelta_down_le_exact; infer_instance
instance : Decidable (S_feeRatio_ge_exact f) := by unfold S_feeRatio_ge_exact; infer_instance
instance : Decidable (S_feeCharge_ge_exact amountIn ratio) := by unfold S_feeCharge_ge_exact; infer_instance
instance : Decidable (S_stepFee_cases reached amountIn remaining fee) := by unfold S_stepFee_cases; infer_instance
instance : Decidable (S_target_clamped_bfq lim fee p) := by unfold S_target_clamped_bfq; infer_instance
instance : Decidable (S_target_clamped_qfb lim fee p) := by unfold S_target_clamped_qfb; infer_instance
instance : Decidable (S_validate_bfq lim fee p cur) := by unfold S_validate_bfq; infer_instance
instance : Decidable (S_validate_qfb lim fee p cur) := by unfold S_validate_qfb; infer_instance
instance (lim fee cur tgt liq rem : Dec) : Decidable (S_bfq_outGivenIn_reaches lim fee cur tgt liq rem) := by unfold S_bfq_outGivenIn_reaches; infer_instance
instance (lim fee cur tgt liq rem : Dec) : Decidable (S_qfb_outGivenIn_reaches lim fee cur tgt liq rem) := by unfold S_qfb_outGivenIn_reaches; infer_instance
instance (lim fee cur tgt liq rem : Dec) : Decidable (S_qfb_outGivenIn_direction lim fee cur tgt liq rem) := by unfold S_qfb_outGivenIn_direction; infer_instance
instance (lim fee cur tgt liq rem : Dec) : Decidable (S_bfq_inGivenOut_out_le_remaining lim fee cur tgt liq rem) := by unfold S_bfq_inGivenOut_out_le_remaining; infer_instance
instance (lim fee cur tgt liq rem : Dec) : Decidable (S_qfb_inGivenOut_out_le_remaining lim fee cur tgt liq rem) := by unfold S_qfb_inGivenOut_out_le_remaining; infer_instance
instance (lim fee cur tgt liq rem : Dec) : Decidable (S_bfq_inGivenOut_reaches lim fee cur tgt liq rem) := by unfold S_bfq_inGivenOut_reaches; infer_instance
instance (lim fee cur tgt liq rem : Dec) : Decidable (S_qfb_inGivenOut_reaches lim fee cur tgt liq rem) := by unfold S_qfb_inGivenOut_reaches; infer_instance

end Sunrise.C05
