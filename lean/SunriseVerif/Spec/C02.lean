import SunriseVerif.Model.Dec
import SunriseVerif.Gen.KernelsCL
/-! C02 kernel statements: what a position pays in on deposit is never less than what the same liquidity takes out. -/
namespace Sunrise.C02
open Sunrise Sunrise.Gen.KernelsCL

/-- quote side: amount withdrawn (roundUp = false, then truncated) ≤ amount deposited (roundUp = true) for the same liquidity and range -/
def S_quote_withdraw_le_deposit (liq a b : Dec) : Prop :=
  0 ≤ liq.raw →
    Dec.truncateInt (CalcAmountQuoteDelta liq a b false) ≤ Dec.truncateInt (CalcAmountQuoteDelta liq a b true)
    ∧ 0 ≤ Dec.truncateInt (CalcAmountQuoteDelta liq a b false)

/-- base side, same statement (prices positive so that no division panics) -/
def S_base_withdraw_le_deposit (liq a b : Dec) : Prop :=
  0 ≤ liq.raw → 0 < a.raw → 0 < b.raw →
    Dec.truncateInt (CalcAmountBaseDelta liq a b false) ≤ Dec.truncateInt (CalcAmountBaseDelta liq a b true)
    ∧ 0 ≤ Dec.truncateInt (CalcAmountBaseDelta liq a b false)

/-- a withdrawal (negative liquidity delta, roundUp = false) pays |amount| computed on |liquidity| rounded towards zero:
    the magnitude never exceeds the round-up amount of the same magnitude of liquidity -/
def S_quote_neg_delta_symmetric (liq a b : Dec) : Prop :=
  0 ≤ liq.raw →
    (CalcAmountQuoteDelta (Dec.neg liq) a b false).raw = -(CalcAmountQuoteDelta liq a b false).raw

instance (liq a b : Dec) : Decidable (S_quote_withdraw_le_deposit liq a b) := by unfold S_quote_withdraw_le_deposit; infer_instance
instance (liq a b : Dec) : Decidable (S_base_withdraw_le_deposit liq a b) := by unfold S_base_withdraw_le_deposit; infer_instance
instance (liq a b : Dec) : Decidable (S_quote_neg_delta_symmetric liq a b) := by unfold S_quote_neg_delta_symmetric; infer_instance
end Sunrise.C02
