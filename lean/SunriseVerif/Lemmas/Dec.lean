import SunriseVerif.Model.Dec
/-! Rounding facts about the `LegacyDec` model, each against the exact integer quantity. Core-only. -/
namespace Sunrise
namespace Dec

theorem PREC_pos : (0:Int) < PREC := by decide
theorem PREC_eq : PREC = 1000000000000000000 := rfl
theorem HALF_eq : HALF = 500000000000000000 := rfl

theorem tquo_nonneg_eq {a b : Int} (ha : 0 ≤ a) (_hb : 0 ≤ b) : tquo a b = a / b := by
  unfold tquo; exact Int.tdiv_eq_ediv_of_nonneg ha

/-- banker's rounding of a non-negative raw product: within half an ulp of the exact value -/
theorem chopRoundNN_bounds (d : Int) (hd : 0 ≤ d) :
    PREC * chopRoundNN d ≤ d + HALF ∧ d ≤ PREC * chopRoundNN d + HALF ∧ 0 ≤ chopRoundNN d := by
  generalize hq : chopRoundNN d = q
  unfold chopRoundNN at hq
  simp only [] at hq
  split at hq
  · simp only [PREC_eq, HALF_eq] at *; omega
  · split at hq
    · simp only [PREC_eq, HALF_eq] at *; omega
    · split at hq
      · simp only [PREC_eq, HALF_eq] at *; omega
      · split at hq <;> simp only [PREC_eq, HALF_eq] at * <;> omega

theorem chopRound_nonneg_bounds (d : Int) (hd : 0 ≤ d) :
    PREC * chopRound d ≤ d + HALF ∧ d ≤ PREC * chopRound d + HALF ∧ 0 ≤ chopRound d := by
  unfold chopRound
  have : ¬ d < 0 := by omega
  simp only [this, if_false]
  exact chopRoundNN_bounds d hd

/-- round-up chop of a non-negative raw product is the ceiling -/
theorem chopRoundUp_nonneg_bounds (d : Int) (hd : 0 ≤ d) :
    d ≤ PREC * chopRoundUp d ∧ PREC * chopRoundUp d < d + PREC ∧ 0 ≤ chopRoundUp d := by
  generalize hq : chopRoundUp d = q
  unfold chopRoundUp at hq
  have : ¬ d < 0 := by omega
  simp only [this, if_false] at hq ⊢
  split at hq <;> simp only [PREC_eq] at * <;> omega

/-- truncating chop of a non-negative raw product is the floor -/
theorem chopTrunc_nonneg_bounds (d : Int) (hd : 0 ≤ d) :
    PREC * chopTrunc d ≤ d ∧ d < PREC * chopTrunc d + PREC ∧ 0 ≤ chopTrunc d := by
  unfold chopTrunc
  rw [tquo_nonneg_eq hd (by decide)]
  simp only [PREC_eq]
  omega

/-- Ceil of a non-negative decimal: the least multiple of 10^18 that is ≥ it -/
theorem ceil_nonneg_bounds (a : Dec) (ha : 0 ≤ a.raw) :
    a.raw ≤ (ceil a).raw ∧ (ceil a).raw < a.raw + PREC ∧ (ceil a).raw % PREC = 0 := by
  generalize hq : ceil a = q
  unfold ceil at hq
  have h1 : Int.tdiv a.raw PREC = a.raw / PREC := Int.tdiv_eq_ediv_of_nonneg ha
  have h2 : Int.tmod a.raw PREC = a.raw % PREC := Int.tmod_eq_emod_of_nonneg ha
  simp only [h1, h2] at hq ⊢
  split at hq <;> subst hq <;> simp only [PREC_eq] at * <;> omega

theorem truncateInt_nonneg_bounds (a : Dec) (ha : 0 ≤ a.raw) :
    PREC * truncateInt a ≤ a.raw ∧ a.raw < PREC * truncateInt a + PREC ∧ 0 ≤ truncateInt a :=
  chopTrunc_nonneg_bounds a.raw ha

end Dec
end Sunrise

namespace Sunrise
namespace Dec

/-- QuoRoundUp of a non-negative by a positive decimal is the exact ceiling of a·10^18/b -/
theorem quoRoundUp_pos_bounds (a b : Dec) (ha : 0 ≤ a.raw) (hb : 0 < b.raw) :
    a.raw * PREC ≤ (quoRoundUp a b).raw * b.raw ∧ (quoRoundUp a b).raw * b.raw < a.raw * PREC + b.raw
      ∧ 0 ≤ (quoRoundUp a b).raw := by
  have hn : 0 ≤ a.raw * PREC := Int.mul_nonneg ha (by decide)
  have h1 : Int.tdiv (a.raw * PREC) b.raw = (a.raw * PREC) / b.raw := Int.tdiv_eq_ediv_of_nonneg hn
  have h2 : Int.tmod (a.raw * PREC) b.raw = (a.raw * PREC) % b.raw := Int.tmod_eq_emod_of_nonneg hn
  have hq : 0 ≤ (a.raw * PREC) / b.raw := Int.ediv_nonneg hn (Int.le_of_lt hb)
  have hm := Int.emod_nonneg (a.raw * PREC) (Int.ne_of_gt hb)
  have hm2 := Int.emod_lt_of_pos (a.raw * PREC) hb
  have hd := Int.mul_ediv_add_emod (a.raw * PREC) b.raw
  have hcomm : b.raw * (a.raw * PREC / b.raw) = (a.raw * PREC / b.raw) * b.raw := Int.mul_comm _ _
  generalize hr : quoRoundUp a b = r
  unfold quoRoundUp at hr
  simp only [h1, h2] at hr
  have nq : ¬ ((a.raw * PREC) / b.raw < 0) := by omega
  have nb : ¬ (b.raw < 0) := by omega
  simp only [nq, nb, decide_false, ne_eq, not_true_eq_false, and_false, or_false, and_true] at hr
  split at hr
  · subst hr; simp only []
    have : (a.raw * PREC / b.raw + 1) * b.raw = (a.raw * PREC / b.raw) * b.raw + b.raw := by
      rw [Int.add_mul, Int.one_mul]
    omega
  · subst hr; simp only []; omega

/-- QuoTruncate of a non-negative by a positive decimal is the exact floor of a·10^18/b -/
theorem quoTruncate_pos_bounds (a b : Dec) (ha : 0 ≤ a.raw) (hb : 0 < b.raw) :
    (quoTruncate a b).raw * b.raw ≤ a.raw * PREC ∧ a.raw * PREC < (quoTruncate a b).raw * b.raw + b.raw
      ∧ 0 ≤ (quoTruncate a b).raw := by
  have hn : 0 ≤ a.raw * PREC := Int.mul_nonneg ha (by decide)
  unfold quoTruncate
  simp only [tquo_nonneg_eq hn (Int.le_of_lt hb)]
  have hq : 0 ≤ (a.raw * PREC) / b.raw := Int.ediv_nonneg hn (Int.le_of_lt hb)
  have hm := Int.emod_nonneg (a.raw * PREC) (Int.ne_of_gt hb)
  have hm2 := Int.emod_lt_of_pos (a.raw * PREC) hb
  have hd := Int.mul_ediv_add_emod (a.raw * PREC) b.raw
  have hcomm : b.raw * (a.raw * PREC / b.raw) = (a.raw * PREC / b.raw) * b.raw := Int.mul_comm _ _
  omega

theorem mul_nonneg_bounds (a b : Dec) (h : 0 ≤ a.raw * b.raw) :
    PREC * (mul a b).raw ≤ a.raw * b.raw + HALF ∧ a.raw * b.raw ≤ PREC * (mul a b).raw + HALF ∧ 0 ≤ (mul a b).raw :=
  chopRound_nonneg_bounds _ h

theorem mulRoundUp_nonneg_bounds (a b : Dec) (h : 0 ≤ a.raw * b.raw) :
    a.raw * b.raw ≤ PREC * (mulRoundUp a b).raw ∧ PREC * (mulRoundUp a b).raw < a.raw * b.raw + PREC ∧ 0 ≤ (mulRoundUp a b).raw :=
  chopRoundUp_nonneg_bounds _ h

theorem mulTruncate_nonneg_bounds (a b : Dec) (h : 0 ≤ a.raw * b.raw) :
    PREC * (mulTruncate a b).raw ≤ a.raw * b.raw ∧ a.raw * b.raw < PREC * (mulTruncate a b).raw + PREC ∧ 0 ≤ (mulTruncate a b).raw :=
  chopTrunc_nonneg_bounds _ h

end Dec
end Sunrise

namespace Sunrise
namespace Dec
theorem abs_raw_nonneg (a : Dec) : 0 ≤ (Dec.abs a).raw := by
  unfold Dec.abs
  by_cases h : a.raw < 0
  · simp only [h, if_true]; omega
  · simp only [h, if_false]; omega
theorem abs_raw_cases (a : Dec) : (Dec.abs a).raw = a.raw ∨ (Dec.abs a).raw = -a.raw := by
  unfold Dec.abs
  by_cases h : a.raw < 0
  · simp only [h, if_true]; exact Or.inr trivial
  · simp only [h, if_false]; exact Or.inl trivial
end Dec
end Sunrise
