import SunriseVerif.Model.IbcSwap
/-! Helper lemmas for Props/C11: frame facts of every keeper function and the bookkeeping invariant. -/
set_option linter.unusedSimpArgs false
set_option linter.unusedVariables false
namespace Sunrise.IbcSwap
open Sunrise

@[simp] theorem upd_same {β} (f : Idx → β) (i : Idx) (v : β) : upd f i v i = v := by simp [upd]
theorem upd_other {β} (f : Idx → β) (i j : Idx) (v : β) (h : j ≠ i) : upd f i v j = f j := by simp [upd, h]

@[simp] theorem touch_bank (s : St) (i : Idx) : (s.touch i).bank = s.bank := by unfold St.touch; split <;> rfl
@[simp] theorem touch_inc (s : St) (i : Idx) : (s.touch i).inc = s.inc := by unfold St.touch; split <;> rfl
@[simp] theorem touch_out (s : St) (i : Idx) : (s.touch i).out = s.out := by unfold St.touch; split <;> rfl
@[simp] theorem touch_acks (s : St) (i : Idx) : (s.touch i).acks = s.acks := by unfold St.touch; split <;> rfl
@[simp] theorem touch_ackLog (s : St) (i : Idx) : (s.touch i).ackLog = s.ackLog := by unfold St.touch; split <;> rfl
@[simp] theorem touch_receipts (s : St) (i : Idx) : (s.touch i).receipts = s.receipts := by unfold St.touch; split <;> rfl
@[simp] theorem touch_commits (s : St) (i : Idx) : (s.touch i).commits = s.commits := by unfold St.touch; split <;> rfl
@[simp] theorem touch_nextSeq (s : St) (i : Idx) : (s.touch i).nextSeq = s.nextSeq := by unfold St.touch; split <;> rfl

theorem bind_ok {α β} {r : Res α} {f : α → Res β} {y : β} (h : r.bind f = .ok y) : ∃ a, r = .ok a ∧ f a = .ok y := by
  cases r with
  | ok a => exact ⟨a, rfl, h⟩
  | err c => simp [Res.bind] at h
  | panic k => simp [Res.bind] at h

/-- the four components the acknowledgement bookkeeping lives in are untouched -/
def Same (s s' : St) : Prop :=
  s'.inc = s.inc ∧ s'.acks = s.acks ∧ s'.ackLog = s.ackLog ∧ s'.receipts = s.receipts

theorem Same.refl (s : St) : Same s s := ⟨rfl, rfl, rfl, rfl⟩
theorem Same.trans {a b c : St} (h1 : Same a b) (h2 : Same b c) : Same a c :=
  ⟨h2.1.trans h1.1, h2.2.1.trans h1.2.1, h2.2.2.1.trans h1.2.2.1, h2.2.2.2.trans h1.2.2.2⟩

theorem sendPacket_same (s : St) (p : Packet) : Same s (sendPacket s p).1 := by
  unfold sendPacket; simp [Same]

theorem sendPacket_out (s : St) (p : Packet) : (sendPacket s p).1.out = s.out := by
  unfold sendPacket; simp

theorem sendPacket_bank (s : St) (p : Packet) : (sendPacket s p).1.bank = s.bank := by
  unfold sendPacket; simp

theorem transferLeg_same {s s' : St} {w i : Idx} {a : Addr} {d : Denom} {x : Int} {m : LegMeta}
    (h : transferLeg s w a d x m = .ok (s', i)) : Same s s' := by
  unfold transferLeg at h
  split at h
  · simp at h
  · split at h
    · simp at h
    · split at h
      · simp at h
      · obtain ⟨b1, _, h⟩ := bind_ok h
        simp only [Res.ok.injEq, Prod.mk.injEq] at h
        obtain ⟨h, _⟩ := h
        subst h
        have := sendPacket_same { s with bank := b1 }
          { src := m.ch, dst := ‹Chan›, seq := 0, denom := d, amount := x, sender := a, receiver := m.receiver, memo := .none }
        simpa [Same] using this


/-- bookkeeping invariant over (inc, acks, ackLog, receipts) -/
structure Inv (s : St) : Prop where
  key : ∀ i r, s.inc i = some r → r.index = i
  wait : ∀ i r, s.inc i = some r → (r.change.isIdx || r.forward.isIdx) = true
  noack : ∀ i r, s.inc i = some r → s.acks i = none
  rcpt : ∀ i r, s.inc i = some r → s.receipts i = true
  ackRcpt : ∀ i a, s.acks i = some a → s.receipts i = true
  logNodup : (s.ackLog.map Prod.fst).Nodup
  logAcks : ∀ i a, (i, a) ∈ s.ackLog → s.acks i = some a
  acksLog : ∀ i a, s.acks i = some a → (i, a) ∈ s.ackLog

theorem Inv.of_same {s s' : St} (h : Same s s') (hi : Inv s) : Inv s' := by
  obtain ⟨h1, h2, h3, h4⟩ := h
  exact ⟨by rw [h1]; exact hi.key, by rw [h1]; exact hi.wait, by rw [h1, h2]; exact hi.noack, by rw [h1, h4]; exact hi.rcpt,
    by rw [h2, h4]; exact hi.ackRcpt, by rw [h3]; exact hi.logNodup, by rw [h3, h2]; exact hi.logAcks, by rw [h3, h2]; exact hi.acksLog⟩

theorem Inv.of_eq {s s' : St} (hi : Inv s) (h1 : s'.inc = s.inc) (h2 : s'.acks = s.acks) (h3 : s'.ackLog = s.ackLog)
    (h4 : s'.receipts = s.receipts) : Inv s' := Inv.of_same ⟨h1, h2, h3, h4⟩ hi

theorem Inv.init : Inv ({} : St) := by
  constructor <;> simp

/-- writing an acknowledgement for a received packet that has none, and dropping its waiting record -/
theorem writeAck_inv {s s' : St} {i : Idx} {a : Ack} (hi : Inv s) (hr : s.receipts i = true)
    (h : writeAck s i a = .ok s') :
    Inv { s' with inc := upd s'.inc i none } ∧ s'.inc = s.inc ∧ s'.receipts = s.receipts ∧ s'.acks i = some a
      ∧ s.acks i = none ∧ s'.out = s.out ∧ s'.bank = s.bank := by
  unfold writeAck at h
  split at h
  · simp at h
  · rename_i hnone
    simp only [Res.ok.injEq] at h
    subst h
    refine ⟨⟨?_, ?_, ?_, ?_, ?_, ?_, ?_, ?_⟩, by simp, by simp, by simp, hnone, by simp, by simp⟩
    · intro j r hj
      by_cases e : j = i
      · subst e; simp at hj
      · simp [upd_other _ _ _ _ e] at hj; exact hi.key j r hj
    · intro j r hj
      by_cases e : j = i
      · subst e; simp at hj
      · simp [upd_other _ _ _ _ e] at hj; exact hi.wait j r hj
    · intro j r hj
      by_cases e : j = i
      · subst e; simp at hj
      · simp [upd_other _ _ _ _ e] at hj ⊢; exact hi.noack j r hj
    · intro j r hj
      by_cases e : j = i
      · subst e; simp at hj
      · simp [upd_other _ _ _ _ e] at hj ⊢; exact hi.rcpt j r hj
    · intro j b hj
      simp only [touch_acks, touch_receipts] at hj ⊢
      by_cases e : j = i
      · rw [e]; exact hr
      · rw [upd_other _ _ _ _ e] at hj; exact hi.ackRcpt j b hj
    · simp only [touch_ackLog, List.map_cons, List.nodup_cons]
      refine ⟨?_, hi.logNodup⟩
      intro hm
      obtain ⟨⟨j, b⟩, hjb, e⟩ := List.mem_map.mp hm
      simp at e; subst e
      have := hi.logAcks _ _ hjb
      rw [hnone] at this; cases this
    · intro j b hj
      simp only [touch_ackLog, touch_acks, List.mem_cons] at hj ⊢
      rcases hj with e | hj
      · cases e; simp
      · have hb := hi.logAcks j b hj
        have hne : j ≠ i := fun e => by rw [e, hnone] at hb; cases hb
        rw [upd_other _ _ _ _ hne]; exact hb
    · intro j b hj
      simp only [touch_ackLog, touch_acks, List.mem_cons] at hj ⊢
      by_cases e : j = i
      · subst e; simp at hj; left; rw [hj]
      · rw [upd_other _ _ _ _ e] at hj; right; exact hi.acksLog j b hj

theorem Inv.erase {s : St} (hi : Inv s) (i : Idx) : Inv { s with inc := upd s.inc i none } := by
  refine ⟨?_, ?_, ?_, ?_, hi.ackRcpt, hi.logNodup, hi.logAcks, hi.acksLog⟩ <;>
  · intro j r hj
    simp only at hj
    by_cases e : j = i
    · subst e; simp at hj
    · rw [upd_other _ _ _ _ e] at hj
      first | exact hi.key j r hj | exact hi.wait j r hj | exact hi.noack j r hj | exact hi.rcpt j r hj

/-- storing an updated waiting record that still waits -/
theorem Inv.store {s : St} (hi : Inv s) (r : IncRec) (hw : (r.change.isIdx || r.forward.isIdx) = true)
    (hn : s.acks r.index = none) (hr : s.receipts r.index = true) :
    Inv { s with inc := upd s.inc r.index (some r) } := by
  refine ⟨?_, ?_, ?_, ?_, hi.ackRcpt, hi.logNodup, hi.logAcks, hi.acksLog⟩ <;>
  · intro j q hj
    simp only at hj
    by_cases e : j = r.index
    · subst e; simp at hj; subst hj
      first | rfl | exact hw | exact hn | exact hr
    · rw [upd_other _ _ _ _ e] at hj
      first | exact hi.key j q hj | exact hi.wait j q hj | exact hi.noack j q hj | exact hi.rcpt j q hj

/-- the tail of both keeper handlers: either the record is stored again (still waiting) or the combined
    acknowledgement is written once and the record deleted -/
theorem finishWaiting_inv {s s' : St} {r : IncRec} (hi : Inv s) (hn : s.acks r.index = none) (hr : s.receipts r.index = true)
    (h : finishWaiting s r = .ok s') : Inv s' := by
  unfold finishWaiting shouldDelete at h
  by_cases hc : r.change.isIdx = true
  · simp only [hc, if_true, Res.bind] at h
    simp only [Bool.false_eq_true, if_false, Res.ok.injEq] at h
    subst h
    exact Inv.of_same ⟨by simp, by simp, by simp, by simp⟩ (hi.store r (by simp [hc]) hn hr)
  · by_cases hf : r.forward.isIdx = true
    · simp only [hc, hf, if_true, if_false, Res.bind, Bool.false_eq_true] at h
      simp only [Res.ok.injEq] at h
      subst h
      exact Inv.of_same ⟨by simp, by simp, by simp, by simp⟩ (hi.store r (by simp [hf]) hn hr)
    · simp only [hc, hf, if_false, Bool.false_eq_true] at h
      obtain ⟨⟨s2, d⟩, h1, h2⟩ := bind_ok h
      obtain ⟨s1, hw, h3⟩ := bind_ok h1
      simp only [Res.ok.injEq, Prod.mk.injEq] at h3
      obtain ⟨h3, hd⟩ := h3
      subst h3 hd
      simp only [if_true, Res.ok.injEq] at h2
      subst h2
      exact (writeAck_inv hi hr hw).1


theorem moveSlot_isIdx (sl : Slot) (i j : Idx) : (moveSlot sl i j).isIdx = sl.isIdx := by
  cases sl with
  | none => rfl
  | ack t => rfl
  | idx k => unfold moveSlot; simp only; split <;> rfl

theorem keeperOnAck_inv {s s' : St} {o : OutRec} {tok : String} (hi : Inv s) (h : keeperOnAck s o tok = .ok s') : Inv s' := by
  unfold keeperOnAck at h
  split at h
  · simp only [Res.ok.injEq] at h; subst h; exact hi
  · rename_i r hr
    have hk := hi.key _ _ hr
    refine finishWaiting_inv (s := { s with out := upd s.out o.index none }) (hi.of_eq rfl rfl rfl rfl) ?_ ?_ h
    · show s.acks r.index = none
      rw [hk]; exact hi.noack _ _ hr
    · show s.receipts r.index = true
      rw [hk]; exact hi.rcpt _ _ hr

theorem keeperOnTimeout_inv {s s' : St} {p : Packet} {o : OutRec} {b : Bool} (hi : Inv s)
    (h : keeperOnTimeout s p o = .ok (s', b)) : Inv s' := by
  unfold keeperOnTimeout at h
  simp only at h
  split at h
  · -- re-send
    have hs : Same s ({ (sendPacket { s with out := upd s.out o.index none } p).1 with
        out := upd (sendPacket { s with out := upd s.out o.index none } p).1.out ⟨p.src, (sendPacket { s with out := upd s.out o.index none } p).2⟩
          (some { o with index := ⟨p.src, (sendPacket { s with out := upd s.out o.index none } p).2⟩, retries := o.retries - 1 }) }.touch
          ⟨p.src, (sendPacket { s with out := upd s.out o.index none } p).2⟩) := by
      have := sendPacket_same { s with out := upd s.out o.index none } p
      obtain ⟨a1, a2, a3, a4⟩ := this
      exact ⟨by simp [a1], by simp [a2], by simp [a3], by simp [a4]⟩
    have hi3 := Inv.of_same hs hi
    split at h
    · simp only [Res.ok.injEq, Prod.mk.injEq] at h; rw [← h.1]; exact hi3
    · rename_i r hr
      simp only [Res.ok.injEq, Prod.mk.injEq] at h
      rw [← h.1]
      have hk := hi3.key _ _ hr
      have := hi3.store { r with change := moveSlot r.change o.index ⟨p.src, (sendPacket { s with out := upd s.out o.index none } p).2⟩,
                                 forward := moveSlot r.forward o.index ⟨p.src, (sendPacket { s with out := upd s.out o.index none } p).2⟩ }
        (by simp only [moveSlot_isIdx]; exact hi3.wait _ _ hr)
        (by show _ = none; rw [hk]; exact hi3.noack _ _ hr)
        (by show _ = true; rw [hk]; exact hi3.rcpt _ _ hr)
      exact this
  · split at h
    · simp only [Res.ok.injEq, Prod.mk.injEq] at h; rw [← h.1]; exact hi.of_eq rfl rfl rfl rfl
    · rename_i r hr
      obtain ⟨s2, h2, h3⟩ := bind_ok h
      simp only [Res.ok.injEq, Prod.mk.injEq] at h3
      rw [← h3.1]
      have hk := hi.key _ _ hr
      refine finishWaiting_inv (s := { s with out := upd s.out o.index none }) (hi.of_eq rfl rfl rfl rfl) ?_ ?_ h2
      · show s.acks r.index = none
        rw [hk]; exact hi.noack _ _ hr
      · show s.receipts r.index = true
        rw [hk]; exact hi.rcpt _ _ hr

theorem appOnAck_same {s s' : St} {p : Packet} {a : Ack} (h : appOnAck s p a = .ok s') : Same s s' := by
  unfold appOnAck at h
  split at h
  · simp only [Res.ok.injEq] at h; subst h; exact Same.refl _
  · obtain ⟨b, _, h⟩ := bind_ok h
    simp only [Res.ok.injEq] at h; subst h; exact ⟨rfl, rfl, rfl, rfl⟩

theorem onAck_inv {s s' : St} {p : Packet} {a : Ack} (hi : Inv s) (h : onAck s p a = .ok s') : Inv s' := by
  unfold onAck at h
  split at h
  · exact Inv.of_same (appOnAck_same h) hi
  · obtain ⟨s1, h1, h2⟩ := bind_ok h
    exact Inv.of_same (appOnAck_same h2) (keeperOnAck_inv hi h1)

theorem onTimeout_inv {s s' : St} {p : Packet} (hi : Inv s) (h : onTimeout s p = .ok s') : Inv s' := by
  unfold onTimeout at h
  split at h
  · obtain ⟨b, _, h⟩ := bind_ok h
    simp only [Res.ok.injEq] at h; subst h; exact hi.of_eq rfl rfl rfl rfl
  · obtain ⟨⟨s1, rs⟩, h1, h2⟩ := bind_ok h
    obtain ⟨b, _, h2⟩ := bind_ok h2
    simp only [Res.ok.injEq] at h2; subst h2
    exact (keeperOnTimeout_inv hi h1).of_eq rfl rfl rfl rfl


theorem changeLeg_same {s s' : St} {idx : Idx} {p : Packet} {m : SwapMeta} {rem : Int} {r r' : IncRec}
    (h : changeLeg s idx p m rem r = .ok (s', r')) : Same s s' ∧ r'.index = r.index := by
  unfold changeLeg at h
  split at h
  · split at h
    · obtain ⟨⟨s3, i⟩, h1, h2⟩ := bind_ok h
      simp only [Res.ok.injEq, Prod.mk.injEq] at h2
      obtain ⟨e1, e2⟩ := h2
      subst e1 e2
      exact ⟨transferLeg_same h1, rfl⟩
    · simp only [Res.ok.injEq, Prod.mk.injEq] at h; obtain ⟨e1, e2⟩ := h; subst e1 e2; exact ⟨Same.refl _, rfl⟩
  · simp only [Res.ok.injEq, Prod.mk.injEq] at h; obtain ⟨e1, e2⟩ := h; subst e1 e2; exact ⟨Same.refl _, rfl⟩

theorem forwardLeg_same {s s' : St} {idx : Idx} {p : Packet} {m : SwapMeta} {net : Int} {r r' : IncRec}
    (h : forwardLeg s idx p m net r = .ok (s', r')) : Same s s' ∧ r'.index = r.index := by
  unfold forwardLeg at h
  split at h
  · obtain ⟨⟨s3, i⟩, h1, h2⟩ := bind_ok h
    simp only [Res.ok.injEq, Prod.mk.injEq] at h2
    obtain ⟨e1, e2⟩ := h2
    subst e1 e2
    exact ⟨transferLeg_same h1, rfl⟩
  · simp only [Res.ok.injEq, Prod.mk.injEq] at h; obtain ⟨e1, e2⟩ := h; subst e1 e2; exact ⟨Same.refl _, rfl⟩

/-- shape of a successful SwapIncomingFund + ProcessSwappedFund: either a waiting record (some slot holds an outgoing
    index) is stored and NO acknowledgement is returned, or a success acknowledgement is returned and nothing is stored -/
theorem swapAndProcess_shape {s s' : St} {p : Packet} {m : SwapMeta} {x : SwapExt} {oa : Option Ack}
    (h : swapAndProcess s p m x = .ok (s', oa)) :
    s'.acks = s.acks ∧ s'.ackLog = s.ackLog ∧ s'.receipts = s.receipts ∧
    ((oa = none ∧ ∃ r, s'.inc = upd s.inc ⟨p.dst, p.seq⟩ (some r) ∧ r.index = ⟨p.dst, p.seq⟩
        ∧ (r.change.isIdx || r.forward.isIdx) = true)
     ∨ (∃ a, oa = some a ∧ a.ok = true ∧ s'.inc = s.inc)) := by
  unfold swapAndProcess at h
  split at h
  · simp at h
  split at h
  · simp at h
  obtain ⟨⟨b1, ai, ao, fee⟩, _, h⟩ := bind_ok h
  simp only at h
  split at h
  · simp at h
  split at h
  · simp at h
  obtain ⟨b2, _, h⟩ := bind_ok h
  obtain ⟨⟨s3, r1⟩, hc, h⟩ := bind_ok h
  obtain ⟨⟨s4, r2⟩, hf, h⟩ := bind_ok h
  obtain ⟨sc, rc⟩ := changeLeg_same hc
  obtain ⟨sf, rf⟩ := forwardLeg_same hf
  have hs : Same s s4 := Same.trans (Same.trans ⟨rfl, rfl, rfl, rfl⟩ sc) sf
  obtain ⟨a1, a2, a3, a4⟩ := hs
  simp only at h
  split at h
  · rename_i hw
    simp only [Res.ok.injEq, Prod.mk.injEq] at h
    obtain ⟨e1, e2⟩ := h
    subst e1 e2
    refine ⟨by simp [a2], by simp [a3], by simp [a4], Or.inl ⟨rfl, r2, by simp [a1], ?_, hw⟩⟩
    rw [rf, rc]
  · simp only [Res.ok.injEq, Prod.mk.injEq] at h
    obtain ⟨e1, e2⟩ := h
    subst e1 e2
    exact ⟨a2, a3, a4, Or.inr ⟨_, rfl, rfl, a1⟩⟩

theorem onRecv_shape {s s' : St} {p : Packet} {x : SwapExt} {oa : Option Ack}
    (h : onRecv s p x = .ok (s', oa)) :
    s'.acks = s.acks ∧ s'.ackLog = s.ackLog ∧ s'.receipts = s.receipts ∧
    ((oa = none ∧ ∃ r, s'.inc = upd s.inc ⟨p.dst, p.seq⟩ (some r) ∧ r.index = ⟨p.dst, p.seq⟩
        ∧ (r.change.isIdx || r.forward.isIdx) = true)
     ∨ (∃ a, oa = some a ∧ a.ok = true ∧ s'.inc = s.inc)) := by
  unfold onRecv at h
  split at h
  · obtain ⟨b, _, h⟩ := bind_ok h
    simp only [Res.ok.injEq, Prod.mk.injEq] at h
    obtain ⟨e1, e2⟩ := h
    subst e1 e2
    exact ⟨rfl, rfl, rfl, Or.inr ⟨_, rfl, rfl, rfl⟩⟩
  · simp at h
  · simp at h
  · split at h
    · simp at h
    · obtain ⟨b, _, h⟩ := bind_ok h
      have := swapAndProcess_shape h
      simpa using this


theorem upd_none_self {β} (f : Idx → Option β) (i : Idx) (h : f i = none) : upd f i none = f := by
  funext j; unfold upd; split
  · rename_i e; rw [e, h]
  · rfl

theorem Inv.receive {s : St} (hi : Inv s) (i : Idx) : Inv { s with receipts := upd s.receipts i true } := by
  refine ⟨hi.key, hi.wait, hi.noack, ?_, ?_, hi.logNodup, hi.logAcks, hi.acksLog⟩
  · intro j r hj
    by_cases e : j = i
    · subst e; simp
    · simp only [upd_other _ _ _ _ e]; exact hi.rcpt j r hj
  · intro j a hj
    by_cases e : j = i
    · subst e; simp
    · simp only [upd_other _ _ _ _ e]; exact hi.ackRcpt j a hj

theorem opRecv_inv {s : St} {ch : Chan} {seq : Nat} {x : SwapExt} {t : String} (hi : Inv s) :
    Inv (opRecv s ch seq x t).1 := by
  unfold opRecv
  split
  · exact hi
  · rename_i p0 hp
    simp only
    split
    · exact hi
    · rename_i hrc
      have hrc' : s.receipts ⟨p0.dst, seq⟩ = false := by simpa using hrc
      have hi0 : Inv ({ s with receipts := upd s.receipts ⟨p0.dst, seq⟩ true }.touch ⟨p0.dst, seq⟩) :=
        (hi.receive ⟨p0.dst, seq⟩).of_eq (by simp) (by simp) (by simp) (by simp)
      have hinc0 : s.inc ⟨p0.dst, seq⟩ = none := by
        cases hq : s.inc ⟨p0.dst, seq⟩ with
        | none => rfl
        | some r => have := hi.rcpt _ _ hq; rw [hrc'] at this; cases this
      have hack0 : s.acks ⟨p0.dst, seq⟩ = none := by
        cases hq : s.acks ⟨p0.dst, seq⟩ with
        | none => rfl
        | some a => have := hi.ackRcpt _ _ hq; rw [hrc'] at this; cases this
      split
      · exact hi
      · -- error acknowledgement: callback state discarded
        split
        · rename_i s1 hw
          obtain ⟨h1, h2, h3, h4, _⟩ := writeAck_inv hi0 (by simp) hw
          refine h1.of_eq ?_ rfl rfl rfl
          show s1.inc = upd s1.inc ⟨p0.dst, seq⟩ none
          rw [upd_none_self]; rw [h2]; simpa using hinc0
        · exact hi
      · -- asynchronous: nil acknowledgement, the waiting record is kept
        rename_i s1 hr
        obtain ⟨a2, a3, a4, hcase⟩ := onRecv_shape hr
        rcases hcase with ⟨_, r, hinc, hk, hw⟩ | ⟨a, ha, _, _⟩
        · have hst := hi0.store r hw (by rw [hk]; simpa using hack0) (by rw [hk]; simp)
          refine hst.of_eq ?_ a2 a3 a4
          rw [hinc, hk]
        · cases ha
      · -- synchronous acknowledgement
        rename_i s1 a hr
        obtain ⟨a2, a3, a4, hcase⟩ := onRecv_shape hr
        rcases hcase with ⟨hn, _⟩ | ⟨a', ha, _, hinc⟩
        · cases hn
        · have hi1 : Inv s1 := hi0.of_eq hinc a2 a3 a4
          split
          · rename_i s2 hw
            obtain ⟨h1, h2, _⟩ := writeAck_inv hi1 (by rw [a4]; simp) hw
            refine h1.of_eq ?_ rfl rfl rfl
            show s2.inc = upd s2.inc ⟨p0.dst, seq⟩ none
            rw [upd_none_self]; rw [h2, hinc]; simpa using hinc0
          · exact hi

theorem opAck_inv {s : St} {ch : Chan} {seq : Nat} (hi : Inv s) : Inv (opAck s ch seq).1 := by
  unfold opAck
  split
  · exact hi
  · simp only
    split
    · exact hi
    · split
      · rename_i s1 h
        exact (onAck_inv hi h).of_eq rfl rfl rfl rfl
      · exact hi

theorem opTimeout_inv {s : St} {ch : Chan} {seq : Nat} (hi : Inv s) : Inv (opTimeout s ch seq).1 := by
  unfold opTimeout
  split
  · exact hi
  · simp only
    split
    · exact hi
    · split
      · rename_i s1 h
        have hi' : Inv { s with commits := upd s.commits ⟨ch, seq⟩ none } := hi.of_eq rfl rfl rfl rfl
        exact onTimeout_inv hi' h
      · exact hi

theorem opTransfer_inv {s : St} {a : Addr} {ch : Chan} {d : Denom} {x : Int} {rc : Addr} {m : Memo} (hi : Inv s) :
    Inv (opTransfer s a ch d x rc m).1 := by
  unfold opTransfer
  split
  · exact hi
  · split
    · exact hi
    · split
      · exact Inv.of_same (sendPacket_same _ _) (hi.of_eq rfl rfl rfl rfl)
      · exact hi

theorem step_inv {s : St} (o : Op) (hi : Inv s) : Inv (step s o).1 := by
  cases o with
  | transfer a ch d x rc m => exact opTransfer_inv hi
  | recv ch seq x t => exact opRecv_inv hi
  | ack ch seq => exact opAck_inv hi
  | timeout ch seq => exact opTimeout_inv hi

theorem run_inv {s : St} (os : List Op) (hi : Inv s) : Inv (run s os) := by
  induction os generalizing s with
  | nil => exact hi
  | cons o os ih => exact ih (step_inv o hi)

end Sunrise.IbcSwap

/-! ## balances of the swap module account -/
namespace Sunrise.IbcSwap
open Sunrise Sunrise.Bank

theorem send_bal {b b' : Bank} {a t : Addr} {d : Denom} {x : Int} (h : b.send a t d x = .ok b') (m : Addr) (dd : Denom) :
    b'.bal m dd = b.bal m dd - (if m = a ∧ dd = d then x else 0) + (if m = t ∧ dd = d then x else 0) := by
  obtain ⟨_, _, e⟩ := send_ok h
  subst e
  simp only [credit_bal]
  by_cases h1 : m = a ∧ dd = d <;> by_cases h2 : m = t ∧ dd = d <;> simp [h1, h2]
  · obtain ⟨e1, e2⟩ := h1; obtain ⟨e3, _⟩ := h2; subst e1 e2; subst e3; simp; omega
  · obtain ⟨e1, e2⟩ := h1; subst e1 e2
    have : ¬ (m = t) := fun e => h2 ⟨e, rfl⟩
    simp [this]; omega
  · obtain ⟨e1, e2⟩ := h2; subst e1 e2
    have : ¬ (m = a) := fun e => h1 ⟨e, rfl⟩
    simp [this]
end Sunrise.IbcSwap

namespace Sunrise.IbcSwap
open Sunrise Sunrise.Bank

theorem transferMod_ne : transferMod ≠ swapMod := by decide
theorem escrow_ne_of_counterparty {ch dst : Chan} (h : counterparty ch = some dst) : escrow ch ≠ swapMod := by
  unfold counterparty at h
  split at h
  · rename_i e; subst e; decide
  · split at h
    · rename_i e; subst e; decide
    · simp at h

theorem burn_bal {b b' : Bank} {a : Addr} {d : Denom} {x : Int} (h : b.burn a d x = .ok b') (m : Addr) (dd : Denom)
    (hm : m ≠ a) : b'.bal m dd = b.bal m dd := by
  obtain ⟨_, _, e⟩ := burn_ok h
  subst e
  simp [hm]

theorem mint_bal {b b' : Bank} {a : Addr} {d : Denom} {x : Int} (h : b.mint a d x = .ok b') (m : Addr) (dd : Denom)
    (hm : m ≠ a) : b'.bal m dd = b.bal m dd := by
  obtain ⟨_, e⟩ := mint_ok h
  subst e
  simp [hm]

/-- a transfer sent by somebody else over an existing channel does not touch the swap module's balance -/
theorem appSend_mod {b b' : Bank} {sender : Addr} {ch dst : Chan} {d : Denom} {x : Int}
    (hc : counterparty ch = some dst) (hs : sender ≠ swapMod) (h : appSend b sender ch d x = .ok b') (dd : Denom) :
    b'.bal swapMod dd = b.bal swapMod dd := by
  have hs' : swapMod ≠ sender := fun e => hs e.symm
  have ht : swapMod ≠ transferMod := fun e => transferMod_ne e.symm
  have he : swapMod ≠ escrow ch := fun e => escrow_ne_of_counterparty hc e.symm
  unfold appSend at h
  split at h
  · simp at h
  split at h
  · simp at h
  split at h
  · obtain ⟨b1, h1, h2⟩ := IbcSwap.bind_ok h
    rw [burn_bal h2 _ _ ht, send_bal h1]
    simp [hs', ht]
  · rw [send_bal h]; simp [hs', he]

theorem transferLeg_mod {s s' : St} {w i : Idx} {a : Addr} {d : Denom} {x : Int} {m : LegMeta}
    (hs : a ≠ swapMod) (h : transferLeg s w a d x m = .ok (s', i)) (dd : Denom) :
    s'.bank.bal swapMod dd = s.bank.bal swapMod dd := by
  unfold transferLeg at h
  split at h
  · simp at h
  · rename_i dst hc
    split at h
    · simp at h
    · split at h
      · simp at h
      · obtain ⟨b1, h1, h⟩ := IbcSwap.bind_ok h
        simp only [Res.ok.injEq, Prod.mk.injEq] at h
        obtain ⟨h, _⟩ := h
        subst h
        simp only [touch_bank, sendPacket_bank]
        exact appSend_mod hc hs h1 dd

theorem changeLeg_mod {s s' : St} {idx : Idx} {p : Packet} {m : SwapMeta} {rem : Int} {r r' : IncRec}
    (hs : p.receiver ≠ swapMod) (h : changeLeg s idx p m rem r = .ok (s', r')) (dd : Denom) :
    s'.bank.bal swapMod dd = s.bank.bal swapMod dd := by
  unfold changeLeg at h
  split at h
  · split at h
    · obtain ⟨⟨s3, i⟩, h1, h2⟩ := IbcSwap.bind_ok h
      simp only [Res.ok.injEq, Prod.mk.injEq] at h2
      obtain ⟨e1, e2⟩ := h2
      subst e1
      exact transferLeg_mod hs h1 dd
    · simp only [Res.ok.injEq, Prod.mk.injEq] at h; obtain ⟨e1, e2⟩ := h; subst e1; rfl
  · simp only [Res.ok.injEq, Prod.mk.injEq] at h; obtain ⟨e1, e2⟩ := h; subst e1; rfl

theorem forwardLeg_mod {s s' : St} {idx : Idx} {p : Packet} {m : SwapMeta} {net : Int} {r r' : IncRec}
    (hs : p.receiver ≠ swapMod) (h : forwardLeg s idx p m net r = .ok (s', r')) (dd : Denom) :
    s'.bank.bal swapMod dd = s.bank.bal swapMod dd := by
  unfold forwardLeg at h
  split at h
  · obtain ⟨⟨s3, i⟩, h1, h2⟩ := IbcSwap.bind_ok h
    simp only [Res.ok.injEq, Prod.mk.injEq] at h2
    obtain ⟨e1, e2⟩ := h2
    subst e1
    exact transferLeg_mod hs h1 dd
  · simp only [Res.ok.injEq, Prod.mk.injEq] at h; obtain ⟨e1, e2⟩ := h; subst e1; rfl

/-- the swap as reported by the boundary: the module pays `ai` of the input denom, receives `ao` of the output
    denom and passes the interface fee on -/
theorem applySwap_mod {b b' : Bank} {m : SwapMeta} {x : SwapExt} {ai ao fee : Int}
    (hp : m.pool ≠ swapMod) (hpr : ∀ pr, m.provider = some pr → pr ≠ swapMod)
    (hfee : 0 ≤ fee ∧ (m.provider = none → fee = 0))
    (h : applySwap b m x = .ok (b', ai, ao, fee)) (dd : Denom) :
    b'.bal swapMod dd = b.bal swapMod dd - (if dd = m.routeIn then ai else 0) + (if dd = m.routeOut then ao - fee else 0) := by
  have hp' : swapMod ≠ m.pool := fun e => hp e.symm
  unfold applySwap at h
  split at h
  · simp at h
  · rename_i ai' ao' fee'
    obtain ⟨b1, h1, h⟩ := IbcSwap.bind_ok h
    obtain ⟨b2, h2, h⟩ := IbcSwap.bind_ok h
    have e12 : b2.bal swapMod dd = b.bal swapMod dd - (if dd = m.routeIn then ai' else 0) + (if dd = m.routeOut then ao' else 0) := by
      rw [send_bal h2, send_bal h1]; simp [hp']
    split at h
    · rename_i pr hprov
      have hpr' : swapMod ≠ pr := fun e => hpr pr hprov e.symm
      split at h
      · obtain ⟨b3, h3, h⟩ := IbcSwap.bind_ok h
        simp only [Res.ok.injEq, Prod.mk.injEq] at h
        obtain ⟨e1, e2, e3, e4⟩ := h
        subst e1 e2 e3 e4
        rw [send_bal h3, e12]
        simp only [hpr', false_and, if_false, true_and]
        by_cases q1 : dd = m.routeOut
        · simp only [q1, if_true]
          by_cases q2 : m.routeOut = m.routeIn
          · simp only [q2, if_true]; omega
          · simp only [q2, if_false]; omega
        · simp only [q1, if_false]
          by_cases q2 : dd = m.routeIn
          · simp only [q2, if_true]; omega
          · simp only [q2, if_false]; omega
      · simp only [Res.ok.injEq, Prod.mk.injEq] at h
        obtain ⟨e1, e2, e3, e4⟩ := h
        subst e1 e2 e3 e4
        rw [e12]
        have : fee' = 0 := by omega
        simp [this]
    · rename_i hprov
      simp only [Res.ok.injEq, Prod.mk.injEq] at h
      obtain ⟨e1, e2, e3, e4⟩ := h
      subst e1 e2 e3 e4
      rw [e12]
      have : fee' = 0 := hfee.2 hprov
      simp [this]
end Sunrise.IbcSwap

namespace Sunrise.IbcSwap
open Sunrise Sunrise.Bank

/-- SwapIncomingFund + ProcessSwappedFund: of everything the module account held, exactly the swapped-in amount leaves
    it; the whole output is passed on (fee + net). Change and forward transfers are paid BY THE RECEIVER. -/
theorem swapAndProcess_mod {s s' : St} {p : Packet} {m : SwapMeta} {ai ao fee : Int} {oa : Option Ack}
    (hrc : p.receiver ≠ swapMod) (hp : m.pool ≠ swapMod) (hpr : ∀ pr, m.provider = some pr → pr ≠ swapMod)
    (hfee : 0 ≤ fee ∧ (m.provider = none → fee = 0))
    (h : swapAndProcess s p m (.ok ai ao fee) = .ok (s', oa)) (dd : Denom) :
    s'.bank.bal swapMod dd = s.bank.bal swapMod dd - (if dd = m.routeIn then ai else 0) := by
  have hrc' : swapMod ≠ p.receiver := fun e => hrc e.symm
  unfold swapAndProcess at h
  split at h
  · simp at h
  split at h
  · simp at h
  obtain ⟨⟨b1, ai', ao', fee'⟩, hsw, h'⟩ := IbcSwap.bind_ok h
  clear h
  have h := h'
  clear h'
  simp only at h
  have hx : ai' = ai ∧ ao' = ao ∧ fee' = fee := by
    unfold applySwap at hsw
    simp only at hsw
    obtain ⟨c1, _, hsw⟩ := IbcSwap.bind_ok hsw
    obtain ⟨c2, _, hsw⟩ := IbcSwap.bind_ok hsw
    split at hsw
    · split at hsw
      · obtain ⟨c3, _, hsw⟩ := IbcSwap.bind_ok hsw
        simp only [Res.ok.injEq, Prod.mk.injEq] at hsw
        exact ⟨hsw.2.1.symm, hsw.2.2.1.symm, hsw.2.2.2.symm⟩
      · simp only [Res.ok.injEq, Prod.mk.injEq] at hsw
        exact ⟨hsw.2.1.symm, hsw.2.2.1.symm, hsw.2.2.2.symm⟩
    · simp only [Res.ok.injEq, Prod.mk.injEq] at hsw
      exact ⟨hsw.2.1.symm, hsw.2.2.1.symm, hsw.2.2.2.symm⟩
  obtain ⟨x1, x2, x3⟩ := hx
  subst x1 x2 x3
  have e1 := applySwap_mod hp hpr hfee hsw dd
  by_cases hneg : ao' - fee' < 0
  · simp [hneg] at h
  simp only [hneg, if_false] at h
  by_cases hbl : blockedAddr p.receiver = true
  · simp [hbl] at h
  simp only [hbl, if_false, Bool.false_eq_true] at h
  obtain ⟨b2, h2, h⟩ := IbcSwap.bind_ok h
  obtain ⟨⟨s3, r1⟩, hc, h⟩ := IbcSwap.bind_ok h
  obtain ⟨⟨s4, r2⟩, hf, h⟩ := IbcSwap.bind_ok h
  have e2 := send_bal h2 swapMod dd
  have e3 := changeLeg_mod hrc hc dd
  have e4 := forwardLeg_mod hrc hf dd
  have e5 : s'.bank.bal swapMod dd = s4.bank.bal swapMod dd := by
    simp only at h
    split at h
    · simp only [Res.ok.injEq, Prod.mk.injEq] at h; rw [← h.1]; simp
    · simp only [Res.ok.injEq, Prod.mk.injEq] at h; rw [← h.1]
  rw [e5, e4, e3]
  simp only at e2 ⊢
  rw [e2, e1]
  simp only [hrc', false_and, if_false, true_and]
  by_cases q : dd = m.routeOut
  · simp only [q, if_true]; omega
  · simp only [q, if_false]; omega

/-- the transfer application delivering the incoming funds to the module account (receiveFunds) -/
theorem appRecv_mod {b b' : Bank} {p : Packet} (he : escrow p.dst ≠ swapMod) (h : appRecv b p swapMod = .ok b') (dd : Denom) :
    b'.bal swapMod dd = b.bal swapMod dd + (if dd = denomForThisChain p then p.amount else 0) := by
  have he' : swapMod ≠ escrow p.dst := fun e => he e.symm
  have ht : swapMod ≠ transferMod := fun e => transferMod_ne e.symm
  unfold appRecv at h
  unfold denomForThisChain
  split at h
  · simp at h
  split at h
  · simp at h
  split at h
  · simp at h
  split at h
  · rename_i hpre
    rw [send_bal h]; simp [he', hpre]
  · rename_i hpre
    obtain ⟨b1, h1, h2⟩ := IbcSwap.bind_ok h
    rw [send_bal h2, mint_bal h1 _ _ ht]; simp [ht, hpre]

end Sunrise.IbcSwap
