import SunriseVerif.Lemmas.DA08Inv
/-! Intermediate invariant used while one item is being resolved inside the end-blocker. -/
set_option linter.unusedSimpArgs false
set_option linter.unusedVariables false
namespace Sunrise.DA
open Sunrise Sunrise.Bank

/-- item `u` has just been made terminal; `extra` is what the module account still holds for it -/
structure Mid (s : St) (u : String) (extra : Denom → Int) : Prop where
  nodup : urisNodup s.items
  owner : ∀ x ∈ s.invs, x.uri ≠ u → ∃ it ∈ s.items, it.uri = x.uri ∧ it.status.unresolved = true
  term : ∀ it ∈ s.items, it.uri = u → it.status.unresolved = false
  coins : ∀ it ∈ s.items, coinsPos it.pubColl ∧ coinsPos it.invColl
  pubs : ∀ it ∈ s.items, it.publisher ≠ daAcc
  chals : ∀ x ∈ s.invs, x.sender ≠ daAcc
  params : s.params.valid = true
  dustNN : ∀ d, 0 ≤ s.dust d
  escrow : ∀ d, s.bank.bal daAcc d = escrowSum s.invs s.items d + s.dust d + extra d

theorem Mid.bal_ge {s : St} {u : String} {extra : Denom → Int} (m : Mid s u extra) (d : Denom) :
    extra d ≤ s.bank.bal daAcc d := by
  have := escrowSum_nonneg s.invs s.items d m.coins
  have := m.dustNN d
  have := m.escrow d
  omega

theorem mem_setItem_self {items : List Item} {it it' : Item} (hmem : it ∈ items) (hu : it'.uri = it.uri) :
    it' ∈ setItem items it' := by
  unfold setItem
  exact List.mem_map.2 ⟨it, hmem, by simp [hu]⟩

theorem mem_setItem_other {items : List Item} {it' y : Item} (hmem : y ∈ items) (hu : y.uri ≠ it'.uri) :
    y ∈ setItem items it' := by
  unfold setItem
  exact List.mem_map.2 ⟨y, hmem, by simp [hu]⟩

/-- re-tagging an item (status, timestamp) keeps the structural parts of the invariant -/
theorem retag_struct {items : List Item} {it : Item} (st : Status) (t : Int)
    (hn : urisNodup items)
    (hc : ∀ y ∈ items, coinsPos y.pubColl ∧ coinsPos y.invColl) (hp : ∀ y ∈ items, y.publisher ≠ daAcc)
    (hmem : it ∈ items) :
    urisNodup (setItem items { it with status := st, ts := t })
    ∧ (∀ y ∈ setItem items { it with status := st, ts := t }, coinsPos y.pubColl ∧ coinsPos y.invColl)
    ∧ (∀ y ∈ setItem items { it with status := st, ts := t }, y.publisher ≠ daAcc) := by
  refine ⟨?_, ?_, ?_⟩
  · unfold urisNodup; rw [setItem_uris]; exact hn
  · intro y hy
    rcases mem_setItem hy with rfl | ⟨h, _⟩
    · exact hc it hmem
    · exact hc y h
  · intro y hy
    rcases mem_setItem hy with rfl | ⟨h, _⟩
    · exact hp it hmem
    · exact hp y h

/-- cp → ch (or any move between unresolved statuses) preserves the invariant -/
theorem inv_retag_unresolved {s : St} (hi : Inv s) {it : Item} (hmem : it ∈ s.items) (hun : it.status.unresolved = true)
    (st : Status) (hst : st.unresolved = true) (t : Int) :
    Inv { s with items := setItem s.items { it with status := st, ts := t } } := by
  obtain ⟨a, b, c⟩ := retag_struct st t hi.nodup hi.coins hi.pubs hmem
  refine ⟨a, ?_, b, c, hi.chals, hi.params, hi.dustNN, ?_⟩
  · intro x hx
    obtain ⟨y, hy, e, hu⟩ := hi.owner x hx
    by_cases hyu : y.uri = it.uri
    · exact ⟨_, mem_setItem_self hmem rfl, by simpa using hyu ▸ e, hst⟩
    · exact ⟨y, mem_setItem_other hy hyu, e, hu⟩
  · intro d
    show s.bank.bal daAcc d = escrowSum s.invs (setItem s.items _) d + s.dust d
    rw [escrowSum_setItem s.invs s.items it { it with status := st, ts := t } d hi.nodup hmem rfl, hi.escrow d]
    unfold escrowOf
    simp only [hun, hst, if_true]; omega

/-- making an unresolved item terminal: its whole escrow becomes `extra` -/
theorem mid_retag_terminal {s : St} (hi : Inv s) {it : Item} (hmem : it ∈ s.items) (hun : it.status.unresolved = true)
    (st : Status) (hst : st.unresolved = false) (t : Int) :
    Mid { s with items := setItem s.items { it with status := st, ts := t } } it.uri (escrowOf s.invs it) := by
  obtain ⟨a, b, c⟩ := retag_struct st t hi.nodup hi.coins hi.pubs hmem
  refine ⟨a, ?_, ?_, b, c, hi.chals, hi.params, hi.dustNN, ?_⟩
  · intro x hx hne
    obtain ⟨y, hy, e, hu⟩ := hi.owner x hx
    have hyu : y.uri ≠ it.uri := by rw [e]; exact hne
    exact ⟨y, mem_setItem_other hy hyu, e, hu⟩
  · intro y hy hyu
    rcases mem_setItem hy with rfl | ⟨_, h2⟩
    · exact hst
    · exact absurd hyu h2
  · intro d
    show s.bank.bal daAcc d = escrowSum s.invs (setItem s.items _) d + s.dust d + escrowOf s.invs it d
    rw [escrowSum_setItem s.invs s.items it { it with status := st, ts := t } d hi.nodup hmem rfl, hi.escrow d]
    have : escrowOf s.invs { it with status := st, ts := t } d = 0 := by
      unfold escrowOf; simp [hst]
    rw [this]; omega

/-- the module account pays `x` out of `extra` -/
theorem Mid.pay {s : St} {u : String} {extra : Denom → Int} (m : Mid s u extra) (b : Bank) (x : Denom → Int)
    (hb : ∀ d, b.bal daAcc d = s.bank.bal daAcc d - x d) : Mid { s with bank := b } u (fun d => extra d - x d) := by
  refine ⟨m.nodup, m.owner, m.term, m.coins, m.pubs, m.chals, m.params, m.dustNN, ?_⟩
  intro d
  show b.bal daAcc d = escrowSum s.invs s.items d + s.dust d + (extra d - x d)
  rw [hb d, m.escrow d]; omega

theorem Mid.congr {s : St} {u : String} {extra extra' : Denom → Int} (m : Mid s u extra) (h : ∀ d, extra d = extra' d) :
    Mid s u extra' := by
  have : extra = extra' := funext h
  rw [← this]; exact m

theorem cnt_filter_keep (invs : List Inval) (p : Inval → Bool) (v : String)
    (h : ∀ x ∈ invs, x.uri = v → p x = true) : cnt (invs.filter p) v = cnt invs v := by
  unfold cnt
  rw [List.filter_filter]
  congr 2
  apply List.filter_congr
  intro x hx
  by_cases hv : x.uri = v
  · simp [hv, h x hx hv]
  · simp [hv]

/-- deleting challenge records of the terminal item `u` -/
theorem Mid.dropRecords {s : St} {u : String} {extra : Denom → Int} (m : Mid s u extra) (p : Inval → Bool)
    (hp : ∀ x ∈ s.invs, x.uri ≠ u → p x = true) : Mid { s with invs := s.invs.filter p } u extra := by
  refine ⟨m.nodup, ?_, m.term, m.coins, m.pubs, ?_, m.params, m.dustNN, ?_⟩
  · intro x hx hne
    exact m.owner x (List.mem_filter.1 hx).1 hne
  · intro x hx
    exact m.chals x (List.mem_filter.1 hx).1
  · intro d
    show s.bank.bal daAcc d = escrowSum (s.invs.filter p) s.items d + s.dust d + extra d
    rw [escrowSum_congr s.invs (s.invs.filter p) s.items d, m.escrow d]
    intro y hy hun
    apply cnt_filter_keep
    intro x hx hxu
    apply hp x hx
    intro e
    have := m.term y hy (by rw [← e, hxu])
    rw [this] at hun; cases hun

theorem inv_of_mid {s : St} {u : String} {extra : Denom → Int} (m : Mid s u extra) (h0 : ∀ d, extra d = 0)
    (hnone : ∀ x ∈ s.invs, x.uri ≠ u) : Inv s := by
  refine ⟨m.nodup, fun x hx => m.owner x hx (hnone x hx), m.coins, m.pubs, m.chals, m.params, m.dustNN, ?_⟩
  intro d
  have := m.escrow d
  rw [h0 d] at this; omega

end Sunrise.DA
