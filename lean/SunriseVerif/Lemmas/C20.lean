import SunriseVerif.Model.RS
import SunriseVerif.Model.Shards
import SunriseVerif.Model.Zk
import Mathlib.LinearAlgebra.Vandermonde
import Mathlib.LinearAlgebra.Matrix.NonsingularInverse
import Mathlib.LinearAlgebra.FiniteDimensional.Lemmas
import Mathlib.LinearAlgebra.Matrix.ToLin
/-! Helper lemmas and abstract definitions for C20 (padding arithmetic, Fisher–Yates invariant, PCG range facts,
    the Vandermonde-derived generator over an arbitrary field). The property theorems are in `Props/C20.lean`. -/
namespace Sunrise.C20

open Sunrise Sunrise.RS Sunrise.Shards

/-! ## padding / split / join -/

theorem paddedLen_spec (len k : Nat) (hk : 0 < k) :
    k ∣ paddedLen len k ∧ len ≤ paddedLen len k ∧ paddedLen len k < len + k := by
  unfold paddedLen
  have hm := Nat.mod_lt len hk
  have hd := Nat.div_add_mod len k
  split
  · refine ⟨⟨len / k + 1, ?_⟩, by omega, by omega⟩
    rw [Nat.mul_add, Nat.mul_one]; omega
  · rename_i h
    have h0 : len % k = 0 := by omega
    exact ⟨Nat.dvd_of_mod_eq_zero h0, by omega, by omega⟩

theorem shardSize_mul (len k : Nat) (hk : 0 < k) : shardSize len k * k = paddedLen len k := by
  unfold shardSize
  exact Nat.div_mul_cancel (paddedLen_spec len k hk).1

theorem pad_eq (blob : List UInt8) (k : Nat) (hk : 0 < k) :
    pad blob k = blob ++ List.replicate (paddedLen blob.length k - blob.length) 0 := by
  unfold pad
  simp only [shardSize_mul _ _ hk]
  rw [List.take_of_length_le (paddedLen_spec blob.length k hk).2.1]

theorem pad_length (blob : List UInt8) (k : Nat) (hk : 0 < k) : (pad blob k).length = shardSize blob.length k * k := by
  rw [pad_eq _ _ hk, shardSize_mul _ _ hk]
  have := (paddedLen_spec blob.length k hk).2.1
  simp; omega

theorem splitSized_flatten (ext : List UInt8) (k size : Nat) :
    (splitSized ext k size).flatten = ext.take (k * size) := by
  unfold splitSized
  induction k with
  | zero => simp
  | succ k ih =>
    rw [List.range_succ, List.map_append, List.flatten_append, ih]
    simp only [List.map_cons, List.map_nil, List.flatten_cons, List.flatten_nil, List.append_nil]
    rw [Nat.succ_mul, List.take_add]

theorem joinWrite_eq (shards : List (List UInt8)) (w : Nat) :
    joinWrite shards (w : Int) = .ok (shards.flatten.take w) := by
  induction shards generalizing w with
  | nil => simp [joinWrite]
  | cons s rest ih =>
    unfold joinWrite
    by_cases h : (w : Int) < (s.length : Int)
    · have h' : w < s.length := by exact_mod_cast h
      have hn : ¬ ((w : Int) < 0) := by omega
      simp only [h, if_true, hn, if_false, Int.toNat_natCast, List.flatten_cons]
      rw [List.take_append_of_le_length (Nat.le_of_lt h')]
    · have h' : s.length ≤ w := by
        have : ¬ (w < s.length) := fun c => h (by exact_mod_cast c)
        omega
      simp only [h, if_false]
      have e : (w : Int) - (s.length : Int) = ((w - s.length : Nat) : Int) := by omega
      rw [e, ih]
      simp only [List.flatten_cons]
      rw [List.take_append]
      rw [List.take_of_length_le h']




/-- "`l` is an arrangement of `[0,n)`": right length, position-injective, values in range -/
def Arr (n : Nat) (l : List Nat) : Prop :=
  l.length = n ∧ (∀ (x y : Nat), x < n → y < n → l[x]? = l[y]? → x = y) ∧ (∀ (x v : Nat), l[x]? = some v → v < n)

theorem swapL_length (l : List Nat) (i j : Nat) : (swapL l i j).length = l.length := by
  simp [swapL]

theorem swapL_get (l : List Nat) (i j x : Nat) (hi : i < l.length) (hj : j < l.length) :
    (swapL l i j)[x]? = l[Equiv.swap i j x]? := by
  unfold swapL
  rw [List.getElem?_set, List.getElem?_set, Equiv.swap_apply_def]
  simp only [List.length_set]
  have ei : l.getD i 0 = l[i] := by simp [List.getD, hi]
  have ej : l.getD j 0 = l[j] := by simp [List.getD, hj]
  rw [ei, ej]
  by_cases h1 : j = x
  · subst h1
    by_cases h2 : j = i
    · subst h2; simp [hi]
    · simp [h2, hi, hj]
  · by_cases h2 : i = x
    · subst h2; simp [h1, hi, hj]
    · have h1' : x ≠ j := fun e => h1 e.symm
      have h2' : x ≠ i := fun e => h2 e.symm
      simp [h1, h2, h1', h2']

theorem Arr_range (n : Nat) : Arr n (List.range n) := by
  refine ⟨List.length_range, ?_, ?_⟩
  · intro x y hx hy h
    simpa [List.getElem?_range, hx, hy] using h
  · intro x v h
    by_cases hx : x < n
    · simp [hx] at h; omega
    · simp [hx] at h

theorem Arr_swap {n : Nat} {l : List Nat} (h : Arr n l) (i j : Nat) (hi : i < n) (hj : j < n) : Arr n (swapL l i j) := by
  obtain ⟨hl, hinj, hr⟩ := h
  have hi' : i < l.length := hl ▸ hi
  have hj' : j < l.length := hl ▸ hj
  have hs : ∀ x, x < n → Equiv.swap i j x < n := by
    intro x hx; rw [Equiv.swap_apply_def]; split_ifs <;> omega
  refine ⟨by rw [swapL_length, hl], ?_, ?_⟩
  · intro x y hx hy e
    rw [swapL_get l i j x hi' hj', swapL_get l i j y hi' hj'] at e
    exact (Equiv.swap i j).injective (hinj _ _ (hs x hx) (hs y hy) e)
  · intro x v e
    rw [swapL_get l i j x hi' hj'] at e
    exact hr _ _ e

theorem shuffleFrom_ok (c : Nat → Nat) (n : Nat) :
    ∀ (m : Nat) (l : List Nat), m < n → Arr n l → (∀ i, 1 ≤ i → i ≤ m → c i ≤ i) →
      ∃ l', shuffleFrom c m l = .ok l' ∧ Arr n l' := by
  intro m
  induction m with
  | zero => intro l _ h _; exact ⟨l, rfl, h⟩
  | succ i ih =>
    intro l hm h hc
    have hci := hc (i + 1) (by omega) (Nat.le_refl _)
    unfold shuffleFrom
    have hg : i + 1 < l.length ∧ c (i + 1) < l.length := by rw [h.1]; omega
    rw [if_pos hg]
    exact ih _ (by omega) (Arr_swap h _ _ hm (by omega)) (fun k h1 h2 => hc k h1 (by omega))

theorem Arr_take_nodup {n : Nat} {l : List Nat} (h : Arr n l) (t : Nat) : (l.take t).Nodup := by
  rw [List.nodup_iff_getElem?_ne_getElem?]
  intro i j hij hj e
  rw [List.length_take] at hj
  have hjt : j < t := by omega
  have hjn : j < n := by have := h.1; omega
  rw [List.getElem?_take_of_lt (by omega), List.getElem?_take_of_lt hjt] at e
  have := h.2.1 i j (by omega) hjn e
  omega




theorem pcgOut_lt (s : Nat) : pcgOut s < two64 := by
  unfold pcgOut
  exact Nat.mod_lt _ (by decide)

theorem hi_lt (x n : Nat) (hx : x < two64) (hn : 0 < n) : x * n / two64 < n := by
  apply Nat.div_lt_of_lt_mul
  exact Nat.mul_lt_mul_of_pos_right hx hn

theorem uint64n_loop_lt (n thresh : Nat) (hn : 0 < n) :
    ∀ (fuel s hi lo : Nat) (v s' : Nat), hi < n → uint64n.loop n thresh fuel s hi lo = some (v, s') → v < n := by
  intro fuel
  induction fuel with
  | zero => intro s hi lo v s' _ h; simp [uint64n.loop] at h
  | succ f ih =>
    intro s hi lo v s' hh h
    unfold uint64n.loop at h
    split at h
    · exact ih _ _ _ v s' (hi_lt _ _ (pcgOut_lt _) hn) h
    · simp only [Option.some.injEq, Prod.mk.injEq] at h
      omega

/-- `Rand.uint64n(n)` returns a value below `n` (whatever the generator state) -/
theorem uint64n_lt (s n v s' : Nat) (hn : 0 < n) (h : uint64n s n = some (v, s')) : v < n := by
  unfold uint64n at h
  simp only at h
  split at h
  · simp only [Option.some.injEq, Prod.mk.injEq] at h
    rw [← h.1]; exact Nat.mod_lt _ hn
  · split at h
    · exact uint64n_loop_lt n _ hn _ _ _ _ v s' (hi_lt _ _ (pcgOut_lt _) hn) h
    · simp only [Option.some.injEq, Prod.mk.injEq] at h
      rw [← h.1]; exact hi_lt _ _ (pcgOut_lt _) hn

theorem pcgChoices_spec : ∀ (m s : Nat) (l : List Nat), pcgChoices m s = some l →
    l.length = m ∧ ∀ k, k < m → l.getD k 0 ≤ m - k := by
  intro m
  induction m with
  | zero => intro s l h; simp [pcgChoices] at h; subst h; simp
  | succ i ih =>
    intro s l h
    unfold pcgChoices at h
    split at h
    · simp at h
    · rename_i j s' hu
      split at h
      · simp at h
      · rename_i rest hr
        simp only [Option.some.injEq] at h
        subst h
        obtain ⟨hl, hv⟩ := ih s' rest hr
        have hj := uint64n_lt s (i + 2) j s' (by omega) hu
        refine ⟨by simp [hl], ?_⟩
        intro k hk
        cases k with
        | zero => simp; omega
        | succ k =>
          have := hv k (by omega)
          simp only [List.getD_cons_succ]
          omega

/-- the choice function read off the PCG stream is a legal Fisher–Yates choice at every loop position -/
theorem choiceFn_pcg_le (m s : Nat) (l : List Nat) (h : pcgChoices m s = some l) :
    ∀ i, 1 ≤ i → i ≤ m → choiceFn m l i ≤ i := by
  intro i h1 h2
  obtain ⟨_, hv⟩ := pcgChoices_spec m s l h
  unfold choiceFn
  have := hv (m - i) (by omega)
  omega

open Matrix

section Code
variable {F : Type*} [Field F] {n k : ℕ}

/-- the `n × k` Vandermonde matrix on the nodes `a`: `V i j = a i ^ j` (klauspost `vandermonde(rows, cols)`, with
    `a r = byte(r)` and `galExp(0,0) = 1 = 0^0`) -/
def vand (a : Fin n → F) (k : ℕ) : Matrix (Fin n) (Fin k) F := Matrix.of fun i j => a i ^ (j : ℕ)

/-- any `k` rows of it form a square Vandermonde matrix on the selected nodes -/
theorem vand_rows (a : Fin n → F) (rows : Fin k → Fin n) :
    (vand a k).submatrix rows id = vandermonde (a ∘ rows) := by
  ext i j; simp [vand, vandermonde_apply]

/-- `buildMatrix`: `G = V · (top k rows of V)⁻¹` -/
noncomputable def gen (a : Fin n → F) (hk : k ≤ n) : Matrix (Fin n) (Fin k) F :=
  vand a k * ((vand a k).submatrix (Fin.castLE hk) id)⁻¹

theorem det_rows_ne_zero (a : Fin n → F) (ha : Function.Injective a) (rows : Fin k → Fin n)
    (hr : Function.Injective rows) : ((vand a k).submatrix rows id).det ≠ 0 := by
  rw [vand_rows, det_vandermonde_ne_zero_iff]
  exact ha.comp hr

theorem gen_rows (a : Fin n → F) (hk : k ≤ n) (rows : Fin k → Fin n) :
    (gen a hk).submatrix rows id = (vand a k).submatrix rows id * ((vand a k).submatrix (Fin.castLE hk) id)⁻¹ := by
  unfold gen
  rw [← Matrix.submatrix_mul_equiv (e₂ := Equiv.refl (Fin k))]
  rfl

end Code

section
open Matrix
variable {F : Type*} [Field F]
/-- a `j × k` matrix with `j < k` kills some non-zero vector -/
theorem exists_ker_of_lt {j k : ℕ} (A : Matrix (Fin j) (Fin k) F) (hj : j < k) :
    ∃ v : Fin k → F, v ≠ 0 ∧ A.mulVec v = 0 := by
  have hk : LinearMap.ker (Matrix.mulVecLin A) ≠ ⊥ := by
    apply LinearMap.ker_ne_bot_of_finrank_lt
    simpa using hj
  obtain ⟨v, hv, hv0⟩ := Submodule.exists_mem_ne_zero_of_ne_bot hk
  exact ⟨v, hv0, by simpa using hv⟩


end

/-! ### `ErasureCode` ∘ `JoinShards` helpers -/
section
open Sunrise Sunrise.RS
theorem splitSized_length (ext : List UInt8) (k size : Nat) : (splitSized ext k size).length = k := by
  simp [splitSized]

theorem enough_some (outSize : Int) : ∀ (ds : List (List UInt8)) (size : Int),
    joinLib.enough outSize (ds.map some) size = .ok (decide (size + (ds.flatten.length : Int) ≥ outSize)) := by
  intro ds
  induction ds with
  | nil => intro size; simp [joinLib.enough]
  | cons s rest ih =>
    intro size
    have e : (((s :: rest).flatten.length : Nat) : Int) = (s.length : Int) + (rest.flatten.length : Int) := by
      rw [List.flatten_cons, List.length_append]; push_cast; rfl
    rw [e]
    simp only [List.map_cons, joinLib.enough]
    split
    · rename_i h
      have : size + ((s.length : Int) + (rest.flatten.length : Int)) ≥ outSize := by omega
      rw [decide_eq_true this]
    · rename_i h
      rw [ih]
      congr 2
      apply propext
      constructor <;> intro h' <;> omega

theorem encodeParity_length (k p : Nat) (data : List (List UInt8)) (size : Nat) (par : List (List UInt8))
    (h : encodeParity k p data size = some par) : par.length = p := by
  unfold encodeParity at h
  split at h
  · simp at h; subst h; simp; omega
  · split at h
    · simp at h
    · rename_i g hg
      simp only [Option.some.injEq] at h
      subst h
      unfold buildMatrix at hg
      simp only at hg
      split at hg
      · simp only [Option.some.injEq] at hg
        subst hg
        simp [codeShards, Mat.mul, RS.vandermonde]
      · simp at hg

end

section
open Sunrise Sunrise.Zk
theorem submit_go_ok (ys : List (List UInt8)) : ∀ (js : List Int) (ms : List Nat), js.length = ms.length →
    submitValidityProof.go ys js ms = .ok () →
    ∀ k (hk : k < js.length) (hk' : k < ms.length), 0 ≤ js[k] ∧ js[k] < ys.length ∧ ms[k] = decode (ys.getD js[k].toNat []) := by
  intro js
  induction js with
  | nil => intro ms _ _ k hk; simp at hk
  | cons j js ih =>
    intro ms hl h k hk hk'
    cases ms with
    | nil => simp at hl
    | cons m ms =>
      unfold submitValidityProof.go at h
      split at h
      · simp at h
      · split at h
        · simp at h
        · split at h
          · rename_i h1 h2 h3
            cases k with
            | zero => simp only [List.getElem_cons_zero]; omega
            | succ k =>
              simp only [List.getElem_cons_succ]
              exact ih ms (by simpa using hl) h k (by simpa using hk) (by simpa using hk')
          · simp at h

end

section
open Sunrise Sunrise.RS
theorem splitSized_lens (ext : List UInt8) (k size : Nat) (h : ext.length = k * size) :
    ∀ s ∈ splitSized ext k size, s.length = size := by
  intro s hs
  unfold splitSized at hs
  obtain ⟨i, hi, rfl⟩ := List.mem_map.mp hs
  have hi' : i < k := List.mem_range.mp hi
  rw [List.length_take, List.length_drop, h]
  have : (i + 1) * size ≤ k * size := Nat.mul_le_mul_right _ hi'
  rw [Nat.succ_mul] at this
  omega

theorem encodeParity_lens (k p : Nat) (data : List (List UInt8)) (size : Nat) (par : List (List UInt8))
    (h : encodeParity k p data size = some par) : ∀ s ∈ par, s.length = size := by
  unfold encodeParity at h
  split at h
  · simp at h; subst h; simp
  · split at h
    · simp at h
    · simp only [Option.some.injEq] at h
      subst h
      intro s hs
      simp only [codeShards, List.mem_map, Array.mem_toList_iff, Array.mem_map] at hs
      obtain ⟨a, ⟨row, _, rfl⟩, rfl⟩ := hs
      simp

theorem firstSize_of_all (size : Nat) (hs : size ≠ 0) : ∀ (l : List (List UInt8)), l ≠ [] → (∀ s ∈ l, s.length = size) →
    firstSize (l.map some) = size := by
  intro l hne hall
  cases l with
  | nil => exact absurd rfl hne
  | cons a t =>
    have ha := hall a (List.mem_cons_self)
    simp [firstSize, Shard.len, ha, hs]

theorem reconstruct_all_present (l : List (List UInt8)) (k size : Nat) (hs : size ≠ 0) (hne : l ≠ [])
    (hall : ∀ s ∈ l, s.length = size) : reconstruct (l.map some) k = .ok l := by
  unfold reconstruct
  simp only [firstSize_of_all size hs l hne hall, hs, if_false]
  have h1 : ((l.map some).any fun (s : Shard) => decide (s.len ≠ size) && decide (s.len ≠ 0)) = false := by
    rw [List.any_eq_false]
    intro s hs'
    obtain ⟨x, hx, rfl⟩ := List.mem_map.mp hs'
    simp [Shard.len, hall x hx]
  have h2 : ((l.map some).filter fun (s : Shard) => decide (s.len ≠ 0)).length = (l.map some).length := by
    rw [List.filter_eq_self.mpr]
    intro s hs'
    obtain ⟨x, hx, rfl⟩ := List.mem_map.mp hs'
    simp [Shard.len, hall x hx, hs]
  simp only [h1, Bool.false_eq_true, if_false, h2, if_true]
  simp [List.map_map, Function.comp_def, Shard.bytes]

end

/-- non-vacuity of `encode_then_join_partial`: a concrete blob IS encodable in the model (kernel evaluation of the
    executable GF(2^8) encoder; the bytes are the ones the Go code returns: 0102 0304 0500 0706 093e) -/
theorem erasureCode_example : ∃ e, RS.erasureCode [1, 2, 3, 4, 5] 3 2 = .ok e := by
  have h : (match RS.erasureCode [1, 2, 3, 4, 5] 3 2 with
      | .ok e => e.shards == [[1, 2], [3, 4], [5, 0], [7, 6], [9, 0x3e]] | _ => false) = true := by decide +kernel
  cases hh : RS.erasureCode [1, 2, 3, 4, 5] 3 2 with
  | ok e => exact ⟨e, rfl⟩
  | err c => rw [hh] at h; simp at h
  | panic k => rw [hh] at h; simp at h

end Sunrise.C20
