import SunriseVerif.Model.DA
/-!
Helper lemmas for Props/C07 (x/da status machine): the functional view `findItem s u` under the list operations of
the model (`setItem`, `filter`, `insertBy`), exact descriptions of the per-uri phase functions of the end-blocker,
fold lemmas for the phases, and the uri-uniqueness invariant. Core-only.
-/
set_option linter.unusedSimpArgs false
set_option linter.unusedVariables false
namespace Sunrise.DA
open Sunrise Sunrise.Bank

/-! ### the functional view on lists -/
/-- list-level `findItem` -/
def fi (items : List Item) (u : String) : Option Item := items.find? (fun it => it.uri == u)

theorem findItem_eq (s : St) (u : String) : findItem s u = fi s.items u := rfl

theorem fi_cons (x : Item) (xs : List Item) (u : String) :
    fi (x :: xs) u = if x.uri = u then some x else fi xs u := by
  simp only [fi, List.find?_cons]
  by_cases h : x.uri = u
  · have hb : (x.uri == u) = true := by simpa using h
    rw [hb, if_pos h]
  · have hb : (x.uri == u) = false := by simpa using h
    rw [hb, if_neg h]

theorem fi_some {items : List Item} {u : String} {it : Item} (h : fi items u = some it) :
    it.uri = u ∧ it ∈ items := by
  unfold fi at h
  have h1 := List.find?_some h
  have h2 := List.mem_of_find?_eq_some h
  exact ⟨by simpa using h1, h2⟩

theorem findItem_some {s : St} {u : String} {it : Item} (h : findItem s u = some it) :
    it.uri = u ∧ it ∈ s.items := fi_some h

theorem fi_none_iff {items : List Item} {u : String} :
    fi items u = none ↔ ∀ x ∈ items, x.uri ≠ u := by
  unfold fi; simp

theorem fi_setItem (items : List Item) (it' : Item) (v : String) :
    fi (setItem items it') v = if it'.uri = v then (fi items v).map (fun _ => it') else fi items v := by
  induction items with
  | nil => simp [setItem, fi]
  | cons x xs ih =>
    have e : setItem (x :: xs) it' = (if x.uri == it'.uri then it' else x) :: setItem xs it' := rfl
    have e' : setItem xs it' = xs.map (fun x => if x.uri == it'.uri then it' else x) := rfl
    rw [e, fi_cons, fi_cons, ih]
    by_cases h1 : x.uri = it'.uri
    · by_cases h2 : it'.uri = v
      · simp [h1, h2]
      · simp [h1, h2]
    · by_cases h2 : it'.uri = v
      · have h3 : ¬ x.uri = v := fun h => h1 (h.trans h2.symm)
        simp [h1, h2, h3]
      · simp [h1, h2]

theorem fi_filter (items : List Item) (u v : String) :
    fi (items.filter (fun x => !(x.uri == u))) v = if v = u then none else fi items v := by
  induction items with
  | nil => simp [fi]
  | cons x xs ih =>
    by_cases h1 : x.uri = u
    · have : (x :: xs).filter (fun x => !(x.uri == u)) = xs.filter (fun x => !(x.uri == u)) := by
        simp [List.filter_cons, h1]
      rw [this, ih, fi_cons]
      by_cases h2 : v = u
      · simp [h2]
      · have h3 : ¬ x.uri = v := fun h => h2 (h.symm.trans h1)
        simp [h2, h3]
    · have : (x :: xs).filter (fun x => !(x.uri == u)) = x :: xs.filter (fun x => !(x.uri == u)) := by
        simp [List.filter_cons, h1]
      rw [this, fi_cons, fi_cons, ih]
      by_cases h2 : v = u
      · have h3 : ¬ x.uri = v := fun h => h1 (h.trans h2)
        simp [h2, h3, h1]
      · simp [h2]

theorem mem_insertBy {α} (lt : α → α → Bool) (x a : α) (l : List α) :
    a ∈ insertBy lt x l ↔ a = x ∨ a ∈ l := by
  induction l with
  | nil => simp [insertBy]
  | cons y ys ih =>
    unfold insertBy
    by_cases h : lt x y = true
    · simp [h]
    · simp only [h, if_false, Bool.false_eq_true, List.mem_cons, ih]
      constructor
      · rintro (h | h | h) <;> simp [h]
      · rintro (h | h | h) <;> simp [h]

theorem fi_insertBy (items : List Item) (it : Item) (v : String) (hn : fi items it.uri = none) :
    fi (insertBy itemLt it items) v = if it.uri = v then some it else fi items v := by
  induction items with
  | nil => simp [insertBy, fi_cons]
  | cons y ys ih =>
    rw [fi_cons] at hn
    by_cases hy : y.uri = it.uri
    · simp [hy] at hn
    · simp only [hy, if_false] at hn
      unfold insertBy
      by_cases h : itemLt it y = true
      · simp only [h, if_true]; rw [fi_cons]
      · simp only [h, if_false, Bool.false_eq_true]
        rw [fi_cons, ih hn, fi_cons]
        by_cases h1 : y.uri = v
        · have h2 : ¬ it.uri = v := fun e => hy (h1.trans e.symm)
          simp [h1, h2]
        · simp [h1]

/-- replacing the item found at `u` by one with the same uri -/
theorem fi_setItem_found {items : List Item} {u : String} {it : Item} (h : fi items u = some it)
    (it' : Item) (hu : it'.uri = it.uri) (v : String) :
    fi (setItem items it') v = if v = u then some it' else fi items v := by
  have hu' : it'.uri = u := hu.trans (fi_some h).1
  rw [fi_setItem]
  by_cases hv : v = u
  · subst hv; simp [hu', h]
  · have : ¬ it'.uri = v := fun e => hv (e.symm.trans hu')
    simp [hv, this]

theorem map_uri_setItem (items : List Item) (it' : Item) :
    (setItem items it').map (·.uri) = items.map (·.uri) := by
  induction items with
  | nil => rfl
  | cons x xs ih =>
    have e : setItem (x :: xs) it' = (if x.uri == it'.uri then it' else x) :: setItem xs it' := rfl
    rw [e, List.map_cons, List.map_cons, ih]
    by_cases h : x.uri = it'.uri <;> simp [h]

/-! ### helper folds never touch items / time / params -/
structure SameCore (s s' : St) : Prop where
  items : s'.items = s.items
  now : s'.now = s.now
  params : s'.params = s.params
  height : s'.height = s.height

theorem SameCore.rfl' (s : St) : SameCore s s := ⟨rfl, rfl, rfl, rfl⟩
theorem SameCore.trans {a b c : St} (h1 : SameCore a b) (h2 : SameCore b c) : SameCore a c :=
  ⟨h2.items.trans h1.items, h2.now.trans h1.now, h2.params.trans h1.params, h2.height.trans h1.height⟩

theorem refundChallenger_core (coll : Coins) (s : St) (x : Inval) : SameCore s (refundChallenger coll s x) := by
  unfold refundChallenger; split <;> exact ⟨rfl, rfl, rfl, rfl⟩

theorem refund_fold_core (coll : Coins) (l : List Inval) (s : St) :
    SameCore s (l.foldl (refundChallenger coll) s) := by
  induction l generalizing s with
  | nil => exact SameCore.rfl' s
  | cons x xs ih => exact (refundChallenger_core coll s x).trans (ih _)

theorem payChallenger_core (coins : Coins) (s : St) (x : Inval) : SameCore s (payChallenger coins s x) := by
  unfold payChallenger; split <;> exact ⟨rfl, rfl, rfl, rfl⟩

theorem pay_fold_core (coins : Coins) (l : List Inval) (s : St) :
    SameCore s (l.foldl (payChallenger coins) s) := by
  induction l generalizing s with
  | nil => exact SameCore.rfl' s
  | cons x xs ih => exact (payChallenger_core coins s x).trans (ih _)

theorem settleVerified_core (coll : Coins) (safe : List Int) (acc : St × Coins) (x : Inval) :
    SameCore acc.1 (settleVerified coll safe acc x).1 := by
  unfold settleVerified
  split
  · split <;> exact ⟨rfl, rfl, rfl, rfl⟩
  · exact ⟨rfl, rfl, rfl, rfl⟩

theorem settle_fold_core (coll : Coins) (safe : List Int) (l : List Inval) (acc : St × Coins) :
    SameCore acc.1 (l.foldl (settleVerified coll safe) acc).1 := by
  induction l generalizing acc with
  | nil => exact SameCore.rfl' _
  | cons x xs ih => exact (settleVerified_core coll safe acc x).trans (ih _)

/-! ### per-uri phase functions: exact view -/
theorem findItem_pruneOne (st : Status) (s : St) (u v : String) :
    findItem (pruneOne st s u) v =
      if v = u ∧ (findItem s u).map (·.status) = some st then none else findItem s v := by
  unfold pruneOne
  cases h : findItem s u with
  | none => simp
  | some it =>
    simp only [Option.map_some, Option.some.injEq]
    by_cases hs : it.status = st
    · simp only [hs, if_true, and_true]
      show fi (s.items.filter _) v = _
      rw [fi_filter]; rfl
    · simp [hs]

theorem pruneOne_shape (st : Status) (s : St) (u : String) :
    ∃ items', pruneOne st s u = { s with items := items' } ∧ List.Sublist items' s.items := by
  unfold pruneOne
  split
  · split
    · exact ⟨_, rfl, List.filter_sublist⟩
    · exact ⟨s.items, rfl, List.Sublist.refl _⟩
  · exact ⟨s.items, rfl, List.Sublist.refl _⟩

/-- the threshold test of `ChangeToChallengingFromChallengePeriod` -/
def tcFires (s : St) (u : String) (it : Item) : Prop :=
  0 < ((distinctIndices (invsOf s u)).length : Int) ∧
    s.params.thr * (it.shards : Int) ≤ ((distinctIndices (invsOf s u)).length : Int) * PREC

instance (s : St) (u : String) (it : Item) : Decidable (tcFires s u it) := by
  unfold tcFires; exact inferInstance

theorem findItem_tc (s : St) (u v : String) :
    findItem (toChallengingOne s u) v =
      if v = u then (findItem s u).map (fun it =>
        if it.status = .cp ∧ tcFires s u it then { it with status := .ch, ts := s.now } else it)
      else findItem s v := by
  unfold toChallengingOne
  cases h : findItem s u with
  | none => by_cases hv : v = u <;> simp [hv, h]
  | some it =>
    simp only [Option.map_some]
    by_cases hs : it.status = .cp
    · by_cases hf : tcFires s u it
      · have hf' := hf; unfold tcFires at hf'
        simp only [hs, hf', hf, and_self, if_true]
        show fi (setItem s.items _) v = _
        exact fi_setItem_found h { it with status := .ch, ts := s.now } rfl v
      · have hf' := hf; unfold tcFires at hf'
        simp only [hs, hf', hf, and_false, if_false, if_true]
        by_cases hv : v = u <;> simp [hv, h]
    · simp only [hs, false_and, if_false]
      by_cases hv : v = u <;> simp [hv, h]

theorem tc_shape (s : St) (u : String) :
    ∃ items', toChallengingOne s u = { s with items := items' } ∧ items'.map (·.uri) = s.items.map (·.uri) := by
  unfold toChallengingOne
  split
  · split
    · simp only []
      split
      · exact ⟨_, rfl, map_uri_setItem _ _⟩
      · exact ⟨s.items, rfl, rfl⟩
    · exact ⟨s.items, rfl, rfl⟩
  · exact ⟨s.items, rfl, rfl⟩

theorem tv_core (s : St) (u : String) :
    (toVerifiedOne s u).now = s.now ∧ (toVerifiedOne s u).params = s.params ∧
    (toVerifiedOne s u).height = s.height ∧
    (toVerifiedOne s u).items =
      match findItem s u with
      | some it => if it.status = .cp then setItem s.items { it with status := .ver, ts := s.now } else s.items
      | none => s.items := by
  unfold toVerifiedOne
  cases h : findItem s u with
  | none => simp
  | some it =>
    simp only []
    by_cases hs : it.status = .cp
    · simp only [hs, if_true]
      split
      · have c := refund_fold_core it.invColl
          (invsOf { s with items := setItem s.items { it with status := .ver, ts := s.now } } u)
          { s with items := setItem s.items { it with status := .ver, ts := s.now }, bank := ‹Bank› }
        exact ⟨c.now, c.params, c.height, c.items⟩
      · exact ⟨rfl, rfl, rfl, rfl⟩
    · simp [hs]

theorem findItem_tv (s : St) (u v : String) :
    findItem (toVerifiedOne s u) v =
      if v = u then (findItem s u).map (fun it =>
        if it.status = .cp then { it with status := .ver, ts := s.now } else it)
      else findItem s v := by
  rw [findItem_eq, (tv_core s u).2.2.2]
  cases h : findItem s u with
  | none => by_cases hv : v = u <;> simp [hv, h, findItem_eq] <;> exact h
  | some it =>
    simp only [Option.map_some]
    by_cases hs : it.status = .cp
    · simp only [hs, if_true]
      exact fi_setItem_found h { it with status := .ver, ts := s.now } rfl v
    · simp only [hs, if_false]
      by_cases hv : v = u
      · subst hv; simp [← findItem_eq, h]
      · simp [hv, findItem_eq]

theorem tv_map_uri (s : St) (u : String) :
    (toVerifiedOne s u).items.map (·.uri) = s.items.map (·.uri) := by
  rw [(tv_core s u).2.2.2]
  split
  · split
    · exact map_uri_setItem _ _
    · rfl
  · rfl

/-- the settled state of a tally: core fields and items -/
theorem tallyOne_core {env : Env} {s s' : St} {u : String} (h : tallyOne env s u = .ok s') :
    s'.now = s.now ∧ s'.params = s.params ∧ s'.height = s.height ∧
    ∃ st', (st' = Status.ver ∨ st' = Status.rej) ∧
      s'.items = match findItem s u with
        | some it => if it.status = .ch then setItem s.items { it with status := st', ts := s.now } else s.items
        | none => s.items := by
  unfold tallyOne at h
  cases hf : findItem s u with
  | none =>
    rw [hf] at h; simp only [Res.ok.injEq] at h; subst h
    exact ⟨rfl, rfl, rfl, .ver, Or.inl rfl, rfl⟩
  | some it =>
    rw [hf] at h; simp only [] at h
    by_cases hs : it.status = .ch
    · simp only [hs, ne_eq, not_true_eq_false, if_false] at h
      split at h
      · cases h
      · obtain ⟨s3, h3, h⟩ := bind_ok h
        simp only [Res.ok.injEq] at h; subst h
        simp only [hs, if_true]
        split at h3
        · simp only [Res.ok.injEq] at h3; subst h3
          have c := pay_fold_core
            (it.invColl ++ rewardShare (if ((invsOf s u).length : Int) = 0 then [] else it.pubColl)
              ((invsOf s u).length : Int)) (invsOf s u)
            { s with items := setItem s.items { it with status := .rej, ts := s.now } }
          exact ⟨c.now, c.params, c.height, .rej, Or.inr rfl, c.items⟩
        · have c := settle_fold_core it.invColl
            (tallyOutcome s.params.rf it (proofsOf s u) env.active (env.assign u)).safe (invsOf s u)
            ({ s with items := setItem s.items { it with status := .ver, ts := s.now } }, it.pubColl)
          split at h3
          · simp only [Res.ok.injEq] at h3; subst h3
            exact ⟨c.now, c.params, c.height, .ver, Or.inl rfl, c.items⟩
          · simp only [Res.ok.injEq] at h3; subst h3
            exact ⟨c.now, c.params, c.height, .ver, Or.inl rfl, c.items⟩
    · simp only [hs, ne_eq, not_false_eq_true, if_true, Res.ok.injEq] at h; subst h
      exact ⟨rfl, rfl, rfl, .ver, Or.inl rfl, by simp [hs]⟩

theorem findItem_tally {env : Env} {s s' : St} {u : String} (h : tallyOne env s u = .ok s') :
    ∃ st', (st' = Status.ver ∨ st' = Status.rej) ∧ ∀ v, findItem s' v =
      if v = u then (findItem s u).map (fun it =>
        if it.status = .ch then { it with status := st', ts := s.now } else it)
      else findItem s v := by
  obtain ⟨_, _, _, st', hst, hi⟩ := tallyOne_core h
  refine ⟨st', hst, fun v => ?_⟩
  rw [findItem_eq, hi]
  cases hf : findItem s u with
  | none => by_cases hv : v = u <;> simp [hv, hf, findItem_eq] <;> exact hf
  | some it =>
    simp only [Option.map_some]
    by_cases hs : it.status = .ch
    · simp only [hs, if_true]
      exact fi_setItem_found hf { it with status := st', ts := s.now } rfl v
    · simp only [hs, if_false]
      by_cases hv : v = u
      · subst hv; simp [← findItem_eq, hf]
      · simp [hv, findItem_eq]

theorem tally_map_uri {env : Env} {s s' : St} {u : String} (h : tallyOne env s u = .ok s') :
    s'.items.map (·.uri) = s.items.map (·.uri) := by
  obtain ⟨_, _, _, st', _, hi⟩ := tallyOne_core h
  rw [hi]
  split
  · split
    · exact map_uri_setItem _ _
    · rfl
  · rfl

/-! ### relations on the view of one uri -/
/-- pruning: unchanged, or an item of status `st` disappears -/
def PrRel (st : Status) (o o' : Option Item) : Prop :=
  o' = o ∨ (o' = none ∧ ∃ it, o = some it ∧ it.status = st)

/-- status moves inside one block at time `t`: unchanged, or re-stamped along cp→{ch,ver,rej} / ch→{ver,rej} -/
def BlkRel (t : Int) (o o' : Option Item) : Prop :=
  o' = o ∨ ∃ it st', o = some it ∧
    ((it.status = .cp ∧ (st' = .ch ∨ st' = .ver ∨ st' = .rej)) ∨ (it.status = .ch ∧ (st' = .ver ∨ st' = .rej))) ∧
    o' = some { it with status := st', ts := t }

theorem PrRel.refl (st : Status) (o : Option Item) : PrRel st o o := Or.inl rfl
theorem PrRel.trans {st : Status} {a b c : Option Item} (h1 : PrRel st a b) (h2 : PrRel st b c) : PrRel st a c := by
  rcases h1 with rfl | ⟨rfl, h1⟩
  · exact h2
  · rcases h2 with rfl | ⟨rfl, _⟩
    · exact Or.inr ⟨rfl, h1⟩
    · exact Or.inr ⟨rfl, h1⟩

theorem BlkRel.refl (t : Int) (o : Option Item) : BlkRel t o o := Or.inl rfl
theorem BlkRel.trans {t : Int} {a b c : Option Item} (h1 : BlkRel t a b) (h2 : BlkRel t b c) : BlkRel t a c := by
  rcases h1 with rfl | ⟨it, st1, rfl, hc1, rfl⟩
  · exact h2
  · rcases h2 with rfl | ⟨it2, st2, e2, hc2, rfl⟩
    · exact Or.inr ⟨it, st1, rfl, hc1, rfl⟩
    · simp only [Option.some.injEq] at e2; subst e2
      simp only at hc2
      refine Or.inr ⟨it, st2, rfl, ?_, rfl⟩
      rcases hc1 with ⟨h, h' | h' | h'⟩ | ⟨h, h' | h'⟩ <;> subst h' <;> simp_all

theorem BlkRel.none {t : Int} {o' : Option Item} (h : BlkRel t none o') : o' = none := by
  rcases h with rfl | ⟨it, st', e, _⟩
  · rfl
  · cases e

theorem PrRel.none {st : Status} {o' : Option Item} (h : PrRel st none o') : o' = none := by
  rcases h with rfl | ⟨rfl, _⟩ <;> rfl

theorem pruneOne_rel (st : Status) (s : St) (u v : String) :
    PrRel st (findItem s v) (findItem (pruneOne st s u) v) := by
  rw [findItem_pruneOne]
  by_cases hv : v = u
  · subst hv
    cases h : findItem s v with
    | none => simp [PrRel]
    | some it =>
      by_cases hs : it.status = st
      · exact Or.inr ⟨by simp [hs], it, rfl, hs⟩
      · exact Or.inl (by simp [hs])
  · exact Or.inl (by simp [hv])

theorem tc_rel (s : St) (u v : String) : BlkRel s.now (findItem s v) (findItem (toChallengingOne s u) v) := by
  rw [findItem_tc]
  by_cases hv : v = u
  · subst hv
    cases h : findItem s v with
    | none => exact Or.inl (by simp)
    | some it =>
      by_cases hs : it.status = .cp ∧ tcFires s v it
      · exact Or.inr ⟨it, .ch, rfl, Or.inl ⟨hs.1, Or.inl rfl⟩, by simp [hs]⟩
      · exact Or.inl (by simp [hs])
  · exact Or.inl (by simp [hv])

theorem tv_rel (s : St) (u v : String) : BlkRel s.now (findItem s v) (findItem (toVerifiedOne s u) v) := by
  rw [findItem_tv]
  by_cases hv : v = u
  · subst hv
    cases h : findItem s v with
    | none => exact Or.inl (by simp)
    | some it =>
      by_cases hs : it.status = .cp
      · exact Or.inr ⟨it, .ver, rfl, Or.inl ⟨hs, Or.inr (Or.inl rfl)⟩, by simp [hs]⟩
      · exact Or.inl (by simp [hs])
  · exact Or.inl (by simp [hv])

theorem tally_rel {env : Env} {s s' : St} {u : String} (h : tallyOne env s u = .ok s') (v : String) :
    BlkRel s.now (findItem s v) (findItem s' v) := by
  obtain ⟨st', hst, hv'⟩ := findItem_tally h
  rw [hv']
  by_cases hv : v = u
  · subst hv
    cases h : findItem s v with
    | none => exact Or.inl (by simp)
    | some it =>
      by_cases hs : it.status = .ch
      · exact Or.inr ⟨it, st', rfl, Or.inr ⟨hs, hst⟩, by simp [hs]⟩
      · exact Or.inl (by simp [hs])
  · exact Or.inl (by simp [hv])

/-! ### folds -/
theorem foldl_view {R : Option Item → Option Item → Prop} (hrefl : ∀ o, R o o)
    (htrans : ∀ a b c, R a b → R b c → R a c) (f : St → String → St) (t : Int) (P : Params)
    (hstep : ∀ s u, s.now = t → s.params = P →
      ((f s u).now = t ∧ (f s u).params = P) ∧ ∀ v, R (findItem s v) (findItem (f s u) v)) :
    ∀ (l : List String) (s : St), s.now = t → s.params = P →
      ((l.foldl f s).now = t ∧ (l.foldl f s).params = P) ∧ ∀ v, R (findItem s v) (findItem (l.foldl f s) v) := by
  intro l
  induction l with
  | nil => intro s h1 h2; exact ⟨⟨h1, h2⟩, fun v => hrefl _⟩
  | cons u us ih =>
    intro s h1 h2
    obtain ⟨⟨a1, a2⟩, a3⟩ := hstep s u h1 h2
    obtain ⟨b1, b3⟩ := ih (f s u) a1 a2
    exact ⟨b1, fun v => htrans _ _ _ (a3 v) (b3 v)⟩

theorem foldl_other (f : St → String → St)
    (hother : ∀ s u v, v ≠ u → findItem (f s u) v = findItem s v) :
    ∀ (l : List String) (s : St) (v : String), v ∉ l → findItem (l.foldl f s) v = findItem s v := by
  intro l
  induction l with
  | nil => intro s v _; rfl
  | cons u us ih =>
    intro s v hv
    simp only [List.mem_cons, not_or] at hv
    rw [List.foldl_cons, ih _ _ hv.2, hother _ _ _ hv.1]

/-! ### the status/time index -/
theorem mem_indexScan_some {s : St} {st : Status} {c : Int} {u : String} :
    u ∈ indexScan s st (some c) ↔ ∃ it ∈ s.items, it.uri = u ∧ it.status = st ∧ unix it.ts ≤ c := by
  unfold indexScan
  simp only [List.mem_map, List.mem_mergeSort, List.mem_filter, Bool.and_eq_true, beq_iff_eq, decide_eq_true_eq]
  constructor
  · rintro ⟨it, ⟨hm, hs, hc⟩, hu⟩; exact ⟨it, hm, hu, hs, hc⟩
  · rintro ⟨it, hm, hu, hs, hc⟩; exact ⟨it, ⟨hm, hs, hc⟩, hu⟩

theorem mem_indexScan_none {s : St} {st : Status} {u : String} :
    u ∈ indexScan s st none ↔ ∃ it ∈ s.items, it.uri = u ∧ it.status = st := by
  unfold indexScan
  simp only [List.mem_map, List.mem_mergeSort, List.mem_filter, Bool.and_eq_true, beq_iff_eq, and_true]
  constructor
  · rintro ⟨it, ⟨hm, hs⟩, hu⟩; exact ⟨it, hm, hu, hs⟩
  · rintro ⟨it, hm, hu, hs⟩; exact ⟨it, ⟨hm, hs⟩, hu⟩

/-- uri uniqueness -/
def UNodup (s : St) : Prop := (s.items.map (·.uri)).Nodup

theorem fi_of_mem_nodup {items : List Item} (hnd : (items.map (·.uri)).Nodup) {it : Item} (hm : it ∈ items) :
    fi items it.uri = some it := by
  induction items with
  | nil => cases hm
  | cons x xs ih =>
    rw [List.map_cons, List.nodup_cons] at hnd
    rw [fi_cons]
    rcases List.mem_cons.1 hm with rfl | hm
    · simp
    · have : ¬ x.uri = it.uri := fun e => hnd.1 (e ▸ List.mem_map.2 ⟨it, hm, rfl⟩)
      simp only [this, if_false]
      exact ih hnd.2 hm

theorem indexScan_found {s : St} (hnd : UNodup s) {st : Status} {c : Int} {u : String}
    (h : u ∈ indexScan s st (some c)) : ∃ it, findItem s u = some it ∧ it.status = st ∧ unix it.ts ≤ c := by
  obtain ⟨it, hm, hu, hs, hc⟩ := mem_indexScan_some.1 h
  exact ⟨it, hu ▸ fi_of_mem_nodup hnd hm, hs, hc⟩

theorem found_indexScan_some {s : St} {st : Status} {c : Int} {u : String} {it : Item}
    (h : findItem s u = some it) (hs : it.status = st) (hc : unix it.ts ≤ c) : u ∈ indexScan s st (some c) :=
  mem_indexScan_some.2 ⟨it, (findItem_some h).2, (findItem_some h).1, hs, hc⟩

theorem found_indexScan_none {s : St} {st : Status} {u : String} {it : Item}
    (h : findItem s u = some it) (hs : it.status = st) : u ∈ indexScan s st none :=
  mem_indexScan_none.2 ⟨it, (findItem_some h).2, (findItem_some h).1, hs⟩

/-! ### whole phases -/
/-- uri list of `s'` is a sublist of that of `s` -/
def USub (s' s : St) : Prop := List.Sublist (s'.items.map (·.uri)) (s.items.map (·.uri))
theorem USub.refl (s : St) : USub s s := List.Sublist.refl _
theorem USub.trans {a b c : St} (h1 : USub a b) (h2 : USub b c) : USub a c := List.Sublist.trans h1 h2
theorem USub.nodup {s' s : St} (h : USub s' s) (hn : UNodup s) : UNodup s' := List.Nodup.sublist h hn

theorem prune_fold_shape (st : Status) : ∀ (l : List String) (s : St),
    ∃ items', l.foldl (pruneOne st) s = { s with items := items' } ∧ List.Sublist items' s.items := by
  intro l
  induction l with
  | nil => intro s; exact ⟨s.items, rfl, List.Sublist.refl _⟩
  | cons u us ih =>
    intro s
    obtain ⟨i1, e1, h1⟩ := pruneOne_shape st s u
    obtain ⟨i2, e2, h2⟩ := ih (pruneOne st s u)
    rw [List.foldl_cons, e2, e1]
    rw [e1] at h2
    exact ⟨i2, rfl, h2.trans h1⟩

theorem prune_shape (s : St) (st : Status) (period : Int) :
    ∃ items', prune s st period = { s with items := items' } ∧ List.Sublist items' s.items :=
  prune_fold_shape st _ s

theorem prune_view (s : St) (st : Status) (period : Int) (v : String) :
    PrRel st (findItem s v) (findItem (prune s st period) v) ∧
    (v ∉ indexScan s st (some (unix (s.now - period))) → findItem (prune s st period) v = findItem s v) := by
  constructor
  · obtain ⟨P, hP⟩ : ∃ P, s.params = P := ⟨_, rfl⟩
    have := foldl_view (R := PrRel st) (PrRel.refl st) (fun _ _ _ => PrRel.trans) (pruneOne st) s.now P
      (fun s' u h1 h2 => by
        obtain ⟨i, e, _⟩ := pruneOne_shape st s' u
        refine ⟨?_, fun v => pruneOne_rel st s' u v⟩
        rw [e]; exact ⟨h1, h2⟩)
      (indexScan s st (some (unix (s.now - period)))) s rfl hP
    exact this.2 v
  · intro hv
    exact foldl_other (pruneOne st) (fun s' u v hv => by rw [findItem_pruneOne]; simp [hv]) _ s v hv

theorem tc_fold_shape : ∀ (l : List String) (s : St),
    ∃ items', l.foldl toChallengingOne s = { s with items := items' } ∧
      items'.map (·.uri) = s.items.map (·.uri) := by
  intro l
  induction l with
  | nil => intro s; exact ⟨s.items, rfl, rfl⟩
  | cons u us ih =>
    intro s
    obtain ⟨i1, e1, h1⟩ := tc_shape s u
    obtain ⟨i2, e2, h2⟩ := ih (toChallengingOne s u)
    rw [List.foldl_cons, e2, e1]
    rw [e1] at h2
    exact ⟨i2, rfl, h2.trans h1⟩

theorem toChallenging_view (s : St) (v : String) :
    BlkRel s.now (findItem s v) (findItem (toChallenging s) v) := by
  obtain ⟨P, hP⟩ : ∃ P, s.params = P := ⟨_, rfl⟩
  have := foldl_view (R := BlkRel s.now) (BlkRel.refl _) (fun _ _ _ => BlkRel.trans) toChallengingOne s.now P
    (fun s' u h1 h2 => by
      obtain ⟨i, e, _⟩ := tc_shape s' u
      refine ⟨?_, fun v => h1 ▸ tc_rel s' u v⟩
      rw [e]; exact ⟨h1, h2⟩)
    (indexScan s .cp none) s rfl hP
  exact this.2 v

theorem tv_fold_view (t : Int) (P : Params) (l : List String) (s : St) (h1 : s.now = t) (h2 : s.params = P) :
    ((l.foldl toVerifiedOne s).now = t ∧ (l.foldl toVerifiedOne s).params = P) ∧
    ∀ v, BlkRel t (findItem s v) (findItem (l.foldl toVerifiedOne s) v) :=
  foldl_view (R := BlkRel t) (BlkRel.refl _) (fun _ _ _ => BlkRel.trans) toVerifiedOne t P
    (fun s' u h1 h2 => by
      obtain ⟨a, b, _, _⟩ := tv_core s' u
      exact ⟨⟨a.trans h1, b.trans h2⟩, fun v => h1 ▸ tv_rel s' u v⟩) l s h1 h2

theorem tv_fold_usub : ∀ (l : List String) (s : St),
    (l.foldl toVerifiedOne s).items.map (·.uri) = s.items.map (·.uri) := by
  intro l
  induction l with
  | nil => intro s; rfl
  | cons u us ih => intro s; rw [List.foldl_cons, ih, tv_map_uri]

theorem tallyList_view {env : Env} (t : Int) (P : Params) : ∀ (l : List String) (s s' : St),
    tallyList env l s = .ok s' → s.now = t → s.params = P →
    (s'.now = t ∧ s'.params = P) ∧ s'.items.map (·.uri) = s.items.map (·.uri) ∧
    ∀ v, BlkRel t (findItem s v) (findItem s' v) := by
  intro l
  induction l with
  | nil =>
    intro s s' h h1 h2
    simp only [tallyList, Res.ok.injEq] at h; subst h
    exact ⟨⟨h1, h2⟩, rfl, fun v => BlkRel.refl _ _⟩
  | cons u us ih =>
    intro s s' h h1 h2
    simp only [tallyList] at h
    obtain ⟨s1, e1, h⟩ := bind_ok h
    obtain ⟨a, b, _, _⟩ := tallyOne_core e1
    obtain ⟨c1, c2, c3⟩ := ih s1 s' h (a.trans h1) (b.trans h2)
    exact ⟨c1, c2.trans (tally_map_uri e1), fun v => BlkRel.trans (h1 ▸ tally_rel e1 v) (c3 v)⟩

/-! ### every due item is processed -/
theorem tv_fold_clears (c : Int) : ∀ (l : List String) (s : St),
    (∀ v it, findItem s v = some it → it.status = .cp → unix it.ts ≤ c → v ∈ l) →
    ∀ v it, findItem (l.foldl toVerifiedOne s) v = some it → it.status = .cp → ¬ unix it.ts ≤ c := by
  intro l
  induction l with
  | nil => intro s h v it hf hs hc; exact absurd (h v it hf hs hc) (by simp)
  | cons u us ih =>
    intro s h
    rw [List.foldl_cons]
    apply ih
    intro v it hf hs hc
    rw [findItem_tv] at hf
    by_cases hv : v = u
    · subst hv
      cases hf0 : findItem s v with
      | none => simp [hf0] at hf
      | some it0 =>
        simp only [hf0, if_true, Option.map_some, Option.some.injEq] at hf
        by_cases hs0 : it0.status = .cp
        · simp only [hs0, if_true] at hf; subst hf; cases hs
        · simp only [hs0, if_false] at hf; subst hf; exact absurd hs hs0
    · simp only [hv, if_false] at hf
      have := h v it hf hs hc
      simp only [List.mem_cons, hv, false_or] at this
      exact this

theorem tallyList_clears {env : Env} (c : Int) : ∀ (l : List String) (s s' : St),
    tallyList env l s = .ok s' →
    (∀ v it, findItem s v = some it → it.status = .ch → unix it.ts ≤ c → v ∈ l) →
    ∀ v it, findItem s' v = some it → it.status = .ch → ¬ unix it.ts ≤ c := by
  intro l
  induction l with
  | nil =>
    intro s s' e h v it hf hs hc
    simp only [tallyList, Res.ok.injEq] at e; subst e
    exact absurd (h v it hf hs hc) (by simp)
  | cons u us ih =>
    intro s s' e h
    simp only [tallyList] at e
    obtain ⟨s1, e1, e⟩ := bind_ok e
    apply ih s1 s' e
    intro v it hf hs hc
    obtain ⟨st', hst, hview⟩ := findItem_tally e1
    rw [hview] at hf
    by_cases hv : v = u
    · subst hv
      cases hf0 : findItem s v with
      | none => simp [hf0] at hf
      | some it0 =>
        simp only [hf0, if_true, Option.map_some, Option.some.injEq] at hf
        by_cases hs0 : it0.status = .ch
        · simp only [hs0, if_true] at hf; subst hf
          simp only at hs; subst hs; rcases hst with h' | h' <;> cases h'
        · simp only [hs0, if_false] at hf; subst hf; exact absurd hs hs0
    · simp only [hv, if_false] at hf
      have := h v it hf hs hc
      simp only [List.mem_cons, hv, false_or] at this
      exact this

/-! ### the end-blocker as a whole -/
theorem BlkRel.cp_inv {t : Int} {o : Option Item} {it : Item} (h : BlkRel t o (some it)) (hs : it.status = .cp) :
    o = some it := by
  rcases h with h | ⟨it0, st', rfl, hc, e⟩
  · exact h.symm
  · simp only [Option.some.injEq] at e; subst e
    simp only at hs; subst hs
    rcases hc with ⟨_, h' | h' | h'⟩ | ⟨_, h' | h'⟩ <;> cases h'

theorem endBlock_phases {env : Env} {s s' : St} {sl : List Addr} (h : endBlock env s = .ok (s', sl)) :
    ∃ s5, tally env (toVerified (toChallenging (prune (prune s .rej s.params.rrp) .ver s.params.vrp))) = .ok s5 ∧
      s'.items = s5.items ∧ s'.now = s5.now ∧ s'.params = s5.params := by
  unfold endBlock at h
  simp only [] at h
  obtain ⟨s5, e5, h⟩ := bind_ok h
  refine ⟨s5, e5, ?_⟩
  split at h
  · cases h
  · split at h
    · have e := Res.ok.inj h
      have e1 : s' = (slashEpoch env s5).1 := by rw [e]
      rw [e1]; exact ⟨rfl, rfl, rfl⟩
    · have e := Res.ok.inj h
      have e1 : s' = s5 := by rw [← (Prod.mk.inj e).1]
      rw [e1]; exact ⟨rfl, rfl, rfl⟩

/-- the three status phases (after pruning) at block time `t` -/
theorem status_phases {env : Env} {s2 s5 : St} (h : tally env (toVerified (toChallenging s2)) = .ok s5) :
    (s5.now = s2.now ∧ s5.params = s2.params) ∧ s5.items.map (·.uri) = s2.items.map (·.uri) ∧
    (∀ v, BlkRel s2.now (findItem s2 v) (findItem s5 v)) ∧
    ∀ v it, findItem s5 v = some it →
      (it.status = .cp → ¬ unix it.ts ≤ unix (s2.now - s2.params.cp)) ∧
      (it.status = .ch → ¬ unix it.ts ≤ unix (s2.now - s2.params.pp)) := by
  obtain ⟨i3, e3, u3⟩ := tc_fold_shape (indexScan s2 .cp none) s2
  have e3' : toChallenging s2 = { s2 with items := i3 } := e3
  have n3 : (toChallenging s2).now = s2.now := by rw [e3']
  have p3 : (toChallenging s2).params = s2.params := by rw [e3']
  have m3 : (toChallenging s2).items.map (·.uri) = s2.items.map (·.uri) := by rw [e3']; exact u3
  have r3 := toChallenging_view s2
  generalize toChallenging s2 = s3 at *
  unfold toVerified at h
  obtain ⟨⟨n4, p4⟩, r4⟩ := tv_fold_view s2.now s2.params
    (indexScan s3 .cp (some (unix (s3.now - s3.params.cp)))) s3 n3 p3
  have m4 := tv_fold_usub (indexScan s3 .cp (some (unix (s3.now - s3.params.cp)))) s3
  have c4 := tv_fold_clears (unix (s3.now - s3.params.cp))
    (indexScan s3 .cp (some (unix (s3.now - s3.params.cp)))) s3
    (fun v it hf hs hc => found_indexScan_some hf hs hc)
  generalize (indexScan s3 .cp (some (unix (s3.now - s3.params.cp)))).foldl toVerifiedOne s3 = s4 at *
  unfold tally at h
  obtain ⟨⟨n5, p5⟩, m5, r5⟩ := tallyList_view s2.now s2.params _ s4 s5 h n4 p4
  have c5 := tallyList_clears (unix (s4.now - s4.params.pp)) _ s4 s5 h
    (fun v it hf hs hc => found_indexScan_some hf hs hc)
  refine ⟨⟨n5, p5⟩, m5.trans (m4.trans m3), fun v => (r3 v).trans ((r4 v).trans (r5 v)), ?_⟩
  intro v it hf
  constructor
  · intro hs
    have := (r5 v); rw [hf] at this
    have h4 := this.cp_inv hs
    have := c4 v it h4 hs
    rwa [n3, p3] at this
  · intro hs
    have := c5 v it hf hs
    rwa [n4, p4] at this

theorem endBlock_usub {env : Env} {s s' : St} {sl : List Addr} (h : endBlock env s = .ok (s', sl)) : USub s' s := by
  obtain ⟨s5, e5, hi, _, _⟩ := endBlock_phases h
  obtain ⟨_, m, _, _⟩ := status_phases e5
  obtain ⟨i1, e1, sub1⟩ := prune_shape s .rej s.params.rrp
  obtain ⟨i2, e2, sub2⟩ := prune_shape (prune s .rej s.params.rrp) .ver s.params.vrp
  unfold USub
  rw [hi, m, e2]
  rw [e1] at sub2
  exact (sub2.trans sub1).map _

theorem endBlock_clears {env : Env} {s s' : St} {sl : List Addr} (h : endBlock env s = .ok (s', sl))
    (v : String) (it : Item) (hf : findItem s' v = some it) :
    (it.status = .cp → ¬ unix it.ts ≤ unix (s.now - s.params.cp)) ∧
    (it.status = .ch → ¬ unix it.ts ≤ unix (s.now - s.params.pp)) := by
  obtain ⟨s5, e5, hi, _, _⟩ := endBlock_phases h
  obtain ⟨_, _, _, c⟩ := status_phases e5
  obtain ⟨i1, e1, sub1⟩ := prune_shape s .rej s.params.rrp
  obtain ⟨i2, e2, sub2⟩ := prune_shape (prune s .rej s.params.rrp) .ver s.params.vrp
  have hf5 : findItem s5 v = some it := by rw [findItem_eq, ← hi]; exact hf
  have := c v it hf5
  rw [e2, e1] at this
  exact this

theorem endBlock_view {env : Env} {s s' : St} {sl : List Addr} (h : endBlock env s = .ok (s', sl))
    (hnd : UNodup s) (v : String) :
    BlkRel s.now (findItem s v) (findItem s' v) ∨
    (findItem s' v = none ∧ ∃ it, findItem s v = some it ∧
      ((it.status = .rej ∧ unix it.ts ≤ unix (s.now - s.params.rrp)) ∨
       (it.status = .ver ∧ unix it.ts ≤ unix (s.now - s.params.vrp)))) := by
  obtain ⟨s5, e5, hi, _, _⟩ := endBlock_phases h
  have hf5 : findItem s' v = findItem s5 v := by rw [findItem_eq, hi]; rfl
  rw [hf5]
  obtain ⟨_, _, r, _⟩ := status_phases e5
  obtain ⟨i1, e1, sub1⟩ := prune_shape s .rej s.params.rrp
  have hnd1 : UNodup (prune s .rej s.params.rrp) := by
    unfold UNodup; rw [e1]; exact List.Nodup.sublist (sub1.map _) hnd
  have n1 : (prune s .rej s.params.rrp).now = s.now := by rw [e1]
  obtain ⟨pr1, po1⟩ := prune_view s .rej s.params.rrp v
  generalize prune s .rej s.params.rrp = s1 at *
  obtain ⟨i2, e2, sub2⟩ := prune_shape s1 .ver s.params.vrp
  have n2 : (prune s1 .ver s.params.vrp).now = s.now := by rw [e2]; exact n1
  obtain ⟨pr2, po2⟩ := prune_view s1 .ver s.params.vrp v
  generalize prune s1 .ver s.params.vrp = s2 at *
  have r := r v
  rw [n2] at r
  rcases pr1 with e | ⟨e, it, hit, hs⟩
  · rcases pr2 with e' | ⟨e', it, hit, hs⟩
    · left; rw [e', e] at r; exact r
    · right
      rw [e'] at r
      refine ⟨r.none, ?_⟩
      have hm : v ∈ indexScan s1 .ver (some (unix (s1.now - s.params.vrp))) := by
        apply Classical.byContradiction; intro hc
        have := po2 hc; rw [e', hit] at this; cases this
      obtain ⟨it0, h0, hs0, hc0⟩ := indexScan_found hnd1 hm
      rw [hit] at h0; cases h0
      rw [n1] at hc0
      exact ⟨it, e ▸ hit, Or.inr ⟨hs, hc0⟩⟩
  · right
    rw [e] at pr2
    rw [pr2.none] at r
    refine ⟨r.none, ?_⟩
    have hm : v ∈ indexScan s .rej (some (unix (s.now - s.params.rrp))) := by
      apply Classical.byContradiction; intro hc
      have := po1 hc; rw [e, hit] at this; cases this
    obtain ⟨it0, h0, hs0, hc0⟩ := indexScan_found hnd hm
    rw [hit] at h0; cases h0
    exact ⟨it, hit, Or.inl ⟨hs, hc0⟩⟩

/-! ### messages -/
theorem checkProofs_ok_iff (n : Nat) (ixs : List (Int × PFlag)) :
    (checkProofs n ixs).isOk = true ↔ ∀ jf ∈ ixs, jf.2 = .good ∧ 0 ≤ jf.1 ∧ jf.1 < (n : Int) := by
  induction ixs with
  | nil => simp [checkProofs, Res.isOk]
  | cons x xs ih =>
    obtain ⟨j, f⟩ := x
    unfold checkProofs
    simp only [List.mem_cons, forall_eq_or_imp]
    cases f with
    | malformed => simp [Res.isOk]
    | bad =>
      by_cases hr : j < 0 ∨ (n : Int) ≤ j <;> simp [Res.isOk, hr]
    | good =>
      by_cases hr : j < 0 ∨ (n : Int) ≤ j
      · simp only [hr, if_true, reduceCtorEq, if_false, Res.isOk, Bool.false_eq_true, false_iff, not_and]
        intro h; omega
      · simp only [hr, if_false, reduceCtorEq, ih, true_and]
        constructor
        · intro h; exact ⟨by omega, h⟩
        · intro h; exact h.2

theorem nodup_insertBy (items : List Item) (it : Item) (hn : (items.map (·.uri)).Nodup)
    (hni : it.uri ∉ items.map (·.uri)) : ((insertBy itemLt it items).map (·.uri)).Nodup := by
  induction items with
  | nil => simp [insertBy]
  | cons y ys ih =>
    unfold insertBy
    by_cases h : itemLt it y = true
    · simp only [h, if_true]
      rw [List.map_cons, List.nodup_cons]; exact ⟨hni, hn⟩
    · simp only [h, if_false, Bool.false_eq_true]
      rw [List.map_cons, List.nodup_cons] at hn ⊢
      simp only [List.map_cons, List.mem_cons, not_or] at hni
      refine ⟨?_, ih hn.2 hni.2⟩
      intro hm
      obtain ⟨z, hz, e⟩ := List.mem_map.1 hm
      rcases (mem_insertBy itemLt it z ys).1 hz with rfl | hz
      · exact hni.1 e
      · exact hn.1 (List.mem_map.2 ⟨z, hz, e⟩)

/-! ### to-challenging happens at the first block end -/
theorem tc_fold_stable {u : String} {it : Item} (hs : it.status ≠ .cp) : ∀ (l : List String) (s : St),
    findItem s u = some it → findItem (l.foldl toChallengingOne s) u = some it := by
  intro l
  induction l with
  | nil => intro s h; exact h
  | cons w ws ih =>
    intro s h
    rw [List.foldl_cons]
    apply ih
    rw [findItem_tc]
    by_cases hw : u = w
    · subst hw; simp [h, hs]
    · simp [hw, h]

theorem tc_fold_fires {u : String} {it : Item} (hs : it.status = .cp) : ∀ (l : List String) (s : St),
    u ∈ l → findItem s u = some it → tcFires s u it →
    findItem (l.foldl toChallengingOne s) u = some { it with status := .ch, ts := s.now } := by
  intro l
  induction l with
  | nil => intro s hm; cases hm
  | cons w ws ih =>
    intro s hm h hf
    rw [List.foldl_cons]
    by_cases hw : u = w
    · subst hw
      apply tc_fold_stable (by simp) ws
      rw [findItem_tc]; simp [h, hs, hf]
    · have hm' : u ∈ ws := by
        rcases List.mem_cons.1 hm with e | e
        · exact absurd e hw
        · exact e
      obtain ⟨i, e, _⟩ := tc_shape s w
      have h1 : findItem (toChallengingOne s w) u = some it := by rw [findItem_tc]; simp [hw, h]
      have h2 : tcFires (toChallengingOne s w) u it := by rw [e]; exact hf
      have := ih (toChallengingOne s w) hm' h1 h2
      rw [this, e]

/-! ### messages and items -/
theorem isOk_bind_ok {α β} (r : Res α) (f : α → β) : (r.bind fun a => Res.ok (f a)).isOk = r.isOk := by
  cases r <;> rfl

theorem isOk_iff {α} {r : Res α} : r.isOk = true ↔ ∃ a, r = .ok a := by
  cases r <;> simp [Res.isOk]

/-- the item created by `publish` -/
def newItem (s : St) (a : Addr) (u : String) (n p : Nat) : Item :=
  { uri := u, status := .cp, ts := s.now, publisher := a, shards := n, parity := p,
    pubColl := s.params.pub, invColl := s.params.inv }

theorem publish_ok {s s' : St} {a : Addr} {u : String} {n p : Nat} (h : publish s a u n p = .ok s') :
    p < n ∧ findItem s u = none ∧ s'.items = insertBy itemLt (newItem s a u n p) s.items := by
  unfold publish at h
  by_cases h1 : p ≥ n
  · simp [h1] at h
  · simp only [h1, if_false] at h
    cases hf : findItem s u with
    | some it => simp [hf] at h
    | none =>
      simp only [hf, Option.isSome_none, Bool.false_eq_true, if_false] at h
      refine ⟨by omega, rfl, ?_⟩
      split at h
      · obtain ⟨b, _, h⟩ := bind_ok h
        simp only [Res.ok.injEq] at h; subst h; rfl
      · simp only [Res.ok.injEq] at h; subst h; rfl

theorem submitInvalidity_ok {s s' : St} {a : Addr} {u : String} {ix : List Int}
    (h : submitInvalidity s a u ix = .ok s') : s'.items = s.items := by
  unfold submitInvalidity at h
  split at h
  · cases h
  · split at h
    · cases h
    · split at h
      · cases h
      · split at h
        · cases h
        · split at h
          · cases h
          · simp only [] at h
            split at h
            · obtain ⟨b, _, h⟩ := bind_ok h
              simp only [Res.ok.injEq] at h; subst h; rfl
            · simp only [Res.ok.injEq] at h; subst h; rfl

theorem submitProof_ok {s s' : St} {a v : Addr} {u : String} {ixs : List (Int × PFlag)} {e x b : Bool}
    (h : submitProof s a v u ixs e x b = .ok s') : s'.items = s.items := by
  unfold submitProof at h
  split at h
  · cases h
  · split at h
    · cases h
    · simp only [] at h
      split at h
      · cases h
      · split at h
        · cases h
        · split at h
          · cases h
          · split at h
            · cases h
            · split at h
              · cases h
              · obtain ⟨_, _, h⟩ := bind_ok h
                simp only [Res.ok.injEq] at h; subst h; rfl

/-- a message leaves the item list alone, or is a successful publish of a fresh uri -/
theorem step_msg_items (s : St) (op : Op) (hnb : ∀ env dt, op ≠ .block env dt) :
    (step s op).1.items = s.items ∨
    ∃ a u n p, op = .publish a u n p ∧ p < n ∧ findItem s u = none ∧
      (step s op).1.items = insertBy itemLt (newItem s a u n p) s.items := by
  cases op with
  | publish a u n p =>
    simp only [step]
    cases h : publish s a u n p with
    | ok s' =>
      obtain ⟨h1, h2, h3⟩ := publish_ok h
      exact Or.inr ⟨a, u, n, p, rfl, h1, h2, h3⟩
    | err c => exact Or.inl rfl
    | panic k => exact Or.inl rfl
  | invalid a u ix =>
    simp only [step]
    cases h : submitInvalidity s a u ix with
    | ok s' => exact Or.inl (submitInvalidity_ok h)
    | err c => exact Or.inl rfl
    | panic k => exact Or.inl rfl
  | proof a v u ixs e x b =>
    simp only [step]
    cases h : submitProof s a v u ixs e x b with
    | ok s' => exact Or.inl (submitProof_ok h)
    | err c => exact Or.inl rfl
    | panic k => exact Or.inl rfl
  | regdep a d => exact Or.inl rfl
  | unregdep a =>
    simp only [step]
    unfold unregisterDeputy
    cases s.deps.lookup a <;> exact Or.inl rfl
  | setParams p =>
    simp only [step]
    unfold updateParams
    by_cases hv : p.valid = true <;> simp only [hv, if_true, if_false, Bool.false_eq_true] <;> exact Or.inl rfl
  | block env dt => exact absurd rfl (hnb env dt)

theorem endBlock_now_params {env : Env} {s s' : St} {sl : List Addr} (h : endBlock env s = .ok (s', sl)) :
    s'.now = s.now ∧ s'.params = s.params := by
  obtain ⟨s5, e5, _, hn, hp⟩ := endBlock_phases h
  obtain ⟨⟨n5, p5⟩, _, _, _⟩ := status_phases e5
  obtain ⟨i1, e1, _⟩ := prune_shape s .rej s.params.rrp
  obtain ⟨i2, e2, _⟩ := prune_shape (prune s .rej s.params.rrp) .ver s.params.vrp
  rw [e2, e1] at n5 p5
  exact ⟨hn.trans n5, hp.trans p5⟩

theorem status_phases_tail {env : Env} {s3 s5 : St} (h : tally env (toVerified s3) = .ok s5) (v : String) :
    BlkRel s3.now (findItem s3 v) (findItem s5 v) := by
  unfold toVerified at h
  obtain ⟨⟨n4, p4⟩, r4⟩ := tv_fold_view s3.now s3.params
    (indexScan s3 .cp (some (unix (s3.now - s3.params.cp)))) s3 rfl rfl
  generalize (indexScan s3 .cp (some (unix (s3.now - s3.params.cp)))).foldl toVerifiedOne s3 = s4 at *
  unfold tally at h
  obtain ⟨_, _, r5⟩ := tallyList_view s3.now s3.params _ s4 s5 h n4 p4
  exact (r4 v).trans (r5 v)

/-- an item in its challenge period that meets the threshold at a block end leaves the challenge period in that
    very end-block, stamped with the block time -/
theorem endBlock_challenged {env : Env} {s s' : St} {sl : List Addr} (h : endBlock env s = .ok (s', sl))
    {u : String} {it : Item} (hf : findItem s u = some it) (hs : it.status = .cp) (hc : tcFires s u it) :
    ∃ st', (st' = Status.ch ∨ st' = Status.ver ∨ st' = Status.rej) ∧
      findItem s' u = some { it with status := st', ts := s.now } := by
  obtain ⟨s5, e5, hi, _, _⟩ := endBlock_phases h
  have hf5 : findItem s' u = findItem s5 u := by rw [findItem_eq, hi]; rfl
  rw [hf5]
  obtain ⟨i1, e1, _⟩ := prune_shape s .rej s.params.rrp
  obtain ⟨pr1, _⟩ := prune_view s .rej s.params.rrp u
  have hf1 : findItem (prune s .rej s.params.rrp) u = some it := by
    rcases pr1 with e | ⟨_, it0, e0, hs0⟩
    · rw [e]; exact hf
    · rw [hf] at e0; cases e0; rw [hs] at hs0; cases hs0
  have hc1 : tcFires (prune s .rej s.params.rrp) u it := by rw [e1]; exact hc
  have n1 : (prune s .rej s.params.rrp).now = s.now := by rw [e1]
  generalize prune s .rej s.params.rrp = s1 at *
  obtain ⟨i2, e2, _⟩ := prune_shape s1 .ver s.params.vrp
  obtain ⟨pr2, _⟩ := prune_view s1 .ver s.params.vrp u
  have hf2 : findItem (prune s1 .ver s.params.vrp) u = some it := by
    rcases pr2 with e | ⟨_, it0, e0, hs0⟩
    · rw [e]; exact hf1
    · rw [hf1] at e0; cases e0; rw [hs] at hs0; cases hs0
  have hc2 : tcFires (prune s1 .ver s.params.vrp) u it := by rw [e2]; exact hc1
  have n2 : (prune s1 .ver s.params.vrp).now = s.now := by rw [e2]; exact n1
  generalize prune s1 .ver s.params.vrp = s2 at *
  have hf3 : findItem (toChallenging s2) u = some { it with status := .ch, ts := s2.now } :=
    tc_fold_fires hs _ s2 (found_indexScan_none hf2 hs) hf2 hc2
  obtain ⟨i3, e3, _⟩ := tc_fold_shape (indexScan s2 .cp none) s2
  have n3 : (toChallenging s2).now = s.now := by
    have : toChallenging s2 = { s2 with items := i3 } := e3
    rw [this]; exact n2
  have r := status_phases_tail e5 u
  rw [hf3, n3, n2] at r
  rcases r with e | ⟨it0, st', e0, hc0, e'⟩
  · exact ⟨.ch, Or.inl rfl, e⟩
  · simp only [Option.some.injEq] at e0; subst e0
    refine ⟨st', ?_, e'⟩
    rcases hc0 with ⟨h1, _⟩ | ⟨_, h2⟩
    · cases h1
    · rcases h2 with e | e
      · exact Or.inr (Or.inl e)
      · exact Or.inr (Or.inr e)

end Sunrise.DA
