import SunriseVerif.Model.DA
/-!
Helper lemmas for Props/C09 (x/da tally and slash epoch): association-list facts about `subAdd` /
`buildSubmitted`, `safeIndices`, `faultSet`, the fault-counter fold, `tallyOne` frame facts and the
`slashOne` fold.  Core only.
-/
set_option linter.unusedSimpArgs false
set_option linter.unusedVariables false
namespace Sunrise.DA
open Sunrise

/-! ### addSet -/
theorem mem_addSet (acc : List Addr) (v a : Addr) : a ∈ addSet acc v ↔ a ∈ acc ∨ a = v := by
  unfold addSet
  by_cases h : acc.contains v = true
  · rw [if_pos h]
    have hv : v ∈ acc := List.contains_iff_mem.mp h
    constructor
    · intro ha; exact Or.inl ha
    · intro ha; cases ha with
      | inl h1 => exact h1
      | inr h1 => exact h1 ▸ hv
  · rw [if_neg h]; simp

theorem nodup_addSet (acc : List Addr) (v : Addr) (h : acc.Nodup) : (addSet acc v).Nodup := by
  unfold addSet
  by_cases hc : acc.contains v = true
  · rw [if_pos hc]; exact h
  · rw [if_neg hc]
    have hv : v ∉ acc := fun hm => hc (List.contains_iff_mem.mpr hm)
    rw [List.nodup_append]
    refine ⟨h, by simp, ?_⟩
    intro a ha b hb
    simp at hb
    subst hb
    intro e; exact hv (e ▸ ha)

theorem addSet_ne_nil (acc : List Addr) (v : Addr) : addSet acc v ≠ [] := by
  intro h
  have : v ∈ addSet acc v := (mem_addSet acc v v).mpr (Or.inr rfl)
  rw [h] at this
  simp at this

/-! ### subAdd / subLookup -/
def keys (m : Submitted) : List Int := m.map (·.1)

theorem lookup_map_upd (m : Submitted) (i j : Int) (g : List Addr → List Addr) :
    (m.map (fun e => if e.1 == i then (e.1, g e.2) else e)).lookup j
      = if j = i then (m.lookup j).map g else m.lookup j := by
  induction m with
  | nil => simp
  | cons e t ih =>
    obtain ⟨k, ss⟩ := e
    simp only [List.map_cons]
    by_cases hki : k = i
    · subst hki
      by_cases hjk : j = k
      · subst hjk; simp [List.lookup_cons]
      · have : (j == k) = false := by simp [hjk]
        simpa [List.lookup_cons, this, hjk] using ih
    · have hki' : (k == i) = false := by simp [hki]
      simp only [hki', Bool.false_eq_true, if_false]
      by_cases hjk : j = k
      · subst hjk; simp [List.lookup_cons, hki]
      · have : (j == k) = false := by simp [hjk]
        simp only [List.lookup_cons, this]
        exact ih

theorem subLookup_subAdd (m : Submitted) (s : Addr) (i j : Int) :
    subLookup (subAdd m s i) j = if j = i then addSet (subLookup m i) s else subLookup m j := by
  unfold subAdd subLookup
  cases hl : m.lookup i with
  | none =>
    simp only [List.lookup_append]
    by_cases hji : j = i
    · subst hji; simp [hl, addSet, List.lookup_cons]
    · have : (j == i) = false := by simp [hji]
      simp [hji, List.lookup_cons, this]
  | some ss =>
    simp only [Option.getD_some]
    by_cases hc : ss.contains s = true
    · rw [if_pos hc]
      by_cases hji : j = i
      · subst hji; simp only [hl, addSet, Option.getD_some, if_true, if_pos hc]
      · simp [hji]
    · rw [if_neg hc]
      rw [lookup_map_upd m i j (fun l => l ++ [s])]
      by_cases hji : j = i
      · subst hji; simp only [hl, addSet, Option.getD_some, if_true, if_neg hc, Option.map_some]
      · simp [hji]

theorem mem_keys_iff_lookup (m : Submitted) (i : Int) : i ∈ keys m ↔ m.lookup i ≠ none := by
  unfold keys
  induction m with
  | nil => simp
  | cons e t ih =>
    obtain ⟨k, ss⟩ := e
    by_cases hik : i = k
    · subst hik; simp [List.lookup_cons]
    · have : (i == k) = false := by simp [hik]
      simp only [List.map_cons, List.mem_cons, hik, false_or, List.lookup_cons, this]
      exact ih

theorem keys_subAdd (m : Submitted) (s : Addr) (i : Int) :
    keys (subAdd m s i) = if i ∈ keys m then keys m else keys m ++ [i] := by
  unfold subAdd
  cases hl : m.lookup i with
  | none =>
    have : i ∉ keys m := by rw [mem_keys_iff_lookup]; simp [hl]
    rw [if_neg this]; simp [keys]
  | some ss =>
    have : i ∈ keys m := by rw [mem_keys_iff_lookup]; simp [hl]
    rw [if_pos this]
    dsimp only
    by_cases hc : ss.contains s = true
    · rw [if_pos hc]
    · rw [if_neg hc]
      unfold keys
      rw [List.map_map]
      apply List.map_congr_left
      intro e he
      simp only [Function.comp]
      by_cases h : (e.1 == i) = true
      · rw [if_pos h]
      · rw [if_neg h]

theorem nodup_keys_subAdd (m : Submitted) (s : Addr) (i : Int) (h : (keys m).Nodup) :
    (keys (subAdd m s i)).Nodup := by
  rw [keys_subAdd]
  by_cases hi : i ∈ keys m
  · simp [hi, h]
  · simp only [hi, if_false]
    rw [List.nodup_append]
    refine ⟨h, by simp, ?_⟩
    intro a ha b hb
    simp at hb; subst hb
    intro e; exact hi (e ▸ ha)

/-- accumulator invariant of the `buildSubmitted` fold -/
structure SubInv (m : Submitted) : Prop where
  keysNodup : (keys m).Nodup
  valNodup : ∀ i, (subLookup m i).Nodup
  nonempty : ∀ i, i ∈ keys m → subLookup m i ≠ []

theorem SubInv.nil : SubInv [] := ⟨by simp [keys], by simp [subLookup], by simp [keys]⟩

theorem SubInv.subAdd {m : Submitted} (h : SubInv m) (s : Addr) (i : Int) : SubInv (subAdd m s i) := by
  refine ⟨nodup_keys_subAdd m s i h.keysNodup, ?_, ?_⟩
  · intro j
    rw [subLookup_subAdd]
    by_cases hji : j = i
    · simp only [hji, if_true]; exact nodup_addSet _ _ (h.valNodup i)
    · simp only [hji, if_false]; exact h.valNodup j
  · intro j hj
    rw [subLookup_subAdd]
    by_cases hji : j = i
    · simp only [hji, if_true]; exact addSet_ne_nil _ _
    · simp only [hji, if_false]
      apply h.nonempty
      rw [keys_subAdd] at hj
      by_cases hi : i ∈ keys m
      · simpa [hi] using hj
      · simp only [hi, if_false, List.mem_append, List.mem_singleton] at hj
        cases hj with
        | inl h1 => exact h1
        | inr h1 => exact absurd h1 hji

/-- inner fold: one proof's indices -/
def addProof (m : Submitted) (p : Proof) : Submitted := p.indices.foldl (fun m i => subAdd m p.sender i) m

theorem buildSubmitted_eq (ps : List Proof) : buildSubmitted ps = ps.foldl addProof [] := rfl

theorem foldIdx_spec (s : Addr) (ixs : List Int) (m : Submitted) :
    (∀ j v, v ∈ subLookup (ixs.foldl (fun m i => subAdd m s i) m) j ↔ v ∈ subLookup m j ∨ (v = s ∧ j ∈ ixs))
    ∧ (∀ j, j ∈ keys (ixs.foldl (fun m i => subAdd m s i) m) ↔ j ∈ keys m ∨ j ∈ ixs)
    ∧ (SubInv m → SubInv (ixs.foldl (fun m i => subAdd m s i) m)) := by
  induction ixs generalizing m with
  | nil => simp
  | cons i t ih =>
    obtain ⟨h1, h2, h3⟩ := ih (subAdd m s i)
    simp only [List.foldl_cons]
    refine ⟨?_, ?_, fun hm => h3 (hm.subAdd s i)⟩
    · intro j v
      rw [h1, subLookup_subAdd]
      by_cases hji : j = i
      · subst hji
        simp only [if_true, mem_addSet, List.mem_cons, true_or, and_true]
        constructor
        · rintro ((h | h) | h)
          · exact Or.inl h
          · exact Or.inr h
          · exact Or.inr h.1
        · rintro (h | h)
          · exact Or.inl (Or.inl h)
          · exact Or.inl (Or.inr h)
      · simp only [hji, if_false, List.mem_cons, false_or]
    · intro j
      rw [h2, keys_subAdd]
      by_cases hi : i ∈ keys m
      · simp only [hi, if_true, List.mem_cons]
        constructor
        · rintro (h | h)
          · exact Or.inl h
          · exact Or.inr (Or.inr h)
        · rintro (h | h | h)
          · exact Or.inl h
          · exact Or.inl (h ▸ hi)
          · exact Or.inr h
      · simp only [hi, if_false, List.mem_append, List.mem_cons, List.not_mem_nil, or_false]
        constructor
        · rintro ((h | h) | h)
          · exact Or.inl h
          · exact Or.inr (Or.inl h)
          · exact Or.inr (Or.inr h)
        · rintro (h | h | h)
          · exact Or.inl (Or.inl h)
          · exact Or.inl (Or.inr h)
          · exact Or.inr h

theorem foldProofs_spec (ps : List Proof) (m : Submitted) :
    (∀ j v, v ∈ subLookup (ps.foldl addProof m) j ↔ v ∈ subLookup m j ∨ ∃ p ∈ ps, p.sender = v ∧ j ∈ p.indices)
    ∧ (∀ j, j ∈ keys (ps.foldl addProof m) ↔ j ∈ keys m ∨ ∃ p ∈ ps, j ∈ p.indices)
    ∧ (SubInv m → SubInv (ps.foldl addProof m)) := by
  induction ps generalizing m with
  | nil => simp
  | cons p t ih =>
    obtain ⟨h1, h2, h3⟩ := ih (addProof m p)
    obtain ⟨g1, g2, g3⟩ := foldIdx_spec p.sender p.indices m
    simp only [List.foldl_cons]
    refine ⟨?_, ?_, fun hm => h3 (g3 hm)⟩
    · intro j v
      rw [h1]; unfold addProof; rw [g1]
      simp only [List.mem_cons, exists_eq_or_imp]
      constructor
      · rintro ((h | h) | h)
        · exact Or.inl h
        · exact Or.inr (Or.inl ⟨h.1.symm, h.2⟩)
        · exact Or.inr (Or.inr h)
      · rintro (h | h | h)
        · exact Or.inl (Or.inl h)
        · exact Or.inl (Or.inr ⟨h.1.symm, h.2⟩)
        · exact Or.inr h
    · intro j
      rw [h2]; unfold addProof; rw [g2]
      simp only [List.mem_cons, exists_eq_or_imp]
      constructor
      · rintro ((h | h) | h)
        · exact Or.inl h
        · exact Or.inr (Or.inl h)
        · exact Or.inr (Or.inr h)
      · rintro (h | h | h)
        · exact Or.inl (Or.inl h)
        · exact Or.inl (Or.inr h)
        · exact Or.inr h

theorem subInv_build (ps : List Proof) : SubInv (buildSubmitted ps) :=
  (foldProofs_spec ps []).2.2 SubInv.nil

theorem mem_subLookup_build (ps : List Proof) (i : Int) (v : Addr) :
    v ∈ subLookup (buildSubmitted ps) i ↔ ∃ p ∈ ps, p.sender = v ∧ i ∈ p.indices := by
  rw [buildSubmitted_eq, (foldProofs_spec ps []).1]
  simp [subLookup]

theorem mem_keys_build (ps : List Proof) (i : Int) :
    i ∈ keys (buildSubmitted ps) ↔ ∃ p ∈ ps, i ∈ p.indices := by
  rw [buildSubmitted_eq, (foldProofs_spec ps []).2.1]
  simp [keys]

/-! ### safeIndices -/
theorem lookup_of_mem_nodup (m : Submitted) (h : (keys m).Nodup) (e : Int × List Addr) (he : e ∈ m) :
    m.lookup e.1 = some e.2 := by
  induction m with
  | nil => simp at he
  | cons x t ih =>
    obtain ⟨k, ss⟩ := x
    simp only [keys, List.map_cons, List.nodup_cons] at h
    cases List.mem_cons.mp he with
    | inl h1 => subst h1; simp [List.lookup_cons]
    | inr h1 =>
      have hne : e.1 ≠ k := by
        intro e1
        apply h.1
        rw [← e1]
        exact List.mem_map.mpr ⟨e, h1, rfl⟩
      have : (e.1 == k) = false := by simp [hne]
      simp only [List.lookup_cons, this]
      exact ih h.2 h1

theorem mem_of_lookup (m : Submitted) (i : Int) (ss : List Addr) (h : m.lookup i = some ss) : (i, ss) ∈ m := by
  induction m with
  | nil => simp at h
  | cons x t ih =>
    obtain ⟨k, s2⟩ := x
    by_cases hik : i = k
    · subst hik; simp [List.lookup_cons] at h; simp [h]
    · have : (i == k) = false := by simp [hik]
      simp only [List.lookup_cons, this] at h
      exact List.mem_cons_of_mem _ (ih h)

theorem mem_safeIndices (m : Submitted) (hk : (keys m).Nodup) (x : Int) (i : Int) :
    i ∈ safeIndices m x ↔ i ∈ keys m ∧ x ≤ ((subLookup m i).length : Int) * PREC := by
  unfold safeIndices
  simp only [List.mem_map, List.mem_filter, decide_eq_true_eq]
  constructor
  · rintro ⟨e, ⟨he, hx⟩, rfl⟩
    refine ⟨List.mem_map.mpr ⟨e, he, rfl⟩, ?_⟩
    simp only [subLookup, lookup_of_mem_nodup m hk e he, Option.getD_some]
    exact hx
  · rintro ⟨hi, hx⟩
    rw [mem_keys_iff_lookup] at hi
    cases hl : m.lookup i with
    | none => exact absurd hl hi
    | some ss =>
      refine ⟨(i, ss), ⟨mem_of_lookup m i ss hl, ?_⟩, rfl⟩
      simpa [subLookup, hl] using hx

theorem nodup_safeIndices (m : Submitted) (hk : (keys m).Nodup) (x : Int) : (safeIndices m x).Nodup := by
  unfold safeIndices
  exact List.Nodup.sublist (List.Sublist.map _ List.filter_sublist) hk

/-- two duplicate-free lists with the same members have the same length -/
theorem length_eq_of_nodup_of_mem_iff {α} {l l' : List α} (h : l.Nodup) (h' : l'.Nodup)
    (hm : ∀ a, a ∈ l ↔ a ∈ l') : l.length = l'.length :=
  ((List.perm_ext_iff_of_nodup h h').mpr hm).length_eq

/-! ### faultSet -/
theorem faultInner_fold (m : Submitted) (i : Int) (vs : List Addr) (acc : List Addr) :
    (∀ a, a ∈ vs.foldl (fun acc v => if (subLookup m i).contains v then acc else addSet acc v) acc
        ↔ a ∈ acc ∨ (a ∈ vs ∧ a ∉ subLookup m i))
    ∧ (acc.Nodup → (vs.foldl (fun acc v => if (subLookup m i).contains v then acc else addSet acc v) acc).Nodup) := by
  induction vs generalizing acc with
  | nil => simp
  | cons v t ih =>
    simp only [List.foldl_cons]
    by_cases hc : (subLookup m i).contains v = true
    · have hv : v ∈ subLookup m i := List.contains_iff_mem.mp hc
      rw [if_pos hc]
      obtain ⟨h1, h2⟩ := ih acc
      refine ⟨?_, h2⟩
      intro a
      rw [h1]
      simp only [List.mem_cons]
      constructor
      · rintro (h | h)
        · exact Or.inl h
        · exact Or.inr ⟨Or.inr h.1, h.2⟩
      · rintro (h | ⟨h | h, hn⟩)
        · exact Or.inl h
        · exact absurd (h ▸ hv) hn
        · exact Or.inr ⟨h, hn⟩
    · have hv : v ∉ subLookup m i := fun hm => hc (List.contains_iff_mem.mpr hm)
      rw [if_neg hc]
      obtain ⟨h1, h2⟩ := ih (addSet acc v)
      refine ⟨?_, fun hn => h2 (nodup_addSet _ _ hn)⟩
      intro a
      rw [h1, mem_addSet]
      simp only [List.mem_cons]
      constructor
      · rintro ((h | h) | h)
        · exact Or.inl h
        · exact Or.inr ⟨Or.inl h, h ▸ hv⟩
        · exact Or.inr ⟨Or.inr h.1, h.2⟩
      · rintro (h | ⟨h | h, hn⟩)
        · exact Or.inl (Or.inl h)
        · exact Or.inl (Or.inr h)
        · exact Or.inr ⟨h, hn⟩

theorem faultOuter_fold (safe : List Int) (active : List Addr) (assign : Addr → List Int) (m : Submitted)
    (acc : List Addr) :
    (∀ a, a ∈ safe.foldl (fun acc i =>
            (active.filter (fun v => (assign v).contains i)).foldl
              (fun acc v => if (subLookup m i).contains v then acc else addSet acc v) acc) acc
        ↔ a ∈ acc ∨ ∃ i ∈ safe, a ∈ active ∧ i ∈ assign a ∧ a ∉ subLookup m i)
    ∧ (acc.Nodup → (safe.foldl (fun acc i =>
            (active.filter (fun v => (assign v).contains i)).foldl
              (fun acc v => if (subLookup m i).contains v then acc else addSet acc v) acc) acc).Nodup) := by
  induction safe generalizing acc with
  | nil => simp
  | cons i t ih =>
    simp only [List.foldl_cons]
    obtain ⟨g1, g2⟩ := faultInner_fold m i (active.filter (fun v => (assign v).contains i)) acc
    obtain ⟨h1, h2⟩ := ih ((active.filter (fun v => (assign v).contains i)).foldl
              (fun acc v => if (subLookup m i).contains v then acc else addSet acc v) acc)
    refine ⟨?_, fun hn => h2 (g2 hn)⟩
    intro a
    rw [h1, g1]
    simp only [List.mem_filter, List.contains_iff_mem, List.mem_cons, exists_eq_or_imp]
    constructor
    · rintro ((h | h) | h)
      · exact Or.inl h
      · exact Or.inr (Or.inl ⟨h.1.1, h.1.2, h.2⟩)
      · exact Or.inr (Or.inr h)
    · rintro (h | h | h)
      · exact Or.inl (Or.inl h)
      · exact Or.inl (Or.inr ⟨⟨h.1, h.2.1⟩, h.2.2⟩)
      · exact Or.inr h

theorem mem_faultSet (safe : List Int) (active : List Addr) (assign : Addr → List Int) (m : Submitted) (a : Addr) :
    a ∈ faultSet safe active assign m ↔ ∃ i ∈ safe, a ∈ active ∧ i ∈ assign a ∧ a ∉ subLookup m i := by
  unfold faultSet
  rw [(faultOuter_fold safe active assign m []).1]
  simp

theorem nodup_faultSet (safe : List Int) (active : List Addr) (assign : Addr → List Int) (m : Submitted) :
    (faultSet safe active assign m).Nodup := by
  unfold faultSet
  exact (faultOuter_fold safe active assign m []).2 (by simp)

/-! ### fault counters -/
theorem incFault_foldl (l : List Addr) (f : Addr → Option Nat) (a : Addr) :
    (l.foldl incFault f) a = if a ∈ l then some ((f a).getD 0 + l.count a) else f a := by
  induction l generalizing f with
  | nil => simp
  | cons v t ih =>
    simp only [List.foldl_cons]
    rw [ih]
    by_cases hav : a = v
    · subst hav
      have e : incFault f a a = some ((f a).getD 0 + 1) := by simp [incFault]
      by_cases hat : a ∈ t
      · simp [hat, e, List.count_cons]; omega
      · simp [hat, e, List.count_cons, List.count_eq_zero_of_not_mem hat]
    · have hva : ¬ (v = a) := fun e => hav e.symm
      have e : incFault f v a = f a := by simp [incFault, hav]
      simp [hav, hva, e, List.count_cons]

theorem incFault_foldl_perm {l l' : List Addr} (h : l.Perm l') (f : Addr → Option Nat) :
    l.foldl incFault f = l'.foldl incFault f := by
  funext a
  rw [incFault_foldl, incFault_foldl, h.count_eq a]
  simp only [h.mem_iff]

theorem applyFaults_flatten (sets : List (List Addr)) (f : Addr → Option Nat) :
    sets.foldl (fun f l => l.foldl incFault f) f = sets.flatten.foldl incFault f :=
  List.foldl_flatten.symm

theorem applyFaults_raw_perm {sets sets' : List (List Addr)} (h : sets.Perm sets') (f : Addr → Option Nat) :
    sets.foldl (fun f l => l.foldl incFault f) f = sets'.foldl (fun f l => l.foldl incFault f) f := by
  rw [applyFaults_flatten, applyFaults_flatten]
  exact incFault_foldl_perm h.flatten f

theorem applyFaults_raw_count (sets : List (List Addr)) (f : Addr → Option Nat) (a : Addr) :
    (sets.foldl (fun f l => l.foldl incFault f) f) a
      = if ∃ l ∈ sets, a ∈ l then some ((f a).getD 0 + (sets.map (fun l => l.count a)).sum) else f a := by
  rw [applyFaults_flatten, incFault_foldl, List.count_flatten]
  simp only [List.mem_flatten]

/-- for a duplicate-free list, `count` is the 0/1 indicator of membership -/
theorem count_of_nodup {l : List Addr} (h : l.Nodup) (a : Addr) : l.count a = if a ∈ l then 1 else 0 := by
  induction l with
  | nil => simp
  | cons v t ih =>
    rw [List.nodup_cons] at h
    rw [List.count_cons, ih h.2]
    by_cases hav : v = a
    · subst hav; simp [h.1]
    · have : ¬ a = v := fun e => hav e.symm
      simp [hav, this]

/-! ### slash epoch -/
theorem slashThreshold_ceil (x : Int) :
    x ≤ ((x + PREC - 1) / PREC) * PREC ∧ ((x + PREC - 1) / PREC - 1) * PREC < x := by
  unfold PREC; omega

theorem slashOne_fst (env : Env) (thr : Int) (acc : (Addr → Option Nat) × List Addr) (w v : Addr) :
    (slashOne env thr acc w).1 v = if v = w ∧ env.valInfo w ≠ none then none else acc.1 v := by
  unfold slashOne
  cases hf : acc.1 w with
  | none =>
    by_cases hv : v = w
    · subst hv; by_cases hi : env.valInfo v = none <;> simp [hi, hf]
    · simp [hv]
  | some cnt =>
    cases hi : env.valInfo w with
    | none => simp
    | some bj =>
      obtain ⟨b, j⟩ := bj
      dsimp only
      by_cases h1 : (j || !b) = true <;> by_cases h2 : (cnt : Int) ≤ thr <;> by_cases hv : v = w <;>
        simp [h1, h2, hv]

theorem slashOne_snd (env : Env) (thr : Int) (acc : (Addr → Option Nat) × List Addr) (w v : Addr) :
    v ∈ (slashOne env thr acc w).2 ↔
      v ∈ acc.2 ∨ (v = w ∧ ∃ cnt : Nat, acc.1 w = some cnt ∧ env.valInfo w = some (true, false) ∧ thr < (cnt : Int)) := by
  unfold slashOne
  cases hf : acc.1 w with
  | none => simp
  | some cnt =>
    cases hi : env.valInfo w with
    | none => simp
    | some bj =>
      obtain ⟨b, j⟩ := bj
      cases b <;> cases j <;> simp
      by_cases hle : (cnt : Int) ≤ thr
      · have : ¬ thr < (cnt : Int) := by omega
        simp [hle, this]
      · have : thr < (cnt : Int) := by omega
        simp [hle, this]

theorem slashFold_spec (env : Env) (thr : Int) (l : List Addr) (acc : (Addr → Option Nat) × List Addr) :
    (∀ v, (l.foldl (slashOne env thr) acc).1 v = if v ∈ l ∧ env.valInfo v ≠ none then none else acc.1 v)
    ∧ (∀ v, v ∈ (l.foldl (slashOne env thr) acc).2 ↔
        v ∈ acc.2 ∨ (v ∈ l ∧ ∃ cnt : Nat, acc.1 v = some cnt ∧ env.valInfo v = some (true, false) ∧ thr < (cnt : Int))) := by
  induction l generalizing acc with
  | nil => simp
  | cons w t ih =>
    obtain ⟨h1, h2⟩ := ih (slashOne env thr acc w)
    simp only [List.foldl_cons]
    constructor
    · intro v
      rw [h1, slashOne_fst]
      by_cases hv : v = w
      · subst hv
        by_cases hi : env.valInfo v = none <;> simp [hi]
      · simp [hv]
    · intro v
      rw [h2, slashOne_snd, slashOne_fst]
      by_cases hv : v = w
      · subst hv
        by_cases hi : env.valInfo v = some (true, false)
        · simp [hi]
        · simp [hi]
      · simp [hv]

theorem slashOne_inv (env : Env) (thr : Int) (acc : (Addr → Option Nat) × List Addr) (w : Addr)
    (h : acc.2.Nodup ∧ ∀ v ∈ acc.2, acc.1 v = none) :
    (slashOne env thr acc w).2.Nodup ∧ ∀ v ∈ (slashOne env thr acc w).2, (slashOne env thr acc w).1 v = none := by
  constructor
  · unfold slashOne
    cases hf : acc.1 w with
    | none => exact h.1
    | some cnt =>
      cases hi : env.valInfo w with
      | none => exact h.1
      | some bj =>
        obtain ⟨b, j⟩ := bj
        dsimp only
        split
        · exact h.1
        · split
          · exact h.1
          · dsimp only
            rw [List.nodup_append]
            refine ⟨h.1, by simp, ?_⟩
            intro a ha b hb
            simp at hb; subst hb
            intro e; subst e
            have := h.2 a ha
            rw [hf] at this; cases this
  · intro v hv
    rw [slashOne_fst]
    rw [slashOne_snd] at hv
    cases hv with
    | inl hv => simp [h.2 v hv]
    | inr hv =>
      obtain ⟨rfl, cnt, _, hi, _⟩ := hv
      simp [hi]

theorem slashFold_nodup (env : Env) (thr : Int) (l : List Addr) (acc : (Addr → Option Nat) × List Addr)
    (h : acc.2.Nodup ∧ ∀ v ∈ acc.2, acc.1 v = none) : (l.foldl (slashOne env thr) acc).2.Nodup := by
  induction l generalizing acc with
  | nil => exact h.1
  | cons w t ih => exact ih _ (slashOne_inv env thr acc w h)

theorem sum_count_of_nodup (sets : List (List Addr)) (h : ∀ l ∈ sets, l.Nodup) (a : Addr) :
    (sets.map (fun l => l.count a)).sum = (sets.filter (fun l => decide (a ∈ l))).length := by
  induction sets with
  | nil => simp
  | cons l t ih =>
    have hl : l.Nodup := h l (by simp)
    have ht : ∀ l ∈ t, l.Nodup := fun x hx => h x (by simp [hx])
    simp only [List.map_cons, List.sum_cons, ih ht, count_of_nodup hl a, List.filter_cons]
    by_cases ha : a ∈ l
    · simp [ha]; omega
    · simp [ha]

/-! ### tallyOne: frame facts -/
/-- everything but the bank is the same -/
structure BankOnly (s s' : St) : Prop where
  now : s'.now = s.now
  height : s'.height = s.height
  params : s'.params = s.params
  items : s'.items = s.items
  invs : s'.invs = s.invs
  proofs : s'.proofs = s.proofs
  deps : s'.deps = s.deps
  faults : s'.faults = s.faults
  chal : s'.chal = s.chal
  dust : s'.dust = s.dust

theorem BankOnly.refl (s : St) : BankOnly s s := ⟨rfl, rfl, rfl, rfl, rfl, rfl, rfl, rfl, rfl, rfl⟩
theorem BankOnly.trans {a b c : St} (h1 : BankOnly a b) (h2 : BankOnly b c) : BankOnly a c :=
  ⟨h2.now.trans h1.now, h2.height.trans h1.height, h2.params.trans h1.params, h2.items.trans h1.items,
   h2.invs.trans h1.invs, h2.proofs.trans h1.proofs, h2.deps.trans h1.deps, h2.faults.trans h1.faults,
   h2.chal.trans h1.chal, h2.dust.trans h1.dust⟩

theorem payChallenger_bankOnly (coins : Coins) (s : St) (x : Inval) : BankOnly s (payChallenger coins s x) := by
  unfold payChallenger
  split
  · exact ⟨rfl, rfl, rfl, rfl, rfl, rfl, rfl, rfl, rfl, rfl⟩
  · exact BankOnly.refl s

theorem payChallenger_fold_bankOnly (coins : Coins) (xs : List Inval) (s : St) :
    BankOnly s (xs.foldl (payChallenger coins) s) := by
  induction xs generalizing s with
  | nil => exact BankOnly.refl s
  | cons x t ih => exact (payChallenger_bankOnly coins s x).trans (ih _)

theorem settleVerified_bankOnly (coll : Coins) (safe : List Int) (acc : St × Coins) (x : Inval) :
    BankOnly acc.1 (settleVerified coll safe acc x).1 := by
  unfold settleVerified
  split
  · split
    · exact ⟨rfl, rfl, rfl, rfl, rfl, rfl, rfl, rfl, rfl, rfl⟩
    · exact BankOnly.refl _
  · exact BankOnly.refl _

theorem settleVerified_fold_bankOnly (coll : Coins) (safe : List Int) (xs : List Inval) (acc : St × Coins) :
    BankOnly acc.1 (xs.foldl (settleVerified coll safe) acc).1 := by
  induction xs generalizing acc with
  | nil => exact BankOnly.refl _
  | cons x t ih => exact (settleVerified_bankOnly coll safe acc x).trans (ih _)

theorem tallyOne_none (env : Env) (s : St) (u : String) (h : findItem s u = none) : tallyOne env s u = .ok s := by
  unfold tallyOne; rw [h]

theorem tallyOne_not_ch (env : Env) (s : St) (u : String) (it : Item) (h : findItem s u = some it)
    (hs : it.status ≠ .ch) : tallyOne env s u = .ok s := by
  unfold tallyOne; rw [h]; simp only [hs, ne_eq, not_false_eq_true, if_true]

/-- a successful tally of a challenged item: everything it does to the non-bank, non-dust state -/
theorem tallyOne_ch (env : Env) (s s' : St) (u : String) (it : Item) (h : findItem s u = some it)
    (hs : it.status = .ch) (hok : tallyOne env s u = .ok s') :
    s'.chal = s.chal + 1
    ∧ s'.faults = (tallyOutcome s.params.rf it (proofsOf s u) env.active (env.assign u)).faulty.foldl incFault s.faults
    ∧ s'.proofs = s.proofs.filter (fun x => !(x.uri == u))
    ∧ s'.invs = s.invs.filter (fun x => !(x.uri == u))
    ∧ s'.params = s.params ∧ s'.now = s.now ∧ s'.height = s.height ∧ s'.deps = s.deps
    ∧ s'.items = setItem s.items { it with
        status := if (tallyOutcome s.params.rf it (proofsOf s u) env.active (env.assign u)).rejected then .rej else .ver,
        ts := s.now } := by
  unfold tallyOne at hok
  rw [h] at hok
  simp only [hs, ne_eq, not_true_eq_false, if_false] at hok
  split at hok
  · cases hok
  · obtain ⟨s3, h3, hok⟩ := Bank.bind_ok hok
    cases hok
    by_cases hr : (tallyOutcome s.params.rf it (proofsOf s u) env.active (env.assign u)).rejected = true
    · rw [if_pos hr] at h3
      have B := payChallenger_fold_bankOnly
        (it.invColl ++ rewardShare (if ((invsOf s u).length : Int) = 0 then [] else it.pubColl)
          ((invsOf s u).length : Int))
        (invsOf s u) { s with items := setItem s.items { it with status := .rej, ts := s.now } }
      cases h3
      dsimp only
      rw [B.chal, B.faults, B.proofs, B.invs, B.params, B.now, B.height, B.deps, B.items]
      simp [hr]
    · rw [if_neg hr] at h3
      have B := settleVerified_fold_bankOnly it.invColl
          (tallyOutcome s.params.rf it (proofsOf s u) env.active (env.assign u)).safe (invsOf s u)
          ({ s with items := setItem s.items { it with status := .ver, ts := s.now } }, it.pubColl)
      split at h3
      · cases h3
        dsimp only
        rw [B.chal, B.faults, B.proofs, B.invs, B.params, B.now, B.height, B.deps, B.items]
        simp [hr]
      · cases h3
        rw [B.chal, B.faults, B.proofs, B.invs, B.params, B.now, B.height, B.deps, B.items]
        simp [hr]

theorem findItem_uri (s : St) (u : String) (it : Item) (h : findItem s u = some it) : it.uri = u := by
  unfold findItem at h
  have := List.find?_some h
  simpa using this

/-- replacing the item with uri `w` does not change the lookup of another uri -/
theorem find_setItem_ne (items : List Item) (it' : Item) (u : String) (hne : it'.uri ≠ u) :
    (setItem items it').find? (fun x => x.uri == u) = items.find? (fun x => x.uri == u) := by
  unfold setItem
  induction items with
  | nil => rfl
  | cons x t ih =>
    simp only [List.map_cons, List.find?_cons]
    by_cases hx : (x.uri == it'.uri) = true
    · have hxu : x.uri = it'.uri := by simpa using hx
      have h1 : (it'.uri == u) = false := by simp [hne]
      have h2 : (x.uri == u) = false := by simp [hxu, hne]
      rw [if_pos hx, h1, h2]
      exact ih
    · rw [if_neg hx]
      cases hxu : (x.uri == u)
      · exact ih
      · rfl

/-- what the tally of `u` reads: the item, its proofs, the parameters -/
theorem tallyOne_other (env : Env) (s s' : St) (u u' : String) (hne : u' ≠ u) (hok : tallyOne env s u' = .ok s') :
    proofsOf s' u = proofsOf s u ∧ s'.params = s.params ∧ findItem s' u = findItem s u := by
  cases hf : findItem s u' with
  | none =>
    rw [tallyOne_none env s u' hf] at hok
    cases hok; exact ⟨rfl, rfl, rfl⟩
  | some it =>
    by_cases hs : it.status = .ch
    · obtain ⟨_, _, hp, _, hpar, _, _, _, hit⟩ := tallyOne_ch env s s' u' it hf hs hok
      refine ⟨?_, hpar, ?_⟩
      · unfold proofsOf
        rw [hp, List.filter_filter]
        apply List.filter_congr
        intro x _
        cases hxu : (x.uri == u)
        · rfl
        · have : x.uri = u := by simpa using hxu
          have : (x.uri == u') = false := by
            simp only [beq_eq_false_iff_ne, this]; exact fun e => hne e.symm
          simp [this]
      · unfold findItem
        rw [hit]
        apply find_setItem_ne
        show it.uri ≠ u
        rw [findItem_uri s u' it hf]; exact hne
    · rw [tallyOne_not_ch env s u' it hf hs] at hok
      cases hok; exact ⟨rfl, rfl, rfl⟩

/-- the validators whose fault counter the tally of `u` increments in state `s` -/
def itemFaults (env : Env) (s : St) (u : String) : List Addr :=
  match findItem s u with
  | some it =>
    if it.status = .ch then (tallyOutcome s.params.rf it (proofsOf s u) env.active (env.assign u)).faulty else []
  | none => []

/-- 1 if `u` is a challenged item of `s` (it is tallied), else 0 -/
def itemChal (s : St) (u : String) : Nat :=
  match findItem s u with
  | some it => if it.status = .ch then 1 else 0
  | none => 0

theorem tallyOne_delta (env : Env) (s s' : St) (u : String) (hok : tallyOne env s u = .ok s') :
    s'.faults = (itemFaults env s u).foldl incFault s.faults ∧ s'.chal = s.chal + itemChal s u := by
  unfold itemFaults itemChal
  cases hf : findItem s u with
  | none =>
    rw [tallyOne_none env s u hf] at hok
    cases hok; exact ⟨rfl, rfl⟩
  | some it =>
    by_cases hs : it.status = .ch
    · obtain ⟨h1, h2, _⟩ := tallyOne_ch env s s' u it hf hs hok
      simp only [hs, if_true]
      exact ⟨h2, h1⟩
    · rw [tallyOne_not_ch env s u it hf hs] at hok
      cases hok
      simp only [hs, if_false]
      exact ⟨rfl, rfl⟩

theorem itemFaults_other (env : Env) (s s' : St) (u u' : String) (hne : u' ≠ u) (hok : tallyOne env s u' = .ok s') :
    itemFaults env s' u = itemFaults env s u ∧ itemChal s' u = itemChal s u := by
  obtain ⟨h1, h2, h3⟩ := tallyOne_other env s s' u u' hne hok
  unfold itemFaults itemChal
  rw [h1, h2, h3]
  exact ⟨rfl, rfl⟩

/-- a block's tally over distinct uris: every item contributes the fault set and the challenge it has in the
    state at the START of the tally -/
theorem tallyList_spec (env : Env) (us : List String) (s s' : St) (hn : us.Nodup)
    (hok : tallyList env us s = .ok s') :
    s'.faults = (us.map (itemFaults env s)).foldl (fun f l => l.foldl incFault f) s.faults
    ∧ s'.chal = s.chal + (us.map (itemChal s)).sum := by
  induction us generalizing s with
  | nil =>
    simp only [tallyList] at hok
    cases hok; simp
  | cons u t ih =>
    simp only [tallyList] at hok
    obtain ⟨sa, h1, h2⟩ := Bank.bind_ok hok
    rw [List.nodup_cons] at hn
    obtain ⟨e1, e2⟩ := ih sa hn.2 h2
    obtain ⟨d1, d2⟩ := tallyOne_delta env s sa u h1
    have hm1 : t.map (itemFaults env sa) = t.map (itemFaults env s) := by
      apply List.map_congr_left
      intro x hx
      exact (itemFaults_other env s sa x u (fun e => hn.1 (e ▸ hx)) h1).1
    have hm2 : t.map (itemChal sa) = t.map (itemChal s) := by
      apply List.map_congr_left
      intro x hx
      exact (itemFaults_other env s sa x u (fun e => hn.1 (e ▸ hx)) h1).2
    rw [hm1, d1] at e1
    rw [hm2, d2] at e2
    simp only [List.map_cons, List.foldl_cons, List.sum_cons]
    exact ⟨e1, by omega⟩

end Sunrise.DA
