import SunriseVerif.Lemmas.C06RunFees
import SunriseVerif.Props.C05Store
import SunriseVerif.Props.C05Loop

/-!
`FeesNonneg` of the ghost trace of a successful EXACT-OUT swap (`swapExactOut`), which `Props/C06Run.lean` leaves as a
hypothesis.  Mirror of `Lemmas/C06RunFees.lean` (exact-in), but here the step fee `⌈in · ⌈f/(1−f)⌉⌉` is non-negative
only because the step INPUT is non-negative, which needs facts about the state:

* quote-for-base (`denomIn = p.quote`): input = `CalcAmountQuoteDelta liq next cur true` = ⌈liq·|Δ|⌉ ≥ 0 as soon as the
  running liquidity is ≥ 0.  The running liquidity along the path is derived from the store invariant
  (`C05Store.pathLiq`).  NO price hypothesis at all is needed: `swapExactOut_feesNonneg_qfb`.
* base-for-quote (`denomIn = p.base`): input = `CalcAmountBaseDelta liq next cur true` = ⌈liq·|Δ|/next/cur⌉, which needs
  `0 < cur` and `0 < next` too.  `0 < next` is obtained WITHOUT any ordering / grid monotonicity assumption from the
  loop's own `invalid-computed-sqrt-price` check (a successful iteration has `tickPrice ≤ next`), PROVIDED the price
  of every initialised tick on the path is positive (`TickPos`).  The model's `tickToSqrtPrice` does not guarantee
  that (it is `approxSqrt pm / MultiplierSqrt`, which may round to 0), so this is the one ingredient that is NOT
  derivable from `C04StoreL.Inv`: it is a grid fact, implied by the documented assumption `C05Store.GridOK.bounds`
  (tick prices ≥ MinSqrtPrice = 1e-18): `tickPos_of_grid`, `swapExactOut_feesNonneg_of_grid`.

Headline: `swapExactOut_feesNonneg_partial` (hypotheses on the PRE-state: `Inv s`, fee rate in [0,1), positive pool
sqrt price, and — for base-for-quote only — `TickPos` of the pool's iterator).
-/

set_option linter.unusedVariables false
set_option linter.unusedSimpArgs false
namespace Sunrise.C05Round2Fees
open Sunrise Sunrise.CL Sunrise.TickMath Sunrise.Gen.KernelsCL
open Sunrise.C06RunFees (FeesNonneg feesNonneg_append)
open Sunrise.C05Loop (bind_ok res_ok_inj swapLoop_succ_eq swapLoop_zero settleK ss2Of bucket wrapTickK wrapTickK_ok
  amtInOf amtOutOf ss0Of bucket_ok_eq kernelOf netOf crossTick_ok ss2Of_facts outFee_nonneg baseDelta_any_nonneg
  bfq_inGivenOut_shape qfb_inGivenOut_in_nonneg)

/-! ### 1. path vocabulary -/

/-- the running liquidity is non-negative now and after every crossing of the remaining iterator -/
def LiqOK (bfq : Bool) : Dec → List TickInfo → Prop
  | l, [] => 0 ≤ l.raw
  | l, ti :: rest => 0 ≤ l.raw ∧ LiqOK bfq (Dec.add l (netOf bfq ti)) rest

theorem LiqOK.head {bfq : Bool} {l : Dec} {iter : List TickInfo} (h : LiqOK bfq l iter) : 0 ≤ l.raw := by
  cases iter with
  | nil => exact h
  | cons ti rest => exact h.1

/-- `LiqOK` from the prefix-fold form in which `C05Store.pathLiq` states it -/
theorem liqOK_of_folds {bfq : Bool} : ∀ (iter : List TickInfo) (l : Dec),
    (∀ j, j ≤ iter.length → 0 ≤ ((iter.take j).foldl (fun (acc : Dec) ti => Dec.add acc (netOf bfq ti)) l).raw) →
    LiqOK bfq l iter := by
  intro iter
  induction iter with
  | nil => intro l h; have := h 0 (Nat.le_refl _); simpa [LiqOK] using this
  | cons ti rest ih =>
    intro l h
    refine ⟨by simpa using h 0 (Nat.zero_le _), ih _ (fun j hj => ?_)⟩
    have := h (j + 1) (by simpa using hj)
    simpa only [List.take_succ_cons, List.foldl_cons] using this

/-- **from the store invariant**: the liquidity along the path of the pool's own iterator is non-negative -/
theorem liqOK_store {s : St} (hI : C04StoreL.Inv s) {pool : Nat} {p : Pool} (hp : getPool s pool = some p) (bfq : Bool) :
    LiqOK bfq p.liq (tickIter s pool p.tick bfq) :=
  liqOK_of_folds _ _ (fun j hj =>
    (C05Store.pathLiq hI _ p.tick p.liq (C05Store.pathInv_tickIter hI pool p.tick bfq) ((hI.w.sums pool).active p hp) j hj).2)

/-- the sqrt price of every tick of the remaining iterator is positive (a grid fact, NOT derivable from the model's
    `tickToSqrtPrice`; implied by `C05Store.GridOK.bounds`) -/
def TickPos (tp : TickParams) (iter : List TickInfo) : Prop :=
  ∀ ti ∈ iter, ∀ v, tickToSqrtPrice ti.tick tp = .ok v → 0 < v.raw

theorem tickPos_of_grid {tp : TickParams} {s : St} {pool : Nat} {cur : Int} (hg : C05Store.GridOK tp s pool cur) (bfq : Bool) :
    TickPos tp (tickIter s pool cur bfq) := by
  intro ti hti v hv
  have hm := C05Store.tickIter_mem.mp hti
  have := (hg.bounds ti.tick v (Or.inr ⟨ti, hm.1, hm.2.1, rfl⟩) hv).1
  rw [C05Loop.MinSqrtPrice_raw] at this
  omega

/-! ### 2. one iteration -/

/-- settling a step: trace part (as `C06RunFees.settleK_fees`) and cursor part (as `C05Loop.settleK_ok`) for the SAME
    successor state -/
theorem settleK_both {β : Type} {bfq upd : Bool} {lim fee : Dec} {tp : TickParams} {accVal : DecCoins}
    {denomIn : Denom} {s : St} {start tickPrice next : Dec} {ss2 : SwapState} {ti : TickInfo} {rest : List TickInfo}
    {K : St × SwapState × List TickInfo → Res β} {x : β}
    (h : settleK bfq upd lim fee tp accVal denomIn s start tickPrice next ss2 ti rest K = .ok x) :
    ∃ s3 ss3 iter3, K (s3, ss3, iter3) = .ok x ∧ (FeesNonneg ss2.trace → FeesNonneg ss3.trace) ∧ ss3.sqrtP = ss2.sqrtP ∧
      ((tickPrice = next ∧ iter3 = rest ∧ ss3.liq = Dec.add ss2.liq (netOf bfq ti)) ∨
       ((if bfq then ¬ tickPrice.raw > next.raw else ¬ tickPrice.raw < next.raw) ∧ iter3 = ti :: rest ∧ ss3.liq = ss2.liq)) := by
  unfold settleK at h
  by_cases heq : (tickPrice == next) = true
  · rw [if_pos heq] at h
    have heq' : tickPrice = next := by simpa using heq
    obtain ⟨p, hp, hK⟩ := bind_ok h
    have hp' : crossTick s ss2 bfq lim fee ti accVal denomIn upd = .ok (p.1, p.2) := hp
    have hc := crossTick_ok hp'
    obtain ⟨_, hss⟩ := Sunrise.C04Refine.crossTick_shape hp'
    refine ⟨p.1, p.2, rest, hK, ?_, hc.1, Or.inl ⟨heq', rfl, hc.2.1⟩⟩
    intro hf
    rw [hss]
    exact feesNonneg_append hf (by intro f hm; simp at hm)
  · rw [if_neg heq] at h
    by_cases hord : (if bfq = true then tickPrice.raw > next.raw else tickPrice.raw < next.raw)
    · rw [if_pos hord] at h; cases h
    · rw [if_neg hord] at h
      have hord' : (if bfq = true then ¬ tickPrice.raw > next.raw else ¬ tickPrice.raw < next.raw) := by
        cases bfq <;> simpa using hord
      by_cases hmv : (!(start == next)) = true
      · rw [if_pos hmv] at h
        obtain ⟨t, _, hK⟩ := bind_ok h
        refine ⟨_, _, _, hK, ?_, rfl, Or.inr ⟨hord', rfl, rfl⟩⟩
        intro hf
        exact feesNonneg_append hf (by intro f hm; simp at hm)
      · rw [if_neg hmv] at h
        exact ⟨_, _, _, h, fun hf => hf, rfl, Or.inr ⟨hord', rfl, rfl⟩⟩

/-- the fee of a quote-for-base exact-out bucket step: non-negative on non-negative liquidity (no price hypothesis) -/
theorem bucket_exactOut_qfb_fee_nonneg {lim fee cur tgt liq rem : Dec} {r : Dec × Dec × Dec × Dec}
    (hf0 : 0 ≤ fee.raw) (hf1 : fee.raw < PREC) (hl : 0 ≤ liq.raw)
    (h : bucket false false lim fee cur tgt liq rem = .ok r) : 0 ≤ r.2.2.2.raw := by
  have e := bucket_ok_eq h
  subst e
  simp only [kernelOf, Bool.false_eq_true, if_false]
  exact (qfb_inGivenOut_in_nonneg lim fee cur tgt liq rem hl hf0 hf1).2

/-- the fee of a base-for-quote exact-out bucket step: non-negative on non-negative liquidity and positive current and
    next prices -/
theorem bucket_exactOut_bfq_fee_nonneg {lim fee cur tgt liq rem : Dec} {r : Dec × Dec × Dec × Dec}
    (hf0 : 0 ≤ fee.raw) (hf1 : fee.raw < PREC) (hl : 0 ≤ liq.raw) (hc : 0 < cur.raw)
    (h : bucket false true lim fee cur tgt liq rem = .ok r) (hn : 0 < r.1.raw) : 0 ≤ r.2.2.2.raw := by
  have e := bucket_ok_eq h
  subst e
  simp only [kernelOf, Bool.false_eq_true, if_false, if_true] at hn ⊢
  have hsh := bfq_inGivenOut_shape lim fee cur tgt liq rem
  rw [hsh.2.2]
  refine outFee_nonneg _ _ ?_ hf0 hf1
  rw [hsh.2.1]
  exact baseDelta_any_nonneg _ _ _ _ hl hn hc

/-! ### 3. the loop -/

/-- **the fee events of an exact-out loop run are non-negative** (accumulator updates on) -/
theorem swapLoop_fees_exactOut {bfq : Bool} {lim fee : Dec} {tp : TickParams} {accVal : DecCoins} {denomIn : Denom}
    (hf0 : 0 ≤ fee.raw) (hf1 : fee.raw < PREC) :
    ∀ (fuel noProg : Nat) (s : St) (ss : SwapState) (iter : List TickInfo) (s' : St) (ss' : SwapState),
      FeesNonneg ss.trace → LiqOK bfq ss.liq iter → (bfq = true → 0 < ss.sqrtP.raw ∧ TickPos tp iter) →
      swapLoop false bfq true lim fee tp accVal denomIn fuel noProg s ss iter = .ok (s', ss') → FeesNonneg ss'.trace := by
  intro fuel
  induction fuel with
  | zero => intro noProg s ss iter s' ss' _ _ _ h; rw [swapLoop_zero] at h; cases h
  | succ fuel ih =>
    intro noProg s ss iter s' ss' hf hliq hpos h
    rw [swapLoop_succ_eq] at h
    split at h
    · have e := res_ok_inj h
      have e2 : ss' = ss := (congrArg Prod.snd e).symm
      rw [e2]; exact hf
    · cases iter with
      | nil => cases h
      | cons ti rest =>
        simp only [] at h
        obtain ⟨tickPrice, hT, h⟩ := wrapTickK_ok h
        obtain ⟨r, hB, h⟩ := bind_ok h
        split at h
        · cases h
        · obtain ⟨s3, ss3, iter3, hK, hfimp, hP, hcur⟩ := settleK_both h
          have hfacts := ss2Of_facts false true ss r
          have hl : 0 ≤ ss.liq.raw := hliq.1
          -- positivity of the next price (bfq only), from the loop's own check
          have hnext : bfq = true → 0 < r.1.raw := by
            intro hb
            have htp := (hpos hb).2 ti List.mem_cons_self tickPrice hT
            subst hb
            rcases hcur with ⟨e, _, _⟩ | ⟨hord, _, _⟩
            · rw [← e]; exact htp
            · simp only [if_true] at hord; omega
          have hr : 0 ≤ r.2.2.2.raw := by
            cases hb : bfq
            · subst hb; exact bucket_exactOut_qfb_fee_nonneg hf0 hf1 hl hB
            · subst hb; exact bucket_exactOut_bfq_fee_nonneg hf0 hf1 hl (hpos rfl).1 hB (hnext rfl)
          have hf2 : FeesNonneg (ss2Of false true ss r).trace := by
            rw [(Sunrise.C06Refine2.ss2Of_fields false ss r).2.2.2.2]
            refine feesNonneg_append hf ?_
            intro f hm
            simp only [List.mem_cons, List.mem_nil_iff, or_false] at hm
            rcases hm with hm | hm
            · cases hm; exact hr
            · cases hm
          have hf3 := hfimp hf2
          have hliq3 : LiqOK bfq ss3.liq iter3 := by
            rcases hcur with ⟨_, hi, hq⟩ | ⟨_, hi, hq⟩
            · rw [hi, hq, hfacts.2.1]; exact hliq.2
            · rw [hi, hq, hfacts.2.1]; exact hliq
          have hpos3 : bfq = true → 0 < ss3.sqrtP.raw ∧ TickPos tp iter3 := by
            intro hb
            refine ⟨by rw [hP, hfacts.1]; exact hnext hb, ?_⟩
            rcases hcur with ⟨_, hi, _⟩ | ⟨_, hi, _⟩
            · rw [hi]; exact fun t ht => (hpos hb).2 t (List.mem_cons_of_mem _ ht)
            · rw [hi]; exact (hpos hb).2
          simp only [Bool.false_eq_true, if_false] at hK
          by_cases hz : (amtOutOf false r).isZero = true
          · rw [if_pos hz] at hK
            by_cases hn : noProg ≥ 100
            · rw [if_pos hn] at hK; cases hK
            · rw [if_neg hn] at hK
              exact ih _ _ _ _ _ _ hf3 hliq3 hpos3 hK
          · rw [if_neg hz] at hK
            exact ih _ _ _ _ _ _ hf3 hliq3 hpos3 hK

/-! ### 4. message level -/

/-- inversion of a successful `swapExactOut` that keeps the fee rate handed to `computeSwap` -/
theorem swapExactOut_inv_fee {s s' : CL.St} {sender : Addr} {pool : Nat} {denomIn denomOut : Denom} {amount : Int}
    {feeEnabled : Bool} {out : Int} (h : swapExactOut s sender pool denomOut amount denomIn feeEnabled = .ok (s', out)) :
    ∃ p lim s1 o b, getPool s pool = some p ∧
      computeSwap false s pool denomIn denomOut amount (if feeEnabled then p.feeRate else Dec.zero) lim true = .ok (s1, o) ∧
      s' = setPool { s1 with bank := b } { p with liq := o.liq, tick := o.tick, sqrtP := o.sqrtP } := by
  unfold swapExactOut at h
  cases hp : getPool s pool with
  | none => rw [hp] at h; cases h
  | some p =>
    rw [hp] at h
    simp only [bind, pure, C04Interval.err_bind, C04Interval.ok_bind] at h
    split at h
    · cases h
    obtain ⟨x, hx, h⟩ := bind_ok h
    split at h
    · cases h
    split at h
    · cases h
    obtain ⟨s2', hu, h⟩ := bind_ok h
    have e := congrArg Prod.fst (res_ok_inj h)
    dsimp only at e; subst e
    obtain ⟨b, hb⟩ := C04Interval.updatePoolForSwap_ok hu
    exact ⟨p, _, x.1, x.2, b, rfl, hx, hb⟩

/-- **headline (partial)**: the recorded trace of a successful `swapExactOut` books only non-negative fees, under
    hypotheses on the PRE-state only:
    * `hI`   the proved store invariant (gives non-negative liquidity along the whole path, `liqOK_store`),
    * `hf0`, `hf1`  the pool's fee rate is in [0,1),
    * `hP`   the pool's sqrt price is positive (used for base-for-quote only),
    * `hgrid` (base-for-quote only; the MISSING ingredient, a grid fact not derivable from the model): the sqrt price
      of every initialised tick of the pool at or below the cursor is positive.  Implied by `C05Store.GridOK`
      (`swapExactOut_feesNonneg_of_grid`).  No ordering/monotonicity of tick prices is needed. -/
theorem swapExactOut_feesNonneg_partial {s s' : St} {sender : Addr} {pool : Nat} {din dout : Denom} {amount out : Int}
    {fe : Bool} {p : Pool} (hI : C04StoreL.Inv s) (hp : getPool s pool = some p)
    (hf0 : 0 ≤ p.feeRate.raw) (hf1 : p.feeRate.raw < PREC) (hP : 0 < p.sqrtP.raw)
    (hgrid : din = p.base → TickPos p.tp (tickIter s pool p.tick true))
    (h : swapExactOut s sender pool dout amount din fe = .ok (s', out)) : FeesNonneg s'.lastTrace := by
  obtain ⟨p0, lim, s1, o, b, hp0, hc, hs'⟩ := swapExactOut_inv_fee h
  have ep : p0 = p := by rw [hp] at hp0; exact (Option.some.inj hp0).symm
  subst ep
  obtain ⟨p', acc, lim', s0, ss, hp', _, hloop, hs1, _⟩ := Sunrise.C06Refine2.computeSwap_upd_inv hc
  have ep' : p' = p0 := by rw [hp] at hp'; exact (Option.some.inj hp').symm
  subst ep'
  have hlt : s'.lastTrace = ss.trace := by rw [hs', hs1]; rfl
  rw [hlt]
  have hfee0 : 0 ≤ (if fe then p'.feeRate else Dec.zero).raw := by
    cases fe
    · simp [Dec.zero]
    · simpa using hf0
  have hfee1 : (if fe then p'.feeRate else Dec.zero).raw < PREC := by
    cases fe
    · simp only [Bool.false_eq_true, if_false, Dec.zero]; decide
    · simpa using hf1
  refine swapLoop_fees_exactOut hfee0 hfee1 _ _ _ _ _ _ _ (by intro f hm; simp [ss0Of] at hm) ?_ ?_ hloop
  · exact liqOK_store hI hp _
  · intro hb
    have hd : din = p'.base := by simpa using hb
    refine ⟨hP, ?_⟩
    rw [hb]
    exact hgrid hd

/-- **quote-for-base: unconditional** (store invariant and fee rate in [0,1) only; no price hypothesis) -/
theorem swapExactOut_feesNonneg_qfb {s s' : St} {sender : Addr} {pool : Nat} {din dout : Denom} {amount out : Int}
    {fe : Bool} {p : Pool} (hI : C04StoreL.Inv s) (hp : getPool s pool = some p)
    (hf0 : 0 ≤ p.feeRate.raw) (hf1 : p.feeRate.raw < PREC) (hq : din ≠ p.base)
    (h : swapExactOut s sender pool dout amount din fe = .ok (s', out)) : FeesNonneg s'.lastTrace := by
  obtain ⟨p0, lim, s1, o, b, hp0, hc, hs'⟩ := swapExactOut_inv_fee h
  have ep : p0 = p := by rw [hp] at hp0; exact (Option.some.inj hp0).symm
  subst ep
  obtain ⟨p', acc, lim', s0, ss, hp', _, hloop, hs1, _⟩ := Sunrise.C06Refine2.computeSwap_upd_inv hc
  have ep' : p' = p0 := by rw [hp] at hp'; exact (Option.some.inj hp').symm
  subst ep'
  have hlt : s'.lastTrace = ss.trace := by rw [hs', hs1]; rfl
  rw [hlt]
  have hfee0 : 0 ≤ (if fe then p'.feeRate else Dec.zero).raw := by
    cases fe
    · simp [Dec.zero]
    · simpa using hf0
  have hfee1 : (if fe then p'.feeRate else Dec.zero).raw < PREC := by
    cases fe
    · simp only [Bool.false_eq_true, if_false, Dec.zero]; decide
    · simpa using hf1
  refine swapLoop_fees_exactOut hfee0 hfee1 _ _ _ _ _ _ _ (by intro f hm; simp [ss0Of] at hm) ?_ ?_ hloop
  · exact liqOK_store hI hp _
  · intro hb
    have hd : din = p'.base := by simpa using hb
    exact absurd hd hq

/-- **both directions under the documented grid assumption** `C05Store.GridOK` (only its `bounds` field is used) -/
theorem swapExactOut_feesNonneg_of_grid {s s' : St} {sender : Addr} {pool : Nat} {din dout : Denom} {amount out : Int}
    {fe : Bool} {p : Pool} (hI : C04StoreL.Inv s) (hp : getPool s pool = some p)
    (hf0 : 0 ≤ p.feeRate.raw) (hf1 : p.feeRate.raw < PREC) (hP : 0 < p.sqrtP.raw)
    (hg : C05Store.GridOK p.tp s pool p.tick)
    (h : swapExactOut s sender pool dout amount din fe = .ok (s', out)) : FeesNonneg s'.lastTrace :=
  swapExactOut_feesNonneg_partial hI hp hf0 hf1 hP (fun _ => tickPos_of_grid hg true) h

/-! ### 5. non-vacuity: executed history `C04Store.h3` (pool 0 on the ×10 grid, positions [-1,1) and [0,2)); all hypotheses
(`Inv`, fee range, positive price, `GridOK`) are established there and the exact-out swaps succeed with non-empty traces,
in BOTH directions (the base-for-quote run crosses the initialised tick 0) -/

/-- the run succeeds and its trace contains at least one fee event -/
def okWithFee (r : Res (St × Int)) : Bool :=
  match r with | .ok (s, _) => s.lastTrace.any (fun e => match e with | .fee _ => true | _ => false) | _ => false

theorem h3_bfq_ok : okWithFee (swapExactOut C04Store.h3 "a0" 0 "quote" 800000 "base" true) = true := by decide +kernel
theorem h3_qfb_ok : okWithFee (swapExactOut C04Store.h3 "a0" 0 "base" 1000 "quote" true) = true := by decide +kernel

example : ∃ s' out, swapExactOut C04Store.h3 "a0" 0 "quote" 800000 "base" true = .ok (s', out) ∧ FeesNonneg s'.lastTrace := by
  cases hr : swapExactOut C04Store.h3 "a0" 0 "quote" 800000 "base" true with
  | err e => have := h3_bfq_ok; rw [hr] at this; simp [okWithFee] at this
  | panic e => have := h3_bfq_ok; rw [hr] at this; simp [okWithFee] at this
  | ok r =>
    exact ⟨r.1, r.2, rfl, swapExactOut_feesNonneg_of_grid C05Store.inv_h3 C05Store.pool_h3 (by decide) (by decide)
      (by decide) C05Store.grid_h3 hr⟩

example : ∃ s' out, swapExactOut C04Store.h3 "a0" 0 "base" 1000 "quote" true = .ok (s', out) ∧ FeesNonneg s'.lastTrace := by
  cases hr : swapExactOut C04Store.h3 "a0" 0 "base" 1000 "quote" true with
  | err e => have := h3_qfb_ok; rw [hr] at this; simp [okWithFee] at this
  | panic e => have := h3_qfb_ok; rw [hr] at this; simp [okWithFee] at this
  | ok r =>
    exact ⟨r.1, r.2, rfl, swapExactOut_feesNonneg_qfb C05Store.inv_h3 C05Store.pool_h3 (by decide) (by decide)
      (by decide) hr⟩

end Sunrise.C05Round2Fees

#print axioms Sunrise.C05Round2Fees.swapExactOut_feesNonneg_partial
#print axioms Sunrise.C05Round2Fees.swapExactOut_feesNonneg_qfb
#print axioms Sunrise.C05Round2Fees.swapExactOut_feesNonneg_of_grid
