import SunriseVerif.Model.LockupMV
import SunriseVerif.Props.C12Full
/-!
Helper lemmas for `Props/C12MV.lean` (multi-validator lockup model): share-denom names, sums over the validator list, the
per-validator entry map, the schedule at `lockedAt` level, the two end-block folds.  Property theorems are in `Props/C12MV.lean`.
-/
set_option linter.unusedSimpArgs false
set_option linter.unusedVariables false
namespace Sunrise.LockupMV
open Sunrise
open Sunrise.Lockup (Variant Entry Unb Ext fee bond lock shareD scMod stakingPool proxyOf sumUnb sumEntries addEntry claim
  releaseUbds lockedAt lockInfo notBondedLocked kUndelReject)
open Sunrise.C12 (vOf S_schedule_range lockOk unlockedVal lockedVal S_locked_antitone)

/-! ### share denoms -/

theorem share_pre_ne (v : Addr) (d : Denom) (hd : d.toList.head? ≠ some 's') : "share/" ++ v ≠ d := by
  intro h
  subst h
  simp at hd

theorem shareOf_ne_fee (v : Addr) : shareOf v ≠ fee := by
  unfold shareOf; split
  · decide
  · exact share_pre_ne v fee (by decide)

theorem shareOf_ne_bond (v : Addr) : shareOf v ≠ bond := by
  unfold shareOf; split
  · decide
  · exact share_pre_ne v bond (by decide)

theorem shareOf_inj {v w : Addr} (h : shareOf v = shareOf w) : v = w := by
  unfold shareOf at h
  split at h <;> split at h
  · simp_all
  · have := congrArg String.toList h
    simp [shareD] at this
  · have := congrArg String.toList h
    simp [shareD] at this
  · have := congrArg String.toList h
    simp at this
    exact String.ext this

theorem sendDisabled_false {vals : List Addr} {d : Denom} (h : sendDisabled vals d = false) :
    d ≠ bond ∧ ∀ v ∈ vals, d ≠ shareOf v := by
  unfold sendDisabled at h
  simp only [Bool.or_eq_false_iff, beq_eq_false_iff_ne, List.any_eq_false, beq_iff_eq] at h
  exact ⟨h.1, fun v hv => h.2 v hv⟩

theorem msgSend_bal {vals : List Addr} {b b' : Bank} {src dst : Addr} {d : Denom} {x : Int}
    (h : msgSend vals b src dst d x = .ok b') :
    0 < x ∧ sendDisabled vals d = false ∧ b.send src dst d x = .ok b' := by
  unfold msgSend at h
  by_cases h1 : x ≤ 0
  · simp [h1] at h
  · by_cases h2 : sendDisabled vals d = true
    · simp [h1, h2] at h
    · simp only [h1, h2, if_false, Bool.false_eq_true] at h
      exact ⟨by omega, by simpa using h2, h⟩

/-! ### the account's share tokens over the validator list -/

theorem sumShares_congr (b b' : Bank) (vs : List Addr) (h : ∀ v ∈ vs, b'.bal lock (shareOf v) = b.bal lock (shareOf v)) :
    sumShares b' vs = sumShares b vs := by
  induction vs with
  | nil => rfl
  | cons v r ih =>
    simp only [sumShares]
    rw [h v (by simp), ih (fun w hw => h w (by simp [hw]))]

theorem sumShares_update (b b' : Bank) (vs : List Addr) (v : Addr) (δ : Int) (hnd : vs.Nodup) (hv : v ∈ vs)
    (h1 : b'.bal lock (shareOf v) = b.bal lock (shareOf v) + δ)
    (h2 : ∀ w, w ≠ v → b'.bal lock (shareOf w) = b.bal lock (shareOf w)) :
    sumShares b' vs = sumShares b vs + δ := by
  induction vs with
  | nil => simp at hv
  | cons a r ih =>
    simp only [sumShares]
    have hnd' := List.nodup_cons.1 hnd
    by_cases hav : a = v
    · subst hav
      rw [h1, sumShares_congr b b' r (fun w hw => h2 w (fun e => hnd'.1 (e ▸ hw)))]
      omega
    · have hv' : v ∈ r := by
        rcases List.mem_cons.1 hv with e | e
        · exact absurd e.symm hav
        · exact e
      rw [h2 a hav, ih hnd'.2 hv']
      omega

theorem sumShares_mono (b b' : Bank) (vs : List Addr) (h : ∀ v, b.bal lock (shareOf v) ≤ b'.bal lock (shareOf v)) :
    sumShares b vs ≤ sumShares b' vs := by
  induction vs with
  | nil => simp [sumShares]
  | cons a r ih => simp only [sumShares]; have := h a; omega

theorem sumShares_nonneg (b : Bank) (vs : List Addr) (h : ∀ v, 0 ≤ b.bal lock (shareOf v)) : 0 ≤ sumShares b vs := by
  induction vs with
  | nil => simp [sumShares]
  | cons a r ih => simp only [sumShares]; have := h a; omega

/-! ### the per-validator entry map -/

theorem mem_replaceEntries {es : Entries} {v : Addr} {l : List Entry} {p : Addr × List Entry}
    (h : p ∈ replaceEntries es v l) : p ∈ es ∨ p = (v, l) := by
  induction es with
  | nil => simp [replaceEntries] at h
  | cons q r ih =>
    obtain ⟨k, x⟩ := q
    simp only [replaceEntries] at h
    split at h
    · rename_i hk
      rcases List.mem_cons.1 h with e | e
      · right; rw [e, hk]
      · left; simp [e]
    · rcases List.mem_cons.1 h with e | e
      · left; simp [e]
      · rcases ih e with e' | e'
        · left; simp [e']
        · right; exact e'

theorem mem_insertEntries {es : Entries} {v : Addr} {l : List Entry} {p : Addr × List Entry}
    (h : p ∈ insertEntries es v l) : p ∈ es ∨ p = (v, l) := by
  induction es with
  | nil => simp [insertEntries] at h; right; exact h
  | cons q r ih =>
    obtain ⟨k, x⟩ := q
    simp only [insertEntries] at h
    split at h
    · rcases List.mem_cons.1 h with e | e
      · right; exact e
      · left; exact e
    · rcases List.mem_cons.1 h with e | e
      · left; simp [e]
      · rcases ih e with e' | e'
        · left; simp [e']
        · right; exact e'

theorem mem_setEntries {es : Entries} {v : Addr} {l : List Entry} {p : Addr × List Entry}
    (h : p ∈ setEntries es v l) : p ∈ es ∨ p = (v, l) := by
  unfold setEntries at h
  split at h
  · exact mem_replaceEntries h
  · exact mem_insertEntries h

theorem self_mem_replaceEntries {es : Entries} {v : Addr} {l : List Entry} (hk : hasKey es v = true) :
    (v, l) ∈ replaceEntries es v l := by
  induction es with
  | nil => simp [hasKey] at hk
  | cons q r ih =>
    obtain ⟨k, x⟩ := q
    simp only [replaceEntries]
    split
    · rename_i e; simp [e]
    · rename_i e
      simp only [hasKey, Bool.or_eq_true, decide_eq_true_eq] at hk
      rcases hk with e' | e'
      · exact absurd e' e
      · simp [ih e']

theorem self_mem_insertEntries (es : Entries) (v : Addr) (l : List Entry) : (v, l) ∈ insertEntries es v l := by
  induction es with
  | nil => simp [insertEntries]
  | cons q r ih =>
    obtain ⟨k, x⟩ := q
    simp only [insertEntries]
    split
    · simp
    · simp [ih]

theorem self_mem_setEntries (es : Entries) (v : Addr) (l : List Entry) : (v, l) ∈ setEntries es v l := by
  unfold setEntries
  split
  · rename_i h; exact self_mem_replaceEntries h
  · exact self_mem_insertEntries es v l

/-- an old record survives a `Set` unless it is the one that was read -/
theorem mem_old_replaceEntries {es : Entries} {v : Addr} {l : List Entry} {p : Addr × List Entry} (h : p ∈ es) :
    p ∈ replaceEntries es v l ∨ p = (v, getEntries es v) := by
  induction es with
  | nil => simp at h
  | cons q r ih =>
    obtain ⟨k, x⟩ := q
    simp only [replaceEntries, getEntries]
    split
    · rename_i e
      rcases List.mem_cons.1 h with e' | e'
      · right; rw [e', e]
      · left; simp [e']
    · rcases List.mem_cons.1 h with e' | e'
      · left; simp [e']
      · rcases ih e' with e'' | e''
        · left; simp [e'']
        · right; exact e''

theorem mem_old_insertEntries {es : Entries} {v : Addr} {l : List Entry} {p : Addr × List Entry} (h : p ∈ es) :
    p ∈ insertEntries es v l := by
  induction es with
  | nil => simp at h
  | cons q r ih =>
    obtain ⟨k, x⟩ := q
    simp only [insertEntries]
    split
    · simp [h]
    · rcases List.mem_cons.1 h with e' | e'
      · simp [e']
      · simp [ih e']

theorem mem_old_setEntries {es : Entries} {v : Addr} {l : List Entry} {p : Addr × List Entry} (h : p ∈ es) :
    p ∈ setEntries es v l ∨ p = (v, getEntries es v) := by
  unfold setEntries
  split
  · exact mem_old_replaceEntries h
  · left; exact mem_old_insertEntries h

theorem getEntries_nokey {es : Entries} {v : Addr} (h : hasKey es v = false) : getEntries es v = [] := by
  induction es with
  | nil => rfl
  | cons q r ih =>
    obtain ⟨k, x⟩ := q
    simp only [hasKey, Bool.or_eq_false_iff, decide_eq_false_iff_not] at h
    simp only [getEntries, h.1, if_false]
    exact ih h.2

theorem getEntries_mem {es : Entries} {v : Addr} (h : getEntries es v ≠ []) : (v, getEntries es v) ∈ es := by
  induction es with
  | nil => simp [getEntries] at h
  | cons q r ih =>
    obtain ⟨k, x⟩ := q
    simp only [getEntries] at h ⊢
    split
    · rename_i e; simp [e]
    · rename_i e
      simp only [e, if_false] at h
      simp [ih h]

theorem total_replaceEntries (es : Entries) (v : Addr) (l : List Entry) (hk : hasKey es v = true) :
    totalEntries (replaceEntries es v l) = totalEntries es - sumEntries (getEntries es v) + sumEntries l := by
  induction es with
  | nil => simp [hasKey] at hk
  | cons q r ih =>
    obtain ⟨k, x⟩ := q
    simp only [replaceEntries, getEntries]
    split
    · simp only [totalEntries]; omega
    · rename_i e
      simp only [hasKey, Bool.or_eq_true, decide_eq_true_eq] at hk
      rcases hk with e' | e'
      · exact absurd e' e
      · simp only [totalEntries]; rw [ih e']; omega

theorem total_insertEntries (es : Entries) (v : Addr) (l : List Entry) :
    totalEntries (insertEntries es v l) = totalEntries es + sumEntries l := by
  induction es with
  | nil => simp [insertEntries, totalEntries]
  | cons q r ih =>
    obtain ⟨k, x⟩ := q
    simp only [insertEntries]
    split
    · simp only [totalEntries]; omega
    · simp only [totalEntries]; rw [ih]; omega

theorem total_setEntries (es : Entries) (v : Addr) (l : List Entry) :
    totalEntries (setEntries es v l) = totalEntries es - sumEntries (getEntries es v) + sumEntries l := by
  unfold setEntries
  split
  · rename_i h; exact total_replaceEntries es v l h
  · rename_i h
    have h' : hasKey es v = false := by simpa using h
    rw [total_insertEntries, getEntries_nokey h']; simp [sumEntries]

theorem blockedEntries_false {v : Variant} {now : Int} {es : Entries} :
    blockedEntries v now es = false ↔ ∀ p ∈ es, blockedList v now p.2 = false := by
  unfold blockedEntries
  simp [List.any_eq_false]

theorem nv_reject_zero : kUndelReject .nv 0 = true := by decide
theorem sd_reject_zero : kUndelReject .sd 0 = true := by decide

theorem blockedList_nv_false {now : Int} {l : List Entry} :
    blockedList .nv now l = false ↔ ∀ h, l.head? = some h → now < h.endT := by
  cases l with
  | nil => simp [blockedList]
  | cons e r => simp [blockedList, nv_reject_zero]

/-! ### schedule, at `lockedAt` level -/

theorem lockedAt_range (v : Variant) (ol st en t l : Int) (ho : 0 ≤ ol) (hl : lockedAt v ol st en t = .ok l) :
    0 ≤ l ∧ l ≤ ol := by
  have hv : ∃ sd, v = vOf sd := by cases v; exact ⟨false, rfl⟩; exact ⟨true, rfl⟩
  obtain ⟨sd, rfl⟩ := hv
  unfold lockedAt at hl
  have := C12.schedule_range sd ol st en t
  unfold S_schedule_range lockOk unlockedVal lockedVal at this
  cases hi : lockInfo (vOf sd) ol st en t with
  | ok p =>
    simp [hi, Res.bind] at hl
    have := this ho (by simp [hi, Res.isOk])
    simp [hi] at this
    omega
  | err c => simp [hi, Res.bind] at hl
  | panic k => simp [hi, Res.bind] at hl

theorem lockedAt_antitone (v : Variant) (ol st en t1 t2 l1 l2 : Int) (ho : 0 ≤ ol) (h12 : t1 ≤ t2)
    (hl1 : lockedAt v ol st en t1 = .ok l1) (hl2 : lockedAt v ol st en t2 = .ok l2) : l2 ≤ l1 := by
  have hv : ∃ sd, v = vOf sd := by cases v; exact ⟨false, rfl⟩; exact ⟨true, rfl⟩
  obtain ⟨sd, rfl⟩ := hv
  unfold lockedAt at hl1 hl2
  have := C12.locked_antitone sd ol st en t1 t2
  unfold S_locked_antitone lockOk lockedVal at this
  cases hi1 : lockInfo (vOf sd) ol st en t1 with
  | ok p1 =>
    cases hi2 : lockInfo (vOf sd) ol st en t2 with
    | ok p2 =>
      simp [hi1, hi2, Res.bind] at hl1 hl2
      have := this ho h12 (by simp [hi1, Res.isOk]) (by simp [hi2, Res.isOk])
      simp [hi1, hi2] at this
      omega
    | err c => simp [hi2, Res.bind] at hl2
    | panic k => simp [hi2, Res.bind] at hl2
  | err c => simp [hi1, Res.bind] at hl1
  | panic k => simp [hi1, Res.bind] at hl1

theorem notBonded_val (v : Variant) {l dv : Int} (hl : 0 ≤ l) (hd : 0 ≤ dv) :
    notBondedLocked v l dv = max (l - dv) 0 := by
  cases v
  · exact C12.notBonded_eq false l dv hl hd
  · exact C12.notBonded_eq true l dv hl hd

/-! ### end-block folds -/

/-- staking end-block: what is released arrives at the delegator in the bond denom; no other denom moves -/
theorem release_facts (t : Int) (l : List Unb) (b : Bank) (hw : ∀ u ∈ l, u.who = "plock" ∨ u.who = "pown")
    (hn : C12.UnbNonneg l) :
    let r := releaseUbds b t l
    (∀ a d, d ≠ bond → r.1.bal a d = b.bal a d)
    ∧ r.1.bal "plock" bond + sumUnb "plock" r.2 = b.bal "plock" bond + sumUnb "plock" l
    ∧ b.bal "plock" bond ≤ r.1.bal "plock" bond
    ∧ (∀ u ∈ r.2, u ∈ l) := by
  induction l generalizing b with
  | nil => simp [releaseUbds]
  | cons u r ih =>
    have hu := hw u (by simp)
    have hun := hn u (by simp)
    have hw' : ∀ v ∈ r, v.who = "plock" ∨ v.who = "pown" := fun v hv => hw v (by simp [hv])
    have hn' : C12.UnbNonneg r := fun v hv => hn v (by simp [hv])
    simp only [releaseUbds]
    split
    · have := ih ((b.credit stakingPool bond (-u.amount)).credit u.who bond u.amount) hw' hn'
      simp only at this
      obtain ⟨f1, f3, f4, f5⟩ := this
      refine ⟨?_, ?_, ?_, ?_⟩
      · intro a d hd; rw [f1 a d hd]; simp [Bank.credit_bal, hd]
      · rw [f3]; simp only [sumUnb, Bank.credit_bal, stakingPool]
        rcases hu with h | h <;> simp [h] <;> omega
      · refine Int.le_trans ?_ f4
        simp only [Bank.credit_bal, stakingPool]
        rcases hu with h | h <;> simp [h] <;> omega
      · intro v hv; simp [f5 v hv]
    · have := ih b hw' hn'
      simp only at this
      obtain ⟨f1, f3, f4, f5⟩ := this
      refine ⟨f1, ?_, f4, ?_⟩
      · simp only [sumUnb]; omega
      · intro v hv
        simp only [List.mem_cons] at hv ⊢
        rcases hv with h | h
        · exact Or.inl h
        · exact Or.inr (f5 v h)

/-- shareclass end-block payout (all recipients = the lockup account): fee balance + pending unbondings is conserved,
    only the fee denom (recipient) and the bond denom (staking pool) move, and nothing happens while nothing is due -/
theorem pay_facts (t : Int) (l : List Unb) (b : Bank) (hw : ∀ u ∈ l, 0 ≤ u.amount ∧ u.who = lock) :
    let r := payScUnb b t l
    r.1.bal lock fee + sumUnb lock r.2 = b.bal lock fee + sumUnb lock l
    ∧ b.bal lock fee ≤ r.1.bal lock fee
    ∧ (∀ a d, d ≠ fee → d ≠ bond → r.1.bal a d = b.bal a d)
    ∧ r.1.bal "plock" bond = b.bal "plock" bond
    ∧ (∀ u ∈ r.2, u ∈ l)
    ∧ ((∀ u ∈ l, t < u.completion) → r = (b, l)) := by
  induction l generalizing b with
  | nil => simp [payScUnb]
  | cons u r ih =>
    have hu := hw u (by simp)
    have hw' : ∀ v ∈ r, 0 ≤ v.amount ∧ v.who = lock := fun v hv => hw v (by simp [hv])
    simp only [payScUnb]
    split
    · rename_i hc
      have := ih (payOne b u) hw'
      simp only at this
      obtain ⟨f1, f2, f3, f4, f5, f6⟩ := this
      refine ⟨?_, ?_, ?_, ?_, ?_, ?_⟩
      · rw [f1]; simp [payOne, sumUnb, Bank.credit_bal, hu.2, lock, fee, bond, stakingPool]; omega
      · refine Int.le_trans ?_ f2
        simp [payOne, Bank.credit_bal, hu.2, lock, fee, bond, stakingPool]; omega
      · intro a d h1 h2; rw [f3 a d h1 h2]; simp [payOne, Bank.credit_bal, h1, h2]
      · rw [f4]; simp [payOne, Bank.credit_bal, hu.2, lock, fee, bond, stakingPool]
      · intro v hv; simp [f5 v hv]
      · intro hall; have := hall u (by simp); omega
    · have := ih b hw'
      simp only at this
      obtain ⟨f1, f2, f3, f4, f5, f6⟩ := this
      refine ⟨?_, f2, f3, f4, ?_, ?_⟩
      · simp only [sumUnb]; omega
      · intro v hv
        simp only [List.mem_cons] at hv ⊢
        rcases hv with h | h
        · exact Or.inl h
        · exact Or.inr (f5 v h)
      · intro hall
        have := f6 (fun v hv => hall v (by simp [hv]))
        rw [this]

end Sunrise.LockupMV
