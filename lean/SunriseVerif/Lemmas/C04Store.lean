import SunriseVerif.Props.C04RefineLoop

/-!
Helper lemmas for `Props/C04Store.lean`: sums of position liquidity over the position store of `Model/CL.lean`, the effect
of the position writes of `UpdatePosition` on them, the sorted tick store, frames of the handlers that do not touch the
bookkeeping; for swaps: `swap_inv_ok` (all derived operations admissible), `swap_guarded_of_moves` / `swap_inv_ok'` (the
CROSS guards proved from the sorted tick store without empty ticks — only the `moveWithin` guards assumed),
`swap_written_back_live` / `swap_H2_of_tickPrices` (liveness of the written-back pool from non-zero tick prices).
-/
namespace Sunrise.C04StoreL
open Sunrise Sunrise.CL Sunrise.C04Refine
open Sunrise.C05Loop (bind_ok res_ok_inj)
open Sunrise.C04Interval (err_bind ok_bind panic_bind ite_err_ok ite_ok)

/-! ### sums over the position store -/

/-- Σ `liq.raw` over the positions satisfying `c` -/
def sumLiq (c : Position → Bool) : List Position → Int
  | [] => 0
  | x :: xs => (if c x then x.liq.raw else 0) + sumLiq c xs

theorem sumLiq_append (c : Position → Bool) (a b : List Position) : sumLiq c (a ++ b) = sumLiq c a + sumLiq c b := by
  induction a with
  | nil => simp [sumLiq]
  | cons x xs ih => simp only [List.cons_append, sumLiq, ih]; omega

theorem sumLiq_nonneg (c : Position → Bool) (l : List Position) (h : ∀ x ∈ l, 0 ≤ x.liq.raw) : 0 ≤ sumLiq c l := by
  induction l with
  | nil => simp [sumLiq]
  | cons x xs ih =>
    have hx := h x List.mem_cons_self
    have := ih (fun y hy => h y (List.mem_cons_of_mem _ hy))
    simp only [sumLiq]; split <;> omega

theorem sumLiq_pos_of_mem (c : Position → Bool) (l : List Position) (h : ∀ x ∈ l, 0 ≤ x.liq.raw)
    {x : Position} (hx : x ∈ l) (hc : c x = true) (hp : 0 < x.liq.raw) : 0 < sumLiq c l := by
  induction l with
  | nil => cases hx
  | cons y ys ih =>
    have hn := sumLiq_nonneg c ys (fun z hz => h z (List.mem_cons_of_mem _ hz))
    have hy := h y List.mem_cons_self
    simp only [sumLiq]
    rcases List.mem_cons.mp hx with e | hm
    · subst e; simp only [hc, if_true]; omega
    · have := ih (fun z hz => h z (List.mem_cons_of_mem _ hz)) hm
      split <;> omega

theorem sumLiq_ne_zero_exists (c : Position → Bool) (l : List Position) (h : sumLiq c l ≠ 0) : ∃ x ∈ l, c x = true := by
  induction l with
  | nil => simp [sumLiq] at h
  | cons y ys ih =>
    by_cases hy : c y = true
    · exact ⟨y, List.mem_cons_self, hy⟩
    · simp only [sumLiq, hy] at h
      obtain ⟨x, hx, hcx⟩ := ih (by simpa using h)
      exact ⟨x, List.mem_cons_of_mem _ hx, hcx⟩

theorem sumLiq_congr (c c' : Position → Bool) (l : List Position) (h : ∀ x ∈ l, c x = c' x) : sumLiq c l = sumLiq c' l := by
  induction l with
  | nil => rfl
  | cons y ys ih =>
    simp only [sumLiq, h y List.mem_cons_self, ih (fun z hz => h z (List.mem_cons_of_mem _ hz))]

theorem sumLiq_none (c : Position → Bool) (l : List Position) (h : ∀ x ∈ l, c x = false) : sumLiq c l = 0 := by
  induction l with
  | nil => rfl
  | cons y ys ih =>
    simp only [sumLiq, h y List.mem_cons_self, ih (fun z hz => h z (List.mem_cons_of_mem _ hz))]
    simp

/-! ### position writes under distinct ids -/

theorem filter_ne_id_self (l : List Position) (id : Nat) (h : id ∉ l.map (·.id)) : l.filter (·.id != id) = l := by
  apply List.filter_eq_self.mpr
  intro x hx
  have : x.id ≠ id := fun e => h (e ▸ List.mem_map.mpr ⟨x, hx, rfl⟩)
  simpa using this

theorem map_replace_self (l : List Position) (id : Nat) (q : Position) (h : id ∉ l.map (·.id)) :
    (l.map fun x => if x.id == id then q else x) = l := by
  conv => rhs; rw [← List.map_id l]
  apply List.map_congr_left
  intro x hx
  have : x.id ≠ id := fun e => h (e ▸ List.mem_map.mpr ⟨x, hx, rfl⟩)
  simp [this]

/-- removing the (unique) record of id `id` takes its liquidity out of every sum -/
theorem sumLiq_filter_id (c : Position → Bool) (l : List Position) (id : Nat) (pos : Position)
    (hnd : (l.map (·.id)).Nodup) (hq : l.find? (·.id == id) = some pos) :
    sumLiq c (l.filter (·.id != id)) = sumLiq c l - (if c pos then pos.liq.raw else 0) := by
  induction l with
  | nil => simp at hq
  | cons x xs ih =>
    have hnd' := List.nodup_cons.mp (show (x.id :: xs.map (·.id)).Nodup from hnd)
    simp only [List.find?_cons] at hq
    by_cases hx : (x.id == id) = true
    · simp only [hx] at hq
      have e : x = pos := Option.some.inj hq
      subst e
      have hid : x.id = id := by simpa using hx
      have hne : (x.id != id) = false := by simp [hid]
      simp only [List.filter_cons, hne, Bool.false_eq_true, if_false, sumLiq]
      rw [filter_ne_id_self xs id (by rw [← hid]; exact hnd'.1)]
      omega
    · have hx' : (x.id == id) = false := by simpa using hx
      simp only [hx'] at hq
      have hne : (x.id != id) = true := by simpa using hx
      simp only [List.filter_cons, hne, if_true, sumLiq]
      rw [ih hnd'.2 hq]
      omega

/-- rewriting the (unique) record of id `id` exchanges its liquidity in every sum -/
theorem sumLiq_map_id (c : Position → Bool) (l : List Position) (id : Nat) (pos q : Position)
    (hnd : (l.map (·.id)).Nodup) (hq : l.find? (·.id == id) = some pos) :
    sumLiq c (l.map fun x => if x.id == id then q else x)
      = sumLiq c l - (if c pos then pos.liq.raw else 0) + (if c q then q.liq.raw else 0) := by
  induction l with
  | nil => simp at hq
  | cons x xs ih =>
    have hnd' := List.nodup_cons.mp (show (x.id :: xs.map (·.id)).Nodup from hnd)
    simp only [List.find?_cons] at hq
    by_cases hx : (x.id == id) = true
    · simp only [hx] at hq
      have e : x = pos := Option.some.inj hq
      subst e
      have hid : x.id = id := by simpa using hx
      simp only [List.map_cons, hx, if_true, sumLiq]
      rw [map_replace_self xs id q (by rw [← hid]; exact hnd'.1)]
      omega
    · have hx' : (x.id == id) = false := by simpa using hx
      simp only [hx'] at hq
      simp only [List.map_cons, hx', Bool.false_eq_true, if_false, sumLiq]
      rw [ih hnd'.2 hq]
      omega

theorem find_some_any {l : List Position} {id : Nat} {pos : Position} (hq : l.find? (·.id == id) = some pos) :
    l.any (·.id == id) = true := by
  have h1 := List.find?_some hq
  exact List.any_eq_true.mpr ⟨pos, List.mem_of_find?_eq_some hq, h1⟩

/-- the positions after the position write of `UpdatePosition` (`s3Of`) -/
theorem s3Of_positions (s2 : St) (posId : Nat) (pos : Position) (delta : Dec) (hq : getPosition s2 posId = some pos) :
    (s3Of s2 posId pos delta).positions =
      if (Dec.add pos.liq delta).isZero then s2.positions.filter (·.id != posId)
      else s2.positions.map fun x => if x.id == posId then { pos with liq := Dec.add pos.liq delta } else x := by
  have hid : pos.id = posId := by
    have := List.find?_some hq
    simpa using this
  unfold s3Of
  split
  · rfl
  · unfold setPosition
    have hany : s2.positions.any (fun x => x.id == ({ pos with liq := Dec.add pos.liq delta } : Position).id) = true := by
      simp only [hid]; exact find_some_any hq
    rw [if_pos hany]
    simp only [hid]

/-- **sums after the position write of `UpdatePosition`**: a sum whose predicate ignores the liquidity field changes by
    `delta` exactly when the written position satisfies the predicate (ids distinct) -/
theorem sumLiq_s3Of (c : Position → Bool) (hc : ∀ (x : Position) (l : Dec), c { x with liq := l } = c x)
    (s2 : St) (posId : Nat) (pos : Position) (delta : Dec)
    (hnd : (s2.positions.map (·.id)).Nodup) (hq : getPosition s2 posId = some pos) :
    sumLiq c (s3Of s2 posId pos delta).positions = sumLiq c s2.positions + (if c pos then delta.raw else 0) := by
  rw [s3Of_positions s2 posId pos delta hq]
  by_cases hz : (Dec.add pos.liq delta).isZero = true
  · rw [if_pos hz]
    have hz' : pos.liq.raw + delta.raw = 0 := by simpa [Dec.isZero, Dec.add] using hz
    rw [sumLiq_filter_id c _ posId pos hnd hq]
    by_cases hcp : c pos = true
    · simp only [hcp, if_true]; omega
    · simp only [hcp, Bool.false_eq_true, if_false]; omega
  · rw [if_neg hz]
    rw [sumLiq_map_id c _ posId pos _ hnd hq]
    have hc' := hc pos (Dec.add pos.liq delta)
    rw [hc']
    simp only [Dec.add]
    by_cases hcp : c pos = true
    · simp only [hcp, if_true]; omega
    · simp only [hcp, Bool.false_eq_true, if_false]; omega

theorem s3Of_ids_nodup (s2 : St) (posId : Nat) (pos : Position) (delta : Dec)
    (hnd : (s2.positions.map (·.id)).Nodup) (hq : getPosition s2 posId = some pos) :
    ((s3Of s2 posId pos delta).positions.map (·.id)).Nodup := by
  have hid : pos.id = posId := by
    have := List.find?_some hq
    simpa using this
  rw [s3Of_positions s2 posId pos delta hq]
  split
  · exact hnd.sublist (List.Sublist.map _ List.filter_sublist)
  · have : ((s2.positions.map fun x => if x.id == posId then { pos with liq := Dec.add pos.liq delta } else x).map (·.id))
        = s2.positions.map (·.id) := by
      rw [List.map_map]
      apply List.map_congr_left
      intro x _
      simp only [Function.comp]
      by_cases hx : (x.id == posId) = true
      · simp only [hx, if_true, hid]; exact (by simpa using hx : x.id = posId).symm
      · simp [hx]
    rw [this]; exact hnd

/-- members of the position store after the write: old members, or the rewritten record -/
theorem s3Of_mem (s2 : St) (posId : Nat) (pos : Position) (delta : Dec) (hq : getPosition s2 posId = some pos)
    {x : Position} (hx : x ∈ (s3Of s2 posId pos delta).positions) :
    (x ∈ s2.positions ∧ x.id ≠ posId) ∨
      (x = { pos with liq := Dec.add pos.liq delta } ∧ (Dec.add pos.liq delta).isZero = false) := by
  rw [s3Of_positions s2 posId pos delta hq] at hx
  split at hx
  · have := List.mem_filter.mp hx
    exact Or.inl ⟨this.1, by simpa using this.2⟩
  · rename_i hz
    obtain ⟨y, hy, he⟩ := List.mem_map.mp hx
    by_cases hyid : (y.id == posId) = true
    · simp only [hyid, if_true] at he
      exact Or.inr ⟨he.symm, by simpa using hz⟩
    · simp only [hyid, Bool.false_eq_true, if_false] at he
      subst he
      exact Or.inl ⟨hy, by simpa using hyid⟩

/-- old members with another id survive the write -/
theorem s3Of_mem_other (s2 : St) (posId : Nat) (pos : Position) (delta : Dec) (hq : getPosition s2 posId = some pos)
    {x : Position} (hx : x ∈ s2.positions) (hne : x.id ≠ posId) : x ∈ (s3Of s2 posId pos delta).positions := by
  rw [s3Of_positions s2 posId pos delta hq]
  split
  · exact List.mem_filter.mpr ⟨hx, by simpa using hne⟩
  · apply List.mem_map.mpr
    exact ⟨x, hx, by simp [hne]⟩

/-! ### the three sums of the bookkeeping statement -/

def inRangeOf (pool : Nat) (t : Int) (x : Position) : Bool := x.pool == pool && decide (x.lower ≤ t ∧ t < x.upper)
def lowerAtOf (pool : Nat) (t : Int) (x : Position) : Bool := x.pool == pool && decide (x.lower = t)
def upperAtOf (pool : Nat) (t : Int) (x : Position) : Bool := x.pool == pool && decide (x.upper = t)

/-- the bookkeeping equations in total-function form (`grossOf` / `netOf` read 0 for an absent tick) -/
structure Sums (s : St) (pool : Nat) : Prop where
  active : ∀ p, getPool s pool = some p → p.liq.raw = sumLiq (inRangeOf pool p.tick) s.positions
  gross : ∀ t, grossOf s pool t = sumLiq (lowerAtOf pool t) s.positions + sumLiq (upperAtOf pool t) s.positions
  net : ∀ t, netOf s pool t = sumLiq (lowerAtOf pool t) s.positions - sumLiq (upperAtOf pool t) s.positions

theorem poolHasPosition_iff (s : St) (pool : Nat) : poolHasPosition s pool = true ↔ ∃ x ∈ s.positions, x.pool = pool := by
  unfold poolHasPosition
  rw [List.any_eq_true]
  constructor
  · rintro ⟨x, hx, h⟩; exact ⟨x, hx, by simpa using h⟩
  · rintro ⟨x, hx, h⟩; exact ⟨x, hx, by simpa using h⟩

theorem poolHasPosition_false (s : St) (pool : Nat) (h : poolHasPosition s pool = false) : ∀ x ∈ s.positions, x.pool ≠ pool := by
  intro x hx e
  have := (poolHasPosition_iff s pool).mpr ⟨x, hx, e⟩
  rw [h] at this; cases this

theorem sum_no_pool (s : St) (pool : Nat) (h : poolHasPosition s pool = false) (c : Position → Bool)
    (hc : ∀ x, c x = true → x.pool = pool) : sumLiq c s.positions = 0 := by
  apply sumLiq_none
  intro x hx
  cases hcx : c x with
  | false => rfl
  | true => exact absurd (hc x hcx) (poolHasPosition_false s pool h x hx)

theorem inRangeOf_pool {pool : Nat} {t : Int} {x : Position} (h : inRangeOf pool t x = true) : x.pool = pool := by
  unfold inRangeOf at h; simp only [Bool.and_eq_true, beq_iff_eq] at h; exact h.1
theorem lowerAtOf_pool {pool : Nat} {t : Int} {x : Position} (h : lowerAtOf pool t x = true) : x.pool = pool := by
  unfold lowerAtOf at h; simp only [Bool.and_eq_true, beq_iff_eq] at h; exact h.1
theorem upperAtOf_pool {pool : Nat} {t : Int} {x : Position} (h : upperAtOf pool t x = true) : x.pool = pool := by
  unfold upperAtOf at h; simp only [Bool.and_eq_true, beq_iff_eq] at h; exact h.1

/-- **`UpdatePosition` keeps the three bookkeeping equations of every pool** (total-function form), when it is applied to a
    stored position with its own pool and bounds, position ids being distinct -/
theorem updatePosition_sums {s s' : St} {pool : Nat} {lo hi : Int} {delta : Dec} {posId : Nat} {ab aq : Int} {loE hiE : Bool}
    {pos : Position} (h : updatePosition s pool lo hi delta posId = .ok (s', ab, aq, loE, hiE))
    (hS : ∀ pl, Sums s pl) (hnd : (s.positions.map (·.id)).Nodup) (hq : getPosition s posId = some pos)
    (hpp : pos.pool = pool) (hlo : pos.lower = lo) (hhi : pos.upper = hi) : ∀ pl, Sums s' pl := by
  obtain ⟨s1, s2, p, pos', _, _, hp, hq', _, _, hposs2, _, _, _, hposs, _⟩ := updatePosition_frames h
  have e : pos' = pos := by rw [hq] at hq'; exact (Option.some.inj hq').symm
  subst e
  have hsum : ∀ c : Position → Bool, (∀ (x : Position) (l : Dec), c { x with liq := l } = c x) →
      sumLiq c s'.positions = sumLiq c s.positions + (if c pos' then delta.raw else 0) := by
    intro c hc
    rw [hposs, sumLiq_s3Of c hc s2 posId pos' delta (by rw [hposs2]; exact hnd)
      (by rw [getPosition_congr hposs2]; exact hq), hposs2]
  have hticks := updatePosition_ticks h
  intro pl
  by_cases hpl : pl = pool
  · subst hpl
    have cL : ∀ t, lowerAtOf pl t pos' = decide (lo = t) := by intro t; simp [lowerAtOf, hpp, hlo]
    have cU : ∀ t, upperAtOf pl t pos' = decide (hi = t) := by intro t; simp [upperAtOf, hpp, hhi]
    refine ⟨?_, ?_, ?_⟩
    · intro p'' hp''
      obtain ⟨p', hp', _, hlive, hdead⟩ := updatePosition_pool h hp
      have e : p'' = p' := by rw [hp'] at hp''; exact (Option.some.inj hp'').symm
      subst e
      cases hhas : poolHasPosition s' pl with
      | true =>
        obtain ⟨ht, _, hl⟩ := hlive hhas
        rw [hl, ht, hsum _ (fun _ _ => rfl), ← (hS pl).active p hp]
        have : inRangeOf pl p.tick pos' = decide (lo ≤ p.tick ∧ p.tick < hi) := by simp [inRangeOf, hpp, hlo, hhi]
        rw [this]
        by_cases c : lo ≤ p.tick ∧ p.tick < hi
        · simp [c]
        · simp [c]
      | false =>
        obtain ⟨hl, _, _⟩ := hdead hhas
        rw [hl, sum_no_pool s' pl hhas _ (fun x hx => inRangeOf_pool hx)]; rfl
    · intro t
      rw [(hticks.1 t).1, hsum _ (fun _ _ => rfl), hsum (upperAtOf pl t) (fun _ _ => rfl), (hS pl).gross t, cL, cU]
      by_cases c1 : t = lo <;> by_cases c2 : t = hi <;> simp [c1, c2, eq_comm] <;> omega
    · intro t
      rw [(hticks.1 t).2, hsum _ (fun _ _ => rfl), hsum (upperAtOf pl t) (fun _ _ => rfl), (hS pl).net t, cL, cU]
      by_cases c1 : t = lo <;> by_cases c2 : t = hi <;> simp [c1, c2, eq_comm] <;> omega
  · have hne : (pos'.pool == pl) = false := by rw [hpp]; simpa using (fun e => hpl e.symm)
    have hg := updatePosition_other_pools h pl hpl
    refine ⟨?_, ?_, ?_⟩
    · intro p'' hp''
      rw [hg] at hp''
      rw [hsum _ (fun _ _ => rfl), (hS pl).active p'' hp'']
      simp [inRangeOf, hne]
    · intro t
      rw [(hticks.2 pl t hpl).1, hsum _ (fun _ _ => rfl), hsum (upperAtOf pl t) (fun _ _ => rfl), (hS pl).gross t]
      simp [lowerAtOf, upperAtOf, hne]
    · intro t
      rw [(hticks.2 pl t hpl).2, hsum _ (fun _ _ => rfl), hsum (upperAtOf pl t) (fun _ _ => rfl), (hS pl).net t]
      simp [lowerAtOf, upperAtOf, hne]

/-! ### the tick store: sorted by (pool, tick), hence keys distinct -/

def keyOf (x : TickInfo) : Nat × Int := (x.pool, x.tick)
def keyLt (a b : Nat × Int) : Prop := a.1 < b.1 ∨ (a.1 = b.1 ∧ a.2 < b.2)
def TicksSorted (l : List TickInfo) : Prop := (l.map keyOf).Pairwise keyLt

theorem tickLt_iff (a b : TickInfo) : tickLt a b = true ↔ keyLt (keyOf a) (keyOf b) := by
  unfold tickLt keyLt keyOf; simp

theorem keyLt_trans {a b c : Nat × Int} (h1 : keyLt a b) (h2 : keyLt b c) : keyLt a c := by
  unfold keyLt at *; omega

theorem keyLt_irrefl (a : Nat × Int) : ¬ keyLt a a := by unfold keyLt; omega

theorem keyLt_tri {a b : Nat × Int} (hne : a ≠ b) (h : ¬ keyLt a b) : keyLt b a := by
  unfold keyLt at *
  have : a.1 ≠ b.1 ∨ a.2 ≠ b.2 := by
    by_cases e1 : a.1 = b.1
    · right; intro e2; exact hne (Prod.ext e1 e2)
    · exact Or.inl e1
  omega

theorem sameKey_iff (h x : TickInfo) : (h.pool == x.pool && h.tick == x.tick) = true ↔ keyOf h = keyOf x := by
  unfold keyOf; simp

theorem mem_insertTick {l : List TickInfo} {x y : TickInfo} (h : y ∈ insertTick l x) : y = x ∨ y ∈ l := by
  induction l with
  | nil => simp [insertTick] at h; exact Or.inl h
  | cons a r ih =>
    unfold insertTick at h
    split at h
    · rcases List.mem_cons.mp h with e | hm
      · exact Or.inl e
      · exact Or.inr (List.mem_cons_of_mem _ hm)
    · split at h
      · rcases List.mem_cons.mp h with e | hm
        · exact Or.inl e
        · exact Or.inr hm
      · rcases List.mem_cons.mp h with e | hm
        · exact Or.inr (e ▸ List.mem_cons_self)
        · rcases ih hm with e | hm'
          · exact Or.inl e
          · exact Or.inr (List.mem_cons_of_mem _ hm')

theorem sorted_cons {a : TickInfo} {r : List TickInfo} :
    TicksSorted (a :: r) ↔ (∀ b ∈ r, keyLt (keyOf a) (keyOf b)) ∧ TicksSorted r := by
  unfold TicksSorted
  rw [List.map_cons, List.pairwise_cons]
  constructor
  · rintro ⟨h1, h2⟩; exact ⟨fun b hb => h1 _ (List.mem_map.mpr ⟨b, hb, rfl⟩), h2⟩
  · rintro ⟨h1, h2⟩
    refine ⟨fun k hk => ?_, h2⟩
    obtain ⟨b, hb, e⟩ := List.mem_map.mp hk
    rw [← e]; exact h1 b hb

theorem insertTick_sorted (l : List TickInfo) (x : TickInfo) (hs : TicksSorted l) : TicksSorted (insertTick l x) := by
  induction l with
  | nil => unfold insertTick TicksSorted; simp
  | cons a r ih =>
    obtain ⟨h1, h2⟩ := sorted_cons.mp hs
    unfold insertTick
    split
    · rename_i hk
      have e := (sameKey_iff a x).mp hk
      exact sorted_cons.mpr ⟨fun b hb => e ▸ h1 b hb, h2⟩
    · rename_i hk
      have hne : keyOf a ≠ keyOf x := fun e => hk ((sameKey_iff a x).mpr e)
      split
      · rename_i hlt
        have hlt' := (tickLt_iff x a).mp hlt
        refine sorted_cons.mpr ⟨fun b hb => ?_, hs⟩
        rcases List.mem_cons.mp hb with e | hm
        · rw [e]; exact hlt'
        · exact keyLt_trans hlt' (h1 b hm)
      · rename_i hlt
        have hlt' : ¬ keyLt (keyOf x) (keyOf a) := fun c => hlt ((tickLt_iff x a).mpr c)
        have hax : keyLt (keyOf a) (keyOf x) := keyLt_tri (fun e => hne e.symm) hlt'
        refine sorted_cons.mpr ⟨fun b hb => ?_, ih h2⟩
        rcases mem_insertTick hb with e | hm
        · rw [e]; exact hax
        · exact h1 b hm

/-- writing an entry whose key is already stored keeps the key list (sorted store) -/
theorem insertTick_keys_of_mem (l : List TickInfo) (x : TickInfo) (hs : TicksSorted l) (hm : keyOf x ∈ l.map keyOf) :
    (insertTick l x).map keyOf = l.map keyOf := by
  induction l with
  | nil => simp at hm
  | cons a r ih =>
    obtain ⟨h1, h2⟩ := sorted_cons.mp hs
    unfold insertTick
    split
    · rename_i hk
      have e := (sameKey_iff a x).mp hk
      simp only [List.map_cons, e]
    · rename_i hk
      have hne : keyOf a ≠ keyOf x := fun e => hk ((sameKey_iff a x).mpr e)
      have hmr : keyOf x ∈ r.map keyOf := by
        rcases List.mem_cons.mp (by simpa using hm : keyOf x ∈ keyOf a :: r.map keyOf) with e | h
        · exact absurd e.symm hne
        · exact h
      obtain ⟨b, hb, eb⟩ := List.mem_map.mp hmr
      have hax : keyLt (keyOf a) (keyOf x) := by rw [← eb]; exact h1 b hb
      have hlt : ¬ tickLt x a = true := fun c => keyLt_irrefl _ (keyLt_trans hax ((tickLt_iff x a).mp c))
      rw [if_neg hlt]
      simp only [List.map_cons, ih h2 hmr]

theorem filter_sorted (l : List TickInfo) (f : TickInfo → Bool) (hs : TicksSorted l) : TicksSorted (l.filter f) := by
  unfold TicksSorted at *
  exact hs.sublist (List.Sublist.map _ List.filter_sublist)

theorem sorted_keys_nodup (l : List TickInfo) (hs : TicksSorted l) : (l.map fun x => (x.pool, x.tick)).Nodup := by
  unfold TicksSorted at hs
  have : (l.map keyOf).Nodup := hs.imp (fun {a b} (h : keyLt a b) (e : a = b) => keyLt_irrefl a (by rw [← e] at h; exact h))
  exact this

theorem findTick_isSome_iff (s : St) (p : Nat) (t : Int) : (findTick s p t).isSome = true ↔ (p, t) ∈ s.ticks.map keyOf := by
  unfold findTick
  rw [List.find?_isSome]
  constructor
  · rintro ⟨x, hx, h⟩
    simp only [Bool.and_eq_true, beq_iff_eq] at h
    exact List.mem_map.mpr ⟨x, hx, by unfold keyOf; rw [h.1, h.2]⟩
  · intro h
    obtain ⟨x, hx, e⟩ := List.mem_map.mp h
    unfold keyOf at e
    have e1 : x.pool = p := congrArg Prod.fst e
    have e2 : x.tick = t := congrArg Prod.snd e
    exact ⟨x, hx, by simp [e1, e2]⟩

/-! ### `UpsertTick` / `removeTick` on presence, order and the id counters -/

theorem upsertTick_store {s s' : St} {pool : Nat} {t0 : Int} {delta : Dec} {upper e : Bool}
    (h : upsertTick s pool t0 delta upper = .ok (s', e)) :
    (∀ p t, (findTick s' p t).isSome = true ↔ ((p, t) = (pool, t0) ∨ (findTick s p t).isSome = true)) ∧
    (TicksSorted s.ticks → TicksSorted s'.ticks) ∧ s'.nextPos = s.nextPos ∧ s'.nextPool = s.nextPool := by
  obtain ⟨ti, hti, hs, _⟩ := upsertTick_shape h
  obtain ⟨hp, ht, _, _⟩ := getTickInfo_ok hti
  refine ⟨?_, ?_, by rw [hs]; rfl, by rw [hs]; rfl⟩
  · intro p t
    rw [hs, findTick_setTick]
    have hk : key p t (updTick ti delta upper) = true ↔ (p, t) = (pool, t0) := by
      rw [key_iff]
      show ti.pool = p ∧ ti.tick = t ↔ _
      rw [hp, ht]
      constructor
      · rintro ⟨a, b⟩; rw [a, b]
      · intro e; exact ⟨(congrArg Prod.fst e).symm, (congrArg Prod.snd e).symm⟩
    by_cases c : key p t (updTick ti delta upper) = true
    · rw [if_pos c]; simp [hk.mp c]
    · rw [if_neg c]
      constructor
      · intro x; exact Or.inr x
      · rintro (x | x)
        · exact absurd (hk.mpr x) c
        · exact x
  · intro hsrt
    rw [hs]; exact insertTick_sorted _ _ hsrt

theorem removeTick_find (s : St) (pool : Nat) (t0 : Int) (p : Nat) (t : Int) :
    findTick (removeTick s pool t0) p t = if (p, t) = (pool, t0) then none else findTick s p t := by
  by_cases c : (p, t) = (pool, t0)
  · rw [if_pos c]
    have c1 : p = pool := congrArg Prod.fst c
    have c2 : t = t0 := congrArg Prod.snd c
    subst c1; subst c2
    rw [findTick_eq]; exact find_filter_self s.ticks p t
  · rw [if_neg c, findTick_eq, findTick_eq]; exact find_filter_other s.ticks pool p t0 t c

theorem removeTick_gross (s : St) (pool : Nat) (t0 : Int) (p : Nat) (t : Int) :
    grossOf (removeTick s pool t0) p t = (if (p, t) = (pool, t0) then 0 else grossOf s p t) ∧
    netOf (removeTick s pool t0) p t = (if (p, t) = (pool, t0) then 0 else netOf s p t) := by
  unfold grossOf netOf
  rw [removeTick_find]
  by_cases c : (p, t) = (pool, t0)
  · rw [if_pos c, if_pos c, if_pos c]; exact ⟨rfl, rfl⟩
  · rw [if_neg c, if_neg c, if_neg c]; exact ⟨rfl, rfl⟩

theorem acc_next (s : St) (ap : AccPos) (a : Accum) :
    (setAccum (setAccPos s ap) a).nextPos = s.nextPos ∧ (setAccum (setAccPos s ap) a).nextPool = s.nextPool := by
  unfold setAccum setAccPos
  split <;> exact ⟨rfl, rfl⟩

theorem setAccumPositionFee_next {s : St} {pool : Nat} {lo hi : Int} {posId : Nat} {delta : Dec} {s' : St}
    (h : setAccumPositionFee s pool lo hi posId delta = .ok s') : s'.nextPos = s.nextPos ∧ s'.nextPool = s.nextPool := by
  unfold setAccumPositionFee at h
  simp only [bind, pure, err_bind, ok_bind] at h
  split at h
  · obtain ⟨outside, _, h⟩ := bind_ok h
    split at h
    · split at h
      · cases h
      · cases h; exact acc_next _ _ _
    · split at h
      · cases h
      · split at h
        · split at h
          · cases h
          · obtain ⟨u, _, h⟩ := bind_ok h
            cases h; exact acc_next _ _ _
        · obtain ⟨u, _, h⟩ := bind_ok h
          cases h; exact acc_next _ _ _
  · cases h

theorem s3Of_next (s2 : St) (posId : Nat) (pos : Position) (delta : Dec) :
    (s3Of s2 posId pos delta).nextPos = s2.nextPos ∧ (s3Of s2 posId pos delta).nextPool = s2.nextPool := by
  unfold s3Of; split
  · exact ⟨rfl, rfl⟩
  · unfold setPosition; split <;> exact ⟨rfl, rfl⟩

/-- the structural effects of `UpdatePosition` (everything but the three sums) -/
theorem updatePosition_struct {s s' : St} {pool : Nat} {lo hi : Int} {delta : Dec} {posId : Nat} {ab aq : Int} {loE hiE : Bool}
    {pos : Position} (h : updatePosition s pool lo hi delta posId = .ok (s', ab, aq, loE, hiE))
    (hnd : (s.positions.map (·.id)).Nodup) (hq : getPosition s posId = some pos) (hne : lo ≠ hi) :
    (s'.positions.map (·.id)).Nodup ∧
    (∀ x ∈ s'.positions, (x ∈ s.positions ∧ x.id ≠ posId) ∨
        (x = { pos with liq := Dec.add pos.liq delta } ∧ 0 < pos.liq.raw + delta.raw)) ∧
    (∀ x ∈ s.positions, x.id ≠ posId → x ∈ s'.positions) ∧
    (0 < pos.liq.raw + delta.raw → { pos with liq := Dec.add pos.liq delta } ∈ s'.positions) ∧
    (s'.nextPos = s.nextPos ∧ s'.nextPool = s.nextPool) ∧
    (TicksSorted s.ticks → TicksSorted s'.ticks) ∧
    (∀ p t, (findTick s' p t).isSome = true ↔ ((p, t) = (pool, lo) ∨ (p, t) = (pool, hi) ∨ (findTick s p t).isSome = true)) ∧
    (loE = true ↔ (grossOf s' pool lo = 0 ∧ netOf s' pool lo = 0)) ∧
    (hiE = true ↔ (grossOf s' pool hi = 0 ∧ netOf s' pool hi = 0)) := by
  obtain ⟨s1, s2, p, pos', h1, h2, hp, hq', hneg, _, hposs2, _, hticks, _, hposs, _⟩ := updatePosition_frames h
  have hnext : s'.nextPos = s.nextPos ∧ s'.nextPool = s.nextPool := by
    obtain ⟨t1, t2, tp, tpos, g1, g2, _, _, _, h5⟩ := updatePosition_ok h
    obtain ⟨_, _, a3, a4⟩ := upsertTick_store g1
    obtain ⟨_, _, b3, b4⟩ := upsertTick_store g2
    obtain ⟨n1, n2⟩ := setAccumPositionFee_next h5
    obtain ⟨m1, m2⟩ := s3Of_next t2 posId tpos delta
    exact ⟨n1.trans (m1.trans (b3.trans a3)), n2.trans (m2.trans (b4.trans a4))⟩
  have e : pos' = pos := by rw [hq] at hq'; exact (Option.some.inj hq').symm
  subst e
  have hnd2 : (s2.positions.map (·.id)).Nodup := by rw [hposs2]; exact hnd
  have hq2 : getPosition s2 posId = some pos' := by rw [getPosition_congr hposs2]; exact hq
  have hnn : 0 ≤ pos'.liq.raw + delta.raw := by
    simp only [Dec.isNegative, Dec.add] at hneg
    have := of_decide_eq_false hneg
    omega
  obtain ⟨a1, a2, a3, a4⟩ := upsertTick_store h1
  obtain ⟨b1, b2, b3, b4⟩ := upsertTick_store h2
  obtain ⟨_, _, _, _, aflag⟩ := upsertTick_effect h1
  obtain ⟨_, _, bo, _, bflag⟩ := upsertTick_effect h2
  refine ⟨?_, ?_, ?_, ?_, ?_, ?_, ?_, ?_, ?_⟩
  · rw [hposs]; exact s3Of_ids_nodup s2 posId pos' delta hnd2 hq2
  · intro x hx
    rw [hposs] at hx
    rcases s3Of_mem s2 posId pos' delta hq2 hx with ⟨hm, hid⟩ | ⟨he, hz⟩
    · exact Or.inl ⟨hposs2 ▸ hm, hid⟩
    · refine Or.inr ⟨he, ?_⟩
      have : pos'.liq.raw + delta.raw ≠ 0 := by simpa [Dec.isZero, Dec.add] using hz
      omega
  · intro x hx hid
    rw [hposs]; exact s3Of_mem_other s2 posId pos' delta hq2 (hposs2 ▸ hx) hid
  · intro hpos
    rw [hposs, s3Of_positions s2 posId pos' delta hq2]
    have hz : ¬ (Dec.add pos'.liq delta).isZero = true := by simp [Dec.isZero, Dec.add]; omega
    rw [if_neg hz]
    apply List.mem_map.mpr
    have hid : pos'.id = posId := by
      have := List.find?_some hq2
      simpa using this
    exact ⟨pos', List.mem_of_find?_eq_some hq2, by simp [hid]⟩
  · exact hnext
  · intro hs; unfold TicksSorted; rw [hticks]; exact b2 (a2 hs)
  · intro p' t
    have : findTick s' p' t = findTick s2 p' t := by unfold findTick; rw [hticks]
    rw [this, b1 p' t, a1 p' t]
    constructor
    · rintro (x | x | x)
      · exact Or.inr (Or.inl x)
      · exact Or.inl x
      · exact Or.inr (Or.inr x)
    · rintro (x | x | x)
      · exact Or.inr (Or.inl x)
      · exact Or.inl x
      · exact Or.inr (Or.inr x)
  · rw [grossOf_congr hticks, netOf_congr hticks]
    have hne' : (pool, lo) ≠ (pool, hi) := fun e => hne (congrArg Prod.snd e)
    rw [(bo pool lo hne').1, (bo pool lo hne').2]
    exact aflag
  · rw [grossOf_congr hticks, netOf_congr hticks]
    exact bflag

/-! ### inversion of `createPosition` -/

/-- the state `UpdatePosition` runs on inside `createPosition`: the fresh zero-liquidity record appended, counter bumped -/
def withFresh (s1 : St) (sender : Addr) (pool : Nat) (lo hi : Int) : St :=
  { setPosition s1 ⟨s1.nextPos, pool, sender, lo, hi, Dec.zero⟩ with nextPos := s1.nextPos + 1 }

theorem createPosition_inv {s : St} {sender : Addr} {pool : Nat} {lo hi : Int} {dBase dQuote : Denom}
    {aBase aQuote minBase minQuote : Int} {s' : St} {out : CreatePosOut}
    (h : createPosition s sender pool lo hi dBase aBase dQuote aQuote minBase minQuote = .ok (s', out)) :
    ∃ p0 s1 delta s3 ab aq loE hiE b2,
      getPool s pool = some p0 ∧ checkTicks lo hi = true ∧
      ((poolLive p0 = true ∧ s1 = s) ∨
        (poolLive p0 = false ∧ ∃ sp t, TickMath.sqrtPriceToTick sp p0.tp = .ok t ∧ s1 = setPool s { p0 with sqrtP := sp, tick := t })) ∧
      delta.isZero = false ∧
      updatePosition (withFresh s1 sender pool lo hi) pool lo hi delta s1.nextPos = .ok (s3, ab, aq, loE, hiE) ∧
      s' = { s3 with bank := b2 } := by
  unfold createPosition at h
  cases hp : getPool s pool with
  | none => rw [hp] at h; cases h
  | some p0 =>
    rw [hp] at h
    cases hlive : poolLive p0 with
    | true =>
      simp only [bind, pure, err_bind, ok_bind, hlive] at h
      obtain ⟨hct, h⟩ := ite_err_ok h
      obtain ⟨_, h⟩ := ite_err_ok h
      obtain ⟨_, h⟩ := ite_err_ok h
      obtain ⟨_, h⟩ := ite_err_ok h
      obtain ⟨_, h⟩ := ite_err_ok h
      obtain ⟨x, _, h⟩ := bind_ok h
      rcases ite_ok h with ⟨hc, _⟩ | ⟨_, h⟩
      · simp at hc
      rcases ite_ok h with ⟨_, h⟩ | ⟨_, h⟩
      · cases h
      obtain ⟨hnz, h⟩ := ite_err_ok h
      obtain ⟨y, hy, h⟩ := bind_ok h
      obtain ⟨_, h⟩ := ite_err_ok h
      obtain ⟨_, h⟩ := ite_err_ok h
      obtain ⟨_, h⟩ := ite_err_ok h
      obtain ⟨_, h⟩ := ite_err_ok h
      obtain ⟨b1, _, h⟩ := bind_ok h
      obtain ⟨b2, _, h⟩ := bind_ok h
      have hr := res_ok_inj h
      refine ⟨p0, s, _, y.1, y.2.1, y.2.2.1, y.2.2.2.1, y.2.2.2.2, b2, rfl, by simpa using hct, Or.inl ⟨hlive, rfl⟩,
        by simpa using hnz, hy, ?_⟩
      exact (congrArg Prod.fst hr).symm
    | false =>
      simp only [bind, pure, err_bind, ok_bind, hlive] at h
      obtain ⟨hct, h⟩ := ite_err_ok h
      obtain ⟨_, h⟩ := ite_err_ok h
      obtain ⟨_, h⟩ := ite_err_ok h
      obtain ⟨_, h⟩ := ite_err_ok h
      obtain ⟨_, h⟩ := ite_err_ok h
      obtain ⟨x, _, h⟩ := bind_ok h
      rcases ite_ok h with ⟨_, h⟩ | ⟨hc, _⟩
      swap
      · exact absurd rfl hc
      obtain ⟨_, h⟩ := ite_err_ok h
      obtain ⟨sp, _, h⟩ := bind_ok h
      obtain ⟨t, ht, h⟩ := bind_ok h
      rcases ite_ok h with ⟨_, h⟩ | ⟨_, h⟩
      · cases h
      obtain ⟨hnz, h⟩ := ite_err_ok h
      obtain ⟨y, hy, h⟩ := bind_ok h
      obtain ⟨_, h⟩ := ite_err_ok h
      obtain ⟨_, h⟩ := ite_err_ok h
      obtain ⟨_, h⟩ := ite_err_ok h
      obtain ⟨_, h⟩ := ite_err_ok h
      obtain ⟨b1, _, h⟩ := bind_ok h
      obtain ⟨b2, _, h⟩ := bind_ok h
      have hr := res_ok_inj h
      refine ⟨p0, setPool s { p0 with sqrtP := sp, tick := t }, _, y.1, y.2.1, y.2.2.1, y.2.2.2.1, y.2.2.2.2, b2, rfl,
        by simpa using hct, Or.inr ⟨hlive, sp, t, ht, rfl⟩, by simpa using hnz, hy, ?_⟩
      exact (congrArg Prod.fst hr).symm

/-! ### the combined store invariant -/

/-- the part of the invariant that `UpdatePosition` needs and keeps on its own (also on the intermediate states inside
    `createPosition` / `decreaseLiquidity`, where a zero-liquidity record or an empty tick may be stored) -/
structure WInv (s : St) : Prop where
  sums : ∀ pool, Sums s pool
  posWf : ∀ x ∈ s.positions, 0 ≤ x.liq.raw ∧ x.lower < x.upper
  idsNodup : (s.positions.map (·.id)).Nodup
  idsLt : ∀ x ∈ s.positions, x.id < s.nextPos
  sorted : TicksSorted s.ticks
  poolIdsLt : ∀ i ∈ s.pools.map (·.id), i < s.nextPool
  posPoolLt : ∀ x ∈ s.positions, x.pool < s.nextPool

/-- a pool that is not live (price 0 and tick 0: `Pool.HasPosition` false) has no position -/
def LiveOK (s : St) : Prop := ∀ pool p, getPool s pool = some p → poolLive p = false → poolHasPosition s pool = false
/-- no empty tick is stored -/
def NonEmpty (s : St) : Prop := ∀ pool t, (findTick s pool t).isSome = true → grossOf s pool t ≠ 0

/-- **the combined invariant of the store-level model** -/
structure Inv (s : St) : Prop where
  w : WInv s
  strict : ∀ x ∈ s.positions, 0 < x.liq.raw
  nonEmpty : NonEmpty s
  liveOK : LiveOK s

theorem sums_congr {s s' : St} (h1 : s'.pools = s.pools) (h2 : s'.positions = s.positions) (h3 : s'.ticks = s.ticks)
    {pool : Nat} (h : Sums s pool) : Sums s' pool := by
  refine ⟨?_, ?_, ?_⟩
  · intro p hp; rw [getPool_congr h1] at hp; rw [h2]; exact h.active p hp
  · intro t; rw [grossOf_congr h3, h2]; exact h.gross t
  · intro t; rw [netOf_congr h3, h2]; exact h.net t

/-- the invariant only reads pools, positions, ticks and the two id counters -/
theorem Inv.frame {s s' : St} (h : Inv s) (h1 : s'.pools = s.pools) (h2 : s'.positions = s.positions) (h3 : s'.ticks = s.ticks)
    (h4 : s'.nextPos = s.nextPos) (h5 : s'.nextPool = s.nextPool) : Inv s' := by
  refine ⟨⟨fun pl => sums_congr h1 h2 h3 (h.w.sums pl), ?_, ?_, ?_, ?_, ?_, ?_⟩, ?_, ?_, ?_⟩
  · rw [h2]; exact h.w.posWf
  · rw [h2]; exact h.w.idsNodup
  · rw [h2, h4]; exact h.w.idsLt
  · rw [h3]; exact h.w.sorted
  · rw [h1, h5]; exact h.w.poolIdsLt
  · rw [h2, h5]; exact h.w.posPoolLt
  · rw [h2]; exact h.strict
  · intro pl t hs
    have : findTick s' pl t = findTick s pl t := by unfold findTick; rw [h3]
    rw [this] at hs; rw [grossOf_congr h3]; exact h.nonEmpty pl t hs
  · intro pl p hp hl
    rw [getPool_congr h1] at hp
    rw [poolHasPosition_congr h2]; exact h.liveOK pl p hp hl

theorem setPool_ids (s : St) (q : Pool) : (setPool s q).pools.map (·.id) = s.pools.map (·.id) := by
  unfold setPool
  simp only [List.map_map]
  apply List.map_congr_left
  intro x _
  simp only [Function.comp]
  by_cases hx : (x.id == q.id) = true
  · simp only [hx, if_true]; exact (by simpa using hx : x.id = q.id).symm
  · simp [hx]

theorem getPool_mem_ids {s : St} {pool : Nat} {p : Pool} (h : getPool s pool = some p) : pool ∈ s.pools.map (·.id) := by
  have h1 := List.find?_some h
  have h2 : p.id = pool := by simpa using h1
  exact List.mem_map.mpr ⟨p, List.mem_of_find?_eq_some h, h2⟩

theorem gross_nonneg {s : St} (hw : WInv s) (pool : Nat) (t : Int) : 0 ≤ grossOf s pool t := by
  rw [(hw.sums pool).gross t]
  have h := fun x hx => (hw.posWf x hx).1
  have := sumLiq_nonneg (lowerAtOf pool t) s.positions h
  have := sumLiq_nonneg (upperAtOf pool t) s.positions h
  omega

/-- **`UpdatePosition` keeps the weak invariant**, makes every stored liquidity positive when the other records are, and
    keeps `LiveOK` when the pool was live -/
theorem updatePosition_winv {w s3 : St} {pool : Nat} {lo hi : Int} {delta : Dec} {posId : Nat} {ab aq : Int} {loE hiE : Bool}
    {pos : Position} {p : Pool} (h : updatePosition w pool lo hi delta posId = .ok (s3, ab, aq, loE, hiE))
    (hw : WInv w) (hq : getPosition w posId = some pos)
    (hpp : pos.pool = pool) (hlo : pos.lower = lo) (hhi : pos.upper = hi)
    (hp : getPool w pool = some p) (hlive : poolLive p = true)
    (hothers : ∀ pl q, pl ≠ pool → getPool w pl = some q → poolLive q = false → poolHasPosition w pl = false)
    (hstrict : ∀ x ∈ w.positions, x.id ≠ posId → 0 < x.liq.raw) :
    WInv s3 ∧ (∀ x ∈ s3.positions, 0 < x.liq.raw) ∧ LiveOK s3 := by
  have hposm : pos ∈ w.positions := List.mem_of_find?_eq_some hq
  have hlt : lo < hi := by rw [← hlo, ← hhi]; exact (hw.posWf pos hposm).2
  obtain ⟨k1, k2, k3, k4, ⟨k5, k5'⟩, k6, _, _, _⟩ := updatePosition_struct h hw.idsNodup hq (by omega)
  have hsums := updatePosition_sums h hw.sums hw.idsNodup hq hpp hlo hhi
  have hpoolsids : s3.pools.map (·.id) = w.pools.map (·.id) := by
    obtain ⟨_, s2, p0, pos0, _, _, hp0, _, _, hpools2, _, _, _, _, _, hpools⟩ := updatePosition_frames h
    rw [hpools, setPool_ids, (s3Of_frame s2 posId pos0 delta).1, hpools2]
  refine ⟨⟨hsums, ?_, k1, ?_, k6 hw.sorted, ?_, ?_⟩, ?_, ?_⟩
  · intro x hx
    rcases k2 x hx with ⟨hm, _⟩ | ⟨he, hpos⟩
    · exact hw.posWf x hm
    · rw [he]; exact ⟨by simp only [Dec.add]; omega, (hw.posWf pos hposm).2⟩
  · intro x hx
    rw [k5]
    rcases k2 x hx with ⟨hm, _⟩ | ⟨he, _⟩
    · exact hw.idsLt x hm
    · rw [he]; exact hw.idsLt pos hposm
  · rw [hpoolsids, k5']; exact hw.poolIdsLt
  · intro x hx
    rw [k5']
    rcases k2 x hx with ⟨hm, _⟩ | ⟨he, _⟩
    · exact hw.posPoolLt x hm
    · rw [he]; exact hw.posPoolLt pos hposm
  · intro x hx
    rcases k2 x hx with ⟨hm, hid⟩ | ⟨he, hpos⟩
    · exact hstrict x hm hid
    · rw [he]; simp only [Dec.add]; exact hpos
  · intro pl q hq' hl
    by_cases hpl : pl = pool
    · subst hpl
      obtain ⟨p', hp', _, hkeep, _⟩ := updatePosition_pool h hp
      have e : q = p' := by rw [hp'] at hq'; exact (Option.some.inj hq').symm
      subst e
      cases hhas : poolHasPosition s3 pl with
      | false => rfl
      | true =>
        obtain ⟨ht, hs, _⟩ := hkeep hhas
        have : poolLive q = poolLive p := by unfold poolLive; rw [ht, hs]
        rw [this, hlive] at hl; cases hl
    · rw [updatePosition_other_pools h pl hpl] at hq'
      have hno := hothers pl q hpl hq' hl
      cases hhas : poolHasPosition s3 pl with
      | false => rfl
      | true =>
        exfalso
        obtain ⟨x, hx, hxp⟩ := (poolHasPosition_iff s3 pl).mp hhas
        rcases k2 x hx with ⟨hm, _⟩ | ⟨he, _⟩
        · exact poolHasPosition_false w pl hno x hm hxp
        · apply hpl; rw [← hxp, he]; exact hpp

/-! ### `createPosition` -/

theorem sqrtPriceToTick_ne_zero {sp : Dec} {tp : TickMath.TickParams} {t : Int} (h : TickMath.sqrtPriceToTick sp tp = .ok t) :
    sp.isZero = false := by
  cases hz : sp.isZero with
  | false => rfl
  | true =>
    exfalso
    have e : sp = ⟨0⟩ := by
      cases sp with
      | mk r => simp only [Dec.isZero, beq_iff_eq] at hz; subst hz; rfl
    subst e
    rw [C04Interval.sqrtPriceToTick_eq] at h
    obtain ⟨tick0, h0, _⟩ := bind_ok h
    rw [C05Loop.mul_zero_right] at h0
    unfold TickMath.multipliedPriceToTick at h0
    simp only [bind, pure, err_bind] at h0
    obtain ⟨_, h0⟩ := ite_err_ok h0
    obtain ⟨hc, _⟩ := ite_err_ok h0
    exact hc (Or.inr (by decide))

theorem withFresh_positions (s1 : St) (sender : Addr) (pool : Nat) (lo hi : Int) (hlt : ∀ x ∈ s1.positions, x.id < s1.nextPos) :
    (withFresh s1 sender pool lo hi).positions = s1.positions ++ [⟨s1.nextPos, pool, sender, lo, hi, Dec.zero⟩] := by
  unfold withFresh setPosition
  have : s1.positions.any (fun x => x.id == (⟨s1.nextPos, pool, sender, lo, hi, Dec.zero⟩ : Position).id) = false := by
    rw [List.any_eq_false]
    intro x hx
    have := hlt x hx
    simp only [beq_iff_eq]; omega
  simp only [this, Bool.false_eq_true, if_false]

theorem withFresh_frame (s1 : St) (sender : Addr) (pool : Nat) (lo hi : Int) :
    (withFresh s1 sender pool lo hi).pools = s1.pools ∧ (withFresh s1 sender pool lo hi).ticks = s1.ticks ∧
    (withFresh s1 sender pool lo hi).nextPool = s1.nextPool ∧ (withFresh s1 sender pool lo hi).nextPos = s1.nextPos + 1 := by
  unfold withFresh setPosition; split <;> exact ⟨rfl, rfl, rfl, rfl⟩

theorem withFresh_winv {s1 : St} (hw : WInv s1) (sender : Addr) (pool : Nat) (lo hi : Int) (hlt : lo < hi)
    (hpool : pool < s1.nextPool) : WInv (withFresh s1 sender pool lo hi) := by
  obtain ⟨f1, f2, f3, f4⟩ := withFresh_frame s1 sender pool lo hi
  have fp := withFresh_positions s1 sender pool lo hi hw.idsLt
  have hsum : ∀ c, sumLiq c (withFresh s1 sender pool lo hi).positions = sumLiq c s1.positions := by
    intro c; rw [fp, sumLiq_append]
    simp only [sumLiq]
    have z : Dec.zero.raw = 0 := rfl
    split <;> omega
  refine ⟨?_, ?_, ?_, ?_, ?_, ?_, ?_⟩
  · intro pl
    refine ⟨?_, ?_, ?_⟩
    · intro p hp; rw [getPool_congr f1] at hp; rw [hsum]; exact (hw.sums pl).active p hp
    · intro t; rw [grossOf_congr f2, hsum, hsum]; exact (hw.sums pl).gross t
    · intro t; rw [netOf_congr f2, hsum, hsum]; exact (hw.sums pl).net t
  · intro x hx
    rw [fp] at hx
    rcases List.mem_append.mp hx with hm | hm
    · exact hw.posWf x hm
    · have : x = ⟨s1.nextPos, pool, sender, lo, hi, Dec.zero⟩ := by simpa using hm
      rw [this]; exact ⟨by simp [Dec.zero], hlt⟩
  · rw [fp, List.map_append, List.nodup_append]
    refine ⟨hw.idsNodup, by simp, ?_⟩
    intro a ha b hb
    obtain ⟨x, hx, e⟩ := List.mem_map.mp ha
    have := hw.idsLt x hx
    have hb' : b = s1.nextPos := by simpa using hb
    omega
  · intro x hx
    rw [fp] at hx; rw [f4]
    rcases List.mem_append.mp hx with hm | hm
    · have := hw.idsLt x hm; omega
    · have : x = ⟨s1.nextPos, pool, sender, lo, hi, Dec.zero⟩ := by simpa using hm
      rw [this]; simp
  · unfold TicksSorted; rw [f2]; exact hw.sorted
  · rw [f1, f3]; exact hw.poolIdsLt
  · intro x hx
    rw [fp] at hx; rw [f3]
    rcases List.mem_append.mp hx with hm | hm
    · exact hw.posPoolLt x hm
    · have : x = ⟨s1.nextPos, pool, sender, lo, hi, Dec.zero⟩ := by simpa using hm
      rw [this]; exact hpool

/-- the (re)initialisation of a pool without position by `initFirstPositionForPool` keeps the invariant -/
theorem setPool_first_inv {s : St} (hI : Inv s) {pool : Nat} {p0 : Pool} (hp : getPool s pool = some p0)
    (hl : poolLive p0 = false) (sp : Dec) (t : Int) : Inv (setPool s { p0 with sqrtP := sp, tick := t }) := by
  have hid : p0.id = pool := by
    have := List.find?_some hp
    simpa using this
  have hno := hI.liveOK pool p0 hp hl
  have hget : getPool (setPool s { p0 with sqrtP := sp, tick := t }) pool = some { p0 with sqrtP := sp, tick := t } :=
    C04Interval.getPool_setPool (s := s) (s' := s) hp rfl rfl
  have hother : ∀ pl, pl ≠ pool → getPool (setPool s { p0 with sqrtP := sp, tick := t }) pl = getPool s pl :=
    fun pl hne => getPool_setPool_other s _ pl (by simp only [hid]; exact hne)
  refine ⟨⟨?_, hI.w.posWf, hI.w.idsNodup, hI.w.idsLt, hI.w.sorted, ?_, hI.w.posPoolLt⟩, hI.strict, hI.nonEmpty, ?_⟩
  · intro pl
    refine ⟨?_, (hI.w.sums pl).gross, (hI.w.sums pl).net⟩
    intro p hp'
    by_cases hpl : pl = pool
    · subst hpl
      rw [hget] at hp'
      have e := Option.some.inj hp'
      subst e
      have h0 := (hI.w.sums pl).active p0 hp
      rw [sum_no_pool s pl hno _ (fun x hx => inRangeOf_pool hx)] at h0
      show p0.liq.raw = sumLiq (inRangeOf pl t) (setPool s _).positions
      rw [h0]
      exact (sum_no_pool s pl hno _ (fun x hx => inRangeOf_pool hx)).symm
    · rw [hother pl hpl] at hp'
      exact (hI.w.sums pl).active p hp'
  · rw [setPool_ids]; exact hI.w.poolIdsLt
  · intro pl q hq hlq
    by_cases hpl : pl = pool
    · subst hpl; exact hno
    · rw [hother pl hpl] at hq
      exact hI.liveOK pl q hq hlq

/-- **`createPosition` keeps the invariant** -/
theorem createPosition_inv_ok {s : St} {sender : Addr} {pool : Nat} {lo hi : Int} {dBase dQuote : Denom}
    {aBase aQuote minBase minQuote : Int} {s' : St} {out : CreatePosOut} (hI : Inv s)
    (h : createPosition s sender pool lo hi dBase aBase dQuote aQuote minBase minQuote = .ok (s', out)) : Inv s' := by
  obtain ⟨p0, s1, delta, s3, ab, aq, loE, hiE, b2, hp, hct, hs1, hnz, hu, hs'⟩ := createPosition_inv h
  have hlt : lo < hi := by
    unfold checkTicks at hct; simp only [Bool.and_eq_true, decide_eq_true_eq] at hct; exact hct.1.1
  have hid : p0.id = pool := by
    have := List.find?_some hp
    simpa using this
  -- the state the position update starts from
  have hI1 : Inv s1 ∧ ∃ p1, getPool s1 pool = some p1 ∧ poolLive p1 = true := by
    rcases hs1 with ⟨hl, e⟩ | ⟨hl, sp, t, ht, e⟩
    · subst e; exact ⟨hI, p0, hp, hl⟩
    · subst e
      refine ⟨setPool_first_inv hI hp hl sp t, _, C04Interval.getPool_setPool (s := s) (s' := s) hp rfl rfl, ?_⟩
      unfold poolLive
      simp only [sqrtPriceToTick_ne_zero ht, Bool.false_and, Bool.not_false]
  obtain ⟨hI1, p1, hp1, hlive1⟩ := hI1
  have hpoolLt : pool < s1.nextPool := hI1.w.poolIdsLt pool (getPool_mem_ids hp1)
  have hww := withFresh_winv hI1.w sender pool lo hi hlt hpoolLt
  obtain ⟨f1, f2, f3, f4⟩ := withFresh_frame s1 sender pool lo hi
  have fp := withFresh_positions s1 sender pool lo hi hI1.w.idsLt
  have hq : getPosition (withFresh s1 sender pool lo hi) s1.nextPos = some ⟨s1.nextPos, pool, sender, lo, hi, Dec.zero⟩ :=
    C04Interval.getPosition_setPosition s1 ⟨s1.nextPos, pool, sender, lo, hi, Dec.zero⟩
  have hpw : getPool (withFresh s1 sender pool lo hi) pool = some p1 := by rw [getPool_congr f1]; exact hp1
  have hmemw : ∀ x ∈ (withFresh s1 sender pool lo hi).positions, x.id ≠ s1.nextPos → x ∈ s1.positions := by
    intro x hx hne
    rw [fp] at hx
    rcases List.mem_append.mp hx with hm | hm
    · exact hm
    · have : x = ⟨s1.nextPos, pool, sender, lo, hi, Dec.zero⟩ := by simpa using hm
      rw [this] at hne; exact absurd rfl hne
  obtain ⟨hw3, hstrict3, hlive3⟩ := updatePosition_winv hu hww hq rfl rfl rfl hpw hlive1
    (by
      intro pl q hne hq' hl
      rw [getPool_congr f1] at hq'
      have hno := hI1.liveOK pl q hq' hl
      cases hhas : poolHasPosition (withFresh s1 sender pool lo hi) pl with
      | false => rfl
      | true =>
        exfalso
        obtain ⟨x, hx, hxp⟩ := (poolHasPosition_iff _ pl).mp hhas
        rw [fp] at hx
        rcases List.mem_append.mp hx with hm | hm
        · exact poolHasPosition_false s1 pl hno x hm hxp
        · have : x = ⟨s1.nextPos, pool, sender, lo, hi, Dec.zero⟩ := by simpa using hm
          rw [this] at hxp; exact hne hxp.symm)
    (fun x hx hne => hI1.strict x (hmemw x hx hne))
  -- δ > 0 and the new record is stored
  obtain ⟨_, _, _, k4, _, _, k7, _, _⟩ := updatePosition_struct hu hww.idsNodup hq (by omega)
  obtain ⟨pos', hq', _, hnn, _, _, _⟩ := updatePosition_position hu
  have e : pos' = ⟨s1.nextPos, pool, sender, lo, hi, Dec.zero⟩ := by rw [hq] at hq'; exact (Option.some.inj hq').symm
  subst e
  have hdpos : 0 < delta.raw := by
    have : delta.raw ≠ 0 := by simpa [Dec.isZero] using hnz
    simp only [Dec.zero] at hnn; omega
  have hnew := k4 (by simp only [Dec.zero]; omega)
  have hticks := updatePosition_ticks hu
  have hnonneg3 : ∀ x ∈ s3.positions, 0 ≤ x.liq.raw := fun x hx => (hw3.posWf x hx).1
  have hne3 : NonEmpty s3 := by
    intro pl t hs
    rcases (k7 pl t).mp hs with e | e | hold
    · have e1 : pl = pool := congrArg Prod.fst e
      have e2 : t = lo := congrArg Prod.snd e
      subst e1; subst e2
      rw [(hw3.sums pl).gross t]
      have h1 := sumLiq_pos_of_mem (lowerAtOf pl t) s3.positions hnonneg3 hnew (by simp [lowerAtOf])
        (by simp only [Dec.add, Dec.zero]; omega)
      have h2 := sumLiq_nonneg (upperAtOf pl t) s3.positions hnonneg3
      omega
    · have e1 : pl = pool := congrArg Prod.fst e
      have e2 : t = hi := congrArg Prod.snd e
      subst e1; subst e2
      rw [(hw3.sums pl).gross t]
      have h1 := sumLiq_pos_of_mem (upperAtOf pl t) s3.positions hnonneg3 hnew (by simp [upperAtOf])
        (by simp only [Dec.add, Dec.zero]; omega)
      have h2 := sumLiq_nonneg (lowerAtOf pl t) s3.positions hnonneg3
      omega
    · have hs1 : (findTick s1 pl t).isSome = true := by
        have : findTick (withFresh s1 sender pool lo hi) pl t = findTick s1 pl t := by unfold findTick; rw [f2]
        rw [this] at hold; exact hold
      have h0 := hI1.nonEmpty pl t hs1
      have h1 := gross_nonneg hI1.w pl t
      have hgw : grossOf (withFresh s1 sender pool lo hi) pl t = grossOf s1 pl t := grossOf_congr f2 pl t
      by_cases hpl : pl = pool
      · subst hpl
        have := (hticks.1 t).1
        rw [hgw] at this
        rw [this]
        split <;> split <;> omega
      · have := (hticks.2 pl t hpl).1
        rw [hgw] at this
        rw [this]; exact h0
  have hI3 : Inv s3 := ⟨hw3, hstrict3, hne3, hlive3⟩
  rw [hs']
  exact hI3.frame rfl rfl rfl rfl rfl

/-! ### handlers that do not touch the bookkeeping -/

/-- the components the invariant reads are the same -/
def Core (s s' : St) : Prop :=
  s'.pools = s.pools ∧ s'.positions = s.positions ∧ s'.ticks = s.ticks ∧ s'.nextPos = s.nextPos ∧ s'.nextPool = s.nextPool

theorem Core.refl (s : St) : Core s s := ⟨rfl, rfl, rfl, rfl, rfl⟩
theorem Core.trans {a b c : St} (h1 : Core a b) (h2 : Core b c) : Core a c :=
  ⟨h2.1.trans h1.1, h2.2.1.trans h1.2.1, h2.2.2.1.trans h1.2.2.1, h2.2.2.2.1.trans h1.2.2.2.1, h2.2.2.2.2.trans h1.2.2.2.2⟩
theorem Inv.core {s s' : St} (h : Inv s) (c : Core s s') : Inv s' := h.frame c.1 c.2.1 c.2.2.1 c.2.2.2.1 c.2.2.2.2

theorem core_setAccPos (s : St) (a : AccPos) : Core s (setAccPos s a) := by
  unfold setAccPos; split <;> exact ⟨rfl, rfl, rfl, rfl, rfl⟩
theorem core_delAccPos (s : St) (i : Nat) : Core s (delAccPos s i) := ⟨rfl, rfl, rfl, rfl, rfl⟩
theorem core_setAccum (s : St) (a : Accum) : Core s (setAccum s a) := ⟨rfl, rfl, rfl, rfl, rfl⟩
theorem core_bank (s : St) (b : Bank) : Core s { s with bank := b } := ⟨rfl, rfl, rfl, rfl, rfl⟩

theorem core_ite {s a b : St} (c : Prop) [Decidable c] (ha : Core s a) (hb : Core s b) : Core s (if c then a else b) := by
  split <;> assumption

theorem core_s2 {s x : St} (i : Nat) (f : AccPos → AccPos) (hx : Core s x) :
    Core s (match getAccPos x i with | some ap2 => setAccPos x (f ap2) | none => x) := by
  split
  · exact hx.trans (core_setAccPos _ _)
  · exact hx

theorem core_then_accum {s x : St} (a : Accum) (hx : Core s x) : Core s (setAccum x a) := hx.trans (core_setAccum _ _)

theorem core_then_accPos {s x : St} (a : AccPos) (hx : Core s x) : Core s (setAccPos x a) := hx.trans (core_setAccPos _ _)

macro "core_leaf" h:ident : tactic => `(tactic| (
  have e := congrArg Prod.fst (res_ok_inj $h)
  dsimp only at e
  subst e
  repeat (first | exact Core.refl _ | exact core_delAccPos _ _ | refine core_then_accum _ ?_
                | refine core_then_accPos _ ?_ | split)))

theorem prepareClaimableFees_core {s s' : St} {posId : Nat} {c : List (String × Int)}
    (h : prepareClaimableFees s posId = .ok (s', c)) : Core s s' := by
  unfold prepareClaimableFees at h
  simp only [bind, pure, err_bind, ok_bind] at h
  split at h
  · split at h
    · split at h
      · obtain ⟨outside, _, h⟩ := bind_ok h
        obtain ⟨total, _, h⟩ := bind_ok h
        split at h
        · split at h
          · split at h
            · obtain ⟨per, _, h⟩ := bind_ok h
              core_leaf h
            · core_leaf h
          · cases h
        · core_leaf h
      · cases h
    · cases h
  · cases h

theorem collectFees_core {s s' : St} {sender : Addr} {posId : Nat} {c : List (String × Int)}
    (h : collectFees s sender posId = .ok (s', c)) : Core s s' := by
  unfold collectFees at h
  simp only [bind, pure, err_bind, ok_bind] at h
  split at h
  · obtain ⟨_, h⟩ := ite_err_ok h
    obtain ⟨x, hx, h⟩ := bind_ok h
    have hc := prepareClaimableFees_core (s' := x.1) (c := x.2) hx
    rcases ite_ok h with ⟨_, h⟩ | ⟨_, h⟩
    · have e := congrArg Prod.fst (res_ok_inj h)
      dsimp only at e; subst e; exact hc
    · obtain ⟨_, h⟩ := ite_err_ok h
      obtain ⟨b, _, h⟩ := bind_ok h
      have e := congrArg Prod.fst (res_ok_inj h)
      dsimp only at e; subst e; exact hc.trans (core_bank _ _)
  · cases h

theorem claimRewards_core {s s' : St} {sender : Addr} {ids : List Nat} {c : List (String × Int)}
    (h : claimRewards s sender ids = .ok (s', c)) : Core s s' := by
  unfold claimRewards at h
  split at h
  · cases h
  · have gen : ∀ (l : List Nat) (r : Res (St × List (String × Int))),
        (∀ st tot, r = .ok (st, tot) → Core s st) →
        ∀ s' c, l.foldl (fun (r : Res (St × List (String × Int))) id =>
          r.bind fun (st, tot) => (collectFees st sender id).bind fun (st', c) => .ok (st', addCoins tot c)) r = .ok (s', c) →
        Core s s' := by
      intro l
      induction l with
      | nil => intro r hr s' c hf; exact hr s' c hf
      | cons i is ih =>
        intro r hr s' c hf
        rw [List.foldl_cons] at hf
        refine ih _ ?_ s' c hf
        intro st tot hst
        obtain ⟨x, hx, hst⟩ := bind_ok hst
        obtain ⟨y, hy, hst⟩ := bind_ok hst
        have e := congrArg Prod.fst (res_ok_inj hst)
        dsimp only at e; subst e
        exact (hr x.1 x.2 hx).trans (collectFees_core (s' := y.1) (c := y.2) hy)
    exact gen ids _ (fun st tot e => by
      have e' := congrArg Prod.fst (res_ok_inj e)
      dsimp only at e'; subst e'; exact Core.refl _) s' c h

theorem allocateIncentive_core {s s' : St} {pool : Nat} {sender : Addr} {coins : List (String × Int)}
    (h : allocateIncentive s pool sender coins = .ok s') : Core s s' := by
  unfold allocateIncentive at h
  simp only [bind, pure, err_bind, ok_bind] at h
  split at h
  · obtain ⟨_, h⟩ := ite_err_ok h
    split at h
    · obtain ⟨_, h⟩ := ite_err_ok h
      obtain ⟨_, h⟩ := ite_err_ok h
      obtain ⟨b, _, h⟩ := bind_ok h
      obtain ⟨g, _, h⟩ := bind_ok h
      have e := res_ok_inj h
      subst e
      exact (core_bank s b).trans (core_setAccum _ _)
    · cases h
  · cases h

/-! ### `decreaseLiquidity` -/

theorem decreaseLiquidity_inv {s : St} {sender : Addr} {posId : Nat} {liq : Dec} {s' : St} {ab aq : Int}
    (h : decreaseLiquidity s sender posId liq = .ok (s', ab, aq)) :
    ∃ pos p s1 c s2 ab0 aq0 loE hiE b2,
      getPosition s posId = some pos ∧ liq.isNegative = false ∧ ¬ pos.liq.raw < liq.raw ∧ getPool s pos.pool = some p ∧
      collectFees s sender posId = .ok (s1, c) ∧
      updatePosition s1 pos.pool pos.lower pos.upper (Dec.neg liq) posId = .ok (s2, ab0, aq0, loE, hiE) ∧
      s' = (if hiE then removeTick (if loE then removeTick { s2 with bank := b2 } pos.pool pos.lower else { s2 with bank := b2 })
                pos.pool pos.upper
            else (if loE then removeTick { s2 with bank := b2 } pos.pool pos.lower else { s2 with bank := b2 })) := by
  unfold decreaseLiquidity at h
  simp only [bind, pure, err_bind, ok_bind] at h
  cases hpos : getPosition s posId with
  | none => rw [hpos] at h; cases h
  | some pos =>
    rw [hpos] at h
    simp only [] at h
    obtain ⟨_, h⟩ := ite_err_ok h
    obtain ⟨hn, h⟩ := ite_err_ok h
    obtain ⟨hle, h⟩ := ite_err_ok h
    cases hp : getPool s pos.pool with
    | none => rw [hp] at h; cases h
    | some p =>
      rw [hp] at h
      simp only [] at h
      obtain ⟨x, hx, h⟩ := bind_ok h
      obtain ⟨y, hy, h⟩ := bind_ok h
      obtain ⟨_, h⟩ := ite_err_ok h
      obtain ⟨_, h⟩ := ite_err_ok h
      obtain ⟨b1, _, h⟩ := bind_ok h
      obtain ⟨b2, _, h⟩ := bind_ok h
      have e := congrArg Prod.fst (res_ok_inj h)
      exact ⟨pos, p, x.1, x.2, y.1, y.2.1, y.2.2.1, y.2.2.2.1, y.2.2.2.2, b2, rfl, by simpa using hn, hle, hp, hx, hy, e.symm⟩

/-- conditional removal of a tick that the flag reports empty -/
def condRemove (e : Bool) (x : St) (pool : Nat) (t : Int) : St := if e then removeTick x pool t else x

theorem condRemove_facts (e : Bool) (x : St) (pool : Nat) (t : Int)
    (he : e = true → grossOf x pool t = 0 ∧ netOf x pool t = 0) :
    (∀ p' t', grossOf (condRemove e x pool t) p' t' = grossOf x p' t' ∧ netOf (condRemove e x pool t) p' t' = netOf x p' t') ∧
    (∀ p' t', findTick (condRemove e x pool t) p' t' = if e = true ∧ (p', t') = (pool, t) then none else findTick x p' t') ∧
    (condRemove e x pool t).pools = x.pools ∧ (condRemove e x pool t).positions = x.positions ∧
    (condRemove e x pool t).nextPos = x.nextPos ∧ (condRemove e x pool t).nextPool = x.nextPool ∧
    (TicksSorted x.ticks → TicksSorted (condRemove e x pool t).ticks) := by
  unfold condRemove
  cases e with
  | false =>
    refine ⟨fun _ _ => ⟨rfl, rfl⟩, fun _ _ => ?_, rfl, rfl, rfl, rfl, id⟩
    simp
  | true =>
    simp only [if_true, true_and]
    refine ⟨removeTick_empty_abs (he rfl), fun p' t' => removeTick_find x pool t p' t', rfl, rfl, rfl, rfl, ?_⟩
    intro hs; exact filter_sorted _ _ hs

theorem gross_zero_net_zero {s : St} (hw : WInv s) (pool : Nat) (t : Int) (h : grossOf s pool t = 0) : netOf s pool t = 0 := by
  rw [(hw.sums pool).gross t] at h
  rw [(hw.sums pool).net t]
  have hn := fun x hx => (hw.posWf x hx).1
  have := sumLiq_nonneg (lowerAtOf pool t) s.positions hn
  have := sumLiq_nonneg (upperAtOf pool t) s.positions hn
  omega

/-- **`decreaseLiquidity` keeps the invariant** (including the removal of the position at zero, the reset of the pool when
    its last position goes, and the deletion of the ticks that became empty) -/
theorem decreaseLiquidity_inv_ok {s : St} {sender : Addr} {posId : Nat} {liq : Dec} {s' : St} {ab aq : Int} (hI : Inv s)
    (h : decreaseLiquidity s sender posId liq = .ok (s', ab, aq)) : Inv s' := by
  obtain ⟨pos, p, s1, c, s2, ab0, aq0, loE, hiE, b2, hq, hn, hle, hp, hcf, hu, hs'⟩ := decreaseLiquidity_inv h
  have hc := collectFees_core hcf
  have hI1 : Inv s1 := hI.core hc
  have hq1 : getPosition s1 posId = some pos := by rw [getPosition_congr hc.2.1]; exact hq
  have hp1 : getPool s1 pos.pool = some p := by rw [getPool_congr hc.1]; exact hp
  have hposm : pos ∈ s1.positions := List.mem_of_find?_eq_some hq1
  have hlt : pos.lower < pos.upper := (hI1.w.posWf pos hposm).2
  have hlive : poolLive p = true := by
    cases hl : poolLive p with
    | true => rfl
    | false =>
      exfalso
      exact poolHasPosition_false s1 pos.pool (hI1.liveOK pos.pool p hp1 hl) pos hposm rfl
  obtain ⟨hw2, hstrict2, hlive2⟩ := updatePosition_winv hu hI1.w hq1 rfl rfl rfl hp1 hlive
    (fun pl q _ hq' hl => hI1.liveOK pl q hq' hl) (fun x hx _ => hI1.strict x hx)
  obtain ⟨_, _, _, _, _, _, k7, kflo, kfhi⟩ := updatePosition_struct hu hI1.w.idsNodup hq1 (by omega)
  have hticks := updatePosition_ticks hu
  -- the three states after the position update
  have hcore3 : Core s2 { s2 with bank := b2 } := core_bank s2 b2
  have hg3 : ∀ p' t', grossOf { s2 with bank := b2 } p' t' = grossOf s2 p' t' ∧ netOf { s2 with bank := b2 } p' t' = netOf s2 p' t' :=
    fun _ _ => ⟨rfl, rfl⟩
  obtain ⟨a1, a2, a3, a4, a5, a6, a7⟩ := condRemove_facts loE { s2 with bank := b2 } pos.pool pos.lower
    (fun e => kflo.mp e)
  obtain ⟨b1, b2', b3, b4, b5, b6, b7⟩ := condRemove_facts hiE (condRemove loE { s2 with bank := b2 } pos.pool pos.lower)
    pos.pool pos.upper (fun e => by rw [(a1 _ _).1, (a1 _ _).2]; exact kfhi.mp e)
  have hs'' : s' = condRemove hiE (condRemove loE { s2 with bank := b2 } pos.pool pos.lower) pos.pool pos.upper := by
    rw [hs']; unfold condRemove; rfl
  have hgf : ∀ p' t', grossOf s' p' t' = grossOf s2 p' t' ∧ netOf s' p' t' = netOf s2 p' t' := by
    intro p' t'; rw [hs'']
    exact ⟨(b1 p' t').1.trans (a1 p' t').1, (b1 p' t').2.trans (a1 p' t').2⟩
  have hpools : s'.pools = s2.pools := by rw [hs'']; exact b3.trans a3
  have hposs : s'.positions = s2.positions := by rw [hs'']; exact b4.trans a4
  have hnp : s'.nextPos = s2.nextPos := by rw [hs'']; exact b5.trans a5
  have hnpl : s'.nextPool = s2.nextPool := by rw [hs'']; exact b6.trans a6
  have hwf : WInv s' := by
    refine ⟨?_, ?_, ?_, ?_, ?_, ?_, ?_⟩
    · intro pl
      refine ⟨?_, ?_, ?_⟩
      · intro q hq'; rw [getPool_congr hpools] at hq'; rw [hposs]; exact (hw2.sums pl).active q hq'
      · intro t; rw [(hgf pl t).1, hposs]; exact (hw2.sums pl).gross t
      · intro t; rw [(hgf pl t).2, hposs]; exact (hw2.sums pl).net t
    · rw [hposs]; exact hw2.posWf
    · rw [hposs]; exact hw2.idsNodup
    · rw [hposs, hnp]; exact hw2.idsLt
    · rw [hs'']; exact b7 (a7 hw2.sorted)
    · rw [hpools, hnpl]; exact hw2.poolIdsLt
    · rw [hposs, hnpl]; exact hw2.posPoolLt
  refine ⟨hwf, by rw [hposs]; exact hstrict2, ?_, ?_⟩
  · intro pl t hs
    rw [(hgf pl t).1]
    have hfind : findTick s' pl t =
        if hiE = true ∧ (pl, t) = (pos.pool, pos.upper) then none
        else if loE = true ∧ (pl, t) = (pos.pool, pos.lower) then none else findTick s2 pl t := by
      rw [hs'', b2' pl t, a2 pl t]; rfl
    rw [hfind] at hs
    by_cases c1 : (pl, t) = (pos.pool, pos.upper)
    · have e1 : pl = pos.pool := congrArg Prod.fst c1
      have e2 : t = pos.upper := congrArg Prod.snd c1
      subst e1; subst e2
      intro hz
      have hnz := gross_zero_net_zero hw2 _ _ hz
      have : hiE = true := kfhi.mpr ⟨hz, hnz⟩
      simp [this] at hs
    · by_cases c2 : (pl, t) = (pos.pool, pos.lower)
      · have e1 : pl = pos.pool := congrArg Prod.fst c2
        have e2 : t = pos.lower := congrArg Prod.snd c2
        subst e1; subst e2
        intro hz
        have hnz := gross_zero_net_zero hw2 _ _ hz
        have : loE = true := kflo.mpr ⟨hz, hnz⟩
        simp [this, c1] at hs
      · simp only [c1, c2, and_false, if_false] at hs
        rcases (k7 pl t).mp hs with e | e | hold
        · exact absurd e c2
        · exact absurd e c1
        · have h0 := hI1.nonEmpty pl t hold
          by_cases hpl : pl = pos.pool
          · subst hpl
            have ht1 : t ≠ pos.lower := fun e => c2 (by rw [e])
            have ht2 : t ≠ pos.upper := fun e => c1 (by rw [e])
            have := (hticks.1 t).1
            simp only [ht1, ht2, if_false] at this
            rw [this]; simpa using h0
          · rw [(hticks.2 pl t hpl).1]; exact h0
  · intro pl q hq' hl
    rw [getPool_congr hpools] at hq'
    rw [poolHasPosition_congr hposs]
    exact hlive2 pl q hq' hl

/-- **`increaseLiquidity`** = full withdrawal followed by `createPosition` with the combined amounts -/
theorem increaseLiquidity_inv_ok {s : St} {sender : Addr} {posId : Nat} {aBase aQuote minBase minQuote : Int} {s' : St}
    {out : CreatePosOut} (hI : Inv s)
    (h : increaseLiquidity s sender posId aBase aQuote minBase minQuote = .ok (s', out)) : Inv s' := by
  unfold increaseLiquidity at h
  simp only [bind, err_bind, ok_bind] at h
  split at h
  · obtain ⟨_, h⟩ := ite_err_ok h
    obtain ⟨_, h⟩ := ite_err_ok h
    obtain ⟨_, h⟩ := ite_err_ok h
    obtain ⟨x, hx, h⟩ := bind_ok h
    have hI1 : Inv x.1 := decreaseLiquidity_inv_ok (s' := x.1) (ab := x.2.1) (aq := x.2.2) hI hx
    split at h
    · exact createPosition_inv_ok hI1 h
    · cases h
  · cases h

/-- **`createPool` keeps the invariant** -/
theorem createPool_inv_ok {s : St} (base quote : Denom) (fee ratio offset : Dec) (hI : Inv s) :
    Inv (createPool s base quote fee ratio offset).1 := by
  have hposno : poolHasPosition (createPool s base quote fee ratio offset).1 s.nextPool = false := by
    cases hh : poolHasPosition (createPool s base quote fee ratio offset).1 s.nextPool with
    | false => rfl
    | true =>
      exfalso
      obtain ⟨x, hx, hxp⟩ := (poolHasPosition_iff _ _).mp hh
      have := hI.w.posPoolLt x hx
      omega
  have hget : ∀ pl q, getPool (createPool s base quote fee ratio offset).1 pl = some q →
      getPool s pl = some q ∨ (pl = s.nextPool ∧ q.liq = Dec.zero ∧ poolLive q = false) := by
    intro pl q hq
    unfold getPool createPool at hq
    simp only [List.find?_append] at hq
    cases hf : s.pools.find? (fun x => x.id == pl) with
    | some p0 =>
      rw [hf] at hq
      left; unfold getPool; rw [hf]; exact hq
    | none =>
      rw [hf] at hq
      simp only [Option.none_or, List.find?_cons, List.find?_nil] at hq
      split at hq
      · rename_i hid
        right
        have e := Option.some.inj hq
        subst e
        exact ⟨by have : s.nextPool = pl := by simpa using hid
                  exact this.symm, rfl, by simp [poolLive, Dec.isZero, Dec.zero]⟩
      · cases hq
  refine ⟨⟨?_, hI.w.posWf, hI.w.idsNodup, hI.w.idsLt, hI.w.sorted, ?_, ?_⟩, hI.strict, hI.nonEmpty, ?_⟩
  · intro pl
    refine ⟨?_, (hI.w.sums pl).gross, (hI.w.sums pl).net⟩
    intro q hq
    rcases hget pl q hq with h0 | ⟨e, hl, _⟩
    · exact (hI.w.sums pl).active q h0
    · subst e
      rw [hl, sum_no_pool _ _ hposno _ (fun x hx => inRangeOf_pool hx)]; rfl
  · intro i hi
    show i < s.nextPool + 1
    have : i ∈ s.pools.map (·.id) ++ [s.nextPool] := by
      simpa [createPool] using hi
    rcases List.mem_append.mp this with hm | hm
    · have := hI.w.poolIdsLt i hm; omega
    · have : i = s.nextPool := by simpa using hm
      omega
  · intro x hx
    show x.pool < s.nextPool + 1
    have := hI.w.posPoolLt x hx; omega
  · intro pl q hq hl
    rcases hget pl q hq with h0 | ⟨e, _, _⟩
    · exact hI.liveOK pl q h0 hl
    · subst e; exact hposno

theorem empty_inv (b : Bank) : Inv ({ bank := b } : St) := by
  refine ⟨⟨?_, ?_, ?_, ?_, ?_, ?_, ?_⟩, ?_, ?_, ?_⟩
  · intro pl
    refine ⟨?_, fun t => rfl, fun t => rfl⟩
    intro p hp; cases hp
  · intro x hx; cases hx
  · exact List.nodup_nil
  · intro x hx; cases hx
  · exact List.Pairwise.nil
  · intro i hi; cases hi
  · intro x hx; cases hx
  · intro x hx; cases hx
  · intro pl t h; cases h
  · intro pl p hp; cases hp

/-! ### swaps -/
open Sunrise.C04RefineLoop in
/-- the swap loop never changes the key list of the tick store (it only rewrites `feeGrowth` of crossed, stored ticks) nor
    the id counters -/
theorem swapLoop_keys {exactIn bfq upd : Bool} {lim fee : Dec} {tp : TickMath.TickParams} {accVal : DecCoins} {denomIn : Denom} :
    ∀ (fuel noProg : Nat) (s : St) (ss : SwapState) (iter : List TickInfo) (s' : St) (ss' : SwapState),
      TicksSorted s.ticks → (∀ ti ∈ iter, keyOf ti ∈ s.ticks.map keyOf) →
      swapLoop exactIn bfq upd lim fee tp accVal denomIn fuel noProg s ss iter = .ok (s', ss') →
      s'.ticks.map keyOf = s.ticks.map keyOf ∧ s'.nextPos = s.nextPos ∧ s'.nextPool = s.nextPool := by
  intro fuel
  induction fuel with
  | zero => intro noProg s ss iter s' ss' _ _ h; rw [C05Loop.swapLoop_zero] at h; cases h
  | succ fuel ih =>
    intro noProg s ss iter s' ss' hsrt hmem h
    rcases loop_step h with ⟨e1, e2⟩ | ⟨ti, rest, s3, ss3, iter3, noProg', evs1, hit, ⟨_, hcase⟩, hrec⟩
    · subst e1; exact ⟨rfl, rfl, rfl⟩
    · subst hit
      rcases hcase with ⟨hi, hsh, _⟩ | ⟨hi, hs3, _⟩
      · rw [hi] at hrec
        have hk3 : s3.ticks.map keyOf = s.ticks.map keyOf ∧ s3.nextPos = s.nextPos ∧ s3.nextPool = s.nextPool := by
          rcases hsh with e | ⟨g, e⟩
          · rw [e]; exact ⟨rfl, rfl, rfl⟩
          · rw [e]
            refine ⟨?_, rfl, rfl⟩
            exact insertTick_keys_of_mem s.ticks _ hsrt (hmem ti List.mem_cons_self)
        obtain ⟨r1, r2, r3⟩ := ih noProg' s3 ss3 rest s' ss' (by unfold TicksSorted; rw [hk3.1]; exact hsrt)
          (fun tj hj => by rw [hk3.1]; exact hmem tj (List.mem_cons_of_mem _ hj)) hrec
        exact ⟨r1.trans hk3.1, r2.trans hk3.2.1, r3.trans hk3.2.2⟩
      · subst hi; subst hs3
        exact ih noProg' s3 ss3 (ti :: rest) s' ss' hsrt hmem hrec

/-- inversion of a successful `computeSwap` with accumulator updates: the loop run, and what is reported / stored -/
theorem computeSwap_inv {exactIn : Bool} {s : St} {pool : Nat} {denomIn denomOut : Denom} {amount : Int} {fee mLimit : Dec}
    {s2 : St} {o : SwapOut} (h : computeSwap exactIn s pool denomIn denomOut amount fee mLimit true = .ok (s2, o)) :
    ∃ (p : Pool) (acc : Accum) (lim : Dec) (s1 : St) (ss : SwapState), getPool s pool = some p ∧
      swapLoop exactIn (decide (denomIn = p.base)) true lim fee p.tp acc.value denomIn LOOP_FUEL 0 s (C05Loop.ss0Of p amount)
          (tickIter s pool p.tick (decide (denomIn = p.base))) = .ok (s1, ss) ∧
      o.tick = ss.tick ∧ o.liq = ss.liq ∧ s2.lastTrace = ss.trace ∧
      s2.pools = s1.pools ∧ s2.positions = s1.positions ∧ s2.ticks = s1.ticks ∧ s2.nextPos = s1.nextPos ∧
      s2.nextPool = s1.nextPool := by
  rw [C05Loop.computeSwap_eq] at h
  cases hp : getPool s pool with
  | none => rw [hp] at h; cases h
  | some p =>
    rw [hp] at h
    simp only [] at h
    obtain ⟨_, h⟩ := ite_err_ok h
    obtain ⟨_, h⟩ := ite_err_ok h
    obtain ⟨_, h⟩ := ite_err_ok h
    obtain ⟨_, h⟩ := ite_err_ok h
    cases ha : getAccum s pool with
    | none => rw [ha] at h; cases h
    | some acc =>
      rw [ha] at h
      simp only [] at h
      obtain ⟨lim, _, h⟩ := bind_ok h
      obtain ⟨_, h⟩ := ite_err_ok h
      obtain ⟨x, hx, h⟩ := bind_ok h
      obtain ⟨_, h⟩ := ite_err_ok h
      have h' := res_ok_inj h
      have e1 : s2 = (C05Loop.finishSwap exactIn true acc denomIn amount x.1 x.2).1 := (congrArg Prod.fst h').symm
      have e2 : o = (C05Loop.finishSwap exactIn true acc denomIn amount x.1 x.2).2 := (congrArg Prod.snd h').symm
      refine ⟨p, acc, lim, x.1, x.2, rfl, hx, ?_, ?_, ?_, ?_, ?_, ?_, ?_, ?_⟩
      · rw [e2]; cases exactIn <;> rfl
      · rw [e2]; cases exactIn <;> rfl
      all_goals (rw [e1]; cases exactIn <;> rfl)

/-! ### bridge to the bookkeeping abstraction `CLBook` (conventions of `CLCustodyAbs.absC`) -/

def toPos (q : Position) : CLBook.Pos := ⟨q.lower, q.upper, q.liq.raw⟩

/-- the abstraction's position list: the pool's positions, newest first -/
def absPos (s : St) (pool : Nat) : List CLBook.Pos := ((s.positions.filter (·.pool == pool)).reverse).map toPos

/-- the bookkeeping abstraction of pool `pool` with pool record `p` (= the `book` component of `CLCustodyAbs.absC`) -/
def absBook (s : St) (pool : Nat) (p : Pool) : CLBook.St :=
  { pos := absPos s pool, gross := grossOf s pool, net := netOf s pool, tick := p.tick, active := p.liq.raw }

theorem sumIf_append (c : CLBook.Pos → Bool) (a b : List CLBook.Pos) :
    CLBook.sumIf c (a ++ b) = CLBook.sumIf c a + CLBook.sumIf c b := by
  induction a with
  | nil => simp [CLBook.sumIf]
  | cons x xs ih => simp only [List.cons_append, CLBook.sumIf, ih]; omega

theorem sumIf_absPos (c : CLBook.Pos → Bool) (pool : Nat) (l : List Position) :
    CLBook.sumIf c (((l.filter (·.pool == pool)).reverse).map toPos)
      = sumLiq (fun x => x.pool == pool && c (toPos x)) l := by
  induction l with
  | nil => rfl
  | cons x xs ih =>
    by_cases hx : (x.pool == pool) = true
    · simp only [List.filter_cons, hx, if_true, List.reverse_cons, List.map_append, List.map_cons, List.map_nil,
        sumIf_append, ih, sumLiq, CLBook.sumIf, Bool.true_and]
      simp only [toPos]; omega
    · have hx' : (x.pool == pool) = false := by simpa using hx
      simp only [List.filter_cons, hx', Bool.false_eq_true, if_false, ih, sumLiq, Bool.false_and]
      omega

theorem absBook_inv {s : St} (hw : WInv s) {pool : Nat} {p : Pool} (hp : getPool s pool = some p) :
    CLBook.Inv (absBook s pool p) := by
  refine ⟨?_, ?_, ?_, ?_⟩
  · show p.liq.raw = CLBook.sumIf (CLBook.inRange p.tick) (absPos s pool)
    unfold absPos; rw [sumIf_absPos]; exact (hw.sums pool).active p hp
  · intro t
    show grossOf s pool t = CLBook.sumIf (CLBook.lowerAt t) (absPos s pool) + CLBook.sumIf (CLBook.upperAt t) (absPos s pool)
    unfold absPos; rw [sumIf_absPos, sumIf_absPos]; exact (hw.sums pool).gross t
  · intro t
    show netOf s pool t = CLBook.sumIf (CLBook.lowerAt t) (absPos s pool) - CLBook.sumIf (CLBook.upperAt t) (absPos s pool)
    unfold absPos; rw [sumIf_absPos, sumIf_absPos]; exact (hw.sums pool).net t
  · intro x hx
    unfold absBook absPos at hx
    obtain ⟨q, hq, e⟩ := List.mem_map.mp hx
    have hq' : q ∈ s.positions := (List.mem_filter.mp (List.mem_reverse.mp hq)).1
    rw [← e]; exact hw.posWf q hq'

/-- every operation of the list is admissible (`CLBook.Op.guard`) in the state it is applied to -/
def Guarded : List CLBook.Op → CLBook.St → Prop
  | [], _ => True
  | op :: r, b => op.guard b ∧ Guarded r (CLBook.step b op)

theorem fold_inv (ops : List CLBook.Op) : ∀ b, CLBook.Inv b → Guarded ops b → CLBook.Inv (ops.foldl CLBook.step b) := by
  induction ops with
  | nil => intro b hb _; exact hb
  | cons op r ih =>
    intro b hb hg
    rw [List.foldl_cons]
    exact ih _ (Sunrise.C04.step_inv b op hb hg.1) hg.2

open Sunrise.C04RefineLoop in
/-- the operations derived from a trace act on (active, cursor) independently of the position list -/
theorem fold_pos (evs : List SwapEv) (P : List CLBook.Pos) : ∀ b : CLBook.St,
    (bookOps evs).foldl CLBook.step { b with pos := P } = { (bookOps evs).foldl CLBook.step b with pos := P } := by
  induction evs with
  | nil => intro b; rfl
  | cons e es ih =>
    intro b
    cases e with
    | fee f => exact ih b
    | step n a o => exact ih b
    | cross up t =>
      have e : bookOps (SwapEv.cross up t :: es) = (if up then CLBook.Op.crossUp t else CLBook.Op.crossDown t) :: bookOps es := rfl
      rw [e, List.foldl_cons, List.foldl_cons]
      cases up
      · exact ih (CLBook.step b (CLBook.Op.crossDown t))
      · exact ih (CLBook.step b (CLBook.Op.crossUp t))
    | move t =>
      have e : bookOps (SwapEv.move t :: es) = CLBook.Op.moveWithin t :: bookOps es := rfl
      rw [e, List.foldl_cons, List.foldl_cons]
      exact ih (CLBook.step b (CLBook.Op.moveWithin t))

open Sunrise.C04RefineLoop in
/-- **a successful swap keeps the invariant**, provided (H1) the bookkeeping operations derived from the swap's ghost trace
    are admissible in `CLBook` (the crossed ticks are the next initialised ones, cursor moves pass no initialised tick) and
    (H2) the pool written back is live or has no position -/
theorem swap_inv_ok {exactIn : Bool} {s s1 s' : St} {pool : Nat} {denomIn denomOut : Denom} {amount : Int} {fee mLimit : Dec}
    {o : SwapOut} {p : Pool} {b : Bank} (hI : Inv s) (hp : getPool s pool = some p)
    (hc : computeSwap exactIn s pool denomIn denomOut amount fee mLimit true = .ok (s1, o))
    (hs' : s' = setPool { s1 with bank := b } { p with liq := o.liq, tick := o.tick, sqrtP := o.sqrtP })
    (H1 : Guarded (bookOps s'.lastTrace) (absBook s pool p))
    (H2 : ∀ q, getPool s' pool = some q → poolLive q = false → poolHasPosition s' pool = false) :
    Inv s' := by
  obtain ⟨p', acc, lim, s0, ss, hp', hloop, hot, hol, htr, f1, f2, f3, f4, f5⟩ := computeSwap_inv hc
  have e : p' = p := by rw [hp] at hp'; exact (Option.some.inj hp').symm
  subst e
  have hnd := sorted_keys_nodup s.ticks hI.w.sorted
  obtain ⟨it1, it2, it3⟩ := tickIter_hyps s pool p'.tick (decide (denomIn = p'.base)) hnd
  obtain ⟨⟨evs, hevs, hfold⟩, hgn, hfr⟩ := swapLoop_book_master pool _ _ _ _ _ _ _ it1 it2 it3 hloop
  obtain ⟨hkeys, hnp, hnpl⟩ := swapLoop_keys _ _ _ _ _ _ _ hI.w.sorted
    (fun ti hti => (findTick_isSome_iff s ti.pool ti.tick).mp (by rw [it1 ti hti]; rfl)) hloop
  have hevs' : evs = ss.trace := by
    rw [hevs]; simp [C05Loop.ss0Of]
  have hlt : s'.lastTrace = ss.trace := by rw [hs']; exact htr
  rw [hlt, ← hevs'] at H1
  -- the abstraction after the loop satisfies the CLBook invariant
  have hAI := fold_inv (bookOps evs) (absBook s pool p') (absBook_inv hI.w hp) H1
  have hfold' : (bookOps evs).foldl CLBook.step (absBook s pool p')
      = { bookAt s0 pool ss with pos := absPos s pool } := by
    have : absBook s pool p' = { bookAt s pool (C05Loop.ss0Of p' amount) with pos := absPos s pool } := rfl
    rw [this, fold_pos, hfold]
  rw [hfold'] at hAI
  have hact : ss.liq.raw = sumLiq (inRangeOf pool ss.tick) s.positions := by
    have := hAI.active_eq
    simp only [bookAt] at this
    unfold absPos at this; rw [sumIf_absPos] at this; exact this
  -- frames
  have hid : p'.id = pool := by
    have := List.find?_some hp
    simpa using this
  have hpools1 : ({ s1 with bank := b } : St).pools = s.pools := f1.trans hfr.1
  have hposs : s'.positions = s.positions := by rw [hs']; exact f2.trans hfr.2.1
  have hticks : s'.ticks = s0.ticks := by rw [hs']; exact f3
  have hget : getPool s' pool = some { p' with liq := o.liq, tick := o.tick, sqrtP := o.sqrtP } := by
    rw [hs']; exact C04Interval.getPool_setPool (s := s) hp hpools1 rfl
  have hother : ∀ pl, pl ≠ pool → getPool s' pl = getPool s pl := by
    intro pl hne
    rw [hs', getPool_setPool_other _ _ pl (by simp only [hid]; exact hne)]
    exact getPool_congr hpools1 pl
  have hg : ∀ pl t, grossOf s' pl t = grossOf s pl t ∧ netOf s' pl t = netOf s pl t := by
    intro pl t
    rw [grossOf_congr hticks, netOf_congr hticks]; exact hgn pl t
  have hkeys' : s'.ticks.map keyOf = s.ticks.map keyOf := by rw [hticks]; exact hkeys
  refine ⟨⟨?_, ?_, ?_, ?_, ?_, ?_, ?_⟩, ?_, ?_, ?_⟩
  · intro pl
    refine ⟨?_, ?_, ?_⟩
    · intro q hq
      by_cases hpl : pl = pool
      · subst hpl
        rw [hget] at hq
        have e := Option.some.inj hq
        subst e
        show o.liq.raw = sumLiq (inRangeOf pl o.tick) s'.positions
        rw [hol, hot, hposs]; exact hact
      · rw [hother pl hpl] at hq
        rw [hposs]; exact (hI.w.sums pl).active q hq
    · intro t; rw [(hg pl t).1, hposs]; exact (hI.w.sums pl).gross t
    · intro t; rw [(hg pl t).2, hposs]; exact (hI.w.sums pl).net t
  · rw [hposs]; exact hI.w.posWf
  · rw [hposs]; exact hI.w.idsNodup
  · rw [hposs]
    have : s'.nextPos = s.nextPos := by rw [hs']; exact f4.trans hnp
    rw [this]; exact hI.w.idsLt
  · unfold TicksSorted; rw [hkeys']; exact hI.w.sorted
  · have h1 : s'.pools.map (·.id) = s.pools.map (·.id) := by rw [hs', setPool_ids, hpools1]
    have h2 : s'.nextPool = s.nextPool := by rw [hs']; exact f5.trans hnpl
    rw [h1, h2]; exact hI.w.poolIdsLt
  · rw [hposs]
    have h2 : s'.nextPool = s.nextPool := by rw [hs']; exact f5.trans hnpl
    rw [h2]; exact hI.w.posPoolLt
  · rw [hposs]; exact hI.strict
  · intro pl t hs
    rw [(hg pl t).1]
    apply hI.nonEmpty pl t
    rw [findTick_isSome_iff] at hs ⊢
    rw [← hkeys']; exact hs
  · intro pl q hq hl
    by_cases hpl : pl = pool
    · subst hpl
      exact H2 q hq hl
    · rw [hother pl hpl] at hq
      rw [poolHasPosition_congr hposs]
      exact hI.liveOK pl q hq hl

/-! ### an executable sufficient check for the swap side conditions (used for concrete non-vacuity examples) -/

def ticksOf (s : St) (pool : Nat) : List Int := (s.ticks.filter (·.pool == pool)).map (·.tick)

theorem grossOf_not_stored (s : St) (pool : Nat) (u : Int) (h : u ∉ ticksOf s pool) : grossOf s pool u = 0 := by
  unfold grossOf
  cases hf : findTick s pool u with
  | none => rfl
  | some ti =>
    exfalso; apply h
    have hm := List.mem_of_find?_eq_some hf
    have hk := List.find?_some hf
    simp only [Bool.and_eq_true, beq_iff_eq] at hk
    exact List.mem_map.mpr ⟨ti, List.mem_filter.mpr ⟨hm, by simp [hk.1]⟩, hk.2⟩

def freeB (ts : List Int) (gross : Int → Int) (c : Int → Bool) : Bool := ts.all (fun u => !(c u) || gross u == 0)

theorem freeB_sound {ts : List Int} {gross : Int → Int} {c : Int → Bool} (h : freeB ts gross c = true)
    (h0 : ∀ u, u ∉ ts → gross u = 0) : ∀ u, c u = true → gross u = 0 := by
  intro u hc
  by_cases hu : u ∈ ts
  · have := List.all_eq_true.mp h u hu
    simpa [hc] using this
  · exact h0 u hu

/-- executable form of `CLBook.Op.guard` for the three swap operations, tick quantifiers evaluated on the stored ticks -/
def opGuardB (ts : List Int) (b : CLBook.St) : CLBook.Op → Bool
  | .crossUp t => decide (b.tick < t) && freeB ts b.gross (fun u => decide (b.tick < u) && decide (u < t))
  | .crossDown t => decide (t ≤ b.tick) && freeB ts b.gross (fun u => decide (t < u) && decide (u ≤ b.tick))
  | .moveWithin t' =>
    (decide (b.tick ≤ t') && freeB ts b.gross (fun u => decide (b.tick < u) && decide (u ≤ t')))
    || (decide (t' ≤ b.tick) && freeB ts b.gross (fun u => decide (t' < u) && decide (u ≤ b.tick)))
  | _ => false

def guardedB (ts : List Int) : List CLBook.Op → CLBook.St → Bool
  | [], _ => true
  | op :: r, b => opGuardB ts b op && guardedB ts r (CLBook.step b op)

theorem guardedB_sound (ts : List Int) : ∀ (ops : List CLBook.Op) (b : CLBook.St), (∀ u, u ∉ ts → b.gross u = 0) →
    guardedB ts ops b = true → Guarded ops b := by
  intro ops
  induction ops with
  | nil => intro b _ _; trivial
  | cons op r ih =>
    intro b h0 h
    simp only [guardedB, Bool.and_eq_true] at h
    obtain ⟨hg, hr⟩ := h
    cases op with
    | add lo hi d => simp [opGuardB] at hg
    | decrease i d => simp [opGuardB] at hg
    | crossUp t =>
      simp only [opGuardB, Bool.and_eq_true, decide_eq_true_eq] at hg
      refine ⟨⟨hg.1, fun u h1 h2 => freeB_sound hg.2 h0 u (by simp [h1, h2])⟩, ih _ h0 hr⟩
    | crossDown t =>
      simp only [opGuardB, Bool.and_eq_true, decide_eq_true_eq] at hg
      refine ⟨⟨hg.1, fun u h1 h2 => freeB_sound hg.2 h0 u (by simp [h1, h2])⟩, ih _ h0 hr⟩
    | moveWithin t' =>
      simp only [opGuardB, Bool.or_eq_true, Bool.and_eq_true, decide_eq_true_eq] at hg
      refine ⟨?_, ih _ h0 hr⟩
      rcases hg with hg | hg
      · exact Or.inl ⟨hg.1, fun u h1 h2 => freeB_sound hg.2 h0 u (by simp [h1, h2])⟩
      · exact Or.inr ⟨hg.1, fun u h1 h2 => freeB_sound hg.2 h0 u (by simp [h1, h2])⟩

/-! ### the CROSS guards of a swap trace follow from the sorted tick store without empty ticks -/

/-- `t` lies beyond the cursor `c` in trade direction (base-for-quote goes down and may cross the cursor tick itself) -/
def beyond (bfq : Bool) (c t : Int) : Prop := if bfq then t ≤ c else c < t

/-- strict order of the tick iterator in trade direction -/
def dirLt (bfq : Bool) (a b : Int) : Prop := if bfq then b < a else a < b

/-- the crossing operation of the trade direction -/
def crossOp (bfq : Bool) (t : Int) : CLBook.Op := if bfq then .crossDown t else .crossUp t

/-- **what the remaining tick iterator `rem` is for the abstraction `b`**: strictly sorted in trade direction, every tick in
    it lies beyond the cursor and is initialised (gross ≠ 0), every initialised tick beyond the cursor is in it -/
structure IterOK (bfq : Bool) (b : CLBook.St) (rem : List Int) : Prop where
  sorted : rem.Pairwise (dirLt bfq)
  beyond : ∀ t ∈ rem, beyond bfq b.tick t ∧ b.gross t ≠ 0
  complete : ∀ u, b.gross u ≠ 0 → C04StoreL.beyond bfq b.tick u → u ∈ rem

/-- crossing the head of the iterator is admissible and leaves the tail as the iterator of the new state -/
theorem iterOK_cross {bfq : Bool} {b : CLBook.St} {t : Int} {rest : List Int} (h : IterOK bfq b (t :: rest)) :
    (crossOp bfq t).guard b ∧ IterOK bfq (CLBook.step b (crossOp bfq t)) rest := by
  obtain ⟨hs, hb, hc⟩ := h
  have hs' := List.pairwise_cons.mp hs
  have ht := hb t List.mem_cons_self
  cases bfq
  · simp only [C04StoreL.beyond, dirLt, crossOp, Bool.false_eq_true, if_false] at *
    refine ⟨⟨ht.1, ?_⟩, ⟨hs'.2, ?_, ?_⟩⟩
    · intro u h1 h2
      by_cases hg : b.gross u = 0
      · exact hg
      · exfalso
        rcases List.mem_cons.mp (hc u hg h1) with e | hm
        · omega
        · have := hs'.1 u hm; omega
    · intro t' ht'
      exact ⟨hs'.1 t' ht', (hb t' (List.mem_cons_of_mem _ ht')).2⟩
    · intro u hg hu
      have hu' : t < u := hu
      rcases List.mem_cons.mp (hc u hg (by omega)) with e | hm
      · omega
      · exact hm
  · simp only [C04StoreL.beyond, dirLt, crossOp, if_true] at *
    refine ⟨⟨ht.1, ?_⟩, ⟨hs'.2, ?_, ?_⟩⟩
    · intro u h1 h2
      by_cases hg : b.gross u = 0
      · exact hg
      · exfalso
        rcases List.mem_cons.mp (hc u hg h2) with e | hm
        · omega
        · have := hs'.1 u hm; omega
    · intro t' ht'
      have := hs'.1 t' ht'
      refine ⟨?_, (hb t' (List.mem_cons_of_mem _ ht')).2⟩
      show t' ≤ t - 1
      omega
    · intro u hg hu
      have hu' : u ≤ t - 1 := hu
      rcases List.mem_cons.mp (hc u hg (by omega)) with e | hm
      · omega
      · exact hm

/-- an ADMISSIBLE cursor move inside a bucket keeps the iterator -/
theorem iterOK_move {bfq : Bool} {b : CLBook.St} {t' : Int} {rem : List Int} (h : IterOK bfq b rem)
    (hg : (CLBook.Op.moveWithin t').guard b) : IterOK bfq (CLBook.step b (CLBook.Op.moveWithin t')) rem := by
  obtain ⟨hs, hb, hc⟩ := h
  refine ⟨hs, ?_, ?_⟩
  · intro t ht
    obtain ⟨h1, h2⟩ := hb t ht
    refine ⟨?_, h2⟩
    show C04StoreL.beyond bfq t' t
    cases bfq
    · simp only [C04StoreL.beyond, Bool.false_eq_true, if_false] at *
      rcases hg with ⟨g1, g2⟩ | ⟨g1, g2⟩
      · by_cases c : t ≤ t'
        · exact absurd (g2 t h1 c) h2
        · omega
      · omega
    · simp only [C04StoreL.beyond, if_true] at *
      rcases hg with ⟨g1, g2⟩ | ⟨g1, g2⟩
      · omega
      · by_cases c : t' < t
        · exact absurd (g2 t c h1) h2
        · omega
  · intro u hgu hu
    have hu' : C04StoreL.beyond bfq t' u := hu
    apply hc u hgu
    cases bfq
    · simp only [C04StoreL.beyond, Bool.false_eq_true, if_false] at *
      rcases hg with ⟨g1, g2⟩ | ⟨g1, g2⟩
      · omega
      · by_cases c : u ≤ b.tick
        · exact absurd (g2 u hu' c) hgu
        · omega
    · simp only [C04StoreL.beyond, if_true] at *
      rcases hg with ⟨g1, g2⟩ | ⟨g1, g2⟩
      · by_cases c : b.tick < u
        · exact absurd (g2 u c hu') hgu
        · omega
      · omega

/-- the guard of a cursor move inside a bucket; nothing for the other operations -/
def moveGuard (b : CLBook.St) : CLBook.Op → Prop
  | .moveWithin t => (CLBook.Op.moveWithin t).guard b
  | _ => True

/-- every `moveWithin` of the list is admissible in the state it is applied to (NOTHING is asked of the crossings) -/
def GuardedMoves : List CLBook.Op → CLBook.St → Prop
  | [], _ => True
  | op :: r, b => moveGuard b op ∧ GuardedMoves r (CLBook.step b op)

theorem guardedMoves_of_guarded : ∀ (ops : List CLBook.Op) (b : CLBook.St), Guarded ops b → GuardedMoves ops b := by
  intro ops
  induction ops with
  | nil => intro b _; trivial
  | cons op r ih =>
    intro b h
    refine ⟨?_, ih _ h.2⟩
    cases op <;> first | exact h.1 | trivial

open Sunrise.C04RefineLoop in
/-- **trace-level induction.** if the crossings of a trace are a prefix of an iterator that is `IterOK` for the
    abstraction, and the `moveWithin` operations of the trace are admissible, then ALL its operations are admissible:
    each crossing is of the next initialised tick in trade direction -/
theorem guarded_of_moves (bfq : Bool) : ∀ (evs : List SwapEv) (b : CLBook.St) (rem : List Int), IterOK bfq b rem →
    crossed evs <+: rem.map (fun t => (!bfq, t)) → GuardedMoves (bookOps evs) b → Guarded (bookOps evs) b := by
  intro evs
  induction evs with
  | nil => intro b rem _ _ _; trivial
  | cons e es ih =>
    intro b rem hJ hpre hm
    cases e with
    | fee f => exact ih b rem hJ hpre hm
    | step n a o => exact ih b rem hJ hpre hm
    | move t =>
      have e : bookOps (SwapEv.move t :: es) = CLBook.Op.moveWithin t :: bookOps es := rfl
      rw [e] at hm ⊢
      exact ⟨hm.1, ih _ rem (iterOK_move hJ hm.1) hpre hm.2⟩
    | cross up t =>
      have e : bookOps (SwapEv.cross up t :: es) = (if up then CLBook.Op.crossUp t else CLBook.Op.crossDown t) :: bookOps es := rfl
      have ec : crossed (SwapEv.cross up t :: es) = (up, t) :: crossed es := rfl
      rw [e] at hm ⊢
      rw [ec] at hpre
      cases rem with
      | nil =>
        rw [List.map_nil] at hpre
        exact absurd (List.prefix_nil.mp hpre) (List.cons_ne_nil _ _)
      | cons t0 rest =>
        rw [List.map_cons, List.cons_prefix_cons] at hpre
        obtain ⟨he, hpre'⟩ := hpre
        have e1 : up = !bfq := congrArg Prod.fst he
        have e2 : t = t0 := congrArg Prod.snd he
        subst e2
        have eop : (if up then CLBook.Op.crossUp t else CLBook.Op.crossDown t) = crossOp bfq t := by
          rw [e1]; cases bfq <;> rfl
        rw [eop] at hm ⊢
        obtain ⟨hg, hJ'⟩ := iterOK_cross hJ
        exact ⟨hg, ih _ rest hJ' hpre' hm.2⟩

theorem mem_tickIter_iff (s : St) (pool : Nat) (cur : Int) (bfq : Bool) (ti : TickInfo) :
    ti ∈ tickIter s pool cur bfq ↔ ti ∈ s.ticks ∧ ti.pool = pool ∧ beyond bfq cur ti.tick := by
  unfold tickIter beyond
  cases bfq
  · simp only [Bool.false_eq_true, if_false, List.mem_filter, beq_iff_eq, decide_eq_true_eq, gt_iff_lt, and_assoc]
  · simp only [if_true, List.mem_reverse, List.mem_filter, beq_iff_eq, decide_eq_true_eq, and_assoc]

/-- the ticks of one pool appear in the sorted store in strictly increasing order -/
theorem pool_ticks_increasing {l : List TickInfo} (hs : TicksSorted l) (pool : Nat) :
    (l.filter (·.pool == pool)).Pairwise (fun a b => a.tick < b.tick) := by
  unfold TicksSorted at hs
  have h0 : l.Pairwise (fun a b => keyLt (keyOf a) (keyOf b)) := List.pairwise_map.mp hs
  refine (h0.sublist List.filter_sublist).imp_of_mem ?_
  intro a b ha hb h
  have pa : a.pool = pool := by simpa using (List.mem_filter.mp ha).2
  have pb : b.pool = pool := by simpa using (List.mem_filter.mp hb).2
  unfold keyLt keyOf at h
  simp only [pa, pb] at h
  omega

/-- **the iterator built by `tickIter` is `IterOK` for the abstraction of the pool**, in every store satisfying the
    combined invariant (sorted tick store, no stored tick with gross 0) -/
theorem iterOK_init {s : St} (hI : Inv s) (pool : Nat) (p : Pool) (bfq : Bool) :
    IterOK bfq (absBook s pool p) ((tickIter s pool p.tick bfq).map (·.tick)) := by
  refine ⟨?_, ?_, ?_⟩
  · rw [List.pairwise_map]
    have hP := pool_ticks_increasing hI.w.sorted pool
    unfold tickIter dirLt
    cases bfq
    · simp only [Bool.false_eq_true, if_false]
      exact hP.sublist List.filter_sublist
    · simp only [if_true]
      rw [List.pairwise_reverse]
      exact hP.sublist List.filter_sublist
  · intro t ht
    obtain ⟨ti, hti, e⟩ := List.mem_map.mp ht
    obtain ⟨h1, h2, h3⟩ := (mem_tickIter_iff s pool p.tick bfq ti).mp hti
    subst e
    refine ⟨h3, ?_⟩
    show grossOf s pool ti.tick ≠ 0
    apply hI.nonEmpty pool ti.tick
    rw [findTick_isSome_iff]
    exact List.mem_map.mpr ⟨ti, h1, by unfold keyOf; rw [h2]⟩
  · intro u hg hu
    have hg' : grossOf s pool u ≠ 0 := hg
    have hu' : beyond bfq p.tick u := hu
    cases hf : findTick s pool u with
    | none => unfold grossOf at hg'; rw [hf] at hg'; exact absurd rfl hg'
    | some ti =>
      have hm := List.mem_of_find?_eq_some hf
      have hk := List.find?_some hf
      simp only [Bool.and_eq_true, beq_iff_eq] at hk
      exact List.mem_map.mpr ⟨ti, (mem_tickIter_iff s pool p.tick bfq ti).mpr ⟨hm, hk.1, by rw [hk.2]; exact hu'⟩, hk.2⟩

open Sunrise.C04RefineLoop in
/-- **(H1) reduced to the cursor moves.**  In a store satisfying the combined invariant, if the `moveWithin` operations
    derived from the ghost trace of a successful `computeSwap` are admissible, then all derived operations are: every
    crossing recorded by the loop is of the next initialised tick in trade direction (sorted store, no empty tick stored,
    `tickIter` enumerates the stored ticks beyond the cursor, the crossings are a prefix of the iterator). -/
theorem swap_guarded_of_moves {exactIn : Bool} {s s1 : St} {pool : Nat} {denomIn denomOut : Denom} {amount : Int}
    {fee mLimit : Dec} {o : SwapOut} {p : Pool} (hI : Inv s) (hp : getPool s pool = some p)
    (hc : computeSwap exactIn s pool denomIn denomOut amount fee mLimit true = .ok (s1, o))
    (Hm : GuardedMoves (bookOps s1.lastTrace) (absBook s pool p)) : Guarded (bookOps s1.lastTrace) (absBook s pool p) := by
  obtain ⟨p', acc, lim, s0, ss, hp', hloop, _, _, htr, _⟩ := computeSwap_inv hc
  have e : p' = p := by rw [hp] at hp'; exact (Option.some.inj hp').symm
  subst e
  obtain ⟨evs, hevs, hpre⟩ := swapLoop_trace_cross_prefix _ _ _ _ _ _ _ hloop
  have hevs' : evs = ss.trace := by
    rw [hevs]; simp [C05Loop.ss0Of]
  rw [htr, ← hevs'] at Hm ⊢
  refine guarded_of_moves (decide (denomIn = p'.base)) evs _ _ (iterOK_init hI pool p' _) ?_ Hm
  rw [List.map_map]
  exact hpre

open Sunrise.C04RefineLoop in
/-- **a successful swap keeps the invariant**, provided (H1') the CURSOR MOVES INSIDE A BUCKET derived from the swap's ghost
    trace are admissible in `CLBook` (they pass no initialised tick) and (H2) the pool written back is live or has no
    position.  The admissibility of the crossings is proved (`swap_guarded_of_moves`). -/
theorem swap_inv_ok' {exactIn : Bool} {s s1 s' : St} {pool : Nat} {denomIn denomOut : Denom} {amount : Int} {fee mLimit : Dec}
    {o : SwapOut} {p : Pool} {b : Bank} (hI : Inv s) (hp : getPool s pool = some p)
    (hc : computeSwap exactIn s pool denomIn denomOut amount fee mLimit true = .ok (s1, o))
    (hs' : s' = setPool { s1 with bank := b } { p with liq := o.liq, tick := o.tick, sqrtP := o.sqrtP })
    (H1 : GuardedMoves (bookOps s'.lastTrace) (absBook s pool p))
    (H2 : ∀ q, getPool s' pool = some q → poolLive q = false → poolHasPosition s' pool = false) :
    Inv s' := by
  have hlt : s'.lastTrace = s1.lastTrace := by rw [hs']; rfl
  refine swap_inv_ok hI hp hc hs' ?_ H2
  rw [hlt] at H1 ⊢
  exact swap_guarded_of_moves hI hp hc H1

/-! ### (H2) the written-back pool is live: reduced to "the prices of the pool's initialised ticks are not zero" -/

/-- the (price, cursor) pair of the swap state is live in the sense of `poolLive` -/
def LiveSS (ss : SwapState) : Prop := ¬ (ss.sqrtP.isZero = true ∧ ss.tick = 0)

open Sunrise.C05Loop (settleK) in
theorem settleK_live {β : Type} {bfq upd : Bool} {lim fee : Dec} {tp : TickMath.TickParams} {accVal : DecCoins}
    {denomIn : Denom} {s : St} {start tickPrice next : Dec} {ss2 : SwapState} {ti : TickInfo} {rest : List TickInfo}
    {K : St × SwapState × List TickInfo → Res β} {x : β}
    (h : settleK bfq upd lim fee tp accVal denomIn s start tickPrice next ss2 ti rest K = .ok x)
    (hp : ss2.sqrtP = next) (hstart : start = next → LiveSS ss2) (htp : tickPrice.isZero = false) :
    ∃ s3 ss3 iter3, K (s3, ss3, iter3) = .ok x ∧ LiveSS ss3 ∧ (iter3 = rest ∨ iter3 = ti :: rest) := by
  unfold settleK at h
  by_cases heq : (tickPrice == next) = true
  · rw [if_pos heq] at h
    have heq' : tickPrice = next := by simpa using heq
    obtain ⟨p, hpp, hK⟩ := bind_ok h
    have hpp' : crossTick s ss2 bfq lim fee ti accVal denomIn upd = .ok (p.1, p.2) := hpp
    obtain ⟨_, _, hsq, _, _⟩ := crossTick_effect hpp'
    refine ⟨p.1, p.2, rest, hK, ?_, Or.inl rfl⟩
    intro hc
    rw [hsq, hp, ← heq', htp] at hc
    exact absurd hc.1 (by decide)
  · rw [if_neg heq] at h
    by_cases hord : (if bfq = true then tickPrice.raw > next.raw else tickPrice.raw < next.raw)
    · rw [if_pos hord] at h; cases h
    · rw [if_neg hord] at h
      by_cases hmv : (!(start == next)) = true
      · rw [if_pos hmv] at h
        obtain ⟨t, ht, hK⟩ := bind_ok h
        refine ⟨_, _, _, hK, ?_, Or.inr rfl⟩
        intro hc
        have hz := sqrtPriceToTick_ne_zero ht
        have hc1 : ss2.sqrtP.isZero = true := hc.1
        rw [hp, hz] at hc1
        exact absurd hc1 (by decide)
      · rw [if_neg hmv] at h
        have hse : start = next := by simpa using hmv
        exact ⟨_, _, _, h, hstart hse, Or.inr rfl⟩

open Sunrise.C04RefineLoop Sunrise.C05Loop in
/-- **the swap loop keeps the (price, cursor) pair live**, provided the prices of the ticks of the iterator are not zero:
    a crossing sets the price to the (non-zero) tick price, a cursor move inside a bucket is computed by `sqrtPriceToTick`,
    which fails on price 0, and a step that moves nothing keeps price and cursor -/
theorem swapLoop_live {exactIn bfq upd : Bool} {lim fee : Dec} {tp : TickMath.TickParams} {accVal : DecCoins} {denomIn : Denom} :
    ∀ (fuel noProg : Nat) (s : St) (ss : SwapState) (iter : List TickInfo) (s' : St) (ss' : SwapState),
      LiveSS ss → (∀ ti ∈ iter, ∀ v, TickMath.tickToSqrtPrice ti.tick tp = .ok v → v.isZero = false) →
      swapLoop exactIn bfq upd lim fee tp accVal denomIn fuel noProg s ss iter = .ok (s', ss') → LiveSS ss' := by
  intro fuel
  induction fuel with
  | zero => intro noProg s ss iter s' ss' _ _ h; rw [swapLoop_zero] at h; cases h
  | succ fuel ih =>
    intro noProg s ss iter s' ss' hl hit h
    rw [swapLoop_succ_eq] at h
    split at h
    · have e := res_ok_inj h
      have e2 : ss = ss' := congrArg Prod.snd e
      rw [← e2]; exact hl
    · cases iter with
      | nil => cases h
      | cons ti rest =>
        simp only [] at h
        obtain ⟨tickPrice, hT, h⟩ := wrapTickK_ok h
        obtain ⟨r, _, h⟩ := bind_ok h
        split at h
        · cases h
        · obtain ⟨_, _, h3⟩ := ss2Of_book exactIn upd ss r
          have hsq := (ss2Of_facts exactIn upd ss r).1
          have hstart : ss.sqrtP = r.1 → LiveSS (ss2Of exactIn upd ss r) := by
            intro e hc
            apply hl
            rw [hsq, h3] at hc
            rw [e]; exact hc
          obtain ⟨s3, ss3, iter3, hK, hl3, hi3⟩ :=
            settleK_live h hsq hstart (hit ti List.mem_cons_self tickPrice hT)
          have hit3 : ∀ tj ∈ iter3, ∀ v, TickMath.tickToSqrtPrice tj.tick tp = .ok v → v.isZero = false := by
            rcases hi3 with e | e
            · rw [e]; exact fun tj hj => hit tj (List.mem_cons_of_mem _ hj)
            · rw [e]; exact hit
          simp only [] at hK
          by_cases hz : (if exactIn = true then amtInOf exactIn r else amtOutOf exactIn r).isZero = true
          · rw [if_pos hz] at hK
            by_cases hn : noProg ≥ 100
            · rw [if_pos hn] at hK; cases hK
            · rw [if_neg hn] at hK
              exact ih _ s3 ss3 iter3 s' ss' hl3 hit3 hK
          · rw [if_neg hz] at hK
            exact ih _ s3 ss3 iter3 s' ss' hl3 hit3 hK

/-- inversion of a successful `computeSwap` for liveness: the pool is live, the loop run, the reported price and cursor -/
theorem computeSwap_inv_live {exactIn : Bool} {s : St} {pool : Nat} {denomIn denomOut : Denom} {amount : Int} {fee mLimit : Dec}
    {upd : Bool} {s2 : St} {o : SwapOut} (h : computeSwap exactIn s pool denomIn denomOut amount fee mLimit upd = .ok (s2, o)) :
    ∃ (p : Pool) (acc : Accum) (lim : Dec) (s1 : St) (ss : SwapState), getPool s pool = some p ∧ poolLive p = true ∧
      swapLoop exactIn (decide (denomIn = p.base)) upd lim fee p.tp acc.value denomIn LOOP_FUEL 0 s (C05Loop.ss0Of p amount)
          (tickIter s pool p.tick (decide (denomIn = p.base))) = .ok (s1, ss) ∧
      o.tick = ss.tick ∧ o.sqrtP = ss.sqrtP := by
  rw [C05Loop.computeSwap_eq] at h
  cases hp : getPool s pool with
  | none => rw [hp] at h; cases h
  | some p =>
    rw [hp] at h
    simp only [] at h
    obtain ⟨hlive, h⟩ := ite_err_ok h
    obtain ⟨_, h⟩ := ite_err_ok h
    obtain ⟨_, h⟩ := ite_err_ok h
    obtain ⟨_, h⟩ := ite_err_ok h
    cases ha : getAccum s pool with
    | none => rw [ha] at h; cases h
    | some acc =>
      rw [ha] at h
      simp only [] at h
      obtain ⟨lim, _, h⟩ := bind_ok h
      obtain ⟨_, h⟩ := ite_err_ok h
      obtain ⟨x, hx, h⟩ := bind_ok h
      obtain ⟨_, h⟩ := ite_err_ok h
      have h' := res_ok_inj h
      have e2 : o = (C05Loop.finishSwap exactIn upd acc denomIn amount x.1 x.2).2 := (congrArg Prod.snd h').symm
      refine ⟨p, acc, lim, x.1, x.2, rfl, by simpa using hlive, hx, ?_, ?_⟩
      · rw [e2]; cases exactIn <;> rfl
      · rw [e2]; cases exactIn <;> rfl

/-- **price-grid boundary for (H2)**: the sqrt prices of the initialised ticks of the pool (computed with the pool's tick
    parameters) are not zero -/
def TickPricesNonZero (s : St) (pool : Nat) : Prop :=
  ∀ p, getPool s pool = some p → ∀ ti ∈ s.ticks, ti.pool = pool →
    ∀ v, TickMath.tickToSqrtPrice ti.tick p.tp = .ok v → v.isZero = false

/-- **(H2) from the tick prices**: after a successful `computeSwap` on a pool whose initialised ticks have non-zero prices,
    the record written back is live -/
theorem swap_written_back_live {exactIn : Bool} {s s1 : St} {pool : Nat} {denomIn denomOut : Denom} {amount : Int}
    {fee mLimit : Dec} {upd : Bool} {o : SwapOut} {p : Pool} (hp : getPool s pool = some p)
    (hc : computeSwap exactIn s pool denomIn denomOut amount fee mLimit upd = .ok (s1, o))
    (hT : TickPricesNonZero s pool) :
    poolLive { p with liq := o.liq, tick := o.tick, sqrtP := o.sqrtP } = true := by
  obtain ⟨p', acc, lim, s0, ss, hp', hlive, hloop, hot, hos⟩ := computeSwap_inv_live hc
  have e : p' = p := by rw [hp] at hp'; exact (Option.some.inj hp').symm
  subst e
  have h0 : LiveSS (C05Loop.ss0Of p' amount) := by
    intro hcz
    unfold poolLive at hlive
    simp only [C05Loop.ss0Of] at hcz
    simp [hcz.1, hcz.2] at hlive
  have hit : ∀ ti ∈ tickIter s pool p'.tick (decide (denomIn = p'.base)), ∀ v,
      TickMath.tickToSqrtPrice ti.tick p'.tp = .ok v → v.isZero = false := by
    intro ti hti
    obtain ⟨h1, h2, _⟩ := (mem_tickIter_iff s pool p'.tick _ ti).mp hti
    exact hT p' hp ti h1 h2
  have hl := swapLoop_live _ _ _ _ _ _ _ h0 hit hloop
  unfold poolLive
  simp only [hot, hos]
  unfold LiveSS at hl
  cases hz : ss.sqrtP.isZero with
  | false => simp
  | true =>
    have : ss.tick ≠ 0 := fun e => hl ⟨hz, e⟩
    simp [this]

open Sunrise.C04RefineLoop in
/-- **(H2) of the swap theorems from (T)**: in a store satisfying the invariant, if the initialised ticks of the pool have
    non-zero prices, the pool record written back by a successful swap is live -/
theorem swap_H2_of_tickPrices {exactIn : Bool} {s s1 s' : St} {pool : Nat} {denomIn denomOut : Denom} {amount : Int}
    {fee mLimit : Dec} {o : SwapOut} {p : Pool} {b : Bank} (hI : Inv s) (hp : getPool s pool = some p)
    (hc : computeSwap exactIn s pool denomIn denomOut amount fee mLimit true = .ok (s1, o))
    (hs' : s' = setPool { s1 with bank := b } { p with liq := o.liq, tick := o.tick, sqrtP := o.sqrtP })
    (hT : TickPricesNonZero s pool) :
    ∀ q, getPool s' pool = some q → poolLive q = false → poolHasPosition s' pool = false := by
  obtain ⟨p', acc, lim, s0, ss, hp', hloop, _, _, _, f1, _⟩ := computeSwap_inv hc
  have e : p' = p := by rw [hp] at hp'; exact (Option.some.inj hp').symm
  subst e
  have hnd := sorted_keys_nodup s.ticks hI.w.sorted
  obtain ⟨it1, it2, it3⟩ := tickIter_hyps s pool p'.tick (decide (denomIn = p'.base)) hnd
  obtain ⟨_, _, hfr⟩ := swapLoop_book_master pool _ _ _ _ _ _ _ it1 it2 it3 hloop
  have hpools1 : ({ s1 with bank := b } : St).pools = s.pools := f1.trans hfr.1
  have hget : getPool s' pool = some { p' with liq := o.liq, tick := o.tick, sqrtP := o.sqrtP } := by
    rw [hs']; exact C04Interval.getPool_setPool (s := s) hp hpools1 rfl
  intro q hq hl
  rw [hget] at hq
  have e := Option.some.inj hq
  subst e
  rw [swap_written_back_live hp hc hT] at hl
  cases hl

/-- executable form of `TickPricesNonZero` -/
def tickPricesNonZeroB (s : St) (pool : Nat) : Bool :=
  match getPool s pool with
  | some p => (s.ticks.filter (·.pool == pool)).all fun ti =>
      match TickMath.tickToSqrtPrice ti.tick p.tp with
      | .ok v => !v.isZero
      | _ => true
  | none => true

theorem tickPricesNonZeroB_sound {s : St} {pool : Nat} (h : tickPricesNonZeroB s pool = true) : TickPricesNonZero s pool := by
  intro p hp ti hti hpl v hv
  unfold tickPricesNonZeroB at h
  rw [hp] at h
  have := List.all_eq_true.mp h ti (List.mem_filter.mpr ⟨hti, by simp [hpl]⟩)
  rw [hv] at this
  simpa using this

end Sunrise.C04StoreL
