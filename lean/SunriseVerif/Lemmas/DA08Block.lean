import SunriseVerif.Lemmas.DA08Tally
/-! Escrow invariant: tally of one item, whole end-blocker, every operation, every reachable state. -/
set_option linter.unusedSimpArgs false
set_option linter.unusedVariables false
namespace Sunrise.DA
open Sunrise Sunrise.Bank

theorem Mid.toDust {s : St} {u : String} {extra : Denom → Int} (m : Mid s u extra) (h : ∀ d, 0 ≤ extra d)
    (dust' : Denom → Int) (hd : ∀ d, dust' d = s.dust d + extra d) :
    Mid { s with dust := dust' } u (fun _ => 0) := by
  refine ⟨m.nodup, m.owner, m.term, m.coins, m.pubs, m.chals, m.params, ?_, ?_⟩
  · intro d; show 0 ≤ dust' d; rw [hd d]; have := m.dustNN d; have := h d; omega
  · intro d
    show s.bank.bal daAcc d = escrowSum s.invs s.items d + dust' d + 0
    rw [hd d, m.escrow d]; omega

/-- the final bookkeeping of the tally (counters, proofs, records of `u`) -/
theorem Mid.finish {s : St} {u : String} (m : Mid s u (fun _ => 0)) (chal : Nat) (faults : Addr → Option Nat)
    (proofs : List Proof) :
    Inv { s with chal := chal, faults := faults, proofs := proofs, invs := s.invs.filter (fun x => !(x.uri == u)) } := by
  have m2 := m.dropRecords (fun x => !(x.uri == u)) (by intro x _ hne; simp [hne])
  have : Inv { s with invs := s.invs.filter (fun x => !(x.uri == u)) } :=
    inv_of_mid m2 (fun _ => rfl) (by
      intro x hx
      have := (List.mem_filter.1 hx).2
      simpa using this)
  exact ⟨this.nodup, this.owner, this.coins, this.pubs, this.chals, this.params, this.dustNN, this.escrow⟩

theorem inv_tallyOne {env : Env} {s s' : St} {u : String} (hi : Inv s) (h : tallyOne env s u = .ok s') : Inv s' := by
  unfold tallyOne at h
  split at h
  · simp only [Res.ok.injEq] at h; subst h; exact hi
  rename_i it hfind
  obtain ⟨hmem, huri⟩ := findItem_some8 hfind
  subst huri
  split at h
  · simp only [Res.ok.injEq] at h; subst h; exact hi
  rename_i hs
  have hch : it.status = .ch := by
    cases hst : it.status <;> simp_all
  have hun : it.status.unresolved = true := by rw [hch]; rfl
  simp only [] at h
  split at h
  · cases h
  obtain ⟨s3, hs3, h⟩ := bind_ok h
  simp only [Res.ok.injEq] at h
  subst h
  obtain ⟨hcp, hci⟩ := hi.coins it hmem
  have hpub := hi.pubs it hmem
  have hpubnn := coinsPos_nonneg hcp
  have hinvnn := coinsPos_nonneg hci
  have hL : ∀ x ∈ invsOf s it.uri, x.sender ≠ daAcc := fun x hx => hi.chals x (List.mem_filter.1 hx).1
  have hcntL : cnt s.invs it.uri = ((invsOf s it.uri).length : Int) := rfl
  have hE : ∀ d, escrowOf s.invs it d = amt it.pubColl d + ((invsOf s it.uri).length : Int) * amt it.invColl d := by
    intro d; rw [escrowOf_unresolved _ _ _ hun, hcntL]
  suffices hm : Mid s3 it.uri (fun _ => 0) from hm.finish _ _ _
  split at hs3
  · -- rejected
    have m1 := mid_retag_terminal hi hmem hun .rej rfl s.now
    simp only [Res.ok.injEq] at hs3
    subst hs3
    generalize hLdef : invsOf s it.uri = L at *
    by_cases hn0 : L.length = 0
    · -- no challenger (a re-imported item): nothing is paid, the whole publish collateral becomes dust
      have hLnil : L = [] := List.eq_nil_of_length_eq_zero hn0
      subst hLnil
      simp only [List.foldl_nil]
      apply m1.toDust
      · intro d; rw [hE d]; have := amt_nonneg hpubnn d; simp only [List.length_nil] at *; omega
      · intro d
        simp only [addDust, hE d, rewardShare, List.map_nil, amt_nil, List.length_nil]
        simp
    · have hne0 : ¬ ((L.length : Int) = 0) := by omega
      simp only [if_neg hne0]
      have hn : (0 : Int) < (L.length : Int) := by omega
      have hrw := rewardShare_amt hpubnn hn
      have hC : ∀ c ∈ it.invColl ++ rewardShare it.pubColl (L.length : Int), 0 ≤ c.2 := by
        intro c hc
        rcases List.mem_append.1 hc with h | h
        · exact hinvnn c h
        · exact rewardShare_nonneg hpubnn hn c h
      obtain ⟨b, e, hbal⟩ := pay_fold _ hC L
        { s with items := setItem s.items { it with status := .rej, ts := s.now } } hL (by
          intro d
          have := m1.bal_ge d
          rw [hE d] at this
          rw [amt_append, Int.mul_add]
          have := (hrw d).1
          simp only [] at *
          omega)
      rw [e]
      have m2 := m1.pay b (fun d => (L.length : Int) * amt (it.invColl ++ rewardShare it.pubColl (L.length : Int)) d) hbal
      apply m2.toDust
      · intro d
        simp only [hE d, amt_append, Int.mul_add]
        have := (hrw d).1
        omega
      · intro d
        simp only [addDust, hE d, amt_append, Int.mul_add]
        omega
  · -- verified after challenge
    have m1 := mid_retag_terminal hi hmem hun .ver rfl s.now
    generalize hLdef : invsOf s it.uri = L at *
    obtain ⟨b, refund', k1, k2, e, p1, p2, p3, p4, p5, p6⟩ := settle_fold it.invColl
      (tallyOutcome s.params.rf it (proofsOf s it.uri) env.active (env.assign it.uri)).safe hinvnn L
      { s with items := setItem s.items { it with status := .ver, ts := s.now } } it.pubColl hL (by
        intro d
        have := m1.bal_ge d
        rw [hE d] at this
        have := amt_nonneg hpubnn d
        simp only [] at *
        omega) hpubnn
    rw [e] at hs3
    simp only [] at hs3
    have hk : ∀ d, k1 * amt it.invColl d + k2 * amt it.invColl d = (L.length : Int) * amt it.invColl d := by
      intro d; rw [← Int.add_mul, p3]
    have hsend : ∃ b', sendCoins b daAcc it.publisher refund' = .ok b' := by
      apply sendCoins_succeeds (daAcc_ne hpub) _ _ p6
      intro d
      rw [p5 d, p4 d]
      have := m1.bal_ge d
      rw [hE d] at this
      have := hk d
      simp only [] at *
      omega
    obtain ⟨b', hb'⟩ := hsend
    obtain ⟨hb1, _, _⟩ := sendCoins_ok (daAcc_ne hpub) _ _ _ hb'
    simp only [hb', Res.ok.injEq] at hs3
    subst hs3
    have m2 := m1.pay b' (fun d => escrowOf s.invs it d) (by
      intro d
      rw [hb1 d, p4 d, p5 d, hE d]
      have := hk d
      simp only [] at *
      omega)
    exact m2.congr (by intro d; simp)

theorem inv_tallyList {env : Env} : ∀ (l : List String) {s s' : St}, Inv s → tallyList env l s = .ok s' → Inv s' := by
  intro l
  induction l with
  | nil => intro s s' hi h; simp only [tallyList, Res.ok.injEq] at h; subst h; exact hi
  | cons u l ih =>
    intro s s' hi h
    simp only [tallyList] at h
    obtain ⟨s1, h1, h2⟩ := bind_ok h
    exact ih (inv_tallyOne hi h1) h2

theorem inv_slashEpoch {env : Env} {s : St} (hi : Inv s) : Inv (slashEpoch env s).1 := by
  unfold slashEpoch
  exact ⟨hi.nodup, hi.owner, hi.coins, hi.pubs, hi.chals, hi.params, hi.dustNN, hi.escrow⟩

theorem inv_time {s : St} (hi : Inv s) (t h : Int) : Inv { s with now := t, height := h } :=
  ⟨hi.nodup, hi.owner, hi.coins, hi.pubs, hi.chals, hi.params, hi.dustNN, hi.escrow⟩

theorem inv_endBlock {env : Env} {s s' : St} {sl : List Addr} (hi : Inv s) (h : endBlock env s = .ok (s', sl)) : Inv s' := by
  unfold endBlock at h
  simp only [] at h
  have h1 : Inv (prune s .rej s.params.rrp) := inv_foldl (fun s u h => inv_pruneOne .rej rfl h u) _ _ hi
  have h2 : Inv (prune (prune s .rej s.params.rrp) .ver s.params.vrp) :=
    inv_foldl (fun s u h => inv_pruneOne .ver rfl h u) _ _ h1
  have h3 : Inv (toChallenging (prune (prune s .rej s.params.rrp) .ver s.params.vrp)) :=
    inv_foldl (fun s u h => inv_toChallengingOne h u) _ _ h2
  have h4 : Inv (toVerified (toChallenging (prune (prune s .rej s.params.rrp) .ver s.params.vrp))) :=
    inv_foldl (fun s u h => inv_toVerifiedOne h u) _ _ h3
  obtain ⟨s5, h5, h6⟩ := bind_ok h
  have hi5 : Inv s5 := inv_tallyList _ h4 h5
  split at h6
  · cases h6
  split at h6
  · simp only [Res.ok.injEq] at h6
    have : s' = (slashEpoch env s5).1 := by rw [h6]
    rw [this]; exact inv_slashEpoch hi5
  · simp only [Res.ok.injEq, Prod.mk.injEq] at h6
    rw [← h6.1]; exact hi5

theorem submitProof_fields {s s' : St} {a v : Addr} {u : String} {ixs : List (Int × PFlag)} {e x b : Bool}
    (hr : submitProof s a v u ixs e x b = .ok s') :
    s'.bank = s.bank ∧ s'.items = s.items ∧ s'.invs = s.invs ∧ s'.params = s.params ∧ s'.dust = s.dust := by
  unfold submitProof at hr
  split at hr
  · cases hr
  split at hr
  · cases hr
  simp only [] at hr
  split at hr
  · cases hr
  split at hr
  · cases hr
  split at hr
  · cases hr
  split at hr
  · cases hr
  split at hr
  · cases hr
  obtain ⟨_, _, hr'⟩ := bind_ok hr
  simp only [Res.ok.injEq] at hr'
  subst hr'
  exact ⟨rfl, rfl, rfl, rfl, rfl⟩

theorem inv_step {s : St} (op : Op) (hi : Inv s) (hwf : op.wf) : Inv (step s op).1 := by
  cases op with
  | publish a u n p =>
    simp only [step]
    cases hr : publish s a u n p with
    | ok s' => exact inv_publish hi hwf hr
    | err c => exact hi
    | panic k => exact hi
  | invalid a u ix =>
    simp only [step]
    cases hr : submitInvalidity s a u ix with
    | ok s' => exact inv_submitInvalidity hi hwf hr
    | err c => exact hi
    | panic k => exact hi
  | proof a v u ixs e x b =>
    simp only [step]
    cases hr : submitProof s a v u ixs e x b with
    | ok s' =>
      simp only [applyMsg]
      obtain ⟨a1, a2, a3, a4, a5⟩ := submitProof_fields hr
      exact ⟨a2 ▸ hi.nodup, by rw [a2, a3]; exact hi.owner, by rw [a2]; exact hi.coins, by rw [a2]; exact hi.pubs,
        by rw [a3]; exact hi.chals, by rw [a4]; exact hi.params, by rw [a5]; exact hi.dustNN,
        by rw [a1, a2, a3, a5]; exact hi.escrow⟩
    | err c => exact hi
    | panic k => exact hi
  | regdep a d =>
    simp only [step, registerDeputy]
    exact ⟨hi.nodup, hi.owner, hi.coins, hi.pubs, hi.chals, hi.params, hi.dustNN, hi.escrow⟩
  | unregdep a =>
    simp only [step]
    unfold unregisterDeputy
    split
    · exact hi
    · simp only [applyMsg]
      exact ⟨hi.nodup, hi.owner, hi.coins, hi.pubs, hi.chals, hi.params, hi.dustNN, hi.escrow⟩
  | setParams p =>
    simp only [step]
    unfold updateParams
    split
    · rename_i hv
      simp only [applyMsg]
      exact ⟨hi.nodup, hi.owner, hi.coins, hi.pubs, hi.chals, hv, hi.dustNN, hi.escrow⟩
    · exact hi
  | block env dt =>
    simp only [step]
    cases hr : block env s dt with
    | ok r =>
      obtain ⟨s', sl⟩ := r
      exact inv_endBlock (inv_time hi _ _) hr
    | err c => exact hi
    | panic k => exact hi

theorem inv_init {s : St} (h : Init s) : Inv s := by
  refine ⟨?_, ?_, ?_, ?_, ?_, h.params, ?_, ?_⟩
  · rw [h.items]; simp [urisNodup]
  · rw [h.invs]; intro x hx; cases hx
  · rw [h.items]; intro x hx; cases hx
  · rw [h.items]; intro x hx; cases hx
  · rw [h.invs]; intro x hx; cases hx
  · intro d; rw [h.dust d]; omega
  · intro d; rw [h.bal d, h.items, h.dust d]; simp [escrowSum]

theorem inv_reachable {s : St} (h : Reachable s) : Inv s := by
  induction h with
  | init h0 => exact inv_init h0
  | step op _ hwf ih => exact inv_step op ih hwf

end Sunrise.DA
