import SunriseVerif.Model.DA
/-! Helper lemmas for Props/C08 (collateral escrow of x/da). Core-only. -/
set_option linter.unusedSimpArgs false
set_option linter.unusedVariables false
namespace Sunrise.DA
open Sunrise Sunrise.Bank

/-! ### coins and the bank -/
def coinsPos (cs : Coins) : Prop := ∀ c ∈ cs, 0 < c.2

theorem amt_nil (d : Denom) : amt [] d = 0 := rfl
theorem amt_cons (c : Denom × Int) (cs : Coins) (d : Denom) :
    amt (c :: cs) d = (if c.1 = d then c.2 else 0) + amt cs d := rfl

theorem amt_append (a b : Coins) (d : Denom) : amt (a ++ b) d = amt a d + amt b d := by
  induction a with
  | nil => simp [amt_nil]
  | cons c cs ih => simp only [List.cons_append, amt_cons, ih]; omega

theorem amt_nonneg {cs : Coins} (h : ∀ c ∈ cs, 0 ≤ c.2) (d : Denom) : 0 ≤ amt cs d := by
  induction cs with
  | nil => simp [amt_nil]
  | cons c cs ih =>
    have h1 := h c (List.mem_cons_self ..)
    have h2 := ih (fun x hx => h x (List.mem_cons_of_mem _ hx))
    rw [amt_cons]; split <;> omega

theorem coinsPos_nonneg {cs : Coins} (h : coinsPos cs) : ∀ c ∈ cs, 0 ≤ c.2 :=
  fun c hc => Int.le_of_lt (h c hc)

theorem coinsValid_pos {cs : Coins} (h : coinsValid cs = true) : coinsPos cs := by
  unfold coinsValid at h
  simp only [Bool.and_eq_true, List.all_eq_true, decide_eq_true_eq] at h
  exact h.1

theorem allPositive_of_pos {cs : Coins} (h : coinsPos cs) : allPositive cs = !cs.isEmpty := by
  unfold allPositive
  have : cs.all (fun c => decide (0 < c.2)) = true := by
    simp only [List.all_eq_true, decide_eq_true_eq]; exact h
  simp [this]

/-- effect of a successful multi-coin send between two different accounts -/
theorem sendCoins_ok {src dst : Addr} (hne : src ≠ dst) :
    ∀ (cs : Coins) (b b' : Bank), sendCoins b src dst cs = .ok b' →
      (∀ d, b'.bal src d = b.bal src d - amt cs d) ∧ (∀ d, b'.bal dst d = b.bal dst d + amt cs d)
      ∧ (∀ a d, a ≠ src → a ≠ dst → b'.bal a d = b.bal a d) := by
  intro cs
  induction cs with
  | nil =>
    intro b b' h
    simp only [sendCoins, Res.ok.injEq] at h
    subst h; simp [amt_nil]
  | cons c cs ih =>
    intro b b' h
    simp only [sendCoins] at h
    obtain ⟨b1, h1, h2⟩ := bind_ok h
    obtain ⟨_, _, e1⟩ := send_ok h1
    obtain ⟨i1, i2, i3⟩ := ih b1 b' h2
    have hne' : dst ≠ src := fun e => hne e.symm
    subst e1
    refine ⟨?_, ?_, ?_⟩
    · intro d; rw [i1 d, amt_cons]
      by_cases hd : c.1 = d
      · subst hd; simp [hne]; omega
      · have hd' : d ≠ c.1 := fun e => hd e.symm
        simp [hd, hd']
    · intro d; rw [i2 d, amt_cons]
      by_cases hd : c.1 = d
      · subst hd; simp [hne']; omega
      · have hd' : d ≠ c.1 := fun e => hd e.symm
        simp [hd, hd']
    · intro a d ha hb; rw [i3 a d ha hb]; simp [ha, hb]

/-- a multi-coin send succeeds when every entry is non-negative and the balance covers the per-denom totals -/
theorem sendCoins_succeeds {src dst : Addr} (hne : src ≠ dst) :
    ∀ (cs : Coins) (b : Bank), (∀ c ∈ cs, 0 ≤ c.2) → (∀ d, amt cs d ≤ b.bal src d) →
      ∃ b', sendCoins b src dst cs = .ok b' := by
  intro cs
  induction cs with
  | nil => intro b _ _; exact ⟨b, rfl⟩
  | cons c cs ih =>
    intro b hnn hle
    have h0 := hnn c (List.mem_cons_self ..)
    have hc := hle c.1
    have hrest := amt_nonneg (fun x hx => hnn x (List.mem_cons_of_mem _ hx)) c.1
    rw [amt_cons] at hc; simp only [if_true] at hc
    have hs : b.send src dst c.1 c.2 = .ok ((b.credit src c.1 (-c.2)).credit dst c.1 c.2) := by
      unfold Bank.send
      have h1 : ¬ c.2 < 0 := by omega
      have h2 : ¬ b.bal src c.1 < c.2 := by omega
      simp [h1, h2]
    have := ih ((b.credit src c.1 (-c.2)).credit dst c.1 c.2) (fun x hx => hnn x (List.mem_cons_of_mem _ hx)) (by
      intro d
      have hd := hle d
      rw [amt_cons] at hd
      by_cases hdd : c.1 = d
      · subst hdd; simp [hne] at hd ⊢; omega
      · have hd' : d ≠ c.1 := fun e => hdd e.symm
        simp [hdd, hd'] at hd ⊢; omega)
    obtain ⟨b', hb'⟩ := this
    exact ⟨b', by simp only [sendCoins, hs]; exact hb'⟩

/-! ### ordered insertion -/
theorem mem_insertBy8 {α} (lt : α → α → Bool) (x y : α) (l : List α) : y ∈ insertBy lt x l ↔ y = x ∨ y ∈ l := by
  induction l with
  | nil => simp [insertBy]
  | cons z zs ih =>
    simp only [insertBy]
    split
    · simp
    · simp only [List.mem_cons, ih]
      constructor
      · rintro (h | h | h) <;> simp [h]
      · rintro (h | h | h) <;> simp [h]

theorem filter_length_insertBy {α} (lt : α → α → Bool) (p : α → Bool) (x : α) (l : List α) :
    ((insertBy lt x l).filter p).length = (l.filter p).length + (if p x then 1 else 0) := by
  induction l with
  | nil => simp [insertBy]; split <;> simp [*]
  | cons z zs ih =>
    simp only [insertBy]
    split
    · simp only [List.filter_cons]
      split <;> split <;> simp_all <;> omega
    · simp only [List.filter_cons]
      split <;> simp_all <;> omega

/-! ### escrow bookkeeping -/
/-- number of recorded challengers of `u` -/
def cnt (invs : List Inval) (u : String) : Int := ((invs.filter (fun x => x.uri == u)).length : Int)

def escrowOf (invs : List Inval) (it : Item) (d : Denom) : Int :=
  if it.status.unresolved then amt it.pubColl d + cnt invs it.uri * amt it.invColl d else 0

def escrowSum (invs : List Inval) : List Item → Denom → Int
  | [], _ => 0
  | it :: r, d => escrowOf invs it d + escrowSum invs r d

theorem cnt_nonneg (invs : List Inval) (u : String) : 0 ≤ cnt invs u := by unfold cnt; omega

theorem escrowOf_nonneg (invs : List Inval) (it : Item) (d : Denom)
    (h1 : coinsPos it.pubColl) (h2 : coinsPos it.invColl) : 0 ≤ escrowOf invs it d := by
  unfold escrowOf
  split
  · have a := amt_nonneg (coinsPos_nonneg h1) d
    have b := amt_nonneg (coinsPos_nonneg h2) d
    have c := cnt_nonneg invs it.uri
    have := Int.mul_nonneg c b
    omega
  · omega

theorem escrowSum_nonneg (invs : List Inval) (items : List Item) (d : Denom)
    (h : ∀ it ∈ items, coinsPos it.pubColl ∧ coinsPos it.invColl) : 0 ≤ escrowSum invs items d := by
  induction items with
  | nil => simp [escrowSum]
  | cons it r ih =>
    have h0 := h it (List.mem_cons_self ..)
    have := escrowOf_nonneg invs it d h0.1 h0.2
    have := ih (fun x hx => h x (List.mem_cons_of_mem _ hx))
    simp only [escrowSum]; omega

theorem escrowSum_insertBy (invs : List Inval) (lt : Item → Item → Bool) (x : Item) (l : List Item) (d : Denom) :
    escrowSum invs (insertBy lt x l) d = escrowOf invs x d + escrowSum invs l d := by
  induction l with
  | nil => simp [insertBy, escrowSum]
  | cons z zs ih =>
    simp only [insertBy]
    split
    · simp [escrowSum]
    · simp only [escrowSum, ih]; omega

/-- the sum only depends on the challenger counts of the unresolved items it ranges over -/
theorem escrowSum_congr (invs invs' : List Inval) (items : List Item) (d : Denom)
    (h : ∀ it ∈ items, it.status.unresolved = true → cnt invs' it.uri = cnt invs it.uri) :
    escrowSum invs' items d = escrowSum invs items d := by
  induction items with
  | nil => simp [escrowSum]
  | cons it r ih =>
    have h0 := h it (List.mem_cons_self ..)
    have := ih (fun x hx => h x (List.mem_cons_of_mem _ hx))
    simp only [escrowSum, this]
    unfold escrowOf
    split
    · rename_i hu; rw [h0 hu]
    · rfl

def urisNodup (items : List Item) : Prop := (items.map (·.uri)).Nodup

theorem urisNodup_cons {it : Item} {r : List Item} (h : urisNodup (it :: r)) :
    (∀ x ∈ r, x.uri ≠ it.uri) ∧ urisNodup r := by
  unfold urisNodup at *
  simp only [List.map_cons, List.nodup_cons, List.mem_map, not_exists, not_and] at h
  exact ⟨fun x hx e => h.1 x hx e, h.2⟩

theorem urisNodup_insertBy (lt : Item → Item → Bool) (x : Item) (l : List Item)
    (hn : urisNodup l) (hx : ∀ y ∈ l, y.uri ≠ x.uri) : urisNodup (insertBy lt x l) := by
  induction l with
  | nil => simp [insertBy, urisNodup]
  | cons z zs ih =>
    obtain ⟨h1, h2⟩ := urisNodup_cons hn
    simp only [insertBy]
    split
    · unfold urisNodup at *
      simp only [List.map_cons, List.nodup_cons, List.mem_cons, List.mem_map, not_or, not_exists, not_and] at hn ⊢
      refine ⟨⟨fun e => hx z (List.mem_cons_self ..) e.symm, fun y hy e => hx y (List.mem_cons_of_mem _ hy) e⟩, hn⟩
    · have ih' := ih h2 (fun y hy => hx y (List.mem_cons_of_mem _ hy))
      unfold urisNodup at *
      simp only [List.map_cons, List.nodup_cons, List.mem_map, not_exists, not_and]
      refine ⟨?_, ih'⟩
      intro y hy e
      rcases (mem_insertBy8 lt x y zs).1 hy with rfl | hy'
      · exact hx z (List.mem_cons_self ..) e.symm
      · exact h1 y hy' e

theorem findItem_some8 {s : St} {u : String} {it : Item} (h : findItem s u = some it) : it ∈ s.items ∧ it.uri = u := by
  unfold findItem at h
  have h1 := List.mem_of_find?_eq_some h
  have h2 := List.find?_some h
  exact ⟨h1, by simpa using h2⟩

theorem findItem_none {s : St} {u : String} (h : findItem s u = none) : ∀ it ∈ s.items, it.uri ≠ u := by
  unfold findItem at h
  intro it hit e
  have := List.find?_eq_none.1 h it hit
  simp [e] at this

theorem nodup_unique {items : List Item} (hn : urisNodup items) {a b : Item} (ha : a ∈ items) (hb : b ∈ items)
    (e : a.uri = b.uri) : a = b := by
  induction items with
  | nil => cases ha
  | cons z zs ih =>
    obtain ⟨h1, h2⟩ := urisNodup_cons hn
    rcases List.mem_cons.1 ha with rfl | ha'
    · rcases List.mem_cons.1 hb with rfl | hb'
      · rfl
      · exact absurd e.symm (h1 b hb')
    · rcases List.mem_cons.1 hb with rfl | hb'
      · exact absurd e (h1 a ha')
      · exact ih h2 ha' hb'

/-- replacing the (unique) item `it` by `it'` (same uri) changes the sum by the difference of the two escrows -/
theorem escrowSum_setItem (invs : List Inval) (items : List Item) (it it' : Item) (d : Denom)
    (hn : urisNodup items) (hmem : it ∈ items) (hu : it'.uri = it.uri) :
    escrowSum invs (setItem items it') d = escrowSum invs items d - escrowOf invs it d + escrowOf invs it' d := by
  induction items with
  | nil => cases hmem
  | cons z zs ih =>
    obtain ⟨h1, h2⟩ := urisNodup_cons hn
    simp only [setItem, List.map_cons, escrowSum]
    rcases List.mem_cons.1 hmem with rfl | hm
    · have hz : (it.uri == it'.uri) = true := by simp [hu]
      simp only [hz, if_true]
      have : List.map (fun x => if (x.uri == it'.uri) = true then it' else x) zs = zs := by
        have hh : ∀ x ∈ zs, (fun x => if (x.uri == it'.uri) = true then it' else x) x = x := by
          intro x hx
          have : x.uri ≠ it'.uri := by rw [hu]; exact h1 x hx
          simp [this]
        calc List.map (fun x => if (x.uri == it'.uri) = true then it' else x) zs
            = List.map id zs := List.map_congr_left hh
          _ = zs := List.map_id zs
      rw [this]; omega
    · have hz : (z.uri == it'.uri) = false := by
        have : z.uri ≠ it.uri := fun e => (h1 it hm) e.symm
        simp [hu, this]
      simp only [hz]
      have := ih h2 hm
      simp only [setItem] at this
      simp only [Bool.false_eq_true, if_false]
      rw [this]; omega

theorem setItem_uris (items : List Item) (it' : Item) : (setItem items it').map (·.uri) = items.map (·.uri) := by
  unfold setItem
  rw [List.map_map]
  apply List.map_congr_left
  intro x _
  simp only [Function.comp]
  split
  · rename_i h; exact (by simpa using h : x.uri = it'.uri).symm
  · rfl

theorem mem_setItem {items : List Item} {it' x' : Item} (h : x' ∈ setItem items it') :
    x' = it' ∨ (x' ∈ items ∧ x'.uri ≠ it'.uri) := by
  unfold setItem at h
  obtain ⟨x, hx, e⟩ := List.mem_map.1 h
  by_cases hc : (x.uri == it'.uri) = true
  · simp [hc] at e; exact Or.inl e.symm
  · simp [hc] at e; subst e; exact Or.inr ⟨hx, by simpa using hc⟩

/-- removing items whose escrow is zero does not change the sum -/
theorem escrowSum_filter (invs : List Inval) (items : List Item) (p : Item → Bool) (d : Denom)
    (h : ∀ x ∈ items, p x = false → escrowOf invs x d = 0) :
    escrowSum invs (items.filter p) d = escrowSum invs items d := by
  induction items with
  | nil => simp [escrowSum]
  | cons z zs ih =>
    have := ih (fun x hx => h x (List.mem_cons_of_mem _ hx))
    simp only [List.filter_cons]
    split
    · simp only [escrowSum, this]
    · rename_i hp
      have := h z (List.mem_cons_self ..) (by simpa using hp)
      simp only [escrowSum]; omega

theorem urisNodup_filter {items : List Item} (p : Item → Bool) (hn : urisNodup items) : urisNodup (items.filter p) := by
  unfold urisNodup at *
  exact List.Nodup.sublist (List.Sublist.map _ (List.filter_sublist)) hn

end Sunrise.DA
