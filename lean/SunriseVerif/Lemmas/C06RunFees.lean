import SunriseVerif.Props.C06Refine2
import SunriseVerif.Props.C04Store

/-!
Helper for `Props/C06Run.lean`: every fee event of the ghost trace of a successful EXACT-IN swap is non-negative
(`computeFeeChargePerSwapStepOutGivenIn` returns zero or a value tested non-negative: `C05Loop.stepFee_nonneg`), by
induction over the swap loop — no hypothesis on prices, liquidity or the fee rate.
-/

set_option linter.unusedVariables false
set_option linter.unusedSimpArgs false
namespace Sunrise.C06RunFees
open Sunrise Sunrise.CL
open Sunrise.C05Loop (bind_ok res_ok_inj swapLoop_succ_eq swapLoop_zero settleK ss2Of bucket wrapTickK wrapTickK_ok
  amtInOf amtOutOf ss0Of bucket_ok_eq kernelOf stepFee_nonneg qfb_outGivenIn_shape bfq_outGivenIn_shape)

/-- every fee booked by the trace is non-negative (what the abstract `fee f` guard asks) -/
def FeesNonneg (evs : List SwapEv) : Prop := ∀ f, SwapEv.fee f ∈ evs → 0 ≤ f

theorem feesNonneg_append {a b : List SwapEv} (ha : FeesNonneg a) (hb : FeesNonneg b) : FeesNonneg (a ++ b) := by
  intro f hf
  rcases List.mem_append.mp hf with h | h
  · exact ha f h
  · exact hb f h

theorem bucket_exactIn_fee_nonneg {bfq : Bool} {lim fee cur tgt liq rem : Dec} {r : Dec × Dec × Dec × Dec}
    (h : bucket true bfq lim fee cur tgt liq rem = .ok r) : 0 ≤ r.2.2.2.raw := by
  have e := bucket_ok_eq h
  subst e
  cases bfq <;> simp only [kernelOf, if_true, Bool.false_eq_true, if_false]
  · obtain ⟨_, _, h3⟩ := qfb_outGivenIn_shape lim fee cur tgt liq rem
    rw [h3]; exact stepFee_nonneg _ _ _ _
  · obtain ⟨_, _, h3⟩ := bfq_outGivenIn_shape lim fee cur tgt liq rem
    rw [h3]; exact stepFee_nonneg _ _ _ _

theorem settleK_fees {β : Type} {bfq upd : Bool} {lim fee : Dec} {tp : TickMath.TickParams} {accVal : DecCoins}
    {denomIn : Denom} {s : St} {start tickPrice next : Dec} {ss2 : SwapState} {ti : TickInfo} {rest : List TickInfo}
    {K : St × SwapState × List TickInfo → Res β} {x : β}
    (h : settleK bfq upd lim fee tp accVal denomIn s start tickPrice next ss2 ti rest K = .ok x)
    (hf : FeesNonneg ss2.trace) :
    ∃ s3 ss3 iter3, K (s3, ss3, iter3) = .ok x ∧ FeesNonneg ss3.trace := by
  unfold settleK at h
  by_cases heq : (tickPrice == next) = true
  · rw [if_pos heq] at h
    obtain ⟨p, hp, hK⟩ := bind_ok h
    have hp' : crossTick s ss2 bfq lim fee ti accVal denomIn upd = .ok (p.1, p.2) := hp
    obtain ⟨_, hss⟩ := Sunrise.C04Refine.crossTick_shape hp'
    refine ⟨p.1, p.2, rest, hK, ?_⟩
    rw [hss]
    exact feesNonneg_append hf (by intro f hm; simp at hm)
  · rw [if_neg heq] at h
    by_cases hord : (if bfq = true then tickPrice.raw > next.raw else tickPrice.raw < next.raw)
    · rw [if_pos hord] at h; cases h
    · rw [if_neg hord] at h
      by_cases hmv : (!(start == next)) = true
      · rw [if_pos hmv] at h
        obtain ⟨t, _, hK⟩ := bind_ok h
        refine ⟨_, _, _, hK, ?_⟩
        exact feesNonneg_append hf (by intro f hm; simp at hm)
      · rw [if_neg hmv] at h
        exact ⟨_, _, _, h, hf⟩

/-- **the fee events of an exact-in loop run are non-negative** (accumulator updates on) -/
theorem swapLoop_fees_exactIn {bfq : Bool} {lim fee : Dec} {tp : TickMath.TickParams} {accVal : DecCoins} {denomIn : Denom} :
    ∀ (fuel noProg : Nat) (s : St) (ss : SwapState) (iter : List TickInfo) (s' : St) (ss' : SwapState),
      FeesNonneg ss.trace →
      swapLoop true bfq true lim fee tp accVal denomIn fuel noProg s ss iter = .ok (s', ss') → FeesNonneg ss'.trace := by
  intro fuel
  induction fuel with
  | zero => intro noProg s ss iter s' ss' _ h; rw [swapLoop_zero] at h; cases h
  | succ fuel ih =>
    intro noProg s ss iter s' ss' hf h
    rw [swapLoop_succ_eq] at h
    split at h
    · have e := res_ok_inj h
      have e2 : ss' = ss := (congrArg Prod.snd e).symm
      rw [e2]; exact hf
    · cases iter with
      | nil => cases h
      | cons ti rest =>
        simp only [] at h
        obtain ⟨tickPrice, _, h⟩ := wrapTickK_ok h
        obtain ⟨r, hB, h⟩ := bind_ok h
        split at h
        · cases h
        · have hr := bucket_exactIn_fee_nonneg hB
          have hf2 : FeesNonneg (ss2Of true true ss r).trace := by
            rw [(Sunrise.C06Refine2.ss2Of_fields true ss r).2.2.2.2]
            refine feesNonneg_append hf ?_
            intro f hm
            simp only [List.mem_cons, List.mem_nil_iff, or_false] at hm
            rcases hm with hm | hm
            · cases hm; exact hr
            · cases hm
          obtain ⟨s3, ss3, iter3, hK, hf3⟩ := settleK_fees h hf2
          simp only [if_true] at hK
          by_cases hz : (amtInOf true r).isZero = true
          · rw [if_pos hz] at hK
            by_cases hn : noProg ≥ 100
            · rw [if_pos hn] at hK; cases hK
            · rw [if_neg hn] at hK
              exact ih _ _ _ _ _ _ hf3 hK
          · rw [if_neg hz] at hK
            exact ih _ _ _ _ _ _ hf3 hK

/-- **message level**: the recorded trace of a successful `swapExactIn` books only non-negative fees -/
theorem swapExactIn_feesNonneg {s s' : St} {sender : Addr} {pool : Nat} {din dout : Denom} {amount out : Int} {fe : Bool}
    (h : swapExactIn s sender pool din amount dout fe = .ok (s', out)) : FeesNonneg s'.lastTrace := by
  obtain ⟨p, fee, lim, s1, o, b, hp, hc, hs'⟩ := C04Store.swapExactIn_inv h
  obtain ⟨p', acc, lim', s0, ss, _, _, hloop, hs1, _⟩ := Sunrise.C06Refine2.computeSwap_upd_inv hc
  have hlt : s'.lastTrace = ss.trace := by rw [hs', hs1]; rfl
  rw [hlt]
  exact swapLoop_fees_exactIn _ _ _ _ _ _ _ (by intro f hm; simp [ss0Of] at hm) hloop

end Sunrise.C06RunFees

#print axioms Sunrise.C06RunFees.swapExactIn_feesNonneg
