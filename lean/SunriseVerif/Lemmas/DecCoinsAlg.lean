import SunriseVerif.Model.DecCoins
/-! Algebra of `DecCoins` (sorted merge `add`, `neg`, `safeSub`/`sub`, and the folds `mulDec`, `quoDecTruncate`,
    `truncateDecimal`) in terms of the per-denom amount `raw l d`.  Core only.
    Note: `raw_removeZero` NEEDS `Sorted l` (or at least distinct denoms): for `l = [(x,0),(x,5)]`,
    `raw l x = 0` but `raw (removeZero l) x = 5`. -/
namespace Sunrise.DecCoinsAlg
open Sunrise

def raw (l : DecCoins) (d : String) : Int := (DecCoins.amountOf l d).raw
def Sorted (l : DecCoins) : Prop := l.Pairwise (fun x y => x.1 < y.1)
def coinAmt (cl : List (String × Int)) (d : String) : Int :=
  (cl.filter (·.1 == d)).foldl (fun acc c => acc + c.2) 0

theorem sorted_nil : Sorted [] := List.Pairwise.nil
theorem sorted_single (c : String × Dec) : Sorted [c] := List.pairwise_singleton _ _

theorem sorted_cons {c : String × Dec} {t : DecCoins} :
    Sorted (c :: t) ↔ (∀ y ∈ t, c.1 < y.1) ∧ Sorted t := List.pairwise_cons

theorem raw_nil {d : String} : raw [] d = 0 := rfl

theorem raw_cons {x : String} {v : Dec} {t : DecCoins} {d : String} :
    raw ((x, v) :: t) d = if x = d then v.raw else raw t d := by
  unfold raw DecCoins.amountOf
  by_cases h : x = d
  ·     simp [h]
  · have hb : (x == d) = false := by simpa using h
    simp [hb, h]

theorem raw_single {x : String} {v : Dec} {d : String} :
    raw [(x, v)] d = if x = d then v.raw else 0 := by
  rw [raw_cons, raw_nil]

theorem raw_eq_zero_of_ne {l : DecCoins} {d : String} (h : ∀ c ∈ l, c.1 ≠ d) : raw l d = 0 := by
  induction l with
  | nil => rfl
  | cons c t ih =>
    obtain ⟨x, v⟩ := c
    rw [raw_cons]
    have : x ≠ d := h (x, v) (by simp)
    simp [this]
    exact ih (fun c hc => h c (by simp [hc]))

theorem raw_eq_zero_of_lt {l : DecCoins} {x d : String} (h : ∀ c ∈ l, x < c.1) (hd : d = x ∨ d < x) :
    raw l d = 0 := by
  apply raw_eq_zero_of_ne
  intro c hc heq
  have := h c hc
  rcases hd with hd | hd
  · subst hd; rw [heq] at this; exact String.lt_irrefl _ this
  · rw [heq] at this; exact String.lt_irrefl _ (String.lt_trans this hd)

theorem lt_of_not_lt_of_ne {a b : String} (h1 : ¬ a < b) (h2 : ¬ a = b) : b < a := by
  grind

theorem removeZero_sorted {l : DecCoins} (h : Sorted l) : Sorted (DecCoins.removeZero l) :=
  List.Pairwise.filter _ h

theorem mem_removeZero {l : DecCoins} {c} (h : c ∈ DecCoins.removeZero l) : c ∈ l := by
  unfold DecCoins.removeZero at h
  exact (List.mem_filter.mp h).1

theorem raw_removeZero {l : DecCoins} {d : String} (h : Sorted l) :
    raw (DecCoins.removeZero l) d = raw l d := by
  induction l with
  | nil => rfl
  | cons c t ih =>
    obtain ⟨x, v⟩ := c
    rw [sorted_cons] at h
    have ih := ih h.2
    unfold DecCoins.removeZero at ih ⊢
    rw [List.filter_cons]
    by_cases hz : v.isZero
    · simp only [hz, Bool.not_true, Bool.false_eq_true, if_false]
      rw [ih, raw_cons]
      by_cases hx : x = d
      · simp only [hx, if_true]
        have : v.raw = 0 := by simpa [Dec.isZero] using hz
        rw [this]
        exact raw_eq_zero_of_lt h.1 (Or.inl hx.symm)
      · simp [hx]
    · simp only [hz, Bool.not_false, if_true]
      rw [raw_cons, raw_cons, ih]

theorem add_lb {a b : DecCoins} {x : String}
    (ha : ∀ y ∈ a, x < y.1) (hb : ∀ y ∈ b, x < y.1) : ∀ y ∈ DecCoins.add a b, x < y.1 := by
  fun_induction DecCoins.add a b with
  | case1 b => exact fun y hy => hb y (mem_removeZero hy)
  | case2 a _ => exact fun y hy => ha y (mem_removeZero hy)
  | case3 da va ta db vb tb hlt hz ih =>
    exact ih (fun y hy => ha y (List.mem_cons_of_mem _ hy)) hb
  | case4 da va ta db vb tb hlt hz ih =>
    intro y hy
    rcases List.mem_cons.mp hy with rfl | hy
    · exact ha _ (List.mem_cons_self ..)
    · exact ih (fun y hy => ha y (List.mem_cons_of_mem _ hy)) hb y hy
  | case5 va ta db vb tb r hz _ ih =>
    exact ih (fun y hy => ha y (List.mem_cons_of_mem _ hy)) (fun y hy => hb y (List.mem_cons_of_mem _ hy))
  | case6 va ta db vb tb r hz _ ih =>
    intro y hy
    rcases List.mem_cons.mp hy with rfl | hy
    · exact ha (db, va) (List.mem_cons_self ..)
    · exact ih (fun y hy => ha y (List.mem_cons_of_mem _ hy)) (fun y hy => hb y (List.mem_cons_of_mem _ hy)) y hy
  | case7 da va ta db vb tb h1 h2 hz ih =>
    exact ih ha (fun y hy => hb y (List.mem_cons_of_mem _ hy))
  | case8 da va ta db vb tb h1 h2 hz ih =>
    intro y hy
    rcases List.mem_cons.mp hy with rfl | hy
    · exact hb _ (List.mem_cons_self ..)
    · exact ih ha (fun y hy => hb y (List.mem_cons_of_mem _ hy)) y hy

theorem add_sorted {a b : DecCoins} (ha : Sorted a) (hb : Sorted b) : Sorted (DecCoins.add a b) := by
  fun_induction DecCoins.add a b with
  | case1 b => exact removeZero_sorted hb
  | case2 a _ => exact removeZero_sorted ha
  | case3 da va ta db vb tb hlt hz ih => exact ih (sorted_cons.mp ha).2 hb
  | case4 da va ta db vb tb hlt hz ih =>
    rw [sorted_cons] at ha
    refine sorted_cons.mpr ⟨?_, ih ha.2 hb⟩
    apply add_lb ha.1
    intro y hy
    rcases List.mem_cons.mp hy with rfl | hy
    · exact hlt
    · exact String.lt_trans hlt ((sorted_cons.mp hb).1 y hy)
  | case5 va ta db vb tb r hz _ ih => exact ih (sorted_cons.mp ha).2 (sorted_cons.mp hb).2
  | case6 va ta db vb tb r hz _ ih =>
    rw [sorted_cons] at ha hb
    exact sorted_cons.mpr ⟨add_lb ha.1 hb.1, ih ha.2 hb.2⟩
  | case7 da va ta db vb tb h1 h2 hz ih => exact ih ha (sorted_cons.mp hb).2
  | case8 da va ta db vb tb h1 h2 hz ih =>
    have hlt := lt_of_not_lt_of_ne h1 h2
    rw [sorted_cons] at hb
    refine sorted_cons.mpr ⟨?_, ih ha hb.2⟩
    refine add_lb ?_ hb.1
    intro y hy
    rcases List.mem_cons.mp hy with rfl | hy
    · exact hlt
    · exact String.lt_trans hlt ((sorted_cons.mp ha).1 y hy)

theorem isZero_raw_eq {v : Dec} (h : v.isZero = true) : v.raw = 0 := by
  simpa [Dec.isZero] using h

theorem raw_add {a b : DecCoins} {d : String} (ha : Sorted a) (hb : Sorted b) :
    raw (DecCoins.add a b) d = raw a d + raw b d := by
  fun_induction DecCoins.add a b with
  | case1 b => rw [raw_removeZero hb, raw_nil]; omega
  | case2 a _ => rw [raw_removeZero ha, raw_nil]; omega
  | case3 da va ta db vb tb hlt hz ih =>
    rw [sorted_cons] at ha
    rw [ih ha.2 hb, raw_cons (t := ta)]
    by_cases hx : da = d
    · rw [if_pos hx, isZero_raw_eq hz, raw_eq_zero_of_lt ha.1 (Or.inl hx.symm)]
    · rw [if_neg hx]
  | case4 da va ta db vb tb hlt hz ih =>
    rw [sorted_cons] at ha
    rw [raw_cons, ih ha.2 hb, raw_cons (t := ta)]
    by_cases hx : da = d
    · rw [if_pos hx, if_pos hx]
      have : raw ((db, vb) :: tb) d = 0 := by
        apply raw_eq_zero_of_lt (x := da) _ (Or.inl hx.symm)
        intro y hy
        rcases List.mem_cons.mp hy with rfl | hy
        · exact hlt
        · exact String.lt_trans hlt ((sorted_cons.mp hb).1 y hy)
      omega
    · rw [if_neg hx, if_neg hx]
  | case5 va ta db vb tb r hz _ ih =>
    rw [sorted_cons] at ha hb
    rw [ih ha.2 hb.2, raw_cons (t := ta), raw_cons (t := tb)]
    by_cases hx : db = d
    · rw [if_pos hx, if_pos hx, raw_eq_zero_of_lt ha.1 (Or.inl hx.symm),
        raw_eq_zero_of_lt hb.1 (Or.inl hx.symm)]
      have := isZero_raw_eq hz
      simp only [r, Dec.add] at this
      omega
    · rw [if_neg hx, if_neg hx]
  | case6 va ta db vb tb r hz _ ih =>
    rw [sorted_cons] at ha hb
    rw [raw_cons, ih ha.2 hb.2, raw_cons (t := ta), raw_cons (t := tb)]
    by_cases hx : db = d
    · rw [if_pos hx, if_pos hx, if_pos hx]
      simp only [r, Dec.add]
    · rw [if_neg hx, if_neg hx, if_neg hx]
  | case7 da va ta db vb tb h1 h2 hz ih =>
    rw [sorted_cons] at hb
    rw [ih ha hb.2, raw_cons (t := tb)]
    by_cases hx : db = d
    · rw [if_pos hx, isZero_raw_eq hz, raw_eq_zero_of_lt hb.1 (Or.inl hx.symm)]
    · rw [if_neg hx]
  | case8 da va ta db vb tb h1 h2 hz ih =>
    have hlt := lt_of_not_lt_of_ne h1 h2
    rw [sorted_cons] at hb
    rw [raw_cons, ih ha hb.2, raw_cons (t := tb)]
    by_cases hx : db = d
    · rw [if_pos hx, if_pos hx]
      have : raw ((da, va) :: ta) d = 0 := by
        apply raw_eq_zero_of_lt (x := db) _ (Or.inl hx.symm)
        intro y hy
        rcases List.mem_cons.mp hy with rfl | hy
        · exact hlt
        · exact String.lt_trans hlt ((sorted_cons.mp ha).1 y hy)
      omega
    · rw [if_neg hx, if_neg hx]

theorem neg_sorted {b : DecCoins} (h : Sorted b) : Sorted (DecCoins.neg b) := by
  unfold Sorted DecCoins.neg
  rw [List.pairwise_map]
  exact h

theorem raw_neg {b : DecCoins} {d : String} : raw (DecCoins.neg b) d = - raw b d := by
  induction b with
  | nil => rfl
  | cons c t ih =>
    obtain ⟨x, v⟩ := c
    have : DecCoins.neg ((x, v) :: t) = (x, Dec.neg v) :: DecCoins.neg t := rfl
    rw [this, raw_cons, raw_cons, ih]
    by_cases hx : x = d
    · rw [if_pos hx, if_pos hx]; rfl
    · rw [if_neg hx, if_neg hx]

theorem safeSub_sorted {a b : DecCoins} (ha : Sorted a) (hb : Sorted b) :
    Sorted (DecCoins.safeSub a b).1 :=
  add_sorted ha (neg_sorted hb)

theorem raw_safeSub {a b : DecCoins} {d : String} (ha : Sorted a) (hb : Sorted b) :
    raw (DecCoins.safeSub a b).1 d = raw a d - raw b d := by
  show raw (DecCoins.add a (DecCoins.neg b)) d = _
  rw [raw_add ha (neg_sorted hb), raw_neg]; omega

/-- `raw l d` is either 0 or the amount of some member with denom `d` -/
theorem raw_cases (l : DecCoins) (d : String) : raw l d = 0 ∨ ∃ c ∈ l, c.1 = d ∧ raw l d = c.2.raw := by
  induction l with
  | nil => exact Or.inl rfl
  | cons c t ih =>
    obtain ⟨x, v⟩ := c
    rw [raw_cons]
    by_cases hx : x = d
    · rw [if_pos hx]; exact Or.inr ⟨(x, v), List.mem_cons_self .., hx, rfl⟩
    · rw [if_neg hx]
      rcases ih with h | ⟨c, hc, h1, h2⟩
      · exact Or.inl h
      · exact Or.inr ⟨c, List.mem_cons_of_mem _ hc, h1, h2⟩

theorem anyNegative_false_raw {l : DecCoins} (h : DecCoins.anyNegative l = false) (d : String) :
    0 ≤ raw l d := by
  rcases raw_cases l d with h0 | ⟨c, hc, _, h2⟩
  · omega
  · rw [h2]
    unfold DecCoins.anyNegative at h
    rw [List.any_eq_false] at h
    have := h c hc
    simpa [Dec.isNegative] using this

theorem sub_ok {a b r : DecCoins} (h : DecCoins.sub a b = .ok r) :
    r = (DecCoins.safeSub a b).1 ∧ ∀ d, 0 ≤ raw r d := by
  unfold DecCoins.sub at h
  simp only at h
  by_cases hn : (DecCoins.safeSub a b).2 = true
  · rw [if_pos hn] at h; cases h
  · rw [if_neg hn] at h
    injection h with h
    subst h
    refine ⟨rfl, anyNegative_false_raw ?_⟩
    simpa [DecCoins.safeSub] using hn

theorem mem_raw {l : DecCoins} {c : String × Dec} (h : Sorted l) (hc : c ∈ l) : raw l c.1 = c.2.raw := by
  induction l with
  | nil => cases hc
  | cons y t ih =>
    obtain ⟨x, v⟩ := y
    rw [sorted_cons] at h
    rw [raw_cons]
    rcases List.mem_cons.mp hc with rfl | hc
    · simp
    · have hlt := h.1 c hc
      have : x ≠ c.1 := fun e => by rw [e] at hlt; exact String.lt_irrefl _ hlt
      rw [if_neg this]
      exact ih h.2 hc

theorem isZero_raw {l : DecCoins} {d : String} (h : DecCoins.isZero l = true) : raw l d = 0 := by
  rcases raw_cases l d with h0 | ⟨c, hc, _, h2⟩
  · exact h0
  · rw [h2]
    unfold DecCoins.isZero at h
    rw [List.all_eq_true] at h
    exact isZero_raw_eq (h c hc)

theorem any_lt_false {l g : DecCoins} (h : Sorted l) (hle : ∀ d, raw l d ≤ raw g d) :
    l.any (fun c => (DecCoins.amountOf g c.1).raw < c.2.raw) = false := by
  rw [List.any_eq_false]
  intro c hc
  have := hle c.1
  rw [mem_raw h hc] at this
  simp only [decide_eq_true_eq]
  show ¬ (raw g c.1 < c.2.raw)
  omega

theorem any_lt_false_conv {l g : DecCoins} (_h : Sorted l)
    (hany : l.any (fun c => (DecCoins.amountOf g c.1).raw < c.2.raw) = false) :
    ∀ d, raw l d ≤ raw g d ∨ raw l d = 0 := by
  intro d
  rcases raw_cases l d with h0 | ⟨c, hc, h1, h2⟩
  · exact Or.inr h0
  · left
    rw [List.any_eq_false] at hany
    have := hany c hc
    simp only [decide_eq_true_eq] at this
    rw [h2, ← h1]
    show c.2.raw ≤ (DecCoins.amountOf g c.1).raw
    omega

/-- the common fold step of `mulDec`, `quoDecTruncate` and the change part of `truncateDecimal` -/
def step (g : Dec → Dec) (acc : DecCoins) (c : String × Dec) : DecCoins :=
  if (g c.2).isZero then acc else DecCoins.add acc [(c.1, g c.2)]

/-- sum of `f c` over the entries of denom `d` -/
def sumBy {α : Type} (f : String × α → Int) (l : List (String × α)) (d : String) : Int :=
  (l.filter (·.1 == d)).foldl (fun acc c => acc + f c) 0

theorem foldl_add_shift {α : Type} (f : α → Int) (l : List α) (a : Int) :
    l.foldl (fun acc c => acc + f c) a = a + l.foldl (fun acc c => acc + f c) 0 := by
  induction l generalizing a with
  | nil => simp
  | cons c t ih => simp only [List.foldl_cons]; rw [ih (a + f c), ih (0 + f c)]; omega

theorem sumBy_nil {α : Type} (f : String × α → Int) (d : String) : sumBy f [] d = 0 := rfl

theorem sumBy_cons {α : Type} (f : String × α → Int) (c : String × α) (t : List (String × α)) (d : String) :
    sumBy f (c :: t) d = (if c.1 = d then f c else 0) + sumBy f t d := by
  unfold sumBy
  by_cases hx : c.1 = d
  · have hb : (c.1 == d) = true := by simpa using hx
    rw [List.filter_cons_of_pos (by simpa using hb), List.foldl_cons, foldl_add_shift, if_pos hx]; omega
  · have hb : ¬ ((c.1 == d) = true) := by simpa using hx
    rw [List.filter_cons_of_neg (by simpa using hb), if_neg hx]; omega

theorem sumBy_append {α : Type} (f : String × α → Int) (a b : List (String × α)) (d : String) :
    sumBy f (a ++ b) d = sumBy f a d + sumBy f b d := by
  induction a with
  | nil => simp [sumBy_nil]
  | cons c t ih => rw [List.cons_append, sumBy_cons, sumBy_cons, ih]; omega

/-- on a sorted list the sum over denom `d` has at most one term -/
theorem sumBy_sorted {l : DecCoins} (h : Sorted l) (f : Int → Int) (hf : f 0 = 0) (d : String) :
    sumBy (fun c => f c.2.raw) l d = f (raw l d) := by
  induction l with
  | nil => rw [sumBy_nil, raw_nil, hf]
  | cons c t ih =>
    obtain ⟨x, v⟩ := c
    rw [sorted_cons] at h
    rw [sumBy_cons, raw_cons, ih h.2]
    by_cases hx : x = d
    · simp only [hx, if_true]
      rw [raw_eq_zero_of_lt h.1 (Or.inl hx.symm), hf]; omega
    · simp only [hx, if_false]; omega

theorem step_sorted {g : Dec → Dec} {acc : DecCoins} (c : String × Dec) (h : Sorted acc) :
    Sorted (step g acc c) := by
  unfold step
  split
  · exact h
  · exact add_sorted h (sorted_single _)

theorem raw_step {g : Dec → Dec} {acc : DecCoins} (c : String × Dec) (h : Sorted acc) (d : String) :
    raw (step g acc c) d = raw acc d + (if c.1 = d then (g c.2).raw else 0) := by
  unfold step
  split
  · rename_i hz
    rw [isZero_raw_eq hz]; simp
  · rw [raw_add h (sorted_single _), raw_single]

theorem foldStep_sorted {g : Dec → Dec} {acc : DecCoins} (l : DecCoins) (h : Sorted acc) :
    Sorted (l.foldl (step g) acc) := by
  induction l generalizing acc with
  | nil => exact h
  | cons c t ih => exact ih (step_sorted c h)

theorem raw_foldStep {g : Dec → Dec} {acc : DecCoins} (l : DecCoins) (h : Sorted acc) (d : String) :
    raw (l.foldl (step g) acc) d = raw acc d + sumBy (fun c => (g c.2).raw) l d := by
  induction l generalizing acc with
  | nil => rw [sumBy_nil]; simp
  | cons c t ih =>
    rw [List.foldl_cons, ih (step_sorted c h), raw_step c h, sumBy_cons]; omega

/-! ### mulDec -/

theorem mulDec_eq (l : DecCoins) (sh : Dec) :
    DecCoins.mulDec l sh = l.foldl (step (fun v => Dec.mul v sh)) [] := rfl

theorem mulDec_sorted {l : DecCoins} {sh : Dec} : Sorted (DecCoins.mulDec l sh) := by
  rw [mulDec_eq]; exact foldStep_sorted l sorted_nil

theorem chopRound_zero : Dec.chopRound 0 = 0 := by decide

/-- general form (duplicates allowed) -/
theorem raw_mulDec_sum {l : DecCoins} {sh : Dec} {d : String} :
    raw (DecCoins.mulDec l sh) d = sumBy (fun c => Dec.chopRound (c.2.raw * sh.raw)) l d := by
  rw [mulDec_eq, raw_foldStep l sorted_nil, raw_nil]
  simp only [Dec.mul]; omega

theorem raw_mulDec {l : DecCoins} {sh : Dec} {d : String} (h : Sorted l) :
    raw (DecCoins.mulDec l sh) d = Dec.chopRound (raw l d * sh.raw) := by
  rw [raw_mulDec_sum]
  exact sumBy_sorted h (fun r => Dec.chopRound (r * sh.raw)) (by simp [chopRound_zero]) d

/-! ### quoDecTruncate -/

theorem quoDecTruncate_ok {l : DecCoins} {sh : Dec} {r : DecCoins}
    (h : DecCoins.quoDecTruncate l sh = .ok r) :
    sh.raw ≠ 0 ∧ Sorted r ∧
      (∀ d, raw r d = (l.filter (·.1 == d)).foldl (fun acc c => acc + Dec.tquo (c.2.raw * PREC) sh.raw) 0) := by
  unfold DecCoins.quoDecTruncate at h
  by_cases hz : sh.isZero = true
  · rw [if_pos hz] at h; cases h
  · rw [if_neg hz] at h
    injection h with h
    have hr : r = l.foldl (step (fun v => Dec.quoTruncate v sh)) [] := h.symm
    refine ⟨?_, ?_, ?_⟩
    · intro h0; exact hz (by simp [Dec.isZero, h0])
    · rw [hr]; exact foldStep_sorted l sorted_nil
    · intro d
      rw [hr, raw_foldStep l sorted_nil, raw_nil]
      show 0 + sumBy (fun c => Dec.tquo (c.2.raw * PREC) sh.raw) l d = _
      exact Int.zero_add _

theorem tquo_zero_left (b : Int) : Dec.tquo 0 b = 0 := by simp [Dec.tquo]

theorem quoDecTruncate_sorted_raw {l : DecCoins} {sh : Dec} {r : DecCoins} {d : String} (hs : Sorted l)
    (h : DecCoins.quoDecTruncate l sh = .ok r) : raw r d = Dec.tquo (raw l d * PREC) sh.raw := by
  rw [(quoDecTruncate_ok h).2.2 d]
  exact sumBy_sorted hs (fun x => Dec.tquo (x * PREC) sh.raw) (by simp [tquo_zero_left]) d

theorem quoDecTruncate_isOk {l : DecCoins} {sh : Dec} (h : sh.raw ≠ 0) :
    ∃ r, DecCoins.quoDecTruncate l sh = .ok r := by
  unfold DecCoins.quoDecTruncate
  have hz : ¬ sh.isZero = true := by simpa [Dec.isZero] using h
  rw [if_neg hz]
  exact ⟨_, rfl⟩

/-! ### truncateDecimal -/

/-- the fold step of `truncateDecimal` -/
def tdStep (acc : List (String × Int) × DecCoins) (c : String × Dec) : List (String × Int) × DecCoins :=
  (if Dec.truncateInt c.2 = 0 then acc.1 else acc.1 ++ [(c.1, Dec.truncateInt c.2)],
   step (fun v => Dec.sub v (Dec.ofInt (Dec.truncateInt v))) acc.2 c)

theorem truncateDecimal_eq (l : DecCoins) : DecCoins.truncateDecimal l = l.foldl tdStep ([], []) := rfl

theorem tdFold_snd (l : DecCoins) (acc : List (String × Int) × DecCoins) :
    (l.foldl tdStep acc).2 = l.foldl (step (fun v => Dec.sub v (Dec.ofInt (Dec.truncateInt v)))) acc.2 := by
  induction l generalizing acc with
  | nil => rfl
  | cons c t ih => rw [List.foldl_cons, List.foldl_cons, ih]; rfl

theorem coinAmt_eq_sumBy (cl : List (String × Int)) (d : String) : coinAmt cl d = sumBy (·.2) cl d := rfl

theorem tdFold_fst (l : DecCoins) (acc : List (String × Int) × DecCoins) (d : String) :
    coinAmt (l.foldl tdStep acc).1 d = coinAmt acc.1 d + sumBy (fun c => Dec.tquo c.2.raw PREC) l d := by
  induction l generalizing acc with
  | nil => rw [sumBy_nil]; simp
  | cons c t ih =>
    rw [List.foldl_cons, ih, sumBy_cons]
    have : coinAmt (tdStep acc c).1 d = coinAmt acc.1 d + (if c.1 = d then Dec.tquo c.2.raw PREC else 0) := by
      unfold tdStep
      simp only
      by_cases ht : Dec.truncateInt c.2 = 0
      · rw [if_pos ht]
        have : Dec.tquo c.2.raw PREC = 0 := ht
        rw [this]; simp
      · rw [if_neg ht, coinAmt_eq_sumBy, sumBy_append, sumBy_cons, sumBy_nil, coinAmt_eq_sumBy]
        show _ + ((if c.1 = d then Dec.tquo c.2.raw PREC else 0) + 0) = _
        omega
    rw [this]; omega

theorem truncateDecimal_dust_sorted {l : DecCoins} : Sorted (DecCoins.truncateDecimal l).2 := by
  rw [truncateDecimal_eq, tdFold_snd]; exact foldStep_sorted l sorted_nil

/-- general form (duplicates allowed) -/
theorem raw_truncateDecimal_dust_sum {l : DecCoins} {d : String} :
    raw (DecCoins.truncateDecimal l).2 d =
      sumBy (fun c => c.2.raw - Dec.tquo c.2.raw PREC * PREC) l d := by
  rw [truncateDecimal_eq, tdFold_snd, raw_foldStep l sorted_nil, raw_nil]
  show 0 + sumBy (fun c => c.2.raw - Dec.tquo c.2.raw PREC * PREC) l d = _
  omega

theorem raw_truncateDecimal_dust {l : DecCoins} {d : String} (h : Sorted l) :
    raw (DecCoins.truncateDecimal l).2 d = raw l d - Dec.tquo (raw l d) PREC * PREC := by
  rw [raw_truncateDecimal_dust_sum]
  exact sumBy_sorted h (fun x => x - Dec.tquo x PREC * PREC) (by simp [tquo_zero_left]) d

/-- general form (duplicates allowed) -/
theorem coinAmt_truncateDecimal_sum {l : DecCoins} {d : String} :
    coinAmt (DecCoins.truncateDecimal l).1 d = sumBy (fun c => Dec.tquo c.2.raw PREC) l d := by
  rw [truncateDecimal_eq, tdFold_fst]
  show sumBy (·.2) [] d + _ = _
  rw [sumBy_nil]; omega

theorem coinAmt_truncateDecimal {l : DecCoins} {d : String} (h : Sorted l) :
    coinAmt (DecCoins.truncateDecimal l).1 d = Dec.tquo (raw l d) PREC := by
  rw [coinAmt_truncateDecimal_sum]
  exact sumBy_sorted h (fun x => Dec.tquo x PREC) (tquo_zero_left _) d

#print axioms raw_add
#print axioms add_sorted
#print axioms raw_mulDec
#print axioms quoDecTruncate_ok
#print axioms coinAmt_truncateDecimal
#print axioms raw_truncateDecimal_dust

end Sunrise.DecCoinsAlg
