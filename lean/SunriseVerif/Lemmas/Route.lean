import SunriseVerif.Model.Route
import SunriseVerif.Lemmas.Dec
import Mathlib.Tactic.Linarith
import Mathlib.Tactic.Ring
/-! Helper lemmas for C03 (Props/C03.lean): the weighted share against the exact quotient, bank movements as
    per-denom deltas, `Res.bind` inversion. -/
namespace Sunrise.Route
open Sunrise Sunrise.Dec

theorem bind_ok {α β} {r : Res α} {f : α → Res β} {y : β} (h : r.bind f = .ok y) : ∃ a, r = .ok a ∧ f a = .ok y :=
  Sunrise.Bank.bind_ok h

/-! ### one weighted share -/

/-- `weight.MulInt(a).Quo(W).TruncateInt()` is non-negative and at most half an ulp above the exact `w·a/W` -/
theorem share_bound (w W : Dec) (a : Int) (hW : 0 < W.raw) (hw : 0 ≤ w.raw) (ha : 0 ≤ a) :
    0 ≤ share w W a ∧ W.raw * (PREC * PREC * share w W a) ≤ w.raw * a * (PREC * PREC) + W.raw * HALF := by
  have hn : 0 ≤ w.raw * a := Int.mul_nonneg hw ha
  have hP : (0:Int) < PREC := PREC_pos
  have hn2 : 0 ≤ w.raw * a * PREC * PREC := Int.mul_nonneg (Int.mul_nonneg hn (le_of_lt hP)) (le_of_lt hP)
  unfold share Sunrise.Gen.KernelsSwap.split_share Dec.truncateInt Dec.quo Dec.mulInt
  simp only []
  rw [tquo_nonneg_eq hn2 (le_of_lt hW)]
  set t := w.raw * a * PREC * PREC / W.raw with ht
  have ht0 : 0 ≤ t := Int.ediv_nonneg hn2 (le_of_lt hW)
  have htW : W.raw * t ≤ w.raw * a * PREC * PREC := by
    have := Int.ediv_mul_le (w.raw * a * PREC * PREC) (ne_of_gt hW)
    rw [Int.mul_comm] at this
    exact this
  obtain ⟨hq1, _, hq0⟩ := chopRound_nonneg_bounds t ht0
  obtain ⟨hk1, _, hk0⟩ := chopTrunc_nonneg_bounds (chopRound t) hq0
  refine ⟨hk0, ?_⟩
  have h1 : PREC * (PREC * chopTrunc (chopRound t)) ≤ PREC * chopRound t := Int.mul_le_mul_of_nonneg_left hk1 (le_of_lt hP)
  have h2 : PREC * PREC * chopTrunc (chopRound t) ≤ t + HALF := by
    have : PREC * PREC * chopTrunc (chopRound t) = PREC * (PREC * chopTrunc (chopRound t)) := by ring
    linarith
  have h3 : W.raw * (PREC * PREC * chopTrunc (chopRound t)) ≤ W.raw * (t + HALF) :=
    Int.mul_le_mul_of_nonneg_left h2 (le_of_lt hW)
  have h4 : w.raw * a * (PREC * PREC) = w.raw * a * PREC * PREC := by ring
  have h5 : W.raw * (t + HALF) = W.raw * t + W.raw * HALF := by ring
  linarith

/-- sum of the raw weights of all entries but the last -/
def initRawSum : List Dec → Int
  | [] => 0
  | [_] => 0
  | w :: w' :: ws => w.raw + initRawSum (w' :: ws)

theorem weightSum_cons (w : Dec) (ws : List Dec) : (weightSum (w :: ws)).raw = w.raw + (weightSum ws).raw := by
  simp [weightSum]

theorem initRawSum_lt : (ws : List Dec) → (∀ w ∈ ws, 0 < w.raw) → ws ≠ [] → initRawSum ws + 1 ≤ (weightSum ws).raw
  | [], _, h => absurd rfl h
  | [w], hp, _ => by
    have := hp w (by simp)
    simp [initRawSum, weightSum]; omega
  | w :: w' :: ws, hp, _ => by
    have ih := initRawSum_lt (w' :: ws) (fun x hx => hp x (by simp at hx ⊢; right; exact hx)) (by simp)
    rw [weightSum_cons]
    simp only [initRawSum]
    omega

theorem initRawSum_nonneg : (ws : List Dec) → (∀ w ∈ ws, 0 < w.raw) → 0 ≤ initRawSum ws
  | [], _ => by simp [initRawSum]
  | [_], _ => by simp [initRawSum]
  | w :: w' :: ws, hp => by
    have := hp w (by simp)
    have := initRawSum_nonneg (w' :: ws) (fun x hx => hp x (by simp at hx ⊢; right; exact hx))
    simp only [initRawSum]; omega

theorem weightSum_pos (ws : List Dec) (hp : ∀ w ∈ ws, 0 < w.raw) (hne : ws ≠ []) : 0 < (weightSum ws).raw := by
  have := initRawSum_lt ws hp hne
  have := initRawSum_nonneg ws hp
  omega

theorem shares_length : (W : Dec) → (a : Int) → (ws : List Dec) → ws ≠ [] → (shares W a ws).length + 1 = ws.length
  | _, _, [], h => absurd rfl h
  | _, _, [_], _ => by simp [shares]
  | W, a, _ :: w' :: ws, _ => by
    have := shares_length W a (w' :: ws) (by simp)
    simp only [shares, List.length_cons] at this ⊢
    omega

/-- whatever the weights: the branch amounts add up to the exact amount, one per weight -/
theorem split_sum_length {ds : List Dec} {a : Int} {xs : List Int} (h : split ds a = .ok xs) :
    xs.sum = a ∧ xs.length = ds.length := by
  unfold split at h
  by_cases h0 : ds.length = 0
  · simp [h0] at h
  · have hne : ds ≠ [] := fun e => h0 (by simp [e])
    simp only [h0, if_false] at h
    split at h
    · simp at h
    · simp only [Res.ok.injEq] at h
      subst h
      have := shares_length (weightSum ds) a ds hne
      refine ⟨by simp, by simp; omega⟩

/-- all shares are non-negative and their sum is bounded by the exact weighted part plus half an ulp per share -/
theorem shares_bound (W : Dec) (a : Int) (hW : 0 < W.raw) (ha : 0 ≤ a) :
    (ws : List Dec) → (∀ w ∈ ws, 0 < w.raw) →
    (∀ x ∈ shares W a ws, 0 ≤ x) ∧
    W.raw * (PREC * PREC * (shares W a ws).sum) ≤ initRawSum ws * a * (PREC * PREC) + ((shares W a ws).length : Int) * (W.raw * HALF)
  | [], _ => by simp [shares, initRawSum]
  | [_], _ => by simp [shares, initRawSum]
  | w :: w' :: ws, hp => by
    have hw : 0 < w.raw := hp w (by simp)
    obtain ⟨ih1, ih2⟩ := shares_bound W a hW ha (w' :: ws) (fun x hx => hp x (by simp at hx ⊢; right; exact hx))
    obtain ⟨s0, s1⟩ := share_bound w W a hW (le_of_lt hw) ha
    constructor
    · intro x hx
      simp only [shares, List.mem_cons] at hx
      rcases hx with rfl | hx
      · exact s0
      · exact ih1 x hx
    · simp only [shares, List.sum_cons, List.length_cons, initRawSum]
      have e1 : W.raw * (PREC * PREC * (share w W a + (shares W a (w' :: ws)).sum))
          = W.raw * (PREC * PREC * share w W a) + W.raw * (PREC * PREC * (shares W a (w' :: ws)).sum) := by ring
      have e2 : (w.raw + initRawSum (w' :: ws)) * a * (PREC * PREC)
          = w.raw * a * (PREC * PREC) + initRawSum (w' :: ws) * a * (PREC * PREC) := by ring
      have e3 : (((shares W a (w' :: ws)).length + 1 : Nat) : Int) * (W.raw * HALF)
          = ((shares W a (w' :: ws)).length : Int) * (W.raw * HALF) + W.raw * HALF := by push_cast; ring
      rw [e1, e2, e3]
      linarith

/-- the first n−1 shares never add up to more than the amount (for fewer than 10^18 branches) -/
theorem shares_sum_le (ws : List Dec) (a : Int) (hp : ∀ w ∈ ws, 0 < w.raw) (hne : ws ≠ []) (ha : 0 ≤ a)
    (hlen : (ws.length : Int) ≤ PREC) : (shares (weightSum ws) a ws).sum ≤ a := by
  have hlt := initRawSum_lt ws hp hne
  have hS0 : 0 ≤ initRawSum ws := initRawSum_nonneg ws hp
  have hW : 0 < (weightSum ws).raw := by omega
  obtain ⟨_, hb⟩ := shares_bound (weightSum ws) a hW ha ws hp
  have hl := shares_length (weightSum ws) a ws hne
  set W := (weightSum ws).raw
  set K := (shares (weightSum ws) a ws).sum
  set m : Int := ((shares (weightSum ws) a ws).length : Int)
  set S := initRawSum ws
  have hm : m + 1 ≤ PREC := by
    have : ((shares (weightSum ws) a ws).length : Int) + 1 = (ws.length : Int) := by exact_mod_cast hl
    omega
  have hm0 : 0 ≤ m := Int.natCast_nonneg _
  by_contra hK
  have hK' : a + 1 ≤ K := by omega
  have hP : (0:Int) < PREC := PREC_pos
  have hPP : 0 < PREC * PREC := Int.mul_pos hP hP
  -- W·P²·(a+1) ≤ W·P²·K
  have h1 : W * (PREC * PREC * (a + 1)) ≤ W * (PREC * PREC * K) :=
    Int.mul_le_mul_of_nonneg_left (Int.mul_le_mul_of_nonneg_left hK' (le_of_lt hPP)) (le_of_lt hW)
  -- S·a·P² ≤ (W−1)·a·P²
  have h2 : S * a * (PREC * PREC) ≤ (W - 1) * a * (PREC * PREC) := by
    have : S * a ≤ (W - 1) * a := Int.mul_le_mul_of_nonneg_right (by omega) ha
    exact Int.mul_le_mul_of_nonneg_right this (le_of_lt hPP)
  -- m·(W·HALF) ≤ (PREC−1)·(W·HALF)
  have hWH : 0 ≤ W * HALF := Int.mul_nonneg (le_of_lt hW) (by decide)
  have h3 : m * (W * HALF) ≤ (PREC - 1) * (W * HALF) := Int.mul_le_mul_of_nonneg_right (by omega) hWH
  have h4 : (PREC - 1) * (W * HALF) < W * (PREC * PREC) := by
    have e : W * (PREC * PREC) - (PREC - 1) * (W * HALF) = W * (PREC * PREC - (PREC - 1) * HALF) := by ring
    have pos : 0 < PREC * PREC - (PREC - 1) * HALF := by decide
    have := Int.mul_pos hW pos
    omega
  have h5 : 0 ≤ a * (PREC * PREC) := Int.mul_nonneg ha (le_of_lt hPP)
  have e1 : W * (PREC * PREC * (a + 1)) = W * a * (PREC * PREC) + W * (PREC * PREC) := by ring
  have e2 : (W - 1) * a * (PREC * PREC) = W * a * (PREC * PREC) - a * (PREC * PREC) := by ring
  linarith

/-! ### bank movements as per-denom deltas -/

/-- `x` on denom `d0`, nothing elsewhere -/
def δ (d0 : Denom) (x : Int) (d : Denom) : Int := if d = d0 then x else 0

theorem δ_add (d0 : Denom) (x y : Int) (d : Denom) : δ d0 (x + y) d = δ d0 x d + δ d0 y d := by
  unfold δ; split <;> simp
theorem δ_zero (d0 d : Denom) : δ d0 0 d = 0 := by unfold δ; split <;> rfl
theorem δ_self (d0 : Denom) (x : Int) : δ d0 x d0 = x := by simp [δ]
theorem δ_ne (d0 d : Denom) (x : Int) (h : d ≠ d0) : δ d0 x d = 0 := by simp [δ, h]
theorem δ_nonneg (d0 d : Denom) (x : Int) (h : 0 ≤ x) : 0 ≤ δ d0 x d := by unfold δ; split <;> omega
theorem δ_le (d0 d : Denom) (x : Int) (h : 0 ≤ x) : δ d0 x d ≤ x := by unfold δ; split <;> omega

theorem send_moves {b b' : Bank} {s t : Addr} {d : Denom} {x : Int} (h : b.send s t d x = .ok b') (hst : s ≠ t) :
    0 ≤ x ∧ x ≤ b.bal s d ∧
    (∀ d', b'.bal s d' = b.bal s d' - δ d x d') ∧ (∀ d', b'.bal t d' = b.bal t d' + δ d x d') ∧
    (∀ a d', a ≠ s → a ≠ t → b'.bal a d' = b.bal a d') := by
  obtain ⟨h0, h1, e⟩ := Bank.send_ok h
  subst e
  have hts : t ≠ s := fun e => hst e.symm
  refine ⟨h0, h1, ?_, ?_, ?_⟩
  · intro d'
    by_cases hd : d' = d
    · subst hd; simp [δ, hst]; omega
    · simp [δ, hd]
  · intro d'
    by_cases hd : d' = d
    · subst hd; simp [δ, hts]
    · simp [δ, hd]
  · intro a d' ha hb
    simp [ha, hb]

/-- the sender paid `x` of `din` and received `y` of `dout`; nothing else of the sender changed -/
def Moved (b b' : Bank) (s : Addr) (din : Denom) (x : Int) (dout : Denom) (y : Int) : Prop :=
  ∀ d, b'.bal s d = b.bal s d - δ din x d + δ dout y d

theorem Moved.trans {b b1 b2 : Bank} {s : Addr} {d0 d1 d2 : Denom} {x y z : Int}
    (h1 : Moved b b1 s d0 x d1 y) (h2 : Moved b1 b2 s d1 y d2 z) : Moved b b2 s d0 x d2 z := by
  intro d; have := h1 d; have := h2 d; omega

theorem Moved.par {b b1 b2 : Bank} {s : Addr} {d0 d1 : Denom} {x1 x2 y1 y2 : Int}
    (h1 : Moved b b1 s d0 x1 d1 y1) (h2 : Moved b1 b2 s d0 x2 d1 y2) : Moved b b2 s d0 (x1 + x2) d1 (y1 + y2) := by
  intro d; have := h1 d; have := h2 d; rw [δ_add, δ_add]; omega

theorem Moved.same (b : Bank) (s : Addr) (d0 d1 : Denom) (x : Int) (h : d0 = d1) : Moved b b s d0 x d1 x := by
  intro d; subst h; omega

theorem Moved.zero (b : Bank) (s : Addr) (d0 d1 : Denom) : Moved b b s d0 0 d1 0 := by
  intro d; rw [δ_zero, δ_zero]; omega

/-! ### one pool hop -/

section
variable {PS : Type} (M : PoolSpec PS)

theorem swapPoolIn_ok {sender : Addr} {din dout : Denom} {id : Nat} {a out : Int} {w w' : World PS}
    (h : swapPoolIn M sender din dout id a w = .ok (out, w')) (hs : sender ≠ poolAddr id) :
    0 ≤ a ∧ 0 ≤ out ∧ a ≤ w.bank.bal sender din ∧
    Moved w.bank w'.bank sender din a dout out ∧
    (∀ x d, x ≠ sender → x ≠ poolAddr id → w'.bank.bal x d = w.bank.bal x d) ∧
    (∀ i, i ≠ id → w'.pools i = w.pools i) ∧
    (∃ ps ps', w.pools id = some ps ∧ M.swapIn ps din dout a = .ok (out, ps') ∧ w'.pools id = some ps') := by
  unfold swapPoolIn at h
  cases hp : w.pools id with
  | none => simp [hp] at h
  | some ps =>
    simp only [hp] at h
    by_cases ha : a < 0
    · simp [ha] at h
    · simp only [ha, if_false] at h
      obtain ⟨⟨out', ps'⟩, h1, h⟩ := bind_ok h
      obtain ⟨b1, h2, h⟩ := bind_ok h
      obtain ⟨b2, h3, h⟩ := bind_ok h
      simp only [Res.ok.injEq, Prod.mk.injEq] at h
      obtain ⟨e1, e2⟩ := h
      subst e1 e2
      have hs' : poolAddr id ≠ sender := fun e => hs e.symm
      obtain ⟨a0, a1, m1, _, o1⟩ := send_moves h2 hs
      obtain ⟨c0, _, _, m2, o2⟩ := send_moves h3 hs'
      refine ⟨a0, c0, a1, ?_, ?_, ?_, ⟨ps, ps', rfl, h1, ?_⟩⟩
      · intro d; simp only [setPool]; rw [m2 d, m1 d]
      · intro x d hx hy; simp only [setPool]; rw [o2 x d hy hx, o1 x d hx hy]
      · intro i hi; simp [setPool, hi]
      · simp [setPool]

theorem swapPoolOut_ok {sender : Addr} {din dout : Denom} {id : Nat} {a ain : Int} {w w' : World PS}
    (h : swapPoolOut M sender din dout id a w = .ok (ain, w')) (hs : sender ≠ poolAddr id) :
    0 ≤ a ∧ 0 ≤ ain ∧ ain ≤ w.bank.bal sender din ∧
    Moved w.bank w'.bank sender din ain dout a ∧
    (∀ x d, x ≠ sender → x ≠ poolAddr id → w'.bank.bal x d = w.bank.bal x d) ∧
    (∀ i, i ≠ id → w'.pools i = w.pools i) ∧
    (∃ ps ps', w.pools id = some ps ∧ M.swapOut ps din dout a = .ok (ain, ps') ∧ w'.pools id = some ps') := by
  unfold swapPoolOut at h
  cases hp : w.pools id with
  | none => simp [hp] at h
  | some ps =>
    simp only [hp] at h
    by_cases ha : a < 0
    · simp [ha] at h
    · simp only [ha, if_false] at h
      obtain ⟨⟨ain', ps'⟩, h1, h⟩ := bind_ok h
      obtain ⟨b1, h2, h⟩ := bind_ok h
      obtain ⟨b2, h3, h⟩ := bind_ok h
      simp only [Res.ok.injEq, Prod.mk.injEq] at h
      obtain ⟨e1, e2⟩ := h
      subst e1 e2
      have hs' : poolAddr id ≠ sender := fun e => hs e.symm
      obtain ⟨a0, a1, m1, _, o1⟩ := send_moves h2 hs
      obtain ⟨c0, _, _, m2, o2⟩ := send_moves h3 hs'
      refine ⟨c0, a0, a1, ?_, ?_, ?_, ⟨ps, ps', rfl, h1, ?_⟩⟩
      · intro d; simp only [setPool]; rw [m2 d, m1 d]
      · intro x d hx hy; simp only [setPool]; rw [o2 x d hy hx, o1 x d hx hy]
      · intro i hi; simp [setPool, hi]
      · simp [setPool]
end

/-! ### top coins of an inspected result; the fee payment -/

theorem inspect_result_in {σ : Type} (f : Denom → Denom → Nat → Int → σ → Res (Int × σ)) (rev : Bool)
    (r : Route) (a : Int) (s : σ) (res : Int) (rr : RResult) (s' : σ)
    (h : inspect f genIn rev r a s = .ok (res, rr, s')) : rr.tin = ⟨r.din, a⟩ ∧ rr.tout = ⟨r.dout, res⟩ := by
  cases r with
  | pool din dout id =>
    simp only [inspect] at h
    obtain ⟨⟨x, s1⟩, _, h⟩ := bind_ok h
    simp only [genIn, Res.ok.injEq, Prod.mk.injEq] at h
    obtain ⟨e1, e2, _⟩ := h; subst e1 e2; exact ⟨rfl, rfl⟩
  | series din dout rs =>
    simp only [inspect] at h
    obtain ⟨⟨x, rrs, s1⟩, _, h⟩ := bind_ok h
    simp only [genIn, Res.ok.injEq, Prod.mk.injEq] at h
    obtain ⟨e1, e2, _⟩ := h; subst e1 e2; exact ⟨rfl, rfl⟩
  | parallel din dout rs ws =>
    simp only [inspect] at h
    split at h
    · simp at h
    · split at h
      · split at h <;> try split at h
        all_goals simp at h
      · obtain ⟨amounts, _, h⟩ := bind_ok h
        obtain ⟨⟨x, rrs, s1⟩, _, h⟩ := bind_ok h
        simp only [genIn, Res.ok.injEq, Prod.mk.injEq] at h
        obtain ⟨e1, e2, _⟩ := h; subst e1 e2; exact ⟨rfl, rfl⟩
  | nil _ _ => simp [inspect] at h

theorem inspect_result_out {σ : Type} (f : Denom → Denom → Nat → Int → σ → Res (Int × σ)) (rev : Bool)
    (r : Route) (a : Int) (s : σ) (res : Int) (rr : RResult) (s' : σ)
    (h : inspect f genOut rev r a s = .ok (res, rr, s')) : rr.tin = ⟨r.din, res⟩ ∧ rr.tout = ⟨r.dout, a⟩ := by
  cases r with
  | pool din dout id =>
    simp only [inspect] at h
    obtain ⟨⟨x, s1⟩, _, h⟩ := bind_ok h
    simp only [genOut, Res.ok.injEq, Prod.mk.injEq] at h
    obtain ⟨e1, e2, _⟩ := h; subst e1 e2; exact ⟨rfl, rfl⟩
  | series din dout rs =>
    simp only [inspect] at h
    obtain ⟨⟨x, rrs, s1⟩, _, h⟩ := bind_ok h
    simp only [genOut, Res.ok.injEq, Prod.mk.injEq] at h
    obtain ⟨e1, e2, _⟩ := h; subst e1 e2; exact ⟨rfl, rfl⟩
  | parallel din dout rs ws =>
    simp only [inspect] at h
    split at h
    · simp at h
    · split at h
      · split at h <;> try split at h
        all_goals simp at h
      · obtain ⟨amounts, _, h⟩ := bind_ok h
        obtain ⟨⟨x, rrs, s1⟩, _, h⟩ := bind_ok h
        simp only [genOut, Res.ok.injEq, Prod.mk.injEq] at h
        obtain ⟨e1, e2, _⟩ := h; subst e1 e2; exact ⟨rfl, rfl⟩
  | nil _ _ => simp [inspect] at h

/-- the interface-fee payment: the sender pays exactly `fee ≥ 0` of `d` to the provider (nothing without provider) -/
theorem payFee_ok {b b' : Bank} {sender : Addr} {prov : Option Addr} {d : Denom} {fee : Int}
    (h : payFee b sender prov d fee = .ok b') (hp : ∀ p, prov = some p → sender ≠ p) (h0 : prov = none → fee = 0) :
    0 ≤ fee ∧ (∀ d', b'.bal sender d' = b.bal sender d' - δ d fee d') ∧
    (∀ p, prov = some p → ∀ d', b'.bal p d' = b.bal p d' + δ d fee d') := by
  unfold payFee at h
  cases prov with
  | none =>
    simp only [Res.ok.injEq] at h; subst h
    have := h0 rfl; subst this
    exact ⟨by omega, fun d' => by rw [δ_zero]; omega, fun p hp' => by simp at hp'⟩
  | some p =>
    simp only at h
    by_cases hn : fee < 0
    · simp [hn] at h
    · simp only [hn, if_false] at h
      by_cases hpos : fee > 0
      · simp only [hpos, if_true] at h
        obtain ⟨_, _, m1, m2, _⟩ := send_moves h (hp p rfl)
        exact ⟨by omega, m1, fun q hq => by simp at hq; subst hq; exact m2⟩
      · simp only [hpos, if_false, Res.ok.injEq] at h; subst h
        have : fee = 0 := by omega
        subst this
        exact ⟨by omega, fun d' => by rw [δ_zero]; omega, fun q _ d' => by rw [δ_zero]; omega⟩

end Sunrise.Route
