import SunriseVerif.Lemmas.Dec
import SunriseVerif.Model.Time
import Mathlib.Tactic.Ring
import Mathlib.Tactic.Linarith
/-! Rounding facts used by C12 (the continuous vesting formula `round(OL · round18(x / y))`): banker's rounding is
    monotone and exact on whole numbers, `Unix()` is monotone. -/
namespace Sunrise
namespace Dec

theorem chopRoundNN_whole (k : Int) (_hk : 0 ≤ k) : chopRoundNN (k * PREC) = k := by
  unfold chopRoundNN
  have h1 : k * PREC % PREC = 0 := Int.mul_emod_left k PREC
  have h2 : k * PREC / PREC = k := Int.mul_ediv_cancel k (by decide)
  simp [h1, h2]

theorem chopRoundNN_mono {d1 d2 : Int} (h0 : 0 ≤ d1) (h : d1 ≤ d2) : chopRoundNN d1 ≤ chopRoundNN d2 := by
  generalize hq1 : chopRoundNN d1 = q1
  generalize hq2 : chopRoundNN d2 = q2
  unfold chopRoundNN at hq1 hq2
  simp only [] at hq1 hq2
  split at hq1 <;> split at hq2 <;> (try split at hq1) <;> (try split at hq2) <;> (try split at hq1) <;> (try split at hq2)
    <;> (try split at hq1) <;> (try split at hq2) <;> simp only [PREC_eq, HALF_eq] at * <;> omega

theorem chopRoundNN_nonneg {d : Int} (h0 : 0 ≤ d) : 0 ≤ chopRoundNN d := (chopRoundNN_bounds d h0).2.2

theorem chopRound_of_nonneg {d : Int} (h0 : 0 ≤ d) : chopRound d = chopRoundNN d := by
  unfold chopRound
  have : ¬ d < 0 := by omega
  simp [this]

/-- `LegacyNewDec(x).Quo(LegacyNewDec(y))` for 0 ≤ x, 0 < y, as a raw 10^18-scaled integer -/
def ratioRaw (x y : Int) : Int := chopRoundNN ((x * PREC * PREC * PREC) / (y * PREC))

theorem quo_ofInt_raw (x y : Int) (hx : 0 ≤ x) (hy : 0 < y) : (quo (ofInt x) (ofInt y)).raw = ratioRaw x y := by
  have hP : (0:Int) < PREC := PREC_pos
  have h1 : 0 ≤ x * PREC * PREC * PREC := by positivity
  have h2 : 0 ≤ y * PREC := by positivity
  unfold quo ofInt ratioRaw
  simp only []
  rw [tquo_nonneg_eq h1 h2]
  exact chopRound_of_nonneg (Int.ediv_nonneg h1 h2)

theorem ratioRaw_nonneg (x y : Int) (hx : 0 ≤ x) (hy : 0 < y) : 0 ≤ ratioRaw x y := by
  have hP : (0:Int) < PREC := PREC_pos
  exact chopRoundNN_nonneg (Int.ediv_nonneg (by positivity) (by positivity))

theorem ratioRaw_mono (x1 x2 y : Int) (hx : 0 ≤ x1) (h : x1 ≤ x2) (hy : 0 < y) : ratioRaw x1 y ≤ ratioRaw x2 y := by
  have hP : (0:Int) < PREC := PREC_pos
  unfold ratioRaw
  apply chopRoundNN_mono (Int.ediv_nonneg (by positivity) (by positivity))
  apply Int.ediv_le_ediv (by positivity)
  have : 0 ≤ PREC * PREC * PREC := by positivity
  nlinarith

theorem ratioRaw_zero (y : Int) : ratioRaw 0 y = 0 := by
  unfold ratioRaw
  simp [chopRoundNN]

theorem ratioRaw_self (y : Int) (hy : 0 < y) : ratioRaw y y = PREC := by
  have hP : (0:Int) < PREC := PREC_pos
  unfold ratioRaw
  have e : y * PREC * PREC * PREC = (PREC * PREC) * (y * PREC) := by ring
  have hne : y * PREC ≠ 0 := by positivity
  rw [e, Int.mul_ediv_cancel _ hne]
  exact chopRoundNN_whole PREC (Int.le_of_lt hP)

theorem ratioRaw_le_one (x y : Int) (hx : 0 ≤ x) (h : x ≤ y) (hy : 0 < y) : ratioRaw x y ≤ PREC := by
  rw [← ratioRaw_self y hy]
  exact ratioRaw_mono x y y hx h hy

/-- `LegacyNewDecFromInt(ol).Mul(s).RoundInt()` for ol, s ≥ 0 -/
theorem scaled_round (ol : Int) (s : Dec) (ho : 0 ≤ ol) (hs : 0 ≤ s.raw) :
    roundInt (mul (ofInt ol) s) = chopRoundNN (ol * s.raw) := by
  have hP : (0:Int) < PREC := PREC_pos
  unfold roundInt mul ofInt
  simp only []
  have e : ol * PREC * s.raw = (ol * s.raw) * PREC := by ring
  have h0 : 0 ≤ ol * s.raw := by positivity
  have h1 : 0 ≤ ol * s.raw * PREC := by positivity
  rw [e, chopRound_of_nonneg h1, chopRoundNN_whole _ h0, chopRound_of_nonneg h0]

end Dec

namespace Time
theorem unix_mono {a b : Int} (h : a ≤ b) : unix a ≤ unix b := by
  unfold unix; omega
end Time
end Sunrise
