import SunriseVerif.Lemmas.DA08
/-! The escrow invariant of x/da and its preservation by every message and every end-block phase. -/
set_option linter.unusedSimpArgs false
set_option linter.unusedVariables false
namespace Sunrise.DA
open Sunrise Sunrise.Bank

/-- The invariant behind C08. `escrow` is the property's equation (with the ghost `dust` term for division remainders). -/
structure Inv (s : St) : Prop where
  nodup : urisNodup s.items
  owner : ∀ x ∈ s.invs, ∃ it ∈ s.items, it.uri = x.uri ∧ it.status.unresolved = true
  coins : ∀ it ∈ s.items, coinsPos it.pubColl ∧ coinsPos it.invColl
  pubs : ∀ it ∈ s.items, it.publisher ≠ daAcc
  chals : ∀ x ∈ s.invs, x.sender ≠ daAcc
  params : s.params.valid = true
  dustNN : ∀ d, 0 ≤ s.dust d
  escrow : ∀ d, s.bank.bal daAcc d = escrowSum s.invs s.items d + s.dust d

theorem valid_coins {p : Params} (h : p.valid = true) : coinsPos p.pub ∧ coinsPos p.inv := by
  unfold Params.valid at h
  simp only [Bool.and_eq_true] at h
  exact ⟨coinsValid_pos h.1.2, coinsValid_pos h.2⟩

theorem cnt_zero_of_absent {s : St} (hi : Inv s) {u : String} (h : findItem s u = none) : cnt s.invs u = 0 := by
  unfold cnt
  have : s.invs.filter (fun x => x.uri == u) = [] := by
    rw [List.filter_eq_nil_iff]
    intro x hx hxu
    obtain ⟨it, hit, e, _⟩ := hi.owner x hx
    have := findItem_none h it hit
    simp at hxu
    exact this (e.trans hxu)
  simp [this]

theorem not_allPositive_nil {cs : Coins} (hp : coinsPos cs) (h : ¬ allPositive cs = true) : cs = [] := by
  rw [allPositive_of_pos hp] at h
  cases cs with
  | nil => rfl
  | cons c r => simp at h

/-! ### messages -/
theorem inv_publish {s s' : St} {a : Addr} {u : String} {n p : Nat} (hi : Inv s) (ha : a ≠ daAcc)
    (h : publish s a u n p = .ok s') : Inv s' := by
  unfold publish at h
  split at h
  · cases h
  split at h
  · cases h
  rename_i _ hnone
  have hnone : findItem s u = none := by
    cases hf : findItem s u with
    | none => rfl
    | some x => simp [hf] at hnone
  obtain ⟨hpp, hpi⟩ := valid_coins hi.params
  -- the new item
  simp only [] at h
  generalize hit : Item.mk u Status.cp s.now a n p s.params.pub s.params.inv = it at h
  have huri : it.uri = u := by subst hit; rfl
  have hst : it.status = .cp := by subst hit; rfl
  have hpub : it.pubColl = s.params.pub := by subst hit; rfl
  have hinv : it.invColl = s.params.inv := by subst hit; rfl
  have hpr : it.publisher = a := by subst hit; rfl
  have hesc : ∀ d, escrowOf s.invs it d = amt s.params.pub d := by
    intro d; unfold escrowOf
    rw [hst, huri, cnt_zero_of_absent hi hnone, hpub]; simp [Status.unresolved]
  have common : ∀ b : Bank, (∀ d, b.bal daAcc d = s.bank.bal daAcc d + amt s.params.pub d) →
      Inv { s with items := insertBy itemLt it s.items, bank := b } := by
    intro b hb
    refine ⟨?_, ?_, ?_, ?_, hi.chals, hi.params, hi.dustNN, ?_⟩
    · exact urisNodup_insertBy _ _ _ hi.nodup (fun y hy => by rw [huri]; exact findItem_none hnone y hy)
    · intro x hx
      obtain ⟨y, hy, e, hu⟩ := hi.owner x hx
      exact ⟨y, (mem_insertBy8 _ _ _ _).2 (Or.inr hy), e, hu⟩
    · intro y hy
      rcases (mem_insertBy8 _ _ _ _).1 hy with rfl | hy
      · rw [hpub, hinv]; exact ⟨hpp, hpi⟩
      · exact hi.coins y hy
    · intro y hy
      rcases (mem_insertBy8 _ _ _ _).1 hy with rfl | hy
      · rw [hpr]; exact ha
      · exact hi.pubs y hy
    · intro d
      show b.bal daAcc d = escrowSum s.invs (insertBy itemLt it s.items) d + s.dust d
      rw [hb d, escrowSum_insertBy, hesc d, hi.escrow d]; omega
  split at h
  · obtain ⟨b, hs, hb⟩ := bind_ok h
    simp only [Res.ok.injEq] at hb
    subst hb
    obtain ⟨_, h2, _⟩ := sendCoins_ok ha _ _ _ hs
    exact common b h2
  · rename_i hnp
    simp only [Res.ok.injEq] at h
    subst h
    have : s.params.pub = [] := not_allPositive_nil hpp hnp
    have := common s.bank (by intro d; rw [this]; simp [amt_nil])
    exact this

theorem escrowSum_bump (invs invs' : List Inval) (items : List Item) (it : Item) (d : Denom)
    (hn : urisNodup items) (hmem : it ∈ items) (hun : it.status.unresolved = true)
    (h : ∀ v, cnt invs' v = cnt invs v + if v = it.uri then 1 else 0) :
    escrowSum invs' items d = escrowSum invs items d + amt it.invColl d := by
  induction items with
  | nil => cases hmem
  | cons z zs ih =>
    obtain ⟨h1, h2⟩ := urisNodup_cons hn
    simp only [escrowSum]
    rcases List.mem_cons.1 hmem with rfl | hm
    · have hrest : escrowSum invs' zs d = escrowSum invs zs d := by
        apply escrowSum_congr
        intro x hx _
        rw [h x.uri]; simp [h1 x hx]
      rw [hrest]
      unfold escrowOf
      rw [hun, h it.uri]; simp only [if_true]
      rw [Int.add_mul]; omega
    · have hz : z.uri ≠ it.uri := fun e => (h1 it hm) e.symm
      have : escrowOf invs' z d = escrowOf invs z d := by
        unfold escrowOf; rw [h z.uri]; simp [hz]
      rw [this, ih h2 hm]; omega

theorem inv_submitInvalidity {s s' : St} {a : Addr} {u : String} {ix : List Int} (hi : Inv s) (ha : a ≠ daAcc)
    (h : submitInvalidity s a u ix = .ok s') : Inv s' := by
  unfold submitInvalidity at h
  split at h
  · cases h
  split at h
  · cases h
  rename_i it hfind
  split at h
  · cases h
  rename_i hst
  split at h
  · cases h
  split at h
  · cases h
  obtain ⟨hmem, huri⟩ := findItem_some8 hfind
  have hcp : it.status = .cp := by
    cases hs : it.status <;> simp_all
  have hun : it.status.unresolved = true := by rw [hcp]; rfl
  simp only [] at h
  generalize hrec : Inval.mk u a ix = r at h
  have hru : r.uri = u := by subst hrec; rfl
  have hrs : r.sender = a := by subst hrec; rfl
  generalize hlt : (fun (a b : Inval) => keyLt a.uri a.sender b.uri b.sender) = lt at h
  have hcnt : ∀ v, cnt (insertBy lt r s.invs) v = cnt s.invs v + if v = it.uri then 1 else 0 := by
    intro v
    unfold cnt
    rw [filter_length_insertBy]
    rw [hru, huri]
    by_cases hv : v = u
    · subst hv; simp
    · have : ¬ u = v := fun e => hv e.symm
      simp [hv, this]
  have common : ∀ b : Bank, (∀ d, b.bal daAcc d = s.bank.bal daAcc d + amt it.invColl d) →
      Inv { s with invs := insertBy lt r s.invs, bank := b } := by
    intro b hb
    refine ⟨hi.nodup, ?_, hi.coins, hi.pubs, ?_, hi.params, hi.dustNN, ?_⟩
    · intro x hx
      rcases (mem_insertBy8 _ _ _ _).1 hx with rfl | hx
      · exact ⟨it, hmem, by rw [huri, hru], hun⟩
      · exact hi.owner x hx
    · intro x hx
      rcases (mem_insertBy8 _ _ _ _).1 hx with rfl | hx
      · rw [hrs]; exact ha
      · exact hi.chals x hx
    · intro d
      show b.bal daAcc d = escrowSum (insertBy lt r s.invs) s.items d + s.dust d
      rw [hb d, escrowSum_bump s.invs _ s.items it d hi.nodup hmem hun hcnt, hi.escrow d]; omega
  split at h
  · obtain ⟨b, hs, hb⟩ := bind_ok h
    simp only [Res.ok.injEq] at hb
    subst hb
    obtain ⟨_, h2, _⟩ := sendCoins_ok ha _ _ _ hs
    exact common b h2
  · rename_i hnp
    simp only [Res.ok.injEq] at h
    subst h
    have : it.invColl = [] := not_allPositive_nil (hi.coins it hmem).2 hnp
    exact common s.bank (by intro d; rw [this]; simp [amt_nil])

end Sunrise.DA
