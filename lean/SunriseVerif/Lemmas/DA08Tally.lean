import SunriseVerif.Lemmas.DA08Phase
/-! Preservation of the escrow invariant by the tally, the whole end-blocker, and every operation. -/
set_option linter.unusedSimpArgs false
set_option linter.unusedVariables false
namespace Sunrise.DA
open Sunrise Sunrise.Bank

/-! ### the reward division -/
theorem PREC_pos : (0 : Int) < PREC := by decide

/-- `LegacyNewDecFromInt(a).QuoInt64(n).TruncateInt()` is `⌊a / n⌋` for `a ≥ 0`, `n > 0` -/
theorem share_eq_div {a n : Int} (ha : 0 ≤ a) (hn : 0 < n) : Int.tdiv (Int.tdiv (a * PREC) n) PREC = a / n := by
  have h1 : 0 ≤ a * PREC := Int.mul_nonneg ha (Int.le_of_lt PREC_pos)
  rw [Int.tdiv_eq_ediv_of_nonneg h1]
  have h2 : 0 ≤ a * PREC / n := Int.ediv_nonneg h1 (Int.le_of_lt hn)
  rw [Int.tdiv_eq_ediv_of_nonneg h2]
  rw [Int.ediv_ediv_of_nonneg (Int.le_of_lt hn)]
  exact Int.mul_ediv_mul_of_pos_left a n PREC_pos

theorem share_bounds {a n : Int} (ha : 0 ≤ a) (hn : 0 < n) :
    0 ≤ a / n ∧ n * (a / n) ≤ a ∧ a < n * (a / n) + n := by
  refine ⟨Int.ediv_nonneg ha (Int.le_of_lt hn), ?_, ?_⟩
  · have := Int.ediv_mul_le a (Int.ne_of_gt hn)
    rw [Int.mul_comm]; exact this
  · have := Int.lt_ediv_add_one_mul_self a hn
    rw [Int.add_mul, Int.one_mul, Int.mul_comm] at this
    exact this

theorem rewardShare_nonneg {pub : Coins} {n : Int} (hp : ∀ c ∈ pub, 0 ≤ c.2) (hn : 0 < n) :
    ∀ c ∈ rewardShare pub n, 0 ≤ c.2 := by
  intro c hc
  unfold rewardShare at hc
  obtain ⟨x, hx, e⟩ := List.mem_map.1 hc
  subst e
  simp only []
  rw [share_eq_div (hp x hx) hn]
  exact (share_bounds (hp x hx) hn).1

/-- per denom: `0 ≤ pub − n·reward`, and `< n` per coin entry (one entry per denom in valid coins) -/
theorem rewardShare_amt {pub : Coins} {n : Int} (hp : ∀ c ∈ pub, 0 ≤ c.2) (hn : 0 < n) (d : Denom) :
    n * amt (rewardShare pub n) d ≤ amt pub d
    ∧ amt pub d - n * amt (rewardShare pub n) d < n * ((pub.filter (fun c => c.1 == d)).length : Int) + (if pub.any (fun c => c.1 == d) then 0 else 1) := by
  induction pub with
  | nil => simp [rewardShare, amt_nil]
  | cons c cs ih =>
    have h0 := hp c (List.mem_cons_self ..)
    obtain ⟨i1, i2⟩ := ih (fun x hx => hp x (List.mem_cons_of_mem _ hx))
    have hr : rewardShare (c :: cs) n = (c.1, c.2 / n) :: rewardShare cs n := by
      simp only [rewardShare, List.map_cons, share_eq_div h0 hn]
    rw [hr, amt_cons, amt_cons]
    obtain ⟨b1, b2, b3⟩ := share_bounds h0 hn
    dsimp only
    have hF : ((c :: cs).filter (fun x => x.1 == d)).length
        = (cs.filter (fun x => x.1 == d)).length + (if c.1 = d then 1 else 0) := by
      simp only [List.filter_cons]
      by_cases hd : c.1 = d
      · simp [hd]
      · simp [hd]
    have hA : (c :: cs).any (fun x => x.1 == d) = (decide (c.1 = d) || cs.any (fun x => x.1 == d)) := by
      simp only [List.any_cons]
      by_cases hd : c.1 = d
      · simp [hd]
      · simp [hd]
    rw [hF, hA]
    generalize amt (rewardShare cs n) d = R at *
    generalize amt cs d = P at *
    generalize (cs.filter (fun x => x.1 == d)).length = F at *
    generalize cs.any (fun x => x.1 == d) = A at *
    generalize c.2 / n = q at *
    by_cases hd : c.1 = d
    · rw [if_pos hd, if_pos hd, if_pos hd]
      simp only [hd, decide_true, Bool.true_or, if_true]
      rw [Int.mul_add, Int.natCast_add, Int.mul_add]
      constructor
      · omega
      · cases A <;> simp at i2 <;> omega
    · rw [if_neg hd, if_neg hd, if_neg hd]
      simp only [hd, decide_false, Bool.false_or]
      simp only [Int.zero_add, Nat.add_zero]
      exact ⟨i1, i2⟩

/-! ### the two payout loops -/
theorem pay_fold (C : Coins) (hC : ∀ c ∈ C, 0 ≤ c.2) :
    ∀ (L : List Inval) (s : St), (∀ x ∈ L, x.sender ≠ daAcc) →
      (∀ d, (L.length : Int) * amt C d ≤ s.bank.bal daAcc d) →
      ∃ b, L.foldl (payChallenger C) s = { s with bank := b }
        ∧ ∀ d, b.bal daAcc d = s.bank.bal daAcc d - (L.length : Int) * amt C d := by
  intro L
  induction L with
  | nil => intro s _ _; exact ⟨s.bank, rfl, by intro d; simp⟩
  | cons y L ih =>
    intro s hL hle
    have hys := hL y (List.mem_cons_self ..)
    have hamt : ∀ d, 0 ≤ amt C d := amt_nonneg hC
    have hsend : ∃ b, sendCoins s.bank daAcc y.sender C = .ok b := by
      apply sendCoins_succeeds (daAcc_ne hys) C s.bank hC
      intro d
      have := hle d
      simp only [len_cons_cast, Int.add_mul, Int.one_mul] at this
      have h2 : 0 ≤ (L.length : Int) * amt C d := Int.mul_nonneg (by omega) (hamt d)
      omega
    obtain ⟨b1, hb⟩ := hsend
    obtain ⟨hb1, _, _⟩ := sendCoins_ok (daAcc_ne hys) _ _ _ hb
    have hstep : payChallenger C s y = { s with bank := b1 } := by unfold payChallenger; rw [hb]
    simp only [List.foldl_cons, hstep]
    obtain ⟨b, e, hbal⟩ := ih { s with bank := b1 } (fun x hx => hL x (List.mem_cons_of_mem _ hx)) (by
      intro d
      have := hle d
      simp only [len_cons_cast, Int.add_mul, Int.one_mul] at this
      show _ ≤ b1.bal daAcc d
      rw [hb1 d]; omega)
    refine ⟨b, e, ?_⟩
    intro d
    rw [hbal d]
    show b1.bal daAcc d - _ = _
    rw [hb1 d]
    simp only [len_cons_cast, Int.add_mul, Int.one_mul]; omega

theorem settle_fold (coll : Coins) (safe : List Int) (hc : ∀ c ∈ coll, 0 ≤ c.2) :
    ∀ (L : List Inval) (s : St) (refund : Coins), (∀ x ∈ L, x.sender ≠ daAcc) →
      (∀ d, (L.length : Int) * amt coll d ≤ s.bank.bal daAcc d) → (∀ c ∈ refund, 0 ≤ c.2) →
      ∃ (b : Bank) (refund' : Coins) (k1 k2 : Int),
        L.foldl (settleVerified coll safe) (s, refund) = ({ s with bank := b }, refund')
        ∧ 0 ≤ k1 ∧ 0 ≤ k2 ∧ k1 + k2 = (L.length : Int)
        ∧ (∀ d, b.bal daAcc d = s.bank.bal daAcc d - k1 * amt coll d)
        ∧ (∀ d, amt refund' d = amt refund d + k2 * amt coll d)
        ∧ (∀ c ∈ refund', 0 ≤ c.2) := by
  intro L
  induction L with
  | nil =>
    intro s refund _ _ hr
    exact ⟨s.bank, refund, 0, 0, rfl, by omega, by omega, by simp, by intro d; simp, by intro d; simp, hr⟩
  | cons y L ih =>
    intro s refund hL hle hr
    have hys := hL y (List.mem_cons_self ..)
    have hamt : ∀ d, 0 ≤ amt coll d := amt_nonneg hc
    have hle' : ∀ d, (L.length : Int) * amt coll d + amt coll d ≤ s.bank.bal daAcc d := by
      intro d
      have := hle d
      simp only [len_cons_cast, Int.add_mul, Int.one_mul] at this
      exact this
    have hLnn : ∀ d, 0 ≤ (L.length : Int) * amt coll d := fun d => Int.mul_nonneg (by omega) (hamt d)
    simp only [List.foldl_cons]
    by_cases hcor : correctInvalidity y safe = true
    · have hsend : ∃ b, sendCoins s.bank daAcc y.sender coll = .ok b := by
        apply sendCoins_succeeds (daAcc_ne hys) coll s.bank hc
        intro d
        have := hle' d; have := hLnn d; omega
      obtain ⟨b1, hb⟩ := hsend
      obtain ⟨hb1, _, _⟩ := sendCoins_ok (daAcc_ne hys) _ _ _ hb
      have hstep : settleVerified coll safe (s, refund) y = ({ s with bank := b1 }, refund) := by
        unfold settleVerified; simp only [hcor, if_true, hb]
      rw [hstep]
      obtain ⟨b, r', k1, k2, e, p1, p2, p3, p4, p5, p6⟩ :=
        ih { s with bank := b1 } refund (fun x hx => hL x (List.mem_cons_of_mem _ hx)) (by
          intro d
          show _ ≤ b1.bal daAcc d
          rw [hb1 d]; have := hle' d; omega) hr
      refine ⟨b, r', k1 + 1, k2, e, by omega, p2, by rw [len_cons_cast]; omega, ?_, p5, p6⟩
      intro d
      rw [p4 d]
      show b1.bal daAcc d - _ = _
      rw [hb1 d, Int.add_mul, Int.one_mul]; omega
    · have hstep : settleVerified coll safe (s, refund) y = (s, refund ++ coll) := by
        unfold settleVerified; simp only [hcor, Bool.false_eq_true, if_false]
      rw [hstep]
      obtain ⟨b, r', k1, k2, e, p1, p2, p3, p4, p5, p6⟩ :=
        ih s (refund ++ coll) (fun x hx => hL x (List.mem_cons_of_mem _ hx)) (by
          intro d
          have := hle' d; have := hamt d; omega) (by
          intro c hc'
          rcases List.mem_append.1 hc' with h | h
          · exact hr c h
          · exact hc c h)
      refine ⟨b, r', k1, k2 + 1, e, p1, by omega, by rw [len_cons_cast]; omega, p4, ?_, p6⟩
      intro d
      rw [p5 d, amt_append, Int.add_mul, Int.one_mul]; omega

end Sunrise.DA
