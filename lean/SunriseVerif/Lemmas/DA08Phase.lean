import SunriseVerif.Lemmas.DA08Mid
/-! Preservation of the escrow invariant by the end-block phases (prune, to-challenging, to-verified). -/
set_option linter.unusedSimpArgs false
set_option linter.unusedVariables false
namespace Sunrise.DA
open Sunrise Sunrise.Bank

theorem daAcc_ne {a : Addr} (h : a ≠ daAcc) : daAcc ≠ a := fun e => h e.symm

theorem len_cons_cast {α} (y : α) (L : List α) : ((y :: L).length : Int) = (L.length : Int) + 1 := by
  rw [List.length_cons]; omega

theorem inv_pruneOne {s : St} (st : Status) (hst : st.unresolved = false) (hi : Inv s) (u : String) :
    Inv (pruneOne st s u) := by
  unfold pruneOne
  split
  · rename_i it hfind
    split
    · rename_i hs
      obtain ⟨hmem, huri⟩ := findItem_some8 hfind
      have key : ∀ y ∈ s.items, y.uri = u → y.status.unresolved = false := by
        intro y hy e
        have : y = it := nodup_unique hi.nodup hy hmem (e.trans huri.symm)
        rw [this, hs]; exact hst
      refine ⟨urisNodup_filter _ hi.nodup, ?_, ?_, ?_, hi.chals, hi.params, hi.dustNN, ?_⟩
      · intro x hx
        obtain ⟨y, hy, e, hu⟩ := hi.owner x hx
        refine ⟨y, List.mem_filter.2 ⟨hy, ?_⟩, e, hu⟩
        have : y.uri ≠ u := fun e' => by rw [key y hy e'] at hu; cases hu
        simp [this]
      · intro y hy; exact hi.coins y (List.mem_filter.1 hy).1
      · intro y hy; exact hi.pubs y (List.mem_filter.1 hy).1
      · intro d
        show s.bank.bal daAcc d = escrowSum s.invs (s.items.filter _) d + s.dust d
        rw [escrowSum_filter, hi.escrow d]
        intro y hy hp
        have : y.uri = u := by simpa using hp
        unfold escrowOf; rw [key y hy this]; simp
    · exact hi
  · exact hi

theorem inv_toChallengingOne {s : St} (hi : Inv s) (u : String) : Inv (toChallengingOne s u) := by
  unfold toChallengingOne
  split
  · rename_i it hfind
    obtain ⟨hmem, huri⟩ := findItem_some8 hfind
    split
    · rename_i hs
      simp only []
      split
      · exact inv_retag_unresolved hi hmem (by rw [hs]; rfl) .ch rfl s.now
      · exact hi
    · exact hi
  · exact hi

/-- the refund loop of an unchallenged expiry -/
theorem refund_fold (coll : Coins) (u : String) (hc : ∀ c ∈ coll, 0 ≤ c.2) :
    ∀ (L : List Inval) (s : St), Mid s u (fun d => (L.length : Int) * amt coll d) →
      (∀ x ∈ L, x.uri = u ∧ x.sender ≠ daAcc) →
      (∀ x ∈ s.invs, x.uri = u → ∃ y ∈ L, y.sender = x.sender) →
      Inv (L.foldl (refundChallenger coll) s) := by
  intro L
  induction L with
  | nil =>
    intro s m _ hq
    simp only [List.foldl_nil]
    exact inv_of_mid m (by intro d; simp) (fun x hx e => by obtain ⟨y, hy, _⟩ := hq x hx e; cases hy)
  | cons y L ih =>
    intro s m hL hq
    simp only [List.foldl_cons]
    obtain ⟨hyu, hys⟩ := hL y (List.mem_cons_self ..)
    have hamt : ∀ d, 0 ≤ amt coll d := amt_nonneg hc
    have hsend : ∃ b, sendCoins s.bank daAcc y.sender coll = .ok b := by
      apply sendCoins_succeeds (daAcc_ne hys) coll s.bank hc
      intro d
      have := m.bal_ge d
      simp only [len_cons_cast, Int.add_mul, Int.one_mul] at this
      have h1 := hamt d
      have h2 : 0 ≤ (L.length : Int) * amt coll d := Int.mul_nonneg (by omega) h1
      omega
    obtain ⟨b, hb⟩ := hsend
    obtain ⟨hb1, _, _⟩ := sendCoins_ok (daAcc_ne hys) _ _ _ hb
    have hstep : refundChallenger coll s y
        = { s with bank := b, invs := s.invs.filter (fun z => !(z.uri == y.uri && z.sender == y.sender)) } := by
      unfold refundChallenger; rw [hb]
    rw [hstep]
    apply ih
    · have m1 := m.pay b (fun d => amt coll d) hb1
      have m2 := m1.dropRecords (fun z => !(z.uri == y.uri && z.sender == y.sender)) (by
        intro x _ hne
        have : x.uri ≠ y.uri := by rw [hyu]; exact hne
        simp [this])
      exact m2.congr (by intro d; simp only [len_cons_cast, Int.add_mul, Int.one_mul]; omega)
    · intro x hx; exact hL x (List.mem_cons_of_mem _ hx)
    · intro x hx hxu
      obtain ⟨hx1, hx2⟩ := List.mem_filter.1 hx
      obtain ⟨y', hy', e⟩ := hq x hx1 hxu
      rcases List.mem_cons.1 hy' with rfl | hy''
      · exfalso
        have : x.uri = y'.uri := hxu.trans hyu.symm
        simp [this, e] at hx2
      · exact ⟨y', hy'', e⟩

theorem escrowOf_unresolved (invs : List Inval) (it : Item) (d : Denom) (h : it.status.unresolved = true) :
    escrowOf invs it d = amt it.pubColl d + cnt invs it.uri * amt it.invColl d := by
  unfold escrowOf; simp [h]

theorem inv_toVerifiedOne {s : St} (hi : Inv s) (u : String) : Inv (toVerifiedOne s u) := by
  unfold toVerifiedOne
  split
  · rename_i it hfind
    obtain ⟨hmem, huri⟩ := findItem_some8 hfind
    subst huri
    split
    · rename_i hs
      have hun : it.status.unresolved = true := by rw [hs]; rfl
      have m1 := mid_retag_terminal hi hmem hun .ver rfl s.now
      obtain ⟨hcp, hci⟩ := hi.coins it hmem
      have hpub := hi.pubs it hmem
      have hinvnn : ∀ d, 0 ≤ cnt s.invs it.uri * amt it.invColl d := fun d =>
        Int.mul_nonneg (cnt_nonneg _ _) (amt_nonneg (coinsPos_nonneg hci) d)
      simp only []
      have hsend : ∃ b, sendCoins s.bank daAcc it.publisher it.pubColl = .ok b := by
        apply sendCoins_succeeds (daAcc_ne hpub) _ _ (coinsPos_nonneg hcp)
        intro d
        have := m1.bal_ge d
        rw [escrowOf_unresolved _ _ _ hun] at this
        have := hinvnn d
        simp only [] at *
        omega
      obtain ⟨b, hb⟩ := hsend
      obtain ⟨hb1, _, _⟩ := sendCoins_ok (daAcc_ne hpub) _ _ _ hb
      simp only [hb]
      apply refund_fold it.invColl it.uri (coinsPos_nonneg hci)
      · have m2 := m1.pay b (fun d => amt it.pubColl d) hb1
        apply m2.congr
        intro d
        rw [escrowOf_unresolved _ _ _ hun]
        simp only [invsOf, cnt]
        omega
      · intro x hx
        obtain ⟨hx1, hx2⟩ := List.mem_filter.1 hx
        exact ⟨by simpa using hx2, hi.chals x hx1⟩
      · intro x hx hxu
        exact ⟨x, List.mem_filter.2 ⟨hx, by simpa using hxu⟩, rfl⟩
    · exact hi
  · exact hi

theorem inv_foldl {f : St → String → St} (hf : ∀ s u, Inv s → Inv (f s u)) :
    ∀ (l : List String) (s : St), Inv s → Inv (l.foldl f s) := by
  intro l
  induction l with
  | nil => intro s h; exact h
  | cons u l ih => intro s h; exact ih _ (hf s u h)

end Sunrise.DA
