import SunriseVerif.Model.Bank
import SunriseVerif.Model.Convert
import SunriseVerif.Model.Time
import SunriseVerif.Gen.KernelsLockup
/-!
C12 — executable model of the two registered continuous lockup accounts
(`x/accounts/non_voting_delegatable_lockup`, `x/accounts/self_delegatable_lockup`), the self-delegation proxy
account (`x/accounts/self_delegation_proxy`) and the module handlers they call (`x/selfdelegation` msg servers,
`x/shareclass` NonVotingDelegate/NonVotingUndelegate + end-block payout), over `Model/Bank` and `Model/Convert`.

The arithmetic (`x`/`y` of TrackDelegation/TrackUndelegation/GetNotBondedLockedCoin, the vesting formula and its
branch conditions) is NOT written here: it is `Gen/KernelsLockup.lean`, regenerated from the Go source on every run.

Boundary (recorded inputs, `Ext`): results of x/staking, x/distribution, the shareclass reward claim and share
price, and the accounts-module query inside `getRootOwner`.  One history = one lockup account `lock` owned by
`owner`, its proxy `plock`, and the base-account delegator `a0` with its own proxy `pown`.
Every message is atomic: any non-ok outcome leaves the state unchanged (the tx branch is discarded).
-/
namespace Sunrise.Lockup
open Sunrise Sunrise.Gen.KernelsLockup

inductive Variant | nv | sd
deriving DecidableEq, Repr

def fee : Denom := "urise"
def bond : Denom := "uvrise"
/-- the (send-disabled) non-voting share token of the one validator -/
def shareD : Denom := "share"
def lock : Addr := "lock"
def scMod : Addr := "module:shareclass"
def stakingPool : Addr := "module:staking"
/-- proxy account of a delegator (selfdelegation keeps one per delegator) -/
def proxyOf (d : Addr) : Addr := if d = "lock" then "plock" else "pown"

/-- bank send-enabled table of the real genesis: the bond denom and share tokens are not transferable by MsgSend -/
def sendDisabled (d : Denom) : Bool := d == bond || d == shareD

/-! ### kernels by variant (both packages carry the same code; both are regenerated) -/
def kBeforeStart : Variant → Int → Int → Int → Bool | .nv => nv_sched_beforeStart | .sd => sd_sched_beforeStart
def kAfterEnd : Variant → Int → Int → Int → Bool | .nv => nv_sched_afterEnd | .sd => sd_sched_afterEnd
def kX : Variant → Int → Int → Int → Int | .nv => nv_sched_x | .sd => sd_sched_x
def kY : Variant → Int → Int → Int → Int | .nv => nv_sched_y | .sd => sd_sched_y
def kS : Variant → Int → Int → Dec | .nv => nv_sched_s | .sd => sd_sched_s
def kUnlockedAmt : Variant → Int → Dec → Int | .nv => nv_sched_unlockedAmt | .sd => sd_sched_unlockedAmt
def kLocked : Variant → Int → Int → Int | .nv => nv_sched_locked | .sd => sd_sched_locked
def kBadWindow : Variant → Int → Int → Bool | .nv => nv_init_badWindow | .sd => sd_init_badWindow
def kDelReject : Variant → Int → Int → Bool | .nv => nv_trackDel_reject | .sd => sd_trackDel_reject
def kDelX : Variant → Int → Int → Int → Int | .nv => nv_trackDel_x | .sd => sd_trackDel_x
def kDelY : Variant → Int → Int → Int | .nv => nv_trackDel_y | .sd => sd_trackDel_y
def kDelSetDV : Variant → Int → Int → Bool | .nv => nv_trackDel_setDV | .sd => sd_trackDel_setDV
def kDelSetDF : Variant → Int → Int → Bool | .nv => nv_trackDel_setDF | .sd => sd_trackDel_setDF
def kDelNewDV : Variant → Int → Int → Int | .nv => nv_trackDel_newDV | .sd => sd_trackDel_newDV
def kDelNewDF : Variant → Int → Int → Int | .nv => nv_trackDel_newDF | .sd => sd_trackDel_newDF
def kUndelReject : Variant → Int → Bool | .nv => nv_trackUndel_reject | .sd => sd_trackUndel_reject
def kUndelX : Variant → Int → Int → Int → Int | .nv => nv_trackUndel_x | .sd => sd_trackUndel_x
def kUndelY : Variant → Int → Int → Int → Int → Int | .nv => nv_trackUndel_y | .sd => sd_trackUndel_y
def kUndelSetDF : Variant → Int → Int → Bool | .nv => nv_trackUndel_setDF | .sd => sd_trackUndel_setDF
def kUndelSetDV : Variant → Int → Int → Bool | .nv => nv_trackUndel_setDV | .sd => sd_trackUndel_setDV
def kUndelNewDF : Variant → Int → Int → Int | .nv => nv_trackUndel_newDF | .sd => sd_trackUndel_newDF
def kUndelNewDV : Variant → Int → Int → Int | .nv => nv_trackUndel_newDV | .sd => sd_trackUndel_newDV
def kNotBondedX : Variant → Int → Int → Int | .nv => nv_notBonded_x | .sd => sd_notBonded_x
def kNotBondedLocked : Variant → Int → Int → Int | .nv => nv_notBonded_locked | .sd => sd_notBonded_locked

/-! ### the continuous schedule: `GetLockCoinInfoWithDenom` (unlocked, locked) -/

/-- (unlocked, locked) of the original locking `ol` at block time `t`.  Division by zero (start and end in the same
    Unix second, block time between them) and the negative-coin panics of `sdk.NewCoin`/`Coin.Sub` are panics. -/
def lockInfo (v : Variant) (ol start end_ t : Int) : Res (Int × Int) :=
  if kBeforeStart v start end_ t then .ok (0, ol)
  else if kAfterEnd v start end_ t then .ok (ol, 0)
  else
    let x := kX v start end_ t
    let y := kY v start end_ t
    if Dec.isZero (Dec.ofInt y) then .panic .divZero
    else
      let u := kUnlockedAmt v ol (kS v x y)
      if u < 0 then .panic .explicit            -- sdk.NewCoin(negative)
      else if kLocked v ol u < 0 then .panic .explicit  -- Coin.Sub negative result
      else .ok (u, kLocked v ol u)

def lockedAt (v : Variant) (ol start end_ t : Int) : Res Int := (lockInfo v ol start end_ t).bind fun p => .ok p.2

/-! ### state -/

/-- one `UnbondingEntry` of the non-voting lockup (single validator key); `amount` is denominated in the BOND denom
    (it is copied from `MsgNonVotingUndelegateResponse.Amount`) -/
structure Entry where
  endT : Int
  amount : Int
  height : Int
deriving Repr, DecidableEq

/-- an unbonding in flight: x/staking's (who = delegator) or x/shareclass's (who = recipient) -/
structure Unb where
  who : Addr
  amount : Int
  completion : Int
deriving Repr, DecidableEq

structure St where
  variant : Variant := .nv
  created : Bool := false
  hasOL : Bool := false
  bank : Bank := Bank.empty
  owner : Addr := ""
  startT : Int := 0
  endT : Int := 0
  OL : Int := 0
  DV : Int := 0
  DF : Int := 0
  entries : List Entry := []
  stake : Addr → Int := fun _ => 0
  ubds : List Unb := []
  scUnb : List Unb := []
  hasProxy : Addr → Bool := fun _ => false
  now : Int := 0
  height : Int := 0
  ut : Int := 0
  halted : Bool := false

/-- recorded results of the calls that leave the modelled boundary during one message -/
structure Ext where
  ok : Bool := true
  rewFee : Int := 0
  rewBond : Int := 0
  share : Int := 0
deriving Repr

inductive Op
  | init (v : Variant) (funder owner : Addr) (funds : Int) (startZero : Bool) (start : Int) (endZero : Bool) (end_ : Int)
  | deposit (src dst : Addr) (denom : Denom) (amt : Int)
  | block (t : Int)
  | send (caller sender to : Addr) (denom : Denom) (amt : Int)
  | nvDelegate (caller sender : Addr) (valOk : Bool) (denom : Denom) (amt : Int) (ext : Ext)
  | nvUndelegate (caller sender : Addr) (valOk : Bool) (denom : Denom) (amt : Int) (ext : Ext)
  | nvWithdrawReward (caller sender : Addr) (ext : Ext)
  | sdSelfDelegate (caller sender : Addr) (amt : Int) (ext : Ext)
  | sdWithdraw (caller sender : Addr) (amt : Int)
  | pxUndelegate (d caller sender : Addr) (amt : Int) (ext : Ext)
  | pxWithdrawReward (d caller sender : Addr) (ext : Ext)
  | pxSend (d caller sender to : Addr) (denom : Denom) (amt : Int)
  | modSelfDelegate (d : Addr) (amt : Int) (ext : Ext)
  | modWithdraw (d : Addr) (amt : Int)

/-! ### helpers -/

/-- `checkSender` of the lockup accounts (FIXED code): the message field must be the owner AND the actual caller -/
def checkSender (owner caller sender : Addr) : Bool := sender == owner && caller == sender

/-- bank `MsgSend` of one coin between accounts -/
def msgSend (b : Bank) (src dst : Addr) (d : Denom) (x : Int) : Res Bank :=
  if x ≤ 0 then .err "invalid-coins"
  else if sendDisabled d then .err "send-disabled"
  else b.send src dst d x

/-- the proxy's root owner: the lockup's owner for the lockup's proxy, the delegator itself for a base account -/
def rootOwner (s : St) (d : Addr) : Addr := if d = lock then s.owner else d

/-- `checkUnbondingEntriesMature`: with the entries of the (single) validator key in order, the walk stops at the first
    entry that is not mature; a mature entry leads to `TrackUndelegation(sdk.NewCoins(entry.Amount))`, whose amount of the
    FEE denom is zero because the entry is denominated in the bond denom ⇒ the generated reject condition on 0 ⇒ error.
    (If the staking query fails differently the handler returns that error instead: an error either way.) -/
def blocked (s : St) : Bool :=
  match s.entries with
  | [] => false
  | e :: _ => !(decide (e.endT > s.now)) && kUndelReject s.variant 0

/-- TrackDelegation: new (DV, DF), or none when rejected -/
def trackDelegation (v : Variant) (bal locked dv df amt : Int) : Option (Int × Int) :=
  if kDelReject v amt bal then none
  else
    let x := kDelX v locked dv amt
    let y := kDelY v amt x
    let dv' := if kDelSetDV v x y then kDelNewDV v dv x else dv
    let df' := if kDelSetDF v x y then kDelNewDF v df y else df
    some (dv', df')

/-- TrackUndelegation: new (DV, DF), or none when rejected.  `Coin.Sub` cannot go negative here (x ≤ DF, y ≤ DV). -/
def trackUndelegation (v : Variant) (dv df amt : Int) : Option (Int × Int) :=
  if kUndelReject v amt then none
  else
    let x := kUndelX v df dv amt
    let y := kUndelY v df dv amt x
    let df' := if kUndelSetDF v x y then kUndelNewDF v df x else df
    let dv' := if kUndelSetDV v x y then kUndelNewDV v dv y else dv
    some (dv', df')

/-- GetNotBondedLockedCoin for the fee denom (the lockup's "bond denom" is the FEE denom, see getStakingDenom) -/
def notBondedLocked (v : Variant) (locked dv : Int) : Int := kNotBondedLocked v locked (kNotBondedX v locked dv)

def sumUnb (who : Addr) : List Unb → Int
  | [] => 0
  | u :: r => (if u.who = who then u.amount else 0) + sumUnb who r

def sumEntries : List Entry → Int
  | [] => 0
  | e :: r => e.amount + sumEntries r

/-- Undelegate's entry bookkeeping: merge into the first entry with the same creation height and end time, else append -/
def addEntry (es : List Entry) (h endT amt : Int) : List Entry :=
  match es with
  | [] => [⟨endT, amt, h⟩]
  | e :: r => if e.height = h ∧ e.endT = endT then { e with amount := e.amount + amt } :: r else e :: addEntry r h endT amt

/-! ### module handlers -/

/-- rewards paid to `who` from outside the model (boundary amounts): the shareclass claim from the validator's reward
    saver, a distribution withdrawal, or the withdrawal the staking hooks perform on every (un)delegation -/
def claim (b : Bank) (who : Addr) (ext : Ext) : Bank := (b.credit who fee ext.rewFee).credit who bond ext.rewBond

/-- x/selfdelegation Msg/SelfDelegate for delegator `d` (after getRootOwner and the proxy creation):
    send fee d→proxy, ConvertReverse at the proxy, staking Delegate from the proxy (boundary `ext.ok`) -/
def modSelfDelegate (s : St) (d : Addr) (amt : Int) (ext : Ext) : Res St :=
  if amt ≤ 0 then .err "invalid-amount"     -- Msg/SelfDelegate rejects a non-positive amount (as fixed; it panicked in sdk.NewCoin)
  else if !ext.ok then .err "ext"
  else
    let p := proxyOf d
    (s.bank.send d p fee amt).bind fun b1 =>
    (Convert.convertReverse bond fee b1 p amt).bind fun b2 =>
    (b2.send p stakingPool bond amt).bind fun b3 =>
    if amt = 0 then .err "staking-zero"
    else .ok { s with bank := claim b3 p ext, hasProxy := fun a => if a = d then true else s.hasProxy a,
                      stake := fun a => if a = p then s.stake p + amt else s.stake a }

/-- x/selfdelegation Msg/WithdrawSelfDelegationUnbonded for delegator `d`: Convert at the proxy, send fee proxy→d -/
def modWithdraw (s : St) (d : Addr) (amt : Int) : Res St :=
  if amt ≤ 0 then .err "invalid-amount"     -- Msg/WithdrawSelfDelegationUnbonded rejects a non-positive amount (as fixed)
  else if !s.hasProxy d then .err "no-proxy"
  else
    let p := proxyOf d
    (Convert.convert bond fee s.bank p amt).bind fun b1 =>
    (b1.send p d fee amt).bind fun b2 =>
    .ok { s with bank := b2 }

/-! ### step -/

def lockedNow (s : St) : Res Int := lockedAt s.variant s.OL s.startT s.endT s.now

def doInit (s : St) (v : Variant) (funder owner : Addr) (funds : Int) (startZero : Bool) (start : Int)
    (endZero : Bool) (end_ : Int) : Res St :=
  if s.created then .err "exists"
  else if funds < 0 then .err "invalid-coins"
  else if endZero then .err "invalid end time"
  else if !startZero && kBadWindow v start end_ then .err "invalid window"
  else
    (if funds = 0 then .ok s.bank else s.bank.send funder lock fee funds).bind fun b =>
    .ok { s with variant := v, created := true, hasOL := decide (funds > 0), bank := b, owner := owner,
                 startT := if startZero then s.now else start, endT := end_, OL := funds, DV := 0, DF := 0, entries := [] }

def doSend (s : St) (caller sender to : Addr) (denom : Denom) (amt : Int) : Res St :=
  if !s.created then .err "no-account"
  else if !checkSender s.owner caller sender then .err "not-owner"
  else if amt ≤ 0 then .err "invalid-coins"
  else if denom ≠ fee || !s.hasOL then .err "no-original-locking"
  else
    (lockedNow s).bind fun locked =>
    if blocked s then .err "unbonding-entry"
    else
      let nb := notBondedLocked s.variant locked s.DV
      let spendable := s.bank.bal lock fee - nb
      if spendable < 0 then .err "locked-exceeds-balance"
      else if spendable - amt < 0 then .err "insufficient-spendable"
      else (msgSend s.bank lock to fee amt).bind fun b => .ok { s with bank := b }

def doNvDelegate (s : St) (caller sender : Addr) (valOk : Bool) (denom : Denom) (amt : Int) (ext : Ext) : Res St :=
  if !s.created || s.variant ≠ .nv then .err "no-handler"
  else if !checkSender s.owner caller sender then .err "not-owner"
  else if denom ≠ fee || !s.hasOL then .err "no-original-locking"
  else
    (lockedNow s).bind fun locked =>
    if blocked s then .err "unbonding-entry"
    -- TrackDelegation: a negative amount passes the zero/insufficient test, X = min(max(V−DV,0), D) = D < 0 and
    -- sdk.NewCoin(bondDenom, X) panics ("negative coin amount") before the validator is even looked at
    else if amt < 0 then .panic .explicit
    else match trackDelegation s.variant (s.bank.bal lock fee) locked s.DV s.DF amt with
    | none => .err "track-delegation"
    | some (dv, df) =>
      if !valOk then .err "validator"
      else if !ext.ok then .err "ext"
      else
        let b0 := claim s.bank lock ext
        (b0.send lock scMod fee amt).bind fun b1 =>
        (Convert.convertReverse bond fee b1 scMod amt).bind fun b2 =>
        (b2.send scMod stakingPool bond amt).bind fun b3 =>
        (b3.mint scMod shareD ext.share).bind fun b4 =>
        (b4.send scMod lock shareD ext.share).bind fun b5 =>
        .ok { s with bank := b5, DV := dv, DF := df }

def doNvUndelegate (s : St) (caller sender : Addr) (valOk : Bool) (denom : Denom) (amt : Int) (ext : Ext) : Res St :=
  if !s.created || s.variant ≠ .nv then .err "no-handler"
  else if !checkSender s.owner caller sender then .err "not-owner"
  else if denom ≠ fee then .err "denom"
  else if amt ≤ 0 then .err "not-positive"
  else if !valOk then .err "validator"
  else if !ext.ok then .err "ext"
  else
    let b0 := claim s.bank lock ext
    (b0.send lock scMod shareD ext.share).bind fun b1 =>
    (b1.burn scMod shareD ext.share).bind fun b2 =>
    let completion := s.now + s.ut
    .ok { s with bank := b2, scUnb := s.scUnb ++ [⟨lock, amt, completion⟩],
                 entries := addEntry s.entries s.height completion amt }

def doNvWithdrawReward (s : St) (caller sender : Addr) (ext : Ext) : Res St :=
  if !s.created || s.variant ≠ .nv then .err "no-handler"
  else if !checkSender s.owner caller sender then .err "not-owner"
  else if !ext.ok then .err "ext"
  else .ok { s with bank := claim s.bank lock ext }

def doSdSelfDelegate (s : St) (caller sender : Addr) (amt : Int) (ext : Ext) : Res St :=
  if !s.created || s.variant ≠ .sd then .err "no-handler"
  else if !checkSender s.owner caller sender then .err "not-owner"
  else if amt < 0 then .panic .explicit       -- sdk.NewCoin(feeDenom, negative)
  else if !s.hasOL then .err "no-original-locking"
  else
    (lockedNow s).bind fun locked =>
    if blocked s then .err "unbonding-entry"
    else match trackDelegation s.variant (s.bank.bal lock fee) locked s.DV s.DF amt with
    | none => .err "track-delegation"
    | some (dv, df) => modSelfDelegate { s with DV := dv, DF := df } lock amt ext

def doSdWithdraw (s : St) (caller sender : Addr) (amt : Int) : Res St :=
  if !s.created || s.variant ≠ .sd then .err "no-handler"
  else if !checkSender s.owner caller sender then .err "not-owner"
  else if amt < 0 then .panic .explicit
  else if blocked s then .err "unbonding-entry"
  else match trackUndelegation s.variant s.DV s.DF amt with
  | none => .err "track-undelegation"
  | some (dv, df) => modWithdraw { s with DV := dv, DF := df } lock amt

def pxGuard (s : St) (d caller sender : Addr) : Bool :=
  s.hasProxy d && checkSender (rootOwner s d) caller sender

def doPxUndelegate (s : St) (d caller sender : Addr) (amt : Int) (ext : Ext) : Res St :=
  if !s.hasProxy d then .err "no-account"
  else if !checkSender (rootOwner s d) caller sender then .err "unauthorized"
  else if amt < 0 then .panic .explicit
  else if amt = 0 then .err "staking-zero"
  else if !ext.ok then .err "ext"
  else
    let p := proxyOf d
    if s.stake p < amt then .err "staking-insufficient"
    else .ok { s with bank := claim s.bank p ext, stake := fun a => if a = p then s.stake p - amt else s.stake a,
                      ubds := s.ubds ++ [⟨p, amt, s.now + s.ut⟩] }

def doPxWithdrawReward (s : St) (d caller sender : Addr) (ext : Ext) : Res St :=
  if !s.hasProxy d then .err "no-account"
  else if !checkSender (rootOwner s d) caller sender then .err "unauthorized"
  else if !ext.ok then .err "ext"
  else .ok { s with bank := claim s.bank (proxyOf d) ext }

def doPxSend (s : St) (d caller sender to : Addr) (denom : Denom) (amt : Int) : Res St :=
  if !s.hasProxy d then .err "no-account"
  else if !checkSender (rootOwner s d) caller sender then .err "unauthorized"
  else (msgSend s.bank (proxyOf d) to denom amt).bind fun b => .ok { s with bank := b }

/-- staking end-block: every unbonding with `completion ≤ t` is released to its delegator -/
def releaseUbds (b : Bank) (t : Int) : List Unb → Bank × List Unb
  | [] => (b, [])
  | u :: r =>
    if u.completion ≤ t then releaseUbds ((b.credit stakingPool bond (-u.amount)).credit u.who bond u.amount) t r
    else let (b', r') := releaseUbds b t r; (b', u :: r')

/-- shareclass end-block `GarbageCollectUnbonded`: entries whose completion SECOND has been reached are converted and paid;
    the module only holds what staking released (`completion ≤ t`), so an entry that matures later in the current second
    makes `Convert` fail ⇒ EndBlock error ⇒ halt (`none`) -/
def payScUnb (b : Bank) (t : Int) : List Unb → Option (Bank × List Unb)
  | [] => some (b, [])
  | u :: r =>
    if Time.unix u.completion ≤ Time.unix t then
      if u.completion ≤ t then
        payScUnb ((((b.credit stakingPool bond (-u.amount)).addSupply bond (-u.amount)).addSupply fee u.amount).credit u.who fee u.amount) t r
      else none
    else (payScUnb b t r).map fun (b', r') => (b', u :: r')

def doBlock (s : St) (t : Int) : Res St :=
  if t < s.now then .err "time"      -- block time is monotone (BFT time)
  else
  let (b1, ub) := releaseUbds s.bank t s.ubds
  match payScUnb b1 t s.scUnb with
  | none => .err "halt"
  | some (b2, sc) => .ok { s with bank := b2, ubds := ub, scUnb := sc, now := t, height := s.height + 1 }

def apply (s : St) : Op → Res St
  | .init v f o funds sz st ez en => doInit s v f o funds sz st ez en
  | .deposit src dst d x => (msgSend s.bank src dst d x).bind fun b => .ok { s with bank := b }
  | .block t => doBlock s t
  | .send c sd to d x => doSend s c sd to d x
  | .nvDelegate c sd v d x e => doNvDelegate s c sd v d x e
  | .nvUndelegate c sd v d x e => doNvUndelegate s c sd v d x e
  | .nvWithdrawReward c sd e => doNvWithdrawReward s c sd e
  | .sdSelfDelegate c sd x e => doSdSelfDelegate s c sd x e
  | .sdWithdraw c sd x => doSdWithdraw s c sd x
  | .pxUndelegate d c sd x e => doPxUndelegate s d c sd x e
  | .pxWithdrawReward d c sd e => doPxWithdrawReward s d c sd e
  | .pxSend d c sd to dn x => doPxSend s d c sd to dn x
  | .modSelfDelegate d x e => modSelfDelegate s d x e
  | .modWithdraw d x => modWithdraw s d x

/-- one operation: ok ⇒ new state; error/panic ⇒ nothing changes (atomic message); a failing end-block halts the chain -/
def step (s : St) (op : Op) : St × String :=
  if s.halted then (s, "halted")
  else match apply s op with
  | .ok s' => (s', "ok")
  | .err _ => (match op with | .block _ => ({ s with halted := true }, "halt") | _ => (s, "err"))
  | .panic _ => (s, "panic")

def run (s : St) (ops : List Op) : St := ops.foldl (fun st op => (step st op).1) s

/-! ### what the properties are about -/

/-- value held for the lockup by its custody set, in fee-denom units (bond and share tokens at 1:1):
    nv: the account's fee balance + its share tokens + shareclass unbondings payable to it;
    sd: the account's fee balance + the proxy's bond balance + the proxy's stake + its staking unbondings -/
def custody (s : St) : Int :=
  match s.variant with
  | .nv => s.bank.bal lock fee + s.bank.bal lock shareD + sumUnb lock s.scUnb
  | .sd => s.bank.bal lock fee + s.bank.bal "plock" bond + s.stake "plock" + sumUnb "plock" s.ubds

/-- what is actually delegated, unbonding, or unbonded and not yet tracked back -/
def actualDelegated (s : St) : Int :=
  match s.variant with
  | .nv => s.bank.bal lock shareD + sumEntries s.entries
  | .sd => s.stake "plock" + sumUnb "plock" s.ubds + s.bank.bal "plock" bond

end Sunrise.Lockup
