import SunriseVerif.Model.CL
import SunriseVerif.Model.CLCustody
/-!
  Abstraction of the store-level model `CL.St` to the custody abstraction `CLCustody.St` (per pool), the executable form
  of its guards and invariant, and the lock-step comparison the driver runs on every successful pool operation:
  the abstract operations, fed with the amounts that ACTUALLY moved in the store-level model (= in the application, by the
  `cl` correspondence), must be admissible (their guards hold, with the rounding error `e` that the actual amounts imply)
  and must lead to the abstraction of the next state.  The largest `e` seen is reported.
-/
namespace Sunrise.CLCustody
open Sunrise

def ratOfDec (d : Dec) : Rat := (d.raw : Rat) / PRECQ

/-- the pool's price grid: TickToSqrtPrice of the code (0 where it fails) -/
def spOf (tp : TickMath.TickParams) : Int → Rat :=
  fun t => match TickMath.tickToSqrtPrice t tp with | .ok v => ratOfDec v | _ => 0

def ticksOfPool (s : CL.St) (pool : Nat) : List Int :=
  ((s.ticks.filter (·.pool == pool)).map (·.tick))
    ++ (s.positions.filter (·.pool == pool)).foldr (fun q acc => q.lower :: q.upper :: acc) []

/-- positions newest first (`CLBook.add` conses) -/
def absC (s : CL.St) (pool : Nat) (slack : Rat) (sp : Int → Rat) : Option St :=
  match CL.getPool s pool with
  | some p =>
    let tk (t : Int) : Option CL.TickInfo := CL.findTick s pool t
    some {
      book := {
        pos := ((s.positions.filter (·.pool == pool)).reverse).map fun q => ⟨q.lower, q.upper, q.liq.raw⟩
        gross := fun t => match tk t with | some ti => ti.gross.raw | none => 0
        net := fun t => match tk t with | some ti => ti.net.raw | none => 0
        tick := p.tick
        active := p.liq.raw }
      sp := sp
      P := ratOfDec p.sqrtP
      base := (s.bank.bal (CL.poolAddr pool) p.base : Int)
      quote := (s.bank.bal (CL.poolAddr pool) p.quote : Int)
      slack := slack }
  | none => none

def bookGuardOn (ts : List Int) (b : CLBook.St) : CLBook.Op → Bool
  | .add lo hi δ => decide (lo < hi) && decide (0 ≤ δ)
  | .decrease i δ => match b.pos[i]? with | some x => decide (0 ≤ δ) && decide (δ ≤ x.liq) | none => false
  | .crossUp t => decide (b.tick < t) && ts.all (fun u => !(decide (b.tick < u) && decide (u < t)) || b.gross u == 0)
  | .crossDown t => decide (t ≤ b.tick) && ts.all (fun u => !(decide (t < u) && decide (u ≤ b.tick)) || b.gross u == 0)
  | .moveWithin t' =>
    (decide (b.tick ≤ t') && ts.all (fun u => !(decide (b.tick < u) && decide (u ≤ t')) || b.gross u == 0))
    || (decide (t' ≤ b.tick) && ts.all (fun u => !(decide (t' < u) && decide (u ≤ b.tick)) || b.gross u == 0))

def priceInTickB (sp : Int → Rat) (P : Rat) (c : Int) : Bool := decide (sp c ≤ P) && decide (P ≤ sp (c + 1))

/-- `Op.guard`, tick quantifiers evaluated on a finite list containing every stored tick -/
def guardOn (ts : List Int) (s : St) (op : Op) : Bool :=
  (match bookOp op with | some b => bookGuardOn ts s.book b | none => true) &&
  match op with
  | .deposit lo hi δ ab aq e =>
      decide (0 ≤ e) && decide (0 < s.P)
      && decide (entBase s.sp s.P ⟨lo, hi, δ⟩ ≤ ab + e) && decide (entQuote s.sp s.P ⟨lo, hi, δ⟩ ≤ aq + e)
  | .withdraw i δ ab aq e =>
      decide (0 ≤ e) && decide (0 < s.P)
      && (match s.book.pos[i]? with
          | some x => decide (ab ≤ entBase s.sp s.P ⟨x.lo, x.hi, δ⟩ + e) && decide (aq ≤ entQuote s.sp s.P ⟨x.lo, x.hi, δ⟩ + e)
          | none => false)
  | .swapDown P' c' ain aout e =>
      decide (0 ≤ e) && decide (0 < P') && decide (P' ≤ s.P) && decide (c' ≤ s.book.tick) && priceInTickB s.sp P' c'
      && decide ((s.book.active : Rat) / PRECQ * (1 / P' - 1 / s.P) ≤ ain + e)
      && decide (aout ≤ (s.book.active : Rat) / PRECQ * (s.P - P') + e)
  | .swapUp P' c' ain aout e =>
      decide (0 ≤ e) && decide (0 < s.P) && decide (s.P ≤ P') && decide (s.book.tick ≤ c') && priceInTickB s.sp P' c'
      && decide ((s.book.active : Rat) / PRECQ * (P' - s.P) ≤ ain + e)
      && decide (aout ≤ (s.book.active : Rat) / PRECQ * (1 / s.P - 1 / P') + e)
  | .crossDown t => decide (s.P = s.sp t)
  | .crossUp t => decide (s.P = s.sp t)
  | .setPrice P c => decide (0 < P) && priceInTickB s.sp P c && s.book.pos.all (fun x => x.liq == 0)
  | .keep rb rq => decide (0 ≤ rb) && decide (0 ≤ rq)

/-- what happened in the store-level model, with the amounts that actually moved -/
inductive Ev where
  | deposit (lo hi δ : Int) (ab aq : Rat)
  | withdraw (i : Nat) (δ : Int) (ab aq : Rat)
  | swapStep (down : Bool) (P' : Rat) (c' : Int) (ain aout : Rat)
  | cross (down : Bool) (t : Int)
  | setPrice (P : Rat) (c : Int)
  | keep (rb rq : Rat)

def rmax (a b : Rat) : Rat := if a < b then b else a

/-- analytic bound on a single rounding error in the LP's / trader's favour.  The base-amount formula is evaluated as
    `diff.Mul(liq).Quo(√p_b).Quo(√p_a)`, three half-even roundings of at most u/2 = 5·10^-19 each, the first two divided by
    the following divisors: |error| ≤ u/2 · (1/(√p_a·√p_b) + 1/√p_a + 1); the quote-amount formula loses at most u/2.
    `m` is the smallest sqrt price involved.  (Next-price computations round in the pool's favour and add nothing.) -/
def errTol (m : Rat) : Rat := if m ≤ 0 then 0 else (1 / PRECQ) * (1 / (m * m) + 1 / m + 1)

/-- smallest positive sqrt price among the grid points in use and the given prices -/
def minPrice (sp : Int → Rat) (ts : List Int) (ps : List Rat) : Rat :=
  ((ts.map sp) ++ ps).foldl (fun m x => if 0 < x ∧ (m ≤ 0 ∨ x < m) then x else m) 0

/-- the abstract operation for an event, with the smallest rounding error `e` that makes its amount guards true -/
def evToOp (s : St) : Ev → Op
  | .deposit lo hi δ ab aq =>
    .deposit lo hi δ ab aq (rmax 0 (rmax (entBase s.sp s.P ⟨lo, hi, δ⟩ - ab) (entQuote s.sp s.P ⟨lo, hi, δ⟩ - aq)))
  | .withdraw i δ ab aq =>
    match s.book.pos[i]? with
    | some x => .withdraw i δ ab aq (rmax 0 (rmax (ab - entBase s.sp s.P ⟨x.lo, x.hi, δ⟩) (aq - entQuote s.sp s.P ⟨x.lo, x.hi, δ⟩)))
    | none => .withdraw i δ ab aq 0
  | .swapStep true P' c' ain aout =>
    .swapDown P' c' ain aout (rmax 0 (rmax ((s.book.active : Rat) / PRECQ * (1 / P' - 1 / s.P) - ain)
                                        (aout - (s.book.active : Rat) / PRECQ * (s.P - P'))))
  | .swapStep false P' c' ain aout =>
    .swapUp P' c' ain aout (rmax 0 (rmax ((s.book.active : Rat) / PRECQ * (P' - s.P) - ain)
                                      (aout - (s.book.active : Rat) / PRECQ * (1 / s.P - 1 / P'))))
  | .cross true t => .crossDown t
  | .cross false t => .crossUp t
  | .setPrice P c => .setPrice P c
  | .keep rb rq => .keep rb rq

def opErr : Op → Rat
  | .deposit _ _ _ _ _ e => e
  | .withdraw _ _ _ _ e => e
  | .swapDown _ _ _ _ e => e
  | .swapUp _ _ _ _ e => e
  | _ => 0

/-- run the events; `none` when a guard fails; also returns the largest rounding error used -/
def runEvs (ts : List Int) : St → Rat → List Ev → Option (St × Rat)
  | s, m, [] => some (s, m)
  | s, m, ev :: rest =>
    let op := evToOp s ev
    if guardOn ts s op then runEvs ts (step s op) (rmax m (opErr op)) rest else none

def livePos (l : List CLBook.Pos) : List (List Int) :=
  ((l.filter (fun x => x.liq != 0)).map fun x => [x.lo, x.hi, x.liq]).mergeSort
    (fun a b => match a, b with
      | [a1, a2, a3], [b1, b2, b3] => a1 < b1 || (a1 == b1 && (a2 < b2 || (a2 == b2 && a3 ≤ b3)))
      | _, _ => true)

/-- observable equality: balances, bookkeeping on the ticks in use, live positions; price and cursor are compared while
    the pool has open liquidity (a reset pool stores price 0 and tick 0) -/
def obsEqC (ts : List Int) (a b : St) : Bool :=
  decide (a.base = b.base) && decide (a.quote = b.quote) && a.book.active == b.book.active
  && ts.all (fun t => a.book.gross t == b.book.gross t && a.book.net t == b.book.net t)
  && livePos a.book.pos == livePos b.book.pos
  && ((livePos b.book.pos).isEmpty || (decide (a.P = b.P) && a.book.tick == b.book.tick))

/-- `GridOK` on the ticks in use: positive and strictly increasing along the sorted list -/
def gridOn (sp : Int → Rat) (ts : List Int) : Bool :=
  let l := (ts.mergeSort (fun a b => decide (a ≤ b))).eraseDups
  l.all (fun t => decide (0 < sp t)) && (l.zip l.tail).all (fun ab => decide (sp ab.1 < sp ab.2))

/-- the custody abstraction is claimed for pools whose sqrt prices (current and of every tick in use) are at least 10^-9:
    below that the 18-decimal price grid has a handful of significant digits left (it stops being strictly increasing
    near 10^-18) and the amount formulas lose whole coins (known finding C02-LOWPRICE) -/
def priceFloor : Rat := 1 / 1000000000

def applicable (sp : Int → Rat) (ts : List Int) (ps : List Rat) : Bool :=
  let m := minPrice sp ts ps
  decide (priceFloor ≤ m) && (ts.all fun t => decide (0 < sp t)) && ps.all (fun p => decide (0 < p))

/-- executable form of `Inv` (without reachability of the book, which `CLAccrual.invOn` covers with the same sums) -/
def invOnC (s : St) : Bool :=
  (livePos s.book.pos).isEmpty ||
  !(applicable s.sp ((s.book.pos.filter (fun x => x.liq != 0)).foldr (fun x acc => x.lo :: x.hi :: acc) []) [s.P]) ||
  (decide (0 < s.P) && priceInTickB s.sp s.P s.book.tick && decide (0 ≤ s.slack)
   && gridOn s.sp ((s.book.pos.foldr (fun x acc => x.lo :: x.hi :: acc) []) ++ [s.book.tick, s.book.tick + 1])
   && decide (owedBase s ≤ s.base + s.slack) && decide (owedQuote s ≤ s.quote + s.slack))

/-- ticks whose grid price the events need -/
def evTicks : List Ev → List Int
  | [] => []
  | .swapStep _ _ c' _ _ :: rest => c' :: (c' + 1) :: evTicks rest
  | .cross _ t :: rest => t :: (t - 1) :: (t + 1) :: evTicks rest
  | .setPrice _ c :: rest => c :: (c + 1) :: evTicks rest
  | .deposit lo hi _ _ _ :: rest => lo :: hi :: evTicks rest
  | _ :: rest => evTicks rest

/-- swap trace → events.  `down` = base-for-quote.  A `.step` is followed by the `.cross`/`.move` of the same iteration
    (or by nothing when the price did not move). -/
def swapEvs (down : Bool) (cur : Int) : List CL.SwapEv → List Ev
  | [] => []
  | .step next ain aout :: .cross up t :: rest =>
    .swapStep down ((next : Rat) / PRECQ) (if down then t else t - 1) ((ain : Rat) / PRECQ) ((aout : Rat) / PRECQ)
      :: .cross (!up) t :: swapEvs down (if down then t - 1 else t) rest
  | .step next ain aout :: .move t :: rest =>
    .swapStep down ((next : Rat) / PRECQ) t ((ain : Rat) / PRECQ) ((aout : Rat) / PRECQ) :: swapEvs down t rest
  | .step next ain aout :: rest =>
    (if ain == 0 && aout == 0 then [] else [.swapStep down ((next : Rat) / PRECQ) cur ((ain : Rat) / PRECQ) ((aout : Rat) / PRECQ)])
      ++ swapEvs down cur rest
  | .cross up t :: rest => .cross (!up) t :: swapEvs down (if down then t - 1 else t) rest
  | _ :: rest => swapEvs down cur rest

/-- lock-step verdict for one pool: returns (ok, largest rounding error within its analytic bound, sum of the errors) -/
def lockstepC (before after : CL.St) (pool : Nat) (evs : List Ev) (sp : Int → Rat) : Bool × Bool × Rat :=
  match absC before pool 0 sp, absC after pool 0 sp with
  | some a, some b =>
    let ts := ticksOfPool before pool ++ ticksOfPool after pool
    match runEvs ts a 0 evs with
    | some (a', m) =>
      -- whatever the abstract amounts do not explain must be a non-negative remainder kept by the pool
      let rb := b.base - a'.base
      let rq := b.quote - a'.quote
      let a'' := step a' (.keep rb rq)
      let mp := minPrice a.sp ts [a.P, b.P]
      (decide (0 ≤ rb) && decide (0 ≤ rq) && decide (rb < 1) && decide (rq < 1) && obsEqC ts a'' b,
       decide (m ≤ errTol mp), a'.slack)
    | none =>
      -- outside the claimed price regime a failing guard is not reported
      (!(applicable a.sp ts ((if (livePos a.book.pos).isEmpty then [] else [a.P]) ++ (if (livePos b.book.pos).isEmpty then [] else [b.P]))), true, 0)
  | none, none => (true, true, 0)
  | _, _ => (evs.isEmpty, true, 0)

end Sunrise.CLCustody
