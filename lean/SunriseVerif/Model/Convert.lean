import SunriseVerif.Model.Bank
/-! x/tokenconverter keeper_convert.go: Convert (bond → fee) and ConvertReverse (fee → bond),
    four bank calls each, in code order. `sdk.NewCoin` PANICS on a negative amount (only reachable by a direct
    keeper call: Msg/Convert rejects non-positive amounts first). -/
namespace Sunrise.Convert
open Sunrise

def moduleAcc : Addr := "module:tokenconverter"

/-- generic: take `amount` of `dIn` from the holder, burn it, mint `amount` of `dOut`, pay it out -/
def swapDenoms (b : Bank) (holder : Addr) (dIn dOut : Denom) (amount : Int) : Res Bank :=
  if amount < 0 then .panic .explicit else
  (b.send holder moduleAcc dIn amount).bind fun b1 =>
  (b1.burn moduleAcc dIn amount).bind fun b2 =>
  (b2.mint moduleAcc dOut amount).bind fun b3 =>
  b3.send moduleAcc holder dOut amount

def convert (bond fee : Denom) (b : Bank) (holder : Addr) (amount : Int) : Res Bank :=
  swapDenoms b holder bond fee amount

def convertReverse (bond fee : Denom) (b : Bank) (holder : Addr) (amount : Int) : Res Bank :=
  swapDenoms b holder fee bond amount

/-- Msg/Convert: static validation then the keeper call; a failing message changes nothing (tx atomicity) -/
def msgConvert (bond fee : Denom) (b : Bank) (holder : Addr) (amount : Int) : Bank × String :=
  if amount ≤ 0 then (b, "err") else
  match convert bond fee b holder amount with
  | .ok b' => (b', "ok")
  | r => (b, r.cls)

end Sunrise.Convert
