/-! x/liquiditypool/types/keys.go `TickIndexToBytes` / `TickIndexFromBytes`: prefix byte 'N' (0x4E) for negative ticks,
    'P' (0x50) otherwise, followed by the big-endian two's-complement uint64 of the int64 tick. Store iteration order is
    the lexicographic byte order of these 9-byte keys. -/
namespace Sunrise.TickKey

def I64_MIN : Int := -9223372036854775808
def I64_MAX : Int := 9223372036854775807
def TWO64 : Int := 18446744073709551616

/-- the key as (prefix byte, unsigned 64-bit payload); big-endian payload order = numeric order of the payload -/
def encode (t : Int) : Nat × Nat :=
  if t < 0 then (0x4E, (t + TWO64).toNat) else (0x50, t.toNat)

def keyLt (a b : Nat × Nat) : Prop := a.1 < b.1 ∨ (a.1 = b.1 ∧ a.2 < b.2)

/-- TickIndexFromBytes (for a well-formed 9-byte key) -/
def decode (k : Nat × Nat) : Option Int :=
  let i : Int := if (k.2 : Int) ≥ 9223372036854775808 then (k.2 : Int) - TWO64 else (k.2 : Int)
  if k.1 = 0x4E ∧ i ≥ 0 then none
  else if k.1 = 0x50 ∧ i < 0 then none
  else some i

/-- 9 bytes, for comparison with the Go function -/
def bytes (t : Int) : List Nat :=
  let (p, u) := encode t
  p :: (List.range 8).map fun i => (u / 256 ^ (7 - i)) % 256

end Sunrise.TickKey
