import SunriseVerif.Model.Dec
import SunriseVerif.Model.Bank
/-!
x/liquidityincentive: `Msg/VoteGauge` (msg_server_vote_gauge.go), the votes store (store_vote.go), `Tally`
(keeper_tally.go), `CreateEpoch` / `BeginBlocker` / `EndBlocker` (abci.go), epoch and gauge stores.

Boundary (parameters, recorded in the trace as `ext`): the staking view that `Tally` reads (bonded validators with
tokens and shares, the delegations of every account, `TotalBondedTokens`), pool existence (`liquiditypool.GetPool`),
the result class of each `liquiditypool.AllocateIncentive` call, and the fee collector's bond-denom balance at the
start of the block (minted by app/mint each `minute` epoch, swept by x/distribution right after this module's
BeginBlocker).

Quirks kept as they are in the code:
* weights are stored verbatim as strings; `VoteGauge` validates all weights first (parse, sign, sum ≤ 1 with `GT`),
  then pool existence; duplicate pool ids and an empty weight list are accepted;
* `Tally`: the delegator loop ignores the parse error of a weight (`weight, _ :=`): a bad stored weight would be a nil
  `LegacyDec` and `Mul` dereferences it (panic); the validator loop returns the error; `Quo` by zero delegator
  shares panics;
* `CreateEpoch` with an empty tally returns nil WITHOUT creating an epoch (the previous epoch keeps paying);
* `BeginBlocker` reads the fee-collector balance once, before the loop; every allocation is computed from that
  same balance: weight = count.Quo(total) (banker's), allocation = ⌊balance · weight⌋ (MulTruncate, TruncateDecimal);
* `EndBlocker`: a `CreateEpoch` error is logged and swallowed, and skips the pruning.
-/
namespace Sunrise.Gauge
open Sunrise

structure PoolWeight where
  pool : Nat
  weight : String
deriving DecidableEq, Repr

structure Vote where
  sender : Addr
  weights : List PoolWeight
deriving DecidableEq, Repr

structure GaugeRec where
  prev : Nat
  pool : Nat
  count : Int
deriving DecidableEq, Repr

structure Epoch where
  id : Nat
  startBlock : Int
  endBlock : Int
  gauges : List GaugeRec
deriving DecidableEq, Repr

/-! ## Msg/VoteGauge -/

/-- the static-validation loop: parse, sign, running sum -/
def sumWeights : List PoolWeight → Dec → Res Dec
  | [], tot => .ok tot
  | pw :: t, tot =>
    match Dec.ofString? pw.weight with
    | none => .err "invalid-weight"
    | some w => if w.isNegative then .err "negative-weight" else sumWeights t (tot.add w)

def allPoolsExist (pools : List Nat) : List PoolWeight → Bool
  | [] => true
  | pw :: t => if pools.contains pw.pool then allPoolsExist pools t else false

/-- `Votes.Set(addr, vote)`: replace the sender's vote or append -/
def setVote : List Vote → Vote → List Vote
  | [], v => [v]
  | x :: t, v => if x.sender = v.sender then v :: t else x :: setVote t v

def getVote (vs : List Vote) (a : Addr) : Option Vote := vs.find? (fun v => v.sender = a)

def voteGauge (pools : List Nat) (votes : List Vote) (senderOk : Bool) (sender : Addr) (ws : List PoolWeight) :
    Res (List Vote) :=
  if !senderOk then .err "invalid-sender" else
  match sumWeights ws Dec.zero with
  | .err e => .err e
  | .panic k => .panic k
  | .ok tot =>
    if tot.gt Dec.one then .err "total-weight-gt-one" else
    if !allPoolsExist pools ws then .err "pool-not-found" else
    .ok (setVote votes ⟨sender, ws⟩)

/-! ## Tally -/

structure ValInfo where
  addr : Addr
  bonded : Int
  shares : Dec
  deductions : Dec
  weights : List PoolWeight
deriving Repr

/-- what `Tally` reads from x/staking -/
structure Staking where
  vals : List (Addr × Int × Dec)          -- bonded validators: operator (as account name), tokens, delegator shares
  dels : List (Addr × Addr × Dec)         -- delegations: delegator, validator, shares
  totalBonded : Int
deriving Repr

/-- the Go map `results`, kept as a list sorted by pool id (what `sort.SliceStable` produces at the end) -/
abbrev Results := List (Nat × Dec)

def addTo : Results → Nat → Dec → Results
  | [], k, v => [(k, v)]
  | (k', v') :: t, k, v =>
    if k < k' then (k, v) :: (k', v') :: t
    else if k = k' then (k', v'.add v) :: t
    else (k', v') :: addTo t k v

/-- `for _, poolWeight := range weights { results[pool] = old.Add(votingPower.Mul(weight)) }` -/
def addWeighted (power : Dec) : List (Nat × Dec) → Results → Results
  | [], r => r
  | (p, w) :: t, r => addWeighted power t (addTo r p (power.mul w))

def parseWeights : List PoolWeight → Option (List (Nat × Dec))
  | [] => some []
  | pw :: t =>
    match Dec.ofString? pw.weight, parseWeights t with
    | some w, some r => some ((pw.pool, w) :: r)
    | _, _ => none

def findVal : List ValInfo → Addr → Option ValInfo
  | [], _ => none
  | v :: t, a => if v.addr = a then some v else findVal t a

def updVal : List ValInfo → Addr → (ValInfo → ValInfo) → List ValInfo
  | [], _, _ => []
  | v :: t, a, f => if v.addr = a then f v :: t else v :: updVal t a f

structure Acc where
  vals : List ValInfo
  res : Results
  total : Dec
  muls : Nat            -- ghost: number of `votingPower.Mul(weight)` performed (rounding budget of the theorems)
deriving Repr

/-- votingPower = shares.MulInt(bonded).Quo(delegatorShares); Quo by zero panics -/
def power (shares : Dec) (bonded : Int) (valShares : Dec) : Dec := (shares.mulInt bonded).quo valShares

/-- body of the `IterateDelegations` callback for one delegation of the voter -/
def delegStep (ws : List PoolWeight) (acc : Acc) (d : Addr × Dec) : Res Acc :=
  match findVal acc.vals d.1 with
  | none => .ok acc
  | some val =>
    let vals' := updVal acc.vals d.1 (fun v => { v with deductions := v.deductions.add d.2 })
    if val.shares.raw = 0 then .panic .divZero else
    let p := power d.2 val.bonded val.shares
    match parseWeights ws with
    | none => .panic .nilDeref
    | some pws =>
      .ok { vals := vals', res := addWeighted p pws acc.res, total := acc.total.add p, muls := acc.muls + pws.length }

def delegLoop (ws : List PoolWeight) : List (Addr × Dec) → Acc → Res Acc
  | [], acc => .ok acc
  | d :: t, acc => (delegStep ws acc d).bind (delegLoop ws t)

def delsOf (dels : List (Addr × Addr × Dec)) (a : Addr) : List (Addr × Dec) :=
  (dels.filter (fun d => d.1 = a)).map (fun d => d.2)

/-- one vote: record the weights if the voter is a bonded validator, then walk the voter's delegations -/
def voteStep (dels : List (Addr × Addr × Dec)) (acc : Acc) (v : Vote) : Res Acc :=
  let vals1 := match findVal acc.vals v.sender with
    | some _ => updVal acc.vals v.sender (fun x => { x with weights := v.weights })
    | none => acc.vals
  delegLoop v.weights (delsOf dels v.sender) { acc with vals := vals1 }

def voteLoop (dels : List (Addr × Addr × Dec)) : List Vote → Acc → Res Acc
  | [], acc => .ok acc
  | v :: t, acc => (voteStep dels acc v).bind (voteLoop dels t)

/-- second loop: one validator's remaining power -/
def valStep (acc : Acc) (val : ValInfo) : Res Acc :=
  if val.weights.isEmpty then .ok acc else
  if val.shares.raw = 0 then .panic .divZero else
  let p := power (val.shares.sub val.deductions) val.bonded val.shares
  match parseWeights val.weights with
  | none => .err "invalid-weight"
  | some pws =>
    .ok { acc with res := addWeighted p pws acc.res, total := acc.total.add p, muls := acc.muls + pws.length }

def valLoop : List ValInfo → Acc → Res Acc
  | [], acc => .ok acc
  | v :: t, acc => (valStep acc v).bind (valLoop t)

def initVals (vs : List (Addr × Int × Dec)) : List ValInfo :=
  vs.map fun v => { addr := v.1, bonded := v.2.1, shares := v.2.2, deductions := Dec.zero, weights := [] }

/-- both loops; the accumulator also carries the (internal) total voting power -/
def tallyAcc (stk : Staking) (votes : List Vote) : Res Acc :=
  (voteLoop stk.dels votes { vals := initVals stk.vals, res := [], total := Dec.zero, muls := 0 }).bind fun a1 =>
  valLoop a1.vals a1

/-- `NewTallyResultFromMap` + sort: (pool, count.TruncateInt()) ascending by pool -/
def toCounts (r : Results) : List (Nat × Int) := r.map fun kv => (kv.1, kv.2.truncateInt)

def tally (stk : Staking) (votes : List Vote) : Res (List (Nat × Int)) :=
  (tallyAcc stk votes).bind fun a =>
  if stk.totalBonded = 0 then .ok [] else .ok (toCounts a.res)

/-! ## stores -/

def setGauge : List GaugeRec → GaugeRec → List GaugeRec
  | [], g => [g]
  | x :: t, g =>
    if g.prev < x.prev ∨ (g.prev = x.prev ∧ g.pool < x.pool) then g :: x :: t
    else if g.prev = x.prev ∧ g.pool = x.pool then g :: t
    else x :: setGauge t g

def removeGauge (gs : List GaugeRec) (prev pool : Nat) : List GaugeRec :=
  gs.filter fun g => !(g.prev = prev ∧ g.pool = pool)

def setEpoch : List Epoch → Epoch → List Epoch
  | [], e => [e]
  | x :: t, e =>
    if e.id < x.id then e :: x :: t
    else if e.id = x.id then e :: t
    else x :: setEpoch t e

def removeEpoch (es : List Epoch) (id : Nat) : List Epoch := es.filter fun e => !(e.id = id)

def lastEpoch (es : List Epoch) : Option Epoch := es.getLast?

/-! ## state machine -/

def feeCollector : Addr := "module:fee_collector"
def poolFees (p : Nat) : Addr := s!"pool:{p}:fees"
def bond : Denom := "uvrise"

structure St where
  epochBlocks : Int := 5
  pools : List Nat := []
  votes : List Vote := []
  epochs : List Epoch := []
  gauges : List GaugeRec := []
  bank : Bank := Bank.empty
  halted : Bool := false

/-- CreateEpoch: `none` = nothing written (empty tally) -/
def createEpoch (s : St) (h : Int) (stk : Staking) (prevId newId : Nat) : Res St :=
  (tally stk s.votes).bind fun results =>
  if results.isEmpty then .ok s else
  let gauges := results.map fun r => (⟨prevId, r.1, r.2⟩ : GaugeRec)
  let store := gauges.foldl setGauge s.gauges
  let epoch : Epoch := ⟨newId, h, h + s.epochBlocks, gauges⟩
  .ok { s with gauges := store, epochs := setEpoch s.epochs epoch }

def prune (s : St) : St :=
  if s.epochs.length > 2 then
    match s.epochs with
    | [] => s
    | e :: _ =>
      { s with epochs := removeEpoch s.epochs e.id,
               gauges := e.gauges.foldl (fun gs g => removeGauge gs g.prev g.pool) s.gauges }
  else s

/-- EndBlocker at height `h`.  `.panic` = the block panics (chain halt); errors are swallowed as the code does. -/
def endBlocker (s : St) (h : Int) (stk : Staking) : Res St :=
  match lastEpoch s.epochs with
  | none =>
    match createEpoch s h stk 0 1 with
    | .ok s' => .ok s'
    | .err _ => .ok s
    | .panic k => .panic k
  | some e =>
    if h ≥ e.endBlock then
      match createEpoch s h stk e.id (e.id + 1) with
      | .ok s' => .ok (prune s')
      | .err _ => .ok s
      | .panic k => .panic k
    else .ok s

def totalCount : List GaugeRec → Int
  | [] => 0
  | g :: t => g.count + totalCount t

/-- weight = NewDecFromInt(count).Quo(totalCount) -/
def gaugeWeight (count total : Int) : Dec := (Dec.ofInt count).quo (Dec.ofInt total)

/-- DecCoins{balance}.MulDecTruncate(weight).TruncateDecimal() for the single bond-denom coin -/
def allocation (balance : Int) (count total : Int) : Int :=
  let w := gaugeWeight count total
  if w.isZero then 0 else ((Dec.ofInt balance).mulTruncate w).truncateInt

/-- the allocation loop: every gauge is computed from the SAME balance `b0` read before the loop; `oks` are the
    recorded result classes of `AllocateIncentive` (ok ⇒ the coins moved to the pool's fee account). -/
def allocLoop (b0 total : Int) : List GaugeRec → List Bool → Bank → List (Nat × Int) → Bank × List (Nat × Int)
  | [], _, bank, out => (bank, out.reverse)
  | g :: t, oks, bank, out =>
    let a := allocation b0 g.count total
    let ok := oks.headD false
    if a > 0 then
      if ok then
        match bank.send feeCollector (poolFees g.pool) bond a with
        | .ok bank' => allocLoop b0 total t oks.tail bank' ((g.pool, a) :: out)
        | _ => allocLoop b0 total t oks.tail bank ((g.pool, 0) :: out)
      else allocLoop b0 total t oks.tail bank ((g.pool, 0) :: out)
    else allocLoop b0 total t oks.tail bank ((g.pool, 0) :: out)

/-- BeginBlocker: returns the new bank and the amounts actually transferred per gauge -/
def beginBlocker (s : St) (oks : List Bool) : St × List (Nat × Int) :=
  let b0 := s.bank.bal feeCollector bond
  match lastEpoch s.epochs with
  | none => (s, [])
  | some e =>
    let total := totalCount e.gauges
    if total = 0 then (s, []) else
    let (bank', out) := allocLoop b0 total e.gauges oks s.bank []
    ({ s with bank := bank' }, out)

inductive Op
  | addPool (id : Nat)
  | vote (sender : Addr) (senderOk : Bool) (ws : List PoolWeight)
  | block (h : Int) (fc : Int) (oks : List Bool) (stk : Staking)

inductive Out
  | none
  | vote (cls : String)
  | block (allocs : List (Nat × Int)) (swept : Int)
  | halt

/-- the fee collector's bond balance is an input at the start of each block (set to `fc`) -/
def setFc (b : Bank) (fc : Int) : Bank := b.credit feeCollector bond (fc - b.bal feeCollector bond)

def step (s : St) : Op → St × Out
  | .addPool id => ({ s with pools := s.pools ++ [id] }, .none)
  | .vote a okS ws =>
    match voteGauge s.pools s.votes okS a ws with
    | .ok vs => ({ s with votes := vs }, .vote "ok")
    | .err _ => (s, .vote "err")
    | .panic _ => (s, .vote "panic")
  | .block h fc oks stk =>
    if s.halted then (s, .halt) else
    let s0 := { s with bank := setFc s.bank fc }
    let (s1, allocs) := beginBlocker s0 oks
    let swept := s1.bank.bal feeCollector bond
    match endBlocker s1 h stk with
    | .ok s2 => (s2, .block allocs swept)
    | .err _ => (s1, .block allocs swept)
    | .panic _ => ({ s1 with halted := true }, .halt)

def run (s : St) : List Op → St
  | [] => s
  | op :: t => run (step s op).1 t

end Sunrise.Gauge
