import SunriseVerif.Model.Bank
/-!
x/da — hand-written executable model (core-only), tied to the Go code by the `da` correspondence suite.

Mirrors, in code order:
* `msg_server_publish_data.go`, `msg_server_submit_invalidity.go`, `msg_server_submit_validity_proof.go`,
  `msg_server_proof_deputy.go`, `msg_update_params.go` + `types/params.go: Validate`;
* `abci.go: EndBlocker` = prune rejected, prune verified, to-challenging, to-verified, tally, slash epoch
  (`keeper_slash.go: HandleSlashEpoch`).

Time is nanoseconds (`Int`); the status/time index of `types/keys.go` is keyed by `Timestamp.Unix()`, i.e. whole
seconds (`unix`), and every end-block scan compares whole seconds — modelled as it is.
Stores keyed by (uri, sender) are lists kept in key order. Go maps that are only used as sets/counters inside the
tally are association lists in insertion order (Props/C09 proves the results independent of that order).

Boundary (inputs recorded by the harness): staking validator lookup / bonded / jailed, the validators of the power
index, `types.ShardIndicesForValidator` with the keeper's `GetZkpThreshold` (`Env.assign`), Groth16 verification
(one flag per submitted proof), `SlashingKeeper.Slash/Jail` (assumed to succeed; reported as the `slashed` output).

`St.dust` is GHOST state (not in the code): division remainders left in the module account by rejections.
-/
namespace Sunrise.DA
open Sunrise

def daAcc : Addr := "da"
def PREC : Int := 1000000000000000000
def SEC : Int := 1000000000

/-- `time.Time.Unix()` -/
def unix (ns : Int) : Int := ns / SEC

inductive Status | cp | ch | ver | rej
deriving DecidableEq, Repr

def Status.unresolved : Status → Bool
  | .cp => true | .ch => true | _ => false

/-! ### sdk.Coins -/
abbrev Coins := List (Denom × Int)

def amt (cs : Coins) (d : Denom) : Int :=
  match cs with
  | [] => 0
  | c :: rest => (if c.1 = d then c.2 else 0) + amt rest d

/-- `Coins.IsAllPositive`: non-empty and every amount positive -/
def allPositive (cs : Coins) : Bool := !cs.isEmpty && cs.all (fun c => decide (0 < c.2))

def denomsSorted : Coins → Bool
  | [] => true
  | [_] => true
  | a :: b :: rest => decide (a.1 < b.1) && denomsSorted (b :: rest)

/-- `Coins.IsValid` (denoms are well-formed in every history): strictly sorted denoms, positive amounts -/
def coinsValid (cs : Coins) : Bool := cs.all (fun c => decide (0 < c.2)) && denomsSorted cs

/-- bank `SendCoins`, one `send` per coin, all-or-nothing -/
def sendCoins (b : Bank) (src dst : Addr) : Coins → Res Bank
  | [] => .ok b
  | c :: rest => (b.send src dst c.1 c.2).bind fun b1 => sendCoins b1 src dst rest

/-! ### state -/
structure Item where
  uri : String
  status : Status
  ts : Int
  publisher : Addr
  shards : Nat
  parity : Nat
  pubColl : Coins
  invColl : Coins
deriving Repr

structure Inval where
  uri : String
  sender : Addr
  indices : List Int
deriving Repr

/-- stored validity proof; `sender` is the validator's account address (`sdk.AccAddress(validator)`) -/
structure Proof where
  uri : String
  sender : Addr
  indices : List Int
deriving Repr

structure Params where
  thr : Int      -- challenge_threshold   (LegacyDec raw, ×10^18)
  rf : Int       -- replication_factor
  epoch : Int    -- slash_epoch (uint64)
  sft : Int      -- slash_fault_threshold
  frac : Int     -- slash_fraction
  cp : Int       -- challenge_period (ns)
  pp : Int       -- proof_period
  rrp : Int      -- rejected_removal_period
  vrp : Int      -- verified_removal_period
  pub : Coins    -- publish_data_collateral
  inv : Coins    -- submit_invalidity_collateral
deriving Repr

/-- `Params.Validate` (keys and shard-count fields are left at their defaults in every history) -/
def Params.valid (p : Params) : Bool :=
  decide (0 ≤ p.thr) && decide (p.thr ≤ PREC) && decide (0 < p.rf) && decide (0 < p.epoch)
  && decide (0 ≤ p.sft) && decide (p.sft ≤ PREC) && decide (0 ≤ p.frac) && decide (p.frac ≤ PREC)
  && decide (0 < p.cp) && decide (0 < p.pp) && decide (0 < p.rrp) && decide (0 < p.vrp)
  && coinsValid p.pub && coinsValid p.inv

structure St where
  bank : Bank
  now : Int
  height : Int
  params : Params
  items : List Item
  invs : List Inval
  proofs : List Proof
  deps : List (Addr × Addr)       -- validator ↦ deputy
  faults : Addr → Option Nat      -- fault_counts (no entry = none)
  chal : Nat                      -- challenge_counts
  dust : Denom → Int              -- GHOST: remainders of reward divisions kept by the module account

instance : Inhabited St := ⟨⟨default, 0, 0, ⟨0,0,0,0,0,0,0,0,0,[],[]⟩, [], [], [], [], fun _ => none, 0, fun _ => 0⟩⟩

/-! ### ordered stores -/
def insertBy {α} (lt : α → α → Bool) (x : α) : List α → List α
  | [] => [x]
  | y :: ys => if lt x y then x :: y :: ys else y :: insertBy lt x ys

def itemLt (a b : Item) : Bool := decide (a.uri < b.uri)
def keyLt (u1 : String) (s1 : Addr) (u2 : String) (s2 : Addr) : Bool :=
  decide (u1 < u2) || (u1 == u2 && decide (s1 < s2))

def findItem (s : St) (u : String) : Option Item := s.items.find? (fun it => it.uri == u)
def setItem (items : List Item) (it : Item) : List Item := items.map (fun x => if x.uri == it.uri then it else x)
def invsOf (s : St) (u : String) : List Inval := s.invs.filter (fun x => x.uri == u)
def proofsOf (s : St) (u : String) : List Proof := s.proofs.filter (fun x => x.uri == u)
def hasInval (s : St) (u : String) (a : Addr) : Bool := s.invs.any (fun x => x.uri == u && x.sender == a)

/-! ### messages -/
/-- Msg/PublishData -/
def publish (s : St) (sender : Addr) (uri : String) (shards parity : Nat) : Res St :=
  if parity ≥ shards then .err "parity>=total" else
  if (findItem s uri).isSome then .err "exists" else
  let p := s.params
  let it : Item := { uri, status := .cp, ts := s.now, publisher := sender, shards, parity, pubColl := p.pub, invColl := p.inv }
  let items := insertBy itemLt it s.items
  if allPositive p.pub then
    (sendCoins s.bank sender daAcc p.pub).bind fun b => .ok { s with items, bank := b }
  else .ok { s with items }

/-- Msg/SubmitInvalidity (with the S13 fix: one invalidity per sender and item) -/
def submitInvalidity (s : St) (sender : Addr) (uri : String) (indices : List Int) : Res St :=
  if indices.isEmpty then .err "invalid-indices" else
  match findItem s uri with
  | none => .err "not-found"
  | some it =>
    if it.status ≠ .cp then .err "not-in-challenge-period" else
    if it.ts + s.params.cp < s.now then .err "challenge-period-over" else
    if hasInval s uri sender then .err "invalidity-exists" else
    let rec_ : Inval := { uri, sender, indices }
    let invs := insertBy (fun a b => keyLt a.uri a.sender b.uri b.sender) rec_ s.invs
    if allPositive it.invColl then
      (sendCoins s.bank sender daAcc it.invColl).bind fun b => .ok { s with invs, bank := b }
    else .ok { s with invs }

/-- one element of `msg.Proofs`: parses and verifies / parses but does not verify / does not parse -/
inductive PFlag | good | bad | malformed
deriving DecidableEq, Repr

/-- the groth16 loop of SubmitValidityProof: per (index, proof) in order: parse, range check, verify -/
def checkProofs (shards : Nat) : List (Int × PFlag) → Res Unit
  | [] => .ok ()
  | (j, f) :: rest =>
    if f = .malformed then .err "proof-parse" else
    if j < 0 ∨ (shards : Int) ≤ j then .err "indices-overflow" else
    if f = .bad then .err "verify" else checkProofs shards rest

/-- Msg/SubmitValidityProof. `vExists`, `vBonded`: staking lookup of the validator (boundary);
    `extraProofs`: `len(Indices) ≠ len(Proofs)` -/
def submitProof (s : St) (sender validator : Addr) (uri : String) (ixs : List (Int × PFlag))
    (extraProofs vExists vBonded : Bool) : Res St :=
  if !vExists then .err "validator-not-exists" else
  if !vBonded then .err "validator-not-bonded" else
  let authErr : Option String :=
    if sender = validator then none else
    match s.deps.lookup validator with
    | none => some "deputy-not-found"
    | some d => if d = sender then none else some "invalid-deputy"
  match authErr with
  | some e => .err e
  | none =>
  if extraProofs then .err "indices-proofs-mismatch" else
  match findItem s uri with
  | none => .err "not-found"
  | some it =>
    if it.status ≠ .ch then .err "not-in-challenge" else
    if it.ts + s.params.pp < s.now then .err "proof-period-over" else
    (checkProofs it.shards ixs).bind fun _ =>
      let pr : Proof := { uri, sender := validator, indices := ixs.map (·.1) }
      let others := s.proofs.filter (fun x => !(x.uri == uri && x.sender == validator))
      .ok { s with proofs := insertBy (fun a b => keyLt a.uri a.sender b.uri b.sender) pr others }

def registerDeputy (s : St) (sender deputy : Addr) : St :=
  let others := s.deps.filter (fun x => !(x.1 == sender))
  { s with deps := insertBy (fun a b => decide (a.1 < b.1)) (sender, deputy) others }

def unregisterDeputy (s : St) (sender : Addr) : Res St :=
  match s.deps.lookup sender with
  | none => .err "deputy-not-found"
  | some _ => .ok { s with deps := s.deps.filter (fun x => !(x.1 == sender)) }

/-- Msg/UpdateParams from the authority -/
def updateParams (s : St) (p : Params) : Res St :=
  if p.valid then .ok { s with params := p } else .err "invalid-params"

/-! ### end-blocker -/
/-- boundary inputs of one end-block -/
structure Env where
  /-- bonded validators of the power index, as `TallyValidityProofs`/`GetZkpThreshold` see them -/
  active : List Addr
  /-- staking lookup in `HandleSlashEpoch`: none = not found, some (bonded, jailed) -/
  valInfo : Addr → Option (Bool × Bool)
  /-- `ShardIndicesForValidator(v, GetZkpThreshold(len shards), len shards)` for item `uri` -/
  assign : String → Addr → List Int
  /-- all addresses that can own a fault counter, in key order (iteration domain of `FaultCounts.Walk`) -/
  owners : List Addr

/-- uris of the items of `status` with `unix ts ≤ cutoff`, in the order of the status/time index: (unix ts, uri) -/
def indexScan (s : St) (status : Status) (cutoff : Option Int) : List String :=
  let sel := s.items.filter fun it => it.status == status && (match cutoff with | none => true | some c => decide (unix it.ts ≤ c))
  (sel.mergeSort (fun a b => decide (unix a.ts < unix b.ts) || (unix a.ts == unix b.ts && decide (a.uri ≤ b.uri)))).map (·.uri)

/-- DeleteRejectedDataOvertime / DeleteVerifiedDataOvertime -/
def pruneOne (status : Status) (s : St) (u : String) : St :=
  match findItem s u with
  | some it => if it.status = status then { s with items := s.items.filter (fun x => !(x.uri == u)) } else s
  | none => s

def prune (s : St) (status : Status) (period : Int) : St :=
  (indexScan s status (some (unix (s.now - period)))).foldl (pruneOne status) s

/-- distinct indices over all invalidities of an item, first-seen order (`seen` map + `invalidIndices`) -/
def addDistinct (acc : List Int) (i : Int) : List Int := if acc.contains i then acc else acc ++ [i]
def distinctIndices (invs : List Inval) : List Int :=
  invs.foldl (fun acc x => x.indices.foldl addDistinct acc) []

/-- ChangeToChallengingFromChallengePeriod, one item (with the S14 fix: at least one disputed index) -/
def toChallengingOne (s : St) (u : String) : St :=
  match findItem s u with
  | some it =>
    if it.status = .cp then
      let n : Int := (distinctIndices (invsOf s u)).length
      if 0 < n ∧ s.params.thr * (it.shards : Int) ≤ n * PREC then
        { s with items := setItem s.items { it with status := .ch, ts := s.now } }
      else s
    else s
  | none => s

def toChallenging (s : St) : St := (indexScan s .cp none).foldl toChallengingOne s

/-- refund one recorded challenger and delete the record; a failing send is logged and skipped -/
def refundChallenger (coll : Coins) (s : St) (x : Inval) : St :=
  match sendCoins s.bank daAcc x.sender coll with
  | .ok b => { s with bank := b, invs := s.invs.filter (fun y => !(y.uri == x.uri && y.sender == x.sender)) }
  | _ => s

/-- ChangeToVerifiedFromProofPeriod, one item (with the S13 fix: challengers below the threshold are refunded) -/
def toVerifiedOne (s : St) (u : String) : St :=
  match findItem s u with
  | some it =>
    if it.status = .cp then
      let s1 := { s with items := setItem s.items { it with status := .ver, ts := s.now } }
      match sendCoins s1.bank daAcc it.publisher it.pubColl with
      | .ok b => (invsOf s1 u).foldl (refundChallenger it.invColl) { s1 with bank := b }
      | _ => s1
    else s
  | none => s

def toVerified (s : St) : St :=
  (indexScan s .cp (some (unix (s.now - s.params.cp)))).foldl toVerifiedOne s

/-! #### tally of one item (pure part) -/
/-- `shardProofSubmitted` (and, with the S12 fix, `shardProofCount[i] = len`): index ↦ validators that proved it -/
abbrev Submitted := List (Int × List Addr)

def subLookup (m : Submitted) (i : Int) : List Addr := (m.lookup i).getD []

def subAdd (m : Submitted) (sender : Addr) (i : Int) : Submitted :=
  match m.lookup i with
  | none => m ++ [(i, [sender])]
  | some ss => if ss.contains sender then m else m.map (fun e => if e.1 == i then (e.1, e.2 ++ [sender]) else e)

def buildSubmitted (proofs : List Proof) : Submitted :=
  proofs.foldl (fun m p => p.indices.foldl (fun m i => subAdd m p.sender i) m) []

/-- `replicationFactor · (n − parity) / n · 2 / 3`, each `QuoInt64` truncating (raw LegacyDec) -/
def safeThreshold (rf : Int) (shards parity : Nat) : Int :=
  Int.tdiv (Int.tdiv (rf * ((shards : Int) - (parity : Int))) (shards : Int) * 2) 3

def safeIndices (m : Submitted) (x : Int) : List Int :=
  (m.filter (fun e => decide (x ≤ (e.2.length : Int) * PREC))).map (·.1)

def addSet (acc : List Addr) (v : Addr) : List Addr := if acc.contains v then acc else acc ++ [v]

/-- the `faultValidators` set of one item: for each safe index, each active validator assigned to it that did not prove it -/
def faultSet (safe : List Int) (active : List Addr) (assign : Addr → List Int) (m : Submitted) : List Addr :=
  safe.foldl (fun acc i =>
    (active.filter (fun v => (assign v).contains i)).foldl
      (fun acc v => if (subLookup m i).contains v then acc else addSet acc v) acc) []

/-- `checkCorrectInvalidity` -/
def correctInvalidity (x : Inval) (safe : List Int) : Bool := x.indices.all (fun i => !safe.contains i)

structure Outcome where
  safe : List Int
  rejected : Bool
  faulty : List Addr
deriving Repr

def tallyOutcome (rf : Int) (it : Item) (proofs : List Proof) (active : List Addr) (assign : Addr → List Int) : Outcome :=
  let m := buildSubmitted proofs
  let safe := safeIndices m (safeThreshold rf it.shards it.parity)
  { safe, rejected := decide ((safe.length : Int) + (it.parity : Int) < (it.shards : Int)),
    faulty := faultSet safe active assign m }

/-! #### tally of one item (state part) -/
def rewardShare (pub : Coins) (n : Int) : Coins :=
  pub.map fun c => (c.1, Int.tdiv (Int.tdiv (c.2 * PREC) n) PREC)

/-- pay collateral + reward to one challenger; a failing send is logged and skipped -/
def payChallenger (coins : Coins) (s : St) (x : Inval) : St :=
  match sendCoins s.bank daAcc x.sender coins with
  | .ok b => { s with bank := b }
  | _ => s

/-- verified after challenge: correct challengers are refunded, the others forfeit to the publisher -/
def settleVerified (coll : Coins) (safe : List Int) (acc : St × Coins) (x : Inval) : St × Coins :=
  if correctInvalidity x safe then
    match sendCoins acc.1.bank daAcc x.sender coll with
    | .ok b => ({ acc.1 with bank := b }, acc.2)
    | _ => acc
  else (acc.1, acc.2 ++ coll)

def incFault (f : Addr → Option Nat) (v : Addr) : Addr → Option Nat :=
  fun a => if a = v then some ((f v).getD 0 + 1) else f a

def addDust (dust : Denom → Int) (pub reward : Coins) (n : Int) : Denom → Int :=
  fun d => dust d + (amt pub d - n * amt reward d)

/-- TallyValidityProofs, one item. `panic` = Go run-time panic inside EndBlock (chain halt). -/
def tallyOne (env : Env) (s : St) (u : String) : Res St :=
  match findItem s u with
  | none => .ok s
  | some it =>
    if it.status ≠ .ch then .ok s else
    let proofs := proofsOf s u
    -- `QuoInt64(len(shards))` is evaluated once per key of shardProofCount
    if it.shards = 0 ∧ ¬ (buildSubmitted proofs).isEmpty then .panic .divZero else
    let o := tallyOutcome s.params.rf it proofs env.active (env.assign u)
    let invs := invsOf s u
    let settled : Res St :=
      if o.rejected then
        let s1 := { s with items := setItem s.items { it with status := .rej, ts := s.now } }
        let n : Int := invs.length
        -- no recorded challenger (an item re-imported from a genesis export, which drops the invalidities): nothing is
        -- divided, the publish collateral stays in the module account (fix: abci.go, rejected branch)
        let reward := rewardShare (if n = 0 then [] else it.pubColl) n
        let s2 := invs.foldl (payChallenger (it.invColl ++ reward)) s1
        .ok { s2 with dust := addDust s2.dust it.pubColl reward n }
      else
        let s1 := { s with items := setItem s.items { it with status := .ver, ts := s.now } }
        let (s2, refund) := invs.foldl (settleVerified it.invColl o.safe) (s1, it.pubColl)
        match sendCoins s2.bank daAcc it.publisher refund with
        | .ok b => .ok { s2 with bank := b }
        | _ => .ok s2
    settled.bind fun s3 =>
      .ok { s3 with
        chal := s3.chal + 1,
        faults := o.faulty.foldl incFault s3.faults,
        proofs := s3.proofs.filter (fun x => !(x.uri == u)),
        invs := s3.invs.filter (fun x => !(x.uri == u)) }

def tallyList (env : Env) : List String → St → Res St
  | [], s => .ok s
  | u :: rest, s => (tallyOne env s u).bind (tallyList env rest)

def tally (env : Env) (s : St) : Res St :=
  tallyList env (indexScan s .ch (some (unix (s.now - s.params.pp)))) s

/-! #### slash epoch -/
/-- `slashFaultThreshold.MulInt64(challengeCount).Ceil().TruncateInt()` -/
def slashThreshold (sft : Int) (chal : Nat) : Int := (sft * (chal : Int) + PREC - 1) / PREC

/-- one step of the `IterateFaultCounters` callback: (faults, slashed so far) -/
def slashOne (env : Env) (thr : Int) (acc : (Addr → Option Nat) × List Addr) (v : Addr) : (Addr → Option Nat) × List Addr :=
  match acc.1 v with
  | none => acc
  | some cnt =>
    match env.valInfo v with
    | none => acc                                   -- validator not found: logged, counter kept
    | some (bonded, jailed) =>
      let f := fun a => if a = v then none else acc.1 a   -- deferred DeleteFaultCounter
      if jailed || !bonded then (f, acc.2)
      else if (cnt : Int) ≤ thr then (f, acc.2)
      else (f, acc.2 ++ [v])                        -- Slash + Jail

def slashEpoch (env : Env) (s : St) : St × List Addr :=
  let thr := slashThreshold s.params.sft s.chal
  let r := env.owners.foldl (slashOne env thr) (s.faults, [])
  ({ s with chal := 0, faults := r.1 }, r.2)

/-- EndBlocker at the state's `now`/`height`; output: validators slashed and jailed -/
def endBlock (env : Env) (s : St) : Res (St × List Addr) :=
  let s1 := prune s .rej s.params.rrp
  let s2 := prune s1 .ver s.params.vrp
  let s3 := toChallenging s2
  let s4 := toVerified s3
  (tally env s4).bind fun s5 =>
    if s.params.epoch = 0 then .panic .divZero else
    if Int.tmod s.height s.params.epoch = 0 then .ok (slashEpoch env s5) else .ok (s5, [])

/-- a block: time advances by `dt`, height by one, then the end-blocker runs -/
def block (env : Env) (s : St) (dt : Int) : Res (St × List Addr) :=
  endBlock env { s with now := s.now + dt, height := s.height + 1 }

/-! ### operations and reachability -/
inductive Op
  | publish (sender : Addr) (uri : String) (shards parity : Nat)
  | invalid (sender : Addr) (uri : String) (indices : List Int)
  | proof (sender validator : Addr) (uri : String) (ixs : List (Int × PFlag)) (extra vExists vBonded : Bool)
  | regdep (sender deputy : Addr)
  | unregdep (sender : Addr)
  | setParams (p : Params)
  | block (env : Env) (dt : Int)

/-- message atomicity: a failing message (error or recovered panic) leaves the state unchanged -/
def applyMsg (s : St) (r : Res St) : St × String :=
  match r with
  | .ok s' => (s', "ok")
  | .err _ => (s, "err")
  | .panic _ => (s, "panic")

/-- one operation: new state, outcome class, validators slashed. A panicking end-block halts the chain; the
    model keeps the pre-state and reports `halt`. -/
def step (s : St) : Op → St × String × List Addr
  | .publish a u n p => let r := applyMsg s (publish s a u n p); (r.1, r.2, [])
  | .invalid a u ix => let r := applyMsg s (submitInvalidity s a u ix); (r.1, r.2, [])
  | .proof a v u ixs e x b => let r := applyMsg s (submitProof s a v u ixs e x b); (r.1, r.2, [])
  | .regdep a d => (registerDeputy s a d, "ok", [])
  | .unregdep a => let r := applyMsg s (unregisterDeputy s a); (r.1, r.2, [])
  | .setParams p => let r := applyMsg s (updateParams s p); (r.1, r.2, [])
  | .block env dt =>
    match block env s dt with
    | .ok (s', sl) => (s', "ok", sl)
    | _ => (s, "halt", [])

/-- signers are ordinary accounts: the module account never signs a message -/
def Op.wf : Op → Prop
  | .publish a _ _ _ => a ≠ daAcc
  | .invalid a _ _ => a ≠ daAcc
  | _ => True

/-- genesis: valid params, empty DA stores, empty module account -/
structure Init (s : St) : Prop where
  params : s.params.valid = true
  items : s.items = []
  invs : s.invs = []
  proofs : s.proofs = []
  chal : s.chal = 0
  faults : ∀ a, s.faults a = none
  bal : ∀ d, s.bank.bal daAcc d = 0
  dust : ∀ d, s.dust d = 0

inductive Reachable : St → Prop
  | init {s} : Init s → Reachable s
  | step {s} (op : Op) : Reachable s → op.wf → Reachable (step s op).1

end Sunrise.DA
