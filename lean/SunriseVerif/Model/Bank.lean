import SunriseVerif.Model.Result
/-! Bank: balances `Addr → Denom → Int` and per-denom supply as total functions (function update), which keeps
    conservation proofs at `unfold; split; omega`. Mirrors the x/bank keeper calls the custom modules make:
    send (fails without state change on insufficient funds), mint, burn. Addresses and denoms are strings. -/
namespace Sunrise

abbrev Addr := String
abbrev Denom := String

structure Bank where
  bal : Addr → Denom → Int
  sup : Denom → Int

instance : Inhabited Bank := ⟨⟨fun _ _ => 0, fun _ => 0⟩⟩

namespace Bank

def empty : Bank := ⟨fun _ _ => 0, fun _ => 0⟩

def credit (b : Bank) (a : Addr) (d : Denom) (x : Int) : Bank :=
  { b with bal := fun a' d' => if a' = a ∧ d' = d then b.bal a d + x else b.bal a' d' }

def addSupply (b : Bank) (d : Denom) (x : Int) : Bank :=
  { b with sup := fun d' => if d' = d then b.sup d + x else b.sup d' }

/-- SendCoins of one coin: insufficient funds ⇒ error, no change -/
def send (b : Bank) (src dst : Addr) (d : Denom) (x : Int) : Res Bank :=
  if x < 0 then .err "invalid-coins"
  else if b.bal src d < x then .err "insufficient-funds"
  else .ok ((b.credit src d (-x)).credit dst d x)

def mint (b : Bank) (mod : Addr) (d : Denom) (x : Int) : Res Bank :=
  if x < 0 then .err "invalid-coins"
  else .ok ((b.credit mod d x).addSupply d x)

def burn (b : Bank) (mod : Addr) (d : Denom) (x : Int) : Res Bank :=
  if x < 0 then .err "invalid-coins"
  else if b.bal mod d < x then .err "insufficient-funds"
  else .ok ((b.credit mod d (-x)).addSupply d (-x))

end Bank
end Sunrise

namespace Sunrise.Bank
@[simp] theorem credit_bal (b : Bank) (a a' : Addr) (d d' : Denom) (x : Int) :
    (b.credit a d x).bal a' d' = if a' = a ∧ d' = d then b.bal a d + x else b.bal a' d' := rfl
@[simp] theorem credit_sup (b : Bank) (a : Addr) (d : Denom) (x : Int) : (b.credit a d x).sup = b.sup := rfl
@[simp] theorem addSupply_bal (b : Bank) (d : Denom) (x : Int) : (b.addSupply d x).bal = b.bal := rfl
@[simp] theorem addSupply_sup (b : Bank) (d d' : Denom) (x : Int) :
    (b.addSupply d x).sup d' = if d' = d then b.sup d + x else b.sup d' := rfl

theorem send_ok {b b' : Bank} {s t : Addr} {d : Denom} {x : Int} (h : b.send s t d x = .ok b') :
    0 ≤ x ∧ x ≤ b.bal s d ∧ b' = (b.credit s d (-x)).credit t d x := by
  unfold send at h
  by_cases h1 : x < 0
  · simp [h1] at h
  · by_cases h2 : b.bal s d < x
    · simp [h1, h2] at h
    · simp only [h1, h2, if_false, Res.ok.injEq] at h
      exact ⟨by omega, by omega, h.symm⟩

theorem mint_ok {b b' : Bank} {m : Addr} {d : Denom} {x : Int} (h : b.mint m d x = .ok b') :
    0 ≤ x ∧ b' = (b.credit m d x).addSupply d x := by
  unfold mint at h
  by_cases h1 : x < 0
  · simp [h1] at h
  · simp only [h1, if_false, Res.ok.injEq] at h
    exact ⟨by omega, h.symm⟩

theorem burn_ok {b b' : Bank} {m : Addr} {d : Denom} {x : Int} (h : b.burn m d x = .ok b') :
    0 ≤ x ∧ x ≤ b.bal m d ∧ b' = (b.credit m d (-x)).addSupply d (-x) := by
  unfold burn at h
  by_cases h1 : x < 0
  · simp [h1] at h
  · by_cases h2 : b.bal m d < x
    · simp [h1, h2] at h
    · simp only [h1, h2, if_false, Res.ok.injEq] at h
      exact ⟨by omega, by omega, h.symm⟩

theorem bind_ok {α β} {r : Res α} {f : α → Res β} {y : β} (h : r.bind f = .ok y) : ∃ a, r = .ok a ∧ f a = .ok y := by
  cases r with
  | ok a => exact ⟨a, rfl, h⟩
  | err c => simp [Res.bind] at h
  | panic k => simp [Res.bind] at h
end Sunrise.Bank
