import SunriseVerif.Model.Bank
import SunriseVerif.Model.Dec
import SunriseVerif.Gen.KernelsSwap
/-!
  x/swap: route trees, `Route.Validate`, `Route.InspectRoute`, the exact-in / exact-out swap keepers, the
  message handlers and the quote queries (C03).  Follows x/swap/types/route.go and
  x/swap/keeper/{keeper_swap_exact_amount_in,keeper_swap_exact_amount_out,msg_server_swap_exact_amount_*,query_calculations}.go
  of the FIXED tree (parallel remainder accumulates, exact-out series results in route order, pool reuse is an error).

  Boundary: the liquidity-pool keeper.  A pool is an abstract deterministic machine (`PoolSpec`): a quote function
  (`CalculateResultExactAmountIn/Out`, read-only) and a swap function (`SwapExactAmountIn/Out`: result + new pool
  state, or an error).  The bank movements of `updatePoolForSwap` are modelled here through `Bank`: the sender pays the
  input amount to the pool (pool address and fee address are one account `pool:<id>` in the model), the pool pays the
  output amount to the sender.  Assumed of the pool and written as hypotheses where a theorem needs it: a successful
  exact-in swap consumes exactly the amount it was given, a successful exact-out swap pays exactly the amount asked.

  `sdk.NewCoin` panics on a negative amount: the pool callbacks panic on a negative exact amount (that is where the
  first `NewCoin` of every path sits); `generateResult…` is kept pure because its arguments are the exact amount
  (already checked by the callback of the first leaf) and a pool result.
-/
namespace Sunrise.Route
open Sunrise

structure Coin where
  denom : Denom
  amount : Int
deriving DecidableEq, Repr, Inhabited

/-- `types.Route`: oneof strategy = pool | series | parallel | (nil) -/
inductive Route where
  | pool (din dout : Denom) (id : Nat)
  | series (din dout : Denom) (rs : List Route)
  | parallel (din dout : Denom) (rs : List Route) (ws : List String)
  | nil (din dout : Denom)
deriving Repr, Inhabited

/-- `types.RouteResult` -/
inductive RResult where
  | pool (tin tout : Coin) (id : Nat)
  | series (tin tout : Coin) (rs : List RResult)
  | parallel (tin tout : Coin) (rs : List RResult)
  | none
deriving Repr, Inhabited

def Route.din : Route → Denom
  | .pool a _ _ | .series a _ _ | .parallel a _ _ _ | .nil a _ => a
def Route.dout : Route → Denom
  | .pool _ b _ | .series _ b _ | .parallel _ b _ _ | .nil _ b => b

def RResult.tin : RResult → Coin
  | .pool a _ _ | .series a _ _ | .parallel a _ _ => a
  | .none => ⟨"", 0⟩
def RResult.tout : RResult → Coin
  | .pool _ b _ | .series _ b _ | .parallel _ b _ => b
  | .none => ⟨"", 0⟩

mutual
def Route.poolIds : Route → List Nat
  | .pool _ _ id => [id]
  | .series _ _ rs => poolIdsL rs
  | .parallel _ _ rs _ => poolIdsL rs
  | .nil _ _ => []
def poolIdsL : List Route → List Nat
  | [] => []
  | r :: rs => r.poolIds ++ poolIdsL rs
end

/-! ### Validate -/

/-- `LegacyNewDecFromStr(w)` succeeds and the weight is positive (route.go:78-87) -/
def weightOk (w : String) : Bool :=
  match Dec.ofString? w with
  | some d => d.isPositive
  | none => false

mutual
/-- `validateRecursive`: true = nil error -/
def validateRec : Route → Bool
  | .pool _ _ _ => true
  | .series din dout rs => !rs.isEmpty && validateSeries din dout rs
  | .parallel din dout rs ws => !rs.isEmpty && (rs.length == ws.length) && validatePar din dout rs ws
  | .nil _ _ => false
/-- the loop of the series case: `cur` is the running `denomIn` -/
def validateSeries (cur dout : Denom) : List Route → Bool
  | [] => cur == dout
  | r :: rs => validateRec r && (r.din == cur) && validateSeries r.dout dout rs
def validatePar (din dout : Denom) : List Route → List String → Bool
  | [], _ => true
  | _ :: _, [] => false
  | r :: rs, w :: ws => validateRec r && (r.din == din) && (r.dout == dout) && weightOk w && validatePar din dout rs ws
end

mutual
/-- `mustNotReusePool` (fixed: returns an error): threads the set of seen pool ids; `none` = reused -/
def reuseCheck : Route → List Nat → Option (List Nat)
  | .pool _ _ id, seen => if id ∈ seen then none else some (id :: seen)
  | .series _ _ rs, seen => reuseCheckL rs seen
  | .parallel _ _ rs _, seen => reuseCheckL rs seen
  | .nil _ _, seen => some seen
def reuseCheckL : List Route → List Nat → Option (List Nat)
  | [], seen => some seen
  | r :: rs, seen => match reuseCheck r seen with
    | none => none
    | some seen' => reuseCheckL rs seen'
end

/-- `Route.Validate` -/
def validate (r : Route) : Bool := validateRec r && (reuseCheck r []).isSome

/-! ### the parallel split (route.go:193-218) -/

def parseWeights : List String → Option (List Dec)
  | [] => some []
  | w :: ws => match Dec.ofString? w, parseWeights ws with
    | some d, some ds => some (d :: ds)
    | _, _ => none

def weightSum (ws : List Dec) : Dec := ⟨(ws.map Dec.raw).sum⟩

/-- `weight.MulInt(amountExact).Quo(weightSum).TruncateInt()` — the expression REGENERATED from route.go by svx -/
def share (w W : Dec) (a : Int) : Int := Sunrise.Gen.KernelsSwap.split_share w a W

/-- the shares of all weights but the last -/
def shares (W : Dec) (a : Int) : List Dec → List Int
  | [] => []
  | [_] => []
  | w :: w' :: ws => share w W a :: shares W a (w' :: ws)

/-- `amountsExact`: weighted shares, the last branch takes the remainder.
    Go panics: `Weights[:length-1]` on an empty slice; `Quo` by a zero weight sum (only evaluated for ≥ 2 weights). -/
def split (ws : List Dec) (a : Int) : Res (List Int) :=
  if ws.length = 0 then .panic .indexRange
  else if ws.length ≥ 2 ∧ Sunrise.Gen.KernelsSwap.split_share_ok Dec.zero a (weightSum ws) = false then .panic .divZero
  else
    let sh := shares (weightSum ws) a ws
    .ok (sh ++ [a - sh.sum])

/-! ### InspectRoute -/

section inspect
variable {σ : Type}
  (f : Denom → Denom → Nat → Int → σ → Res (Int × σ))   -- inspectRoutePool (side effects on the context = σ)
  (gen : Denom → Denom → Int → Int → Coin × Coin)        -- generateResult
  (rev : Bool)

mutual
def inspect : Route → Int → σ → Res (Int × RResult × σ)
  | .pool din dout id, a, s =>
    (f din dout id a s).bind fun (res, s') =>
      let (ti, to) := gen din dout a res
      .ok (res, .pool ti to id, s')
  | .series din dout rs, a, s =>
    (if rev then inspectSeriesB rs a s else inspectSeriesF rs a s).bind fun (res, rrs, s') =>
      let (ti, to) := gen din dout a res
      .ok (res, .series ti to rrs, s')
  | .parallel din dout rs ws, a, s =>
    match parseWeights ws with
    | none => .err "bad-weight"
    | some ds =>
      -- `amountsExact := make([]Int, len(routes))` indexed by the weights: lengths must agree (Validate checks it);
      -- otherwise the Go code indexes out of range or passes a nil Int down
      if ds.length ≠ rs.length then (if ds.length = 0 then .panic .indexRange else if ds.length > rs.length then .panic .indexRange else .panic .nilDeref)
      else
      (split ds a).bind fun amounts =>
      (inspectPar rs amounts s).bind fun (res, rrs, s') =>
        let (ti, to) := gen din dout a res
        .ok (res, .parallel ti to rrs, s')
  | .nil _ _, _, _ => .err "unknown-strategy"
/-- series, forward: the result of hop i is the exact amount of hop i+1 -/
def inspectSeriesF : List Route → Int → σ → Res (Int × List RResult × σ)
  | [], a, s => .ok (a, [], s)
  | r :: rs, a, s =>
    (inspect r a s).bind fun (x, rr, s1) =>
    (inspectSeriesF rs x s1).bind fun (y, rrs, s2) =>
      .ok (y, rr :: rrs, s2)
/-- series, reverse (exact output): the last hop is inspected first; results are kept in route order -/
def inspectSeriesB : List Route → Int → σ → Res (Int × List RResult × σ)
  | [], a, s => .ok (a, [], s)
  | r :: rs, a, s =>
    (inspectSeriesB rs a s).bind fun (x, rrs, s1) =>
    (inspect r x s1).bind fun (y, rr, s2) =>
      .ok (y, rr :: rrs, s2)
/-- parallel: branch i gets `amounts[i]`; results are summed -/
def inspectPar : List Route → List Int → σ → Res (Int × List RResult × σ)
  | [], _, s => .ok (0, [], s)
  | _ :: _, [], _ => .panic .indexRange
  | r :: rs, a :: as, s =>
    (inspect r a s).bind fun (x, rr, s1) =>
    (inspectPar rs as s1).bind fun (y, rrs, s2) =>
      .ok (x + y, rr :: rrs, s2)
end
end inspect

def genIn (din dout : Denom) (exact result : Int) : Coin × Coin := (⟨din, exact⟩, ⟨dout, result⟩)
def genOut (din dout : Denom) (exact result : Int) : Coin × Coin := (⟨din, result⟩, ⟨dout, exact⟩)

/-! ### pools and the world -/

/-- abstract pool: quote and swap, both directions. Arguments: state, denomIn, denomOut, exact amount. -/
structure PoolSpec (PS : Type) where
  calcIn : PS → Denom → Denom → Int → Res Int
  swapIn : PS → Denom → Denom → Int → Res (Int × PS)
  calcOut : PS → Denom → Denom → Int → Res Int
  swapOut : PS → Denom → Denom → Int → Res (Int × PS)

structure World (PS : Type) where
  bank : Bank
  pools : Nat → Option PS

def poolAddr (id : Nat) : Addr := "pool:" ++ toString id

section keeper
variable {PS : Type} (M : PoolSpec PS)

def setPool (w : World PS) (id : Nat) (ps : PS) (b : Bank) : World PS :=
  { bank := b, pools := fun i => if i = id then some ps else w.pools i }

/-- `calculateResultRoutePoolExactAmountIn` on a fixed world (read-only) -/
def calcPoolIn (w : World PS) (din dout : Denom) (id : Nat) (a : Int) (_ : Unit) : Res (Int × Unit) :=
  match w.pools id with
  | none => .err "pool-not-found"
  | some ps => if a < 0 then .panic .explicit else (M.calcIn ps din dout a).bind fun out => .ok (out, ())

def calcPoolOut (w : World PS) (din dout : Denom) (id : Nat) (a : Int) (_ : Unit) : Res (Int × Unit) :=
  match w.pools id with
  | none => .err "pool-not-found"
  | some ps => if a < 0 then .panic .explicit else (M.calcOut ps din dout a).bind fun ain => .ok (ain, ())

/-- `swapRoutePoolExactAmountIn` + `updatePoolForSwap`: sender pays `a` of `din`, receives `out` of `dout` -/
def swapPoolIn (sender : Addr) (din dout : Denom) (id : Nat) (a : Int) (w : World PS) : Res (Int × World PS) :=
  match w.pools id with
  | none => .err "pool-not-found"
  | some ps => if a < 0 then .panic .explicit else
    (M.swapIn ps din dout a).bind fun (out, ps') =>
    (w.bank.send sender (poolAddr id) din a).bind fun b1 =>
    (b1.send (poolAddr id) sender dout out).bind fun b2 =>
      .ok (out, setPool w id ps' b2)

/-- `swapRoutePoolExactAmountOut` + `updatePoolForSwap`: sender receives `a` of `dout`, pays `ain` of `din` -/
def swapPoolOut (sender : Addr) (din dout : Denom) (id : Nat) (a : Int) (w : World PS) : Res (Int × World PS) :=
  match w.pools id with
  | none => .err "pool-not-found"
  | some ps => if a < 0 then .panic .explicit else
    (M.swapOut ps din dout a).bind fun (ain, ps') =>
    (w.bank.send sender (poolAddr id) din ain).bind fun b1 =>
    (b1.send (poolAddr id) sender dout a).bind fun b2 =>
      .ok (ain, setPool w id ps' b2)

/-- `calculateResultRouteExactAmountIn` -/
def calcRouteIn (r : Route) (a : Int) (w : World PS) : Res RResult :=
  (inspect (calcPoolIn M w) genIn false r a ()).bind fun (_, rr, _) => .ok rr

/-- `swapRouteExactAmountIn` -/
def swapRouteIn (sender : Addr) (r : Route) (a : Int) (w : World PS) : Res (RResult × World PS) :=
  (inspect (swapPoolIn M sender) genIn false r a w).bind fun (_, rr, w') => .ok (rr, w')

/-- `calculateResultRouteExactAmountOut` -/
def calcRouteOut (r : Route) (a : Int) (w : World PS) : Res RResult :=
  (inspect (calcPoolOut M w) genOut true r a ()).bind fun (_, rr, _) => .ok rr

mutual
/-- `swapRouteExactAmountOut`: executes a pre-computed result tree, cross-checking every hop -/
def execOut (sender : Addr) : RResult → World PS → Res (World PS)
  | .pool tin tout id, w =>
    (swapPoolOut M sender tin.denom tout.denom id tout.amount w).bind fun (ain, w') =>
      if ain ≠ tin.amount then .err "amount-in-mismatch" else .ok w'
  | .series _ _ rs, w => execOutL sender rs w
  | .parallel _ _ rs, w => execOutL sender rs w
  | .none, _ => .err "unknown-strategy"
def execOutL (sender : Addr) : List RResult → World PS → Res (World PS)
  | [], w => .ok w
  | r :: rs, w => (execOut sender r w).bind fun w1 => execOutL sender rs w1
end

open Sunrise.Gen.KernelsSwap

/-- `calculateInterfaceFeeExactAmountIn` → (amountOutNet, interfaceFee) -/
def feeIn (has : Bool) (rate : Dec) (gross : Int) : Int × Int :=
  if !has then (gross, 0) else
  let net := feeIn_amountOutNet gross rate
  (net, feeIn_interfaceFee gross net)

/-- `calculateInterfaceFeeExactAmountOut` → (amountOutGross, interfaceFee); `Quo` by zero panics (rate = 1) -/
def feeOut (has : Bool) (rate : Dec) (net : Int) : Res (Int × Int) :=
  if !has then .ok (net, 0) else
  if !feeOut_amountOutGross_ok net rate then .panic .divZero else
  let gross := feeOut_amountOutGross net rate
  .ok (gross, feeOut_interfaceFee gross net)

/-- send of the interface fee: `if fee.IsPositive() { SendCoins }`; `sdk.NewCoin` panics on a negative fee -/
def payFee (b : Bank) (sender : Addr) (prov : Option Addr) (d : Denom) (fee : Int) : Res Bank :=
  match prov with
  | none => .ok b
  | some p => if fee < 0 then .panic .explicit else if fee > 0 then b.send sender p d fee else .ok b

/-- keeper `SwapExactAmountIn` → (result, interfaceFee, world) -/
def keeperSwapIn (rate : Dec) (sender : Addr) (prov : Option Addr) (r : Route) (a minOut : Int) (w : World PS) :
    Res (RResult × Int × World PS) :=
  (swapRouteIn M sender r a w).bind fun (rr, w1) =>
    let (net, fee) := feeIn prov.isSome rate rr.tout.amount
    if net < minOut then .err "lower-than-min-out" else
    (payFee w1.bank sender prov rr.tout.denom fee).bind fun b2 =>
      .ok (rr, fee, { w1 with bank := b2 })

/-- keeper `CalculateResultExactAmountOut` -/
def keeperCalcOut (rate : Dec) (has : Bool) (r : Route) (a : Int) (w : World PS) : Res (RResult × Int) :=
  (feeOut has rate a).bind fun (gross, fee) =>
  (calcRouteOut M r gross w).bind fun rr => .ok (rr, fee)

/-- keeper `SwapExactAmountOut` -/
def keeperSwapOut (rate : Dec) (sender : Addr) (prov : Option Addr) (r : Route) (maxIn a : Int) (w : World PS) :
    Res (RResult × Int × World PS) :=
  (keeperCalcOut M rate prov.isSome r a w).bind fun (rr, fee) =>
  (execOut M sender rr w).bind fun w1 =>
    if rr.tin.amount > maxIn then .err "higher-than-max-in" else
    (payFee w1.bank sender prov rr.tout.denom fee).bind fun b2 =>
      .ok (rr, fee, { w1 with bank := b2 })

/-- response of both messages: (result, interface_provider_fee, amount_out = result.token_out − fee) -/
structure Resp where
  result : RResult
  fee : Int
  amountOut : Int

/-- Msg/SwapExactAmountIn: static validation, keeper call; a failing message changes nothing (tx atomicity) -/
def msgSwapIn (rate : Dec) (sender : Addr) (prov : Option Addr) (r : Route) (a minOut : Int) (w : World PS) :
    Res Resp × World PS :=
  if !validate r then (.err "invalid-route", w)
  else if a ≤ 0 then (.err "invalid-amount", w)
  else if minOut ≤ 0 then (.err "invalid-amount", w)
  else match keeperSwapIn M rate sender prov r a minOut w with
    | .ok (rr, fee, w') => (.ok ⟨rr, fee, rr.tout.amount - fee⟩, w')
    | .err c => (.err c, w)
    | .panic k => (.panic k, w)

/-- Msg/SwapExactAmountOut -/
def msgSwapOut (rate : Dec) (sender : Addr) (prov : Option Addr) (r : Route) (maxIn a : Int) (w : World PS) :
    Res Resp × World PS :=
  if !validate r then (.err "invalid-route", w)
  else if maxIn ≤ 0 then (.err "invalid-amount", w)
  else if a ≤ 0 then (.err "invalid-amount", w)
  else match keeperSwapOut M rate sender prov r maxIn a w with
    | .ok (rr, fee, w') => (.ok ⟨rr, fee, rr.tout.amount - fee⟩, w')
    | .err c => (.err c, w)
    | .panic k => (.panic k, w)

/-- Query/CalculationSwapExactAmountIn → (result, fee, amount_out). As fixed, the query validates the route
    (Route.Validate, incl. pool reuse) and rejects a non-positive amount before quoting. -/
def queryIn (rate : Dec) (has : Bool) (r : Route) (a : Int) (w : World PS) : Res Resp :=
  if !validate r then .err "invalid-route" else if a ≤ 0 then .err "invalid-amount" else
  (calcRouteIn M r a w).bind fun rr =>
    let (_, fee) := feeIn has rate rr.tout.amount
    .ok ⟨rr, fee, rr.tout.amount - fee⟩

/-- Query/CalculationSwapExactAmountOut → (result, fee, amount_in) -/
def queryOut (rate : Dec) (has : Bool) (r : Route) (a : Int) (w : World PS) : Res (RResult × Int × Int) :=
  if !validate r then .err "invalid-route" else if a ≤ 0 then .err "invalid-amount" else
  (keeperCalcOut M rate has r a w).bind fun (rr, fee) => .ok (rr, fee, rr.tin.amount)

end keeper
end Sunrise.Route
