import SunriseVerif.Model.Result
/-!
C15 — untrusted inputs. Executable, core-only model of

* `x/swap/types/ibc.go`   `DecodeSwapMetadata`, `SwapMetadata.Validate`, `ForwardMetadata.Validate`
* `x/swap/types/route.go` `Route.Validate` (`validateRecursive`, `mustNotReusePool`, the recover block)
* jsonpb's structural behaviour for the `PacketMetadata` schema (library boundary: returns a value or an error)
* the static heads of the Msg / Query handlers of the custom modules (everything a handler does with message
  fields before its first store access), over message ADTs whose optional / custom-type fields are `Option`s.

Every Go hazard is explicit: a failed type assertion, a nil dereference, an index out of range, a division by zero
are `Res.panic` with their own kind and are never defaulted.  The model follows the code AS FIXED by the `fix:` commits
of this property (each guard that a fix added is marked `-- FIX`), except `Route.validate`'s pool-reuse signalling
(route.go, fixed by the C03 engineer: modelled as fixed, reuse ⇒ error) whose remaining hazard — a strategy wrapper
with a nil payload — is modelled as the code is (nil dereference).
-/
namespace Sunrise.Untrusted
open Sunrise

/-! ## abstract JSON (first-order encoding: arrays and objects are cons-lists inside the same type, so every
    function below is plain structural recursion and every statement quantifies over a superset of JSON) -/
inductive J where
  | null
  | bool (b : Bool)
  | num (lit : String)
  | str (s : String)
  | anil
  | acons (hd : J) (tl : J)
  | onil
  | ocons (k : String) (v : J) (tl : J)
deriving Repr, Inhabited

namespace J
def isObj : J → Bool | onil => true | ocons .. => true | _ => false
def isArr : J → Bool | anil => true | acons .. => true | _ => false
def isNull : J → Bool | null => true | _ => false

/-- Go map semantics of `encoding/json`: the LAST occurrence of a key wins; absent ⇒ `none` -/
def get : J → String → Option J
  | ocons k v tl, key => match get tl key with
      | some x => some x
      | none => if k = key then some v else none
  | _, _ => none

/-- `m[key] != nil` for a `map[string]interface{}` produced by encoding/json: present and not JSON null -/
def getNonNil (o : J) (key : String) : Option J :=
  match o.get key with
  | some v => if v.isNull then none else some v
  | none => none

/-- all keys of an object -/
def keys : J → List String
  | ocons k _ tl => k :: keys tl
  | _ => []

/-- elements of an array -/
def elems : J → List J
  | acons h tl => h :: elems tl
  | _ => []
end J

/-! ## message values (nil-ness explicit) -/

/-- `Route` (route.pb.go). A oneof wrapper whose payload pointer is nil is a distinct constructor. -/
inductive Route where
  | unknown (din dout : String)                                        -- Strategy == nil
  | pool (din dout : String) (id : Nat)                                -- &Route_Pool{Pool: &RoutePool{id}}
  | poolNil (din dout : String)                                        -- &Route_Pool{Pool: nil}
  | series (din dout : String) (rs : List Route)                       -- &Route_Series{&RouteSeries{rs}}
  | seriesNil (din dout : String)                                      -- &Route_Series{Series: nil}
  | parallel (din dout : String) (rs : List Route) (ws : List String)  -- &Route_Parallel{&RouteParallel{rs, ws}}
  | parallelNil (din dout : String)
deriving Repr, Inhabited

namespace Route
def denomIn : Route → String
  | unknown a _ | pool a _ _ | poolNil a _ | series a _ _ | seriesNil a _ | parallel a _ _ _ | parallelNil a _ => a
def denomOut : Route → String
  | unknown _ b | pool _ b _ | poolNil _ b | series _ b _ | seriesNil _ b | parallel _ b _ _ | parallelNil _ b => b
end Route

structure Forward where
  receiver : String := ""
  port : String := ""
  channel : String := ""
  next : String := ""
deriving Repr, Inhabited

/-- `isSwapMetadata_AmountStrategy`; inner `Option`s: nil `*ExactAmountIn` / nil `math.Int` (absent custom-type field) -/
inductive AmountStrategy where
  | none
  | exactIn (p : Option (Option Int))                        -- wrapper, *ExactAmountIn, MinAmountOut
  | exactOut (p : Option (Option Int × Option Forward))      -- wrapper, *ExactAmountOut, (AmountOut, Change)
deriving Repr, Inhabited

structure SwapMeta where
  provider : String := ""
  route : Option Route := none
  strategy : AmountStrategy := .none
  forward : Option Forward := none
deriving Repr, Inhabited

structure PacketMeta where
  swap : Option SwapMeta := none
deriving Repr, Inhabited

/-! ## scalar leaves (plain forms; see harness `modelled`) -/

/-- string helpers over `List Char` (independent of the String/Slice API) -/
def sdrop (s : String) (n : Nat) : String := String.ofList (s.toList.drop n)
def sdropRight (s : String) (n : Nat) : String := String.ofList (s.toList.take (s.toList.length - n))
def shead (s : String) (c : Char) : Bool := s.toList.head? = some c
def ssplitDot (s : String) : List String :=
  (s.toList.foldr (fun c (acc : List (List Char)) =>
    if c = '.' then [] :: acc else match acc with | [] => [[c]] | h :: t => (c :: h) :: t) [[]]).map String.ofList
def sendsWith (s suf : String) : Bool := s.toList.reverse.take suf.toList.length = suf.toList.reverse

def allDigits (s : String) : Bool := !s.toList.isEmpty && s.toList.all Char.isDigit
def digitsToNat (s : String) : Nat := s.toList.foldl (fun acc c => acc * 10 + (c.toNat - '0'.toNat)) 0

/-- canonical decimal natural: "0" or no leading zero -/
def plainNat? (s : String) : Option Nat :=
  if allDigits s && (s = "0" || !shead s '0') then some (digitsToNat s) else none

/-- `[+-]?` canonical natural, as `big.Int.UnmarshalText` reads the plain forms -/
def plainInt? (s : String) : Option Int :=
  if shead s '-' then (plainNat? (sdrop s 1)).map fun n => -(n : Int)
  else if shead s '+' then (plainNat? (sdrop s 1)).map fun n => (n : Int)
  else (plainNat? s).map fun n => (n : Int)

/-- big.Int.SetString(s, 10): optional sign, then at least one decimal digit (leading zeros allowed) -/
def bigBase10? (s : String) : Option Int :=
  let body := if shead s '-' || shead s '+' then sdrop s 1 else s
  if allDigits body then
    let n := digitsToNat body
    some (if shead s '-' then -(n : Int) else (n : Int))
  else none

def repeatZeros : Nat → String
  | 0 => ""
  | n + 1 => "0" ++ repeatZeros n

/-- `math.LegacyNewDecFromStr` read line by line; value scaled by 10^18 -/
def legacyDecFromStr (str0 : String) : Option Int :=
  let neg := shead str0 '-'
  let str := if neg then sdrop str0 1 else str0
  if str.toList.isEmpty then none else
  let strs := ssplitDot str
  match strs with
  | [whole] =>
    match bigBase10? (whole ++ repeatZeros 18) with
    | some c => let v := if neg then -c else c
                if v.natAbs < 2 ^ 256 * 10 ^ 18 then some v else none
    | none => none
  | [whole, frac] =>
    if frac.toList.length = 0 || whole.toList.length = 0 then none
    else if frac.toList.length > 18 then none
    else match bigBase10? (whole ++ frac ++ repeatZeros (18 - frac.toList.length)) with
      | some c => let v := if neg then -c else c
                  if v.natAbs < 2 ^ 256 * 10 ^ 18 then some v else none
      | none => none
  | _ => none

/-! ## Route.Validate (route.go) -/

mutual
/-- `validateRecursive` -/
def validateRec : Route → Res Unit
  | .unknown _ _ => .err "unknown strategy type"
  | .pool _ _ _ => .ok ()
  | .poolNil _ _ => .err "nil pool"             -- FIX: a strategy wrapper without payload is rejected
  | .seriesNil _ _ => .err "nil series"         -- FIX (was: `series.Routes` on a nil *RouteSeries)
  | .series din dout rs =>
    if rs.isEmpty then .err "empty series" else seriesLoop din dout rs
  | .parallelNil _ _ => .err "nil parallel"     -- FIX
  | .parallel din dout rs ws =>
    if rs.isEmpty then .err "empty parallel"
    else if rs.length ≠ ws.length then .err "mismatched length of parallel routes and weights"
    else parallelLoop din dout rs ws
/-- the series loop: `denomIn` is threaded through the hops -/
def seriesLoop (cur dout : String) : List Route → Res Unit
  | [] => if cur = dout then .ok () else .err "denom out mismatch"
  | r :: rest =>
    match validateRec r with
    | .ok _ => if r.denomIn ≠ cur then .err "invalid denom in" else seriesLoop r.denomOut dout rest
    | .err e => .err e
    | .panic k => .panic k
/-- the parallel loop; `parallel.Weights[i]` is in range because the lengths were compared (kept explicit) -/
def parallelLoop (din dout : String) : List Route → List String → Res Unit
  | [], _ => .ok ()
  | _ :: _, [] => .panic .indexRange
  | r :: rest, w :: ws =>
    match validateRec r with
    | .ok _ =>
      if r.denomIn ≠ din then .err "invalid denom in"
      else if r.denomOut ≠ dout then .err "invalid denom out"
      else match legacyDecFromStr w with
        | none => .err "invalid weight"
        | some v => if v ≤ 0 then .err "non-positive weight" else parallelLoop din dout rest ws
    | .err e => .err e
    | .panic k => .panic k
end

mutual
/-- `mustNotReusePool` AS FIXED in route.go (reuse ⇒ error instead of `panic(string)`); the visited set is threaded -/
def reuse (seen : List Nat) : Route → Res (List Nat)
  | .unknown _ _ => .ok seen
  | .pool _ _ id => if seen.contains id then .err "reused pool" else .ok (id :: seen)
  | .poolNil _ _ => .panic .nilDeref             -- `strategy.Pool.PoolId`
  | .seriesNil _ _ => .panic .nilDeref
  | .series _ _ rs => reuseList seen rs
  | .parallelNil _ _ => .panic .nilDeref
  | .parallel _ _ rs _ => reuseList seen rs
def reuseList (seen : List Nat) : List Route → Res (List Nat)
  | [] => .ok seen
  | r :: rest =>
    match reuse seen r with
    | .ok s => reuseList s rest
    | .err e => .err e
    | .panic k => .panic k
end

/-- the `defer func(){ if r := recover(); r != nil { … panic(wrapped) } }()` block: a panic below is re-raised -/
def recoverBlock {α} : Res α → Res α
  | .panic _ => .panic .explicit
  | r => r

/-- sdk.ValidateDenom: [a-zA-Z][a-zA-Z0-9/:._-]{2,127} -/
def validDenom (d : String) : Bool :=
  let cs := d.toList
  match cs with
  | [] => false
  | c :: rest =>
    c.isAlpha && cs.length ≥ 3 && cs.length ≤ 128 &&
    rest.all fun x => x.isAlphanum || x == '/' || x == ':' || x == '.' || x == '_' || x == '-'

mutual
/-- FIX: every node's denom_in / denom_out must be a valid SDK denom (they end up in sdk.NewCoin). The code checks them
    node by node inside validateRecursive; since nothing in there can panic any more, checking them in a pre-pass gives
    the same outcome class. -/
def denomsValid : Route → Bool
  | .unknown a b => validDenom a && validDenom b
  | .pool a b _ => validDenom a && validDenom b
  | .poolNil a b => validDenom a && validDenom b
  | .seriesNil a b => validDenom a && validDenom b
  | .series a b rs => validDenom a && validDenom b && denomsValidList rs
  | .parallelNil a b => validDenom a && validDenom b
  | .parallel a b rs _ => validDenom a && validDenom b && denomsValidList rs
def denomsValidList : List Route → Bool
  | [] => true
  | r :: rest => denomsValid r && denomsValidList rest
end

/-- `(*Route).Validate` AS FIXED: a nil receiver and invalid denoms are errors -/
def Route.validate : Option Route → Res Unit
  | none => .err "nil route"
  | some r =>
    if !denomsValid r then .err "invalid denom" else
    match validateRec r with
    | .ok _ => match recoverBlock (reuse [] r) with
      | .ok _ => .ok ()
      | .err e => .err e
      | .panic k => .panic k
    | .err e => .err e
    | .panic k => .panic k

mutual
/-- ibc.go `hasNilStrategy` (FIX) -/
def hasNilStrategy : Route → Bool
  | .unknown _ _ => false
  | .pool _ _ _ => false
  | .poolNil _ _ => true
  | .seriesNil _ _ => true
  | .series _ _ rs => hasNilStrategyList rs
  | .parallelNil _ _ => true
  | .parallel _ _ rs _ => hasNilStrategyList rs
def hasNilStrategyList : List Route → Bool
  | [] => false
  | r :: rest => hasNilStrategy r || hasNilStrategyList rest
end

/-! ## ForwardMetadata.Validate / SwapMetadata.Validate (ibc.go) -/

def identChar (c : Char) : Bool :=
  c.isAlphanum || c = '.' || c = '_' || c = '+' || c = '-' || c = '#' || c = '[' || c = ']' || c = '<' || c = '>'

/-- ibc-go 24-host `defaultIdentifierValidator` -/
def validIdent (min max : Nat) (s : String) : Bool :=
  !s.toList.isEmpty && !s.toList.contains '/' && min ≤ s.utf8ByteSize && s.utf8ByteSize ≤ max && s.toList.all identChar

def Forward.validate (f : Forward) : Res Unit :=
  if f.receiver = "" then .err "receiver cannot be empty"
  else if !validIdent 2 128 f.port then .err "invalid port"
  else if !validIdent 8 64 f.channel then .err "invalid channel"
  else .ok ()

/-- `Int.IsPositive()` on a possibly nil `math.Int` -/
def intIsPositive : Option Int → Res Bool
  | none => .panic .nilDeref
  | some v => .ok (decide (v > 0))

/-- sequencing of two validation steps (`if err := a(); err != nil { return err }; b()`) -/
def seqRes (a b : Res Unit) : Res Unit :=
  match a with | .ok _ => b | .err e => .err e | .panic k => .panic k

/-- the `switch amountStrategy := m.AmountStrategy.(type)` of SwapMetadata.Validate -/
def validateStrategy : AmountStrategy → Res Unit
  | .exactIn none => .err "min amount out cannot be empty"             -- FIX (nil *ExactAmountIn: `"exact_amount_in": null`)
  | .exactIn (some none) => .err "min amount out cannot be empty"      -- FIX (nil math.Int: absent min_amount_out)
  | .exactIn (some (some v)) =>                                        -- `IsPositive()` on a non-nil Int
    if v > 0 then .ok () else .err "min amount out must be positive"
  | .exactOut none => .err "amount out cannot be empty"                -- FIX
  | .exactOut (some (none, _)) => .err "amount out cannot be empty"    -- FIX
  | .exactOut (some (some v, change)) =>
    if v ≤ 0 then .err "amount out must be positive"                   -- FIX
    else match change with
      | none => .ok ()
      | some c => c.validate
  | .none => .err "amount strategy cannot be empty"                    -- FIX (SwapIncomingFund dereferences the empty result)

def SwapMeta.validate (m : SwapMeta) : Res Unit :=
  match m.route with
  | none => .err "route cannot be empty"                                   -- FIX (was: nil receiver dereference)
  | some r =>
    if hasNilStrategy r then .err "route strategy cannot be null" else     -- FIX (jsonpb `"pool": null`)
    seqRes (Route.validate (some r)) <|
    seqRes (validateStrategy m.strategy) <|
    match m.forward with
    | none => .ok ()
    | some f => f.validate

/-! ## jsonpb for the PacketMetadata schema (library boundary: value or error, never a panic — tested, not proved) -/

abbrev Pb := Except String

/-- a message value must be a JSON object; `none` = JSON null -/
def asMsg (j : J) : Pb (Option J) :=
  if j.isNull then pure none else if j.isObj then pure (some j) else throw "not an object"

/-- jsonpb `consumeField`: both names accepted, camelCase preferred -/
def field (o : J) (orig camel : String) : Option J :=
  match o.get camel with
  | some v => some v
  | none => o.get orig

def pbString (j : Option J) : Pb String :=
  match j with
  | none => pure ""
  | some .null => pure ""
  | some (.str s) => pure s
  | some _ => throw "not a string"

def trimSpaces (s : String) : String :=
  String.ofList ((s.toList.dropWhile (· = ' ')).reverse.dropWhile (· = ' ')).reverse

def pbUint (max : Nat) (j : Option J) : Pb Nat :=
  match j with
  | none => pure 0
  | some .null => pure 0
  | some (.num lit) =>
    match plainNat? lit with
    | some n => if n ≤ max then pure n else throw "out of range"
    | none => throw "not an unsigned integer"
  | some (.str s) =>
    let t := trimSpaces s
    if t = "null" then pure 0 else
    match plainNat? t with
    | some n => if n ≤ max then pure n else throw "out of range"
    | none => throw "not an unsigned integer"
  | some _ => throw "not a number"

/-- customtype `math.Int`: `Int.UnmarshalJSON` (a JSON string holding a base-10 integer below 2^256) -/
def pbInt (j : J) : Pb Int :=
  match j with
  | .str s => match plainInt? s with
    | some v => if v.natAbs < 2 ^ 256 then pure v else throw "integer out of range"
    | none => throw "cannot unmarshal into big.Int"
  | _ => throw "cannot unmarshal into big.Int"

def durUnits : List String := ["ns", "us", "ms", "s", "m", "h"]

def pbDuration (j : Option J) : Pb Unit :=
  match j with
  | none => pure ()
  | some (.str s) =>
    if durUnits.any (fun u => sendsWith s u && (plainNat? (sdropRight s u.toList.length)).isSome) then pure () else throw "bad Duration"
  | some _ => throw "bad Duration"

def unknownKeys (o : J) (known : List String) : Pb Unit :=
  if o.keys.all (known.contains ·) then pure () else throw "unknown field"

def pbForward (j : J) (dropNext : Bool) : Pb (Option Forward) := do
  match ← asMsg j with
  | none => pure none
  | some o =>
    let receiver ← pbString (o.get "receiver")
    let port ← pbString (o.get "port")
    let channel ← pbString (o.get "channel")
    pbDuration (o.get "timeout")
    let _ ← pbUint (2 ^ 32 - 1) (o.get "retries")
    let next ← if dropNext then pure "" else pbString (o.get "next")
    unknownKeys o ["receiver", "port", "channel", "timeout", "retries", "next"]
    pure (some { receiver, port, channel, next })

def pbWeights (j : Option J) : Pb (List String) :=
  match j with
  | none => pure []
  | some .null => pure []
  | some a => if a.isArr then a.elems.mapM (fun e => pbString (some e)) else throw "not an array"

/-- `Route`; `fuel` bounds the nesting (encoding/json itself refuses documents nested deeper than 10000) -/
def pbRoute : Nat → J → Pb Route
  | 0, _ => throw "exceeded max depth"
  | fuel + 1, j => do
    match ← asMsg j with
    | none => pure (.unknown "" "")            -- a null element of `[]Route` is the zero Route
    | some o =>
      let din ← pbString (field o "denom_in" "denomIn")
      let dout ← pbString (field o "denom_out" "denomOut")
      unknownKeys o ["denom_in", "denomIn", "denom_out", "denomOut", "pool", "series", "parallel"]
      -- oneof wrappers are filled after the regular fields; with several alternatives present the winner depends on
      -- Go map iteration order (such documents are excluded from the correspondence; any choice is panic-free)
      match o.get "parallel", o.get "series", o.get "pool" with
      | some p, _, _ =>
        match ← asMsg p with
        | none => pure (.parallelNil din dout)
        | some po =>
          let rs ← match po.get "routes" with
            | none => pure []
            | some .null => pure []
            | some a => if a.isArr then a.elems.mapM (pbRoute fuel) else throw "not an array"
          let ws ← pbWeights (po.get "weights")
          unknownKeys po ["routes", "weights"]
          pure (.parallel din dout rs ws)
      | none, some s, _ =>
        match ← asMsg s with
        | none => pure (.seriesNil din dout)
        | some so =>
          let rs ← match so.get "routes" with
            | none => pure []
            | some .null => pure []
            | some a => if a.isArr then a.elems.mapM (pbRoute fuel) else throw "not an array"
          unknownKeys so ["routes"]
          pure (.series din dout rs)
      | none, none, some p =>
        match ← asMsg p with
        | none => pure (.poolNil din dout)
        | some po =>
          let id ← pbUint (2 ^ 64 - 1) (field po "pool_id" "poolId")
          unknownKeys po ["pool_id", "poolId"]
          pure (.pool din dout id)
      | none, none, none => pure (.unknown din dout)

def routeFuel : Nat := 4000

def pbExactIn (j : J) : Pb (Option (Option Int)) := do
  match ← asMsg j with
  | none => pure none
  | some o =>
    let v ← match field o "min_amount_out" "minAmountOut" with
      | none => pure none
      | some x => some <$> pbInt x
    unknownKeys o ["min_amount_out", "minAmountOut"]
    pure (some v)

def pbExactOut (j : J) : Pb (Option (Option Int × Option Forward)) := do
  match ← asMsg j with
  | none => pure none
  | some o =>
    let v ← match field o "amount_out" "amountOut" with
      | none => pure none
      | some x => some <$> pbInt x
    let change ← match o.get "change" with
      | none => pure none
      | some c => pbForward c false
    unknownKeys o ["amount_out", "amountOut", "change"]
    pure (some (v, change))

def pbSwap (j : J) (dropNext : Bool) : Pb (Option SwapMeta) := do
  match ← asMsg j with
  | none => pure none
  | some o =>
    let provider ← pbString (field o "interface_provider" "interfaceProvider")
    let route ← match o.get "route" with
      | none => pure none
      | some r => if r.isNull then pure none else some <$> pbRoute routeFuel r
    let forward ← match o.get "forward" with
      | none => pure none
      | some f => pbForward f dropNext
    let strategy ← match field o "exact_amount_out" "exactAmountOut", field o "exact_amount_in" "exactAmountIn" with
      | some x, _ => AmountStrategy.exactOut <$> pbExactOut x
      | none, some x => AmountStrategy.exactIn <$> pbExactIn x
      | none, none => pure AmountStrategy.none
    unknownKeys o ["interface_provider", "interfaceProvider", "route", "forward", "exact_amount_in", "exactAmountIn",
                   "exact_amount_out", "exactAmountOut"]
    pure (some { provider, route, strategy, forward })

def pbPacket (j : J) (dropNext : Bool) : Pb PacketMeta := do
  match ← asMsg j with
  | none => pure {}
  | some o =>
    let swap ← match o.get "swap" with
      | none => pure none
      | some s => pbSwap s dropNext
    unknownKeys o ["swap"]
    pure { swap }

/-! ## DecodeSwapMetadata (ibc.go) -/

/-- the tail of DecodeSwapMetadata: jsonpb's verdict, then the `m.Swap` check -/
def finishDecode (r : Pb PacketMeta) : Res PacketMeta :=
  match r with
  | .error e => .err e
  | .ok m =>
    match m.swap with
    | none => .err "no swap filed in memo"                                         -- FIX (`m.Swap.Forward` on nil)
    | some _ => .ok m

/-- `memo = none`: the bytes are not JSON (encoding/json returns an error). -/
def decodeSwapMetadata (memo : Option J) : Res PacketMeta :=
  match memo with
  | none => .err "invalid JSON"
  | some j =>
    -- json.Unmarshal(memo, &d) with d : map[string]interface{}: only an object or null is accepted
    if !(j.isObj || j.isNull) then .err "cannot unmarshal into map" else
    match j.getNonNil "swap" with
    | none => .err "no swap filed in memo"
    | some swap =>
      if !swap.isObj then .err "swap field in memo must be an object" else          -- FIX (was `d["swap"].(map…)`: typeAssert)
      let fwd := swap.getNonNil "forward"
      let fwdOk : Bool := match fwd with | some f => f.isObj | none => true
      if !fwdOk then .err "forward field in memo must be an object" else            -- FIX (was `swap["forward"].(map…)`)
      -- `next` present and non-nil: it is cut out and the document re-marshalled before jsonpb sees it
      let dropNext : Bool := match fwd with | some f => (f.getNonNil "next").isSome | none => false
      finishDecode (pbPacket j dropNext)

/-- what the middleware does with a memo: decode, then `(*m.Swap).Validate()`; classes as the harness prints them -/
def memoClasses (memo : Option J) : String × String :=
  match decodeSwapMetadata memo with
  | .ok m =>
    match m.swap with
    | some s => ("ok", (s.validate).cls)
    | none => ("ok", "panic")                       -- `*m.Swap` with nil Swap (unreachable, see theorem)
  | r => (r.cls, "-")

/-! ## static heads of the Msg / Query handlers
Each head is everything the handler computes from message fields before its first store access.  `Option` = a field
that can be absent on the wire (custom-type `math.Int`, pointer sub-message).  Address / bech32 checks return errors
(library boundary) and are passed as booleans.  `ok` = the handler proceeds to its stateful part. -/

/-- FIX-guarded `x.IsNil() || !x.IsPositive()` -/
def needPositive (x : Option Int) : Res Unit :=
  match x with
  | none => .err "amount cannot be empty"                                            -- FIX
  | some v => match intIsPositive (some v) with
    | .ok true => .ok () | .ok false => .err "amount must be positive" | .err e => .err e | .panic k => .panic k

def needPresent (x : Option Int) : Res Unit :=
  match x with | none => .err "amount cannot be empty" | some _ => .ok ()           -- FIX

structure MsgSwapIn where
  senderOk : Bool
  providerOk : Bool
  route : Route                      -- non-nullable on the wire: never nil, payloads never nil
  amountIn : Option Int
  minAmountOut : Option Int

def headSwapExactAmountIn (m : MsgSwapIn) : Res Unit :=
  if !m.senderOk then .err "invalid sender" else
  if !m.providerOk then .err "invalid interface provider" else
  seqRes (Route.validate (some m.route)) <|
  seqRes (needPresent m.amountIn) <| seqRes (needPresent m.minAmountOut) <|          -- FIX
  seqRes (needPositive m.amountIn) (needPositive m.minAmountOut)

structure MsgSwapOut where
  senderOk : Bool
  providerOk : Bool
  route : Route
  maxAmountIn : Option Int
  amountOut : Option Int

def headSwapExactAmountOut (m : MsgSwapOut) : Res Unit :=
  if !m.senderOk then .err "invalid sender" else
  if !m.providerOk then .err "invalid interface provider" else
  seqRes (Route.validate (some m.route)) <|
  seqRes (needPresent m.maxAmountIn) <| seqRes (needPresent m.amountOut) <|          -- FIX
  seqRes (needPositive m.maxAmountIn) (needPositive m.amountOut)

/-- `1 / (1 - rate)` of calculateInterfaceFeeExactAmountOut: the division panics iff rate = 1 (scaled 10^18);
    params.Validate AS FIXED accepts `0 ≤ rate < 1` only -/
def paramsValidateFeeRate (rate : Int) : Res Unit :=
  if rate < 0 then .err "negative" else if rate ≥ 10 ^ 18 then .err "must be less than 1" else .ok ()  -- FIX (was `>`)

def interfaceFeeDivisor (rate : Int) : Res Int :=
  let d := 10 ^ 18 - rate
  if d = 0 then .panic .divZero else .ok d

structure QuerySwapCalc where
  reqNil : Bool
  route : Option Route               -- *Route in the request
  amount : Option Int                -- NewIntFromString(req.Amount…): none = not a number

def headQuerySwapCalc (q : QuerySwapCalc) : Res Unit :=
  if q.reqNil then .err "invalid request" else
  match q.route with
  | none => .err "route cannot be empty"                                             -- FIX (was `*req.Route`: nilDeref)
  | some r =>
    seqRes (Route.validate (some r)) <|                                              -- FIX (unvalidated routes reached InspectRoute)
    match q.amount with
    | none => .err "invalid amount"
    | some v => if v ≤ 0 then .err "invalid amount" else .ok ()                      -- FIX (negative coin panic)

/-- liquiditypool CalculationCreatePosition: `lowerTick.Int64()` panics outside int64 -/
def int64? (v : Int) : Res Int :=
  if -(2 ^ 63) ≤ v ∧ v < 2 ^ 63 then .ok v else .panic .intRange

structure QueryCalcCreatePosition where
  reqNil : Bool
  lowerTick : Option Int
  upperTick : Option Int
  amount : Option Int

def headCalcCreatePosition (q : QueryCalcCreatePosition) : Res Unit :=
  if q.reqNil then .err "invalid request" else
  match q.lowerTick, q.upperTick with
  | some lo, some hi =>
    if !(-(2 ^ 63) ≤ lo ∧ lo < 2 ^ 63 ∧ -(2 ^ 63) ≤ hi ∧ hi < 2 ^ 63) then .err "invalid tickers" else  -- FIX (IsInt64)
    match int64? lo, int64? hi with
    | .ok l, .ok h =>
      if l ≥ h then .err "invalid tickers" else
      match q.amount with
      | none => .err "invalid token amounts"
      | some a => if a < 0 then .err "invalid token amounts" else .ok ()             -- FIX
    | .panic k, _ => .panic k
    | _, .panic k => .panic k
    | _, _ => .err "invalid tickers"
  | _, _ => .err "invalid tickers"

/-- da ValidatorShardIndices / ZkpProofThreshold: shard_count is bounded by params.max_shard_count (FIX); without the
    bound `int64(shardCount)` goes negative from 2^63 on and `rand.Shuffle(int(n), …)` panics for n < 0 -/
def shuffleLen (n : Int) : Res Unit := if n < 0 then .panic .explicit else .ok ()

def headShardQuery (reqNil addrOk : Bool) (shardCount maxShardCount : Nat) : Res Unit :=
  if reqNil then .err "invalid request" else
  if !addrOk then .err "invalid validator address" else
  if shardCount > maxShardCount then .err "shard count exceeds max_shard_count" else   -- FIX
  if maxShardCount ≥ 2 ^ 63 then .err "unreachable: params bound" else
  shuffleLen (shardCount : Int)

/-- tokenconverter Convert / selfdelegation SelfDelegate / WithdrawSelfDelegationUnbonded / shareclass delegate:
    one positive `math.Int` -/
def headAmountMsg (senderOk : Bool) (amount : Option Int) : Res Unit :=
  if !senderOk then .err "invalid sender" else needPositive amount

/-- liquiditypool CreatePosition / IncreaseLiquidity: four `math.Int`s that must be present (FIX), then sign tests -/
def headFourAmounts (senderOk : Bool) (a b minA minB : Option Int) : Res Unit :=
  if !senderOk then .err "invalid sender" else
  match a, b, minA, minB with
  | some x, some y, some _, some _ =>
    if x < 0 ∨ y < 0 then .err "negative token amount"
    else if x = 0 ∧ y = 0 then .err "invalid token amounts" else .ok ()
  | _, _, _, _ => .err "amounts cannot be empty"                                     -- FIX

/-- `Int.Add` panics above 2^256; IncreaseLiquidity uses `SafeAdd` (FIX) -/
def safeAdd (a b : Int) : Res Int :=
  if (a + b).natAbs < 2 ^ 256 then .ok (a + b) else .err "integer overflow"           -- FIX (was panic intRange)

/-- da PublishData: `msg.ParityShardCount >= uint64(len(msg.ShardDoubleHashes))` -/
def headPublishData (senderOk : Bool) (parity hashes : Nat) : Res Unit :=
  if !senderOk then .err "invalid sender" else if parity ≥ hashes then .err "parity shard count" else .ok ()

/-- da SubmitValidityProof index loop AS FIXED by the DA engineer (negative index ⇒ error); unfixed: `hashes[j]` with
    j < 0 is an index-out-of-range panic -/
def headProofIndex (numHashes : Nat) (j : Int) : Res Unit :=
  if j < 0 then .err "indices overflow"                                              -- FIX (DA engineer, S5)
  else if (numHashes : Int) ≤ j then .err "indices overflow" else .ok ()

/-- `LegacyDec.Add` asserts the 2^256·10^18 range -/
def decAdd (a b : Int) : Res Int :=
  if (a + b).natAbs < 2 ^ 256 * 10 ^ 18 then .ok (a + b) else .panic .intRange

/-- liquidityincentive VoteGauge: weights parsed with LegacyNewDecFromStr, non-negative, each ≤ 1 (FIX), summed with the
    range-asserting `Add`, total ≤ 1 -/
def headVoteGauge (senderOk : Bool) : List String → Int → Res Unit
  | [], total => if !senderOk then .err "invalid sender" else if total > 10 ^ 18 then .err "total weight" else .ok ()
  | w :: ws, total =>
    if !senderOk then .err "invalid sender" else
    match legacyDecFromStr w with
    | none => .err "invalid weight"
    | some v =>
      if v < 0 then .err "negative weight"
      else if v > 10 ^ 18 then .err "weight above one"                               -- FIX (the sum overflowed LegacyDec)
      else match decAdd total v with
        | .ok t => headVoteGauge senderOk ws t
        | .err e => .err e
        | .panic k => .panic k

/-- liquiditypool CreatePool AS FIXED: denoms valid, 0 ≤ fee < 1, ratio > 1, 0 ≤ offset < 1 -/
def headCreatePool (authOk baseOk quoteOk : Bool) (fee ratio offset : Option Int) : Res Unit :=
  if !authOk then .err "invalid authority" else
  match fee, ratio, offset with
  | some f, some r, some o =>
    if !baseOk then .err "invalid base denom" else if !quoteOk then .err "invalid quote denom"           -- FIX
    else if f < 0 ∨ f ≥ 10 ^ 18 then .err "fee rate"                                                     -- FIX
    else if r ≤ 10 ^ 18 then .err "price ratio"                                                          -- FIX
    else if o < 0 ∨ o ≥ 10 ^ 18 then .err "base offset" else .ok ()                                      -- FIX
  | _, _, _ => .err "invalid decimal"

/-- LegacyDec range assertion (|v| < 2^256·10^18) after `LegacyNewDecFromInt(amount).Quo(1 - rate)`: the arithmetic of
    calculateInterfaceFeeExactAmountOut as the code is (known finding: amounts near 2^256 overflow) -/
def interfaceFeeGross (amountOutNet rate : Int) : Res Int :=
  match interfaceFeeDivisor rate with
  | .ok d =>
    let q := amountOutNet * 10 ^ 18 * 10 ^ 18 / d
    if q.natAbs < 2 ^ 256 * 10 ^ 18 then .ok (q / 10 ^ 18) else .panic .intRange
  | .err e => .err e
  | .panic k => .panic k

/-- the names of the service methods whose heads (or, for the swap messages and queries, whose route/metadata
    validation) are modelled above; every other method is exercised dynamically only -/
def modelledEntrypoints : List String := [
  "swap.Msg.SwapExactAmountIn", "swap.Msg.SwapExactAmountOut", "swap.Msg.UpdateParams",
  "swap.Query.CalculationSwapExactAmountIn", "swap.Query.CalculationSwapExactAmountOut",
  "liquiditypool.Query.CalculationCreatePosition", "liquiditypool.Msg.CreatePool",
  "liquiditypool.Msg.CreatePosition", "liquiditypool.Msg.IncreaseLiquidity",
  "da.Query.ValidatorShardIndices", "da.Query.ZkpProofThreshold", "da.Msg.PublishData", "da.Msg.SubmitValidityProof",
  "tokenconverter.Msg.Convert", "selfdelegation.Msg.SelfDelegate", "selfdelegation.Msg.WithdrawSelfDelegationUnbonded",
  "shareclass.Msg.NonVotingDelegate", "liquidityincentive.Msg.VoteGauge"]

end Sunrise.Untrusted
