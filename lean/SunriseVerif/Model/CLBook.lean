/-!
  Bookkeeping abstraction of the concentrated-liquidity pool (C04): liquidity amounts are raw integers, tick
  gross/net are total functions `Int → Int`, the pool keeps its cursor tick and its active liquidity.
  Operations are exactly the bookkeeping effects of keeper_position.go / keeper_tick.go / keeper_swap.go:
  * `add lo hi δ`     — new position: UpsertTick(lower: gross+δ, net+δ) ; UpsertTick(upper: gross+δ, net−δ) ;
                         active += δ iff lo ≤ tick < hi (UpdatePosition);
  * `decrease i δ`    — the same with −δ on position i (UpdatePosition rejects a result below zero);
  * `crossUp t`       — quote-for-base swap reaching initialized tick t: active += net(t); cursor := t
                         (GetLiquidityDeltaSign = +, NextTickAfterCrossing = t);
  * `crossDown t`     — base-for-quote swap reaching initialized tick t: active −= net(t); cursor := t − 1;
  * `moveWithin t'`   — a swap step ending between initialized ticks moves the cursor without crossing any.
  The guards of `crossUp/crossDown/moveWithin` are what the swap loop's tick iterator provides: the crossed tick is the
  next initialized one in the direction of the trade (ticks with zero gross liquidity are removed from the store).
-/
namespace Sunrise.CLBook

structure Pos where
  lo : Int
  hi : Int
  liq : Int
deriving Repr, DecidableEq

structure St where
  pos : List Pos
  gross : Int → Int
  net : Int → Int
  tick : Int
  active : Int

def init (tick : Int) : St := ⟨[], fun _ => 0, fun _ => 0, tick, 0⟩

/-- Σ liq over positions satisfying p -/
def sumIf (p : Pos → Bool) : List Pos → Int
  | [] => 0
  | x :: xs => (if p x then x.liq else 0) + sumIf p xs

def inRange (t : Int) (x : Pos) : Bool := decide (x.lo ≤ t ∧ t < x.hi)
def lowerAt (t : Int) (x : Pos) : Bool := decide (x.lo = t)
def upperAt (t : Int) (x : Pos) : Bool := decide (x.hi = t)

/-- subtract δ from the i-th position -/
def decAt : List Pos → Nat → Int → List Pos
  | [], _, _ => []
  | x :: xs, 0, δ => { x with liq := x.liq - δ } :: xs
  | x :: xs, i+1, δ => x :: decAt xs i δ

inductive Op where
  | add (lo hi δ : Int)
  | decrease (i : Nat) (δ : Int)
  | crossUp (t : Int)
  | crossDown (t : Int)
  | moveWithin (t : Int)

/-- guards under which the code performs each bookkeeping step -/
def Op.guard (s : St) : Op → Prop
  | .add lo hi δ => lo < hi ∧ 0 ≤ δ
  | .decrease i δ => ∃ x, s.pos[i]? = some x ∧ 0 ≤ δ ∧ δ ≤ x.liq
  | .crossUp t => s.tick < t ∧ ∀ u, s.tick < u → u < t → s.gross u = 0
  | .crossDown t => t ≤ s.tick ∧ ∀ u, t < u → u ≤ s.tick → s.gross u = 0
  | .moveWithin t' => (s.tick ≤ t' ∧ ∀ u, s.tick < u → u ≤ t' → s.gross u = 0)
                      ∨ (t' ≤ s.tick ∧ ∀ u, t' < u → u ≤ s.tick → s.gross u = 0)

def applyDelta (s : St) (lo hi δ : Int) (pos : List Pos) : St :=
  { pos := pos
    gross := fun t => s.gross t + (if t = lo then δ else 0) + (if t = hi then δ else 0)
    net := fun t => s.net t + (if t = lo then δ else 0) - (if t = hi then δ else 0)
    tick := s.tick
    active := if lo ≤ s.tick ∧ s.tick < hi then s.active + δ else s.active }

def step (s : St) : Op → St
  | .add lo hi δ => applyDelta s lo hi δ (⟨lo, hi, δ⟩ :: s.pos)
  | .decrease i δ =>
    match s.pos[i]? with
    | some x => applyDelta s x.lo x.hi (-δ) (decAt s.pos i δ)
    | none => s
  | .crossUp t => { s with active := s.active + s.net t, tick := t }
  | .crossDown t => { s with active := s.active - s.net t, tick := t - 1 }
  | .moveWithin t' => { s with tick := t' }

/-- The C04 bookkeeping invariant -/
structure Inv (s : St) : Prop where
  active_eq : s.active = sumIf (inRange s.tick) s.pos
  gross_eq : ∀ t, s.gross t = sumIf (lowerAt t) s.pos + sumIf (upperAt t) s.pos
  net_eq : ∀ t, s.net t = sumIf (lowerAt t) s.pos - sumIf (upperAt t) s.pos
  wf : ∀ x ∈ s.pos, 0 ≤ x.liq ∧ x.lo < x.hi

/-- states reachable from an empty pool by guarded steps (unbounded) -/
inductive Reachable : St → Prop where
  | init (t : Int) : Reachable (init t)
  | step {s : St} (op : Op) : Reachable s → op.guard s → Reachable (step s op)

end Sunrise.CLBook
