/-! time.Time as integer nanoseconds since the Unix epoch. `Unix()` is the floor division by 10^9 (Go keeps
    `sec` floored and `nsec ≥ 0`, also before 1970); `After/Before/Equal` compare the full nanosecond instant. -/
namespace Sunrise.Time

def NS : Int := 1000000000

/-- `t.Unix()` -/
def unix (ns : Int) : Int := ns / 1000000000

end Sunrise.Time
