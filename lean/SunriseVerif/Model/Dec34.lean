import SunriseVerif.Model.Dec
/-
  Model of `cosmossdk.io/math.Dec` (v1.5.0, dec.go) as used by x/shareclass: a thin wrapper over
  `github.com/cockroachdb/apd/v3` (v3.2.1) decimals  sign × coeff × 10^exp.

  * `NewDecFromString(i.String())` of an integer: coeff = |i|, exp = 0                      (`ofInt`)
  * `Quo`, `Mul`: `dec128Context` = precision 34, Rounding "" = RoundHalfUp (round.go:55-57), apd's own
    long-division normalisation for `Quo` (context.go:291-365), round-after-multiply for `Mul` (context.go:201-222,
    round.go:61-113 incl. `roundAddOne`'s renormalisation when the carry produces a 35th digit — `Quo` does NOT
    renormalise after its carry, context.go:352-357, and neither does this model);
  * `Add`, `Sub`: `apd.BaseContext` = precision 0 = exact, exponent = min of the exponents (`upscale`);
  * `SdkIntTrim`: truncation toward zero of the value (dec.go:286-307);
  * `String()` followed by `NewDecFromString` (how multipliers are stored, keeper_claim.go:14-51): `reparse`.

  The sign is folded into a signed coefficient, so apd's negative zero is identified with zero (shareclass never
  produces negative values: multipliers only grow and checkpoints are copies of the multiplier).
  Not modelled: apd's exponent limits (|exp| ≤ 100000, subnormal handling) and `SdkIntTrim`'s 256-bit limit — the
  exponents here are bounded by the digit counts of 256-bit integers plus 34; the kernel differential test skips
  the overflow error class.  Division by zero is totalised as zero in `quo`; every generated kernel carries the
  `_err` guard that is true exactly when Go returns the division error.
-/
namespace Sunrise

structure D34 where
  c : Int
  e : Int
deriving DecidableEq, Repr, Inhabited

namespace D34

/-- 10^34: coefficients below it have at most 34 digits -/
def P34 : Nat := 10000000000000000000000000000000000
/-- 10^33 -/
def P33 : Nat := 1000000000000000000000000000000000

def zero : D34 := ⟨0, 0⟩
def ofInt (i : Int) : D34 := ⟨i, 0⟩
def isZero (x : D34) : Bool := x.c == 0

/-- apd.NumDigits: decimal digits of the magnitude, 1 for 0 -/
def numDigits (n : Nat) : Nat := (Nat.toDigits 10 n).length

/-- Rounder.Round with Precision 34, RoundHalfUp, on a magnitude (round.go:61-113). -/
def roundMag (n : Nat) (e : Int) : Nat × Int :=
  if n < P34 then (n, e)
  else
    let diff := numDigits n - 34
    let p := 10 ^ diff
    let y := n / p
    let m := n % p
    if m ≠ 0 ∧ 2 * m ≥ p then
      -- roundAddOne: a carry into a 35th digit drops the last digit and bumps the exponent
      if y + 1 ≥ P34 then ((y + 1) / 10, e + diff + 1) else (y + 1, e + diff)
    else (y, e + diff)

def sgn (neg : Bool) (n : Nat) : Int := if neg then -(n : Int) else (n : Int)

def round (x : D34) : D34 :=
  let r := roundMag x.c.natAbs x.e
  ⟨sgn (decide (x.c < 0)) r.1, r.2⟩

def mul (x y : D34) : D34 := round ⟨x.c * y.c, x.e + y.e⟩

/-- exact (precision 0): common exponent = the smaller one -/
def add (x y : D34) : D34 :=
  let e := min x.e y.e
  ⟨x.c * 10 ^ (x.e - e).toNat + y.c * 10 ^ (y.e - e).toNat, e⟩

def sub (x y : D34) : D34 :=
  let e := min x.e y.e
  ⟨x.c * 10 ^ (x.e - e).toNat - y.c * 10 ^ (y.e - e).toNat, e⟩

/-- Context.Quo (context.go:291-365), precision 34, half-up on the remainder. y = 0 is an error in Go. -/
def quo (x y : D34) : D34 :=
  if y.c = 0 then zero
  else
    let shift := x.e - y.e
    if x.c = 0 then ⟨0, shift⟩
    else
      let a := x.c.natAbs
      let b := y.c.natAbs
      let nda := numDigits a
      let ndb := numDigits b
      let dividend := if nda < ndb then a * 10 ^ (ndb - nda) else a
      let divisor := if nda > ndb then b * 10 ^ (nda - ndb) else b
      let adj : Int := (ndb : Int) - (nda : Int)
      let lt := decide (dividend < divisor)
      let dividend := if lt then dividend * 10 else dividend
      let adj := if lt then adj + 1 else adj
      let dividend := dividend * P33
      let q := dividend / divisor
      let r := dividend % divisor
      let q := if r ≠ 0 ∧ 2 * r ≥ divisor then q + 1 else q
      ⟨sgn ((decide (x.c < 0)) != (decide (y.c < 0))) q, shift - adj - 33⟩

/-- SdkIntTrim: the value truncated toward zero. -/
def sdkIntTrim (x : D34) : Int :=
  if x.e ≥ 0 then x.c * 10 ^ x.e.toNat else Int.tdiv x.c (10 ^ (-x.e).toNat)

/-- `NewDecFromString(x.String())`: dec.go `fmtE` prints plain digits (apd 'f' format, zeros appended for a positive
    exponent) when −6 < exp + digits − 1 < 6, and d.dddE±x otherwise; parsing gives back the same coefficient/exponent
    except that a positive exponent printed in plain format is absorbed into the coefficient. -/
def reparse (x : D34) : D34 :=
  let adj : Int := x.e + (numDigits x.c.natAbs : Int) - 1
  if x.e > 0 ∧ -6 < adj ∧ adj < 6 then ⟨x.c * 10 ^ x.e.toNat, 0⟩ else x

def lt (x y : D34) : Bool := decide ((sub x y).c < 0)

/-- canonical text for the differential test / traces: signed coefficient and exponent -/
def show_ (x : D34) : String := toString x.c ++ "e" ++ toString x.e

end D34
end Sunrise
