import SunriseVerif.Model.Lockup
/-!
C12 — multi-validator executable model of the lockup accounts (`Model/Lockup.lean` has ONE validator and is left untouched).

What several validators add, and where it is in the Go code (`x/accounts/non_voting_delegatable_lockup/lockup.go`; the
self-delegatable package has the same `checkUnbondingEntriesMature` but never writes `UnbondEntries`, its `Undelegate` is
commented out, and `x/selfdelegation` always delegates to the ONE validator of the root owner, so nothing else depends on the
validator):

* `UnbondEntries : collections.Map[string, UnbondingEntries]` — one list of entries per validator address (string key).
  `Undelegate` reads the list of `msg.ValidatorAddress`, merges into the first entry with the same creation height and end
  time or appends, and writes the list back (`getEntries` / `Lockup.addEntry` / `setEntries`).  The map is kept here as an
  association list in KEY ORDER (the order of `collections.Map.Walk`).
* `checkUnbondingEntriesMature` WALKS that map in key order.  Inside one validator's list the loop stops at the first entry
  that is not mature (`return false, nil`: the walk CONTINUES with the next validator); a mature entry makes the handler fail
  (the staking query for (lockup, validator) fails — the delegator is the share-class module, not the lockup — or, were it to
  answer "no unbonding delegation", `TrackUndelegation(sdk.NewCoins(entry.Amount))` is called with a coin of the BOND denom
  whose amount of the FEE denom is zero ⇒ the regenerated reject condition).  The walk returns at the first error.
  So: `blocked` = some validator's FIRST entry is mature (`blockedList` per validator = `Lockup.blocked`, `List.any` in key order).
* one non-transferable share token per validator (`shareOf v`); `Delegate`/`Undelegate` mint/burn the token of THEIR validator;
  the DV/DF trackers and the schedule are global (one amount per account, not per validator).
* the share-class unbonding queue (`scUnb`) is global; its end-blocker (`GarbageCollectUnbonded` over
  `IterateCompletedUnbondings`) pays every entry with `completion ≤ block time`; an entry of the current SECOND that completes
  later is skipped and stays queued (code after fix bfa5eeb/8270a6b — `Model/Lockup.lean` still halts there; see
  `C12MV.mv_refines_single` for the exact relation).  The index walk is by (completion second, id); with a constant
  unbonding time and monotone block time that is the list order, and "stop at the first later second / skip a later instant of
  this second" is the filter `completion ≤ t`.
* no redelegation handler exists in either package; slashing is not handled by the lockup code (boundary: share price 1 in `OpOk`).

Everything that does not depend on the validator is REUSED from `Sunrise.Lockup` (kernels by variant — regenerated in
`Gen/KernelsLockup.lean` —, schedule, `trackDelegation`, `trackUndelegation`, `notBondedLocked`, `addEntry`, `claim`,
`releaseUbds`, `checkSender`).  With the one validator `v0` (whose share token is called `share`, as in the one-validator
trace) this model IS the old one: `C12MV.mv_refines_single`.
-/
namespace Sunrise.LockupMV
open Sunrise Sunrise.Lockup Sunrise.Gen.KernelsLockup

/-- the validator of the one-validator model -/
def v0 : Addr := "v0"

/-- share token of a validator (`NonVotingShareTokenDenom`); the first validator's is the `share` of the old model -/
def shareOf (v : Addr) : Denom := if v = v0 then shareD else "share/" ++ v

/-- bank send-enabled table: the bond denom and every validator's share token are not transferable by MsgSend
    (`SetSendEnabled(shareDenom, false)` in NonVotingDelegate; before the first delegation nobody holds the token) -/
def sendDisabled (vals : List Addr) (d : Denom) : Bool := d == bond || vals.any (fun v => d == shareOf v)

def msgSend (vals : List Addr) (b : Bank) (src dst : Addr) (d : Denom) (x : Int) : Res Bank :=
  if x ≤ 0 then .err "invalid-coins"
  else if sendDisabled vals d then .err "send-disabled"
  else b.send src dst d x

/-! ### the per-validator unbonding records -/

abbrev Entries := List (Addr × List Entry)

/-- `UnbondEntries.Get(validator)`; not found = empty list -/
def getEntries : Entries → Addr → List Entry
  | [], _ => []
  | (k, l) :: r, v => if v = k then l else getEntries r v

def hasKey : Entries → Addr → Bool
  | [], _ => false
  | (k, _) :: r, v => v = k || hasKey r v

def replaceEntries : Entries → Addr → List Entry → Entries
  | [], _, _ => []
  | (k, l) :: r, v, l' => if v = k then (k, l') :: r else (k, l) :: replaceEntries r v l'

/-- a new key goes where the walk will meet it: before the first larger key -/
def insertEntries : Entries → Addr → List Entry → Entries
  | [], v, l' => [(v, l')]
  | (k, l) :: r, v, l' => if v < k then (v, l') :: (k, l) :: r else (k, l) :: insertEntries r v l'

/-- `UnbondEntries.Set(validator, list)` -/
def setEntries (es : Entries) (v : Addr) (l : List Entry) : Entries :=
  if hasKey es v then replaceEntries es v l else insertEntries es v l

/-- one validator's list in `checkUnbondingEntriesMature`: the loop stops at the first entry that is not mature; a mature
    first entry is an error (see the header).  Same function as `Lockup.blocked` on the one list of the old model. -/
def blockedList (v : Variant) (now : Int) : List Entry → Bool
  | [] => false
  | e :: _ => !(decide (e.endT > now)) && kUndelReject v 0

/-- the walk over all validators in key order, ending at the first error -/
def blockedEntries (v : Variant) (now : Int) (es : Entries) : Bool := es.any fun p => blockedList v now p.2

def totalEntries : Entries → Int
  | [] => 0
  | p :: r => sumEntries p.2 + totalEntries r

/-! ### state -/

structure St where
  variant : Variant := .nv
  created : Bool := false
  hasOL : Bool := false
  bank : Bank := Bank.empty
  owner : Addr := ""
  startT : Int := 0
  endT : Int := 0
  OL : Int := 0
  DV : Int := 0
  DF : Int := 0
  /-- the validators of the chain (fixed during a history) -/
  vals : List Addr := []
  /-- `UnbondEntries`, in key order -/
  entries : Entries := []
  stake : Addr → Int := fun _ => 0
  ubds : List Unb := []
  scUnb : List Unb := []
  hasProxy : Addr → Bool := fun _ => false
  now : Int := 0
  height : Int := 0
  ut : Int := 0
  halted : Bool := false

inductive Op
  | init (v : Variant) (funder owner : Addr) (funds : Int) (startZero : Bool) (start : Int) (endZero : Bool) (end_ : Int)
  | deposit (src dst : Addr) (denom : Denom) (amt : Int)
  | block (t : Int)
  | send (caller sender to : Addr) (denom : Denom) (amt : Int)
  | nvDelegate (caller sender : Addr) (val : Addr) (denom : Denom) (amt : Int) (ext : Ext)
  | nvUndelegate (caller sender : Addr) (val : Addr) (denom : Denom) (amt : Int) (ext : Ext)
  | nvWithdrawReward (caller sender : Addr) (ext : Ext)
  | sdSelfDelegate (caller sender : Addr) (amt : Int) (ext : Ext)
  | sdWithdraw (caller sender : Addr) (amt : Int)
  | pxUndelegate (d caller sender : Addr) (amt : Int) (ext : Ext)
  | pxWithdrawReward (d caller sender : Addr) (ext : Ext)
  | pxSend (d caller sender to : Addr) (denom : Denom) (amt : Int)
  | modSelfDelegate (d : Addr) (amt : Int) (ext : Ext)
  | modWithdraw (d : Addr) (amt : Int)

def rootOwner (s : St) (d : Addr) : Addr := if d = lock then s.owner else d

def blocked (s : St) : Bool := blockedEntries s.variant s.now s.entries

/-! ### module handlers (validator-independent; same bank calls as in `Model/Lockup.lean`) -/

def modSelfDelegate (s : St) (d : Addr) (amt : Int) (ext : Ext) : Res St :=
  if amt ≤ 0 then .err "invalid-amount"
  else if !ext.ok then .err "ext"
  else
    let p := proxyOf d
    (s.bank.send d p fee amt).bind fun b1 =>
    (Convert.convertReverse bond fee b1 p amt).bind fun b2 =>
    (b2.send p stakingPool bond amt).bind fun b3 =>
    if amt = 0 then .err "staking-zero"
    else .ok { s with bank := claim b3 p ext, hasProxy := fun a => if a = d then true else s.hasProxy a,
                      stake := fun a => if a = p then s.stake p + amt else s.stake a }

def modWithdraw (s : St) (d : Addr) (amt : Int) : Res St :=
  if amt ≤ 0 then .err "invalid-amount"
  else if !s.hasProxy d then .err "no-proxy"
  else
    let p := proxyOf d
    (Convert.convert bond fee s.bank p amt).bind fun b1 =>
    (b1.send p d fee amt).bind fun b2 =>
    .ok { s with bank := b2 }

/-! ### account handlers -/

def lockedNow (s : St) : Res Int := lockedAt s.variant s.OL s.startT s.endT s.now

def doInit (s : St) (v : Variant) (funder owner : Addr) (funds : Int) (startZero : Bool) (start : Int)
    (endZero : Bool) (end_ : Int) : Res St :=
  if s.created then .err "exists"
  else if funds < 0 then .err "invalid-coins"
  else if endZero then .err "invalid end time"
  else if !startZero && kBadWindow v start end_ then .err "invalid window"
  else
    (if funds = 0 then .ok s.bank else s.bank.send funder lock fee funds).bind fun b =>
    .ok { s with variant := v, created := true, hasOL := decide (funds > 0), bank := b, owner := owner,
                 startT := if startZero then s.now else start, endT := end_, OL := funds, DV := 0, DF := 0, entries := [] }

def doSend (s : St) (caller sender to : Addr) (denom : Denom) (amt : Int) : Res St :=
  if !s.created then .err "no-account"
  else if !checkSender s.owner caller sender then .err "not-owner"
  else if amt ≤ 0 then .err "invalid-coins"
  else if denom ≠ fee || !s.hasOL then .err "no-original-locking"
  else
    (lockedNow s).bind fun locked =>
    if blocked s then .err "unbonding-entry"
    else
      let nb := notBondedLocked s.variant locked s.DV
      let spendable := s.bank.bal lock fee - nb
      if spendable < 0 then .err "locked-exceeds-balance"
      else if spendable - amt < 0 then .err "insufficient-spendable"
      else (msgSend s.vals s.bank lock to fee amt).bind fun b => .ok { s with bank := b }

/-- non-voting `Delegate` to validator `val`: the walk over ALL validators' records, the global trackers, then
    x/shareclass NonVotingDelegate for `val` (claim from that validator, convert, stake, mint `val`'s share token) -/
def doNvDelegate (s : St) (caller sender val : Addr) (denom : Denom) (amt : Int) (ext : Ext) : Res St :=
  if !s.created || s.variant ≠ .nv then .err "no-handler"
  else if !checkSender s.owner caller sender then .err "not-owner"
  else if denom ≠ fee || !s.hasOL then .err "no-original-locking"
  else
    (lockedNow s).bind fun locked =>
    if blocked s then .err "unbonding-entry"
    else if amt < 0 then .panic .explicit
    else match trackDelegation s.variant (s.bank.bal lock fee) locked s.DV s.DF amt with
    | none => .err "track-delegation"
    | some (dv, df) =>
      if !s.vals.contains val then .err "validator"
      else if !ext.ok then .err "ext"
      else
        let b0 := claim s.bank lock ext
        (b0.send lock scMod fee amt).bind fun b1 =>
        (Convert.convertReverse bond fee b1 scMod amt).bind fun b2 =>
        (b2.send scMod stakingPool bond amt).bind fun b3 =>
        (b3.mint scMod (shareOf val) ext.share).bind fun b4 =>
        (b4.send scMod lock (shareOf val) ext.share).bind fun b5 =>
        .ok { s with bank := b5, DV := dv, DF := df }

/-- non-voting `Undelegate` from validator `val`: x/shareclass NonVotingUndelegate (burns `val`'s share token, queues the
    unbonding), then the entry bookkeeping on `val`'s OWN list.  No maturity walk, no tracker update here. -/
def doNvUndelegate (s : St) (caller sender val : Addr) (denom : Denom) (amt : Int) (ext : Ext) : Res St :=
  if !s.created || s.variant ≠ .nv then .err "no-handler"
  else if !checkSender s.owner caller sender then .err "not-owner"
  else if denom ≠ fee then .err "denom"
  else if amt ≤ 0 then .err "not-positive"
  else if !s.vals.contains val then .err "validator"
  else if !ext.ok then .err "ext"
  else
    let b0 := claim s.bank lock ext
    (b0.send lock scMod (shareOf val) ext.share).bind fun b1 =>
    (b1.burn scMod (shareOf val) ext.share).bind fun b2 =>
    let completion := s.now + s.ut
    .ok { s with bank := b2, scUnb := s.scUnb ++ [⟨lock, amt, completion⟩],
                 entries := setEntries s.entries val (addEntry (getEntries s.entries val) s.height completion amt) }

def doNvWithdrawReward (s : St) (caller sender : Addr) (ext : Ext) : Res St :=
  if !s.created || s.variant ≠ .nv then .err "no-handler"
  else if !checkSender s.owner caller sender then .err "not-owner"
  else if !ext.ok then .err "ext"
  else .ok { s with bank := claim s.bank lock ext }

def doSdSelfDelegate (s : St) (caller sender : Addr) (amt : Int) (ext : Ext) : Res St :=
  if !s.created || s.variant ≠ .sd then .err "no-handler"
  else if !checkSender s.owner caller sender then .err "not-owner"
  else if amt < 0 then .panic .explicit
  else if !s.hasOL then .err "no-original-locking"
  else
    (lockedNow s).bind fun locked =>
    if blocked s then .err "unbonding-entry"
    else match trackDelegation s.variant (s.bank.bal lock fee) locked s.DV s.DF amt with
    | none => .err "track-delegation"
    | some (dv, df) => modSelfDelegate { s with DV := dv, DF := df } lock amt ext

def doSdWithdraw (s : St) (caller sender : Addr) (amt : Int) : Res St :=
  if !s.created || s.variant ≠ .sd then .err "no-handler"
  else if !checkSender s.owner caller sender then .err "not-owner"
  else if amt < 0 then .panic .explicit
  else if blocked s then .err "unbonding-entry"
  else match trackUndelegation s.variant s.DV s.DF amt with
  | none => .err "track-undelegation"
  | some (dv, df) => modWithdraw { s with DV := dv, DF := df } lock amt

def doPxUndelegate (s : St) (d caller sender : Addr) (amt : Int) (ext : Ext) : Res St :=
  if !s.hasProxy d then .err "no-account"
  else if !checkSender (rootOwner s d) caller sender then .err "unauthorized"
  else if amt < 0 then .panic .explicit
  else if amt = 0 then .err "staking-zero"
  else if !ext.ok then .err "ext"
  else
    let p := proxyOf d
    if s.stake p < amt then .err "staking-insufficient"
    else .ok { s with bank := claim s.bank p ext, stake := fun a => if a = p then s.stake p - amt else s.stake a,
                      ubds := s.ubds ++ [⟨p, amt, s.now + s.ut⟩] }

def doPxWithdrawReward (s : St) (d caller sender : Addr) (ext : Ext) : Res St :=
  if !s.hasProxy d then .err "no-account"
  else if !checkSender (rootOwner s d) caller sender then .err "unauthorized"
  else if !ext.ok then .err "ext"
  else .ok { s with bank := claim s.bank (proxyOf d) ext }

def doPxSend (s : St) (d caller sender to : Addr) (denom : Denom) (amt : Int) : Res St :=
  if !s.hasProxy d then .err "no-account"
  else if !checkSender (rootOwner s d) caller sender then .err "unauthorized"
  else (msgSend s.vals s.bank (proxyOf d) to denom amt).bind fun b => .ok { s with bank := b }

/-- what one share-class payout does to the bank: Convert at the module (bond → fee) and the fee coins to the recipient -/
def payOne (b : Bank) (u : Unb) : Bank :=
  (((b.credit stakingPool bond (-u.amount)).addSupply bond (-u.amount)).addSupply fee u.amount).credit u.who fee u.amount

/-- shareclass end-block (current code): every queued unbonding with `completion ≤ t` is paid, the others stay -/
def payScUnb (b : Bank) (t : Int) : List Unb → Bank × List Unb
  | [] => (b, [])
  | u :: r =>
    if u.completion ≤ t then payScUnb (payOne b u) t r
    else let (b', r') := payScUnb b t r; (b', u :: r')

def doBlock (s : St) (t : Int) : Res St :=
  if t < s.now then .err "time"
  else
  let (b1, ub) := releaseUbds s.bank t s.ubds
  let (b2, sc) := payScUnb b1 t s.scUnb
  .ok { s with bank := b2, ubds := ub, scUnb := sc, now := t, height := s.height + 1 }

def apply (s : St) : Op → Res St
  | .init v f o funds sz st ez en => doInit s v f o funds sz st ez en
  | .deposit src dst d x => (msgSend s.vals s.bank src dst d x).bind fun b => .ok { s with bank := b }
  | .block t => doBlock s t
  | .send c sd to d x => doSend s c sd to d x
  | .nvDelegate c sd v d x e => doNvDelegate s c sd v d x e
  | .nvUndelegate c sd v d x e => doNvUndelegate s c sd v d x e
  | .nvWithdrawReward c sd e => doNvWithdrawReward s c sd e
  | .sdSelfDelegate c sd x e => doSdSelfDelegate s c sd x e
  | .sdWithdraw c sd x => doSdWithdraw s c sd x
  | .pxUndelegate d c sd x e => doPxUndelegate s d c sd x e
  | .pxWithdrawReward d c sd e => doPxWithdrawReward s d c sd e
  | .pxSend d c sd to dn x => doPxSend s d c sd to dn x
  | .modSelfDelegate d x e => modSelfDelegate s d x e
  | .modWithdraw d x => modWithdraw s d x

def step (s : St) (op : Op) : St × String :=
  if s.halted then (s, "halted")
  else match apply s op with
  | .ok s' => (s', "ok")
  | .err _ => (match op with | .block _ => ({ s with halted := true }, "halt") | _ => (s, "err"))
  | .panic _ => (s, "panic")

def run (s : St) (ops : List Op) : St := ops.foldl (fun st op => (step st op).1) s

/-! ### what the properties are about -/

/-- the account's share tokens of all validators, at 1:1 -/
def sumShares (b : Bank) : List Addr → Int
  | [] => 0
  | v :: r => b.bal lock (shareOf v) + sumShares b r

def custody (s : St) : Int :=
  match s.variant with
  | .nv => s.bank.bal lock fee + sumShares s.bank s.vals + sumUnb lock s.scUnb
  | .sd => s.bank.bal lock fee + s.bank.bal "plock" bond + s.stake "plock" + sumUnb "plock" s.ubds

def actualDelegated (s : St) : Int :=
  match s.variant with
  | .nv => sumShares s.bank s.vals + totalEntries s.entries
  | .sd => s.stake "plock" + sumUnb "plock" s.ubds + s.bank.bal "plock" bond

end Sunrise.LockupMV
