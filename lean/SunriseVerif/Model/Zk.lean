import SunriseVerif.Model.Result
/-!
C20 — the relation proved by `zkp.ValidityProofCircuit` (x/da/zkp/zkp.go):
  private `ShardHash` h, public `ShardDoubleHash` y, constraint `MiMC(h) = y` over the BN254 scalar field.
MiMC is an abstract function parameter (its collision resistance is a cryptographic assumption, not modelled).
`Msg/SubmitValidityProof` assigns the stored `[]byte` double hash to the public input; gnark turns a byte string into a
field element as "big-endian integer mod r" (`fr.Element.SetBytes`) — `decode` below. Core-only, executable.
-/
namespace Sunrise.Zk

/-- the circuit relation -/
def R {F : Type} (mimc : F → F) (h y : F) : Prop := mimc h = y

instance {F : Type} [DecidableEq F] (mimc : F → F) (h y : F) : Decidable (R mimc h y) := by
  unfold R; exact inferInstance

/-- BN254 scalar field modulus `r` -/
def rMod : Nat := 21888242871839275222246405745257275088548364400416034343698204186575808495617

def beNat (bs : List UInt8) : Nat := bs.foldl (fun a b => a * 256 + b.toNat) 0

/-- `fr.Element.SetBytes`: big-endian integer reduced mod r -/
def decode (bs : List UInt8) : Nat := beNat bs % rMod

/-- canonical encoding: exactly 32 bytes and the integer is already `< r` (what `Element.Bytes()` produces) -/
def canonical (bs : List UInt8) : Bool := bs.length == 32 && decide (beNat bs < rMod)

/-- The statement the verifier checks for public input bytes `y`, given the proof was made for field element `h`:
    (Groth16 completeness + knowledge soundness are the trusted link between "verifies" and this relation) -/
def relBytes (mimc : Nat → Nat) (h : Nat) (y : List UInt8) : Prop := R mimc h (decode y)

instance (mimc : Nat → Nat) (h : Nat) (y : List UInt8) : Decidable (relBytes mimc h y) := by
  unfold relBytes; exact inferInstance

/-- The proof loop of `msgServer.SubmitValidityProof` (after the sender/status/period checks, which belong to the DA
    state machine): `proofs[k]` is characterised by the value `MiMC(h_k)` of the shard hash it was generated from
    (Groth16 soundness/completeness: it verifies exactly against public inputs satisfying the relation),
    `ys` are the stored `ShardDoubleHashes`. -/
def submitValidityProof (indices : List Int) (proofs : List Nat) (ys : List (List UInt8)) : Res Unit :=
  if indices.length ≠ proofs.length then .err "indices-proofs-mismatch"
  else
    let rec go : List Int → List Nat → Res Unit
      | j :: js, m :: ms =>
        if (ys.length : Int) ≤ j then .err "index-overflow"
        else if j < 0 then .panic .indexRange            -- `ShardDoubleHashes[j]` with a negative j (S5)
        else if m = decode (ys.getD j.toNat []) then go js ms
        else .err "verify"
      | _, _ => .ok ()
    go indices proofs

end Sunrise.Zk
