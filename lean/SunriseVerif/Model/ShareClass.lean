import SunriseVerif.Model.Bank
import SunriseVerif.Model.Convert
import SunriseVerif.Model.Dec34
import SunriseVerif.Gen.KernelsShare
/-!
  x/shareclass (non-voting delegation) over the bank model, following the code AFTER the two `fix:` commits of
  known_findings/C10.json (ClaimRewards checkpoints the claimer; the end-blocker skips entries that complete later
  within the current second).  Handlers in code order:

  * msg_server_non_voting_delegate.go, msg_server_non_voting_undelegate.go, msg_server_claim_rewards.go
  * keeper_claim.go (ClaimRewards / GetClaimableRewards / GetClaimableRewardsByDenom), keeper_share.go, keeper_delegate.go
  * abci.go → keeper_rewards.go (HandleModuleAccountRewardsByValidator) → keeper_withdraw.go (GarbageCollectUnbonded)
    over store_unbonding.go (queue indexed by completion time truncated to SECONDS, then id)
  * arithmetic: the four kernels REGENERATED from types.go (Gen/KernelsShare.lean) over Model/Dec34.lean.

  Boundary inputs (staking, distribution), carried by the operations: the module account's delegation balance
  (`staked`), the outcome of the staking message and its completion time, the coins distribution's hooks paid into the
  module account during the message (`hook`), per end-block the bond tokens staking released (`matured`) and the
  coins withdrawn per validator (`rewards`).

  `ValidateLastRewardHandlingTime` (keeper_rewards.go:15-38) only records a timestamp and returns nil on both paths:
  it gates nothing and is not modelled.  Ghost fields `received`/`claimed`/`paidOut` record totals for the theorems.
-/
namespace Sunrise.ShareClass
open Sunrise Sunrise.Gen.KernelsShare

abbrev Val := String

def moduleAcc : Addr := "module:shareclass"
def saver (v : Val) : Addr := "saver:" ++ v
def shareDenom (v : Val) : Denom := "share/" ++ v
def feeDenom : Denom := "urise"
def bondDenom : Denom := "uvrise"
/-- every denom a reward saver can hold (rewards are minted in the fee and the bond denom, app/mint/mint.go) -/
def rewardDenoms : List Denom := [feeDenom, bondDenom]

structure Unb where
  id : Nat
  rcpt : Addr
  amount : Int
  completion : Int      -- unix nanoseconds
deriving DecidableEq, Repr

abbrev Coins := List (Denom × Int)

structure St where
  bank : Bank
  /-- reward_multiplier[validator, denom]; absent = 0 (keeper_claim.go:14-23) -/
  mult : Val → Denom → D34
  /-- denoms for which reward_multiplier[validator, ·] has an entry -/
  hasMult : Val → Denom → Bool
  /-- users_last_reward_multiplier[user, validator, denom]; absent = 0 -/
  last : Addr → Val → Denom → D34
  unb : List Unb          -- in id order
  nextId : Nat
  /-- bank send-enabled table entries written by the module (SetSendEnabled(shareDenom,false)) -/
  sendOff : Denom → Bool
  -- ghost totals
  received : Val → Denom → Int
  claimed : Val → Denom → Int
  paidOut : Nat → Int     -- by unbonding id: total paid for that entry

instance : Inhabited St := ⟨⟨default, fun _ _ => D34.zero, fun _ _ => false, fun _ _ _ => D34.zero, [], 0, fun _ => false,
  fun _ _ => 0, fun _ _ => 0, fun _ => 0⟩⟩

def St.init (b : Bank) : St :=
  ⟨b, fun _ _ => D34.zero, fun _ _ => false, fun _ _ _ => D34.zero, [], 0, fun _ => false, fun _ _ => 0, fun _ _ => 0, fun _ => 0⟩

/-! ### rewards -/

/-- GetClaimableRewardsByDenom (keeper_claim.go:99-121) -/
def claimableByDenom (s : St) (u : Addr) (v : Val) (d : Denom) : Int :=
  CalculateReward (s.mult v d) (s.last u v d) (s.bank.bal u (shareDenom v))

/-- GetClaimableRewards: one entry per denom the reward saver currently holds; `sdk.NewCoin` panics on a negative
    amount; zero coins are dropped by `Coins.Add`. -/
def claimable (s : St) (u : Addr) (v : Val) : Res Coins :=
  rewardDenoms.foldlM (init := []) fun acc d =>
    if s.bank.bal (saver v) d ≤ 0 then .ok acc
    else
      let a := claimableByDenom s u v d
      if a < 0 then .panic .explicit
      else if a = 0 then .ok acc else .ok (acc ++ [(d, a)])

def sendCoins (b : Bank) (src dst : Addr) (cs : Coins) : Res Bank :=
  cs.foldlM (init := b) fun b c => b.send src dst c.1 c.2

def creditCoins (b : Bank) (a : Addr) (cs : Coins) : Bank :=
  cs.foldl (init := b) fun b c => b.credit a c.1 c.2

def addClaimed (f : Val → Denom → Int) (v : Val) (cs : Coins) : Val → Denom → Int :=
  cs.foldl (init := f) fun f c => fun v' d' => if v' = v ∧ d' = c.1 then f v c.1 + c.2 else f v' d'

/-- Keeper.ClaimRewards (keeper_claim.go:53-86, fixed): pay, then checkpoint the claimer at the current multiplier
    of EVERY denom that has one. -/
def claimRewards (s : St) (u : Addr) (v : Val) : Res (St × Coins) :=
  (claimable s u v).bind fun total =>
  (sendCoins s.bank (saver v) u total).bind fun b =>
  .ok ({ s with bank := b,
                last := fun u' v' d' => if u' = u ∧ v' = v ∧ s.hasMult v d' then s.mult v d' else s.last u' v' d',
                claimed := addClaimed s.claimed v total }, total)

/-! ### shares -/

/-- keeper_share.go CalculateShareByAmount: zero total share short-circuits before the staking query; the query fails
    when the module account has no delegation at the validator. -/
def shareByAmount (s : St) (v : Val) (staked : Option Int) (amount : Int) : Res Int :=
  let totalShare := s.bank.sup (shareDenom v)
  if totalShare = 0 then .ok amount
  else match staked with
    | none => .err "delegation-not-found"
    | some tb =>
      if CalculateShareByAmount_err totalShare tb amount then .err "dec" else .ok (CalculateShareByAmount totalShare tb amount)

/-! ### messages -/

structure StakeExt where
  staked : Option Int
  stakeOk : Bool
  completion : Int
  hook : Coins

/-- Msg/NonVotingDelegate -/
def delegate (s : St) (u : Addr) (v : Val) (amount : Int) (denom : Denom) (x : StakeExt) : Res St :=
  if denom ≠ feeDenom then .err "denom" else
  (claimRewards s u v).bind fun (s1, _) =>
  (shareByAmount s1 v x.staked amount).bind fun share =>
  -- ConvertAndDelegate: sdk.NewCoin(bondDenom, amount) panics on a negative amount
  if amount < 0 then .panic .explicit else
  (s1.bank.send u moduleAcc feeDenom amount).bind fun b1 =>
  (Convert.convertReverse bondDenom feeDenom b1 moduleAcc amount).bind fun b2 =>
  if !x.stakeOk then .err "staking" else
  -- staking moves the bond tokens into its pool; distribution's hooks pay pending rewards into the module account
  (b2.send moduleAcc "module:bonded_pool" bondDenom amount).bind fun b3 =>
  let b4 := creditCoins b3 moduleAcc x.hook
  if share < 0 then .panic .explicit else
  (b4.mint moduleAcc (shareDenom v) share).bind fun b5 =>
  (b5.send moduleAcc u (shareDenom v) share).bind fun b6 =>
  .ok { s1 with bank := b6, sendOff := fun d => if d = shareDenom v then true else s1.sendOff d }

/-- Msg/NonVotingUndelegate -/
def undelegate (s : St) (u : Addr) (v : Val) (amount : Int) (rcpt : Addr) (x : StakeExt) : Res St :=
  if amount ≤ 0 then .err "amount" else
  (claimRewards s u v).bind fun (s1, _) =>
  (shareByAmount s1 v x.staked amount).bind fun share =>
  if share < 0 then .panic .explicit else
  (s1.bank.send u moduleAcc (shareDenom v) share).bind fun b1 =>
  (b1.burn moduleAcc (shareDenom v) share).bind fun b2 =>
  if !x.stakeOk then .err "staking" else
  let b3 := creditCoins b2 moduleAcc x.hook
  .ok { s1 with bank := b3, unb := s1.unb ++ [⟨s1.nextId, rcpt, amount, x.completion⟩], nextId := s1.nextId + 1 }

/-! ### end-blocker -/

def NS : Int := 1000000000
/-- time.Time.Unix() of a nanosecond timestamp -/
def unixSec (t : Int) : Int := t / NS

/-- HandleModuleAccountRewardsByValidator after the withdrawal returned `coins` (non-zero): forward to the reward saver,
    then raise the multipliers unless the share supply is zero. Errors are only logged by the caller. -/
def handleRewards (s : St) (v : Val) (coins : Coins) : St :=
  if coins.all (fun c => c.2 = 0) then s else
  let b0 := creditCoins s.bank moduleAcc coins
  match sendCoins b0 moduleAcc (saver v) coins with
  | .ok b1 =>
    let s1 := { s with bank := b1, received := addClaimed s.received v coins }
    let totalShare := b1.sup (shareDenom v)
    if totalShare = 0 then s1 else
    coins.foldl (init := s1) fun s c =>
      { s with mult := fun v' d' => if v' = v ∧ d' = c.1 then D34.reparse (CalculateRewardMultiplierNew (s.mult v c.1) c.2 totalShare) else s.mult v' d',
               hasMult := fun v' d' => if v' = v ∧ d' = c.1 then true else s.hasMult v' d' }
  | _ => { s with bank := b0 }

/-- position of an entry in the completion-time index: (seconds, id) -/
def idxLt (a b : Unb) : Bool :=
  unixSec a.completion < unixSec b.completion ∨ (unixSec a.completion = unixSec b.completion ∧ a.id < b.id)

def insertIdx (u : Unb) : List Unb → List Unb
  | [] => [u]
  | x :: xs => if idxLt u x then u :: x :: xs else x :: insertIdx u xs

def sortIdx (l : List Unb) : List Unb := l.foldr insertIdx []

/-- WithdrawUnbonded: Convert bond → fee on the module account, pay the recipient -/
def withdrawUnbonded (b : Bank) (e : Unb) : Res Bank :=
  (Convert.convert bondDenom feeDenom b moduleAcc e.amount).bind fun b1 =>
  b1.send moduleAcc e.rcpt feeDenom e.amount

/-- IterateCompletedUnbondings + GarbageCollectUnbonded over the index order: stop at the first entry of a later
    second; (fixed) skip entries of the current second that complete after `now`; (fixed) a payment that cannot be made
    runs on a branch of the state that is dropped: it is logged, its record stays and it is tried again in a later
    block — the end-blocker itself never fails. -/
def gc (now : Int) : List Unb → St → Res St
  | [], s => .ok s
  | e :: rest, s =>
    if unixSec e.completion > unixSec now then .ok s
    else if e.completion > now then gc now rest s
    else
      match withdrawUnbonded s.bank e with
      | .ok b =>
        gc now rest { s with bank := b, unb := s.unb.filter (fun x => x.id ≠ e.id),
                             paidOut := fun i => if i = e.id then s.paidOut i + e.amount else s.paidOut i }
      | _ => gc now rest s

/-- EndBlocker. `matured`: bond tokens the staking end-blocker (which runs earlier) released to the module account. -/
def endBlock (s : St) (now : Int) (matured : Int) (rewards : List (Val × Coins)) : Res St :=
  let s0 := { s with bank := s.bank.credit moduleAcc bondDenom matured }
  let s1 := rewards.foldl (init := s0) fun s r => handleRewards s r.1 r.2
  gc now (sortIdx s1.unb) s1

/-! ### state machine -/

inductive Op where
  | delegate (u : Addr) (v : Val) (amount : Int) (denom : Denom) (x : StakeExt)
  | undelegate (u : Addr) (v : Val) (amount : Int) (rcpt : Addr) (x : StakeExt)
  | claim (u : Addr) (v : Val)
  | block (now : Int) (matured : Int) (rewards : List (Val × Coins))

structure Out where
  cls : String
  paid : Coins := []

/-- a failing message changes nothing (transaction atomicity); the end-blocker cannot fail any more (`C10.block_never_halts`): the "halt" branch below is dead -/
def step (s : St) : Op → St × Out
  | .delegate u v a d x => match delegate s u v a d x with
    | .ok s' => (s', ⟨"ok", []⟩)
    | r => (s, ⟨r.cls, []⟩)
  | .undelegate u v a rc x => match undelegate s u v a rc x with
    | .ok s' => (s', ⟨"ok", []⟩)
    | r => (s, ⟨r.cls, []⟩)
  | .claim u v => match claimRewards s u v with
    | .ok (s', paid) => (s', ⟨"ok", paid⟩)
    | r => (s, ⟨r.cls, []⟩)
  | .block now m rw => match endBlock s now m rw with
    | .ok s' => (s', ⟨"ok", []⟩)
    | _ => (s, ⟨"halt", []⟩)

/-- sender and validator of the user-level operations (messages) -/
def Op.sender : Op → Option (Addr × Val)
  | .delegate u v _ _ _ => some (u, v)
  | .undelegate u v _ _ _ => some (u, v)
  | .claim u v => some (u, v)
  | .block _ _ _ => none

/-- accounts whose balances a message of `u` at validator `v` may change -/
def touched (u : Addr) (v : Val) : List Addr := [saver v, u, moduleAcc, Convert.moduleAcc, "module:bonded_pool"]

def run (s : St) : List Op → St
  | [] => s
  | op :: ops => run (step s op).1 ops

end Sunrise.ShareClass
