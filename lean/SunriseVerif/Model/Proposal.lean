import SunriseVerif.Model.DA
/-!
`app/abci_proposal.go` — hand-written executable model (core-only), tied to the Go code by the `proposal` correspondence suite
(`harness/cmd/svh/suite_proposal.go` ⇄ `Driver/Proposal.lean`).

The handler is in the consensus path of every block (`app/app.go`: SetPrepareProposal / SetProcessProposal / SetPreBlocker):
* `PrepareProposal` = default handler's selection, then — iff at least one item is VERIFIED — the splitter `"METADATA"` and one
  marshalled `MetadataUriWrapper` per VERIFIED item, in the order of the status/time index (`Timestamp.Unix()`, then uri bytes);
* `ProcessProposal` looks for the FIRST block entry equal to the splitter; every later entry that unmarshals to a wrapper with a
  non-empty uri of a KNOWN item whose status is not VERIFIED makes the proposal REJECTED; everything else is skipped; then the
  default handler decides;
* `PreBlocker` runs the module pre-blockers, then writes `VerifiedHeight = req.Height` on every listed known item (whatever its
  status — only ProcessProposal looks at the status).

State = the `PublishedData` map as the handler sees it. Uris are BYTE strings (a Go string; what a wrapper in a proposal carries
need not be UTF-8), `rest` is an opaque fingerprint of all other fields of the record (carried, never inspected).

`MetadataUriWrapper` (one field: `1: string metadata_uri`) is modelled at the byte level, following the gogoproto-generated
`Marshal` / `Unmarshal` / `skipMetadata` of `x/da/types/metadata.pb.go` statement by statement, including: varints of at most ten
bytes reduced modulo 2^64, `fieldNum := int32(wire >> 3)` (a tag whose number is 1 modulo 2^32 IS field 1), `fieldNum <= 0` and
wire type 4 refused, unknown fields skipped (groups with a depth counter, no matching of group numbers), repeated field 1 — last
wins, every truncation an error.  Every error of `Unmarshal` is the same thing to the handler (`continue`): `Option`.

Boundary: the default proposal handler (`baseapp.DefaultProposalHandler`; a parameter: its selection `sel` for prepare, its
verdict function for process), the module pre-blockers (flag), `collections` (a map with an ordered index).
-/
namespace Sunrise.Proposal
open Sunrise

abbrev Bytes := List UInt8

/-- `metadataUriSplitter` = ASCII "METADATA" -/
def SPL : Bytes := [0x4D, 0x45, 0x54, 0x41, 0x44, 0x41, 0x54, 0x41]

def TWO63 : Nat := 9223372036854775808
def TWO64 : Nat := 18446744073709551616
def TWO31 : Nat := 2147483648
def TWO32 : Nat := 4294967296

/-! ### protobuf varints -/

/-- `encodeVarintMetadata` with `f` continuation bytes still allowed -/
def encVarintF : Nat → Nat → Bytes
  | 0, v => [UInt8.ofNat v]
  | f + 1, v => if v < 128 then [UInt8.ofNat v] else UInt8.ofNat (v % 128 + 128) :: encVarintF f (v / 128)

/-- `encodeVarintMetadata(uint64)`: at most ten bytes (every v < 2^64 < 128^10 ends before the fuel does) -/
def encVarint (v : Nat) : Bytes := encVarintF 9 v

/-- the generated read loop `for shift := uint(0); ; shift += 7 { if shift >= 64 {overflow}; if iNdEx >= l {EOF}; … }` with `n`
    bytes still allowed (10 at the start: shifts 0,7,…,63): the UNREDUCED value Σ (bᵢ & 0x7f)·128ⁱ and the rest -/
def readVarint : Nat → Bytes → Option (Nat × Bytes)
  | 0, _ => none
  | _ + 1, [] => none
  | n + 1, b :: bs =>
    if b.toNat < 128 then some (b.toNat, bs) else
      match readVarint n bs with
      | some (v, r) => some ((b.toNat - 128) + 128 * v, r)
      | none => none

/-- a `uint64` accumulated with `|= uint64(b&0x7F) << shift`: bits beyond 63 are lost -/
def uvarint (bs : Bytes) : Option (Nat × Bytes) :=
  match readVarint 10 bs with
  | some (v, r) => some (v % TWO64, r)
  | none => none

def dropN (n : Nat) (bs : Bytes) : Option Bytes := if n ≤ bs.length then some (bs.drop n) else none

/-- `MetadataUriWrapper.Marshal` (proto3: the empty string is omitted — the wrapper of the empty uri is the EMPTY byte string) -/
def marshal (u : Bytes) : Bytes := if u.isEmpty then [] else 0x0A :: (encVarint u.length ++ u)

/-- `skipMetadata(dAtA)` from depth `depth` on: the bytes after the skipped field; `none` = any of its errors (also when the
    index runs past the end: the caller's `iNdEx+skippy > l`, or the loop's own exit with `io.ErrUnexpectedEOF`).
    Every iteration consumes the tag (≥ 1 byte): fuel `length + 1` is never exhausted. -/
def skipLoop : Nat → Nat → Bytes → Option Bytes
  | 0, _, _ => none
  | f + 1, depth, bs =>
    if bs.isEmpty then none else
    match uvarint bs with
    | none => none
    | some (wire, r) =>
      let k (d : Nat) (r' : Bytes) : Option Bytes := if d = 0 then some r' else skipLoop f d r'
      match wire % 8 with
      | 0 => match readVarint 10 r with
             | some (_, r') => k depth r'
             | none => none
      | 1 => match dropN 8 r with
             | some r' => k depth r'
             | none => none
      | 2 => match uvarint r with
             | some (len, r') =>
               if TWO63 ≤ len then none else
               match dropN len r' with
               | some r'' => k depth r''
               | none => none
             | none => none
      | 3 => k (depth + 1) r
      | 4 => if depth = 0 then none else k (depth - 1) r
      | 5 => match dropN 4 r with
             | some r' => k depth r'
             | none => none
      | _ => none

/-- the loop of `MetadataUriWrapper.Unmarshal`; `uri` = the field so far -/
def unmarshalLoop : Nat → Bytes → Bytes → Option Bytes
  | 0, _, _ => none
  | f + 1, uri, bs =>
    if bs.isEmpty then some uri else
    match uvarint bs with
    | none => none
    | some (wire, r) =>
      let wt := wire % 8
      let fn := (wire / 8) % TWO32          -- int32(wire >> 3), as its 32 bits
      if wt = 4 then none
      else if fn = 0 ∨ TWO31 ≤ fn then none -- fieldNum <= 0
      else if fn = 1 then
        if wt ≠ 2 then none else
        match uvarint r with
        | none => none
        | some (len, r') =>
          if TWO63 ≤ len then none           -- int(stringLen) < 0
          else if r'.length < len then none  -- postIndex > l
          else unmarshalLoop f (r'.take len) (r'.drop len)
      else
        match skipLoop (bs.length + 1) 0 bs with
        | none => none
        | some rest => unmarshalLoop f uri rest

/-- `MetadataUriWrapper.Unmarshal` on a zero value: the uri, or `none` for every error -/
def unmarshal (bs : Bytes) : Option Bytes := unmarshalLoop (bs.length + 1) [] bs

/-! ### the store as the handler sees it -/

structure PItem where
  uri : Bytes
  status : DA.Status
  ts : Int            -- Timestamp.Unix(): the key of the status/time index
  vh : Int            -- VerifiedHeight
  rest : String       -- fingerprint of every other field (opaque)
deriving Repr, DecidableEq

structure St where
  items : List PItem  -- the PublishedData map in key order
deriving Repr

/-- `GetPublishedData` -/
def find (s : St) (u : Bytes) : Option PItem := s.items.find? (fun it => it.uri == u)

/-- `data.VerifiedHeight = h; SetPublishedData(data)` for the record read under key `u` -/
def setVH (h : Int) (u : Bytes) : List PItem → List PItem
  | [] => []
  | x :: xs => if x.uri == u then { x with vh := h } :: xs else x :: setVH h u xs

/-- map semantics: the record found under an item's key is that item (keys are unique) -/
def St.wf (s : St) : Prop := ∀ it ∈ s.items, find s it.uri = some it

def bytesLt : Bytes → Bytes → Bool
  | [], [] => false
  | [], _ :: _ => true
  | _ :: _, [] => false
  | a :: as, b :: bs => decide (a.toNat < b.toNat) || (a == b && bytesLt as bs)

/-- order of `PublishedData.Indexes.StatusTime` inside one status: (Timestamp.Unix(), uri) -/
def idxLt (a b : PItem) : Bool := decide (a.ts < b.ts) || (a.ts == b.ts && bytesLt a.uri b.uri)

def insertIdx (x : PItem) : List PItem → List PItem
  | [] => [x]
  | y :: ys => if idxLt x y then x :: y :: ys else y :: insertIdx x ys

def sortIdx : List PItem → List PItem
  | [] => []
  | x :: xs => insertIdx x (sortIdx xs)

/-- `GetSpecificStatusData(ctx, STATUS_VERIFIED)` -/
def verified (s : St) : List PItem := sortIdx (s.items.filter fun it => it.status == DA.Status.ver)

/-! ### the handler -/

/-- the entries after the FIRST element equal to the splitter (`getSplitterIndex`), `none` = no splitter -/
def afterSplitter : List Bytes → Option (List Bytes)
  | [] => none
  | t :: ts => if t == SPL then some ts else afterSplitter ts

/-- `PrepareProposal`; `sel` = what the default handler selected -/
def prepare (s : St) (sel : List Bytes) : List Bytes :=
  let v := verified s
  if v.isEmpty then sel else sel ++ SPL :: v.map fun it => marshal it.uri

inductive Verdict | accept | reject
deriving DecidableEq, Repr

deriving instance DecidableEq for Res

/-- what `ProcessProposal` does with one entry after the splitter: `false` = REJECT -/
def entryOk (s : St) (e : Bytes) : Bool :=
  match unmarshal e with
  | none => true                       -- "failed to unmarshal metadata uri": continue
  | some u =>
    if u.isEmpty then true             -- "metadata uri is empty": continue
    else match find s u with
      | none => true                   -- "published data not found": continue
      | some it => it.status == DA.Status.ver

/-- `ProcessProposal`; `dflt` = the default handler's verdict on the same request -/
def process (dflt : List Bytes → Verdict) (s : St) (txs : List Bytes) : Res Verdict :=
  match afterSplitter txs with
  | some es => if es.all (entryOk s) then .ok (dflt txs) else .ok .reject
  | none => .ok (dflt txs)

/-- one entry after the splitter in `PreBlocker` -/
def applyEntry (h : Int) (s : St) (e : Bytes) : St :=
  match unmarshal e with
  | none => s
  | some u =>
    if u.isEmpty then s
    else match find s u with
      | none => s
      | some _ => { s with items := setVH h u s.items }

/-- `PreBlocker`; `mods` = the module pre-blockers all returned nil (boundary) -/
def preBlock (mods : Bool) (s : St) (h : Int) (txs : List Bytes) : Res St :=
  if !mods then .err "module pre-blocker" else
  match afterSplitter txs with
  | none => .ok s
  | some es => .ok (es.foldl (applyEntry h) s)

/-- `types.ComputeProtoSizeForTxs` of CometBFT (what `MaxTxBytes` bounds): field 1, length-delimited, per entry -/
def protoSize : List Bytes → Nat
  | [] => 0
  | t :: ts => 1 + (encVarint t.length).length + t.length + protoSize ts

/-! ### a node: proposals of any round may be prepared / processed any number of times between two decided blocks -/
inductive Op
  | prepare (sel : List Bytes)
  | process (txs : List Bytes)
  | finalize (h : Int) (txs : List Bytes)

def Op.isFinalize : Op → Bool
  | .finalize _ _ => true
  | _ => false

/-- the handler's part of one ABCI call on state `s` (module pre-blockers succeeding) -/
def step (s : St) : Op → St
  | .prepare _ => s
  | .process _ => s
  | .finalize h txs => match preBlock true s h txs with
    | .ok s' => s'
    | _ => s

def run (s : St) (ops : List Op) : St := ops.foldl step s

end Sunrise.Proposal
