import SunriseVerif.Model.CLBook
/-!
  Custody abstraction of one concentrated-liquidity pool (C02): the bookkeeping state of `CLBook` (positions, tick
  gross/net, cursor tick, active liquidity) plus the current sqrt price, the pool account's two balances and the exact
  (rational) amounts every open position is entitled to at the current price.

  Every operation carries the amounts that actually moved, and its guard states how those amounts relate to the EXACT
  value of the formula the code evaluates with fixed-point arithmetic: amounts paid INTO the pool are at least the exact
  value minus `e`, amounts paid OUT are at most the exact value plus `e`, where `e ≥ 0` is the rounding error of that
  evaluation in the trader's / LP's favour (a few 10^-18 for the kernels of x/liquiditypool/types/math.go — `Mul`/`Quo`
  round half-even before the final `Ceil`/truncation).  The errors add up in `slack`.

  * `deposit lo hi δ ab aq e`   — CreatePosition / the re-creation half of IncreaseLiquidity: UpdatePosition(+δ),
                                   amounts `CalcActualAmounts(…, roundUp = true)`
  * `withdraw i δ ab aq e`      — DecreaseLiquidity: UpdatePosition(−δ), amounts `CalcActualAmounts(…, roundUp = false)`
  * `swapDown P' c' ain aout e` — one base-for-quote swap step inside the current bucket (no initialised tick is passed):
                                   the pool receives `ain` base and pays `aout` quote
  * `swapUp P' c' ain aout e`   — one quote-for-base step
  * `crossDown t` / `crossUp t` — the step ended exactly on initialised tick t: cursor and active liquidity change, the
                                   price does not
  * `setPrice P c`              — first position of an empty (new or reset) pool fixes the price
  * `keep r`                    — the pool keeps a fraction of a coin (`TruncateInt` of the summed output of a swap)

  `sp` (tick ↦ sqrt price) is the pool's price grid: positive and strictly increasing (TickToSqrtPrice).
-/
namespace Sunrise.CLCustody
open Sunrise.CLBook

def PRECQ : Rat := 1000000000000000000

structure St where
  book : CLBook.St
  sp : Int → Rat
  P : Rat
  base : Rat
  quote : Rat
  slack : Rat

def clamp (x lo hi : Rat) : Rat := if x < lo then lo else if hi < x then hi else x

/-- exact quote amount of position x at sqrt price P:  L · (clamp(P) − √p_lo) -/
def entQuote (sp : Int → Rat) (P : Rat) (x : Pos) : Rat :=
  (x.liq : Rat) / PRECQ * (clamp P (sp x.lo) (sp x.hi) - sp x.lo)

/-- exact base amount of position x at sqrt price P:  L · (1/clamp(P) − 1/√p_hi) -/
def entBase (sp : Int → Rat) (P : Rat) (x : Pos) : Rat :=
  (x.liq : Rat) / PRECQ * (1 / clamp P (sp x.lo) (sp x.hi) - 1 / sp x.hi)

def sumR (f : Pos → Rat) : List Pos → Rat
  | [] => 0
  | x :: xs => f x + sumR f xs

def owedQuote (s : St) : Rat := sumR (entQuote s.sp s.P) s.book.pos
def owedBase (s : St) : Rat := sumR (entBase s.sp s.P) s.book.pos

inductive Op where
  | deposit (lo hi δ : Int) (ab aq e : Rat)
  | withdraw (i : Nat) (δ : Int) (ab aq e : Rat)
  | swapDown (P' : Rat) (c' : Int) (ain aout e : Rat)
  | swapUp (P' : Rat) (c' : Int) (ain aout e : Rat)
  | crossDown (t : Int)
  | crossUp (t : Int)
  | setPrice (P : Rat) (c : Int)
  | keep (rb rq : Rat)

/-- the bookkeeping operation(s) of `CLBook` performed by each custody operation -/
def bookOp : Op → Option CLBook.Op
  | .deposit lo hi δ _ _ _ => some (.add lo hi δ)
  | .withdraw i δ _ _ _ => some (.decrease i δ)
  | .swapDown _ c' _ _ _ => some (.moveWithin c')
  | .swapUp _ c' _ _ _ => some (.moveWithin c')
  | .crossDown t => some (.crossDown t)
  | .crossUp t => some (.crossUp t)
  | .setPrice _ c => some (.moveWithin c)
  | .keep _ _ => none

/-- the price lies in the closed price interval of the cursor tick -/
def priceInTick (sp : Int → Rat) (P : Rat) (c : Int) : Prop := sp c ≤ P ∧ P ≤ sp (c + 1)

def Op.guard (s : St) (op : Op) : Prop :=
  (match bookOp op with | some b => b.guard s.book | none => True) ∧
  match op with
  | .deposit lo hi δ ab aq e =>
      0 ≤ e ∧ 0 < s.P ∧
      entBase s.sp s.P ⟨lo, hi, δ⟩ ≤ ab + e ∧ entQuote s.sp s.P ⟨lo, hi, δ⟩ ≤ aq + e
  | .withdraw i δ ab aq e =>
      0 ≤ e ∧ 0 < s.P ∧
      (∃ x, s.book.pos[i]? = some x ∧
        ab ≤ entBase s.sp s.P ⟨x.lo, x.hi, δ⟩ + e ∧ aq ≤ entQuote s.sp s.P ⟨x.lo, x.hi, δ⟩ + e)
  | .swapDown P' c' ain aout e =>
      0 ≤ e ∧ 0 < P' ∧ P' ≤ s.P ∧ c' ≤ s.book.tick ∧ priceInTick s.sp P' c' ∧
      (s.book.active : Rat) / PRECQ * (1 / P' - 1 / s.P) ≤ ain + e ∧
      aout ≤ (s.book.active : Rat) / PRECQ * (s.P - P') + e
  | .swapUp P' c' ain aout e =>
      0 ≤ e ∧ 0 < s.P ∧ s.P ≤ P' ∧ s.book.tick ≤ c' ∧ priceInTick s.sp P' c' ∧
      (s.book.active : Rat) / PRECQ * (P' - s.P) ≤ ain + e ∧
      aout ≤ (s.book.active : Rat) / PRECQ * (1 / s.P - 1 / P') + e
  | .crossDown t => s.P = s.sp t
  | .crossUp t => s.P = s.sp t
  | .setPrice P c => 0 < P ∧ priceInTick s.sp P c ∧ (∀ x ∈ s.book.pos, x.liq = 0)
  | .keep rb rq => 0 ≤ rb ∧ 0 ≤ rq

def step (s : St) (op : Op) : St :=
  let book := match bookOp op with | some b => CLBook.step s.book b | none => s.book
  match op with
  | .deposit _ _ _ ab aq e => { s with book, base := s.base + ab, quote := s.quote + aq, slack := s.slack + e }
  | .withdraw _ _ ab aq e => { s with book, base := s.base - ab, quote := s.quote - aq, slack := s.slack + e }
  | .swapDown P' _ ain aout e => { s with book, P := P', base := s.base + ain, quote := s.quote - aout, slack := s.slack + e }
  | .swapUp P' _ ain aout e => { s with book, P := P', quote := s.quote + ain, base := s.base - aout, slack := s.slack + e }
  | .crossDown _ => { s with book }
  | .crossUp _ => { s with book }
  | .setPrice P _ => { s with book, P := P }
  | .keep rb rq => { s with base := s.base + rb, quote := s.quote + rq }

/-- the price grid: positive and strictly increasing -/
def GridOK (sp : Int → Rat) : Prop := (∀ t, 0 < sp t) ∧ (∀ a b : Int, a < b → sp a < sp b)

def init (sp : Int → Rat) (P : Rat) (c : Int) : St := ⟨CLBook.init c, sp, P, 0, 0, 0⟩

inductive Reachable : St → Prop where
  | init (sp : Int → Rat) (P : Rat) (c : Int) : GridOK sp → 0 < P → priceInTick sp P c → Reachable (init sp P c)
  | step {s : St} (op : Op) : Reachable s → op.guard s → Reachable (step s op)

/-- the C02 custody statement: the pool account covers the exact entitlement of all open positions, up to the accumulated
    rounding slack -/
structure Inv (s : St) : Prop where
  book : CLBook.Reachable s.book
  grid : GridOK s.sp
  ppos : 0 < s.P
  inTick : priceInTick s.sp s.P s.book.tick
  slackNN : 0 ≤ s.slack
  coverBase : owedBase s ≤ s.base + s.slack
  coverQuote : owedQuote s ≤ s.quote + s.slack

end Sunrise.CLCustody
