import SunriseVerif.Model.ShareClass
import SunriseVerif.Model.SCAccrual
/-!
  Abstraction of the store-level share-class model (`ShareClass.St`, which the `share` correspondence suite compares with the
  application line by line) to the reward-accounting abstraction `SCAccrual.St`, per validator and reward denom, and the
  lock-step comparison the driver runs on every successful operation: the abstract operations, fed with the amounts that
  actually moved, must be admissible (`Op.guardB`, with the rounding error the actual amounts imply, which must respect the
  relative bound `Op.tight` of 34-digit arithmetic) and must lead to the abstraction of the next state.
-/
namespace Sunrise.SCAccrual
open Sunrise

def pow10 (n : Nat) : Rat := ((10 ^ n : Nat) : Rat)

/-- value of a 34-digit decimal: coefficient · 10^exponent -/
def valD (x : D34) : Rat := if 0 ≤ x.e then (x.c : Rat) * pow10 x.e.toNat else (x.c : Rat) / pow10 (-x.e).toNat

/-- holders = the given accounts, in order; ghost totals are not part of the comparison -/
def absSC (s : ShareClass.St) (v : ShareClass.Val) (d : Denom) (accs : List Addr) : St :=
  { M := valD (s.mult v d)
    users := accs.map fun a => ⟨s.bank.bal a (ShareClass.shareDenom v), valD (s.last a v d)⟩
    recv := 0, paid := 0, slack := 0 }

def rmax (a b : Rat) : Rat := if a < b then b else a

/-- relative error bound of one 34-digit rounding: k = 2·10^33 (Props/C10Accrual: reward_guard_kernel, claim_guard_kernel) -/
def K : Rat := 2 * pow10 33

def tightB (s : St) : Op → Bool
  | .reward R _ e => decide (K * e ≤ R)
  | .claim i _ e => match s.users[i]? with | some u => decide (K * e ≤ accrued s.M u) | none => false
  | _ => true

/-- what happened in the store-level model -/
inductive Ev where
  | reward (R : Rat) (M' : Rat)        -- coins reached the saver, the multiplier is now M'
  | claim (i : Nat) (pay : Rat)
  | setShares (i : Nat) (δ : Int)

/-- the abstract operation with the smallest error that makes its guard true -/
def evToOp (s : St) : Ev → Op
  | .reward R M' =>
    if supply s.users ≤ 0 then .rewardNoShares R
    else .reward R M' (rmax 0 ((M' - s.M) * (supply s.users : Rat) - R))
  | .claim i pay =>
    match s.users[i]? with
    | some u => .claim i pay (rmax 0 (pay - accrued s.M u))
    | none => .claim i pay 0
  | .setShares i δ => .setShares i δ

def runEvs : St → List Ev → Option St
  | s, [] => some s
  | s, ev :: rest =>
    let op := evToOp s ev
    if op.guardB s && tightB s op then runEvs (step s op) rest else none

def obsEqSC (a b : St) : Bool :=
  decide (a.M = b.M) && a.users.length == b.users.length
  && (a.users.zip b.users).all fun (x, y) => x.share == y.share && decide (x.m = y.m)

/-- lock-step verdict for (validator, denom) -/
def lockstepSC (before after : ShareClass.St) (v : ShareClass.Val) (d : Denom) (accs : List Addr) (evs : List Ev) : Bool :=
  let a := absSC before v d accs
  let b := absSC after v d accs
  -- `reward` with no shares leaves the multiplier alone: compare after replacing the event's M' accordingly
  match runEvs a evs with
  | some a' => obsEqSC a' b
  | none => false

/-- executable form of the state part of `Inv`: shares non-negative, checkpoints not above the multiplier -/
def wfB (s : St) : Bool := s.users.all fun u => decide (0 ≤ u.share) && decide (u.m ≤ s.M)

end Sunrise.SCAccrual
