import SunriseVerif.Model.CLBook
/-!
  Fee-growth bookkeeping abstraction (C06), one denom, raw integers: global growth per unit of liquidity, the
  per-tick "growth outside" and the cursor.  Mirrors keeper_fee.go `calculateFeeGrowth` / `getFeeGrowthOutside` /
  `getInitialFeeGrowth`, keeper_tick.go `CrossTick` and the accumulator update of a swap step / incentive allocation.
-/
namespace Sunrise.CLFee

structure St where
  global : Int
  fo : Int → Int        -- fee growth outside, per tick
  cur : Int

/-- calculateFeeGrowth(lower, isUpper = false): global − fo when the cursor is below the tick, else fo -/
def below (s : St) (lo : Int) : Int := if s.cur < lo then s.global - s.fo lo else s.fo lo
/-- calculateFeeGrowth(upper, isUpper = true): global − fo when the cursor is at or above the tick, else fo -/
def above (s : St) (hi : Int) : Int := if s.cur ≥ hi then s.global - s.fo hi else s.fo hi
/-- growth inside = global − outside(lower) − outside(upper) -/
def inside (s : St) (lo hi : Int) : Int := s.global - below s lo - above s hi

/-- a swap step / incentive adds g to the global growth -/
def addGrowth (s : St) (g : Int) : St := { s with global := s.global + g }
/-- CrossTick: fo(t) := global − fo(t); quote-for-base leaves the cursor on t -/
def crossUp (s : St) (t : Int) : St := { s with fo := fun u => if u = t then s.global - s.fo t else s.fo u, cur := t }
/-- CrossTick going down: cursor t − 1 -/
def crossDown (s : St) (t : Int) : St := { s with fo := fun u => if u = t then s.global - s.fo t else s.fo u, cur := t - 1 }
def moveWithin (s : St) (t' : Int) : St := { s with cur := t' }
/-- getInitialFeeGrowth for a tick that was absent: global if the cursor is at or above it, else 0 -/
def initTick (s : St) (t : Int) : St := { s with fo := fun u => if u = t then (if s.cur ≥ t then s.global else 0) else s.fo u }

end Sunrise.CLFee
