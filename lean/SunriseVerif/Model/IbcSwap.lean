import SunriseVerif.Model.Bank
/-!
IBC swap middleware (x/swap/module/ibc_middleware.go, x/swap/keeper/ibc.go, both in-flight stores) over `Model/Bank`,
in code order, as the code stands in the verified worktree (with the four small fixes listed in design/C11.md).

Boundary (parameters of the model, recorded by the harness as fields of the op):
* the swap itself: `SwapExt` = error | (amountIn, amountOut, interfaceFee) — its effect on the bank is
  module → pool `amountIn` of the input denom, pool → module `amountOut`, module → provider `fee`;
* acknowledgement bytes are opaque tokens (`S`, `E<code>`, `R[…]`); the token of an error acknowledgement is supplied
  by the op (`tok`), the keeper's own "retry count exceeded" error acknowledgement is `E6` (sdkerrors.ErrUnknownRequest);
* ibc core: packet commitments, receipts, written acknowledgements, `NextSequenceSend`; an error acknowledgement
  returned by `OnRecvPacket` DISCARDS the callback's state changes, a `nil` acknowledgement keeps them and writes nothing;
* the transfer application: escrow / burn on send, unescrow / mint on receive, refund on error-ack and timeout;
* time: `timeout` is only issued by the harness once the packet's timeout has passed and it was not received.

Canonical names: channels `channel-0`/`channel-1` (port is always `transfer`), voucher denoms are trace paths without
the port (`channel-1/uaaa`), addresses are names (`a0`, `module:swap`, `escrow:channel-0`, `bad` = not bech32,
`blocked` = a blocked module account).
-/
namespace Sunrise.IbcSwap
open Sunrise

abbrev Chan := String

structure Idx where
  ch : Chan
  seq : Nat
deriving DecidableEq, Repr, Inhabited

/-- one `oneof` slot of IncomingInFlightPacket: nothing / index of the outgoing packet / acknowledgement bytes -/
inductive Slot where
  | none
  | idx (i : Idx)
  | ack (tok : String)
deriving DecidableEq, Repr, Inhabited

def Slot.isIdx : Slot → Bool | .idx _ => true | _ => false

/-- ForwardMetadata (receiver, channel, retries; port is `transfer`, `next` is empty) -/
structure LegMeta where
  ch : Chan
  receiver : Addr
  retries : Nat
deriving DecidableEq, Repr, Inhabited

inductive Strat where
  | exactIn
  | exactOut (change : Option LegMeta)
  | nil            -- no amount strategy in the memo: passes Validate, SwapIncomingFund dereferences a nil Int
deriving DecidableEq, Repr, Inhabited

structure SwapMeta where
  routeIn : Denom
  routeOut : Denom
  pool : Addr
  strat : Strat
  provider : Option Addr
  forward : Option LegMeta
deriving DecidableEq, Repr, Inhabited

/-- what DecodeSwapMetadata + Validate make of the memo (the parser is outside this model) -/
inductive Memo where
  | none       -- not a swap memo: the packet goes down the stack unchanged
  | invalid    -- Validate fails: error acknowledgement
  | panic      -- the decoder panics
  | swap (m : SwapMeta)
deriving DecidableEq, Repr, Inhabited

structure Packet where
  src : Chan
  dst : Chan
  seq : Nat
  denom : Denom       -- as in the packet data (full trace path)
  amount : Int
  sender : Addr
  receiver : Addr
  memo : Memo
deriving DecidableEq, Repr, Inhabited

structure IncRec where
  index : Idx          -- (destination channel, sequence) of the incoming packet
  ackTok : String      -- acknowledgement of the underlying transfer application
  resIn : Int
  resOut : Int
  fee : Int
  change : Slot
  forward : Slot
deriving DecidableEq, Repr, Inhabited

structure OutRec where
  index : Idx
  wait : Idx
  retries : Int
deriving DecidableEq, Repr, Inhabited

structure Ack where
  ok : Bool
  tok : String
deriving DecidableEq, Repr, Inhabited

/-- swap result supplied by the boundary -/
inductive SwapExt where
  | err
  | ok (amtIn amtOut fee : Int)
deriving DecidableEq, Repr, Inhabited

structure St where
  bank : Bank := Bank.empty
  nextSeq : Chan → Nat := fun _ => 1
  commits : Idx → Option Packet := fun _ => none   -- (source channel, seq)
  receipts : Idx → Bool := fun _ => false           -- (destination channel, seq)
  acks : Idx → Option Ack := fun _ => none          -- (destination channel, seq)
  inc : Idx → Option IncRec := fun _ => none
  out : Idx → Option OutRec := fun _ => none
  ackLog : List (Idx × Ack) := []                   -- every WriteAcknowledgement, newest first
  keys : List Idx := []                             -- every index ever touched (display only)

instance : Inhabited St := ⟨{}⟩

def swapMod : Addr := "module:swap"
def transferMod : Addr := "module:transfer"
def escrow (ch : Chan) : Addr := "escrow:" ++ ch
def retryExceededTok : String := "E6"
def defaultRetryCount : Nat := 3

def counterparty (ch : Chan) : Option Chan :=
  if ch = "channel-0" then some "channel-1" else if ch = "channel-1" then some "channel-0" else none

-- over `List Char`, so that concrete witnesses evaluate in the kernel (`decide`)
def hasPrefix (d : Denom) (ch : Chan) : Bool := (ch ++ "/").toList.isPrefixOf d.toList
def stripPrefix (d : Denom) (ch : Chan) : Denom := String.ofList (d.toList.drop ((ch ++ "/").toList.length))
def validAddr (a : Addr) : Bool := a != "bad" && a != ""
def blockedAddr (a : Addr) : Bool := a == "blocked"

def upd {β} (f : Idx → β) (i : Idx) (v : β) : Idx → β := fun j => if j = i then v else f j

def St.touch (s : St) (i : Idx) : St := if s.keys.contains i then s else { s with keys := s.keys ++ [i] }

/-- GetDenomForThisChain -/
def denomForThisChain (p : Packet) : Denom :=
  if hasPrefix p.denom p.src then stripPrefix p.denom p.src else p.dst ++ "/" ++ p.denom

/-! ### transfer application -/

/-- sendTransfer: burn a voucher that goes home, escrow everything else -/
def appSend (b : Bank) (sender : Addr) (ch : Chan) (d : Denom) (x : Int) : Res Bank :=
  if !validAddr sender then .err "invalid-sender"
  else if blockedAddr sender then .err "blocked"
  else if hasPrefix d ch then (b.send sender transferMod d x).bind fun b1 => b1.burn transferMod d x
  else b.send sender (escrow ch) d x

/-- OnRecvPacket of the transfer keeper, funds to `receiver` -/
def appRecv (b : Bank) (p : Packet) (receiver : Addr) : Res Bank :=
  if p.amount ≤ 0 then .err "invalid-amount"
  else if !validAddr receiver then .err "invalid-receiver"
  else if blockedAddr receiver then .err "blocked"
  else if hasPrefix p.denom p.src then b.send (escrow p.dst) receiver (stripPrefix p.denom p.src) p.amount
  else (b.mint transferMod (p.dst ++ "/" ++ p.denom) p.amount).bind fun b1 =>
    b1.send transferMod receiver (p.dst ++ "/" ++ p.denom) p.amount

/-- refundPacketTokens (error acknowledgement, timeout) -/
def appRefund (b : Bank) (p : Packet) : Res Bank :=
  if !validAddr p.sender then .err "invalid-sender"
  else if blockedAddr p.sender then .err "blocked"
  else if hasPrefix p.denom p.src then (b.mint transferMod p.denom p.amount).bind fun b1 =>
    b1.send transferMod p.sender p.denom p.amount
  else b.send (escrow p.src) p.sender p.denom p.amount

/-! ### ibc core pieces used by the keeper -/

/-- ChannelKeeper.SendPacket: next sequence of the channel, commitment stored -/
def sendPacket (s : St) (p : Packet) : St × Nat :=
  let n := s.nextSeq p.src
  let i : Idx := ⟨p.src, n⟩
  ({ s with nextSeq := fun c => if c = p.src then n + 1 else s.nextSeq c,
            commits := upd s.commits i (some { p with seq := n }) }.touch i, n)

/-- ChannelKeeper.WriteAcknowledgement: refuses a second acknowledgement for the same packet -/
def writeAck (s : St) (i : Idx) (a : Ack) : Res St :=
  match s.acks i with
  | some _ => .err "ack-exists"
  | none => .ok ({ s with acks := upd s.acks i (some a), ackLog := (i, a) :: s.ackLog }.touch i)

/-! ### keeper -/

def slotTok : Slot → String | .ack t => t | _ => "-"

/-- types.SwapAcknowledgement in canonical form -/
def swapAckTok (resIn resOut : Int) (incoming change forward : String) : String :=
  s!"R[{resIn},{resOut},{incoming},{change},{forward}]"

/-- ShouldDeleteCompletedWaitingPacket: still waiting ⇒ (false); else write the combined acknowledgement and delete -/
def shouldDelete (s : St) (r : IncRec) : Res (St × Bool) :=
  if r.change.isIdx then .ok (s, false)
  else if r.forward.isIdx then .ok (s, false)
  else
    (writeAck s r.index ⟨true, swapAckTok r.resIn r.resOut r.ackTok (slotTok r.change) (slotTok r.forward)⟩).bind fun s1 =>
    .ok ({ s1 with inc := upd s1.inc r.index none }, true)

def fillSlot (sl : Slot) (i : Idx) (tok : String) : Slot :=
  match sl with
  | .idx j => if j = i then .ack tok else sl
  | _ => sl

def moveSlot (sl : Slot) (i j : Idx) : Slot :=
  match sl with
  | .idx k => if k = i then .idx j else sl
  | _ => sl

/-- store the record unless it was completed (the tail of both handlers) -/
def finishWaiting (s : St) (r : IncRec) : Res St :=
  (shouldDelete s r).bind fun (s1, deleted) =>
    if deleted then .ok s1 else .ok ({ s1 with inc := upd s1.inc r.index (some r) }.touch r.index)

/-- OnAcknowledgementOutgoingInFlightPacket -/
def keeperOnAck (s : St) (o : OutRec) (tok : String) : Res St :=
  match s.inc o.wait with
  | none => .ok s
  | some r =>
    let s1 := { s with out := upd s.out o.index none }
    finishWaiting s1 { r with change := fillSlot r.change o.index tok, forward := fillSlot r.forward o.index tok }

/-- OnTimeoutOutgoingInFlightPacket; `true` = the packet was re-sent -/
def keeperOnTimeout (s : St) (p : Packet) (o : OutRec) : Res (St × Bool) :=
  let s1 := { s with out := upd s.out o.index none }
  let retries := o.retries - 1
  if retries > 0 then
    let (s2, n) := sendPacket s1 p
    let j : Idx := ⟨p.src, n⟩
    let s3 := { s2 with out := upd s2.out j (some { o with index := j, retries := retries }) }.touch j
    match s3.inc o.wait with
    | none => .ok (s3, true)
    | some r =>
      let r' : IncRec := { r with change := moveSlot r.change o.index j, forward := moveSlot r.forward o.index j }
      .ok ({ s3 with inc := upd s3.inc r.index (some r') }, true)
  else
    match s1.inc o.wait with
    | none => .ok (s1, false)
    | some r =>
      (finishWaiting s1 { r with change := fillSlot r.change o.index retryExceededTok,
                                 forward := fillSlot r.forward o.index retryExceededTok }).bind fun s2 => .ok (s2, false)

/-- TransferAndCreateOutgoingInFlightPacket: MsgTransfer from `sender`, then the outgoing record -/
def transferLeg (s : St) (wait : Idx) (sender : Addr) (d : Denom) (x : Int) (m : LegMeta) : Res (St × Idx) :=
  match counterparty m.ch with
  | none => .err "channel-not-found"
  | some dst =>
    if x ≤ 0 then .err "invalid-amount" else
    if m.receiver = "" then .err "invalid-receiver" else
    (appSend s.bank sender m.ch d x).bind fun b1 =>
      let (s1, n) := sendPacket { s with bank := b1 }
        { src := m.ch, dst := dst, seq := 0, denom := d, amount := x, sender := sender, receiver := m.receiver, memo := .none }
      let retries : Nat := if m.retries = 0 then defaultRetryCount else m.retries % 256
      let i : Idx := ⟨m.ch, n⟩
      .ok ({ s1 with out := upd s1.out i (some ⟨i, wait, retries⟩) }.touch i, i)

/-- the swap as the boundary reports it, applied to the bank (swapper = module account) -/
def applySwap (b : Bank) (m : SwapMeta) (x : SwapExt) : Res (Bank × Int × Int × Int) :=
  match x with
  | .err => .err "swap"
  | .ok ai ao fee =>
    (b.send swapMod m.pool m.routeIn ai).bind fun b1 =>
    (b1.send m.pool swapMod m.routeOut ao).bind fun b2 =>
    match m.provider with
    | some pr => if fee > 0 then (b2.send swapMod pr m.routeOut fee).bind fun b3 => .ok (b3, ai, ao, fee)
                 else .ok (b2, ai, ao, fee)
    | none => .ok (b2, ai, ao, fee)

/-- ProcessSwappedFund, change part: exact-out with `change` and a positive remainder ⇒ MsgTransfer FROM THE RECEIVER -/
def changeLeg (s : St) (idx : Idx) (p : Packet) (m : SwapMeta) (remainder : Int) (r : IncRec) : Res (St × IncRec) :=
  match m.strat with
  | .exactOut (some chg) =>
    if remainder > 0 then
      (transferLeg s idx p.receiver m.routeIn remainder chg).bind fun (s3, i) => .ok (s3, { r with change := .idx i })
    else .ok (s, r)
  | _ => .ok (s, r)

/-- ProcessSwappedFund, forward part: the net output is sent onward from the receiver -/
def forwardLeg (s : St) (idx : Idx) (p : Packet) (m : SwapMeta) (net : Int) (r : IncRec) : Res (St × IncRec) :=
  match m.forward with
  | some f => (transferLeg s idx p.receiver m.routeOut net f).bind fun (s4, i) => .ok (s4, { r with forward := .idx i })
  | none => .ok (s, r)

/-- SwapIncomingFund followed by ProcessSwappedFund (funds already in the module account).
    Result: new state and `some ack` (written by core) or `none` (asynchronous). -/
def swapAndProcess (s : St) (p : Packet) (m : SwapMeta) (x : SwapExt) : Res (St × Option Ack) :=
  if !validAddr p.receiver then .err "invalid-receiver" else
  if m.strat = .nil then .panic .nilDeref else
  (applySwap s.bank m x).bind fun (b1, ai, ao, fee) =>
  if ao - fee < 0 then .panic .explicit else
  if blockedAddr p.receiver then .err "blocked" else
  (b1.send swapMod p.receiver m.routeOut (ao - fee)).bind fun b2 =>
  let idx : Idx := ⟨p.dst, p.seq⟩
  let r0 : IncRec := { index := idx, ackTok := "S", resIn := ai, resOut := ao, fee := fee, change := .none, forward := .none }
  (changeLeg { s with bank := b2 } idx p m (p.amount - ai) r0).bind fun (s3, r1) =>
  (forwardLeg s3 idx p m (ao - fee) r1).bind fun (s4, r2) =>
  if r2.change.isIdx || r2.forward.isIdx then
    .ok ({ s4 with inc := upd s4.inc idx (some r2) }.touch idx, none)
  else
    .ok (s4, some ⟨true, swapAckTok ai ao "S" "-" "-"⟩)

/-! ### middleware callbacks -/

/-- IBCMiddleware.OnRecvPacket. `.ok (s', none)` = nil acknowledgement. An `.err` result stands for
    `NewErrorAcknowledgement` (core then discards the state and writes the error acknowledgement). -/
def onRecv (s : St) (p : Packet) (x : SwapExt) : Res (St × Option Ack) :=
  match p.memo with
  | .none => (appRecv s.bank p p.receiver).bind fun b => .ok ({ s with bank := b }, some ⟨true, "S"⟩)
  | .panic => .panic .typeAssert
  | .invalid => .err "invalid-memo"
  | .swap m =>
    if m.routeIn ≠ denomForThisChain p then .err "invalid-route" else
    (appRecv s.bank p swapMod).bind fun b => swapAndProcess { s with bank := b } p m x

/-- the transfer application's OnAcknowledgementPacket: refund on an error acknowledgement -/
def appOnAck (s : St) (p : Packet) (a : Ack) : Res St :=
  if a.ok then .ok s else (appRefund s.bank p).bind fun b => .ok { s with bank := b }

/-- IBCMiddleware.OnAcknowledgementPacket -/
def onAck (s : St) (p : Packet) (a : Ack) : Res St :=
  match s.out ⟨p.src, p.seq⟩ with
  | none => appOnAck s p a
  | some o => (keeperOnAck s o a.tok).bind fun s1 => appOnAck s1 p a

/-- IBCMiddleware.OnTimeoutPacket: the keeper first (may re-send), then ALWAYS the transfer application's refund -/
def onTimeout (s : St) (p : Packet) : Res St :=
  match s.out ⟨p.src, p.seq⟩ with
  | none => (appRefund s.bank p).bind fun b => .ok { s with bank := b }
  | some o => (keeperOnTimeout s p o).bind fun (s1, _) => (appRefund s1.bank p).bind fun b => .ok { s1 with bank := b }

/-! ### operations (one relayer / user message each) -/

inductive Op where
  | transfer (sender : Addr) (ch : Chan) (d : Denom) (x : Int) (receiver : Addr) (memo : Memo)
  | recv (ch : Chan) (seq : Nat) (x : SwapExt) (errTok : String)
  | ack (ch : Chan) (seq : Nat)
  | timeout (ch : Chan) (seq : Nat)
deriving Repr, Inhabited

/-- MsgTransfer of a user -/
def opTransfer (s : St) (sender : Addr) (ch : Chan) (d : Denom) (x : Int) (receiver : Addr) (memo : Memo) : St × String :=
  match counterparty ch with
  | none => (s, "err")
  | some dst =>
    if x ≤ 0 ∨ receiver = "" then (s, "err") else
    match appSend s.bank sender ch d x with
    | .ok b => ((sendPacket { s with bank := b } ⟨ch, dst, 0, d, x, sender, receiver, memo⟩).1, "ok")
    | r => (s, r.cls)

/-- MsgRecvPacket: commitment must exist on the sending end, a second receive is a no-op; an error acknowledgement
    discards what the callback did, a nil acknowledgement keeps it and writes nothing -/
def opRecv (s : St) (ch : Chan) (seq : Nat) (x : SwapExt) (errTok : String) : St × String :=
  match s.commits ⟨ch, seq⟩ with
  | none => (s, "err")
  | some p0 =>
    let p : Packet := { p0 with src := ch, seq := seq }  -- the packet relayed is the one committed under this key
    let i : Idx := ⟨p.dst, seq⟩
    if s.receipts i then (s, "ok") else
    let s0 := { s with receipts := upd s.receipts i true }.touch i
    match onRecv s0 p x with
    | .panic _ => (s, "panic")
    | .err _ => match writeAck s0 i ⟨false, errTok⟩ with | .ok s1 => (s1, "ok") | _ => (s, "err")
    | .ok (s1, none) => (s1, "ok")
    | .ok (s1, some a) => match writeAck s1 i a with | .ok s2 => (s2, "ok") | _ => (s, "err")

/-- MsgAcknowledgement: the acknowledgement relayed is the one written on the other end -/
def opAck (s : St) (ch : Chan) (seq : Nat) : St × String :=
  match s.commits ⟨ch, seq⟩ with
  | none => (s, "err")
  | some p0 =>
    let p : Packet := { p0 with src := ch, seq := seq }  -- the packet relayed is the one committed under this key
    match s.acks ⟨p.dst, seq⟩ with
    | none => (s, "err")
    | some a =>
      match onAck s p a with
      | .ok s1 => ({ s1 with commits := upd s1.commits ⟨ch, seq⟩ none }, "ok")
      | r => (s, r.cls)

/-- MsgTimeout (unordered channel): commitment exists, packet not received -/
def opTimeout (s : St) (ch : Chan) (seq : Nat) : St × String :=
  match s.commits ⟨ch, seq⟩ with
  | none => (s, "err")
  | some p0 =>
    let p : Packet := { p0 with src := ch, seq := seq }  -- the packet relayed is the one committed under this key
    if s.receipts ⟨p.dst, seq⟩ then (s, "err") else
    match onTimeout { s with commits := upd s.commits ⟨ch, seq⟩ none } p with
    | .ok s1 => (s1, "ok")
    | r => (s, r.cls)

/-- MsgTimeout delivered while the channel cannot carry a re-sent packet (`SendPacket` fails: the channel is not OPEN, the
    client is not active): with a retry left the keeper's handler returns that error and the whole message is rolled back —
    nothing changes, the relayer can deliver the timeout again later; without a retry left nothing is sent and the timeout
    proceeds as usual.  (Fault injection at the core-IBC boundary; not an `Op` of the histories the theorems quantify over: it
    is the identity on the state.) -/
def opTimeoutNoSend (s : St) (ch : Chan) (seq : Nat) : St × String :=
  match s.out ⟨ch, seq⟩ with
  | some o => if o.retries - 1 > 0 ∧ (opTimeout s ch seq).2 = "ok" then (s, "err") else opTimeout s ch seq
  | none => opTimeout s ch seq

def step (s : St) : Op → St × String
  | .transfer sender ch d x receiver memo => opTransfer s sender ch d x receiver memo
  | .recv ch seq x t => opRecv s ch seq x t
  | .ack ch seq => opAck s ch seq
  | .timeout ch seq => opTimeout s ch seq

def run (s : St) : List Op → St
  | [] => s
  | o :: os => run (step s o).1 os

end Sunrise.IbcSwap
