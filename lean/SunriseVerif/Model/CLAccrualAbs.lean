import SunriseVerif.Model.CL
import SunriseVerif.Model.CLAccrual
/-!
  Abstraction of the store-level model `CL.St` (which the `cl` correspondence suite compares with the application line by
  line) to the accrual abstraction `CLAccrual.St`, per pool and denom, and the executable form of `CLAccrual.Inv`.
  The driver evaluates `invOn` on the abstraction of every state it dumps: a state of the implementation that fails it is
  not a state of `CLAccrual` (see `Props/C06Accrual.lean: invOn_of_inv`), i.e. the theorems would not apply to the code.
-/
namespace Sunrise.CLAccrual
open Sunrise

def rawOf (l : DecCoins) (d : String) : Int := (DecCoins.amountOf l d).raw

/-- ticks that matter for pool `pool`: the stored ticks and every bound of a stored position -/
def ticksOf (s : CL.St) (pool : Nat) : List Int :=
  ((s.ticks.filter (·.pool == pool)).map (·.tick))
    ++ (s.positions.filter (·.pool == pool)).foldr (fun q acc => q.lower :: q.upper :: acc) []

/-- abstraction to (pool, denom); `k` = upper bound on the rounded products formed so far (counted by the driver);
    `recv − paid` is represented by the fee account's balance -/
def absOf (s : CL.St) (pool : Nat) (denom : String) (k : Int) : Option St :=
  match CL.getPool s pool, CL.getAccum s pool with
  | some p, some a =>
    let tk (t : Int) : Option CL.TickInfo := CL.findTick s pool t
    some {
      G := rawOf a.value denom
      fo := fun t => match tk t with | some ti => rawOf ti.feeGrowth denom | none => 0
      cur := p.tick
      gross := fun t => match tk t with | some ti => ti.gross.raw | none => 0
      net := fun t => match tk t with | some ti => ti.net.raw | none => 0
      active := p.liq.raw
      pos := (s.positions.filter (·.pool == pool)).map fun q =>
        match CL.getAccPos s q.id with
        | some ap => ⟨q.lower, q.upper, ap.shares.raw, rawOf ap.perShare denom, rawOf ap.unclaimed denom⟩
        | none => ⟨q.lower, q.upper, q.liq.raw, 0, 0⟩
      recv := s.bank.bal (CL.feesAddr pool) denom * PREC
      paid := 0
      k := k }
  | _, _ => none

/-- executable form of `Inv`, the tick-indexed equations evaluated on a finite list of ticks -/
def invOn (ts : List Int) (a : St) : Bool :=
  a.pos.all (fun p => decide (0 ≤ p.s) && decide (p.lo < p.hi) && decide (0 ≤ p.u)
      && (if 0 < p.s then decide (p.c ≤ inside a p.lo p.hi) else true))
  && ts.all (fun t =>
      decide (a.gross t = sumBy (fun p => (if p.lo = t then p.s else 0) + (if p.hi = t then p.s else 0)) a.pos)
      && decide (a.net t = sumBy (fun p => (if p.lo = t then p.s else 0) - (if p.hi = t then p.s else 0)) a.pos))
  && decide (a.active = sumBy (fun p => if inR a.cur p then p.s else 0) a.pos)
  && decide (2 * (sumBy (owed a) a.pos + a.paid * PREC) ≤ 2 * (a.recv * PREC) + a.k * PREC)
  && decide (0 ≤ a.k)

/-- the stored shares of every accumulator position equal the position's liquidity, and their sum is the accumulator's
    total (the abstraction reads shares where the bookkeeping model reads liquidity) -/
def sharesOk (s : CL.St) (pool : Nat) : Bool :=
  (s.positions.filter (·.pool == pool)).all (fun q =>
    match CL.getAccPos s q.id with
    | some ap => ap.shares.raw == q.liq.raw
    | none => false)
  && (match CL.getAccum s pool with
      | some a => a.totalShares.raw == ((s.positions.filter (·.pool == pool)).foldl (fun acc q => acc + q.liq.raw) 0)
      | none => false)

/-- one line for the dump of pool `pool`: "inv ok" or the failing denoms -/
def invLine (s : CL.St) (pool : Nat) (denoms : List String) (k : Int) : String :=
  let bad := denoms.filter fun d =>
    match absOf s pool d k with
    | some a => !(invOn (ticksOf s pool) a)
    | none => false
  if bad.isEmpty && (CL.getPool s pool).isNone then "inv ok"
  else if bad.isEmpty && sharesOk s pool then "inv ok"
  else "inv FAIL " ++ " ".intercalate bad ++ (if sharesOk s pool then "" else " shares")

/-! ### lock-step comparison: abstraction of the concrete step = abstract steps of the abstraction -/

/-- the guards of `Op.guard`, with the tick quantifiers evaluated on a finite list that contains every stored tick -/
def guardOn (ts : List Int) (s : St) : Op → Bool
  | .openPos lo hi δ => decide (lo < hi) && decide (0 < δ)
  | .change i δ => match s.pos[i]? with | some p => decide (0 < p.s) && decide (0 ≤ p.s + δ) | none => false
  | .claim i => match s.pos[i]? with | some p => decide (0 < p.s) | none => false
  | .fee f => decide (0 ≤ f)
  | .crossUp t => decide (s.cur < t) && ts.all (fun u => !(decide (s.cur < u) && decide (u < t)) || s.gross u == 0)
  | .crossDown t => decide (t ≤ s.cur) && ts.all (fun u => !(decide (t < u) && decide (u ≤ s.cur)) || s.gross u == 0)
  | .moveWithin t' =>
    (decide (s.cur ≤ t') && ts.all (fun u => !(decide (s.cur < u) && decide (u ≤ t')) || s.gross u == 0))
    || (decide (t' ≤ s.cur) && ts.all (fun u => !(decide (t' < u) && decide (u ≤ s.cur)) || s.gross u == 0))

/-- run abstract ops, refusing any whose guard fails -/
def runOps (ts : List Int) (s : St) : List Op → Option St
  | [] => some s
  | op :: rest => if guardOn ts s op then runOps ts (step s op) rest else none

def posKey (p : Pos) : List Int := [p.lo, p.hi, p.s, p.c, p.u]
def keyLe : List Int → List Int → Bool
  | [], _ => true
  | _ :: _, [] => false
  | a :: as, b :: bs => if a < b then true else if b < a then false else keyLe as bs

/-- live positions as a sorted list of tuples (the concrete store deletes a position whose liquidity reaches zero) -/
def canonPos (l : List Pos) : List (List Int) := ((l.filter (fun p => decide (0 < p.s))).map posKey).mergeSort keyLe

/-- equality of everything the accrual theorems speak about except the history variables: accumulator, cursor, active
    liquidity, tick sums, the growth outside of every tick in use, and the live positions -/
def obsEq (ts : List Int) (a b : St) : Bool :=
  a.G == b.G && a.cur == b.cur && a.active == b.active
  && ts.all (fun t => a.gross t == b.gross t && a.net t == b.net t && (b.gross t == 0 || a.fo t == b.fo t))
  && canonPos a.pos == canonPos b.pos

def evOps (isDenomIn : Bool) : CL.SwapEv → List Op
  | .fee f => if isDenomIn then [.fee f] else []
  | .step _ _ _ => []
  | .cross true t => [.crossUp t]
  | .cross false t => [.crossDown t]
  | .move t => [.moveWithin t]

/-- index of position `id` among the stored positions of its pool (= its index in `absOf … .pos`) -/
def posIndex (s : CL.St) (pool id : Nat) : Option Nat :=
  ((s.positions.filter (·.pool == pool)).map (·.id)).idxOf? id

/-- lock-step verdict for one (pool, denom): the abstraction of `after` must be what the abstract ops make of the
    abstraction of `before`; the fee account must have been paid what `claim` pays and received at least what `fee` books -/
def lockstep (before after : CL.St) (pool : Nat) (denom : String) (ops : List Op) : Bool :=
  match absOf before pool denom 0, absOf after pool denom 0 with
  | some a, some b =>
    let ts := ticksOf before pool ++ ticksOf after pool
    match runOps ts { a with recv := 0, paid := 0 } ops with
    | some a' =>
      let bal0 := before.bank.bal (CL.feesAddr pool) denom
      let bal1 := after.bank.bal (CL.feesAddr pool) denom
      obsEq ts a' b && decide ((bal1 - bal0) * PREC ≥ a'.recv - a'.paid)
        && (a'.recv != 0 || decide ((bal0 - bal1) * PREC = a'.paid))
    | none => false
  | none, none => true
  | _, _ => ops.isEmpty

end Sunrise.CLAccrual
