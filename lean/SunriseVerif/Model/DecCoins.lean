import SunriseVerif.Model.Dec
import SunriseVerif.Model.Result
/-! sdk.DecCoins as used by x/liquiditypool: denom-sorted lists without zero entries; `Sub` panics on a negative
    result ("negative coin amount"), `QuoDecTruncate` panics on a zero divisor, `MulDec` uses banker's `Mul`. -/
namespace Sunrise

abbrev DecCoins := List (String × Dec)

namespace DecCoins

def removeZero (l : DecCoins) : DecCoins := l.filter fun c => !c.2.isZero

/-- safeAdd: sorted merge, zero results dropped -/
def add : DecCoins → DecCoins → DecCoins
  | [], b => removeZero b
  | a, [] => removeZero a
  | (da, va) :: ta, (db, vb) :: tb =>
    if da < db then
      (if va.isZero then add ta ((db, vb) :: tb) else (da, va) :: add ta ((db, vb) :: tb))
    else if da = db then
      let r := Dec.add va vb
      (if r.isZero then add ta tb else (da, r) :: add ta tb)
    else
      (if vb.isZero then add ((da, va) :: ta) tb else (db, vb) :: add ((da, va) :: ta) tb)
termination_by a b => a.length + b.length

def neg (l : DecCoins) : DecCoins := l.map fun c => (c.1, Dec.neg c.2)
def anyNegative (l : DecCoins) : Bool := l.any fun c => c.2.isNegative

def safeSub (a b : DecCoins) : DecCoins × Bool :=
  let d := add a (neg b)
  (d, anyNegative d)

def sub (a b : DecCoins) : Res DecCoins :=
  let (d, n) := safeSub a b
  if n then .panic .explicit else .ok d

def amountOf (l : DecCoins) (d : String) : Dec :=
  match l.find? (fun c => c.1 == d) with
  | some c => c.2
  | none => Dec.zero

def mulDec (l : DecCoins) (d : Dec) : DecCoins :=
  l.foldl (fun acc c => let p := Dec.mul c.2 d; if p.isZero then acc else add acc [(c.1, p)]) []

def quoDecTruncate (l : DecCoins) (d : Dec) : Res DecCoins :=
  if d.isZero then .panic .divZero
  else .ok (l.foldl (fun acc c => let q := Dec.quoTruncate c.2 d; if q.isZero then acc else add acc [(c.1, q)]) [])

/-- TruncateDecimal: integer coins (zero dropped) and the fractional change (zero dropped) -/
def truncateDecimal (l : DecCoins) : List (String × Int) × DecCoins :=
  l.foldl (fun (acc : List (String × Int) × DecCoins) c =>
    let t := Dec.truncateInt c.2
    let change := Dec.sub c.2 (Dec.ofInt t)
    (if t = 0 then acc.1 else acc.1 ++ [(c.1, t)], if change.isZero then acc.2 else add acc.2 [(c.1, change)])) ([], [])

def isZero (l : DecCoins) : Bool := l.all fun c => c.2.isZero

def render (l : DecCoins) : String :=
  "[" ++ ",".intercalate (l.map fun c => c.1 ++ ":" ++ toString c.2.raw) ++ "]"

end DecCoins
end Sunrise
