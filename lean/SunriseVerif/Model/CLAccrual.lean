import SunriseVerif.Model.Dec
import SunriseVerif.Model.CLFee
/-!
  Store-level accrual abstraction (C06 / C02 fee custody), one pool, one denom, raw 10^18-scaled integers.
  Combines the bookkeeping of `CLBook` (gross / net / active liquidity, cursor), the fee-growth bookkeeping of `CLFee`
  (global growth per unit of liquidity, growth outside per tick) and the per-position lazy accounting of
  keeper_accumulator.go / keeper_fee.go:

  * position  = (lo, hi, shares s, checkpoint c of the growth inside, unclaimed u)
  * `openPos`  — UpsertTick ×2 (absent tick: getInitialFeeGrowth), pool liquidity, NewPositionIntervalAccumulation
  * `change`   — SetAccumulatorPositionFeeAccumulator on an existing position (Increase/DecreaseLiquidity):
                 unclaimed := GetTotalRewards (LegacyDec.Mul = banker's rounding), checkpoint := growth inside
  * `claim`    — prepareClaimableFees: total := GetTotalRewards; TruncateDecimal; the dust is re-added to the global
                 accumulator as QuoDecTruncate(dust, totalShares)
  * `fee f`    — one swap step or an incentive allocation: the fee account receives f, the global growth rises by
                 QuoTruncate(f, activeLiquidity) (nothing when there is no active liquidity)
  * `crossUp / crossDown / moveWithin` — cursor moves of the swap loop (guards: what the tick iterator provides)

  History variables: `recv` (raw amount that entered the fee account), `paid` (raw amount paid to claimants) and `k`
  (number of banker's-rounded products formed so far) — they only occur in the statements of the theorems.
  The arithmetic is the `Dec` model's (`chopRound`, `tquo`), which the kernel differential ties to LegacyDec.
-/
namespace Sunrise.CLAccrual
open Sunrise Sunrise.Dec

structure Pos where
  lo : Int
  hi : Int
  s : Int
  c : Int
  u : Int
deriving Repr, DecidableEq

structure St where
  G : Int
  fo : Int → Int
  cur : Int
  gross : Int → Int
  net : Int → Int
  active : Int
  pos : List Pos
  recv : Int
  paid : Int
  k : Int

def init (cur : Int) : St := ⟨0, fun _ => 0, cur, fun _ => 0, fun _ => 0, 0, [], 0, 0, 0⟩

def feeSt (s : St) : CLFee.St := ⟨s.G, s.fo, s.cur⟩
/-- growth inside [lo, hi) — keeper_fee.go getFeeGrowthOutside + SafeSub -/
def inside (s : St) (lo hi : Int) : Int := CLFee.inside (feeSt s) lo hi

def sumBy (f : Pos → Int) : List Pos → Int
  | [] => 0
  | x :: xs => f x + sumBy f xs

def inR (t : Int) (p : Pos) : Bool := decide (p.lo ≤ t ∧ t < p.hi)
def totalShares (s : St) : Int := sumBy (·.s) s.pos

/-- GetTotalRewards for position p: nothing without shares or when the checkpoint exceeds the accumulator;
    otherwise unclaimed + Mul(growth since checkpoint, shares) -/
def rewards (s : St) (p : Pos) : Int :=
  if p.s ≤ 0 then 0
  else if inside s p.lo p.hi < p.c then 0
  else p.u + chopRound ((inside s p.lo p.hi - p.c) * p.s)

/-- what position p is owed, in raw × 10^18 units (exact, before any rounding) -/
def owed (s : St) (p : Pos) : Int := p.u * PREC + p.s * (inside s p.lo p.hi - p.c)

inductive Op where
  | openPos (lo hi δ : Int)
  | change (i : Nat) (δ : Int)
  | claim (i : Nat)
  | fee (f : Int)
  | crossUp (t : Int)
  | crossDown (t : Int)
  | moveWithin (t : Int)

def Op.guard (s : St) : Op → Prop
  | .openPos lo hi δ => lo < hi ∧ 0 < δ
  | .change i δ => ∃ p, s.pos[i]? = some p ∧ 0 < p.s ∧ 0 ≤ p.s + δ
  | .claim i => ∃ p, s.pos[i]? = some p ∧ 0 < p.s
  | .fee f => 0 ≤ f
  | .crossUp t => s.cur < t ∧ ∀ u, s.cur < u → u < t → s.gross u = 0
  | .crossDown t => t ≤ s.cur ∧ ∀ u, t < u → u ≤ s.cur → s.gross u = 0
  | .moveWithin t' => (s.cur ≤ t' ∧ ∀ u, s.cur < u → u ≤ t' → s.gross u = 0)
                      ∨ (t' ≤ s.cur ∧ ∀ u, t' < u → u ≤ s.cur → s.gross u = 0)

/-- getInitialFeeGrowth when the tick is absent (gross = 0), else the stored value -/
def initFo (s : St) (t : Int) : Int → Int :=
  fun u => if u = t ∧ s.gross t = 0 then (if s.cur ≥ t then s.G else 0) else s.fo u

def applyDelta (s : St) (lo hi δ : Int) (pos : List Pos) : St :=
  { s with
    pos := pos
    gross := fun t => s.gross t + (if t = lo then δ else 0) + (if t = hi then δ else 0)
    net := fun t => s.net t + (if t = lo then δ else 0) - (if t = hi then δ else 0)
    active := if lo ≤ s.cur ∧ s.cur < hi then s.active + δ else s.active }

/-- QuoDecTruncate(dust, totalShares) re-added to the accumulator by a claim -/
def dustGrowth (dust T : Int) : Int := if dust = 0 ∨ T = 0 then 0 else tquo (dust * PREC) T

def step (s : St) : Op → St
  | .openPos lo hi δ =>
    let s1 := { s with fo := initFo s lo }
    let s2 := { s1 with fo := initFo s1 hi }
    applyDelta s2 lo hi δ (⟨lo, hi, δ, inside s2 lo hi, 0⟩ :: s.pos)
  | .change i δ =>
    match s.pos[i]? with
    | some p =>
      let p' : Pos := { p with s := p.s + δ, c := inside s p.lo p.hi, u := rewards s p }
      { applyDelta s p.lo p.hi δ (s.pos.set i p') with k := s.k + 1 }
    | none => s
  | .claim i =>
    match s.pos[i]? with
    | some p =>
      let tot := rewards s p
      let pay := tquo tot PREC
      let dust := tot - pay * PREC
      let p' : Pos := { p with c := inside s p.lo p.hi, u := 0 }
      { s with pos := s.pos.set i p', paid := s.paid + pay * PREC, k := s.k + 1,
               G := s.G + dustGrowth dust (totalShares s) }
    | none => s
  | .fee f =>
    { s with G := s.G + (if s.active = 0 then 0 else tquo (f * PREC) s.active), recv := s.recv + f }
  | .crossUp t =>
    { s with fo := fun u => if u = t then s.G - s.fo t else s.fo u, cur := t, active := s.active + s.net t }
  | .crossDown t =>
    { s with fo := fun u => if u = t then s.G - s.fo t else s.fo u, cur := t - 1, active := s.active - s.net t }
  | .moveWithin t' => { s with cur := t' }

/-- amount paid by `claim i` in state s (integer coins) -/
def claimPay (s : St) (i : Nat) : Int :=
  match s.pos[i]? with
  | some p => tquo (rewards s p) PREC
  | none => 0

structure Inv (s : St) : Prop where
  wf : ∀ p ∈ s.pos, 0 ≤ p.s ∧ p.lo < p.hi ∧ 0 ≤ p.u ∧ (0 < p.s → p.c ≤ inside s p.lo p.hi)
  gross_eq : ∀ t, s.gross t = sumBy (fun p => (if p.lo = t then p.s else 0) + (if p.hi = t then p.s else 0)) s.pos
  net_eq : ∀ t, s.net t = sumBy (fun p => (if p.lo = t then p.s else 0) - (if p.hi = t then p.s else 0)) s.pos
  active_eq : s.active = sumBy (fun p => if inR s.cur p then p.s else 0) s.pos
  /-- everything owed plus everything paid is covered by what the fee account received, up to half an ulp (10^-18 of
      one coin) per rounded product -/
  backed : 2 * (sumBy (owed s) s.pos + s.paid * PREC) ≤ 2 * (s.recv * PREC) + s.k * PREC
  k_nonneg : 0 ≤ s.k

inductive Reachable : St → Prop where
  | init (t : Int) : Reachable (init t)
  | step {s : St} (op : Op) : Reachable s → op.guard s → Reachable (step s op)

end Sunrise.CLAccrual
