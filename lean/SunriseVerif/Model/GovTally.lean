import SunriseVerif.Model.Dec
import SunriseVerif.Model.Result
/-!
C16 — the custom governance tally `app/gov/gov.go: ProvideCalculateVoteResultsAndVotingPowerFn` (as FIXED by the three
`fix:` commits of known_findings/C16.json), statement by statement.

Go state                                            model
--------------------------------------------------  -------------------------------------------------------------
`validators map[string]v1.ValidatorGovInfo`         `vs : List Val` (immutable columns: address, BondedTokens, DelegatorShares,
                                                    initial deductions / vote) + the two MUTATED columns as functions of
                                                    the key: `Acc.ded`, `Acc.vote` (a map of records = a record of maps;
                                                    `validators[k] = val` ↔ `upd f k x`, guarded by `k` being a key)
`stakingKeeper.IterateDelegations(ctx, a, fn)`      the sub-list of `ds : List Deleg` with `delegator = a`, in order
`keeper.Votes.Walk(proposal)`                       `votes : List Vote` in store (key) order
`results[opt] = results[opt].Add(subPower)`,        the ballots `(votingPower, options)` are listed in the order in which
`totalVP = totalVP.Add(votingPower)`                the code produces them (`Acc.ballots`, then pass 3) and folded by
                                                    `accumulate` in that order (the accumulators are only read at the end)
`LegacyDec.Quo` by zero (big.Int panic)             `ok := false` → `Res.panic .divZero` (never defaulted)
`stakingKeeper.TotalBondedTokens`                   `bonded : Int` (recorded boundary value)

Not modelled: the 2^256 range assertion of LegacyDec, malformed weight strings (`LegacyNewDecFromStr` error ignored by
the code: Msg/VoteWeighted validates weights), store errors.
-/
namespace Sunrise.GovTally
open Sunrise

/-- v1.WeightedVoteOption: option 1 yes, 2 abstain, 3 no, 4 no-with-veto, 5 spam -/
structure WOpt where
  opt : Nat
  weight : Dec
deriving DecidableEq, Repr

/-- one entry of `validators` as `getCurrentValidators` builds it -/
structure Val where
  addr : String
  bonded : Int
  shares : Dec
  ded : Dec := Dec.zero
  vote : List WOpt := []
deriving DecidableEq, Repr

structure Deleg where
  delegator : String
  validator : String
  shares : Dec
deriving DecidableEq, Repr

structure Vote where
  voter : String
  options : List WOpt
deriving DecidableEq, Repr

/-- `results map[VoteOption]LegacyDec` restricted to the five keys `createEmptyResults` makes (what
    `NewTallyResultFromMap` reads) -/
structure Results where
  yes : Dec := Dec.zero
  abstain : Dec := Dec.zero
  no : Dec := Dec.zero
  veto : Dec := Dec.zero
  spam : Dec := Dec.zero
deriving DecidableEq, Repr

def Results.addTo (r : Results) (k : Nat) (x : Dec) : Results :=
  if k = 1 then { r with yes := r.yes.add x }
  else if k = 2 then { r with abstain := r.abstain.add x }
  else if k = 3 then { r with no := r.no.add x }
  else if k = 4 then { r with veto := r.veto.add x }
  else if k = 5 then { r with spam := r.spam.add x }
  else r

/-- `(votingPower, vote.Options)`: one execution of the inner `for _, option := range …` loop + `totalVP.Add` -/
structure Ballot where
  power : Dec
  options : List WOpt
deriving DecidableEq, Repr

/-- `validators[k]` -/
def look (vs : List Val) (k : String) : Option Val := vs.find? (fun v => v.addr == k)

def upd {β : Type} (f : String → β) (k : String) (x : β) : String → β := fun a => if a = k then x else f a

/-- delegation shares * bonded / total shares -/
def power (shares : Dec) (v : Val) : Dec := (shares.mulInt v.bonded).quo v.shares

structure Acc where
  ded : String → Dec
  vote : String → List WOpt
  ballots : List Ballot := []
  scBonded : Dec := Dec.zero
  ok : Bool := true

def Acc.init (vs : List Val) : Acc :=
  { ded := fun a => match look vs a with | some v => v.ded | none => Dec.zero,
    vote := fun a => match look vs a with | some v => v.vote | none => [] }

/-- gov.go:47-58 — callback of `IterateDelegations(shareclassAddr)` -/
def step1 (sc : String) (vs : List Val) (s : Acc) (d : Deleg) : Acc :=
  if d.delegator ≠ sc then s else
  match look vs d.validator with
  | none => s
  | some v =>
    { s with ded := upd s.ded d.validator ((s.ded d.validator).add d.shares),
             scBonded := s.scBonded.add (power d.shares v),
             ok := s.ok && (v.shares.raw != 0) }

def pass1 (sc : String) (vs : List Val) (ds : List Deleg) (s : Acc) : Acc := ds.foldl (step1 sc vs) s

/-- gov.go:94-115 — callback of `IterateDelegations(voter)` -/
def stepDel (vs : List Val) (voter : String) (opts : List WOpt) (s : Acc) (d : Deleg) : Acc :=
  if d.delegator ≠ voter then s else
  match look vs d.validator with
  | none => s
  | some v =>
    { s with ded := upd s.ded d.validator ((s.ded d.validator).add d.shares),
             ballots := s.ballots ++ [⟨power d.shares v, opts⟩],
             ok := s.ok && (v.shares.raw != 0) }

/-- gov.go:68-122 — callback of `keeper.Votes.Walk` -/
def step2 (sc : String) (vs : List Val) (ds : List Deleg) (s : Acc) (vt : Vote) : Acc :=
  if vt.voter = sc then s else
  let s1 := match look vs vt.voter with
    | some _ => { s with vote := upd s.vote vt.voter vt.options }
    | none => s
  ds.foldl (stepDel vs vt.voter vt.options) s1

def pass2 (sc : String) (vs : List Val) (ds : List Deleg) (votes : List Vote) (s : Acc) : Acc :=
  votes.foldl (step2 sc vs ds) s

/-- gov.go:135-149 — one iteration of `for _, val := range validators` -/
def ballot3 (s : Acc) (v : Val) : Option Ballot :=
  if (s.vote v.addr).isEmpty then none
  else some ⟨power (v.shares.sub (s.ded v.addr)) v, s.vote v.addr⟩

def ok3 (s : Acc) (vs : List Val) : Bool :=
  vs.all fun v => (s.vote v.addr).isEmpty || (v.shares.raw != 0)

def pass3 (s : Acc) (vs : List Val) : List Ballot := vs.filterMap (ballot3 s)

def addBallot (a : Dec × Results) (b : Ballot) : Dec × Results :=
  (a.1.add b.power, b.options.foldl (fun r o => r.addTo o.opt (b.power.mul o.weight)) a.2)

def accumulate (bs : List Ballot) : Dec × Results := bs.foldl addBallot (Dec.zero, {})

/-- gov.go:151-171 (fixed): rescale the turnout by bonded / (bonded − non-voting bonded); nothing to rescale when the
    denominator is not positive -/
def rescale (totalVP : Dec) (bonded : Int) (scBonded : Dec) : Dec :=
  let denominator := (Dec.ofInt bonded).sub scBonded
  if denominator.isPositive then (totalVP.mulInt bonded).quo denominator else totalVP

def finalAcc (sc : String) (vs : List Val) (ds : List Deleg) (votes : List Vote) : Acc :=
  pass2 sc vs ds votes (pass1 sc vs ds (Acc.init vs))

def allBallots (sc : String) (vs : List Val) (ds : List Deleg) (votes : List Vote) : List Ballot :=
  let s := finalAcc sc vs ds votes
  s.ballots ++ pass3 s vs

/-- the custom `CalculateVoteResultsAndVotingPowerFn` -/
def tally (sc : String) (vs : List Val) (ds : List Deleg) (votes : List Vote) (bonded : Int) : Res (Dec × Results) :=
  let s := finalAcc sc vs ds votes
  if s.ok && ok3 s vs then
    let a := accumulate (s.ballots ++ pass3 s vs)
    .ok (rescale a.1 bonded s.scBonded, a.2)
  else .panic .divZero

/-! ### Specification-level quantities (used by Props/C16; not part of the code model) -/

/-- Σ of the voting powers of a list of ballots -/
def sumPower (bs : List Ballot) : Dec := bs.foldl (fun t b => t.add b.power) Dec.zero

/-- the voting power that voted: own stake of every (non share-class) voter + the remaining stake of every voting
    validator, share-class stake excluded -/
def votedVP (sc : String) (vs : List Val) (ds : List Deleg) (votes : List Vote) : Dec :=
  sumPower (allBallots sc vs ds votes)

/-- Σ over the share-class account's delegations to TALLIED validators of shares · bonded / validatorShares (tokens) -/
def nonVotingBonded (sc : String) (vs : List Val) (ds : List Deleg) : Dec :=
  ds.foldl (fun t d => if d.delegator ≠ sc then t else
    match look vs d.validator with
    | none => t
    | some v => t.add (power d.shares v)) Dec.zero

/-- the delegation graph with the share-class account's delegations removed -/
def withoutSC (sc : String) (ds : List Deleg) : List Deleg := ds.filter (fun d => d.delegator ≠ sc)

end Sunrise.GovTally
