import SunriseVerif.Model.Dec
import SunriseVerif.Model.Result
import SunriseVerif.Gen.KernelsCL
/-!
  x/liquiditypool/types: math.go `Pow`, `PowApprox`, `AbsDifferenceWithSign`; tick.go `TickToMultipliedPrice`,
  `TickToSqrtPrice`, `CalculateMultipliedPriceToTick`, `CalculateSqrtPriceToTick`, `GetSqrtPriceFromQuoteBase`.
  Hand-written (loops); every unmetered Go loop takes explicit fuel and reports `err "fuel"` when it runs out, so
  non-termination of the real code is an observable outcome of the model rather than a hang.
  TICK_MIN / TICK_MAX are the int64 bounds.
-/
namespace Sunrise.TickMath
open Sunrise Sunrise.Gen.KernelsCL

def TICK_MIN : Int := -9223372036854775808
def TICK_MAX : Int := 9223372036854775807

structure TickParams where
  ratio : Dec
  offset : Dec
deriving Repr, DecidableEq, Inhabited

def powPrecision : Dec := ⟨10000000000⟩      -- 0.00000001
def oneHalf : Dec := ⟨500000000000000000⟩

/-- AbsDifferenceWithSign -/
def absDiffSign (a b : Dec) : Dec × Bool :=
  if a.raw ≥ b.raw then (Dec.sub a b, false) else (Dec.add (Dec.neg a) b, true)

/-- the series loop of PowApprox; state (term, sum, negative, a, bigK), i counts from 1 -/
def powApproxLoop (exponent x : Dec) (xneg : Bool) (precision : Dec) :
    Nat → Int → Dec → Dec → Bool → Dec → Dec → Res Dec
  | 0, _, _, _, _, _, _ => .err "fuel"
  | fuel+1, i, term, sum, negative, a, bigK =>
    if term.raw ≥ precision.raw then
      let (c, cneg) := absDiffSign a bigK
      let bigK' := Dec.ofInt i
      let term' := Dec.quo (Dec.mul (Dec.mul term c) x) bigK'
      let a' := exponent
      if term'.isZero then .ok sum
      else
        let negative1 := if xneg then !negative else negative
        let negative2 := if cneg then !negative1 else negative1
        let sum' := if negative2 then Dec.sub sum term' else Dec.add sum term'
        powApproxLoop exponent x xneg precision fuel (i + 1) term' sum' negative2 a' bigK'
    else .ok sum

/-- PowApprox(base, exponent, precision); panics when base ≤ 0 -/
def powApprox (base exponent precision : Dec) : Res Dec :=
  if !base.isPositive then .panic .explicit
  else if exponent.isZero then .ok Dec.one
  else if exponent == oneHalf then .ok (Dec.approxSqrt base)
  else
    let (x, xneg) := absDiffSign base Dec.one
    powApproxLoop exponent x xneg precision 5000000 1 Dec.one Dec.one false exponent Dec.zero

/-- Pow(base, exponent): integer part by Power, fractional part by PowApprox -/
def pow (base exponent : Dec) : Res Dec :=
  if !base.isPositive then .panic .explicit
  else
    let integer := Dec.truncateDec exponent
    let fractional := Dec.sub exponent integer
    -- uint64(integer.TruncateInt64()): a negative integer part wraps to a huge exponent in Go; treated as out of model
    if integer.raw < 0 then .err "negative-exponent-out-of-model"
    else
      match Dec.powerC base (Dec.truncateInt integer).toNat with
      | none => .panic .intRange
      | some integerPow =>
        if fractional.isZero then .ok integerPow
        else (powApprox base fractional powPrecision).bind fun f =>
          let r := Dec.mul integerPow f
          if r.inRange then .ok r else .panic .intRange

def tickToMultipliedPriceRaw (tick : Int) (tp : TickParams) : Res Dec := do
  let offsetPrice ← pow tp.ratio tp.offset
  if tick = 0 then return Dec.mul offsetPrice Multiplier
  if tick = TICK_MIN then return MinMultipliedSpotPrice
  let p ← if tick > 0 then (do
            let q ← pow tp.ratio (Dec.ofInt tick)
            let r := Dec.mul Multiplier q
            if r.inRange then pure r else Res.panic .intRange)
          else (do
            let q ← pow tp.ratio (Dec.ofInt (-tick))
            if q.isZero then Res.panic .divZero else pure (Dec.quo Multiplier q))
  let mp := Dec.mul p offsetPrice
  if !mp.inRange then Res.panic .intRange
  if mp.raw > MaxMultipliedSpotPrice.raw ∨ mp.raw < MinMultipliedSpotPrice.raw then Res.err "price-out-of-bound"
  else return mp

/-- TickToMultipliedPrice: a deferred recover turns every panic inside (range overflow of Pow, non-positive ratio,
    division by a power that rounded to zero) into ErrPriceOutOfBound -/
def tickToMultipliedPrice (tick : Int) (tp : TickParams) : Res Dec :=
  match tickToMultipliedPriceRaw tick tp with
  | .panic _ => .err "price-out-of-bound"
  | r => r

def tickToSqrtPrice (tick : Int) (tp : TickParams) : Res Dec := do
  let pm ← tickToMultipliedPrice tick tp
  return Dec.quo (Dec.approxSqrt pm) MultiplierSqrt

def ticksToSqrtPrice (lo hi : Int) (tp : TickParams) : Res (Dec × Dec) := do
  if lo ≥ hi then Res.err "ticks-order"
  let u ← tickToSqrtPrice hi tp
  let l ← tickToSqrtPrice lo tp
  return (l, u)

/-- the two search loops of CalculateMultipliedPriceToTick (no gas meter in Go); as fixed, a step that does not move
    the price ends the search with ErrPriceOutOfBound -/
def searchUp (ratio target : Dec) : Nat → Dec → Int → Res Int
  | 0, _, _ => .err "fuel"
  | fuel+1, p, t =>
    if p.raw > target.raw then
      if ratio.isZero then .panic .divZero
      else
        let next := Dec.quo p ratio
        if !(next.raw < p.raw) then .err "price-out-of-bound" else searchUp ratio target fuel next (t + 1)
    else .ok t

def searchDown (ratio target : Dec) : Nat → Dec → Int → Res Int
  | 0, _, _ => .err "fuel"
  | fuel+1, p, t =>
    if p.raw < target.raw then
      let next := Dec.mul p ratio
      if !(next.raw > p.raw) then .err "price-out-of-bound" else searchDown ratio target fuel next (t - 1)
    else .ok t

def SEARCH_FUEL : Nat := 3000000

def multipliedPriceToTick (mp : Dec) (tp : TickParams) : Res Int := do
  if mp.isNegative then Res.err "negative-price"
  if mp.raw > MaxMultipliedSpotPrice.raw ∨ mp.raw < MinMultipliedSpotPrice.raw then Res.err "price-out-of-bound"
  let po ← pow tp.ratio tp.offset
  let off := Dec.mul Multiplier po
  if mp == off then return 0
  if mp.raw > off.raw then searchUp tp.ratio off SEARCH_FUEL mp 0
  else searchDown tp.ratio off SEARCH_FUEL mp 0

def sqrtPriceToTick (sqrtPrice : Dec) (tp : TickParams) : Res Int := do
  let mp := Dec.mul (Dec.mul Multiplier sqrtPrice) sqrtPrice
  let tick0 ← multipliedPriceToTick mp tp
  if tick0 < TICK_MIN then Res.err "invalid-tickers"
  let (tick, oob) :=
    if tick0 ≤ TICK_MIN then (TICK_MIN + 1, true)
    else if tick0 ≥ TICK_MAX - 1 then (TICK_MAX - 2, true)
    else (tick0, false)
  let wrap (r : Res Dec) : Res Dec := match r with | .ok v => .ok v | .err _ => .err "sqrt-price-to-tick" | .panic k => .panic k
  let p1 ← wrap (tickToSqrtPrice (tick + 1) tp)
  if sqrtPrice.raw ≥ p1.raw then
    let p2 ← wrap (tickToSqrtPrice (tick + 2) tp)
    if (!oob ∧ sqrtPrice.raw ≥ p2.raw) ∨ (oob ∧ sqrtPrice.raw > p2.raw) then Res.err "sqrt-price-to-tick"
    else if sqrtPrice == p2 then return tick + 2
    else return tick + 1
  else
    let p0 ← wrap (tickToSqrtPrice tick tp)
    if sqrtPrice.raw ≥ p0.raw then return tick
    else
      let pm ← wrap (tickToSqrtPrice (tick - 1) tp)
      if sqrtPrice.raw < pm.raw then Res.err "sqrt-price-to-tick"
      else return tick - 1

/-- GetSqrtPriceFromQuoteBase -/
def sqrtPriceFromQuoteBase (quote base : Int) : Res Dec :=
  if base = 0 then .panic .divZero
  else
    let sp := Dec.quo (Dec.mul (Dec.ofInt quote) Multiplier) (Dec.ofInt base)
    .ok (Dec.quo (Dec.approxSqrt sp) MultiplierSqrt)

end Sunrise.TickMath
